/-
  Fbr.PtDir — executable model of directory listing in the passthrough file system
  (src/passthrough/sync_io.rs: `do_readdir`, `skip_to_cookie`, `last_cookie_in_buf`,
  `only_dot_entries`, `consume_cached_cookie`, `cache_cookie`, `readdir`, `readdirplus`,
  `opendir`, `releasedir`; src/passthrough/mod.rs: `HandleMap.cookies`, `do_release`) and of
  `PseudoFs::do_readdir` (src/api/pseudo_fs.rs).

  Two layers, tied by theorems in `Fbr.Lemmas.PtDirBuf` / `Fbr.Thm.C16`:
  * byte level — `skipToCookie`, `lastCookieInBuf`, `onlyDotEntries` work on the raw
    `getdents64` buffer exactly like the Rust loops (header fields at fixed offsets, the
    `reclen` guards of each loop, the `Vec::drain` that panics on a malformed record);
  * record level — `doReaddir` and the host (`getdents`, `lseek`) work on the list of records
    the buffer encodes (`encodeAll`); `skipToCookieL`, `lastCookieL`, `onlyDotsL` are the
    record-level readings of the three helpers and are proved equal to the byte-level ones on
    every encoded buffer.

  The host directory is an argument: a list of records `(ino, cookie = d_off, type, name)` in
  host order; in the correspondence run it is the ACTUAL listing read with a raw getdents64 by
  the harness.  `seekErr` (the errno of `lseek64(fd, off, SEEK_SET)`, if any) is a host answer
  too.  The per-entry callback is an argument (`Cb`); `srvCb` is the server's `add_dirent`
  accounting, reused from `Fbr.Srv`.
-/
import Fbr.Wire
import Fbr.Srv

namespace Fbr.PtDir
open Fbr.Wire

def I64_MAX : Nat := 2 ^ 63 - 1
def EIO : Nat := 5
def EBADF : Nat := 9
def EINVAL : Nat := 22
def ENOSYS : Nat := 38

/-! ### host directory records -/

structure HEnt where
  ino : Nat
  cookie : Nat      -- d_off
  type : Nat        -- d_type
  name : Bytes      -- without the terminating NUL
  deriving Repr, DecidableEq, Inhabited

abbrev Dir := List HEnt

/-- `size_of::<LinuxDirent64>()` (repr(C, packed): u64 + i64 + u16 + u8) -/
def HDR : Nat := 19

/-- the kernel's `d_reclen`: `ALIGN(offsetof(linux_dirent64, d_name) + namlen + 1, 8)` -/
def reclen (e : HEnt) : Nat := (HDR + e.name.length + 1 + 7) / 8 * 8

/-- the name area of the record: the name, NUL-padded up to `d_reclen` -/
def nameField (e : HEnt) : Bytes := e.name ++ zeros (reclen e - HDR - e.name.length)

def encode (e : HEnt) : Bytes :=
  le64 e.ino ++ le64 e.cookie ++ le16 (reclen e) ++ [UInt8.ofNat e.type] ++ nameField e

def encodeAll : Dir → Bytes
  | [] => []
  | e :: r => encode e ++ encodeAll r

/-! ### byte level: the three buffer walkers -/

inductive SkipRes where
  | notFound
  | found (rest : Bytes)
  /-- `buf.drain(..cur)` with `cur > buf.len()` (matched record longer than the buffer) -/
  | panic
  deriving Repr, DecidableEq, Inhabited

/-- the `while` loop of `skip_to_cookie`; `rem = buf[cur..]`; result = `cur + target_reclen` -/
def skipScan (offset : Nat) : Nat → Bytes → Nat → Option Nat
  | 0, _, _ => none
  | fuel + 1, rem, cur =>
    if HDR ≤ rem.length then
      let rl := u16At rem 16
      if rl < HDR then none
      else if u64At rem 8 = offset then some (cur + rl)
      else skipScan offset fuel (rem.drop rl) (cur + rl)
    else none

/-- `PassthroughFs::skip_to_cookie` -/
def skipToCookie (buf : Bytes) (offset : Nat) : SkipRes :=
  match skipScan offset (buf.length + 1) buf 0 with
  | none => .notFound
  | some n => if n ≤ buf.length then .found (buf.drop n) else .panic

/-- the loop of `last_cookie_in_buf` -/
def lastCookie : Nat → Bytes → Option Nat → Option Nat
  | 0, _, last => last
  | fuel + 1, buf, last =>
    if HDR ≤ buf.length then
      let rl := u16At buf 16
      if rl < HDR || rl > buf.length then last
      else lastCookie fuel (buf.drop rl) (some (u64At buf 8))
    else last

/-- `PassthroughFs::last_cookie_in_buf` -/
def lastCookieInBuf (buf : Bytes) : Option Nat := lastCookie (buf.length + 1) buf none

def DOT : Bytes := [46, 0]
def DOTDOT : Bytes := [46, 46, 0]

/-- `name.starts_with(CURRENT_DIR_CSTR) || name.starts_with(PARENT_DIR_CSTR)` -/
def isDotName (nameArea : Bytes) : Bool := DOT.isPrefixOf nameArea || DOTDOT.isPrefixOf nameArea

/-- the loop of `only_dot_entries` -/
def onlyDots : Nat → Bytes → Bool
  | 0, _ => true
  | fuel + 1, buf =>
    if HDR ≤ buf.length then
      let rl := u16At buf 16
      if rl < HDR || rl > buf.length then false
      else if !isDotName ((buf.drop HDR).take (rl - HDR)) then false
      else onlyDots fuel (buf.drop rl)
    else true

/-- `PassthroughFs::only_dot_entries` -/
def onlyDotEntries (buf : Bytes) : Bool := onlyDots (buf.length + 1) buf

/-! ### record level readings of the same helpers -/

def isDot (e : HEnt) : Bool := isDotName (nameField e)

/-- records after the first one whose `d_off` is `offset`; `none` = not found -/
def skipToCookieL : Dir → Nat → Option Dir
  | [], _ => none
  | e :: r, offset => if e.cookie = offset then some r else skipToCookieL r offset

def lastCookieL (b : Dir) : Option Nat := b.getLast?.map (·.cookie)

def onlyDotsL (b : Dir) : Bool := b.all isDot

/-- `bytes_to_cstr(name).to_bytes()`: the name area up to its first NUL -/
def trimName (nameArea : Bytes) : Bytes := nameArea.takeWhile (· != 0)

/-! ### the host kernel: an open directory fd is a position (0 = start, else the `d_off` of the
    last record consumed) -/

/-- records that follow position `pos` -/
def after (d : Dir) (pos : Nat) : Dir :=
  if pos = 0 then d else (skipToCookieL d pos).getD []

/-- longest prefix whose records fit in `size` bytes -/
def fitPrefix : Nat → Dir → Dir
  | _, [] => []
  | size, e :: r => if reclen e ≤ size then e :: fitPrefix (size - reclen e) r else []

/-- `getdents64(fd, buf, size)` at position `pos`: the batch and the new position, or `EINVAL`
    when not even the first record fits -/
def getdents (d : Dir) (size pos : Nat) : Except Nat (Dir × Nat) :=
  match after d pos with
  | [] => .ok ([], pos)
  | e :: r =>
    if reclen e > size then .error EINVAL
    else
      let b := fitPrefix size (e :: r)
      .ok (b, (lastCookieL b).getD pos)

structure Host where
  dir : Dir
  /-- errno of `lseek64(fd, off, SEEK_SET)` on the directory, `none` = success -/
  seekErr : Nat → Option Nat := fun _ => none
  /-- this host's ext4 (htree readdir) has the following defect, probed by the harness at start-up
      and modelled so that predictions stay exact: if the FIRST getdents64 on an fd happens at the
      end-of-directory position (`lseek64(fd, 0x7fff_ffff_ffff_ffff)`), the next getdents64 after
      `lseek64(fd, 0)` returns nothing (the per-fd readdir state keeps the end-of-directory hash
      because its `last_pos` is still 0).  Every theorem of C16 assumes `eofQuirk = false`. -/
  eofQuirk : Bool := false

/-- an open directory descriptor: position plus the two bits of per-fd readdir state the
    `eofQuirk` depends on (`fresh`: no getdents64 yet; `stale`: the first one happened at EOF) -/
structure Fd where
  pos : Nat := 0
  fresh : Bool := true
  stale : Bool := false
  deriving Repr, DecidableEq, Inhabited

/-- `getdents64` on a descriptor -/
def getdentsFd (H : Host) (size : Nat) (fd : Fd) : Except Nat Dir × Fd :=
  if H.eofQuirk && fd.pos == I64_MAX then
    (.ok [], { fd with fresh := false, stale := fd.stale || fd.fresh })
  else if H.eofQuirk && fd.stale && fd.pos == 0 then
    (.ok [], { pos := I64_MAX, fresh := false, stale := false })
  else
    match getdents H.dir size fd.pos with
    | .error e => (.error e, { fd with fresh := false, stale := false })
    | .ok (b, p) => (.ok b, { pos := p, fresh := false, stale := false })

/-! ### file-system state -/

structure St where
  noOpendir : Bool := false
  /-- `HandleMap.handles`, directory streams only: handle ↦ its descriptor -/
  fds : Nat → Option Fd := fun _ => none
  /-- `HandleMap.cookies` -/
  cache : Nat → Option Nat := fun _ => none
  /-- `next_handle` -/
  next : Nat := 1
  /-- lookup references taken and kept by readdirplus: one element (the host inode) per
      reference, newest first -/
  refs : List Nat := []

def upd {α : Type} (f : Nat → α) (k : Nat) (v : α) : Nat → α := fun x => if x = k then v else f x

/-- `DirEntry` handed to the callback -/
structure Offer where
  ino : Nat
  off : Nat
  type : Nat
  name : Bytes
  deriving Repr, DecidableEq, Inhabited

inductive CbRes where
  | ok (n : Nat)
  | err (errno : Nat)
  deriving Repr, DecidableEq, Inhabited

/-- the `add_entry` callback with its own state -/
abbrev Cb (σ : Type) := σ → Offer → σ × CbRes

/-- result of the record loop -/
structure LoopRes (σ : Type) where
  cb : σ
  refs : List Nat
  ret : Except Nat Unit

/-- the `while !rem.is_empty()` loop of `do_readdir` together with the closures of `readdir`
    (`do_lookup` + `forget_one`, net zero) and `readdirplus` (`do_lookup`; the reference is given
    back unless the callback returned `Ok(n)`, `n > 0`).  `first` = no record consumed yet
    (`rem.len() == orig_rem_len`). -/
def entryLoop {σ : Type} (plus : Bool) (cb : Cb σ) : Dir → Bool → σ → List Nat → LoopRes σ
  | [], _, s, refs => { cb := s, refs := refs, ret := .ok () }
  | e :: rest, first, s, refs =>
    if isDot e then entryLoop plus cb rest false s refs         -- `Ok(1)`
    else
      let o : Offer := { ino := e.ino, off := e.cookie, type := e.type, name := trimName (nameField e) }
      let (s', r) := cb s o
      match r with
      | .ok 0 => { cb := s', refs := refs, ret := .ok () }       -- undone (plus) / never kept
      | .ok _ =>
        entryLoop plus cb rest false s' (if plus then e.ino :: refs else refs)
      | .err errno =>
        { cb := s', refs := refs, ret := if first then .error errno else .ok () }

/-- result of positioning/reading: the batch or an errno, and the descriptor afterwards -/
abbrev Fetch := Except Nat Dir × Fd

/-- the linear-scan fallback: `lseek64(fd, 0)` then batches until the record whose `d_off` is
    `offset` has been consumed -/
def scan (H : Host) (size offset : Nat) : Nat → Fd → Bool → Fetch
  | 0, fd, _ => (.ok [], fd)
  | fuel + 1, fd, found =>
    match getdentsFd H size fd with
    | (.error e, fd') => (.error e, fd')
    | (.ok b, fd') =>
      if b.isEmpty then (.ok [], fd')
      else if found then (.ok b, fd')
      else
        match skipToCookieL b offset with
        | some rest => if !rest.isEmpty then (.ok rest, fd') else scan H size offset fuel fd' true
        | none => scan H size offset fuel fd' false

/-- `while !buf.is_empty() && only_dot_entries(&buf) { getdents64 }` -/
def refetch (H : Host) (size : Nat) : Nat → Dir → Fd → Fetch
  | 0, b, fd => (.ok b, fd)
  | fuel + 1, b, fd =>
    if !b.isEmpty && onlyDotsL b then
      match getdentsFd H size fd with
      | (.error e, fd') => (.error e, fd')
      | (.ok b', fd') => refetch H size fuel b' fd'
    else (.ok b, fd)

/-- position the fd (cached-cookie fast path / `lseek64` / fallback) and read the first batch -/
def fetch (H : Host) (hit : Bool) (fd : Fd) (size offset : Nat) : Fetch :=
  if hit then getdentsFd H size fd
  else if offset > I64_MAX then scan H size offset (H.dir.length + 2) { fd with pos := 0 } false
  else match H.seekErr offset with
    | none => getdentsFd H size { fd with pos := offset }
    | some errno =>
      if errno = EINVAL then scan H size offset (H.dir.length + 2) { fd with pos := 0 } false
      else (.error errno, fd)

structure RdRes (σ : Type) where
  st : St
  cb : σ
  ret : Except Nat Unit

/-- store the descriptor of `h` (nothing to store in `no_opendir` mode: the fd is dropped) -/
def setFd (st : St) (h : Nat) (fd : Fd) : St :=
  if st.noOpendir then st else { st with fds := upd st.fds h (some fd) }

/-- `PassthroughFs::do_readdir` behind `readdir` (`plus = false`) / `readdirplus` -/
def doReaddir {σ : Type} (H : Host) (st : St) (plus : Bool) (h size offset : Nat) (cb : Cb σ) (s0 : σ) :
    RdRes σ :=
  if size = 0 then { st := st, cb := s0, ret := .ok () }
  else
    -- get_dirdata
    match (if st.noOpendir then some ({} : Fd) else st.fds h) with
    | none => { st := st, cb := s0, ret := .error EBADF }
    | some fd0 =>
      -- consume_cached_cookie
      let hit := !st.noOpendir && st.cache h == some offset
      let st1 : St := if st.noOpendir then st else { st with cache := upd st.cache h none }
      match fetch H hit fd0 size offset with
      | (.error e, fde) => { st := setFd st1 h fde, cb := s0, ret := .error e }
      | (.ok b0, fd1) =>
        match refetch H size (H.dir.length + 1) b0 fd1 with
        | (.error e, fde) => { st := setFd st1 h fde, cb := s0, ret := .error e }
        | (.ok b, fd2) =>
          -- cache_cookie
          let st2 : St :=
            if st1.noOpendir then st1
            else match lastCookieL b with
              | some c => { st1 with cache := upd st1.cache h (some c) }
              | none => st1
          let st3 := setFd st2 h fd2
          let lr := entryLoop plus cb b true s0 st3.refs
          { st := { st3 with refs := lr.refs }, cb := lr.cb, ret := lr.ret }

/-- `opendir`: `(state, Ok(handle) | Err)` -/
def opendir (st : St) : St × Except Nat Nat :=
  if st.noOpendir then (st, .error ENOSYS)
  else ({ st with fds := upd st.fds st.next (some {}), next := st.next + 1 }, .ok st.next)

/-- `releasedir` → `do_release`: the handle and its cached cookie go away -/
def releasedir (st : St) (h : Nat) : St × Except Nat Unit :=
  if st.noOpendir then (st, .error ENOSYS)
  else match st.fds h with
    | none => (st, .error EBADF)
    | some _ => ({ st with fds := upd st.fds h none, cache := upd st.cache h none }, .ok ())

/-! ### the server's accounting as the callback (`add_dirent`, reused from `Fbr.Srv`) -/

structure Acc where
  written : Nat := 0
  out : List Offer := []      -- delivered, in order
  offered : Nat := 0
  deriving Repr, Inhabited

/-- `add_dirent(cursor, size, d, entry)` with a cursor of at least `size` bytes; `errAt = some k`
    makes the `k`-th offer of this call fail with `EIO` (harness-injected callback error) -/
def srvCb (size : Nat) (plus : Bool) (errAt : Option Nat) : Cb Acc := fun a o =>
  if errAt = some a.offered then ({ a with offered := a.offered + 1 }, .err EIO)
  else
    let d : Srv.DirEnt := { ino := o.ino, off := o.off, type := o.type, name := o.name }
    match (Srv.addDirent size size a.written d (if plus then some default else none)).2 with
    | .ok 0 => ({ a with offered := a.offered + 1 }, .ok 0)
    | .ok n => ({ written := a.written + n, out := a.out ++ [o], offered := a.offered + 1 }, .ok n)
    | .error _ => ({ a with offered := a.offered + 1 }, .err EIO)

/-- one READDIR / READDIRPLUS request: new state, delivered entries or errno -/
def readReq (H : Host) (st : St) (plus : Bool) (h size offset : Nat) (errAt : Option Nat) :
    St × Except Nat (List Offer) :=
  let r := doReaddir H st plus h size offset (srvCb size plus errAt) ({} : Acc)
  match r.ret with
  | .ok () => (r.st, .ok r.cb.out)
  | .error e => (r.st, .error e)

/-! ### PseudoFs::do_readdir -/

structure PChild where
  ino : Nat
  name : Bytes
  deriving Repr, DecidableEq, Inhabited

def pseudoLoop {σ : Type} (cb : Cb σ) : List PChild → Nat → σ → σ × Except Nat Unit
  | [], _, s => (s, .ok ())
  | c :: rest, next, s =>
    let (s', r) := cb s { ino := c.ino, off := next, type := 0, name := c.name }
    match r with
    | .ok 0 => (s', .ok ())
    | .ok _ => pseudoLoop cb rest (next + 1) s'
    | .err e => (s', .error e)

/-- `PseudoFs::do_readdir`; `next = offset + 1` is computed after the bounds check (fix e2b0675),
    so no offset can overflow it -/
def pseudoReaddir {σ : Type} (children : List PChild) (size offset : Nat) (cb : Cb σ) (s0 : σ) :
    σ × Except Nat Unit :=
  if size = 0 then (s0, .ok ())
  else if offset ≥ children.length then (s0, .ok ())
  else pseudoLoop cb (children.drop offset) (offset + 1) s0

/-- one READDIR(PLUS) on a pseudo directory -/
def pseudoRead (children : List PChild) (plus : Bool) (size offset : Nat) (errAt : Option Nat) :
    Except Nat (List Offer) :=
  match pseudoReaddir children size offset (srvCb size plus errAt) ({} : Acc) with
  | (a, .ok ()) => .ok a.out
  | (_, .error e) => .error e

end Fbr.PtDir
