/-
  Fbr.XportSpec — the specification the transport cursors are measured against:
  ONE FLAT LIST AND A CURSOR.

  A buffer list denotes the flat list of byte addresses `(region, index)` it covers, in order
  (`addrs`); its content is that list mapped through memory.  The specification of every cursor
  operation is `take` / `drop` on the flat list plus arithmetic on the cursor (`Spec`).
-/
import Fbr.Xport

namespace Fbr.Xport

abbrev Addr := Nat × Nat

/-- the byte addresses of one buffer, in order -/
def segAddrs (s : Seg) : List Addr := (List.range s.len).map fun i => (s.region, s.off + i)

/-- the flat address list of a buffer list -/
def addrs : List Seg → List Addr
  | [] => []
  | s :: rest => segAddrs s ++ addrs rest

def Access.seg (a : Access) : Seg := { region := a.region, off := a.off, len := a.len }

/-- every address written (resp. read) by the raw accesses of a log, in order of access -/
def wrAddrs : List Access → List Addr
  | [] => []
  | a :: rest => (if a.write then segAddrs a.seg else []) ++ wrAddrs rest

def rdAddrs : List Access → List Addr
  | [] => []
  | a :: rest => (if a.write then [] else segAddrs a.seg) ++ rdAddrs rest

/-- the byte at an address (0 outside the region; never consulted there, see `WF`) -/
def Mem.byteAt (m : Mem) (a : Addr) : UInt8 := (m.get a.1).getD a.2 0

/-- the page of an address for page size `p` -/
def pageOf (p : Nat) (a : Addr) : Nat × Nat := (a.1, a.2 / p)

/-- buffers lie inside their regions -/
def WF (m : Mem) (segs : List Seg) : Prop := ∀ s ∈ segs, s.off + s.len ≤ (m.get s.region).length

instance (m : Mem) (segs : List Seg) : Decidable (WF m segs) := by unfold WF; infer_instance

/-! ### the specification: a flat list and a cursor -/

structure Spec (α : Type) where
  rest : List α      -- what is still ahead of the cursor
  cursor : Nat       -- how much has been passed
  deriving Repr

namespace Spec
variable {α : Type}

/-- pass at most `n` elements: returns them -/
def advance (s : Spec α) (n : Nat) : List α × Spec α :=
  (s.rest.take n, { rest := s.rest.drop n, cursor := s.cursor + min n s.rest.length })

/-- split at `k ≤ length`: `self` keeps the first `k` elements, `other` gets the rest with a fresh cursor -/
def split (s : Spec α) (k : Nat) : Option (Spec α × Spec α) :=
  if k ≤ s.rest.length then some ({ rest := s.rest.take k, cursor := s.cursor }, { rest := s.rest.drop k, cursor := 0 })
  else none

end Spec

/-- abstraction of a cursor: its flat address list and its counter -/
def IoBufs.abs (b : IoBufs) : Spec Addr := { rest := addrs b.segs, cursor := b.consumed }

/-- abstraction of a cursor together with memory: the flat *byte* list and the counter -/
def IoBufs.absBytes (b : IoBufs) (m : Mem) : Spec UInt8 := { rest := flat m b.segs, cursor := b.consumed }

end Fbr.Xport
