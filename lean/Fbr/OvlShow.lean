/-
  Fbr.OvlShow — parsing of `ovl` case lines (layer specifications, operation histories) and the
  canonical printing the harness (`harness/src/bin/ovl.rs`, `harness/src/ovlhost.rs`) uses.
-/
import Fbr.Proto
import Fbr.Ovl

namespace Fbr.OvlShow
open Fbr.Proto Fbr.Ovl

def nameOfChar (c : Char) : Name := ⟨(c.toNat - 'a'.toNat) % 5, by omega⟩
def charOfName (n : Name) : Char := Char.ofNat (n.val + 'a'.toNat)

/-- "abc" -> [0,1,2] (root first) -/
def parsePath (s : String) : List Name := s.toList.map nameOfChar
def showPath (p : List Name) : String := String.ofList (p.map charOfName)

def octDigits : Nat → Nat → List Char
  | 0, _ => []
  | fuel + 1, n => if n < 8 then [Char.ofNat (n + 48)] else octDigits fuel (n / 8) ++ [Char.ofNat (n % 8 + 48)]

def showOct (n : Nat) : String := String.ofList (octDigits 24 n)

def parseOct (s : String) : Nat := s.toList.foldl (fun acc c => acc * 8 + (c.toNat - 48)) 0

def parseChunks (s : String) : List Nat :=
  if s == "_" || s.isEmpty then [] else (s.splitOn "-").filterMap String.toNat?

def showChunks (c : List Nat) : String :=
  if c.isEmpty then "_" else "-".intercalate (c.map toString)

/-- `d.755.1.0` etc.; `id` is the inode id a regular file gets -/
def parseNode (s : String) (id : Nat) : Node :=
  match s.splitOn "." with
  | ["d", m, o, x] => .dir (parseOct m) (o.toNat?.getD 0) (x.toNat?.getD 0)
  | ["f", m, c, x] => .file id (parseOct m) (parseChunks c) (x.toNat?.getD 0)
  | ["l", t] => .symlink (t.toNat?.getD 0)
  | ["w"] => .whiteout
  | ["o", m] => .other id (parseOct m)
  | _ => .absent

def showNode : Node → String
  | .dir m o x => s!"d.{showOct m}.{o}.{x}"
  | .file _ m c x => s!"f.{showOct m}.{showChunks c}.{x}"
  | .symlink t => s!"l.{t}"
  | .whiteout => "w"
  | .other _ m => s!"o.{showOct m}"
  | .absent => "-"

def showVNode : VNode → String
  | .dir m x => s!"d.{showOct m}.{x}"
  | .file m c x => s!"f.{showOct m}.{showChunks c}.{x}"
  | .symlink t => s!"l.{t}"
  | .other m => s!"o.{showOct m}"
  | .none => "-"

/-- a layer from `path:node,path:node,...`; the root is a 755 directory unless given -/
def parseLayer (s : String) (idBase : Nat) : Layer :=
  let root : Layer := fun q => if q = [] then .dir 0o755 0 0 else .absent
  if s == "-" || s.isEmpty then root else
  let (L, _) := (s.splitOn ",").foldl (fun (acc : Layer × Nat) e =>
    let (L, i) := acc
    match e.splitOn ":" with
    | [p, spec] => (L.set (parsePath p).reverse (parseNode spec (idBase + i)), i + 1)
    | _ => (L, i + 1)) (root, 0)
  L

def parseDisk (kv : List (String × String)) : Disk :=
  let up := getNatD kv "up" 1
  let nl := getNatD kv "nl" 1
  { upper := if up == 1 then some (parseLayer (getD kv "L0" "-") 1000) else none,
    lowers := (List.range nl).map fun i => parseLayer (getD kv s!"L{i + 1}" "-") (2000 + 1000 * i) }

def parseFlag (s : String) : OFlag :=
  match s with
  | "w" => .w | "rw" => .rw | "wt" => .wt | "wa" => .wa | "rt" => .rt | "ra" => .ra | _ => .r

def parseOp (s : String) : Option Op :=
  -- `cup,<request>`: the same request, with a second client reading the target while the
  -- request's copy-up is in flight (sequentially equivalent to the request alone)
  let s := if s.startsWith "cup," then String.ofList (s.toList.drop 4) else s
  match s.splitOn "," with
  | ["lookup", p] => some (.lookup (parsePath p))
  | ["readdir", p] => some (.readdir (parsePath p))
  | ["create", p, m] => some (.create (parsePath p) (parseOct m))
  | ["mkdir", p, m] => some (.mkdir (parsePath p) (parseOct m))
  | ["mknod", p, m] => some (.mknod (parsePath p) (parseOct m))
  | ["symlink", p, t] => some (.symlink (parsePath p) (t.toNat?.getD 0))
  | ["link", a, b] => some (.link (parsePath a) (parsePath b))
  | ["unlink", p] => some (.unlink (parsePath p))
  | ["rmdir", p] => some (.rmdir (parsePath p))
  -- "nl": the harness learns the entry from READDIRPLUS instead of LOOKUP; same request
  | ["unlink", p, _] => some (.unlink (parsePath p))
  | ["rmdir", p, _] => some (.rmdir (parsePath p))
  -- the same UNLINK, with a second client's first LOOKUP of the parent directory in flight
  | ["race", p] => some (.unlink (parsePath p))
  -- the same SETATTR with a handle from a read-only open passed along
  | ["chmod", p, m, _] => some (.chmod (parsePath p) (parseOct m))
  | ["open", p, f] => some (.open (parsePath p) (parseFlag f))
  | ["write", p, f, o, d] => some (.write (parsePath p) (parseFlag f) (o.toNat?.getD 0) (parseChunks d))
  | ["read", p] => some (.read (parsePath p))
  | ["readlink", p] => some (.readlink (parsePath p))
  | ["chmod", p, m] => some (.chmod (parsePath p) (parseOct m))
  | ["truncate", p, n] => some (.truncate (parsePath p) (n.toNat?.getD 0))
  | ["setx", p, v] => some (.setx (parsePath p) (v.toNat?.getD 0))
  | ["rmx", p] => some (.rmx (parsePath p))
  | ["getx", p] => some (.getx (parsePath p))
  | ["walk"] => some .walk
  | _ => none

def showMethod : Method → String
  | .mkdir => "mkdir" | .create => "create" | .mknod => "mknod" | .symlink => "symlink"
  | .link => "link" | .unlink => "unlink" | .rmdir => "rmdir" | .setattr => "setattr"
  | .setxattr => "setxattr" | .removexattr => "removexattr" | .write => "write"
  | .openW => "open-w" | .createWhiteout => "create_whiteout" | .deleteWhiteout => "delete_whiteout"
  | .setOpaque => "set_opaque"

/-- sorted set of `idx:method` -/
def showCalls (l : List Call) : String :=
  let strs := l.map fun c => s!"{c.layer}:{showMethod c.method}"
  let dedup := strs.foldl (fun acc s => if acc.contains s then acc else s :: acc) []
  ",".intercalate (dedup.toArray.qsort (· < ·)).toList

def showKind : Kind → String
  | .d => "d" | .f => "f" | .l => "l" | .o => "o"

def showTree (t : List (List Name × VNode)) : String :=
  ",".intercalate (t.map fun (p, v) => s!"{showPath p}:{showVNode v}")

def showErrno (e : Nat) : String := if e == EOTHER then "eX" else s!"e{e}"

def showReply : Reply → String
  | .done => "ok"
  | .attr k m => s!"ok:{showKind k}{showOct m}"
  | .names l => "ok:" ++ showPath l
  | .content c => "ok:" ++ showChunks c
  | .target t => s!"ok:{t}"
  | .xval x => s!"ok:{x}"
  | .tree t => "ok:" ++ showTree t

/-- the SPEC tree: every path whose merged node is visible, in pre-order (names ascending) -/
def specTree (d : Disk) : Nat → List Name → List (List Name × VNode)
  | 0, p => match merge d p.reverse with | .none => [] | v => [(p, v)]
  | fuel + 1, p =>
    match merge d p.reverse with
    | .none => []
    | .dir m x => (p, .dir m x) :: (names.map fun n => specTree d fuel (p ++ [n])).flatten
    | v => [(p, v)]

/-- the raw contents of a layer in pre-order (what a scan of the directory prints) -/
def layerTree (L : Layer) : Nat → List Name → List (List Name × Node)
  | 0, p => match L p.reverse with | .absent => [] | n => [(p, n)]
  | fuel + 1, p =>
    match L p.reverse with
    | .absent => []
    | .dir m o x => (p, .dir m o x) :: (names.map fun n => layerTree L fuel (p ++ [n])).flatten
    | n => [(p, n)]

def showLayer (L : Layer) : String :=
  ",".intercalate ((layerTree L 12 []).map fun (p, n) => s!"{showPath p}:{showNode n}")

def runLine (line : String) : String :=
  let kv := tokens line
  let d := parseDisk kv
  let ops := ((getD kv "ops").splitOn ";").filterMap parseOp
  let s0 := importFs d
  let (recs, _) := ops.foldl (fun (acc : List String × St) op =>
    let (out, s) := acc
    let r := step s op
    let res := match r with
      | .ok rep _ => showReply rep
      | .err e _ => showErrno e
    let s' := r.st
    let up := match s'.disk.upper with | some L => showLayer L | none => "-"
    (s!"{res}|{showCalls s'.log}|{showTree (specTree s'.disk 12 [])}|{up}" :: out, s')) ([], s0)
  ";".intercalate recs.reverse

end Fbr.OvlShow
