def hello := "world"
