/-
  Fbr.PtHost — the passthrough file system as a transducer
      request  ↦  sequence of host calls (dirfd-relative names, flags, modes, credential
                   switches)  ↦  reply,
  written function by function in the shape of `src/passthrough/{sync_io,mod,util}.rs` as they
  are now.  Every host interaction is a `Host.Prog` call, so the model can be run against a
  recorded answer script (correspondence (a)), against the reference FS, or against an arbitrary
  `HostOps` (theorems).

  Modelled: name validation, `do_lookup` (".." at the root, inode table, inode numbering with and
  without `use_host_ino`, file handles), `forget_one`, `open_inode` / `is_safe_inode` /
  `get_writeback_open_flags` / `reopen_fd_through_proc`, `set_creds` / `ScopedUid` / `ScopedGid` /
  `drop_cap_fsetid` / `CapFsetid` (acquisition order, drop order, early returns), every request of
  C05's list, and the configuration bits no_open, no_opendir, inode_file_handles, use_host_ino,
  writeback, cache policy, xattr, killpriv_v2, allow_direct_io, do_import.
  Not modelled here (other engines): readdir (ptdir), seal_size (ptseal), refcount races (conc).
-/
import Fbr.Host

namespace Fbr.PtHost
open Fbr.Host

/-! ### names (`src/api/vfs/mod.rs`) -/

def SLASH : UInt8 := 47
def DOT : UInt8 := 46

/-- `CStr::to_bytes_with_nul` -/
def withNul (n : Name) : List UInt8 := n ++ [0]

/-- `bytes.starts_with(p)` -/
def startsWith : List UInt8 → List UInt8 → Bool
  | _, [] => true
  | [], _ :: _ => false
  | a :: as, p :: ps => a == p && startsWith as ps

def CURRENT_DIR_CSTR : List UInt8 := [46, 0]
def PARENT_DIR_CSTR : List UInt8 := [46, 46, 0]

def isDotOrDotdot (n : Name) : Bool :=
  startsWith (withNul n) CURRENT_DIR_CSTR || startsWith (withNul n) PARENT_DIR_CSTR

def isSafePathComponent (n : Name) : Bool :=
  if (withNul n).contains SLASH then false else !isDotOrDotdot n

/-- `validate_path_component`: `none` = Ok, `some EINVAL` -/
def validatePathComponent (n : Name) : Option Nat :=
  if isSafePathComponent n then none else some EINVAL

/-! ### configuration -/

structure Cfg where
  noOpen : Bool := false
  noOpendir : Bool := false
  inodeFileHandles : Bool := false
  useHostIno : Bool := false
  writeback : Bool := false
  xattr : Bool := false
  killprivV2 : Bool := false
  allowDirectIo : Bool := true
  /-- `do_import`: standalone (validates names itself) vs behind a VFS -/
  doImport : Bool := true
  /-- 0 never, 1 metadata, 2 auto, 3 always -/
  cache : Nat := 2
  entryTimeout : Nat := 7
  attrTimeout : Nat := 9
  dirEntryTimeout : Nat := 11
  dirAttrTimeout : Nat := 13
  /-- capabilities the client does NOT offer at INIT: 1 WRITEBACK_CACHE, 2 ZERO_MESSAGE_OPEN,
      4 ZERO_MESSAGE_OPENDIR, 8 HANDLE_KILLPRIV_V2 -/
  nocap : Nat := 0
  deriving Repr, DecidableEq, Inhabited

/-- is the capability with this bit offered? -/
def Cfg.offered (c : Cfg) (bit : Nat) : Bool := (c.nocap / bit) % 2 == 0

/-- `PassthroughFs::new` resets conflicting options; `init` turns a runtime switch on when the
    client offers the capability and — standalone — the option is configured; behind a VFS
    (`do_import = false`) the offered set is the negotiated one and is honoured whatever the
    configuration says -/
def Cfg.effective (c : Cfg) : Cfg :=
  if c.doImport then
    { c with noOpen := c.noOpen && c.cache == 3 && c.offered 2,
             writeback := c.writeback && c.cache != 0 && c.offered 1,
             noOpendir := c.noOpendir && c.offered 4,
             killprivV2 := c.killprivV2 && c.offered 8 }
  else
    { c with noOpen := c.offered 2, writeback := c.offered 1, noOpendir := c.offered 4,
             killprivV2 := c.offered 8 }

/-! ### state -/

inductive IHandle where
  | file (fd : Fd)
  /-- a file handle, named by first occurrence of its bytes -/
  | handle (h : Nat)
  deriving Repr, DecidableEq, Inhabited

structure InodeData where
  inode : Nat
  handle : IHandle
  /-- `InodeId` (ino, dev, mnt) — the host object -/
  id : Obj
  refcount : Nat
  mode : Nat
  deriving Repr, DecidableEq, Inhabited

structure HandleData where
  inode : Nat
  fd : Fd
  flags : Nat
  deriving Repr, DecidableEq, Inhabited

structure PtState where
  inodes : List InodeData := []
  byId : List (Obj × Nat) := []
  byHandle : List (Nat × Nat) := []
  nextInode : Nat := 2
  handles : List (Nat × HandleData) := []
  nextHandle : Nat := 1
  deriving Repr, DecidableEq, Inhabited

def ROOT_ID : Nat := 1
def MAX_HOST_INO : Nat := 0x7fffffffffff
def VFS_MAX_INO : Nat := 0xffffffffffffff

def PtState.get (s : PtState) (inode : Nat) : Option InodeData := s.inodes.find? (·.inode == inode)

def PtState.inodeById (s : PtState) (id : Obj) : Option Nat := s.byId.lookup id
def PtState.inodeByHandle (s : PtState) (h : Nat) : Option Nat := s.byHandle.lookup h

/-- `InodeStore::insert` -/
def PtState.insert (s : PtState) (d : InodeData) : PtState :=
  { s with
    byId := (d.id, d.inode) :: s.byId.filter (·.1 != d.id)
    byHandle := match d.handle with
      | .handle h => (h, d.inode) :: s.byHandle.filter (·.1 != h)
      | .file _ => s.byHandle
    inodes := d :: s.inodes.filter (·.inode != d.inode) }

/-- `InodeStore::remove` -/
def PtState.remove (s : PtState) (inode : Nat) (keepMapping : Bool) : PtState :=
  match s.get inode with
  | none => s
  | some d =>
    let s' := { s with inodes := s.inodes.filter (·.inode != inode) }
    if keepMapping then s' else
    { s' with
      byId := s'.byId.filter (·.1 != d.id)
      byHandle := match d.handle with
        | .handle h => s'.byHandle.filter (·.1 != h)
        | .file _ => s'.byHandle }

/-- `InodeMap::get_alt_locked` -/
def PtState.getAlt (s : PtState) (id : Obj) (handle : Option Nat) : Option InodeData :=
  let byH : Option InodeData := handle.bind fun h => (s.inodeByHandle h).bind s.get
  match byH with
  | some d => some d
  | none =>
    match (s.inodeById id).bind s.get with
    | some d =>
      let okk := handle.isNone || (match d.handle with | .handle _ => false | .file _ => true)
      if okk then some d else none
    | none => none

/-- `InodeMap::get_inode_locked` -/
def PtState.getInodeLocked (s : PtState) (id : Obj) (handle : Option Nat) : Option Nat :=
  match handle with
  | some h => s.inodeByHandle h
  | none => s.inodeById id

def PtState.setRefcount (s : PtState) (inode : Nat) (rc : Nat) : PtState :=
  { s with inodes := s.inodes.map fun d => if d.inode == inode then { d with refcount := rc } else d }

/-- `HandleMap::get` -/
def PtState.getHandle (s : PtState) (h inode : Nat) : Option HandleData :=
  match s.handles.lookup h with
  | some hd => if hd.inode == inode then some hd else none
  | none => none

/-! ### the request monad: state + errno + host calls -/

/-- `io::Result<α>` with the (possibly modified) tables -/
def M (α : Type) := PtState → Prog (Except Nat α × PtState)

namespace M

def pure' (a : α) : M α := fun s => .pure (.ok a, s)

def bind' (m : M α) (f : α → M β) : M β := fun s =>
  (m s).bind fun r => match r.1 with
    | .ok a => f a r.2
    | .error e => .pure (.error e, r.2)

instance : Monad M where
  pure := pure'
  bind := bind'

def throw (e : Nat) : M α := fun s => .pure (.error e, s)
def get : M PtState := fun s => .pure (.ok s, s)
def set (s : PtState) : M Unit := fun _ => .pure (.ok (), s)
def modify (f : PtState → PtState) : M Unit := fun s => .pure (.ok (), f s)
def sys (c : HCall) : M HAns := fun s => .call c (fun a => .pure (.ok a, s))
/-- run `m`, catching its error (the tables keep what `m` did to them) -/
def try' (m : M α) : M (Except Nat α) := fun s => (m s).bind fun r => .pure (.ok r.1, r.2)
def ofExcept : Except Nat α → M α
  | .ok a => pure' a
  | .error e => throw e
def ofOption (e : Nat) : Option α → M α
  | some a => pure' a
  | none => throw e

end M

/-- a system call that returns 0 / -1 -/
def unitCall (c : HCall) : M Unit := do
  match ← M.sys c with
  | .ok => pure ()
  | .err e => M.throw e
  | _ => M.throw EIO

/-! ### credentials (`scoped_cred!`, `set_creds`, `drop_cap_fsetid`, `CapFsetid`) -/

/-- which guards are alive: (ScopedUid, ScopedGid) -/
abbrev CredGuards := Bool × Bool

/-- `impl Drop for ScopedGid / ScopedUid`: back to 0; a failure is only logged -/
def dropGid (g : Bool) : M Unit := if g then do let _ ← M.sys (.setresgid 0); pure () else pure ()
def dropUid (g : Bool) : M Unit := if g then do let _ ← M.sys (.setresuid 0); pure () else pure ()

/-- `ScopedGid::new`: `true` = a guard is alive -/
def scopedGid (gid : Nat) : M Bool :=
  if gid = 0 then pure false else do unitCall (.setresgid gid); pure true

/-- `ScopedUid::new` -/
def scopedUid (uid : Nat) : M Bool :=
  if uid = 0 then pure false else do unitCall (.setresuid uid); pure true

/-- `set_creds`: `ScopedGid::new(gid).and_then(|gid| Ok((ScopedUid::new(uid)?, gid)))` — gid first;
    if the uid switch fails the gid guard is dropped by `?` -/
def setCreds (uid gid : Nat) : M CredGuards := do
  let g ← scopedGid gid
  match ← M.try' (scopedUid uid) with
  | .ok u => pure (u, g)
  | .error e => do
    dropGid g
    M.throw e

/-- drop of `(_uid, _gid)`: `_gid` first, then `_uid`; failures are only logged -/
def dropCreds (g : CredGuards) : M Unit := do
  dropGid g.2
  dropUid g.1

/-- `{ let (_uid, _gid) = set_creds(uid, gid)?; body }` -/
def withCreds (uid gid : Nat) (body : M α) : M α := do
  let g ← setCreds uid gid
  let r ← M.try' body
  dropCreds g
  M.ofExcept r

/-- `drop_cap_fsetid`: `true` = a `CapFsetid` guard is alive.
    caps crate: has_cap = capget; drop = read (capget) + set (capget, capset) -/
def dropCapFsetid : M Bool := do
  match ← M.sys .capget with
  | .caps false => pure false
  | .caps true =>
    match ← M.sys .capget with
    | .caps true =>
      match ← M.sys .capget with
      | .caps _ =>
        match ← M.sys (.capset false) with
        | .ok => pure true
        | _ => M.throw E_KIND_PERM
      | _ => M.throw E_KIND_PERM
    | .caps false => pure true
    | _ => M.throw E_KIND_PERM
  | _ => M.throw E_KIND_PERM

/-- `impl Drop for CapFsetid`: caps::raise = read (capget) [+ set (capget, capset)] -/
def raiseCapFsetid : M Unit := do
  match ← M.sys .capget with
  | .caps false =>
    match ← M.sys .capget with
    | .caps _ => let _ ← M.sys (.capset true)
    | _ => pure ()
  | _ => pure ()

/-- `let _killpriv = if cond { drop_cap_fsetid()? } else { None }; body` -/
def withKillpriv (cond : Bool) (body : M α) : M α := do
  let g ← (if cond then dropCapFsetid else pure false : M Bool)
  let r ← M.try' body
  (if g then raiseCapFsetid else pure () : M Unit)
  M.ofExcept r

/-! ### descriptors of inodes (`InodeHandle`) -/

/-- `InodeHandle::get_file`: (descriptor, owned?) -/
def getFile (d : InodeData) : M Fd := do
  match d.handle with
  | .file f => pure f
  | .handle h =>
    match ← M.sys (.openByHandle h O_PATH d.mode) with
    | .fd f _ => pure f
    | .err e => M.throw e
    | _ => M.throw EIO

def statOf : HAns → M Stat
  | .st s => pure s
  | .err e => M.throw e
  | _ => M.throw EIO

/-- `stat_fd(fd, None)` -/
def statFd (f : Fd) : M Stat := do statOf (← M.sys (.fstatat f [] STATX_FLAGS))

/-- `InodeHandle::stat` -/
def statInode (d : InodeData) : M Stat := do
  let f ← getFile d
  statFd f

/-- `is_safe_inode` -/
def isSafeInode (mode : Nat) : Bool :=
  let t := mode &&& S_IFMT
  t == S_IFREG || t == S_IFDIR

def isDir (mode : Nat) : Bool := (mode &&& S_IFMT) == S_IFDIR

/-- `get_writeback_open_flags` -/
def writebackOpenFlags (writeback : Bool) (flags : Nat) : Nat :=
  let f1 := if writeback && (flags &&& O_ACCMODE) == O_WRONLY then (clr flags O_ACCMODE) ||| O_RDWR else flags
  if writeback && has flags O_APPEND then clr f1 O_APPEND else f1

/-- the flags `open_inode` hands to `InodeHandle::open_file` -/
def openInodeFlags (cfg : Cfg) (flags : Nat) : Nat :=
  let nf := writebackOpenFlags cfg.writeback flags
  let nf := if !cfg.allowDirectIo && has flags O_DIRECT then clr nf O_DIRECT else nf
  nf ||| O_CLOEXEC

/-- the flags `reopen_fd_through_proc` hands to `openat` -/
def reopenFlags (flags : Nat) : Nat := clr (clr flags O_NOFOLLOW) O_CREAT

def fdOf : HAns → M Fd
  | .fd f _ => pure f
  | .err e => M.throw e
  | _ => M.throw EIO

/-- `open_inode` -/
def openInode (cfg : Cfg) (inode flags : Nat) : M Fd := do
  let s ← M.get
  let d ← M.ofOption EBADF (s.get inode)
  if !isSafeInode d.mode then M.throw EBADF else
  let nf := openInodeFlags cfg flags
  match d.handle with
  | .file f => fdOf (← M.sys (.reopen f (reopenFlags nf) d.mode))
  | .handle h => fdOf (← M.sys (.openByHandle h nf d.mode))

/-! ### lookup / forget -/

structure Entry where
  inode : Nat
  attr : Stat
  attrFlags : Nat
  entryTimeout : Nat
  attrTimeout : Nat
  deriving Repr, DecidableEq, Inhabited

/-- `FileHandle::from_fd`: `none` = the file system has no file handles -/
def fileHandleFromFd (f : Fd) : M (Option Nat) := do
  match ← M.sys (.nameToHandle f AT_EMPTY_PATH 0) with
  | .err e =>
    if e == EOVERFLOW then
      match ← M.sys (.nameToHandle f AT_EMPTY_PATH 128) with
      | .handle h => pure (some h)
      | .err e => M.throw e
      | _ => M.throw EIO
    else if e == EOPNOTSUPP then pure none
    else M.throw e
  | _ => M.throw E_KIND_INVALID_DATA

/-- `open_file_and_handle` -/
def openFileAndHandle (cfg : Cfg) (dir : Fd) (name : Name) : M (Fd × Option Nat × Stat) := do
  let f ← fdOf (← M.sys (.openat dir name (O_NOFOLLOW ||| O_CLOEXEC ||| O_PATH) 0))
  let st ← statOf (← M.sys (.statx f [] STATX_FLAGS STATX_MASK))
  let h ← (if cfg.inodeFileHandles then fileHandleFromFd f else pure none : M (Option Nat))
  pure (f, h, st)

/-- `allocate_inode` (host inode numbers are below `MAX_HOST_INO`; one (dev, mnt) pair = id 1) -/
def allocateInode (cfg : Cfg) (s : PtState) (id : Obj) (h : Option Nat) : Nat × PtState :=
  if !cfg.useHostIno then
    match s.getInodeLocked id h with
    | some i => (i, s)
    | none => (s.nextInode, { s with nextInode := s.nextInode + 1 })
  else (2 ^ 47 + id, s)

/-- `do_lookup` -/
def doLookup (cfg : Cfg) (parent : Nat) (name : Name) : M Entry := do
  let name := if parent == ROOT_ID && startsWith (withNul name) PARENT_DIR_CSTR then [DOT] else name
  let s ← M.get
  let dir ← M.ofOption EBADF (s.get parent)
  let dirFile ← getFile dir
  let (pathFd, hOpt, st) ← openFileAndHandle cfg dirFile name
  let id := st.obj
  let s ← M.get
  let inode ← (match s.getAlt id hOpt with
    | some d => do
      -- refcount 0 entries are removed under the write lock, so `curr == 0` is not observable
      M.set (s.setRefcount d.inode (d.refcount + 1))
      pure d.inode
    | none => do
      let handle := match hOpt with | some h => IHandle.handle h | none => IHandle.file pathFd
      let (inode, s') := allocateInode cfg s id hOpt
      if inode > VFS_MAX_INO then M.throw 10005 else
      M.set (s'.insert { inode := inode, handle := handle, id := id, refcount := 1, mode := st.mode })
      pure inode : M Nat)
  let (et, at_) := if isDir st.mode then (cfg.dirEntryTimeout, cfg.dirAttrTimeout) else (cfg.entryTimeout, cfg.attrTimeout)
  pure { inode := inode, attr := st, attrFlags := 0, entryTimeout := et, attrTimeout := at_ }

/-- `forget_one` -/
def forgetOne (cfg : Cfg) (s : PtState) (inode count : Nat) : PtState :=
  if inode == ROOT_ID then s else
  match s.get inode with
  | none => s
  | some d =>
    let new := d.refcount - count
    if new == 0 then s.remove inode (!cfg.useHostIno || d.id > MAX_HOST_INO)
    else s.setRefcount inode new

/-! ### requests -/

structure Ctx where
  uid : Nat
  gid : Nat
  deriving Repr, DecidableEq, Inhabited

inductive Req where
  | lookup (parent : Nat) (name : Name)
  | forget (inode count : Nat)
  | getattr (inode : Nat) (handle : Option Nat)
  | setattr (inode : Nat) (handle : Option Nat) (valid mode uid gid size atime atimens mtime mtimens : Nat)
  | readlink (inode : Nat)
  | symlink (ctx : Ctx) (target : Name) (parent : Nat) (name : Name)
  | mknod (ctx : Ctx) (parent : Nat) (name : Name) (mode rdev umask : Nat)
  | mkdir (ctx : Ctx) (parent : Nat) (name : Name) (mode umask : Nat)
  | unlink (parent : Nat) (name : Name)
  | rmdir (parent : Nat) (name : Name)
  | rename (odir : Nat) (oname : Name) (ndir : Nat) (nname : Name) (flags : Nat)
  | link (inode newparent : Nat) (newname : Name)
  | open (inode flags fuseFlags : Nat)
  | opendir (inode flags : Nat)
  | create (ctx : Ctx) (parent : Nat) (name : Name) (flags mode umask fuseFlags : Nat)
  | read (inode handle size offset flags : Nat)
  | write (inode handle : Nat) (data : List UInt8) (offset flags fuseFlags : Nat)
  | flush (inode handle : Nat)
  | fsync (inode handle : Nat) (datasync : Bool)
  | fsyncdir (inode handle : Nat) (datasync : Bool)
  | release (inode handle : Nat)
  | releasedir (inode handle : Nat)
  | fallocate (inode handle mode offset length : Nat)
  | lseek (inode handle offset whence : Nat)
  | statfs (inode : Nat)
  | setxattr (inode : Nat) (name value : List UInt8) (flags : Nat)
  | getxattr (inode : Nat) (name : List UInt8) (size : Nat)
  | listxattr (inode : Nat) (size : Nat)
  | removexattr (inode : Nat) (name : List UInt8)
  deriving Repr, DecidableEq, Inhabited

inductive Reply where
  | unit
  | entry (e : Entry)
  | attr (st : Stat) (timeout : Nat)
  | opened (handle : Option Nat) (opts : Nat)
  | created (e : Entry) (handle : Option Nat) (opts : Nat)
  | data (b : List UInt8)
  | count (n : Nat)
  | statfs (namemax bsize : Nat)
  deriving Repr, DecidableEq, Inhabited

/-- `self.validate_path_component`: only when standalone -/
def validateName (cfg : Cfg) (n : Name) : M Unit :=
  if !cfg.doImport then pure () else
  match validatePathComponent n with
  | none => pure ()
  | some e => M.throw e

def inodeData (inode : Nat) : M InodeData := do
  let s ← M.get
  M.ofOption EBADF (s.get inode)

def lookup (cfg : Cfg) (parent : Nat) (name : Name) : M Reply := do
  if (withNul name).contains SLASH then M.throw EINVAL else
  let e ← doLookup cfg parent name
  pure (.entry e)

def forget (cfg : Cfg) (inode count : Nat) : M Reply := do
  M.modify fun s => forgetOne cfg s inode count
  pure .unit

/-- `do_getattr` -/
def doGetattr (cfg : Cfg) (inode : Nat) (handle : Option Nat) : M Reply := do
  let d ← inodeData inode
  let st ← (match !cfg.noOpen, handle with
    | true, some h => do
      let s ← M.get
      let hd ← M.ofOption EBADF (s.getHandle h inode)
      statFd hd.fd
    | _, _ => statInode d : M Stat)
  pure (.attr st cfg.attrTimeout)

def FATTR_MODE := 1
def FATTR_UID := 2
def FATTR_GID := 4
def FATTR_SIZE := 8
def FATTR_ATIME := 16
def FATTR_MTIME := 32
def FATTR_ATIME_NOW := 128
def FATTR_MTIME_NOW := 256
def FATTR_KILL_SUIDGID := 2048
def U32_MAX := 4294967295

/-- the `timespec` pair of `setattr`: (sec, nsec) for atime and mtime -/
def setattrTimes (valid atime atimens mtime mtimens : Nat) : (Nat × Nat) × (Nat × Nat) :=
  let a := if has valid FATTR_ATIME_NOW then (0, UTIME_NOW)
           else if has valid FATTR_ATIME then (atime, atimens) else (0, UTIME_OMIT)
  let m := if has valid FATTR_MTIME_NOW then (0, UTIME_NOW)
           else if has valid FATTR_MTIME then (mtime, mtimens) else (0, UTIME_OMIT)
  (a, m)

/-- the `Data` of `setattr`: the handle's descriptor, or the O_PATH descriptor via /proc -/
inductive SetattrData where
  | handle (fd : Fd)
  | procPath (fd : Fd)

/-- `if valid.contains(MODE)`: fchmod on the handle, or fchmodat through /proc -/
def setattrMode (data : SetattrData) (valid mode : Nat) : M Unit :=
  if has valid FATTR_MODE then
    match data with
    | .handle f => unitCall (.fchmod f mode)
    | .procPath f => unitCall (.fchmodatProc f mode 0)
  else pure ()

/-- `if valid.intersects(UID | GID)`: one fchownat on the O_PATH descriptor, -1 for an absent id -/
def setattrOwner (file : Fd) (valid uid gid : Nat) : M Unit :=
  if has valid (FATTR_UID ||| FATTR_GID) then
    unitCall (.fchownat file []
      (if has valid FATTR_UID then uid else U32_MAX) (if has valid FATTR_GID then gid else U32_MAX)
      (AT_EMPTY_PATH ||| AT_SYMLINK_NOFOLLOW))
  else pure ()

/-- `if valid.contains(SIZE)`: ftruncate on the handle, or on a fresh descriptor of the inode -/
def setattrSize (cfg : Cfg) (inode : Nat) (data : SetattrData) (valid size : Nat) : M Unit :=
  if has valid FATTR_SIZE then
    withKillpriv (cfg.killprivV2 && has valid FATTR_KILL_SUIDGID)
      (match data with
       | .handle f => unitCall (.ftruncate f size)
       | .procPath _ => do
         let f ← openInode cfg inode (O_NONBLOCK ||| O_RDWR)
         unitCall (.ftruncate f size))
  else pure ()

/-- `if valid.intersects(ATIME | MTIME)`: futimens on the handle, or utimensat through /proc -/
def setattrUtimens (data : SetattrData) (valid atime atimens mtime mtimens : Nat) : M Unit :=
  if has valid (FATTR_ATIME ||| FATTR_MTIME) then
    let t := setattrTimes valid atime atimens mtime mtimens
    match data with
    | .handle f => unitCall (.futimens f t.1.1 t.1.2 t.2.1 t.2.2)
    | .procPath f => unitCall (.utimensatProc f t.1.1 t.1.2 t.2.1 t.2.2 0)
  else pure ()

/-- which descriptor `setattr` works on -/
def setattrData (cfg : Cfg) (inode : Nat) (handle : Option Nat) (file : Fd) : M SetattrData :=
  if cfg.noOpen then pure (.procPath file) else
  match handle with
  | some h => do
    let s ← M.get
    let hd ← M.ofOption EBADF (s.getHandle h inode)
    pure (.handle hd.fd)
  | none => pure (.procPath file)

def setattr (cfg : Cfg) (inode : Nat) (handle : Option Nat)
    (valid mode uid gid size atime atimens mtime mtimens : Nat) : M Reply := do
  let d ← inodeData inode
  let file ← getFile d
  let data ← setattrData cfg inode handle file
  setattrMode data valid mode
  setattrOwner file valid uid gid
  setattrSize cfg inode data valid size
  setattrUtimens data valid atime atimens mtime mtimens
  doGetattr cfg inode handle

def readlink (inode : Nat) : M Reply := do
  let d ← inodeData inode
  let file ← getFile d
  match ← M.sys (.readlinkat file [] PATH_MAX) with
  | .bytes b => pure (.data b)
  | .err e => M.throw e
  | _ => M.throw EIO

def symlink (cfg : Cfg) (ctx : Ctx) (target : Name) (parent : Nat) (name : Name) : M Reply := do
  validateName cfg name
  let d ← inodeData parent
  let file ← getFile d
  withCreds ctx.uid ctx.gid (unitCall (.symlinkat target file name))
  let e ← doLookup cfg parent name
  pure (.entry e)

def mknod (cfg : Cfg) (ctx : Ctx) (parent : Nat) (name : Name) (mode rdev umask : Nat) : M Reply := do
  validateName cfg name
  let d ← inodeData parent
  let file ← getFile d
  withCreds ctx.uid ctx.gid (unitCall (.mknodat file name (clr mode umask) rdev))
  let e ← doLookup cfg parent name
  pure (.entry e)

def mkdir (cfg : Cfg) (ctx : Ctx) (parent : Nat) (name : Name) (mode umask : Nat) : M Reply := do
  validateName cfg name
  let d ← inodeData parent
  let file ← getFile d
  withCreds ctx.uid ctx.gid (unitCall (.mkdirat file name (clr mode umask)))
  let e ← doLookup cfg parent name
  pure (.entry e)

/-- `do_unlink` -/
def doUnlink (parent : Nat) (name : Name) (flags : Nat) : M Reply := do
  let d ← inodeData parent
  let file ← getFile d
  unitCall (.unlinkat file name flags)
  pure .unit

def unlink (cfg : Cfg) (parent : Nat) (name : Name) : M Reply := do
  validateName cfg name
  doUnlink parent name 0

def rmdir (cfg : Cfg) (parent : Nat) (name : Name) : M Reply := do
  validateName cfg name
  doUnlink parent name AT_REMOVEDIR

def rename (cfg : Cfg) (odir : Nat) (oname : Name) (ndir : Nat) (nname : Name) (flags : Nat) : M Reply := do
  validateName cfg oname
  validateName cfg nname
  let od ← inodeData odir
  let nd ← inodeData ndir
  let of ← getFile od
  let nf ← getFile nd
  unitCall (.renameat2 of oname nf nname flags)
  pure .unit

def link (cfg : Cfg) (inode newparent : Nat) (newname : Name) : M Reply := do
  validateName cfg newname
  let d ← inodeData inode
  let nd ← inodeData newparent
  let f ← getFile d
  let nf ← getFile nd
  unitCall (.linkat f [] nf newname AT_EMPTY_PATH)
  let e ← doLookup cfg newparent newname
  pure (.entry e)

def FOPEN_DIRECT_IO := 1
def FOPEN_KEEP_CACHE := 2
def FOPEN_CACHE_DIR := 8

/-- `OpenOptions` of `do_open` -/
def openOpts (cache flags : Nat) : Nat :=
  let dir := has flags O_DIRECTORY
  if cache == 0 then (if dir then 0 else FOPEN_DIRECT_IO)
  else if cache == 1 then (if dir then FOPEN_CACHE_DIR ||| FOPEN_KEEP_CACHE else FOPEN_DIRECT_IO)
  else if cache == 3 then (if dir then FOPEN_KEEP_CACHE ||| FOPEN_CACHE_DIR else FOPEN_KEEP_CACHE)
  else 0

/-- `OpenOptions` of `create` -/
def createOpts (cache : Nat) : Nat :=
  if cache == 0 || cache == 1 then FOPEN_DIRECT_IO else if cache == 3 then FOPEN_KEEP_CACHE else 0

def newHandle (inode : Nat) (f : Fd) (flags : Nat) : M Nat := do
  let s ← M.get
  let h := s.nextHandle
  M.set { s with nextHandle := h + 1, handles := (h, { inode := inode, fd := f, flags := flags }) :: s.handles.filter (·.1 != h) }
  pure h

/-- `do_open` -/
def doOpen (cfg : Cfg) (inode flags fuseFlags : Nat) : M Reply := do
  let f ← withKillpriv (cfg.killprivV2 && has fuseFlags 1) (openInode cfg inode flags)
  let h ← newHandle inode f flags
  pure (.opened (some h) (openOpts cfg.cache flags))

def open_ (cfg : Cfg) (inode flags fuseFlags : Nat) : M Reply :=
  if cfg.noOpen then M.throw ENOSYS else doOpen cfg inode flags fuseFlags

def opendir (cfg : Cfg) (inode flags : Nat) : M Reply :=
  if cfg.noOpendir then M.throw ENOSYS else doOpen cfg inode (flags ||| O_DIRECTORY) 0

/-- `do_release` -/
def doRelease (inode handle : Nat) : M Reply := do
  let s ← M.get
  match s.getHandle handle inode with
  | some _ => do
    M.set { s with handles := s.handles.filter (·.1 != handle) }
    pure .unit
  | none => M.throw EBADF

def release (cfg : Cfg) (inode handle : Nat) : M Reply :=
  if cfg.noOpen then M.throw ENOSYS else doRelease inode handle

def releasedir (cfg : Cfg) (inode handle : Nat) : M Reply :=
  if cfg.noOpendir then M.throw ENOSYS else doRelease inode handle

/-- `create_file_excl`: `some fd` = created, `none` = exists and the client did not say O_EXCL -/
def createFileExcl (dir : Fd) (name : Name) (flags mode : Nat) : M (Option Fd) := do
  match ← M.sys (.openat dir name (flags ||| O_CREAT ||| O_EXCL) mode) with
  | .fd f _ => pure (some f)
  | .err e =>
    if e == EEXIST then (if has flags O_EXCL then M.throw e else pure none) else M.throw e
  | _ => M.throw EIO

/-- CREATE on an existing name without O_EXCL: open it with the caller's credentials; a failure
    releases the lookup reference taken by `do_lookup` -/
def createOpenExisting (cfg : Cfg) (ctx : Ctx) (entry : Entry) (flags fuseFlags : Nat) : M Fd := do
  let r ← M.try' (if isDir entry.attr.mode then M.throw EISDIR else
    withKillpriv (cfg.killprivV2 && has fuseFlags 1)
      (withCreds ctx.uid ctx.gid (openInode cfg entry.inode flags)))
  match r with
  | .ok f => pure f
  | .error e => do
    M.modify fun s => forgetOne cfg s entry.inode 1
    M.throw e

/-- the handle CREATE returns (none in no_open mode) -/
def createHandle (cfg : Cfg) (inode : Nat) (file : Fd) (flags : Nat) : M (Option Nat) :=
  if !cfg.noOpen then do let h ← newHandle inode file flags; pure (some h) else pure none

def create (cfg : Cfg) (ctx : Ctx) (parent : Nat) (name : Name) (flags mode umask fuseFlags : Nat) : M Reply := do
  validateName cfg name
  let d ← inodeData parent
  let dirFile ← getFile d
  let newFile ← withCreds ctx.uid ctx.gid
    (createFileExcl dirFile name (writebackOpenFlags cfg.writeback flags) (clr mode (umask &&& 0o777)))
  let entry ← doLookup cfg parent name
  let file ← (match newFile with
    | some f => pure f
    | none => createOpenExisting cfg ctx entry flags fuseFlags : M Fd)
  let h ← createHandle cfg entry.inode file flags
  pure (.created entry h (createOpts cfg.cache))

/-- `get_data` / `get_dirdata`: the handle's descriptor and recorded flags, or a fresh one -/
def getData (cfg : Cfg) (dir : Bool) (handle inode flags : Nat) : M HandleData := do
  let no := if dir then cfg.noOpendir else cfg.noOpen
  if !no then do
    let s ← M.get
    M.ofOption EBADF (s.getHandle handle inode)
  else do
    let f ← openInode cfg inode (if dir then flags ||| O_DIRECTORY else flags)
    pure { inode := inode, fd := f, flags := flags }

/-- `check_fd_flags` -/
def checkFdFlags (cfg : Cfg) (handle : Nat) (hd : HandleData) (flags : Nat) : M Unit := do
  if hd.flags != flags then
    unitCall (.setfl hd.fd flags)
    -- `data.set_flags(flags)`: visible later only for a stored handle
    if !cfg.noOpen then
      M.modify fun s => { s with handles := s.handles.map fun (h, x) => if h == handle && x.inode == hd.inode then (h, { x with flags := flags }) else (h, x) }

def read (cfg : Cfg) (inode handle size offset flags : Nat) : M Reply := do
  let hd ← getData cfg false handle inode O_RDONLY
  checkFdFlags cfg handle hd flags
  match ← M.sys (.preadv hd.fd size offset) with
  | .bytes b => pure (.data b)
  | .err e => M.throw e
  | _ => M.throw EIO

def write (cfg : Cfg) (inode handle : Nat) (data : List UInt8) (offset flags fuseFlags : Nat) : M Reply := do
  let hd ← getData cfg false handle inode O_RDWR
  checkFdFlags cfg handle hd flags
  withKillpriv (cfg.killprivV2 && has fuseFlags 4) do
    match ← M.sys (.pwritev hd.fd data offset) with
    | .n k => pure (.count k)
    | .err e => M.throw e
    | _ => M.throw EIO

def flush (cfg : Cfg) (inode handle : Nat) : M Reply := do
  if cfg.noOpen then M.throw ENOSYS else
  let s ← M.get
  let _ ← M.ofOption EBADF (s.getHandle handle inode)
  -- dup + close of the handle's descriptor: not recorded, no file-system effect
  pure .unit

def fsync (cfg : Cfg) (dir : Bool) (inode handle : Nat) (datasync : Bool) : M Reply := do
  let hd ← getData cfg dir handle inode O_RDONLY
  unitCall (if datasync then .fdatasync hd.fd else .fsync hd.fd)
  pure .unit

def fallocate (cfg : Cfg) (inode handle mode offset length : Nat) : M Reply := do
  let hd ← getData cfg false handle inode O_RDWR
  unitCall (.fallocate hd.fd mode offset length)
  pure .unit

def lseek (inode handle offset whence : Nat) : M Reply := do
  let s ← M.get
  let hd ← M.ofOption EBADF (s.getHandle handle inode)
  match ← M.sys (.lseek hd.fd offset whence) with
  | .n k => pure (.count k)
  | .err e => M.throw e
  | _ => M.throw EIO

def statfs (inode : Nat) : M Reply := do
  let d ← inodeData inode
  let f ← getFile d
  match ← M.sys (.fstatvfs f) with
  | .vfs a b => pure (.statfs a b)
  | .err e => M.throw e
  | _ => M.throw EIO

def setxattr (cfg : Cfg) (inode : Nat) (name value : List UInt8) (flags : Nat) : M Reply := do
  if !cfg.xattr then M.throw ENOSYS else
  let d ← inodeData inode
  let f ← getFile d
  unitCall (.setxattr f name value flags)
  pure .unit

def getxattr (cfg : Cfg) (inode : Nat) (name : List UInt8) (size : Nat) : M Reply := do
  if !cfg.xattr then M.throw ENOSYS else
  let d ← inodeData inode
  let f ← getFile d
  match ← M.sys (.getxattr f name size) with
  | .n k => pure (.count k)
  | .bytes b => pure (.data b)
  | .err e => M.throw e
  | _ => M.throw EIO

def listxattr (cfg : Cfg) (inode size : Nat) : M Reply := do
  if !cfg.xattr then M.throw ENOSYS else
  let d ← inodeData inode
  let f ← getFile d
  match ← M.sys (.listxattr f size) with
  | .n k => pure (.count k)
  | .bytes b => pure (.data b)
  | .err e => M.throw e
  | _ => M.throw EIO

def removexattr (cfg : Cfg) (inode : Nat) (name : List UInt8) : M Reply := do
  if !cfg.xattr then M.throw ENOSYS else
  let d ← inodeData inode
  let f ← getFile d
  unitCall (.removexattr f name)
  pure .unit

/-- one request (`cfg` is the effective configuration) -/
def handle (cfg : Cfg) : Req → M Reply
  | .lookup p n => lookup cfg p n
  | .forget i c => forget cfg i c
  | .getattr i h => doGetattr cfg i h
  | .setattr i h v m u g sz a an mt mn => setattr cfg i h v m u g sz a an mt mn
  | .readlink i => readlink i
  | .symlink c t p n => symlink cfg c t p n
  | .mknod c p n m r u => mknod cfg c p n m r u
  | .mkdir c p n m u => mkdir cfg c p n m u
  | .unlink p n => unlink cfg p n
  | .rmdir p n => rmdir cfg p n
  | .rename od on nd nn f => rename cfg od on nd nn f
  | .link i np nn => link cfg i np nn
  | .open i f ff => open_ cfg i f ff
  | .opendir i f => opendir cfg i f
  | .create c p n f m u ff => create cfg c p n f m u ff
  | .read i h sz off f => read cfg i h sz off f
  | .write i h d off f ff => write cfg i h d off f ff
  | .flush i h => flush cfg i h
  | .fsync i h ds => fsync cfg false i h ds
  | .fsyncdir i h ds => fsync cfg true i h ds
  | .release i h => release cfg i h
  | .releasedir i h => releasedir cfg i h
  | .fallocate i h m o l => fallocate cfg i h m o l
  | .lseek i h o w => lseek i h o w
  | .statfs i => statfs i
  | .setxattr i n v f => setxattr cfg i n v f
  | .getxattr i n sz => getxattr cfg i n sz
  | .listxattr i sz => listxattr cfg i sz
  | .removexattr i n => removexattr cfg i n

/-- `Pt.step`: the transducer -/
def step (cfg : Cfg) (s : PtState) (r : Req) : Prog (Except Nat Reply × PtState) := handle cfg r s

/-- the state after `import()`: the root inode with refcount 2 -/
def initState (rootHandle : IHandle) (rootObj : Obj) (rootMode : Nat) : PtState :=
  ({} : PtState).insert { inode := ROOT_ID, handle := rootHandle, id := rootObj, refcount := 2, mode := rootMode }

end Fbr.PtHost
