/-
  Fbr.PtSpec — the tiny reference specification C08/C15 refine to: what a FUSE client can compute
  from the requests it sent and the replies it got.  `held i` = entries delivered for inode
  number `i` minus the counts forgotten, truncated at 0; `hnds` = handles delivered and not yet released.
-/
import Fbr.PtRefs

namespace Fbr.PtRefs

structure Spec where
  held : Ino → Nat
  hnds : List (Hnd × Ino)

def Spec.init : Spec := { held := fun _ => 0, hnds := [] }

/-- an entry for number `i` reached the client (references on the root are not counted: the root
    is never counted down either) -/
def Spec.deliver (sp : Spec) (i : Ino) : Spec :=
  if i = ROOT_ID then sp
  else { sp with held := fun x => if x = i then sp.held i + 1 else sp.held x }

/-- the ledger after a request that returns one entry or fails -/
def Spec.afterLookup (sp : Spec) : Except Errno Ino → Spec
  | .ok i => sp.deliver i
  | .error _ => sp

/-- the client forgot `n` references of `i` (the root is never counted down) -/
def Spec.forget (sp : Spec) (i : Ino) (n : Nat) : Spec :=
  if i = ROOT_ID then sp
  else { sp with held := fun x => if x = i then sp.held i - n else sp.held x }

def Spec.forgetAll (sp : Spec) : List (Ino × Nat) → Spec
  | [] => sp
  | (i, n) :: r => Spec.forgetAll (sp.forget i n) r

/-- the delivered entries of a `readdirplus` reply -/
def Spec.deliverAll (sp : Spec) : List (Ino × Bool) → Spec
  | [] => sp
  | (i, true) :: r => Spec.deliverAll (sp.deliver i) r
  | (_, false) :: r => Spec.deliverAll sp r

/-- the client's ledger after one request/reply pair -/
def Spec.step (sp : Spec) (op : Op) (r : Res) : Spec :=
  match op, r with
  | .forget i n, _ => sp.forget i n
  | .batchForget l, _ => sp.forgetAll l
  | .destroy _, _ => Spec.init
  | .open i _, .handle h => { sp with hnds := mput sp.hnds h i }
  | .opendir i _, .handle h => { sp with hnds := mput sp.hnds h i }
  | .release _ h, .ok => { sp with hnds := mdel sp.hnds h }
  | .releasedir _ h, .ok => { sp with hnds := mdel sp.hnds h }
  | _, .entry i => sp.deliver i
  | _, .entryH i none => sp.deliver i
  | _, .entryH i (some h) => { sp.deliver i with hnds := mput sp.hnds h i }
  | _, .ents l _ => sp.deliverAll l
  | _, _ => sp

/-- the ledger after a whole history -/
def Spec.run (sp : Spec) : List (Option Nat × Op) → List Res → Spec
  | (_, op) :: h, r :: rs => Spec.run (sp.step op r) h rs
  | _, _ => sp

/-- C08 refinement relation: the stored count of every non-root number is the client's count, and
    a number is stored iff that count is positive -/
def Ref (s : St) (sp : Spec) : Prop :=
  ∀ i, i ≠ ROOT_ID →
    (mget s.data i).map (·.refs) = if sp.held i = 0 then none else some (sp.held i)

end Fbr.PtRefs
