/-
  Fbr.VfsShow — parsing of `vfs` case lines into (initial state, history) and canonical printing
  of the model's outputs (the format of `harness/src/vfsrun.rs`).
-/
import Fbr.Proto
import Fbr.Vfs
import Fbr.Persist

namespace Fbr.VfsShow
open Fbr.Proto Fbr.Vfs Fbr.Persist

def hexName (n : Name) : String := hex (n.map UInt8.ofNat)

def unhexName (s : String) : Name := ((unhex s).getD []).map (·.toNat)

def natD (s : String) : Nat := s.toNat?.getD 0

def splitC (s : String) (c : String) : List String := s.splitOn c

def nth (l : List String) (i : Nat) : String := l.getD i ""

def parseMap (s : String) : Option Map :=
  if s == "-" || s.isEmpty then none else
  match (splitC s "/").map natD with
  | [a, b, c] => some (a, b, c)
  | _ => none

def showOp : ReqOp → String
  | .lookup => "lookup" | .forget => "forget" | .getattr => "getattr" | .setattr => "setattr"
  | .readlink => "readlink" | .symlink => "symlink" | .mknod => "mknod" | .mkdir => "mkdir"
  | .unlink => "unlink" | .rmdir => "rmdir" | .rename => "rename" | .link => "link" | .open => "open"
  | .create => "create" | .read => "read" | .write => "write" | .flush => "flush" | .fsync => "fsync"
  | .fallocate => "fallocate" | .release => "release" | .statfs => "statfs" | .setxattr => "setxattr"
  | .getxattr => "getxattr" | .listxattr => "listxattr" | .removexattr => "removexattr"
  | .opendir => "opendir" | .readdir => "readdir" | .readdirplus => "readdirplus"
  | .fsyncdir => "fsyncdir" | .releasedir => "releasedir" | .access => "access"
  | .setupmapping => "setupmapping" | .removemapping => "removemapping"

def allOps : List ReqOp :=
  [.lookup, .forget, .getattr, .setattr, .readlink, .symlink, .mknod, .mkdir, .unlink, .rmdir,
   .rename, .link, .open, .create, .read, .write, .flush, .fsync, .fallocate, .release, .statfs,
   .setxattr, .getxattr, .listxattr, .removexattr, .opendir, .readdir, .readdirplus, .fsyncdir,
   .releasedir, .access, .setupmapping, .removemapping]

def parseOp (s : String) : Option ReqOp := allOps.find? (fun o => showOp o == s)

def showArg : Arg → String
  | .n v => toString v
  | .name v => hexName v

def showCall (c : Call) : String :=
  match c.method with
  | .mount => s!"{c.bk}.mount"
  | .destroy => s!"{c.bk}.destroy"
  | .init => s!"{c.bk}.init" ++ String.join (c.args.map fun a => "." ++ showArg a)
  | .req op => s!"{c.bk}.{showOp op}.{c.uid}.{c.gid}" ++ String.join (c.args.map fun a => "." ++ showArg a)

def showVErr : VErr → String
  | .mount e => s!"EMount.{e}" | .inodeIndex => "EInodeIndex" | .fsIndex => "EFsIndex"
  | .pathWalk e => s!"EPathWalk.{e}" | .notFound => "ENotFound" | .initialize => "EInitialize"
  | .persist => "EPersist" | .restoreMount e => s!"ERestoreMount.{e}"

def showEnt (e : Ent) : String := s!"{e.inode}/{e.stIno}/{e.uid}/{e.gid}"

def showDirErr : Option Nat → String
  | none => "ok"
  | some e => s!"e{e}"

def showRes : Res → String
  | .err n => s!"e{n}"
  | .entry e => showEnt e
  | .attr i u g => s!"{i}/{u}/{g}"
  | .unit => "ok"
  | .num n => s!"ok{n}"
  | .optNum none => "ok-"
  | .optNum (some n) => s!"ok{n}"
  | .dirents e l => showDirErr e ++ "[" ++ ",".intercalate (l.map fun d => s!"{d.ino}.{d.off}.{hexName d.name}") ++ "]"
  | .plusents e l => showDirErr e ++ "[" ++ ",".intercalate (l.map fun d =>
      s!"{d.ino}.{d.off}.{d.ent.inode}.{d.ent.stIno}.{d.ent.uid}.{d.ent.gid}.{hexName d.name}") ++ "]"
  | .mounted idx => s!"ok{idx}"
  | .verr e => showVErr e
  | .umounted i p => s!"ok{i}.{p}"
  | .restoreFailed stage e => s!"{stage}-{showVErr e}"
  | .panic => "panic"

def showStep (x : Res × List Call) : String :=
  showRes x.1 ++ "@" ++ "+".intercalate (x.2.map showCall)

/-! ### parsing -/

def parseBk (id mans ie : String) : Bk :=
  if mans.startsWith "e" then
    { id := natD id, mountErr := some (natD (mans.drop 1).toString), rootIno := 0, rootUid := 0, rootGid := 0, maxIno := 0, ie := natD ie }
  else
    let p := (splitC mans "/").map natD
    { id := natD id, mountErr := none, rootIno := p.getD 0 0, rootUid := p.getD 1 0, rootGid := p.getD 2 0,
      maxIno := p.getD 3 0, ie := natD ie }

def opKind (op : ReqOp) : String :=
  match op with
  | .lookup | .symlink | .mknod | .mkdir | .link | .create | .getattr | .setattr => "ent"
  | .readlink | .read | .write | .statfs | .getxattr | .listxattr | .open | .opendir => "num"
  | .readdir => "dirs"
  | .readdirplus => "plus"
  | _ => "unit"

def parseAns (op : ReqOp) (a : String) : Ans :=
  if a.startsWith "e" then .err (natD (a.drop 1).toString) else
  match opKind op with
  | "ent" =>
    let p := (splitC a "/").map natD
    .ent (p.getD 0 0) (p.getD 1 0) (p.getD 2 0)
  | "num" => .num (natD a)
  | "dirs" =>
    if a == "-" || a.isEmpty then .dirs [] else
    .dirs ((splitC a ",").map fun d =>
      let f := splitC d "."
      (natD (nth f 0), unhexName (nth f 1)))
  | "plus" =>
    if a == "-" || a.isEmpty then .plus [] else
    .plus ((splitC a ",").map fun d =>
      let f := splitC d "."
      (natD (nth f 0), natD (nth f 1), natD (nth f 2), natD (nth f 3), unhexName (nth f 4)))
  | _ => .unit

def BIG : Nat := 2 ^ 64

def parseReq (f : List String) : Option Req :=
  (parseOp (nth f 1)).map fun op =>
    let a1 := nth f 5
    let a2 := nth f 6
    let base : Req := { op := op, uid := natD (nth f 2), gid := natD (nth f 3), ino := natD (nth f 4), ans := parseAns op (nth f 7) }
    match op with
    | .rename =>
      let n := splitC a1 "/"
      { base with name := unhexName (nth n 0), name2 := unhexName (nth n 1), ino2 := natD a2 }
    | .link => { base with name := unhexName a1, ino2 := natD a2 }
    | .setattr =>
      let p := (splitC a1 "/").map natD
      { base with setUid := p.getD 0 0, setGid := p.getD 1 0 }
    | .readdir | .readdirplus =>
      let p := splitC a1 "/"
      { base with size := natD (nth p 0), off := natD (nth p 1), stop := if p.length ≥ 3 then natD (nth p 2) else BIG }
    | _ => { base with name := unhexName a1 }

def pathName (s : String) : Name := s.toList.map (·.toNat)

def parseStep (st : String) : Option Op :=
  let f := splitC st ":"
  match nth f 0 with
  | "m" => some (.mount (parseBk (nth f 2) (nth f 4) (nth f 5)) (pathName (nth f 1)) (parseMap (nth f 3)))
  | "u" => some (.umount (pathName (nth f 1)))
  | "i" => some (.init (natD (nth f 1)))
  | "d" => some .destroy
  | "s" => some (.saveRestore (match nth f 1 with
      | "d" => .dflt
      | "1" => .v1
      | _ => .same))
  | "r" => (parseReq f).map .req
  | "R" => (parseReq f).map .req
  | _ => none

/-- `X:<umount path>:<mount fields>`: the harness runs the umount and the mount on two threads; the
    sequentially equivalent history is the umount followed by the mount -/
def parseSteps (st : String) : List Op :=
  let f := splitC st ":"
  if nth f 0 == "X" then
    [.umount (pathName (nth f 1)),
     .mount (parseBk (nth f 3) (nth f 5) (nth f 6)) (pathName (nth f 2)) (parseMap (nth f 4))]
  else if nth f 0 == "W" then
    -- `W:<umount path>:<mount fields>`: the mount (it holds the lock), then the umount
    [.mount (parseBk (nth f 3) (nth f 5) (nth f 6)) (pathName (nth f 2)) (parseMap (nth f 4)),
     .umount (pathName (nth f 1))]
  else if nth f 0 == "Z" then
    -- `Z:<init bits>:<mount fields>`: INIT, then the mount
    [.init (natD (nth f 1)),
     .mount (parseBk (nth f 3) (nth f 5) (nth f 6)) (pathName (nth f 2)) (parseMap (nth f 4))]
  else if nth f 0 == "Y" then
    -- `Y:<umount path>:<uid>:<gid>:<pseudo parent>:<hex name>`: umount, then the LOOKUP
    (.umount (pathName (nth f 1))) ::
      ((parseReq ["r", "lookup", nth f 2, nth f 3, nth f 4, nth f 5, "", ""]).map Op.req).toList
  else (parseStep st).toList

def parseOpts (kv : List (String × String)) : Opts :=
  let o := (getD kv "o").toList
  let flag (i : Nat) (d : Bool) : Bool := if o.length == 6 then o.getD i '0' == '1' else d
  let oo := getD kv "oo"
  let g := (parseMap (getD kv "gmap")).getD (0, 0, 0)
  { noOpen := flag 0 true, noOpendir := flag 1 true, noWriteback := flag 2 false, killprivV2 := flag 3 false,
    noReaddir := flag 4 false, sealSize := flag 5 false, inOpts := 0,
    outOpts := if oo.isEmpty || oo == "d" then DEFAULT_OUT_OPTS else natD oo,
    idMapping := g }

def parseCase (line : String) : State × List Op :=
  let kv := tokens line
  let s := State.new (parseOpts kv) (getD kv "rm" == "1")
  let ops := (splitC (getD kv "ops") ";").filter (fun x => !x.isEmpty) |>.flatMap parseSteps
  (s, ops)

def runLine (line : String) : String :=
  let (s, ops) := parseCase line
  ";".intercalate ((run s ops).map showStep)

end Fbr.VfsShow
