/-
  Fbr.ConcShow — parsing of `conc` case lines and canonical printing of a run of `Fbr.Conc`.
  case=N cfg=hi:B nf=K thr=<prog>|<prog>|… sched=t,t,t,… [probe=k]
  prog = comma-separated requests: `L<f>` lookup of file f, `F<f>:<n>` forget the number learnt
  for file f, `N<ino>:<n>` forget a raw number.
-/
import Fbr.Proto
import Fbr.Conc

namespace Fbr.ConcShow
open Fbr.Proto Fbr.Conc

def dropPrefix (s : String) (n : Nat) : String := String.ofList (s.toList.drop n)
def natOf (s : String) : Nat := s.toNat?.getD 0

def parseOp (s : String) : Option Op :=
  if s.startsWith "L" then some (.lookup (natOf (dropPrefix s 1)))
  else if s.startsWith "F" then
    match (dropPrefix s 1).splitOn ":" with
    | [f, n] => some (.forgetFile (natOf f) (natOf n))
    | _ => none
  else if s.startsWith "N" then
    match (dropPrefix s 1).splitOn ":" with
    | [i, n] => some (.forget (natOf i) (natOf n))
    | _ => none
  else none

def parseProg (s : String) : List Op :=
  if s.isEmpty || s == "-" then [] else (s.splitOn ",").filterMap parseOp

def pcName : PC → String
  | .LS _ => "LS" | .L0 _ => "L0" | .L1 _ _ => "L1" | .L2 _ _ _ => "L2" | .L3 _ => "L3"
  | .F0 _ _ => "F0" | .F0f _ _ => "F0" | .F1 _ _ => "F1" | .F2 _ _ _ _ => "F2" | .F3 _ _ _ => "F3" | .done => "D"

/-- the model's packing for `use_host_ino`: any injective function avoiding small numbers -/
def packFn (f : HostId) : Ino := 2 ^ 47 + f

structure Acc where
  sys : Sys
  trace : List String := []
  /-- inode numbers in order of first appearance in a result -/
  seen : List Nat := []

def noteResults (a : Acc) (before after : List (HostId × Ino)) : Acc :=
  if after.length > before.length then
    match after with
    | (_, i) :: _ => if a.seen.contains i then a else { a with seen := a.seen ++ [i] }
    | [] => a
  else a

def stepAcc (c : Cfg) (a : Acc) (t : Tid) : Acc :=
  if !enabled a.sys t then { a with trace := "-" :: a.trace }
  else
    let before := (a.sys.threads t).results
    let s := step c a.sys t
    let a := { a with sys := s, trace := pcName (s.threads t).pc :: a.trace }
    noteResults a before (s.threads t).results

def idxOf (l : List Nat) (v : Nat) : String :=
  match l.findIdx? (· == v) with
  | some i => s!"n{i}"
  | none => "?"

def runLine (line : String) : String :=
  let kv := tokens line
  let hi := (getD kv "cfg") == "hi:1"
  let c : Cfg := { keep := !hi, pack := packFn }
  let nf := getNatD kv "nf" 2
  let progs := ((getD kv "thr").splitOn "|").map parseProg
  let n := progs.length
  let sched := natList (getD kv "sched")
  let init := Sys.init (fun t => progs.getD t [])
  let a : Acc := sched.foldl (stepAcc c) { sys := init }
  -- lock probe: is thread k, in the state after the schedule, waiting for a lock another thread holds?
  match (getD kv "probe").toNat? with
  | some k =>
    "tr=" ++ ",".intercalate a.trace.reverse ++ " probe=" ++
      (if (a.sys.threads k).pc == .done then "done" else if enabled a.sys k then "enabled" else "held")
  | none =>
  -- completion: lowest-numbered enabled thread first
  let rec drainAcc (fuel : Nat) (a : Acc) (order : List Nat) : Acc × List Nat :=
    match fuel with
    | 0 => (a, order.reverse)
    | fuel + 1 =>
      match (List.range n).find? (enabled a.sys) with
      | none => (a, order.reverse)
      | some t => drainAcc fuel (stepAcc c a t) (t :: order)
  let (a, order) := drainAcc 10000 a []
  let s := a.sys
  let res := (List.range n).map fun t =>
    s!"t{t}:[" ++ ",".intercalate ((s.threads t).results.reverse.map fun (f, i) => s!"f{f}>{idxOf a.seen i}") ++ "]"
  let fin := (List.range nf).map fun f =>
    match s.known f with
    | none => s!"f{f}:-/0"
    | some i => s!"f{f}:{idxOf a.seen i}/{liveCount s.store f}"
  -- table sizes: candidate numbers are those ever learnt plus everything below `next`
  let cands := ((List.range s.store.next) ++ (List.range nf).map packFn).eraseDups
  let inodes := (cands.filter fun i => (s.store.data i).isSome).length
  let byid := ((List.range nf).filter fun f => (s.store.byId f).isSome).length
  let allDone := (List.range n).all fun t => (s.threads t).pc == .done
  "tr=" ++ ",".intercalate a.trace.reverse ++ " res=" ++ ";".intercalate res ++
    " fin=" ++ ",".intercalate fin ++ s!" sz={inodes + 1},{byid + 1}" ++
    " drain=" ++ showNatList order ++ " done=" ++ (if allDone then "1" else "0")

end Fbr.ConcShow
