/-
  Fbr.PtHostShow — parsing of `pthost` case lines (configuration, root inode, requests with the
  host's recorded answers) and canonical printing of the model's calls and replies.
  Format: see `harness/src/bin/pthost.rs` and `harness/src/pthost/canon.rs`.
-/
import Fbr.Proto
import Fbr.Host
import Fbr.PtHost

namespace Fbr.PtHostShow
open Fbr.Proto Fbr.Host Fbr.PtHost

def hx (b : List UInt8) : String := hex b

partial def octDigits (n : Nat) (acc : List Char) : List Char :=
  if n < 8 then Char.ofNat (n + 48) :: acc else octDigits (n / 8) (Char.ofNat (n % 8 + 48) :: acc)

def toOct (n : Nat) : String := String.ofList (octDigits n [])

def fdS (f : Fd) : String := s!"f{f}"
def b01 (b : Bool) : String := if b then "1" else "0"

def showCall : HCall → String
  | .openat d n fl m => s!"openat({fdS d},{hx n},{fl},{m})"
  | .reopen f fl _ => s!"reopen({fdS f},{fl})"
  | .openByHandle h fl _ => s!"open_by_handle(g{h},{fl})"
  | .nameToHandle f fl _ => s!"name_to_handle({fdS f},,{fl})"
  | .statx f n fl m => s!"statx({fdS f},{hx n},{fl},{m})"
  | .fstatat f n fl => s!"fstatat({fdS f},{hx n},{fl})"
  | .mkdirat d n m => s!"mkdirat({fdS d},{hx n},{m})"
  | .mknodat d n m r => s!"mknodat({fdS d},{hx n},{m},{r})"
  | .symlinkat t d n => s!"symlinkat({hx t},{fdS d},{hx n})"
  | .linkat f o d n fl => s!"linkat({fdS f},{hx o},{fdS d},{hx n},{fl})"
  | .unlinkat d n fl => s!"unlinkat({fdS d},{hx n},{fl})"
  | .renameat2 od on nd nn fl => s!"renameat2({fdS od},{hx on},{fdS nd},{hx nn},{fl})"
  | .readlinkat f n sz => s!"readlinkat({fdS f},{hx n},{sz})"
  | .fchmod f m => s!"fchmod({fdS f},{m})"
  | .fchmodatProc f m fl => s!"fchmodat(P,{fdS f},{m},{fl})"
  | .fchownat f n u g fl => s!"fchownat({fdS f},{hx n},{u},{g},{fl})"
  | .ftruncate f sz => s!"ftruncate({fdS f},{sz})"
  | .futimens f a an m mn => s!"futimens({fdS f},{a},{an},{m},{mn})"
  | .utimensatProc f a an m mn fl => s!"utimensat(P,{fdS f},{a},{an},{m},{mn},{fl})"
  | .fallocate f m o l => s!"fallocate({fdS f},{m},{o},{l})"
  | .lseek f o w => s!"lseek({fdS f},{o},{w})"
  | .preadv f l o => s!"preadv({fdS f},{l},{o})"
  | .pwritev f d o => s!"pwritev({fdS f},{hx d},{o})"
  | .fstatvfs f => s!"fstatvfs({fdS f})"
  | .setxattr f n v fl => s!"setxattr({fdS f},{hx n},{hx v},{fl})"
  | .getxattr f n sz => s!"getxattr({fdS f},{hx n},{sz})"
  | .listxattr f sz => s!"listxattr({fdS f},{sz})"
  | .removexattr f n => s!"removexattr({fdS f},{hx n})"
  | .fsync f => s!"fsync({fdS f})"
  | .fdatasync f => s!"fdatasync({fdS f})"
  | .setfl f fl => s!"setfl({fdS f},{fl})"
  | .setresgid g => s!"setresgid(-1,{g},-1)"
  | .setresuid u => s!"setresuid(-1,{u},-1)"
  | .capget => "capget"
  | .capset b => s!"capset({b01 b})"

def timeOf (s : String) : Option Nat := if s == "n" then none else s.toNat?

/-- one answer token -/
def parseAns (t : String) : HAns :=
  let body := (t.drop 1).toString
  match t.front with
  | 'e' => .err (body.toNat?.getD 0)
  | 'k' => .ok
  | 'f' =>
    match body.splitOn "." with
    | [f, o] => .fd (f.toNat?.getD 0) (o.toNat?.getD 0)
    | _ => .err 9998
  | 's' =>
    match body.splitOn "." with
    | [o, m, u, g, sz, nl, rd, a, mt] =>
      .st { obj := o.toNat?.getD 0, mode := m.toNat?.getD 0, uid := u.toNat?.getD 0, gid := g.toNat?.getD 0,
            size := sz.toNat?.getD 0, nlink := nl.toNat?.getD 0, rdev := rd.toNat?.getD 0,
            atime := timeOf a, mtime := timeOf mt }
    | _ => .err 9998
  | 'n' => .n (body.toNat?.getD 0)
  | 'x' => .bytes ((unhex body).getD [])
  | 'c' => .caps (body == "1")
  | 'g' => .handle (body.toNat?.getD 0)
  | 'v' =>
    match body.splitOn "." with
    | [a, b] => .vfs (a.toNat?.getD 0) (b.toNat?.getD 0)
    | _ => .err 9998
  | _ => .err 9998

def parseAnswers (s : String) : List HAns :=
  if s.isEmpty then [] else (s.splitOn ",").map parseAns

/-- `cfg=<9 bits>:<cache>[:<capabilities not offered>]` -/
def parseCfg (s : String) : Cfg :=
  let parts := s.splitOn ":"
  let bits := (parts.headD "").toList
  let g (i : Nat) : Bool := bits.getD i '0' == '1'
  { noOpen := g 0, noOpendir := g 1, inodeFileHandles := g 2, useHostIno := g 3, writeback := g 4,
    xattr := g 5, killprivV2 := g 6, allowDirectIo := g 7, doImport := g 8,
    cache := ((parts.getD 1 "2").toNat?.getD 2),
    nocap := ((parts.getD 2 "0").toNat?.getD 0) }

/-- tables for the symbolic names `i<k>` / `h<k>` -/
structure Names where
  inos : List Nat := [1]
  hs : List Nat := []

def resolve (tbl : List Nat) (s : String) : Nat :=
  if s.front == '#' then ((s.drop 1).toString.toNat?.getD 0)
  else (tbl.getD (((s.drop 1).toString.toNat?.getD 0)) (2 ^ 64 - 8))

def optH (nm : Names) (s : String) : Option Nat := if s == "-" then none else some (resolve nm.hs s)

def nat (s : String) : Nat := s.toNat?.getD 0
def bytes (s : String) : List UInt8 := (unhex s).getD []

def parseReq (nm : Names) (s : String) : Option Req :=
  let i := resolve nm.inos
  let h := resolve nm.hs
  match s.splitOn ":" with
  | ["lookup", p, n] => some (.lookup (i p) (bytes n))
  | ["forget", x, c] => some (.forget (i x) (nat c))
  -- the same forget, delivered in a BATCH_FORGET request
  | ["bforget", x, c] => some (.forget (i x) (nat c))
  | ["getattr", x, hh] => some (.getattr (i x) (optH nm hh))
  | ["setattr", x, hh, v, m, u, g, sz, a, an, mt, mn] =>
    some (.setattr (i x) (optH nm hh) (nat v) (nat m) (nat u) (nat g) (nat sz) (nat a) (nat an) (nat mt) (nat mn))
  | ["readlink", x] => some (.readlink (i x))
  | ["symlink", u, g, t, p, n] => some (.symlink ⟨nat u, nat g⟩ (bytes t) (i p) (bytes n))
  | ["mknod", u, g, p, n, m, r, um] => some (.mknod ⟨nat u, nat g⟩ (i p) (bytes n) (nat m) (nat r) (nat um))
  | ["mkdir", u, g, p, n, m, um] => some (.mkdir ⟨nat u, nat g⟩ (i p) (bytes n) (nat m) (nat um))
  | ["unlink", p, n] => some (.unlink (i p) (bytes n))
  | ["rmdir", p, n] => some (.rmdir (i p) (bytes n))
  | ["rename", od, on, nd, nn, f] => some (.rename (i od) (bytes on) (i nd) (bytes nn) (nat f))
  | ["link", x, np, nn] => some (.link (i x) (i np) (bytes nn))
  | ["open", x, f, ff] => some (.open (i x) (nat f) (nat ff))
  | ["opendir", x, f] => some (.opendir (i x) (nat f))
  | ["create", u, g, p, n, f, m, um, ff] => some (.create ⟨nat u, nat g⟩ (i p) (bytes n) (nat f) (nat m) (nat um) (nat ff))
  | ["read", x, hh, sz, off, f] => some (.read (i x) (h hh) (nat sz) (nat off) (nat f))
  | ["write", x, hh, d, off, f, ff] => some (.write (i x) (h hh) (bytes d) (nat off) (nat f) (nat ff))
  | ["flush", x, hh] => some (.flush (i x) (h hh))
  | ["fsync", x, hh, ds] => some (.fsync (i x) (h hh) (ds == "1"))
  | ["fsyncdir", x, hh, ds] => some (.fsyncdir (i x) (h hh) (ds == "1"))
  | ["release", x, hh] => some (.release (i x) (h hh))
  | ["releasedir", x, hh] => some (.releasedir (i x) (h hh))
  | ["fallocate", x, hh, m, o, l] => some (.fallocate (i x) (h hh) (nat m) (nat o) (nat l))
  | ["lseek", x, hh, o, w] => some (.lseek (i x) (h hh) (nat o) (nat w))
  | ["statfs", x] => some (.statfs (i x))
  | ["setxattr", x, n, v, f] => some (.setxattr (i x) (bytes n) (bytes v) (nat f))
  | ["getxattr", x, n, sz] => some (.getxattr (i x) (bytes n) (nat sz))
  | ["listxattr", x, sz] => some (.listxattr (i x) (nat sz))
  | ["removexattr", x, n] => some (.removexattr (i x) (bytes n))
  | _ => none

def idx (tbl : List Nat) (pfx : String) (v : Nat) : String :=
  match tbl.idxOf? v with
  | some k => s!"{pfx}{k}"
  | none => s!"{pfx}?{v}"

def showTime : Option Nat → String
  | none => "now"
  | some t => toString t

def showAttr (st : Stat) : String :=
  s!"o{st.obj},m={toOct st.mode},u={st.uid},g={st.gid},s={st.size},n={st.nlink},r={st.rdev},at={showTime st.atime},mt={showTime st.mtime}"

def inoLit (cfg : Cfg) (ino : Nat) : String :=
  if cfg.useHostIno then s!"h{ino / 2 ^ 47}.{ino % 2 ^ 47}" else toString ino

def showH (nm : Names) : Option Nat → String
  | none => "-"
  | some h => idx nm.hs "h" h

def showReply (cfg : Cfg) (nm : Names) : Except Nat Reply → String
  | .error e => s!"err:{e}"
  | .ok .unit => "ok"
  | .ok (.entry e) =>
    let lit := if e.inode == 1 then "1" else inoLit cfg e.inode
    s!"entry({idx nm.inos "i" e.inode}={lit},{showAttr e.attr},fl={e.attrFlags},et={e.entryTimeout},at={e.attrTimeout})"
  | .ok (.attr st t) => s!"attr({showAttr st},at={t})"
  | .ok (.opened h o) => s!"open({showH nm h},opts={o})"
  | .ok (.created e h o) =>
    s!"created({idx nm.inos "i" e.inode}={inoLit cfg e.inode},{showAttr e.attr},et={e.entryTimeout},at={e.attrTimeout},{showH nm h},opts={o})"
  | .ok (.data b) => s!"data:{hx b}"
  | .ok (.count n) => s!"count:{n}"
  | .ok (.statfs a b) => s!"statfs({a},{b})"

/-- names learnt from a reply (first-appearance order), as the harness does -/
def learn (nm : Names) : Except Nat Reply → Names
  | .ok (.entry e) => if nm.inos.contains e.inode then nm else { nm with inos := nm.inos ++ [e.inode] }
  | .ok (.created e h _) =>
    let nm := if nm.inos.contains e.inode then nm else { nm with inos := nm.inos ++ [e.inode] }
    match h with
    | some h => { nm with hs := nm.hs ++ [h] }
    | none => nm
  | .ok (.opened (some h) _) => { nm with hs := nm.hs ++ [h] }
  | _ => nm

/-- the thread's effective ids as they follow from a call trace with its answers -/
def credsAfter (euid egid : Nat) : List HCall → List HAns → Nat × Nat
  | .setresuid u :: cs, .ok :: as => credsAfter u egid cs as
  | .setresgid g :: cs, .ok :: as => credsAfter euid g cs as
  | _ :: cs, _ :: as => credsAfter euid egid cs as
  | _, _ => (euid, egid)

/-- `root=<fd>.<obj>.<mode>.<file handle id or ->` -/
def parseRoot (s : String) : PtState :=
  match s.splitOn "." with
  | [f, o, m, h] =>
    let obj := nat o
    let fd := nat f
    initState (if h == "-" then .file fd else .handle (nat h)) obj (nat m)
  | _ => initState (.file 0) 0 16877

structure RunSt where
  pt : PtState
  nm : Names := {}
  out : List String := []
  credsOk : Bool := true

def runOp (cfg : Cfg) (st : RunSt) (opTxt : String) : RunSt :=
  match opTxt.splitOn "@" with
  | [body, ans] =>
    match parseReq st.nm body with
    | none => { st with out := st.out ++ ["bad-op"] }
    | some req =>
      let answers := parseAnswers ans
      let ((r, pt'), calls, _) := (step cfg st.pt req).runScript answers
      let nm' := learn st.nm r
      let cr := credsAfter 0 0 calls answers
      { pt := pt', nm := nm',
        out := st.out ++ [",".intercalate (calls.map showCall) ++ "=>" ++ showReply cfg nm' r],
        credsOk := st.credsOk && cr == (0, 0) }
  | _ => { st with out := st.out ++ ["bad-op"] }

def runLine (line : String) : String :=
  let kv := tokens line
  let cfg := (parseCfg (getD kv "cfg")).effective
  let root := getD kv "root"
  if root == "none" then "init-failed" else
  let st0 : RunSt := { pt := parseRoot root }
  let opsTxt := getD kv "ops"
  let ops := if opsTxt.isEmpty then [] else opsTxt.splitOn ";"
  let st := ops.foldl (runOp cfg) st0
  " | ".intercalate st.out ++ " | creds=" ++ (if st.credsOk then "ok" else "changed")

end Fbr.PtHostShow
