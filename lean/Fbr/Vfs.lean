/-
  Fbr.Vfs — executable model of `Vfs` (src/api/vfs/mod.rs, src/api/vfs/sync_io.rs) and of the
  `PseudoFs` it walks (src/api/pseudo_fs.rs), written function by function in the shape of the
  Rust code as it is now.

  * State: `supers` (slot index → backend), `mnts` (pseudo inode → mount point data), the pseudo
    tree (nodes with children in insertion order, `nextInode`), `nextSuper : u8` with explicit
    wrap-around, per-mount id mappings, the global mapping (plain field set in `Vfs::new`),
    options, `initialized`, `remove_pseudo_root`.
  * Backends are scripted: what a backend answers is part of the operation (`Req.ans`, `Bk.mans`,
    `Bk.ie`), what it was asked is the output (`Call`).
  * Numbers are `Nat`; `u32`/`u8`/56-bit casts and the one arithmetic operation that can overflow
    (`remap_id`: `value - from_base + to_base` on `u32`) are explicit.  The harness is built with
    overflow checks, so overflow is the outcome `panic` (`none` in the `Option` monad below);
    the other potential panics (`unwrap` in the pseudo fs, `assert_eq!` in `VfsInode::new`) are
    modelled the same way and shown unreachable in `Thm/C07`.
  * Names are byte strings (`List Nat`, each < 256); the model assumes ASCII names, so the
    `to_str()` conversions of the pseudo fs never fail (the generator only produces such names).
-/
namespace Fbr.Vfs

abbrev Name := List Nat

/-! ### constants -/
def VFS_MAX_INO : Nat := 2 ^ 56 - 1
def SHIFT : Nat := 2 ^ 56
def MAX_VFS_INDEX : Nat := 256
def ROOT_ID : Nat := 1
def U32 : Nat := 2 ^ 32

def ENOENT : Nat := 2
def EIO : Nat := 5
def EINVAL : Nat := 22
def ENOSYS : Nat := 38

def SLASH : Nat := 47
def DOT : Nat := 46

/-- FsOptions bits used by `Vfs::init` (pinned against `Gen.AbiRust` in `Thm/C19`) -/
def ATOMIC_O_TRUNC : Nat := 8
def WRITEBACK_CACHE : Nat := 65536
def ZERO_MESSAGE_OPEN : Nat := 131072
def ZERO_MESSAGE_OPENDIR : Nat := 16777216
def HANDLE_KILLPRIV_V2 : Nat := 268435456
/-- `VfsOptions::default().out_opts` -/
def DEFAULT_OUT_OPTS : Nat :=
  1 + 262144 + 32 + 32768 + 4096 + 2048 + 65536 + 131072 + 4194304 + 8 + 8388608 + 8192 + 16384
    + 33554432 + 16777216 + 268435456 + 8589934592

/-! ### id mapping -/

/-- (internal id, external id, range) -/
abbrev Map := Nat × Nat × Nat

/-- `remap_id` on `u32`; `none` = the addition `value - from_base + to_base` overflows `u32`
    (a panic in a build with overflow checks, a silent wrap otherwise) -/
def remapId (value fromBase toBase range : Nat) : Option Nat :=
  if fromBase ≤ value ∧ value - fromBase < range then
    if value - fromBase + toBase < U32 then some (value - fromBase + toBase) else none
  else some value

/-! ### pseudo fs -/

structure PNode where
  ino : Nat
  parent : Nat
  name : Name
  /-- `(ino, name)` of the children, in insertion order -/
  children : List (Nat × Name)
  deriving Repr, DecidableEq, Inhabited

structure Pseudo where
  nextInode : Nat
  /-- the `inodes` map; the root node is always present -/
  nodes : List PNode
  deriving Repr, DecidableEq, Inhabited

def Pseudo.new : Pseudo :=
  { nextInode := 2, nodes := [{ ino := 1, parent := 1, name := [SLASH], children := [] }] }

def Pseudo.find (p : Pseudo) (ino : Nat) : Option PNode := p.nodes.find? (fun n => n.ino == ino)

def PNode.child (n : PNode) (name : Name) : Option Nat :=
  (n.children.find? (fun c => c.2 == name)).map (·.1)

/-- `create_inode`: `new_inode` (fetch_add on `next_inode`), `insert_inode`, `insert_child` -/
def Pseudo.createInode (p : Pseudo) (parent : Nat) (name : Name) : Pseudo × Nat :=
  let ino := p.nextInode
  let node : PNode := { ino := ino, parent := parent, name := name, children := [] }
  let nodes := (p.nodes.filter (fun n => n.ino != ino)) ++ [node]
  let nodes := nodes.map (fun n => if n.ino == parent then { n with children := n.children ++ [(ino, name)] } else n)
  ({ nextInode := ino + 1, nodes := nodes }, ino)

/-- a path component after `Path::components()` of an absolute path: `none` = `..` -/
abbrev Comp := Option Name

def splitSlash : List Nat → List Name
  | [] => [[]]
  | c :: rest =>
    if c = SLASH then [] :: splitSlash rest
    else match splitSlash rest with
      | [] => [[c]]
      | h :: t => (c :: h) :: t

/-- `Path::new(p).components()` minus `RootDir`; `none` = `!path.has_root()` -/
def components (path : Name) : Option (List Comp) :=
  match path with
  | c :: rest =>
    if c = SLASH then
      some ((splitSlash rest).filterMap fun seg =>
        if seg = [] ∨ seg = [DOT] then none
        else if seg = [DOT, DOT] then some none
        else some (some seg))
    else none
  | [] => none

/-- `PseudoFs::mount` after the `has_root` check: creates missing nodes.
    Outer `none` = an `unwrap()` panicked. -/
def Pseudo.mountWalk : Pseudo → Nat → List Comp → Option (Pseudo × Nat)
  | p, cur, [] => some (p, cur)
  | p, cur, none :: rest =>
    match p.find cur with
    | none => none
    | some n => match p.find n.parent with
      | none => none
      | some pn => Pseudo.mountWalk p pn.ino rest
  | p, cur, some name :: rest =>
    match p.find cur with
    | none => none
    | some n =>
      match n.child name with
      | some c => match p.find c with
        | none => none
        | some cn => Pseudo.mountWalk p cn.ino rest
      | none =>
        let (p', ino) := p.createInode n.ino name
        Pseudo.mountWalk p' ino rest

/-- `PseudoFs::path_walk`; outer `none` = panic, inner `none` = not found -/
def Pseudo.pathWalk : Pseudo → Nat → List Comp → Option (Option Nat)
  | _, cur, [] => some (some cur)
  | p, cur, none :: rest =>
    match p.find cur with
    | none => none
    | some n => match p.find n.parent with
      | none => none
      | some pn => Pseudo.pathWalk p pn.ino rest
  | p, cur, some name :: rest =>
    match p.find cur with
    | none => none
    | some n =>
      match n.child name with
      | some c => match p.find c with
        | none => none
        | some cn => Pseudo.pathWalk p cn.ino rest
      | none => some none

def removeFirst (name : Name) : List (Nat × Name) → Option (List (Nat × Name))
  | [] => none
  | c :: rest => if c.2 == name then some rest else (removeFirst name rest).map (c :: ·)

/-- `evict_inode`; `none` = an `unwrap()` panicked -/
def Pseudo.evict (p : Pseudo) (ino : Nat) : Option Pseudo :=
  match p.find ino with
  | none => none
  | some n =>
    if ino = n.parent then some p
    else match p.find n.parent with
      | none => none
      | some pn =>
        match removeFirst n.name pn.children with
        | none => none
        | some ch =>
          let nodes := p.nodes.map (fun x => if x.ino == pn.ino then { x with children := ch } else x)
          some { p with nodes := nodes.filter (fun x => x.ino != ino) }

/-! ### the VFS state -/

/-- the observable part of an `Entry` -/
structure Ent where
  inode : Nat
  stIno : Nat
  uid : Nat
  gid : Nat
  deriving Repr, DecidableEq, Inhabited

/-- a scripted backend: identity, the answer of its `mount()` (`none` errno / root entry and
    largest inode number) and the errno of its `init()` (0 = ok) -/
structure Bk where
  id : Nat
  mountErr : Option Nat
  rootIno : Nat
  rootUid : Nat
  rootGid : Nat
  maxIno : Nat
  ie : Nat
  deriving Repr, DecidableEq, Inhabited

structure Mnt where
  idx : Nat
  ino : Nat
  rootEntry : Ent
  path : Name
  /-- ghost (not in `MountPointData`): id of the backend whose `mount()` produced this record;
      no model function reads it, it only lets the theorems say "its backend" -/
  bk : Nat
  /-- ghost: the per-mount mapping in force for the slot when this record was made (for `mount`
      that is the mapping given to this very call, see `Thm.C14.mount_records_given_map`) -/
  map : Option Map
  deriving Repr, DecidableEq, Inhabited

structure Opts where
  noOpen : Bool
  noOpendir : Bool
  noWriteback : Bool
  killprivV2 : Bool
  noReaddir : Bool
  sealSize : Bool
  inOpts : Nat
  outOpts : Nat
  idMapping : Map
  deriving Repr, DecidableEq, Inhabited

def Opts.default : Opts :=
  { noOpen := true, noOpendir := true, noWriteback := false, killprivV2 := false, noReaddir := false,
    sealSize := false, inOpts := 0, outOpts := DEFAULT_OUT_OPTS, idMapping := (0, 0, 0) }

structure State where
  supers : Nat → Option Bk
  mnts : Nat → Option Mnt
  pseudo : Pseudo
  nextSuper : Nat
  mountMaps : Nat → Option Map
  globalMap : Option Map
  opts : Opts
  initialized : Bool
  rmRoot : Bool

def upd {α : Type} (f : Nat → Option α) (i : Nat) (v : Option α) : Nat → Option α :=
  fun j => if j = i then v else f j

/-- `Vfs::new(opts)` (+ `set_remove_pseudo_root`) -/
def State.new (opts : Opts) (rmRoot : Bool) : State :=
  { supers := fun _ => none, mnts := fun _ => none, pseudo := Pseudo.new, nextSuper := 1,
    mountMaps := fun _ => none,
    globalMap := if opts.idMapping.2.2 = 0 then none else some opts.idMapping,
    opts := opts, initialized := false, rmRoot := rmRoot }

/-! ### outputs -/

inductive ReqOp where
  | lookup | forget | getattr | setattr | readlink | symlink | mknod | mkdir | unlink | rmdir
  | rename | link | open | create | read | write | flush | fsync | fallocate | release | statfs
  | setxattr | getxattr | listxattr | removexattr | opendir | readdir | readdirplus | fsyncdir
  | releasedir | access | setupmapping | removemapping
  deriving Repr, DecidableEq, Inhabited

inductive Method where
  | req (op : ReqOp)
  | mount | init | destroy
  deriving Repr, DecidableEq, Inhabited

inductive Arg where
  | n (v : Nat)
  | name (v : Name)
  deriving Repr, DecidableEq, Inhabited

/-- one call received by a backend: who, what, the context ids it saw, inode / name arguments -/
structure Call where
  bk : Nat
  method : Method
  uid : Nat
  gid : Nat
  args : List Arg
  deriving Repr, DecidableEq, Inhabited

inductive VErr where
  | mount (errno : Nat) | inodeIndex | fsIndex | pathWalk (errno : Nat) | notFound | initialize
  | persist | restoreMount (errno : Nat)
  deriving Repr, DecidableEq, Inhabited

structure DEnt where
  ino : Nat
  off : Nat
  name : Name
  deriving Repr, DecidableEq, Inhabited

structure PEnt where
  ino : Nat
  off : Nat
  ent : Ent
  name : Name
  deriving Repr, DecidableEq, Inhabited

inductive Res where
  | err (errno : Nat)
  | entry (e : Ent)
  | attr (stIno uid gid : Nat)
  | unit
  | num (n : Nat)
  | optNum (n : Option Nat)
  | dirents (err : Option Nat) (l : List DEnt)
  | plusents (err : Option Nat) (l : List PEnt)
  | mounted (idx : Nat)
  | verr (e : VErr)
  | umounted (ino parent : Nat)
  | restoreFailed (stage : String) (e : VErr)
  | panic
  deriving Repr, DecidableEq, Inhabited

/-! ### inode numbers -/

def fsIdx (ino : Nat) : Nat := ino / SHIFT % 256
def lowIno (ino : Nat) : Nat := ino % SHIFT

/-- `convert_inode`: `Err(other)` is reported as errno EIO (`encode_io_error_kind`) -/
def convertInode (idx ino : Nat) : Except Nat Nat :=
  if ino = 0 then .ok 0
  else if ino > VFS_MAX_INO then .error EIO
  else .ok (idx * SHIFT + ino)

def State.effectiveMap (s : State) (idx : Nat) : Option Map :=
  match s.mountMaps idx with
  | some m => some m
  | none => s.globalMap

/-- remap two ids internal → external (`toExt = true`) or external → internal -/
def remapPair (m : Option Map) (toExt : Bool) (uid gid : Nat) : Option (Nat × Nat) :=
  match m with
  | none => some (uid, gid)
  | some (i, e, r) =>
    let (f, t) := if toExt then (i, e) else (e, i)
    match remapId uid f t r, remapId gid f t r with
    | some u, some g => some (u, g)
    | _, _ => none

/-- `convert_entry`; outer `none` = overflow panic in `remap_id` -/
def State.convertEntry (s : State) (idx ino : Nat) (e : Ent) : Option (Except Nat Ent) :=
  match convertInode idx ino with
  | .error n => some (.error n)
  | .ok v =>
    match remapPair (s.effectiveMap idx) true e.uid e.gid with
    | none => none
    | some (u, g) => some (.ok { inode := v, stIno := v, uid := u, gid := g })

/-! ### mount table -/

/-- the loop of `allocate_fs_idx`; returns the new `next_super` and the index found -/
def allocLoop (supers : Nat → Option Bk) : Nat → Nat → Nat → Bool → Nat × Option Nat
  | 0, _, next, _ => (next, none)
  | fuel + 1, start, next, found =>
    let index := next
    let next' := (next + 1) % 256
    if index = start ∧ found = true then (next', none)
    else
      let found' := found || (index == start)
      if index = 0 then allocLoop supers fuel start next' found'
      else if (supers index).isSome then allocLoop supers fuel start next' found'
      else (next', some index)

def ALLOC_FUEL : Nat := 257

def State.allocateFsIdx (s : State) : State × Option Nat :=
  let (next, r) := allocLoop s.supers ALLOC_FUEL s.nextSuper s.nextSuper false
  ({ s with nextSuper := next }, r)

/-- the root entry a backend's `mount()` returns -/
def Bk.rootEnt (b : Bk) : Ent := { inode := b.rootIno, stIno := b.rootIno, uid := b.rootUid, gid := b.rootGid }

/-- `insert_mount_locked`; outer `none` = panic -/
def State.insertMountLocked (s : State) (b : Bk) (idx : Nat) (path : Name) : Option (State × Except Nat Unit) :=
  match components path with
  | none => some (s, .error EINVAL)
  | some comps =>
    match s.pseudo.mountWalk 1 comps with
    | none => none
    | some (p', inode) =>
      let s1 := { s with pseudo := p' }
      match s1.convertEntry idx b.rootIno b.rootEnt with
      | none => none
      | some (.error n) => some (s1, .error n)
      | some (.ok ent) =>
        let supers := match s1.mnts inode with
          | some m => upd s1.supers m.idx none
          | none => s1.supers
        let supers := upd supers idx (some b)
        let m : Mnt := { idx := idx, ino := b.rootIno, rootEntry := ent, path := path, bk := b.id, map := s1.mountMaps idx }
        some ({ s1 with supers := supers, mnts := upd s1.mnts inode (some m) }, .ok ())

def mountCall (b : Bk) : Call := { bk := b.id, method := .mount, uid := 0, gid := 0, args := [] }
def initCall (b : Bk) (opts : Nat) : Call := { bk := b.id, method := .init, uid := 0, gid := 0, args := [.n opts] }
def destroyCall (b : Bk) : Call := { bk := b.id, method := .destroy, uid := 0, gid := 0, args := [] }

/-- `Vfs::mount_with_id_mapping` (and `mount` = mapping `None`) -/
def State.mount (s : State) (b : Bk) (path : Name) (map : Option Map) : State × Res × List Call :=
  match b.mountErr with
  | some e => (s, .verr (.mount e), [mountCall b])
  | none =>
    if b.maxIno > VFS_MAX_INO then (s, .verr .inodeIndex, [mountCall b, destroyCall b])
    else
      let calls := if s.initialized then [mountCall b, initCall b s.opts.outOpts] else [mountCall b]
      if s.initialized ∧ b.ie ≠ 0 then (s, .verr .initialize, calls)
      else
        match s.allocateFsIdx with
        | (s1, none) => (s1, .verr .fsIndex, calls)
        | (s1, some idx) =>
          let s2 := { s1 with mountMaps := upd s1.mountMaps idx map }
          match s2.insertMountLocked b idx path with
          | none => (s2, .panic, calls)
          | some (s3, .error n) => (s3, .verr (.mount n), calls)
          | some (s3, .ok ()) => (s3, .mounted idx, calls)

/-- `Vfs::restore_mount` -/
def State.restoreMount (s : State) (b : Bk) (idx : Nat) (path : Name) : State × Res × List Call :=
  match b.mountErr with
  | some e => (s, .err e, [mountCall b])
  | none =>
    if b.maxIno > VFS_MAX_INO then (s, .err EIO, [mountCall b])
    else
      match s.insertMountLocked b idx path with
      | none => (s, .panic, [mountCall b])
      | some (s1, .error n) => (s1, .err n, [mountCall b])
      | some (s1, .ok ()) => (s1, .unit, [mountCall b])

/-- `Vfs::umount` -/
def State.umount (s : State) (path : Name) : State × Res × List Call :=
  match components path with
  | none => (s, .verr (.pathWalk EINVAL), [])
  | some comps =>
    match s.pseudo.pathWalk 1 comps with
    | none => (s, .panic, [])
    | some none => (s, .verr .notFound, [])
    | some (some inode) =>
      match (s.pseudo.find inode).map (·.parent) with
      | none => (s, .verr .notFound, [])
      | some parent =>
        match s.mnts inode with
        | none => (s, .verr .notFound, [])
        | some m =>
          let pseudo? := if s.rmRoot then s.pseudo.evict inode else some s.pseudo
          match pseudo? with
          | none => (s, .panic, [])
          | some pseudo =>
            let calls := match s.supers m.idx with
              | some b => [destroyCall b]
              | none => []
            ({ s with pseudo := pseudo, mnts := upd s.mnts inode none, supers := upd s.supers m.idx none,
                      mountMaps := upd s.mountMaps m.idx none },
             .umounted inode parent, calls)

/-! ### init / destroy -/

def removeBits (x f : Nat) : Nat := x - (x &&& f)

/-- the backends in slot order -/
def State.backends (s : State) : List Bk := (List.range MAX_VFS_INDEX).filterMap s.supers

def initLoop (opts : Nat) : List Bk → List Call × Option Nat
  | [] => ([], none)
  | b :: rest =>
    if b.ie ≠ 0 then ([initCall b opts], some b.ie)
    else
      let (cs, r) := initLoop opts rest
      (initCall b opts :: cs, r)

/-- `FileSystem::init` -/
def State.init (s : State) (opts : Nat) : State × Res × List Call :=
  if s.initialized then (s, .err EINVAL, [])
  else
    let n := s.opts
    let n := if n.noOpen then
        { n with noOpen := decide ((opts &&& n.outOpts &&& ZERO_MESSAGE_OPEN) ≠ 0), outOpts := removeBits n.outOpts ATOMIC_O_TRUNC }
      else { n with outOpts := removeBits n.outOpts ZERO_MESSAGE_OPEN }
    let n := if n.noOpendir then { n with noOpendir := decide ((opts &&& n.outOpts &&& ZERO_MESSAGE_OPENDIR) ≠ 0) }
      else { n with outOpts := removeBits n.outOpts ZERO_MESSAGE_OPENDIR }
    let n := if n.noWriteback then { n with outOpts := removeBits n.outOpts WRITEBACK_CACHE } else n
    let n := if !n.killprivV2 then { n with outOpts := removeBits n.outOpts HANDLE_KILLPRIV_V2 } else n
    let n := { n with inOpts := opts, outOpts := n.outOpts &&& opts }
    let s1 := { s with opts := n }
    match initLoop n.outOpts s1.backends with
    | (calls, some e) => (s1, .err e, calls)
    | (calls, none) => ({ s1 with initialized := true }, .num n.outOpts, calls)

/-- `FileSystem::destroy` -/
def State.destroy (s : State) : State × Res × List Call :=
  if s.initialized then ({ s with initialized := false }, .unit, s.backends.map destroyCall)
  else (s, .unit, [])

/-! ### requests -/

/-- what the backend answers to the one call a request can cause -/
inductive Ans where
  | err (errno : Nat)
  | ent (ino uid gid : Nat)          -- entry (lookup, mkdir, ...) or attr (getattr, setattr)
  | num (n : Nat)
  | unit
  | dirs (l : List (Nat × Name))
  | plus (l : List (Nat × Nat × Nat × Nat × Name))   -- dirent ino, entry ino, uid, gid, name
  deriving Repr, DecidableEq, Inhabited

structure Req where
  op : ReqOp
  uid : Nat
  gid : Nat
  ino : Nat
  name : Name := []
  name2 : Name := []
  ino2 : Nat := 0
  setUid : Nat := 0
  setGid : Nat := 0
  size : Nat := 0
  off : Nat := 0
  /-- the client's `add_entry` reports "buffer full" once it holds this many entries -/
  stop : Nat := 0
  ans : Ans := .unit
  deriving Repr, DecidableEq, Inhabited

inductive Target where
  | pseudo (ino : Nat)
  | backend (b : Bk) (idx : Nat) (ino : Nat)
  deriving Repr, DecidableEq, Inhabited

/-- `idata.fs_idx()` of the second component of `get_real_rootfs` -/
def Target.idx : Target → Nat
  | .pseudo ino => fsIdx ino
  | .backend _ idx _ => idx

/-- `get_fs_by_idx` + `get_real_rootfs`; outer `none` = the `assert_eq!` of `VfsInode::new` -/
def State.getRealRootfs (s : State) (ino : Nat) : Option (Except Nat Target) :=
  if fsIdx ino = 0 then
    if lowIno ino = ROOT_ID then
      match s.mnts ROOT_ID with
      | some m =>
        match s.supers m.idx with
        | none => some (.error ENOENT)
        | some b => if m.ino > VFS_MAX_INO then none else some (.ok (.backend b m.idx m.ino))
      | none => some (.ok (.pseudo ino))
    else some (.ok (.pseudo ino))
  else
    match s.supers (fsIdx ino) with
    | some b => some (.ok (.backend b (fsIdx ino) (lowIno ino)))
    | none => some (.error ENOENT)

/-- `id_remap_with_nodeid`: the slot whose mapping translates the request context -/
def State.remapIdx (s : State) (nodeid : Nat) : Nat :=
  if fsIdx nodeid = 0 ∧ lowIno nodeid = ROOT_ID then
    match s.mnts ROOT_ID with
    | some m => m.idx
    | none => fsIdx nodeid
  else fsIdx nodeid

def isDotOrDotdot (n : Name) : Bool := n == [DOT] || n == [DOT, DOT]
/-- `validate_path_component` -/
def safeName (n : Name) : Bool := !(n.contains SLASH) && !(isDotOrDotdot n)

/-- which names a request validates before routing (`validate_path_component`), and the slash
    test of `lookup` -/
def ReqOp.validates : ReqOp → Bool
  | .symlink | .mknod | .mkdir | .unlink | .rmdir | .rename | .link | .create | .setxattr
  | .getxattr | .removexattr => true
  | _ => false

def nameCheck (r : Req) : Bool :=
  match r.op with
  | .lookup => !(r.name.contains SLASH)
  | .rename => safeName r.name && safeName r.name2
  | op => if op.validates then safeName r.name else true

/-- the node id in the request header (LINK addresses the new parent) -/
def Req.nodeid (r : Req) : Nat := if r.op = .link then r.ino2 else r.ino

/-- inode / name arguments a backend is shown for each operation -/
def callArgs (r : Req) (i : Nat) (i2 : Nat) (attrUid attrGid : Nat) : List Arg :=
  match r.op with
  | .lookup | .symlink | .mknod | .mkdir | .unlink | .rmdir | .create | .setxattr | .getxattr
  | .removexattr => [.n i, .name r.name]
  | .forget => [.n i, .n 1]
  | .setattr => [.n i, .n attrUid, .n attrGid]
  | .rename => [.n i, .name r.name, .n i2, .name r.name2]
  | .link => [.n i, .n i2, .name r.name]
  | .readdir | .readdirplus => [.n i, .n r.size, .n r.off]
  | _ => [.n i]

/-- the client's `add_entry` closure of the harness: accept until `stop` entries are held -/
def takeStop {α : Type} (stop : Nat) (l : List α) : List α := l.take stop

/-- pseudo fs `get_entry` -/
def pseudoEnt (ino : Nat) : Ent := { inode := ino, stIno := ino, uid := 0, gid := 0 }

/-- `PseudoFs::lookup` -/
def Pseudo.lookup (p : Pseudo) (parent : Nat) (name : Name) : Except Nat Nat :=
  match p.find parent with
  | none => .error ENOENT
  | some n =>
    let ino := if name = [DOT] then n.ino
      else if name = [DOT, DOT] then n.parent
      else (n.child name).getD 0
    if ino = 0 then .error ENOENT else .ok ino

/-- `lookup_pseudo` -/
def State.lookupPseudo (s : State) (idata : Nat) (name : Name) : Option Res :=
  match s.pseudo.lookup (lowIno idata) name with
  | .error e => some (.err e)
  | .ok ino =>
    match s.mnts ino with
    | some m => some (.entry m.rootEntry)
    | none =>
      match s.convertEntry (fsIdx idata) ino (pseudoEnt ino) with
      | none => none
      | some (.error e) => some (.err e)
      | some (.ok e) => some (.entry e)

/-- entries `do_readdir` offers, with their offsets, before the VFS closure sees them -/
def Pseudo.dirList (p : Pseudo) (parent size off : Nat) : Except Nat (List (Nat × Nat × Name)) :=
  if size = 0 then .ok []
  else match p.find parent with
    | none => .error ENOENT
    | some n =>
      let ch := n.children.drop off
      .ok ((List.range ch.length).zip ch |>.map fun (k, c) => (c.1, off + 1 + k, c.2))

/-- fold of the directory callbacks: stops at the first conversion error (the entries already
    accepted stay with the client) or when the client holds `stop` entries.
    Outer `none` = the callback panicked (`remap_id` overflow) on an entry that was reached. -/
def dirFold {α β : Type} (f : α → Option (Except Nat β)) (stop : Nat) : List α → List β → Option (Option Nat × List β)
  | [], acc => some (none, acc.reverse)
  | x :: rest, acc =>
    match f x with
    | none => none
    | some (.error e) => some (some e, acc.reverse)
    | some (.ok y) => if acc.length ≥ stop then some (none, acc.reverse) else dirFold f stop rest (y :: acc)

/-- a request on a pseudo fs inode (`Left(fs)` branches): never reaches a backend.
    `none` = panic. -/
def State.pseudoReq (s : State) (r : Req) (idata : Nat) : Option Res :=
  let i := lowIno idata
  match r.op with
  | .lookup => s.lookupPseudo idata r.name
  | .getattr => some (match s.pseudo.find i with
      | some n => .attr n.ino 0 0
      | none => .err ENOENT)
  | .forget => some .unit
  | .access => some .unit
  | .open => some (.optNum none)
  | .opendir => some (.optNum none)
  | .statfs => some (.num 512)
  | .readdir =>
    match s.pseudo.dirList i r.size r.off with
    | .error e => some (.dirents (some e) [])
    | .ok l =>
      (dirFold (fun (d : Nat × Nat × Name) =>
        some ((match s.mnts d.1 with
         | some m => convertInode m.idx m.ino
         | none => convertInode (fsIdx idata) d.1).map fun ino => ({ ino := ino, off := d.2.1, name := d.2.2 } : DEnt)))
        r.stop l []).map fun (e, out) => .dirents e out
  | .readdirplus =>
    match s.pseudo.dirList i r.size r.off with
    | .error e => some (.plusents (some e) [])
    | .ok l =>
      (dirFold (fun (d : Nat × Nat × Name) =>
        some (match s.mnts d.1 with
        | some m => (convertInode m.idx m.ino).map fun ino =>
            ({ ino := ino, off := d.2.1, ent := { m.rootEntry with stIno := m.rootEntry.inode }, name := d.2.2 } : PEnt)
        | none => (convertInode (fsIdx idata) d.1).map fun ino =>
            ({ ino := ino, off := d.2.1, ent := { inode := ino, stIno := ino, uid := 0, gid := 0 }, name := d.2.2 } : PEnt)))
        r.stop l []).map fun (e, out) => .plusents e out
  | _ => some (.err ENOSYS)

/-- what the client sees of the answer of the backend in slot `idx` to a request on its inode `i`
    (`convert_backend_entry`, `convert_attr`, the directory closures).  `none` = panic. -/
def State.backendReply (s : State) (r : Req) (idx i : Nat) : Option Res :=
  let map := s.effectiveMap idx
  match r.ans with
  | .err e => some (match r.op with
      | .forget => .unit
      | .readdir => .dirents (some e) []
      | .readdirplus => .plusents (some e) []
      | _ => .err e)
  | ans =>
    match r.op with
    | .lookup | .symlink | .mknod | .mkdir | .link | .create =>
      (match ans with
       | .ent ino uid gid =>
         (match s.convertEntry idx ino { inode := ino, stIno := ino, uid := uid, gid := gid } with
          | none => none
          | some (.error e) => some (.err e)
          | some (.ok e) => some (.entry e))
       | _ => some (.err EIO))
    | .getattr | .setattr =>
      (match ans with
       | .ent _ uid gid =>
         (remapPair map true uid gid).map fun (u, g) => .attr (idx * SHIFT + i) u g
       | _ => some (.err EIO))
    | .forget => some .unit
    | .readlink | .read | .write | .statfs | .getxattr | .listxattr =>
      (match ans with
       | .num n => some (.num n)
       | _ => some (.err EIO))
    | .open | .opendir =>
      (match ans with
       | .num n => some (.optNum (some n))
       | _ => some (.err EIO))
    | .readdir =>
      (match ans with
       | .dirs l =>
         let offs := (List.range l.length).zip l
         (dirFold (fun (d : Nat × Nat × Name) =>
           some ((convertInode idx d.2.1).map fun ino => ({ ino := ino, off := d.1 + 1, name := d.2.2 } : DEnt))) r.stop offs []).map
           fun (e, out) => .dirents e out
       | _ => some (.err EIO))
    | .readdirplus =>
      (match ans with
       | .plus l =>
         let offs := (List.range l.length).zip l
         -- convert_inode first (`?`), then remap_attr_id (may overflow = panic)
         (dirFold (fun (d : Nat × Nat × Nat × Nat × Nat × Name) =>
           match convertInode idx d.2.2.1 with
           | .error e => some (.error e)
           | .ok ino =>
             (remapPair map true d.2.2.2.1 d.2.2.2.2.1).map fun (u, g) =>
               .ok ({ ino := ino, off := d.1 + 1, ent := { inode := ino, stIno := ino, uid := u, gid := g },
                      name := d.2.2.2.2.2 } : PEnt)) r.stop offs []).map
           fun (e, out) => .plusents e out
       | _ => some (.err EIO))
    | _ => some .unit

/-- rename / link resolve the second inode and refuse to span two mounts -/
def State.second (s : State) (r : Req) (t : Target) : Option (Except Nat (Option Target)) :=
  if r.op = .rename ∨ r.op = .link then
    match s.getRealRootfs r.ino2 with
    | none => none
    | some (.error e) => some (.error e)
    | some (.ok t2) => if t.idx ≠ t2.idx then some (.error EINVAL) else some (.ok (some t2))
  else some (.ok none)

/-- `idata_new.ino()` -/
def secondIno : Option Target → Nat
  | some (.backend _ _ j) => j
  | some (.pseudo j) => lowIno j
  | none => 0

/-- `no_open` / `no_opendir`: the request is answered ENOSYS before routing -/
def State.blocked (s : State) (r : Req) : Bool :=
  (r.op == .open && s.opts.noOpen) || (r.op == .opendir && s.opts.noOpendir)

/-- `State.handle` before the directory error form is applied -/
def State.handle' (s : State) (r : Req) : Option (Res × List Call) :=
  -- Server::remap_ctx_ids → Vfs::id_remap_with_nodeid
  match remapPair (s.effectiveMap (s.remapIdx r.nodeid)) false r.uid r.gid with
  | none => none
  | some (cu, cg) =>
  if !nameCheck r then some (.err EINVAL, [])
  else if s.blocked r then some (.err ENOSYS, [])
  else
  match s.getRealRootfs r.ino with
  | none => none
  | some (.error e) => some (if r.op = .forget then .unit else .err e, [])
  | some (.ok t) =>
    match s.second r t with
    | none => none
    | some (.error e) => some (.err e, [])
    | some (.ok t2) =>
    match t with
    | .pseudo idata => (s.pseudoReq r idata).map (·, [])
    | .backend b idx i =>
      -- setattr translates the owner ids to be set external → internal first
      let attrIds : Option (Nat × Nat) :=
        if r.op = .setattr then remapPair (s.effectiveMap idx) false r.setUid r.setGid else some (0, 0)
      match attrIds with
      | none => none
      | some (au, ag) =>
        let call : Call := { bk := b.id, method := .req r.op, uid := cu, gid := cg, args := callArgs r i (secondIno t2) au ag }
        -- a panic of the conversion happens after the backend was called
        some ((s.backendReply r idx i).getD .panic, [call])

/-- directory requests report an error together with the (empty) list of entries delivered -/
def dirErr (op : ReqOp) (res : Res) : Res :=
  match op, res with
  | .readdir, .err e => .dirents (some e) []
  | .readdirplus, .err e => .plusents (some e) []
  | _, r => r

/-- outcome of a request: reply and the backend calls it caused.  `none` = panic. -/
def State.handle (s : State) (r : Req) : Option (Res × List Call) :=
  (s.handle' r).map fun (res, calls) => (dirErr r.op res, calls)

/-! ### histories -/

/-- how the fresh instance that receives a snapshot is built / which format is read:
    `dflt` = `Vfs::new(VfsOptions::default())`, `same` = the original constructor options,
    `v1` = as `same`, but the snapshot is in the previous format version (no per-mount mappings) -/
inductive RMode where
  | dflt | same | v1
  deriving Repr, DecidableEq, Inhabited

inductive Op where
  | mount (b : Bk) (path : Name) (map : Option Map)
  | umount (path : Name)
  | init (opts : Nat)
  | destroy
  | req (r : Req)
  /-- save + restore into a fresh `Vfs` + `restore_mount` of the live mounts (`Fbr.Persist`) -/
  | saveRestore (mode : RMode)
  deriving Repr, Inhabited

end Fbr.Vfs
