/-
  Fbr.PtDirShow — parsing of `ptdir` case lines and canonical printing (driver side only).

  case line:  fs=pt|vfs|pseudo nod=0|1 dir=<hexname:ino:d_off:d_type:d_reclen,...>
              sk=<off:errno,...> ops=<op;op;...>
     ops:  o                      opendir
           c:<k>                  releasedir of the k-th opened handle (k=0: handle value 0)
           rd:<k>:<size>:<off>[:e<n>]   readdir      (e<n>: the callback fails on its n-th offer)
           rp:<k>:<size>:<off>[:e<n>]   readdirplus
  unit lines (byte-level helpers through the verif hooks):
           u=skip buf=<hex> off=<n> | u=last buf=<hex> | u=dots buf=<hex>
-/
import Std.Data.HashMap
import Fbr.Proto
import Fbr.PtDir

namespace Fbr.PtDirShow
open Fbr.Proto Fbr.PtDir Fbr.Wire

def fnv64 (s : String) : Nat :=
  s.toUTF8.foldl (fun h b => ((h ^^^ b.toNat) * 0x100000001b3) % 2 ^ 64) 0xcbf29ce484222325

def hexNat (n : Nat) : String := String.ofList (Nat.toDigits 16 n)

def parseEnt (s : String) : Option (HEnt × Nat) :=
  match s.splitOn ":" with
  | [nm, ino, off, ty, rl] =>
    match unhex nm, ino.toNat?, off.toNat?, ty.toNat?, rl.toNat? with
    | some n, some i, some o, some t, some r => some ({ ino := i, cookie := o, type := t, name := n }, r)
    | _, _, _, _, _ => none
  | _ => none

def parseDir (s : String) : List (HEnt × Nat) :=
  if s.isEmpty then [] else (s.splitOn ",").filterMap parseEnt

def parseSk (s : String) : List (Nat × Nat) :=
  if s.isEmpty then [] else
  (s.splitOn ",").filterMap fun it =>
    match it.splitOn ":" with
    | [a, b] => match a.toNat?, b.toNat? with
      | some x, some y => some (x, y)
      | _, _ => none
    | _ => none

structure Run where
  st : St
  opened : Array Nat := #[]
  ids : Std.HashMap Nat Nat := {}
  outs : Array String := #[]

def renameIno (ids : Std.HashMap Nat Nat) (ino : Nat) : Std.HashMap Nat Nat × Nat :=
  match ids.get? ino with
  | some i => (ids, i)
  | none => let i := ids.size + 1; (ids.insert ino i, i)

/-- inode numbers are renamed by first occurrence; a stand-alone passthrough reports host inode
    numbers in READDIRPLUS and its own inode numbers in READDIR (`space` selects the numbering) -/
def showEntries (ids : Std.HashMap Nat Nat) (space : Bool) (es : List Offer) : Std.HashMap Nat Nat × String :=
  let (ids, strs) := es.foldl (fun (acc : Std.HashMap Nat Nat × Array String) o =>
    let (m, i) := renameIno acc.1 (2 * o.ino + (if space then 1 else 0))
    (m, acc.2.push s!"{hex o.name}/{o.type}/{o.off}/{i}")) (ids, #[])
  let joined := ",".intercalate strs.toList
  if es.length > 8 then
    let last := (es.getLast?.map (·.off)).getD 0
    (ids, s!"#{es.length}/{hexNat (fnv64 joined)}/{last}")
  else (ids, joined)

def handleOf (r : Run) (k : Nat) : Nat := if k = 0 then 0 else r.opened.getD (k - 1) 0

def errAtOf (parts : List String) : Option Nat :=
  (parts.find? (·.startsWith "e")).bind fun e => (e.drop 1).toString.toNat?

def stepOp (H : Host) (pseudo : Option (List PChild)) (ptSpace : Bool) (r : Run) (op : String) : Run :=
  match op.splitOn ":" with
  | ["o"] =>
    let (st, res) := opendir r.st
    match res with
    | .ok h => { r with st := st, opened := r.opened.push h, outs := r.outs.push "ok" }
    | .error e => { r with st := st, outs := r.outs.push s!"e{e}" }
  | ["c", k] =>
    let (st, res) := releasedir r.st (handleOf r (k.toNat?.getD 0))
    match res with
    | .ok _ => { r with st := st, outs := r.outs.push "ok" }
    | .error e => { r with st := st, outs := r.outs.push s!"e{e}" }
  | kind :: k :: size :: off :: rest =>
    let plus := kind == "rp"
    let size := size.toNat?.getD 0
    let off := off.toNat?.getD 0
    let errAt := errAtOf rest
    match pseudo with
    | some children =>
      match pseudoRead children plus size off errAt with
      | .error e => { r with outs := r.outs.push s!"e{e}" }
      | .ok es =>
        let (ids, s) := showEntries r.ids false es
        { r with ids := ids, outs := r.outs.push ("ok:" ++ s) }
    | none =>
      let (st, res) := readReq H r.st plus (handleOf r (k.toNat?.getD 0)) size off errAt
      match res with
      | .error e => { r with st := st, outs := r.outs.push s!"e{e}" }
      | .ok es =>
        let (ids, s) := showEntries r.ids (plus && ptSpace) es
        { r with st := st, ids := ids, outs := r.outs.push ("ok:" ++ s) }
  | _ => { r with outs := r.outs.push "bad-op" }

/-- `pp~<a>~<b>`: two requests on one handle from two threads (the harness parks `a` in its first
    entry callback while `b` runs); sequentially equivalent: `a`, then `b` -/
def stepOps (H : Host) (pseudo : Option (List PChild)) (ptSpace : Bool) (r : Run) (op : String) : Run :=
  match op.splitOn "~" with
  | ["pp", a, b] => stepOp H pseudo ptSpace (stepOp H pseudo ptSpace r a) b
  | _ => stepOp H pseudo ptSpace r op

def showSkip : SkipRes → String
  | .notFound => "notfound"
  | .found rest => "found:" ++ hex rest
  | .panic => "panic"

def runUnit (kv : List (String × String)) : String :=
  match unhex (getD kv "buf") with
  | none => "bad-case"
  | some buf =>
    match getD kv "u" with
    | "skip" => showSkip (skipToCookie buf (getNatD kv "off"))
    | "last" => match lastCookieInBuf buf with
      | none => "none"
      | some c => s!"some:{c}"
    | "dots" => if onlyDotEntries buf then "t" else "f"
    | _ => "bad-case"

def runLine (line : String) : String :=
  let kv := tokens line
  if (get kv "u").isSome then runUnit kv else
  let ents := parseDir (getD kv "dir")
  let dir : Dir := ents.map (·.1)
  let badReclen := ents.any fun (e, rl) => getD kv "fs" != "pseudo" && reclen e != rl
  let sk := parseSk (getD kv "sk")
  let H : Host := { dir := dir, seekErr := fun o => sk.lookup o, eofQuirk := getNatD kv "q" == 1 }
  let pseudo : Option (List PChild) :=
    if getD kv "fs" == "pseudo" then some (dir.map fun e => { ino := e.ino, name := e.name }) else none
  let st0 : St := { noOpendir := getNatD kv "nod" == 1 }
  let ops := (getD kv "ops").splitOn ";" |>.filter (!·.isEmpty)
  let r := ops.foldl (stepOps H pseudo (getD kv "fs" == "pt")) ({ st := st0 } : Run)
  let alive := (r.st.refs.foldl (fun (m : Std.HashMap Nat Unit) i => m.insert i ()) {}).size
  (if badReclen then "reclen-mismatch " else "") ++ ";".intercalate r.outs.toList ++ s!" alive={alive}"

end Fbr.PtDirShow
