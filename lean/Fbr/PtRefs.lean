/-
  Fbr.PtRefs — executable model of the passthrough inode table and handle table
  (`src/passthrough/{mod,sync_io,inode_store,util,mount_fd,file_handle}.rs`), written
  function-by-function in the shape of the Rust code.  Serves C08 (lookup references) and
  C15 (handles and descriptors).

  Conventions
  * Host identity is abstract: `InodeId` is what `InodeId::from_stat` yields (`ino`,`dev`,`mnt`),
    `FhId` names the bytes of a kernel file handle.  Every host answer (what a name resolves to,
    the result of `mkdirat`/`linkat`/`openat`…) is an argument of the operation, never computed.
  * Descriptor ledger: `fds` counts the descriptors the server process holds; every host
    `open*` goes through `allocFd` (+1), every drop through `freeFd` (−1).  A descriptor
    allocation fails (`EMFILE`) when the fault oracle `Env.failAt` says so for this allocation
    index, or when the per-request cap `St.cap` (RLIMIT_NOFILE headroom) is reached.
  * The model follows the code as it is after the `fix:` commits 4cea86e (MountFds::get closes its
    probe descriptor), f54ffb9 (failed CREATE releases its lookup reference) and 3fb9b95
    (readdirplus undoes the reference when `add_entry` returns `Err`).
-/
namespace Fbr.PtRefs

abbrev Ino := Nat
abbrev FhId := Nat
abbrev Hnd := Nat
abbrev Errno := Nat

def EPERM : Errno := 1
def EBADF : Errno := 9
def EEXIST : Errno := 17
def EMFILE : Errno := 24
def ENOSYS : Errno := 38
def ESTALE : Errno := 116
/-- `io::Error::other(..)`: no OS error number -/
def EOTHER : Errno := 0

def ROOT_ID : Ino := 1
def MAX_HOST_INO : Nat := 0x7fffffffffff
def VIRTUAL_INODE_FLAG : Nat := 2 ^ 55
def VFS_MAX_INO : Nat := 0xffffffffffffff
def U64_MAX : Nat := 2 ^ 64 - 1

/-- `InodeId` of `inode_store.rs` -/
structure InodeId where
  ino : Nat
  dev : Nat
  mnt : Nat
  deriving DecidableEq, Repr

/-! ### association maps (BTreeMap / HashMap) -/

def mget {κ α : Type} [DecidableEq κ] : List (κ × α) → κ → Option α
  | [], _ => none
  | (k', v) :: r, k => if k' = k then some v else mget r k

def mdel {κ α : Type} [DecidableEq κ] (m : List (κ × α)) (k : κ) : List (κ × α) :=
  m.filter (fun p => !decide (p.1 = k))

def mput {κ α : Type} [DecidableEq κ] (m : List (κ × α)) (k : κ) (v : α) : List (κ × α) :=
  (k, v) :: mdel m k

/-! ### state -/

/-- `InodeData`: `fh = none` is `InodeHandle::File` (owns one `O_PATH` descriptor),
    `fh = some h` is `InodeHandle::Handle` (owns a strong reference on the mount fd). -/
structure IData where
  id : InodeId
  fh : Option FhId
  refs : Nat
  /-- `is_safe_inode(mode)`: regular file or directory -/
  safe : Bool
  deriving DecidableEq, Repr

structure St where
  -- InodeStore
  data : List (Ino × IData)
  byId : List (InodeId × Ino)
  byHandle : List (FhId × Ino)
  /-- `next_inode` -/
  next : Nat
  -- UniqueInodeGenerator
  devMap : List ((Nat × Nat) × Nat)
  nextUid : Nat
  nextVirt : Nat
  -- HandleMap
  handles : List (Hnd × Ino)
  cookies : List Hnd
  nextHandle : Nat
  /-- strong count of the (single) `MountFd`; the mount-fd map has an entry iff it is positive -/
  mountRefs : Nat
  -- resource ledger
  fds : Nat
  /-- number of descriptor allocations attempted so far (index into the fault oracle) -/
  allocs : Nat
  /-- RLIMIT headroom of the current request: allocations fail while `fds ≥ cap` -/
  cap : Option Nat
  /-- ghost (no influence on behaviour): `InodeStore::insert` has replaced a live non-root entry
      ("the old inode will get lost") -/
  clobbered : Bool := false
  /-- ghost: number of `do_lookup`s that returned an entry so far -/
  lookups : Nat := 0
  deriving Repr

/-- static configuration + fault oracle -/
structure Env where
  /-- `cfg.inode_file_handles` is not needed by the model: whether a file has a handle is part
      of the host answer.  -/
  useHostIno : Bool
  /-- effective `no_open` / `no_opendir` (config ∧ negotiated at INIT) -/
  noOpen : Bool
  noOpendir : Bool
  /-- fault oracle: the n-th descriptor allocation of the run fails -/
  failAt : Nat → Bool

/-- state right after `PassthroughFs::new`: `/proc/self/fd` and `/proc/self/mountinfo` are open -/
def St.fresh : St :=
  { data := [], byId := [], byHandle := [], next := ROOT_ID + 1,
    devMap := [], nextUid := 1, nextVirt := ROOT_ID + 1,
    handles := [], cookies := [], nextHandle := 1, mountRefs := 0,
    fds := 2, allocs := 0, cap := none }

/-! ### host answers -/

/-- what the host says a name resolves to: `open_file_and_handle` = `openat(O_PATH)`, `statx`,
    `name_to_handle_at` -/
structure HFile where
  id : InodeId
  fh : Option FhId
  safe : Bool
  /-- `is_dir(st_mode)` -/
  dir : Bool := false
  deriving DecidableEq, Repr

inductive HAns where
  | err (e : Errno)
  | ok (f : HFile)
  deriving Repr

/-- `is_dir(entry.attr.st_mode)` of the answer -/
def HAns.isDir : HAns → Bool
  | .ok f => f.dir
  | .err _ => false

/-! ### descriptor ledger -/

def capHit (s : St) : Bool :=
  match s.cap with
  | some c => decide (c ≤ s.fds)
  | none => false

/-- one descriptor allocation (`open*`): `(state, succeeded)` -/
def allocFd (e : Env) (s : St) : St × Bool :=
  if e.failAt s.allocs || capHit s then
    ({ s with allocs := s.allocs + 1 }, false)
  else
    ({ s with allocs := s.allocs + 1, fds := s.fds + 1 }, true)

def freeFd (s : St) : St := { s with fds := s.fds - 1 }

/-- a temporary descriptor that is only needed when `needed` (e.g. `InodeHandle::get_file` of an
    inode kept by file handle opens one, of an inode kept by descriptor borrows it) -/
def openTemp (e : Env) (s : St) (needed : Bool) : St × Bool :=
  if needed then allocFd e s else (s, true)

/-- `InodeData::get_file()`: borrowed when the inode is kept by descriptor; `open_by_handle_at`
    when it is kept by handle — `ESTALE` (host answer `stale`) before a descriptor is allocated -/
def getFile (e : Env) (s : St) (d : IData) (stale : Bool) : St × Option Errno :=
  if d.fh.isSome then
    if stale then (s, some ESTALE)
    else
      match allocFd e s with
      | (s, false) => (s, some EMFILE)
      | (s, true) => (s, none)
  else (s, none)

def closeTemp (s : St) (needed : Bool) : St := if needed then freeFd s else s

/-! ### MountFds (single mount) -/

/-- `MountFds::get`: reuse the live `MountFd` or open the mount point (O_PATH probe, reopen
    through /proc, probe closed) -/
def mountGet (e : Env) (s : St) : St × Option Errno :=
  if s.mountRefs > 0 then ({ s with mountRefs := s.mountRefs + 1 }, none)
  else
    match allocFd e s with
    | (s, false) => (s, some EMFILE)
    | (s, true) =>
      match allocFd e s with
      | (s, false) => (freeFd s, some EMFILE)
      | (s, true) => ({ freeFd s with mountRefs := 1 }, none)

/-- drop one `Arc<MountFd>`; the last one closes the descriptor and removes the map entry -/
def mountPut (s : St) : St :=
  if s.mountRefs = 1 then { freeFd s with mountRefs := 0 }
  else { s with mountRefs := s.mountRefs - 1 }

/-! ### InodeStore -/

def getByHandle (s : St) (h : FhId) : Option (Ino × IData) :=
  match mget s.byHandle h with
  | none => none
  | some i => (mget s.data i).map fun d => (i, d)

def getById (s : St) (id : InodeId) : Option (Ino × IData) :=
  match mget s.byId id with
  | none => none
  | some i => (mget s.data i).map fun d => (i, d)

/-- `InodeMap::get_alt_locked` -/
def getAlt (s : St) (id : InodeId) (fh : Option FhId) : Option (Ino × IData) :=
  match fh.bind (getByHandle s) with
  | some x => some x
  | none =>
    match getById s id with
    | some (i, d) => if fh.isNone || d.fh.isNone then some (i, d) else none
    | none => none

/-- `InodeMap::get_inode_locked` -/
def getInodeLocked (s : St) (id : InodeId) (fh : Option FhId) : Option Ino :=
  match fh with
  | some h => mget s.byHandle h
  | none => mget s.byId id

/-- dropping an `InodeData`: closes its descriptor or releases its mount-fd reference -/
def dropIData (s : St) (d : IData) : St :=
  match d.fh with
  | none => freeFd s
  | some _ => mountPut s

/-- `InodeStore::insert` (an entry already stored under the same number is dropped) -/
def insertInode (s : St) (ino : Ino) (d : IData) : St :=
  let s := match mget s.data ino with
    | some old => dropIData s old
    | none => s
  { s with
    byId := mput s.byId d.id ino,
    byHandle := (match d.fh with
      | some h => mput s.byHandle h ino
      | none => s.byHandle),
    data := mput s.data ino d,
    clobbered := s.clobbered || (decide (ino ≠ ROOT_ID) && (mget s.data ino).isSome) }

/-- `InodeStore::remove(inode, remove_data_only)` followed by the drop of the returned data -/
def removeInode (s : St) (ino : Ino) (d : IData) (keepMapping : Bool) : St :=
  let s := { s with data := mdel s.data ino }
  let s := if keepMapping then s else
    { s with
      byHandle := (match d.fh with
        | some h => mdel s.byHandle h
        | none => s.byHandle),
      byId := mdel s.byId d.id }
  dropIData s d

/-! ### UniqueInodeGenerator (util.rs) -/

/-- `(unique_id << 47) | inode` -/
def packIno (uid ino : Nat) : Nat := (uid <<< 47) ||| ino

/-- the small unique id of a `(dev, mnt)` pair (`dev_mntid_map`, at most 254 pairs) -/
def devUid (s : St) (id : InodeId) : St × Option Nat :=
  match mget s.devMap (id.dev, id.mnt) with
  | some u => (s, some u)
  | none =>
    if s.nextUid = 255 then (s, none)
    else ({ s with devMap := mput s.devMap (id.dev, id.mnt) s.nextUid, nextUid := s.nextUid + 1 },
          some s.nextUid)

/-- `UniqueInodeGenerator::get_unique_inode` -/
def getUniqueInode (s : St) (id : InodeId) : St × Except Errno Ino :=
  match devUid s id with
  | (s, none) => (s, .error EOTHER)
  | (s, some uid) =>
    if id.ino ≤ MAX_HOST_INO then (s, .ok (packIno uid id.ino))
    else if s.nextVirt > MAX_HOST_INO then (s, .error EOTHER)
    else ({ s with nextVirt := s.nextVirt + 1 }, .ok (packIno uid (s.nextVirt ||| VIRTUAL_INODE_FLAG)))

/-- `PassthroughFs::allocate_inode` -/
def allocateInode (e : Env) (s : St) (id : InodeId) (fh : Option FhId) : St × Except Errno Ino :=
  if !e.useHostIno then
    match getInodeLocked s id fh with
    | some i => (s, .ok i)
    | none => ({ s with next := s.next + 1 }, .ok s.next)
  else if id.ino > MAX_HOST_INO then
    match getInodeLocked s id fh with
    | some i => (s, .ok i)
    | none => getUniqueInode s id
  else getUniqueInode s id

/-! ### do_lookup / forget_one -/

/-- `u64::saturating_add` -/
def satAdd (a b : Nat) : Nat := min (a + b) U64_MAX

def setRefs (s : St) (ino : Ino) (d : IData) (r : Nat) : St :=
  { s with data := mput s.data ino { d with refs := r } }

/-- `to_openable_handle` for a file kept by handle; nothing to do for one kept by descriptor -/
def toOpenable (e : Env) (s : St) (fh : Option FhId) : St × Option Errno :=
  match fh with
  | some _ => mountGet e s
  | none => (s, none)

/-- an `InodeHandle` that was prepared but not inserted, and `path_fd`, are dropped -/
def dropPending (s : St) (fh : Option FhId) : St :=
  match fh with
  | some _ => freeFd (mountPut s)
  | none => freeFd s

/-- after the insert: kept by handle ⇒ `path_fd` is dropped at the end of `do_lookup`; kept by
    descriptor ⇒ it has moved into the `InodeData` -/
def settlePath (s : St) (fh : Option FhId) : St :=
  match fh with
  | some _ => freeFd s
  | none => s

/-- the tail of `do_lookup` after the probe missed: `to_openable_handle`, write lock, re-probe
    (cannot hit sequentially), `allocate_inode`, `insert_locked`.  On entry the `O_PATH`
    descriptor of the file is open. -/
def lookupInsert (e : Env) (s : St) (f : HFile) : St × Except Errno Ino :=
  match toOpenable e s f.fh with
  | (s, some er) => (freeFd s, .error er)
  | (s, none) =>
    match allocateInode e s f.id f.fh with
    | (s, .error er) => (dropPending s f.fh, .error er)
    | (s, .ok ino) =>
      if ino > VFS_MAX_INO then (dropPending s f.fh, .error EOTHER)
      else
        (settlePath { insertInode s ino { id := f.id, fh := f.fh, refs := 1, safe := f.safe }
                      with lookups := s.lookups + 1 } f.fh,
         .ok ino)

/-- `do_lookup` once the file's `O_PATH` descriptor is open and its identity known: the
    'search loop (load, saturating add, compare_exchange — succeeds at the first iteration
    sequentially) or the insert path.  The `O_PATH` descriptor is dropped unless it moves into a
    new `InodeData`. -/
def lookupCore (e : Env) (s : St) (f : HFile) : St × Except Errno Ino :=
  match getAlt s f.id f.fh with
  | some (ino, d) =>
    (freeFd { setRefs s ino d (satAdd d.refs 1) with lookups := s.lookups + 1 }, .ok ino)
  | none => lookupInsert e s f

/-- `PassthroughFs::do_lookup(parent, name)`; `a` is what the host resolves `name` to -/
def doLookup (e : Env) (s : St) (p : Ino) (pst : Bool) (a : HAns) : St × Except Errno Ino :=
  match mget s.data p with
  | none => (s, .error EBADF)
  | some dir =>
    let t := dir.fh.isSome
    -- dir.get_file()
    match getFile e s dir pst with
    | (s, some er) => (s, .error er)
    | (s, none) =>
      -- open_file_and_handle: openat(O_PATH | O_NOFOLLOW)
      match allocFd e s with
      | (s, false) => (closeTemp s t, .error EMFILE)
      | (s, true) =>
        match a with
        | .err er => (closeTemp (freeFd s) t, .error er)
        | .ok f =>
          match lookupCore e s f with
          | (s, r) => (closeTemp s t, r)

/-- `PassthroughFs::forget_one`: root exempt, saturating decrement, removal at zero -/
def forgetOne (e : Env) (s : St) (ino : Ino) (count : Nat) : St :=
  if ino = ROOT_ID then s
  else
    match mget s.data ino with
    | none => s
    | some d =>
      -- loop { load; saturating_sub; compare_exchange } succeeds at the first iteration
      let new := d.refs - count
      if new = 0 then
        removeInode s ino d (!e.useHostIno || decide (d.id.ino > MAX_HOST_INO))
      else setRefs s ino d new

def batchForget (e : Env) (s : St) : List (Ino × Nat) → St
  | [] => s
  | (i, n) :: r => batchForget e (forgetOne e s i n) r

/-! ### results -/

inductive Res where
  | err (e : Errno)
  | ok
  /-- an `Entry` (lookup, mkdir, mknod, symlink, link) -/
  | entry (ino : Ino)
  /-- `create`: entry + optional handle -/
  | entryH (ino : Ino) (h : Option Hnd)
  /-- `open`/`opendir` -/
  | handle (h : Hnd)
  /-- `readdirplus`: entries that were looked up, in order, with "delivered" -/
  | ents (l : List (Ino × Bool)) (r : Option Errno)
  deriving Repr

def entryRes : St × Except Errno Ino → St × Res
  | (s, .ok i) => (s, .entry i)
  | (s, .error er) => (s, .err er)

/-! ### handle table -/

/-- `open_inode` + `InodeData::open_file`; `hr` is the host's answer to the open (0 = success) -/
def openInode (e : Env) (s : St) (ino : Ino) (hr : Errno) : St × Option Errno :=
  match mget s.data ino with
  | none => (s, some EBADF)
  | some d =>
    if !d.safe then (s, some EBADF)
    else if d.fh.isSome && hr = ESTALE then (s, some ESTALE)   -- open_by_handle_at: stale before fd
    else
      match allocFd e s with
      | (s, false) => (s, some EMFILE)
      | (s, true) => if hr ≠ 0 then (freeFd s, some hr) else (s, none)

/-- `do_open`: the descriptor opened by `open_inode` moves into a new `HandleData` -/
def doOpen (e : Env) (s : St) (ino : Ino) (hr : Errno) : St × Res :=
  match openInode e s ino hr with
  | (s, some er) => (s, .err er)
  | (s, none) =>
    ({ s with handles := mput s.handles s.nextHandle ino, nextHandle := s.nextHandle + 1 },
     .handle s.nextHandle)

def opOpen (e : Env) (s : St) (ino : Ino) (hr : Errno) : St × Res :=
  if e.noOpen then (s, .err ENOSYS) else doOpen e s ino hr

def opOpendir (e : Env) (s : St) (ino : Ino) (hr : Errno) : St × Res :=
  if e.noOpendir then (s, .err ENOSYS) else doOpen e s ino hr

/-- `HandleMap::get(handle, inode)` -/
def handleGet (s : St) (h : Hnd) (ino : Ino) : Bool :=
  match mget s.handles h with
  | some i => decide (i = ino)
  | none => false

/-- `do_release`: `HandleMap::release` (entry removed only if the inode matches), then the cookie -/
def doRelease (s : St) (ino : Ino) (h : Hnd) : St × Res :=
  if handleGet s h ino then
    ({ freeFd s with handles := mdel s.handles h, cookies := s.cookies.filter (· ≠ h) }, .ok)
  else (s, .err EBADF)

def opRelease (e : Env) (s : St) (ino : Ino) (h : Hnd) : St × Res :=
  if e.noOpen then (s, .err ENOSYS) else doRelease s ino h

def opReleasedir (e : Env) (s : St) (ino : Ino) (h : Hnd) : St × Res :=
  if e.noOpendir then (s, .err ENOSYS) else doRelease s ino h

/-! ### entry-creating operations (sync_io.rs) -/

/-- `mkdir` / `symlink` / `mknod` (same shape since 0acdb73): the parent's file stays open across
    the host call and `do_lookup` -/
def opMknod (e : Env) (s : St) (p : Ino) (pst : Bool) (hr : Errno) (a : HAns) : St × Res :=
  match mget s.data p with
  | none => (s, .err EBADF)
  | some dir =>
    let t := dir.fh.isSome
    match getFile e s dir pst with
    | (s, some er) => (s, .err er)
    | (s, none) =>
      if hr ≠ 0 then (closeTemp s t, .err hr)
      else
        match entryRes (doLookup e s p pst a) with
        | (s, r) => (closeTemp s t, r)

/-- `link(inode, newparent, newname)`; `ist`/`pst` = the source / the new parent is gone from the
    host (`ESTALE` when opened by handle), `hr` = result of `linkat` -/
def opLink (e : Env) (s : St) (ino : Ino) (ist : Bool) (p : Ino) (pst : Bool) (hr : Errno) (a : HAns) :
    St × Res :=
  match mget s.data ino with
  | none => (s, .err EBADF)
  | some d =>
    match mget s.data p with
    | none => (s, .err EBADF)
    | some dir =>
      let t1 := d.fh.isSome
      let t2 := dir.fh.isSome
      match getFile e s d ist with
      | (s, some er) => (s, .err er)
      | (s, none) =>
        match getFile e s dir pst with
        | (s, some er) => (closeTemp s t1, .err er)
        | (s, none) =>
          if hr ≠ 0 then (closeTemp (closeTemp s t2) t1, .err hr)
          else
            match entryRes (doLookup e s p pst a) with
            | (s, r) => (closeTemp (closeTemp s t2) t1, r)

/-- answer of `create_file_excl` = `openat(O_CREAT | O_EXCL)` -/
inductive CreateAns where
  | created
  | exists
  | err (e : Errno)
  deriving Repr

/-- end of `create`: the open descriptor becomes a handle, or is dropped in `no_open` mode -/
def finishCreate (e : Env) (s : St) (ino : Ino) : St × Res :=
  if !e.noOpen then
    ({ s with handles := mput s.handles s.nextHandle ino, nextHandle := s.nextHandle + 1 },
     .entryH ino (some s.nextHandle))
  else (freeFd s, .entryH ino none)

/-- `create` after `create_file_excl`; `haveNew` = a descriptor of the new file is open -/
def createTail (e : Env) (s : St) (p : Ino) (pst : Bool) (haveNew : Bool) (a : HAns) (ohr : Errno) :
    St × Res :=
  match doLookup e s p pst a with
  | (s, .error er) => (closeTemp s haveNew, .err er)
  | (s, .ok ino) =>
    if haveNew then finishCreate e s ino
    else if a.isDir then
      -- b9eb45b: an existing directory answers EISDIR before any open; reference released
      (forgetOne e s ino 1, .err 21)
    else
      match openInode e s ino ohr with
      | (s, some er) =>
        -- fix f54ffb9: release the reference taken by do_lookup
        (forgetOne e s ino 1, .err er)
      | (s, none) => finishCreate e s ino

def opCreate (e : Env) (s : St) (p : Ino) (pst : Bool) (excl : Bool) (cr : CreateAns) (a : HAns)
    (ohr : Errno) : St × Res :=
  match mget s.data p with
  | none => (s, .err EBADF)
  | some dir =>
    let t := dir.fh.isSome
    match getFile e s dir pst with
    | (s, some er) => (s, .err er)
    | (s, none) =>
      match allocFd e s with
      | (s, false) => (closeTemp s t, .err EMFILE)
      | (s, true) =>
        match cr with
        | .err er => (closeTemp (freeFd s) t, .err er)
        | .exists =>
          let s := freeFd s
          if excl then (closeTemp s t, .err EEXIST)
          else
            match createTail e s p pst false a ohr with
            | (s, r) => (closeTemp s t, r)
        | .created =>
          match createTail e s p pst true a ohr with
          | (s, r) => (closeTemp s t, r)

/-! ### readdirplus (reference handling only) -/

/-- one record of the `getdents64` batch: "." / ".." or a name with its host answer -/
inductive DEnt where
  | dot
  | name (a : HAns)
  deriving Repr

/-- what the caller's `add_entry` does with the k-th real entry: the first `fit` are stored
    (`Ok(n>0)`), the next one is refused with `Ok(0)` (`full`) or `Err` -/
inductive Tail where
  | full
  | err
  deriving Repr, DecidableEq

/-- the record loop of `do_readdir` with the `readdirplus` closure.
    `first` = no record has been consumed yet (`rem.len() == orig_rem_len`). -/
def rdpLoop (e : Env) (s : St) (dir : Ino) (fit : Nat) (tl : Tail) :
    List DEnt → Bool → List (Ino × Bool) → St × List (Ino × Bool) × Option Errno
  | [], _, acc => (s, acc.reverse, none)
  | .dot :: r, _, acc => rdpLoop e s dir fit tl r false acc
  | .name a :: r, first, acc =>
    match doLookup e s dir false a with
    | (s, .error er) => (s, acc.reverse, if first then some er else none)
    | (s, .ok ino) =>
      match fit with
      | k + 1 => rdpLoop e s dir k tl r false ((ino, true) :: acc)
      | 0 =>
        -- Ok(0) and (since 3fb9b95) Err: release the reference acquired by do_lookup
        let s := forgetOne e s ino 1
        match tl with
        | .full => (s, ((ino, false) :: acc).reverse, none)
        | .err => (s, ((ino, false) :: acc).reverse, if first then some 5 else none)

/-- `get_dirdata`: the handle's directory stream, or (no_opendir) a temporary one -/
def getDirdata (e : Env) (s : St) (ino : Ino) (h : Hnd) (dhr : Errno) : St × Option Errno × Bool :=
  if !e.noOpendir then
    if handleGet s h ino then (s, none, false) else (s, some EBADF, false)
  else
    match openInode e s ino dhr with
    | (s, some er) => (s, some er, false)
    | (s, none) => (s, none, true)

/-- the `getdents64` batch holds something besides "." and ".." -/
def hasRealEntry (l : List DEnt) : Bool :=
  l.any fun d => match d with
    | .dot => false
    | .name _ => true

/-- `consume_cached_cookie` -/
def consumeCookie (e : Env) (s : St) (h : Hnd) : St :=
  if !e.noOpendir then { s with cookies := s.cookies.filter (· ≠ h) } else s

/-- `cache_cookie`: the last batch is non-empty iff it holds a real entry -/
def cacheCookie (e : Env) (s : St) (h : Hnd) (l : List DEnt) : St :=
  if !e.noOpendir && hasRealEntry l then { s with cookies := h :: s.cookies } else s

/-- `readdirplus(inode, handle, size>0, offset 0)`; `dhr` = host answer for opening the directory
    in `no_opendir` mode, `lst` = answer of `getdents64` -/
def opReaddirplus (e : Env) (s : St) (ino : Ino) (h : Hnd) (dhr : Errno)
    (lst : Except Errno (List DEnt)) (fit : Nat) (tl : Tail) : St × Res :=
  match getDirdata e s ino h dhr with
  | (s, some er, _) => (s, .err er)
  | (s, none, tmp) =>
    match lst with
    | .error er => (closeTemp (consumeCookie e s h) tmp, .err er)
    | .ok l =>
      match rdpLoop e (cacheCookie e (consumeCookie e s h) h l) ino fit tl l true [] with
      | (s, acc, er) => (closeTemp s tmp, .ents acc er)

/-! ### other requests that touch the tables -/

/-- `getattr(inode, handle)`; `hr` = host answer of the stat (`ESTALE` for a deleted file kept by
    handle) -/
def opGetattr (e : Env) (s : St) (ino : Ino) (h : Option Hnd) (hr : Errno) : St × Res :=
  match mget s.data ino with
  | none => (s, .err EBADF)
  | some d =>
    match (if e.noOpen then none else h) with
    | some hh => if handleGet s hh ino then (s, .ok) else (s, .err EBADF)
    | none =>
      match d.fh with
      | none => (s, .ok)
      | some _ =>
        if hr = ESTALE then (s, .err ESTALE)
        else
          match allocFd e s with
          | (s, false) => (s, .err EMFILE)
          | (s, true) => (freeFd s, if hr ≠ 0 then .err hr else .ok)

/-- `rename`: both directories must be valid; no table effect -/
def opRename (e : Env) (s : St) (p1 : Ino) (st1 : Bool) (p2 : Ino) (st2 : Bool) (hr : Errno) : St × Res :=
  match mget s.data p1, mget s.data p2 with
  | some d1, some d2 =>
    match getFile e s d1 st1 with
    | (s, some er) => (s, .err er)
    | (s, none) =>
      match getFile e s d2 st2 with
      | (s, some er) => (closeTemp s d1.fh.isSome, .err er)
      | (s, none) =>
        (closeTemp (closeTemp s d2.fh.isSome) d1.fh.isSome, if hr ≠ 0 then .err hr else .ok)
  | _, _ => (s, .err EBADF)

/-- `unlink`: no table effect -/
def opUnlink (e : Env) (s : St) (p : Ino) (pst : Bool) (hr : Errno) : St × Res :=
  match mget s.data p with
  | none => (s, .err EBADF)
  | some d =>
    match getFile e s d pst with
    | (s, some er) => (s, .err er)
    | (s, none) => (closeTemp s d.fh.isSome, if hr ≠ 0 then .err hr else .ok)

/-- `import()`: open the root, make it inode 1 with two references -/
def importRoot (e : Env) (s : St) (root : HAns) : St × Option Errno :=
  match allocFd e s with
  | (s, false) => (s, some EMFILE)
  | (s, true) =>
    match root with
    | .err er => (freeFd s, some er)
    | .ok f =>
      match toOpenable e s f.fh with
      | (s, some er) => (freeFd s, some er)
      | (s, none) =>
        (settlePath (insertInode s ROOT_ID { id := f.id, fh := f.fh, refs := 2, safe := f.safe }) f.fh,
         none)

/-- dropping every `InodeData` of the store -/
def dropAll (s : St) : List (Ino × IData) → St
  | [] => s
  | (_, d) :: r => dropAll (dropIData s d) r

/-- `handle_map.clear(); inode_map.clear()`: every handle's descriptor is closed, every
    `InodeData` dropped, all three maps of the store emptied -/
def clearAll (s : St) : St :=
  let s1 : St := { s with fds := s.fds - s.handles.length, handles := [], cookies := [] }
  let s2 : St := { s1 with data := [], byId := [], byHandle := [] }
  dropAll s2 s.data

/-- `destroy()`: clear the handle map (descriptors closed), clear the inode store, re-import -/
def opDestroy (e : Env) (s : St) (root : HAns) : St × Res :=
  match importRoot e (clearAll s) root with
  | (s, _) => (s, .ok)

/-- `init()`: import (flags are part of `Env`) -/
def opInit (e : Env) (s : St) (root : HAns) : St × Res :=
  match importRoot e s root with
  | (s, none) => (s, .ok)
  | (s, some er) => (s, .err er)

/-! ### histories -/

inductive Op where
  | lookup (p : Ino) (pst : Bool) (a : HAns)
  | forget (i : Ino) (n : Nat)
  | batchForget (l : List (Ino × Nat))
  /-- mkdir and symlink -/
  | mkdir (p : Ino) (pst : Bool) (hr : Errno) (a : HAns)
  | mknod (p : Ino) (pst : Bool) (hr : Errno) (a : HAns)
  | link (i : Ino) (ist : Bool) (p : Ino) (pst : Bool) (hr : Errno) (a : HAns)
  | create (p : Ino) (pst : Bool) (excl : Bool) (cr : CreateAns) (a : HAns) (ohr : Errno)
  | open (i : Ino) (hr : Errno)
  | opendir (i : Ino) (hr : Errno)
  | release (i : Ino) (h : Hnd)
  | releasedir (i : Ino) (h : Hnd)
  | readdirplus (i : Ino) (h : Hnd) (dhr : Errno) (lst : Except Errno (List DEnt)) (fit : Nat) (tl : Tail)
  | getattr (i : Ino) (h : Option Hnd) (hr : Errno)
  | rename (p1 : Ino) (st1 : Bool) (p2 : Ino) (st2 : Bool) (hr : Errno)
  | unlink (p : Ino) (pst : Bool) (hr : Errno)
  | destroy (root : HAns)
  | init (root : HAns)

def step (e : Env) (s : St) : Op → St × Res
  | .lookup p pst a => entryRes (doLookup e s p pst a)
  | .forget i n => (forgetOne e s i n, .ok)
  | .batchForget l => (batchForget e s l, .ok)
  | .mkdir p pst hr a => opMknod e s p pst hr a
  | .mknod p pst hr a => opMknod e s p pst hr a
  | .link i ist p pst hr a => opLink e s i ist p pst hr a
  | .create p pst x cr a ohr => opCreate e s p pst x cr a ohr
  | .open i hr => opOpen e s i hr
  | .opendir i hr => opOpendir e s i hr
  | .release i h => opRelease e s i h
  | .releasedir i h => opReleasedir e s i h
  | .readdirplus i h dhr lst fit tl => opReaddirplus e s i h dhr lst fit tl
  | .getattr i h hr => opGetattr e s i h hr
  | .rename p1 st1 p2 st2 hr => opRename e s p1 st1 p2 st2 hr
  | .unlink p pst hr => opUnlink e s p pst hr
  | .destroy root => opDestroy e s root
  | .init root => opInit e s root

/-- one request with an RLIMIT headroom: `cap = none` means unlimited -/
def stepCap (e : Env) (s : St) (headroom : Option Nat) (op : Op) : St × Res :=
  match step e { s with cap := headroom.map (s.fds + ·) } op with
  | (s, r) => ({ s with cap := none }, r)

/-- run a history (each request with its headroom), collecting the results -/
def run (e : Env) (s : St) : List (Option Nat × Op) → St × List Res
  | [] => (s, [])
  | (hd, op) :: r =>
    match stepCap e s hd op with
    | (s, x) =>
      match run e s r with
      | (s, xs) => (s, x :: xs)

/-- the state a history leads to -/
def runSt (e : Env) (s : St) (h : List (Option Nat × Op)) : St := (run e s h).1

end Fbr.PtRefs
