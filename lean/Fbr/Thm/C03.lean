/-
  C03 — Each reply is the exact wire encoding of what the filesystem returned.

  PROPERTY THEOREMS ONLY (helpers: `Fbr.Lemmas.SrvReply`, `SrvGood`, `Wire`).  "What the kernel
  reads" is expressed with the field readers `u32At`/`u64At` at the kernel's offsets (the
  equality of the library's layouts with the kernel's is C13).  All theorems hold for every
  result value, every errno / error kind, every directory content, every requested size.
-/
import Fbr.Lemmas.SrvReply
import Fbr.Lemmas.SrvDecode
import Fbr.Gen.Server

namespace Fbr.Thm.C03
open Fbr.Srv Fbr.Wire Fbr.Conv

/-- Errors are sent as the negated errno: for an OS error `n` in 1..4095 the header's `error`
    field is the two's-complement image of `-n`. -/
theorem error_is_negated_errno (n : Nat) (h1 : 1 ≤ n) (h2 : n ≤ 4095) :
    errField (.os n) = 2 ^ 32 - n := by
  simp only [errField]
  rw [Nat.mod_eq_of_lt (by omega), Nat.mod_eq_of_lt (by omega)]

/-- Non-OS errors are sent as the negated `encode_io_error_kind` image (never 0, always an
    errno in 1..4095). -/
theorem error_kind_is_negated_errno (k : String) :
    errField (.kind k) = 2 ^ 32 - encodeKind k ∧ 1 ≤ encodeKind k ∧ encodeKind k ≤ 4095 :=
  ⟨rfl, encodeKind_range k⟩

/-- Linux errno values used by `encode_io_error_kind` -/
def errnoValue (n : String) : Option Nat :=
  [("EPERM", 1), ("ENOENT", 2), ("EINTR", 4), ("EIO", 5), ("EWOULDBLOCK", 11),
   ("EAGAIN", 11), ("EACCES", 13), ("EEXIST", 17), ("EINVAL", 22)].lookup n

/-- value of an arm body `libc::A | libc::B | …` -/
def armValue (body : List String) : Option Nat :=
  body.foldl (fun acc t => match acc, errnoValue t with
    | some a, some b => some (a ||| b)
    | _, _ => none) (some 0)

/-- **The model's error-kind table is today's `encode_io_error_kind`**: every arm of the match
    in src/lib.rs (regenerated table) maps its kind to the errno the model uses; the default arm
    is the model's default (EIO). -/
theorem encode_kind_table_matches :
    ∀ a ∈ Gen.encodeKindArms,
      armValue a.2 = some (encodeKind (if a.1 = "_" then "any other kind" else a.1)) := by
  decide +kernel

/-- … and the arms are exactly the five kinds the model distinguishes, plus the default. -/
theorem encode_kind_arms_complete :
    Gen.encodeKindArms.map (·.1) =
      ["PermissionDenied", "NotFound", "Interrupted", "AlreadyExists", "WouldBlock", "_"] := by
  decide +kernel

/-- An error result produces exactly the 16-byte header carrying that error and the request's
    unique (when the reply buffer can hold a header at all). -/
theorem error_reply_is_header (cfg : Cfg) (u : Nat) (calls : List Call) (al : List Nat) (e : IoErr)
    (okb : Ans → Option (Bytes × Bytes)) (hcap : 16 ≤ cfg.cap) :
    (finish cfg u calls al (.err e) okb).out = emit cfg (outHeader 16 (errField e) u) := by
  unfold finish errRes
  rcases replyErr_cases cfg u e with ⟨_, h⟩ | ⟨h, _⟩
  · omega
  · simp [h]

/-- A successful result produces header ++ body ++ data with the exact total length. -/
theorem ok_reply_is_concatenation (cfg : Cfg) (u : Nat) (calls : List Call) (al : List Nat) (a : Ans)
    (okb : Ans → Option (Bytes × Bytes)) (body data : Bytes) (hne : ∀ e, a ≠ .err e)
    (hb : okb a = some (body, data)) (hfit : 16 + body.length + data.length ≤ cfg.cap) :
    (finish cfg u calls al a okb).out =
      emit cfg (outHeader (16 + body.length + data.length) 0 u ++ body ++ data) := by
  unfold finish
  split
  · next e => exact absurd rfl (hne e)
  · rw [hb]
    unfold okRes
    rcases replyOk_cases cfg u body data with ⟨_, h⟩ | ⟨h, _⟩
    · omega
    · simp [h]

/-- The kernel reads back every field of an entry (ids, generation, both timeouts, every
    attribute, and the attribute flags) — truncated only to the wire widths. -/
theorem entry_reply_decodes (e : Entry) (rest : Bytes) :
    EntryRead (entryOutBytes (entryOutOfEntry e) ++ rest) (entryOutOfEntry e) :=
  entryOutBytes_read _ _

/-- … in particular the attribute flags of the entry arrive (offset 40 + 84). -/
theorem entry_reply_carries_attr_flags (e : Entry) (rest : Bytes) :
    u32At ((entryOutBytes (entryOutOfEntry e) ++ rest).drop 40) 84 = e.attrFlags % 2 ^ 32 :=
  (entryOutBytes_read (entryOutOfEntry e) rest).attr.flags

/-- Every reply path that carries an entry encodes it identically: LOOKUP, SYMLINK, MKNOD, MKDIR,
    LINK (through `entryBody`), CREATE (first 128 bytes) and every READDIRPLUS record. -/
theorem entry_paths_agree (e : Entry) (fh : Option Nat) (opts : Nat) (pt : Option Nat) (d : DirEnt) :
    entryBody (.entry e) = some (entryOutBytes (entryOutOfEntry e), []) ∧
    (match (Ans.created e fh opts pt) with
     | .created e' fh' o' p' => (entryOutBytes (entryOutOfEntry e'), openOutBytes fh' o' p')
     | _ => ([], [])) = (entryOutBytes (entryOutOfEntry e), openOutBytes fh opts pt) ∧
    (direntChunks d (some e)).head? = some (entryOutBytes (entryOutOfEntry e)) := by
  refine ⟨rfl, rfl, rfl⟩

/-- GETATTR/SETATTR replies: timeout and every attribute field as the kernel reads them. -/
theorem attr_reply_decodes (st : Stat) (secs nanos : Nat) (rest : Bytes) :
    u64At (attrOutBytes secs nanos (attrOfStat st) ++ rest) 0 = secs % 2 ^ 64 ∧
    u32At (attrOutBytes secs nanos (attrOfStat st) ++ rest) 8 = nanos % 2 ^ 32 ∧
    u32At (attrOutBytes secs nanos (attrOfStat st) ++ rest) 12 = 0 ∧
    AttrRead ((attrOutBytes secs nanos (attrOfStat st) ++ rest).drop 16) (attrOfStat st) := by
  refine ⟨?_, ?_, ?_, ?_⟩
  · unfold attrOutBytes; wire_mod
  · unfold attrOutBytes; wire_mod
  · unfold attrOutBytes; wire_mod
  · have hs : attrOutBytes secs nanos (attrOfStat st) ++ rest =
        (le64 secs ++ le32 nanos ++ le32 0) ++ (attrBytes (attrOfStat st) ++ rest) := by
      simp [attrOutBytes, List.append_assoc]
    have hl : (le64 secs ++ le32 nanos ++ le32 0).length = 16 := by simp
    rw [hs, ← hl, List.drop_left]
    exact attrBytes_read _ _

/-- OPEN / OPENDIR / CREATE open part: handle (0 when absent), open options, passthrough id. -/
theorem open_reply_decodes (fh : Option Nat) (opts : Nat) (pt : Option Nat) (rest : Bytes) :
    u64At (openOutBytes fh opts pt ++ rest) 0 = fh.getD 0 % 2 ^ 64 ∧
    u32At (openOutBytes fh opts pt ++ rest) 8 = opts % 2 ^ 32 ∧
    u32At (openOutBytes fh opts pt ++ rest) 12 = pt.getD 0 % 2 ^ 32 := by
  refine ⟨?_, ?_, ?_⟩ <;> (unfold openOutBytes; wire_mod)

/-- READ: the reply is the header announcing `16 + |d|` bytes followed by exactly the bytes the
    file system produced (when they fit the data part of the reply buffer). -/
theorem read_reply_exact (cfg : Cfg) (u : Nat) (calls : List Call) (d : Bytes)
    (hfit : 16 + d.length ≤ cfg.cap) (hcap : cfg.cap < 2 ^ 32) :
    (readReply cfg u calls (.data d)).out = emit cfg (outHeader (16 + d.length) 0 u ++ d) ∧
    (readReply cfg u calls (.data d)).ret = .ok (16 + d.length) := by
  unfold readReply
  have h : ¬ d.length > cfg.cap - OUT_HDR := by unfold OUT_HDR; omega
  simp only [h, if_false]
  unfold splitOk OUT_HDR
  rw [Nat.mod_eq_of_lt (by omega)]
  exact ⟨rfl, rfl⟩

/-- **Directory replies hold only whole 8-byte-aligned entries within the size the client asked
    for**: for every list of entries the file system offers, every requested `size` and every
    reply capacity the server accepts (`cap ≥ size + 16`), the payload is exactly the
    concatenation of the complete records of a prefix of the entries, each record a multiple of
    8 bytes, the total at most `size`, and the call never turns into an error.  Names of every
    length, plain and plus. -/
theorem dirents_whole_aligned (cfg : Cfg) (u : Nat) (calls : List Call) (size : Nat) (plus prop : Bool)
    (ds : List (DirEnt × Entry)) (hcap : size + 16 ≤ cfg.cap) :
    ∃ k, k ≤ ds.length ∧
      dirReply cfg u calls size plus (.dirents ds prop) =
        splitOk cfg u calls ((ds.take k).flatMap (recordBytes plus)) ∧
      ((ds.take k).flatMap (recordBytes plus)).length ≤ size ∧
      ∀ de ∈ ds.take k, (recordBytes plus de).length % 8 = 0 := by
  obtain ⟨k, hk, heq, hlen⟩ := dirLoop_prefix size (cfg.cap - OUT_HDR) plus prop ds []
    (by unfold OUT_HDR; omega) (by simp)
  refine ⟨k, hk, ?_, by simpa using hlen, fun de _ => recordBytes_aligned plus de⟩
  unfold dirReply
  simp only [heq, List.nil_append]

/-- the record of an entry as the kernel walks it: `[entry_out] ino off namelen type name pad` -/
theorem record_layout (plus : Bool) (d : DirEnt) (e : Entry) :
    recordBytes plus (d, e) =
      (if plus then entryOutBytes (entryOutOfEntry e) else []) ++
      (le64 d.ino ++ le64 d.off ++ le32 d.name.length ++ le32 d.type) ++ d.name ++
      zeros ((DIRENT + d.name.length + 7) / 8 * 8 - (DIRENT + d.name.length)) := by
  unfold recordBytes direntChunks
  cases plus <;> simp [List.foldl]

/-! ### notifications -/

/-- pieces that fit are sent as one message: their concatenation -/
theorem notifyMsg_fits (cap : Nat) (pieces : List Bytes)
    (h : (pieces.foldl (· ++ ·) []).length ≤ cap) (hne : pieces.foldl (· ++ ·) [] ≠ []) :
    notifyMsg cap pieces = ({ sys := [pieces.foldl (· ++ ·) []] }, .ok (pieces.foldl (· ++ ·) []).length) := by
  unfold notifyMsg
  rw [writeChunks_ok cap 0 pieces (by simpa using h)]
  simp [hne]

/-- **notify_inval_entry** carries the given arguments with a length equal to its size: one
    write of `header(len = 32 + |name| + 1, code 3, unique 0) ++ parent ++ namelen ++ 0 ++ name ++ NUL`,
    where `namelen` excludes the NUL — for every name and parent. -/
theorem notify_inval_entry_encoding (cap parent : Nat) (name : Bytes)
    (hcap : 32 + name.length + 1 ≤ cap) (hlen : 32 + name.length + 1 < 2 ^ 32) :
    (notifyInvalEntry cap parent name).1.sys =
      [outHeader (32 + name.length + 1) 3 0 ++ (le64 parent ++ le32 name.length ++ le32 0) ++ (name ++ [0])] ∧
    (notifyInvalEntry cap parent name).2 = .ok (32 + name.length + 1) ∧
    msgLen (outHeader (32 + name.length + 1) 3 0 ++ (le64 parent ++ le32 name.length ++ le32 0) ++ (name ++ [0]))
      = 32 + name.length + 1 := by
  have hfold : ([outHeader (OUT_HDR + 16 + (name.length + 1)) 3 0, le64 parent ++ le32 name.length ++ le32 0,
      name ++ [0]] : List Bytes).foldl (· ++ ·) [] =
      outHeader (32 + name.length + 1) 3 0 ++ (le64 parent ++ le32 name.length ++ le32 0) ++ (name ++ [0]) := by
    have e : OUT_HDR + 16 + (name.length + 1) = 32 + name.length + 1 := by unfold OUT_HDR; omega
    rw [e]; simp [List.foldl]
  unfold notifyInvalEntry
  rw [notifyMsg_fits cap _ (by rw [hfold]; simp [outHeader_length]; omega)
    (by rw [hfold]; intro h; have := congrArg List.length h; simp [outHeader_length] at this)]
  rw [hfold]
  refine ⟨rfl, by simp [outHeader_length]; omega, ?_⟩
  rw [List.append_assoc, msgLen_header, Nat.mod_eq_of_lt hlen]

/-- **notify_inval_inode**: 40 bytes, code 2, the three arguments in order. -/
theorem notify_inval_inode_encoding (cap ino off len : Nat) (hcap : 40 ≤ cap) :
    (notifyInvalInode cap ino off len).1.sys = [outHeader 40 2 0 ++ (le64 ino ++ le64 off ++ le64 len)] ∧
    (notifyInvalInode cap ino off len).2 = .ok 40 := by
  unfold notifyInvalInode
  have hfold : ([outHeader (OUT_HDR + 24) 2 0, le64 ino ++ le64 off ++ le64 len] : List Bytes).foldl (· ++ ·) [] =
      outHeader 40 2 0 ++ (le64 ino ++ le64 off ++ le64 len) := by simp [List.foldl, OUT_HDR]
  rw [notifyMsg_fits cap _ (by rw [hfold]; simp [outHeader_length]; omega)
    (by rw [hfold]; intro h; have := congrArg List.length h; simp [outHeader_length] at this)]
  rw [hfold]
  exact ⟨rfl, by simp [outHeader_length]⟩

/-- **notify_resend**: the bare 16-byte header with code 7. -/
theorem notify_resend_encoding (cap : Nat) (hcap : 16 ≤ cap) :
    (notifyResend cap).1.sys = [outHeader 16 7 0] ∧ (notifyResend cap).2 = .ok 16 := by
  unfold notifyResend
  have hfold : ([outHeader OUT_HDR 7 0] : List Bytes).foldl (· ++ ·) [] = outHeader 16 7 0 := by
    simp [List.foldl, OUT_HDR]
  rw [notifyMsg_fits cap _ (by rw [hfold]; simp [outHeader_length]; omega)
    (by rw [hfold]; intro h; have := congrArg List.length h; simp [outHeader_length] at this)]
  rw [hfold]
  exact ⟨rfl, by simp [outHeader_length]⟩

/-- non-vacuity of `dirents_whole_aligned`: a concrete two-entry directory and capacity -/
example : (24 : Nat) + 16 ≤ ({ fusedev := true, cap := 4096 } : Cfg).cap := by decide


/-! ### whole-request reply theorems for the small reply structures

For a request that reaches its handler (`Req fs h`: well-formed header, length within the limit,
id-remap not refused) and a file system that answers the operation with the given value, the
bytes handed to the transport are exactly `header ++ body` with the body the kernel's structure
for that opcode.  `emit cfg m` = one `write` of `m` on /dev/fuse, or `m` stored at the start of
the reply area on virtio-fs. -/

/-- the common tail: one file-system call, reply = header ++ body ++ data -/
theorem simple_out (cfg : Cfg) (fs : Call → Ans) (u : Nat) (calls0 : List Call) (c : Call) (al : List Nat)
    (okb : Ans → Option (Bytes × Bytes)) (body data : Bytes) (hne : ∀ e, fs c ≠ .err e)
    (hb : okb (fs c) = some (body, data)) (hfit : 16 + body.length + data.length ≤ cfg.cap) :
    (simple cfg fs u calls0 c al okb).out =
      emit cfg (outHeader (16 + body.length + data.length) 0 u ++ body ++ data) :=
  ok_reply_is_concatenation cfg u _ al (fs c) okb body data hne hb hfit

/-- LSEEK: the new offset as `fuse_lseek_out` -/
theorem lseek_reply_exact (cfg : Cfg) (fs : Call → Ans) (h : Hdr) (R : Req fs h) (hop : h.op = 46)
    (fh off whence pad n : Nat) (trail : Bytes)
    (hans : ∀ c, c.method = "lseek" → fs c = .count n) (hcap : 24 ≤ cfg.cap) :
    (handle cfg fs (encHdr h ++ (le64 fh ++ le64 off ++ le32 whence ++ le32 pad ++ trail))).out =
      emit cfg (outHeader 24 0 h.unique ++ le64 n) := by
  rw [handle_reaches_handler cfg fs h R.wf _ R.len R.remapOk, hop]
  unfold handleBody
  simp only
  rw [withObj_ok _ _ _ _ _ (by simp only [List.length_append, le32_length, le64_length]; omega)]
  rw [simple_out _ _ _ _ _ _ _ (le64 n) [] (by rw [hans _ rfl]; intro e he; cases he)
    (by rw [hans _ rfl]) (by simp only [le64_length, List.length_nil]; omega)]
  simp

theorem lseek_reply_decodes (n : Nat) (rest : Bytes) : u64At (le64 n ++ rest) 0 = n % 2 ^ 64 := by
  wire_mod


/-- WRITE: the number of bytes the file system reported as `fuse_write_out` (size, padding 0) -/
theorem write_reply_exact (cfg : Cfg) (fs : Call → Ans) (h : Hdr) (R : Req fs h) (hop : h.op = 16)
    (fh off wf owner flags pad n : Nat) (payload : Bytes)
    (hans : ∀ c, c.method = "write" → fs c = .count n) (hcap : 24 ≤ cfg.cap) :
    (handle cfg fs (encHdr h ++ ((le64 fh ++ le64 off ++ le32 payload.length ++ le32 wf ++ le64 owner ++
        le32 flags ++ le32 pad) ++ payload))).out =
      emit cfg (outHeader 24 0 h.unique ++ (le32 n ++ le32 0)) := by
  rw [handle_reaches_handler cfg fs h R.wf _ R.len R.remapOk, hop]
  unfold handleBody
  simp only
  rw [withObj_ok _ _ _ _ _ (by simp only [List.length_append, le32_length, le64_length]; omega)]
  rw [simple_out _ _ _ _ _ _ _ (le32 n ++ le32 0) [] (by rw [hans _ rfl]; intro e he; cases he)
    (by rw [hans _ rfl]) (by simp only [List.length_append, le32_length, List.length_nil]; omega)]
  simp

theorem write_reply_decodes (n : Nat) (rest : Bytes) :
    u32At (le32 n ++ le32 0 ++ rest) 0 = n % 2 ^ 32 ∧ u32At (le32 n ++ le32 0 ++ rest) 4 = 0 := by
  constructor <;> wire_mod

/-- STATFS: `fuse_kstatfs` converted from the file system's `statvfs64` -/
theorem statfs_reply_exact (cfg : Cfg) (fs : Call → Ans) (h : Hdr) (R : Req fs h) (hop : h.op = 17)
    (s : Statvfs) (trail : Bytes)
    (hans : ∀ c, c.method = "statfs" → fs c = .statfs s) (hcap : 96 ≤ cfg.cap) :
    (handle cfg fs (encHdr h ++ trail)).out =
      emit cfg (outHeader 96 0 h.unique ++ kstatfsBytes (kstatfsOfStatvfs s)) := by
  rw [handle_reaches_handler cfg fs h R.wf _ R.len R.remapOk, hop]
  unfold handleBody
  simp only
  have hl : (kstatfsBytes (kstatfsOfStatvfs s)).length = 80 := by simp [kstatfsBytes, zeros]
  rw [simple_out _ _ _ _ _ _ _ (kstatfsBytes (kstatfsOfStatvfs s)) [] (by rw [hans _ rfl]; intro e he; cases he)
    (by rw [hans _ rfl]) (by rw [hl]; simp only [List.length_nil]; omega)]
  simp [hl]

/-- what the kernel reads from the STATFS reply: every `statvfs64` field, truncated to the wire widths -/
theorem statfs_reply_decodes (s : Statvfs) (rest : Bytes) :
    let b := kstatfsBytes (kstatfsOfStatvfs s) ++ rest
    u64At b 0 = s.blocks % 2 ^ 64 ∧ u64At b 8 = s.bfree % 2 ^ 64 ∧ u64At b 16 = s.bavail % 2 ^ 64 ∧
    u64At b 24 = s.files % 2 ^ 64 ∧ u64At b 32 = s.ffree % 2 ^ 64 ∧ u32At b 40 = s.bsize % 2 ^ 32 ∧
    u32At b 44 = s.namemax % 2 ^ 32 ∧ u32At b 48 = s.frsize % 2 ^ 32 := by
  simp only
  refine ⟨?_, ?_, ?_, ?_, ?_, ?_, ?_, ?_⟩ <;>
    (unfold kstatfsBytes kstatfsOfStatvfs; wire_mod; try (simp only [u32, Nat.mod_mod]))

/-- BMAP -/
theorem bmap_reply_exact (cfg : Cfg) (fs : Call → Ans) (h : Hdr) (R : Req fs h) (hop : h.op = 37)
    (block bs pad n : Nat) (trail : Bytes)
    (hans : ∀ c, c.method = "bmap" → fs c = .count n) (hcap : 24 ≤ cfg.cap) :
    (handle cfg fs (encHdr h ++ (le64 block ++ le32 bs ++ le32 pad ++ trail))).out =
      emit cfg (outHeader 24 0 h.unique ++ le64 n) := by
  rw [handle_reaches_handler cfg fs h R.wf _ R.len R.remapOk, hop]
  unfold handleBody
  simp only
  rw [withObj_ok _ _ _ _ _ (by simp only [List.length_append, le32_length, le64_length]; omega)]
  rw [simple_out _ _ _ _ _ _ _ (le64 n) [] (by rw [hans _ rfl]; intro e he; cases he)
    (by rw [hans _ rfl]) (by simp only [le64_length, List.length_nil]; omega)]
  simp

/-- POLL: the ready events as `fuse_poll_out` -/
theorem poll_reply_exact (cfg : Cfg) (fs : Call → Ans) (h : Hdr) (R : Req fs h) (hop : h.op = 40)
    (fh kh flags events n : Nat) (trail : Bytes)
    (hans : ∀ c, c.method = "poll" → fs c = .count n) (hcap : 24 ≤ cfg.cap) :
    (handle cfg fs (encHdr h ++ (le64 fh ++ le64 kh ++ le32 flags ++ le32 events ++ trail))).out =
      emit cfg (outHeader 24 0 h.unique ++ (le32 n ++ le32 0)) := by
  rw [handle_reaches_handler cfg fs h R.wf _ R.len R.remapOk, hop]
  unfold handleBody
  simp only
  rw [withObj_ok _ _ _ _ _ (by simp only [List.length_append, le32_length, le64_length]; omega)]
  rw [simple_out _ _ _ _ _ _ _ (le32 n ++ le32 0) [] (by rw [hans _ rfl]; intro e he; cases he)
    (by rw [hans _ rfl]) (by simp only [List.length_append, le32_length, List.length_nil]; omega)]
  simp

/-- LISTXATTR with size 0 asks for the length: `fuse_getxattr_out` -/
theorem listxattr_size_reply_exact (cfg : Cfg) (fs : Call → Ans) (h : Hdr) (R : Req fs h) (hop : h.op = 23)
    (size pad n : Nat) (trail : Bytes)
    (hans : ∀ c, c.method = "listxattr" → fs c = .count n) (hcap : 24 ≤ cfg.cap) :
    (handle cfg fs (encHdr h ++ (le32 size ++ le32 pad ++ trail))).out =
      emit cfg (outHeader 24 0 h.unique ++ (le32 n ++ le32 0)) := by
  rw [handle_reaches_handler cfg fs h R.wf _ R.len R.remapOk, hop]
  unfold handleBody
  simp only
  rw [withObj_ok _ _ _ _ _ (by simp only [List.length_append, le32_length]; omega)]
  rw [simple_out _ _ _ _ _ _ _ (le32 n ++ le32 0) [] (by rw [hans _ rfl]; intro e he; cases he)
    (by rw [hans _ rfl]) (by simp only [List.length_append, le32_length, List.length_nil]; omega)]
  simp

/-- LISTXATTR names: the reply payload is exactly the bytes the file system returned -/
theorem listxattr_data_reply_exact (cfg : Cfg) (fs : Call → Ans) (h : Hdr) (R : Req fs h) (hop : h.op = 23)
    (size pad : Nat) (d trail : Bytes)
    (hans : ∀ c, c.method = "listxattr" → fs c = .data d) (hcap : 16 + d.length ≤ cfg.cap) :
    (handle cfg fs (encHdr h ++ (le32 size ++ le32 pad ++ trail))).out =
      emit cfg (outHeader (16 + d.length) 0 h.unique ++ d) := by
  rw [handle_reaches_handler cfg fs h R.wf _ R.len R.remapOk, hop]
  unfold handleBody
  simp only
  rw [withObj_ok _ _ _ _ _ (by simp only [List.length_append, le32_length]; omega)]
  rw [simple_out _ _ _ _ _ _ _ [] d (by rw [hans _ rfl]; intro e he; cases he)
    (by rw [hans _ rfl]) (by simp only [List.length_nil]; omega)]
  simp

/-- GETLK: the conflicting lock as `fuse_lk_out` -/
theorem getlk_reply_exact (cfg : Cfg) (fs : Call → Ans) (h : Hdr) (R : Req fs h) (hop : h.op = 31)
    (fh owner st en typ pid lkf pad s e t p : Nat) (trail : Bytes)
    (hans : ∀ c, c.method = "getlk" → fs c = .lock s e t p) (hcap : 40 ≤ cfg.cap) :
    (handle cfg fs (encHdr h ++ (le64 fh ++ le64 owner ++ le64 st ++ le64 en ++ le32 typ ++ le32 pid ++
        le32 lkf ++ le32 pad ++ trail))).out =
      emit cfg (outHeader 40 0 h.unique ++ (le64 s ++ le64 e ++ le32 t ++ le32 p)) := by
  rw [handle_reaches_handler cfg fs h R.wf _ R.len R.remapOk, hop]
  unfold handleBody
  simp only
  rw [withObj_ok _ _ _ _ _ (by simp only [List.length_append, le32_length, le64_length]; omega)]
  rw [simple_out _ _ _ _ _ _ _ (le64 s ++ le64 e ++ le32 t ++ le32 p) [] (by rw [hans _ rfl]; intro e he; cases he)
    (by rw [hans _ rfl]) (by simp only [List.length_append, le32_length, le64_length, List.length_nil]; omega)]
  simp

theorem getlk_reply_decodes (s e t p : Nat) (rest : Bytes) :
    let b := le64 s ++ le64 e ++ le32 t ++ le32 p ++ rest
    u64At b 0 = s % 2 ^ 64 ∧ u64At b 8 = e % 2 ^ 64 ∧ u32At b 16 = t % 2 ^ 32 ∧ u32At b 20 = p % 2 ^ 32 := by
  simp only
  refine ⟨?_, ?_, ?_, ?_⟩ <;> wire_mod

/-- OPENDIR: handle and options; never a passthrough id -/
theorem opendir_reply_exact (cfg : Cfg) (fs : Call → Ans) (h : Hdr) (R : Req fs h) (hop : h.op = 27)
    (flags pad : Nat) (fh pt : Option Nat) (opts : Nat) (trail : Bytes)
    (hans : ∀ c, c.method = "opendir" → fs c = .opened fh opts pt) (hcap : 32 ≤ cfg.cap) :
    (handle cfg fs (encHdr h ++ (le32 flags ++ le32 pad ++ trail))).out =
      emit cfg (outHeader 32 0 h.unique ++ openOutBytes fh opts none) := by
  rw [handle_reaches_handler cfg fs h R.wf _ R.len R.remapOk, hop]
  unfold handleBody
  simp only
  rw [withObj_ok _ _ _ _ _ (by simp only [List.length_append, le32_length]; omega)]
  have hl : (openOutBytes fh opts none).length = 16 := by simp [openOutBytes]
  rw [simple_out _ _ _ _ _ _ _ (openOutBytes fh opts none) [] (by rw [hans _ rfl]; intro e he; cases he)
    (by rw [hans _ rfl]) (by rw [hl]; simp only [List.length_nil]; omega)]
  simp [hl]

/-- requests answered without a body (here FLUSH; the same shape serves RELEASE, FSYNC, ACCESS,
    SETLK, FALLOCATE, …): a bare header with error 0 -/
theorem flush_reply_is_bare_header (cfg : Cfg) (fs : Call → Ans) (h : Hdr) (R : Req fs h) (hop : h.op = 25)
    (fh un pad owner : Nat) (trail : Bytes)
    (hans : ∀ c, c.method = "flush" → fs c = .unit) (hcap : 16 ≤ cfg.cap) :
    (handle cfg fs (encHdr h ++ (le64 fh ++ le32 un ++ le32 pad ++ le64 owner ++ trail))).out =
      emit cfg (outHeader 16 0 h.unique) := by
  rw [handle_reaches_handler cfg fs h R.wf _ R.len R.remapOk, hop]
  unfold handleBody
  simp only
  rw [withObj_ok _ _ _ _ _ (by simp only [List.length_append, le32_length, le64_length]; omega)]
  rw [simple_out _ _ _ _ _ _ _ [] [] (by rw [hans _ rfl]; intro e he; cases he)
    (by rw [hans _ rfl]; rfl) (by simp only [List.length_nil]; omega)]
  simp

/-- and an error from the file system on such a request is the bare header with the negated errno -/
theorem flush_error_reply (cfg : Cfg) (fs : Call → Ans) (h : Hdr) (R : Req fs h) (hop : h.op = 25)
    (fh un pad owner n : Nat) (trail : Bytes)
    (hans : ∀ c, c.method = "flush" → fs c = .err (.os n)) (h1 : 1 ≤ n) (hn : n < 2 ^ 32) (hcap : 16 ≤ cfg.cap) :
    (handle cfg fs (encHdr h ++ (le64 fh ++ le32 un ++ le32 pad ++ le64 owner ++ trail))).out =
      emit cfg (outHeader 16 (2 ^ 32 - n) h.unique) := by
  rw [handle_reaches_handler cfg fs h R.wf _ R.len R.remapOk, hop]
  unfold handleBody
  simp only
  rw [withObj_ok _ _ _ _ _ (by simp only [List.length_append, le32_length, le64_length]; omega)]
  unfold simple finish
  rw [hans _ rfl]
  simp only [errRes]
  rcases replyErr_cases cfg h.unique (.os n) with ⟨_, hlt⟩ | ⟨hh, _⟩
  · omega
  · rw [hh]; simp only [errField]
    rw [Nat.mod_eq_of_lt hn, Nat.mod_eq_of_lt (by omega : 2 ^ 32 - n < 2 ^ 32)]

end Fbr.Thm.C03
