/-
  C05 — passthrough requests have the effect and result of the same host system call.
  PROPERTY THEOREMS ONLY (helper lemmas: Fbr.Lemmas.PtHost*).  Model: Fbr.PtHost (transducer
  request ↦ host calls ↦ reply over Fbr.Host); the host is a parameter `H` with laws `HostLaws H`.
-/
import Fbr.Lemmas.PtHostNeutral
import Fbr.Lemmas.PtHostCalls
import Fbr.Lemmas.PtHostBits
import Fbr.Lemmas.PtHostDirect
import Fbr.Lemmas.PtHostSpec
import Fbr.Lemmas.PtHostNames
import Fbr.Lemmas.HostRef
import Fbr.Lemmas.PtHostOwner
import Fbr.Lemmas.HostRefOwner
import Fbr.Lemmas.HostRefDemo

namespace Fbr.Thm.C05
open Fbr.Host Fbr.PtHost

variable {σ : Type}

/-! ## credentials -/

/-- **creds_restored.**  For every host satisfying the laws, every configuration, every state of
    the inode / handle tables and every request: if the serving thread starts as the library
    expects (euid = egid = 0, effective CAP_FSETID = permitted), then after the request — on every
    path: `setresgid` ok then `setresuid` fails, the system call fails, the lookup after a create
    fails, EBADF before any call, … — its euid, egid and CAP_FSETID are what they were. -/
theorem creds_restored (H : HostOps σ) [HostLaws H] (cfg : Cfg) (s : PtState) (r : Req) (h : σ)
    (hroot : (H.creds h).Root) :
    H.creds (fin H (step cfg s r) h) = H.creds h := by
  have hb : Base (H.creds h) := ⟨hroot.1, hroot.2.1, fun e => by rw [← hroot.2.2]; exact e⟩
  exact ((neutralM_handle (H := H) cfg r).h s h hb).root hroot

/-- **creds_restored** lifted to every history, by induction on the request list -/
theorem creds_restored_history (H : HostOps σ) [HostLaws H] (cfg : Cfg) (rs : List Req) (s : PtState) (h : σ)
    (hroot : (H.creds h).Root) :
    H.creds (runHistory H cfg s h rs).2 = H.creds h := by
  induction rs generalizing s h with
  | nil => rfl
  | cons r rs ih =>
    have h1 := creds_restored H cfg s r h hroot
    simp only [runHistory]
    rw [ih _ _ (by rw [h1]; exact hroot), h1]

/-- inside every `set_creds(uid, gid)` scope entered from the root state the thread runs with the
    caller's effective ids (the creating call of mkdir / mknod / symlink / create is the body of such
    a scope, see `creating_calls_are_scoped`) -/
theorem scope_runs_as_caller (H : HostOps σ) [HostLaws H] (c0 : Creds) (hroot : c0.Root) (uid gid : Nat) :
    HoareM H (· = c0) (setCreds uid gid)
      (fun r c => (∃ g, r = .ok g) → c.euid = uid ∧ c.egid = gid) := by
  have hb : Base c0 := ⟨hroot.1, hroot.2.1, fun e => by rw [← hroot.2.2]; exact e⟩
  refine hoareM_conseq (hoareM_setCreds c0 hb uid gid) (fun _ h => h) ?_
  intro r c h ⟨g, hg⟩
  rcases h with ⟨_, h2⟩ | ⟨⟨e, he⟩, _⟩
  · rw [h2]
    obtain ⟨r1, r2, _⟩ := hroot
    by_cases hu : uid = 0 <;> by_cases hgz : gid = 0 <;> simp [inScope, Creds.afterSetuid, hu, hgz, r1, r2]
  · rw [hg] at he; cases he

/-- the creating system call of each creating request is, by definition of the model, the body of
    `withCreds ctx.uid ctx.gid` (the `set_creds` scope of `scope_runs_as_caller`) -/
theorem creating_calls_are_scoped (cfg : Cfg) (ctx : Ctx) (p : Nat) (n t : Name) (m r u f ff : Nat) :
    mkdir cfg ctx p n m u = (do
      validateName cfg n
      let d ← inodeData p
      let file ← getFile d
      withCreds ctx.uid ctx.gid (unitCall (.mkdirat file n (clr m u)))
      let e ← doLookup cfg p n
      pure (.entry e)) ∧
    mknod cfg ctx p n m r u = (do
      validateName cfg n
      let d ← inodeData p
      let file ← getFile d
      withCreds ctx.uid ctx.gid (unitCall (.mknodat file n (clr m u) r))
      let e ← doLookup cfg p n
      pure (.entry e)) ∧
    symlink cfg ctx t p n = (do
      validateName cfg n
      let d ← inodeData p
      let file ← getFile d
      withCreds ctx.uid ctx.gid (unitCall (.symlinkat t file n))
      let e ← doLookup cfg p n
      pure (.entry e)) ∧
    create cfg ctx p n f m u ff = (do
      validateName cfg n
      let d ← inodeData p
      let dirFile ← getFile d
      let newFile ← withCreds ctx.uid ctx.gid
        (createFileExcl dirFile n (writebackOpenFlags cfg.writeback f) (clr m (u &&& 0o777)))
      let entry ← doLookup cfg p n
      let file ← (match newFile with
        | some fd => pure fd
        | none => createOpenExisting cfg ctx entry f ff : M Fd)
      let h ← createHandle cfg entry.inode file f
      pure (.created entry h (createOpts cfg.cache))) :=
  ⟨rfl, rfl, rfl, rfl⟩

/-- **created_objects_owned_by_caller.**  For every host satisfying `HostLaws` and the two
    creation laws `OwnerLaws` ("only mkdirat / mknodat / symlinkat / openat(O_CREAT) bring an object
    into existence" and "a new object carries the creating thread's effective uid, and its
    effective gid or — set-gid directory — the directory's group"; both proved of the reference FS,
    `Fbr.Host.Ref.ownerLaws`), every configuration, every state of the tables and every request
    made for a caller (`r.caller = some ctx`: MKDIR, MKNOD, SYMLINK, CREATE), served by a thread in
    the root state: **every object that comes into existence at any step of the request** — whatever
    the host answers along the way, on every path — is, at that moment, owned by `ctx.uid`, with
    group `ctx.gid` (or the group of the set-gid directory it was created in).  Trace level
    (`NewOwned` = at every call of the run, in the state it is issued in); the proof places each
    creating call inside the `set_creds` scope entered from the root state, where the effective ids
    are the caller's (`steps_withCreds`, `inScope_ids`), and shows that no other call of the request
    can create anything. -/
theorem created_objects_owned_by_caller (H : HostOps σ) [HostLaws H] [OwnerLaws H] (cfg : Cfg) (pt : PtState) (r : Req)
    (ctx : Ctx) (hr : r.caller = some ctx) (h : σ) (hroot : (H.creds h).Root) :
    NewOwned H ctx.uid ctx.gid (step cfg pt r) h := by
  have := reqOwned (H := H) cfg pt r h hroot
  unfold ReqOwned at this
  rw [hr] at this
  exact this

/-- …and every other request (LOOKUP, OPEN, LINK, RENAME, SETATTR, WRITE, …) brings no object into
    existence at any step -/
theorem other_requests_create_nothing (H : HostOps σ) [HostLaws H] [OwnerLaws H] (cfg : Cfg) (pt : PtState) (r : Req)
    (hr : r.caller = none) (h : σ) (hroot : (H.creds h).Root) :
    NoNew H (step cfg pt r) h := by
  have := reqOwned (H := H) cfg pt r h hroot
  unfold ReqOwned at this
  rw [hr] at this
  exact this

/-- **created_objects_owned_by_caller** over every history: started in the root state, request
    after request (the credentials are the root's again after each, `creds_restored`), whatever is
    created during a request made for a caller is that caller's, and nothing is created during any
    other request (`HistOwned` = `ReqOwned` at every request of the history) -/
theorem created_objects_owned_by_caller_history (H : HostOps σ) [HostLaws H] [OwnerLaws H] (cfg : Cfg) (rs : List Req)
    (pt : PtState) (h : σ) (hroot : (H.creds h).Root) : HistOwned H cfg pt h rs :=
  histOwned cfg rs pt h hroot

/-! ## special files -/

/-- **special_files_never_opened.**  Whatever the host answers, every open without `O_PATH` that
    any request issues is either a re-open (through /proc or by file handle) of an inode whose
    recorded type is `S_IFREG` or `S_IFDIR`, or the `O_CREAT|O_EXCL` creation of a new regular file;
    every other `openat` carries `O_PATH|O_NOFOLLOW` (a lookup that never follows a final symlink). -/
theorem special_files_never_opened (cfg : Cfg) (s : PtState) (r : Req) :
    (step cfg s r).OnlyCalls IoSafe :=
  (ioSafe_handle cfg r).h s

/-- an inode recorded as fifo / symlink / device / socket: `open_inode` answers EBADF without any
    host call -/
theorem special_inode_open_is_ebadf (cfg : Cfg) (s : PtState) (d : InodeData) (inode flags : Nat)
    (hd : s.get inode = some d) (hm : isSafeInode d.mode = false) :
    openInode cfg inode flags s = .pure (.error EBADF, s) := by
  simp [openInode, bind_def, M.bind', M.get, M.ofOption, hd, M.pure', Prog.bind, hm, M.throw]

/-! ## open flags -/

/-- **open_flag_algebra (1)**: without writeback caching the flags are untouched -/
theorem open_flags_no_writeback (flags : Nat) : writebackOpenFlags false flags = flags := by
  simp [writebackOpenFlags]

/-- **open_flag_algebra (2)**: with writeback caching, for *every* flag word: O_WRONLY becomes
    O_RDWR, any other access mode is kept, O_APPEND is cleared, every other bit is kept -/
theorem open_flags_writeback (flags : Nat) :
    ((flags &&& O_ACCMODE) = O_WRONLY →
        (writebackOpenFlags true flags).testBit 0 = false ∧ (writebackOpenFlags true flags).testBit 1 = true) ∧
    ((flags &&& O_ACCMODE) ≠ O_WRONLY →
        (writebackOpenFlags true flags).testBit 0 = flags.testBit 0 ∧
        (writebackOpenFlags true flags).testBit 1 = flags.testBit 1) ∧
    (writebackOpenFlags true flags).testBit 10 = false ∧
    (∀ i, 2 ≤ i → i ≠ 10 → (writebackOpenFlags true flags).testBit i = flags.testBit i) := by
  have h10 : O_APPEND = 2 ^ 10 := by decide
  have hacc : ∀ i, (clr flags O_ACCMODE ||| O_RDWR).testBit i =
      (if i = 0 then false else if i = 1 then true else flags.testBit i) := by
    intro i
    have e2 : O_RDWR = 2 ^ 1 := by decide
    have e3 : O_ACCMODE = 3 := rfl
    rw [e2, e3]
    by_cases h0 : i = 0
    · subst h0; rw [or_pow_other _ 1 0 (by decide), clr_testBit]; simp
    · by_cases h1 : i = 1
      · subst h1; rw [or_pow_self]; simp
      · rw [or_pow_other _ 1 i h1, clr_testBit]
        have : Nat.testBit 3 i = false := by
          rcases i with _ | _ | i
          · exact absurd rfl h0
          · exact absurd rfl h1
          · simp [Nat.testBit_succ]
        simp [this, h0, h1]
  have happ : has flags O_APPEND = flags.testBit 10 := by rw [h10]; exact has_pow flags 10
  -- f1: after the access-mode step
  refine ⟨?_, ?_, ?_, ?_⟩
  · intro hw
    unfold writebackOpenFlags
    simp only [hw, Bool.true_and, beq_self_eq_true, if_true]
    split
    · rw [h10, clr_pow_other _ 10 0 (by decide), clr_pow_other _ 10 1 (by decide), hacc, hacc]; simp
    · rw [hacc, hacc]; simp
  · intro hw
    unfold writebackOpenFlags
    have : ((flags &&& O_ACCMODE) == O_WRONLY) = false := by simpa using hw
    simp only [this, Bool.and_false, Bool.false_eq_true, if_false, Bool.true_and]
    split
    · rw [h10, clr_pow_other _ 10 0 (by decide), clr_pow_other _ 10 1 (by decide)]; exact ⟨rfl, rfl⟩
    · exact ⟨rfl, rfl⟩
  · unfold writebackOpenFlags
    simp only [Bool.true_and]
    split
    · rw [h10]; exact clr_pow_self _ 10
    · rename_i hna
      have hf : flags.testBit 10 = false := by rw [← happ]; simpa using hna
      split
      · rw [hacc]; simp [hf]
      · exact hf
  · intro i h2 hne
    unfold writebackOpenFlags
    simp only [Bool.true_and]
    have hi0 : i ≠ 0 := by omega
    have hi1 : i ≠ 1 := by omega
    split
    · rw [h10, clr_pow_other _ 10 i hne]
      split
      · rw [hacc]; simp [hi0, hi1]
      · rfl
    · split
      · rw [hacc]; simp [hi0, hi1]
      · rfl

/-- **open_flag_algebra (3)**: `open_inode` always sets O_CLOEXEC; it clears O_DIRECT exactly when
    direct I/O is not allowed; otherwise it passes the writeback flags on -/
theorem open_inode_flags (cfg : Cfg) (flags : Nat) :
    (openInodeFlags cfg flags).testBit 19 = true ∧
    (cfg.allowDirectIo = false → (openInodeFlags cfg flags).testBit 14 = false) ∧
    (∀ i, i ≠ 19 → (i ≠ 14 ∨ cfg.allowDirectIo = true) →
        (openInodeFlags cfg flags).testBit i = (writebackOpenFlags cfg.writeback flags).testBit i) := by
  have h19 : O_CLOEXEC = 2 ^ 19 := by decide
  have h14 : O_DIRECT = 2 ^ 14 := by decide
  have hd : has flags O_DIRECT = flags.testBit 14 := by rw [h14]; exact has_pow flags 14
  refine ⟨?_, ?_, ?_⟩
  · unfold openInodeFlags; rw [h19]; exact or_pow_self _ 19
  · intro ha
    unfold openInodeFlags
    rw [h19, or_pow_other _ 19 14 (by decide)]
    simp only [ha, Bool.not_false, Bool.true_and]
    split
    · rw [h14]; exact clr_pow_self _ 14
    · rename_i hnd
      -- the client did not ask for O_DIRECT: the writeback step does not add it
      have hf : flags.testBit 14 = false := by rw [← hd]; simpa using hnd
      cases hw : cfg.writeback
      · rw [open_flags_no_writeback]; exact hf
      · rw [(open_flags_writeback flags).2.2.2 14 (by decide) (by decide)]; exact hf
  · intro i h19' hor
    unfold openInodeFlags
    rw [h19, or_pow_other _ 19 i h19']
    split
    · rename_i hc
      rcases hor with h | h
      · rw [h14, clr_pow_other _ 14 i h]
      · simp [h] at hc
    · rfl

/-- **open_flag_algebra (4)**: the re-open through /proc strips exactly O_NOFOLLOW and O_CREAT -/
theorem reopen_strips (flags : Nat) :
    (reopenFlags flags).testBit 17 = false ∧ (reopenFlags flags).testBit 6 = false ∧
    ∀ i, i ≠ 17 → i ≠ 6 → (reopenFlags flags).testBit i = flags.testBit i := by
  have h1 : O_NOFOLLOW = 2 ^ 17 := by decide
  have h2 : O_CREAT = 2 ^ 6 := by decide
  unfold reopenFlags
  rw [h1, h2]
  refine ⟨?_, clr_pow_self _ 6, ?_⟩
  · rw [clr_pow_other _ 6 17 (by decide)]; exact clr_pow_self _ 17
  · intro i a b
    rw [clr_pow_other _ 6 i b, clr_pow_other _ 17 i a]

/-! ## setattr -/

/-- **setattr_decomposition (times)**: `*_NOW` takes precedence over an explicit time, an absent
    time is `UTIME_OMIT` -/
theorem setattr_times_precedence (valid a an m mn : Nat) :
    (setattrTimes valid a an m mn).1 =
      (if has valid FATTR_ATIME_NOW then (0, UTIME_NOW) else if has valid FATTR_ATIME then (a, an) else (0, UTIME_OMIT)) ∧
    (setattrTimes valid a an m mn).2 =
      (if has valid FATTR_MTIME_NOW then (0, UTIME_NOW) else if has valid FATTR_MTIME then (m, mn) else (0, UTIME_OMIT)) :=
  ⟨rfl, rfl⟩

/-- **setattr_decomposition.**  For every `valid` set and all argument values: when every call
    succeeds, SETATTR without a handle on an inode held by descriptor `f` (regular file or
    directory, kill-priv off) issues exactly: fchmodat iff MODE; one fchownat iff UID or GID, with
    -1 (`u32::MAX`) for the absent id; re-open + ftruncate iff SIZE; utimensat iff ATIME or MTIME
    with the `*_NOW` precedence of `setattr_times_precedence`; then the final stat — in this order. -/
theorem setattr_decomposition (cfg : Cfg) (s : PtState) (d : InodeData) (i : Nat) (f : Fd) (st : Stat)
    (valid mode uid gid size a an m mn : Nat)
    (hd : s.get i = some d) (hf : d.handle = .file f) (hsafe : isSafeInode d.mode = true)
    (hk : cfg.killprivV2 = false) :
    callsOf (okAns st) (setattr cfg i none valid mode uid gid size a an m mn) s =
      setattrPlan cfg f d.mode valid mode uid gid size a an m mn := by
  simp only [callsOf, setattr, setattrPlan, bind_def, M.bind', inodeData, M.get, M.ofOption, hd, M.pure', Prog.bind,
    getFile, hf, setattrData, pure_def]
  cases hno : cfg.noOpen <;>
  cases h1 : has valid FATTR_MODE <;> cases h2 : has valid (FATTR_UID ||| FATTR_GID) <;>
  cases h3 : has valid FATTR_SIZE <;> cases h4 : has valid (FATTR_ATIME ||| FATTR_MTIME) <;>
  simp [setattrMode, setattrOwner, setattrSize, setattrUtimens, h1, h2, h3, h4, hk, withKillpriv, unitCall, openInode,
    doGetattr, statInode, statFd, statOf, fdOf, getFile, hf, hd, hsafe, inodeData, okAns, bind_def, M.bind', M.sys, M.get,
    M.ofOption, M.ofExcept, M.try', M.pure', M.throw, pure_def, Prog.bind, Prog.runFn, hno]



/-! ## refinement to the single corresponding host call -/

/-- **pt_refines_direct (calls).**  For every configuration, table state and request, whatever the
    host answers: every call the passthrough issues is either tree-neutral (`HCall.readOnly`: O_PATH
    lookups, stat, readlink, reads, non-truncating re-opens, F_SETFL, fsync, credential switches) or
    *the* host call of the request's one-line specification `DirectCall` — mkdir ↦
    `mkdirat(parent, name, mode & !umask)`, mknod ↦ `mknodat(.., mode & !umask, rdev)`, symlink ↦
    `symlinkat(target, parent, name)`, unlink ↦ `unlinkat(.., 0)`, rmdir ↦ `unlinkat(.., AT_REMOVEDIR)`,
    rename ↦ `renameat2(.., flags)`, link ↦ `linkat(fd, "", newparent, name, AT_EMPTY_PATH)`, create ↦
    `openat(.., mode & !(umask & 0o777))` (+ the open of an existing file), setattr ↦ the calls of
    `setattr_decomposition`, write ↦ `pwritev(fd, data, offset)`, fallocate, setxattr, removexattr; the
    read-only requests have no direct call at all. -/
theorem pt_refines_direct (cfg : Cfg) (s : PtState) (r : Req) : (step cfg s r).OnlyCalls (Allowed r) :=
  (allowed_handle cfg r).h s

/-- **pt_refines_direct (tree, read-only requests).**  For every host satisfying the laws: lookup,
    forget, getattr, readlink, flush, release(dir), lseek, statfs, getxattr and listxattr leave every
    host object exactly as it was — the final host tree is that of "no call at all". -/
theorem readonly_requests_leave_tree (H : HostOps σ) [HostLaws H] (cfg : Cfg) (s : PtState) (r : Req)
    (hr : r.isReadOnly = true) (h : σ) (o : Obj) :
    H.view (fin H (step cfg s r) h) o = H.view h o :=
  view_of_onlyReadOnly H _ (readOnly_requests_calls cfg s r hr) h o

/-- **pt_refines_direct (exact, unlink / rmdir).**  On an inode held by an O_PATH descriptor the
    request *is* the single host call: same effect (whatever `unlinkat` does to the host), same
    result (success, or the call's errno). -/
theorem unlink_is_the_direct_call (cfg : Cfg) (s : PtState) (p : Nat) (n : Name) (d : InodeData) (f : Fd)
    (hd : s.get p = some d) (hf : d.handle = .file f) (hv : validatePathComponent n = none) :
    step cfg s (.unlink p n) =
      .call (.unlinkat f n 0) (fun a => .pure ((match a with | .ok => .ok .unit | .err e => .error e | _ => .error EIO), s)) ∧
    step cfg s (.rmdir p n) =
      .call (.unlinkat f n AT_REMOVEDIR) (fun a => .pure ((match a with | .ok => .ok .unit | .err e => .error e | _ => .error EIO), s)) := by
  have hval := validateName_ok cfg n hv s
  constructor
  · simp only [step, handle, unlink]
    rw [bind_ok _ _ s s () hval]
    simp only [doUnlink, bind_def, M.bind', inodeData, M.get, M.ofOption, hd, M.pure', Prog.bind, getFile, hf, unitCall, M.sys,
      pure_def]
    congr 1
    funext a
    cases a <;> simp [M.throw, Prog.bind, M.pure']
  · simp only [step, handle, rmdir]
    rw [bind_ok _ _ s s () hval]
    simp only [doUnlink, bind_def, M.bind', inodeData, M.get, M.ofOption, hd, M.pure', Prog.bind, getFile, hf, unitCall, M.sys,
      pure_def]
    congr 1
    funext a
    cases a <;> simp [M.throw, Prog.bind, M.pure']

/-! ## non-vacuity -/

/-- the laws are satisfiable: the reference FS is an instance -/
example (sent : Obj → Bool) (root : Obj) : HostLaws (Ref.ops sent root) := inferInstance

/-- the creation laws are satisfiable: the reference FS is an instance -/
example (sent : Obj → Bool) (root : Obj) : OwnerLaws (Ref.ops sent root) := inferInstance

/-- ownership is not vacuous: on the demo host of C06 with a world-writable export root, MKDIR "b"
    for uid 1000 / gid 1001 succeeds and the new directory (object 5) belongs to 1000:1001, while
    the serving thread is root again afterwards -/
example :
    let h0 := (Ref.stepCore Ref.demo (.fchmodatProc 0 0o777 0)).2
    let p := step {} (initState (.file 0) 2 16877) (.mkdir ⟨1000, 1001⟩ 1 [98] 0o755 0o022)
    (h0.nodes 5).isNone = true ∧
    ((fin (Ref.ops Ref.demoSent 2) p h0).nodes 5).map (fun n => (n.uid, n.gid, n.kind)) = some (1000, 1001, .dir) ∧
    (fin (Ref.ops Ref.demoSent 2) p h0).creds.euid = 0 := by decide

/-- a request that really switches credentials: MKDIR by uid 1000 / gid 1001 issues, for any
    answers, `setresgid(1001)` first and `setresuid(1000)` second (so `creds_restored` is about
    programs that do change the credentials in between) -/
example : ((step {} (initState (.file 1) 1 16877) (.mkdir ⟨1000, 1001⟩ 1 [97] 0o755 0o022)).runFn (fun _ => .ok)).2 =
    [.setresgid 1001, .setresuid 1000, .mkdirat 1 [97] 0o755, .setresgid 0, .setresuid 0,
     .openat 1 [97] (O_NOFOLLOW ||| O_CLOEXEC ||| O_PATH) 0] := by decide

/-- the early-return path "setresgid ok, setresuid fails": the gid guard is dropped, nothing else
    is called, EPERM is returned, the tables are untouched -/
example :
    let r := (step {} (initState (.file 1) 1 16877) (.mkdir ⟨1000, 1001⟩ 1 [97] 0o755 0o022)).runFn
      (fun c => match c with | .setresuid 1000 => .err EPERM | _ => .ok)
    r.2 = [.setresgid 1001, .setresuid 1000, .setresgid 0] ∧ r.1.2 = initState (.file 1) 1 16877 ∧
    (match r.1.1 with | .error e => e | .ok _ => 0) = EPERM := by decide

/-- flag algebra is not vacuous: O_WRONLY|O_APPEND|O_NOFOLLOW|O_CREAT under writeback, no direct I/O -/
example : reopenFlags (openInodeFlags { writeback := true, allowDirectIo := false } (O_WRONLY ||| O_APPEND ||| O_NOFOLLOW ||| O_CREAT ||| O_DIRECT)) =
    (O_RDWR ||| O_CLOEXEC) := by decide

/-- a fifo inode is never re-opened -/
example : openInode {} 2 O_RDONLY ((initState (.file 1) 1 16877).insert { inode := 2, handle := .file 5, id := 7, refcount := 1, mode := S_IFIFO ||| 0o644 }) =
    .pure (.error EBADF, (initState (.file 1) 1 16877).insert { inode := 2, handle := .file 5, id := 7, refcount := 1, mode := S_IFIFO ||| 0o644 }) :=
  special_inode_open_is_ebadf _ _ { inode := 2, handle := .file 5, id := 7, refcount := 1, mode := S_IFIFO ||| 0o644 } _ _ (by decide) (by decide)

end Fbr.Thm.C05
