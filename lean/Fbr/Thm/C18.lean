/-
  C18 — a size-sealed export never lets a client change a file's size.
  (property theorems only; helper lemmas live in Fbr/Lemmas/PtSeal.lean)
-/
import Fbr.PtSeal

namespace Fbr.Thm.C18
open Fbr.PtSeal

/-- placeholder while the engine is brought up -/
theorem sealed_setattr_size_refused (st : St) (file : Nat) (size : Nat) (m : Bool) (n : Nat)
    (hx : st.host.size file = some n) :
    (step { sealed := true } st (.setattr file none true size m)).ret = .error EPERM := by
  simp [step, hx]

end Fbr.Thm.C18
