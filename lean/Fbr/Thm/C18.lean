/-
  C18 — a size-sealed export never lets a client change a file's size.

  Model: `Fbr.PtSeal` (requests OPEN / CREATE / WRITE / SETATTR / FALLOCATE / RELEASE of the
  passthrough file system with `seal_size`, over a reference host with the laws "pwrite on an
  O_APPEND descriptor writes at end-of-file", "open(O_TRUNC) truncates", the fallocate mode
  table, ftruncate).  Specification: `Fbr.PtSealSpec` (`Beyond`, `Refused`, `Resolves`).
  Helper lemmas: `Fbr.Lemmas.PtSeal`, `Fbr.Lemmas.PtSealIff`.  PROPERTY THEOREMS ONLY here.

  The three defects recorded for this property (WRITE with O_APPEND, OPEN with O_TRUNC, CREATE
  with O_TRUNC on an existing file) and the descriptor closed by a refused WRITE were repaired in
  /repo (`fix:` commits 8e59410, 4f1b07b, 2186906, 098d060); the model follows the repaired code,
  so the statements below are at full strength.  `*_would_break_*` theorems keep the witnesses:
  they show on the same reference host that the pre-fix behaviour changed sizes.
-/
import Fbr.Lemmas.PtSealIff

namespace Fbr.Thm.C18
open Fbr.PtSeal Fbr.PtSealSpec Fbr.Lemmas.PtSeal

/-- **Sealed sizes are invariant.**  With `seal_size` on, for every host, every handle table,
    every history of requests (any flag words, offsets, lengths, fallocate modes, with or without
    no_open) every file that exists keeps its size — in particular every pre-existing regular
    file ends with the size it had. -/
theorem sealed_sizes_invariant (cfg : Cfg) (hs : cfg.sealed = true) (st : St) (history : List Req)
    (f n : Nat) (hf : st.host.size f = some n) :
    (run cfg st history).host.size f = some n :=
  run_keeps cfg hs history st f n hf

/-- …and the same after every single request of the history (the harness's direct oracle). -/
theorem sealed_sizes_invariant_every_prefix (cfg : Cfg) (hs : cfg.sealed = true) (st : St)
    (history : List Req) (k : Nat) (f n : Nat) (hf : st.host.size f = some n) :
    (run cfg st (history.take k)).host.size f = some n :=
  run_keeps cfg hs (history.take k) st f n hf

/-- **Refused iff it would change a size.**  For a request that names an existing file/handle, the
    sealed file system turns it down before any size-affecting host call exactly when the request
    reaches beyond the current end of the file (WRITE from the effective start — end-of-file for
    a descriptor in append mode — , FALLOCATE allocate/punch/zero past the end), is a size-setting
    request (SETATTR size, truncating OPEN, truncating CREATE of an existing file, FALLOCATE
    collapse/insert) or carries an invalid fallocate mode. -/
theorem refused_iff_would_change (cfg : Cfg) (st : St) (r : Req) (hok : HostOk st.host)
    (hres : Resolves cfg st r) :
    Refused (step { cfg with sealed := true } st r) ↔ Beyond cfg st r := by
  cases r with
  | opn file fl =>
    obtain ⟨hno, hex⟩ := hres
    show Refused (stepOpen _ st file fl) ↔ fl.trunc = true
    cases ht : fl.trunc with
    | true => exact ⟨fun _ => rfl, fun _ => stepOpen_beyond cfg st file fl hno ht⟩
    | false =>
      have ⟨hsame, hnr⟩ := stepOpen_within cfg st file fl hno hex ht
      exact ⟨fun h => absurd ((refused_of_same _ _ hsame).mp h) hnr, fun h => by cases h⟩
  | create file fl =>
    show Refused (stepCreate _ st file fl) ↔ _
    by_cases hb : (st.host.size file).isSome = true ∧ fl.excl = false ∧ fl.trunc = true
    · exact ⟨fun _ => hb, fun _ => stepCreate_beyond cfg st file fl hb.1 hb.2.1 hb.2.2⟩
    · have ⟨hsame, hnr⟩ := stepCreate_within cfg st file fl hres hb
      exact ⟨fun h => absurd ((refused_of_same _ _ hsame).mp h) hnr, fun h => absurd h hb⟩
  | write file h fl len off =>
    obtain ⟨hr, hex⟩ := hres
    obtain ⟨hd, hhd⟩ := Option.isSome_iff_exists.mp hr
    obtain ⟨sz, hsz⟩ := Option.isSome_iff_exists.mp hex
    show Refused (stepWrite _ st file h fl len off) ↔ _
    by_cases hb : (if appendAfter hd fl then sz else off) + len > sz
    · exact ⟨fun _ => ⟨hd, sz, hhd, hsz, hb⟩, fun _ => stepWrite_beyond cfg st file h fl len off hd sz hhd hsz hb⟩
    · have ⟨hsame, hnr⟩ := stepWrite_within cfg st file h fl len off hd sz hhd hsz (hok _ _ hsz) (by omega)
      refine ⟨fun h => absurd ((refused_of_same _ _ hsame).mp h) hnr, ?_⟩
      rintro ⟨hd', sz', h1, h2, h3⟩
      rw [hhd] at h1; cases h1
      rw [hsz] at h2; cases h2
      exact absurd h3 hb
  | setattr file h ss size sm =>
    obtain ⟨hex, hh⟩ := hres
    show Refused (stepSetattr _ st file h ss size sm) ↔ ss = true
    cases ss with
    | true => exact ⟨fun _ => rfl, fun _ => stepSetattr_beyond cfg st file h size sm hex hh⟩
    | false =>
      have ⟨hsame, hnr⟩ := stepSetattr_within cfg st file h size sm hex hh
      exact ⟨fun h => absurd ((refused_of_same _ _ hsame).mp h) hnr, fun h => by cases h⟩
  | fallocate file h mode off len =>
    obtain ⟨hr, hex⟩ := hres
    obtain ⟨hd, hhd⟩ := Option.isSome_iff_exists.mp hr
    obtain ⟨sz, hsz⟩ := Option.isSome_iff_exists.mp hex
    show Refused (stepFallocate _ st file h mode off len) ↔ _
    by_cases hb : ¬ (fallocOp mode = 0 ∨ fallocOp mode = FL_PUNCH_HOLE ∨ fallocOp mode = FL_ZERO) ∨ off + len > sz
    · exact ⟨fun _ => ⟨sz, hsz, hb⟩, fun _ => stepFallocate_beyond cfg st file h mode off len hd sz hhd hsz hb⟩
    · have hop : fallocOp mode = 0 ∨ fallocOp mode = FL_PUNCH_HOLE ∨ fallocOp mode = FL_ZERO := by
        by_cases hop : fallocOp mode = 0 ∨ fallocOp mode = FL_PUNCH_HOLE ∨ fallocOp mode = FL_ZERO
        · exact hop
        · exact absurd (Or.inl hop) hb
      have hle : off + len ≤ sz := by
        by_cases hle : off + len ≤ sz
        · exact hle
        · exact absurd (Or.inr (by omega)) hb
      have ⟨hsame, hnr⟩ := stepFallocate_within cfg st file h mode off len hd sz hhd hsz (hok _ _ hsz) hop hle
      refine ⟨fun h => absurd ((refused_of_same _ _ hsame).mp h) hnr, ?_⟩
      rintro ⟨sz', h2, h3⟩
      rw [hsz] at h2; cases h2
      exact absurd h3 hb
  | release file h =>
    obtain ⟨hno, hr⟩ := hres
    show Refused (stepRelease _ st file h) ↔ False
    have ⟨hsame, hnr⟩ := stepRelease_within cfg st file h hno hr
    exact ⟨fun h => absurd ((refused_of_same _ _ hsame).mp h) hnr, fun h => by cases h⟩

/-- **Within the size, sealing is invisible.**  A request that does not reach beyond the current
    size (and sets no size) gets the same answer, leaves the same host sizes and handle table,
    and makes the same host calls with sealing as without — apart from the `fstat`/`F_GETFL`
    probes the seal check itself needs. -/
theorem within_size_unaffected (cfg : Cfg) (st : St) (r : Req) (hok : HostOk st.host)
    (hres : Resolves cfg st r) (hb : ¬ Beyond cfg st r) :
    Same (step { cfg with sealed := true } st r) (step { cfg with sealed := false } st r) := by
  cases r with
  | opn file fl =>
    obtain ⟨hno, hex⟩ := hres
    have ht : fl.trunc = false := by
      cases h : fl.trunc
      · rfl
      · exact absurd h hb
    exact (stepOpen_within cfg st file fl hno hex ht).1
  | create file fl => exact (stepCreate_within cfg st file fl hres hb).1
  | write file h fl len off =>
    obtain ⟨hr, hex⟩ := hres
    obtain ⟨hd, hhd⟩ := Option.isSome_iff_exists.mp hr
    obtain ⟨sz, hsz⟩ := Option.isSome_iff_exists.mp hex
    have hle : (if appendAfter hd fl then sz else off) + len ≤ sz := by
      by_cases hle : (if appendAfter hd fl then sz else off) + len ≤ sz
      · exact hle
      · exact absurd ⟨hd, sz, hhd, hsz, by omega⟩ hb
    exact (stepWrite_within cfg st file h fl len off hd sz hhd hsz (hok _ _ hsz) hle).1
  | setattr file h ss size sm =>
    obtain ⟨hex, hh⟩ := hres
    cases ss with
    | true => exact absurd rfl hb
    | false => exact (stepSetattr_within cfg st file h size sm hex hh).1
  | fallocate file h mode off len =>
    obtain ⟨hr, hex⟩ := hres
    obtain ⟨hd, hhd⟩ := Option.isSome_iff_exists.mp hr
    obtain ⟨sz, hsz⟩ := Option.isSome_iff_exists.mp hex
    have hop : fallocOp mode = 0 ∨ fallocOp mode = FL_PUNCH_HOLE ∨ fallocOp mode = FL_ZERO := by
      by_cases hop : fallocOp mode = 0 ∨ fallocOp mode = FL_PUNCH_HOLE ∨ fallocOp mode = FL_ZERO
      · exact hop
      · exact absurd ⟨sz, hsz, Or.inl hop⟩ hb
    have hle : off + len ≤ sz := by
      by_cases hle : off + len ≤ sz
      · exact hle
      · exact absurd ⟨sz, hsz, Or.inr (by omega)⟩ hb
    exact (stepFallocate_within cfg st file h mode off len hd sz hhd hsz (hok _ _ hsz) hop hle).1
  | release file h =>
    obtain ⟨hno, hr⟩ := hres
    exact (stepRelease_within cfg st file h hno hr).1

/-- **A refused request changes nothing on the host** (so "refused" really protects the size). -/
theorem refused_changes_nothing (cfg : Cfg) (hs : cfg.sealed = true) (st : St) (r : Req) (f n : Nat)
    (hf : st.host.size f = some n) : (step cfg st r).st.host.size f = some n :=
  step_keeps cfg hs st r f n hf

/-! ### the recorded defects, as facts about the same reference host

  Before the fixes the seal check of WRITE compared `offset + size` with the file size even when
  the descriptor was in append mode, and OPEN/CREATE passed `O_TRUNC` to the host.  The host
  calls the old code made change the size on the reference host: -/

/-- witness of F10/WRITE: a 100-byte file, `pwrite(fd, 10 bytes, offset 0)` on an `O_APPEND`
    descriptor — the old check (0 + 10 ≤ 100) passed, the host appends: 110 bytes -/
theorem append_write_would_break_seal :
    let H : Host := { size := fun f => if f = 0 then some 100 else none }
    sealCheckWrite 100 0 10 = .ok () ∧
    (hostPwrite H 0 { canWrite := true, append := true, direct := false } 10 0).1.size 0 = some 110 :=
  ⟨rfl, rfl⟩

/-- …and the repaired check, which starts at end-of-file for such a descriptor, refuses it -/
theorem append_write_now_refused : sealCheckWrite 100 100 10 = .error EPERM := rfl

/-- witness of F10/OPEN,CREATE: `openat(.., O_RDONLY | O_TRUNC)` truncates a 100-byte file -/
theorem trunc_open_would_break_seal :
    let H : Host := { size := fun f => if f = 0 then some 100 else none }
    (hostOpen H 0 { acc := 0, trunc := true }).1.size 0 = some 0 :=
  rfl

/-! ### non-vacuity: concrete states satisfying the hypotheses, with non-trivial behaviour -/

/-- a host with a 100-byte file 0 and a 4096-byte file 1 -/
def exHost : Host := { size := fun f => if f = 0 then some 100 else if f = 1 then some 4096 else none }

/-- a state with one read-write handle (1) on file 0 -/
def exSt : St :=
  { host := exHost, next := 2,
    handles := fun h => if h = 1 then some { file := 0, fd := fdOf rdwr, stored := rdwr } else none }

example : HostOk exHost := by
  intro f n h
  simp only [exHost] at h
  split at h
  · cases h; decide
  · split at h
    · cases h; decide
    · cases h

/-- an in-range WRITE resolves, is not beyond, and is performed (10 bytes written) -/
example : Resolves {} exSt (.write 0 1 rdwr 10 90) ∧ ¬ Beyond {} exSt (.write 0 1 rdwr 10 90) ∧
    (step {} exSt (.write 0 1 rdwr 10 90)).ret = .ok 10 := by
  refine ⟨⟨rfl, rfl⟩, ?_, rfl⟩
  rintro ⟨hd, sz, h1, h2, h3⟩
  have : sz = 100 := by simpa [exSt, exHost] using h2.symm
  subst this
  have : hd = { file := 0, fd := fdOf rdwr, stored := rdwr } := by
    simpa [resolve, exSt] using h1.symm
  subst this
  revert h3; decide

/-- the same WRITE with O_APPEND in its flag word is beyond (it would start at byte 100) and is
    refused with EPERM; a history of such requests leaves the size at 100 -/
example : Beyond {} exSt (.write 0 1 { rdwr with append := true } 10 0) ∧
    (step {} exSt (.write 0 1 { rdwr with append := true } 10 0)).ret = .error EPERM ∧
    (run {} exSt [.write 0 1 { rdwr with append := true } 10 0, .opn 0 { acc := 0, trunc := true },
                   .create 1 { acc := 1, trunc := true }, .fallocate 0 1 0 96 8,
                   .setattr 1 none true 0 false]).host.size 0 = some 100 := by
  refine ⟨⟨{ file := 0, fd := fdOf rdwr, stored := rdwr }, 100, rfl, rfl, by decide⟩, rfl, rfl⟩

end Fbr.Thm.C18
