/-
  C09 — Concurrent lookups and forgets never lose a reference or duplicate an inode.

  PROPERTY THEOREMS ONLY (model: `Fbr.Conc`; lemmas: `Fbr.Lemmas.Conc*`).
-/
import Fbr.Conc

namespace Fbr.Thm.C09
open Fbr.Conc

/-- A blocked or finished thread's step is the identity (the schedule may name any thread). -/
theorem disabled_step_is_skip (c : Cfg) (s : Sys) (t : Tid) (h : enabled s t = false) :
    step c s t = s := by
  simp [step, h]

end Fbr.Thm.C09
