/-
  C09 — Concurrent lookups and forgets never lose a reference or duplicate an inode.

  PROPERTY THEOREMS ONLY.  Model: `Fbr.Conc` (small-step system of `do_lookup` / `forget_one`,
  one step = the code between two yield points of hook H1).  Lemmas: `Fbr.Lemmas.Conc{Inv,Store,Step}`
  (the invariant `Inv` and its preservation by every step of every thread).

  Every theorem below is about `run c (Sys.init progs) sched`: ANY assignment of request programs
  to ANY number of threads (`progs : Tid → List Op`), ANY schedule (`sched : List Tid`, which may
  name blocked or finished threads — their step is the identity).  `c.keep` is `!use_host_ino`;
  with `use_host_ino` the number is `c.pack f`, assumed injective (C08
  `unique_inode_packing_injective`).  The model is sequentially consistent.
-/
import Fbr.Conc
import Fbr.Lemmas.ConcInv
import Fbr.Lemmas.ConcStore
import Fbr.Lemmas.ConcStep
import Fbr.Lemmas.ConcCount

namespace Fbr.Thm.C09
open Fbr.Conc

/-- The stored count of every host file equals the increments committed for it (CAS successes,
    fetch_adds, inserts — `incs f` is the number of completed lookups of `f`, each of which
    returns right after committing exactly one increment) minus the amounts subtracted by
    committed forgets — no update is lost, none lands on another file's object —
    and a stored count is zero only inside the critical section of the forget that is about to
    remove that very entry (so: positive whenever the map lock is free). -/
theorem refcount_eq_ghost {c : Cfg} (hinj : ∀ f g, c.pack f = c.pack g → f = g)
    (progs : Tid → List Op) (sched : List Tid) :
    let s := reach c progs sched
    (∀ f, liveCount s.store f + s.decs f = s.incs f)
    ∧ (∀ i o, s.store.data i = some o → s.store.cells o = 0 → ∃ t n, (s.threads t).pc = .F3 i n o)
    ∧ (s.lock = .free → ∀ i o, s.store.data i = some o → 0 < s.store.cells o) := by
  intro s
  have h : Conc.Inv c s := reach_inv hinj progs sched
  clear_value s
  refine ⟨h.sinv.ghost, h.pos, ?_⟩
  intro hf i o hd
  apply Nat.pos_of_ne_zero
  intro hz
  obtain ⟨t, n, e⟩ := h.pos i o hd hz
  have := no_holder_of_free h hf t
  rw [e] at this; simp [holds] at this

/-- Never two live entries for one host file: the store holds at most one `InodeData` per host
    identity, under one number. -/
theorem single_entry_per_file {c : Cfg} (hinj : ∀ f g, c.pack f = c.pack g → f = g)
    (progs : Tid → List Op) (sched : List Tid) :
    let s := reach c progs sched
    ∀ i j o o', s.store.data i = some o → s.store.data j = some o' →
      s.store.objHost o = s.store.objHost o' → i = j ∧ o = o' := by
  intro s i j o o' hi hj he
  have h : Conc.Inv c s := reach_inv hinj progs sched
  clear_value s
  have a := (h.sinv.dataObj i o hi).2.2
  have b := (h.sinv.dataObj j o' hj).2.2
  rw [he, b] at a
  have e : j = i := Option.some.inj a
  subst e
  rw [hi] at hj
  exact ⟨rfl, Option.some.inj hj⟩

/-- All completed lookups of a file return the same inode number — whichever threads ran them,
    whenever, and whatever forgets happened in between. -/
theorem same_number {c : Cfg} (hinj : ∀ f g, c.pack f = c.pack g → f = g)
    (progs : Tid → List Op) (sched : List Tid) :
    let s := reach c progs sched
    ∀ t1 t2 f i j, (f, i) ∈ (s.threads t1).results → (f, j) ∈ (s.threads t2).results → i = j := by
  intro s t1 t2 f i j h1 h2
  have h : Conc.Inv c s := reach_inv hinj progs sched
  clear_value s
  obtain ⟨a1, b1⟩ := h.resOk t1 f i h1
  obtain ⟨a2, b2⟩ := h.resOk t2 f j h2
  cases hk : c.keep
  · rw [b1 hk, b2 hk]
  · have := a1 hk; rw [a2 hk] at this; exact (Option.some.inj this).symm

/-- A number returned by a completed lookup stays usable while the client holds references
    (committed increments exceed committed decrements): it is in the store, denotes that file,
    and its count is exactly the outstanding references — even if a concurrent forget dropped
    what was the last previous reference and removed the entry in between. -/
theorem returned_number_usable {c : Cfg} (hinj : ∀ f g, c.pack f = c.pack g → f = g)
    (progs : Tid → List Op) (sched : List Tid) :
    let s := reach c progs sched
    ∀ t f i, (f, i) ∈ (s.threads t).results → s.decs f < s.incs f →
      ∃ o, s.store.data i = some o ∧ s.store.objHost o = f
        ∧ s.store.cells o = s.incs f - s.decs f := by
  intro s t f i hm hlt
  have h : Conc.Inv c s := reach_inv hinj progs sched
  clear_value s
  have hg := h.sinv.ghost f
  cases hp : probe s.store f with
  | none => simp [liveCount, hp] at hg; omega
  | some o =>
    obtain ⟨i', hb, hd, hf⟩ := probe_some h.sinv hp
    have hl : liveCount s.store f = s.store.cells o := by simp [liveCount, hp]
    obtain ⟨a, b⟩ := h.resOk t f i hm
    have : i = i' := by
      cases hk : c.keep
      · rw [b hk, h.sinv.packed hk f i' hb]
      · have := a hk; rw [hb] at this; exact (Option.some.inj this).symm
    subst this
    exact ⟨o, hd, hf, by omega⟩

/-- At quiescence (every thread has finished its program) the lock is free, every stored entry has
    a positive count, and for every file the final count is the committed increments (one per
    completed lookup: `finish` with a lookup result is the only place `incs` grows) minus the
    amounts forgotten. -/
theorem final_count {c : Cfg} (hinj : ∀ f g, c.pack f = c.pack g → f = g)
    (progs : Tid → List Op) (sched : List Tid) :
    let s := reach c progs sched
    (∀ t, (s.threads t).pc = .done) →
      s.lock = .free ∧ (∀ f, liveCount s.store f = s.incs f - s.decs f)
      ∧ (∀ i o, s.store.data i = some o → 0 < s.store.cells o) := by
  intro s hdone
  have h : Conc.Inv c s := reach_inv hinj progs sched
  clear_value s
  have hfree : s.lock = .free := by
    cases hl : s.lock with
    | free => rfl
    | w t =>
      have := (h.lockA t).mp hl
      rw [hdone t] at this; simp [holds] at this
  refine ⟨hfree, ?_, ?_⟩
  · intro f; have := h.sinv.ghost f; omega
  · intro i o hd
    apply Nat.pos_of_ne_zero
    intro hz
    obtain ⟨t, n, e⟩ := h.pos i o hd hz
    have := no_holder_of_free h hfree t
    rw [e] at this; simp [holds] at this

/-- The ghost is what it claims to be: with threads `0 … n-1` running (all others idle), `incs f`
    equals the number of completed lookups of `f` recorded in the threads' result lists — so
    `refcount_eq_ghost` / `final_count` read: stored count = completed lookups − amounts forgotten. -/
theorem incs_counts_completed_lookups (c : Cfg) (progs : Tid → List Op) (n : Nat)
    (hn : ∀ t, n ≤ t → progs t = []) (sched : List Tid) (f : HostId) :
    (reach c progs sched).incs f = doneCount (reach c progs sched) n f :=
  (cinv_run c (cinv_init progs n hn) sched).cnt f

/-- A forget that does not over-count subtracts exactly its count (the saturating subtraction is
    exact), so for a well-behaved client "amount forgotten" is the sum of the forget counts. -/
theorem forget_exact (curr n : Nat) (h : n ≤ curr) : curr - (curr - n) = n := by omega

/-- No deadlock: as long as some thread has not finished, some thread can take a step. -/
theorem no_deadlock {c : Cfg} (hinj : ∀ f g, c.pack f = c.pack g → f = g)
    (progs : Tid → List Op) (sched : List Tid) :
    let s := reach c progs sched
    (∃ t, (s.threads t).pc ≠ .done) → ∃ t, enabled s t = true := by
  intro s ⟨t, ht⟩
  have h : Conc.Inv c s := reach_inv hinj progs sched
  clear_value s
  cases hl : s.lock with
  | free =>
    refine ⟨t, ?_⟩
    unfold enabled
    cases hpc : (s.threads t).pc <;> simp_all
  | w t0 =>
    refine ⟨t0, ?_⟩
    have := (h.lockA t0).mp hl
    unfold enabled
    cases hpc : (s.threads t0).pc <;> simp_all [holds]

/-- The spin of `do_lookup` at `curr == 0` cannot loop on its own: a thread that loaded a zero
    count goes back to the probe, and the probe is blocked exactly while the forget that zeroed the
    count is inside its critical section; the lock holder itself is never blocked. -/
theorem lock_holder_never_blocked {c : Cfg} (hinj : ∀ f g, c.pack f = c.pack g → f = g)
    (progs : Tid → List Op) (sched : List Tid) :
    let s := reach c progs sched
    ∀ t, s.lock = .w t → enabled s t = true ∧ (s.threads t).pc ≠ .done := by
  intro s t hl
  have h : Conc.Inv c s := reach_inv hinj progs sched
  clear_value s
  have := (h.lockA t).mp hl
  unfold enabled
  cases hpc : (s.threads t).pc <;> simp_all [holds]

/-! ### non-vacuity: concrete runs of the model -/

/-- two concurrent lookups of one file, the second probing before the first inserted
    (both go through the write-locked path): one entry, count 2, same number -/
example :
    let s := reach { keep := true, pack := fun f => 2 ^ 47 + f }
      (fun t => if t < 2 then [Op.lookup 0] else []) [0, 1, 0, 1, 0, 1]
    liveCount s.store 0 = 2 ∧ (s.threads 0).results = [(0, 2)] ∧ (s.threads 1).results = [(0, 2)]
      ∧ s.store.nobj = 1 := by
  decide

/-- lookup;forget ‖ lookup where the forget zeroes the count between the other thread's load and
    its compare-exchange: the CAS fails, the lookup retries, re-inserts, and keeps the number -/
example :
    let s := reach { keep := true, pack := fun f => 2 ^ 47 + f }
      (fun t => if t = 0 then [Op.lookup 0, Op.forgetFile 0 1] else if t = 1 then [Op.lookup 0] else [])
      [0, 0, 0, 1, 1, 1, 0, 0, 0, 0, 1, 1, 1]
    liveCount s.store 0 = 1 ∧ (s.threads 1).results = [(0, 2)] ∧ s.store.nobj = 2
      ∧ s.incs 0 = 2 ∧ s.decs 0 = 1 ∧ (s.threads 0).pc = .done ∧ (s.threads 1).pc = .done := by
  decide

end Fbr.Thm.C09
