/-
  C10 — the overlay shows the overlayfs union of its layers and never modifies lowers.
  PROPERTY THEOREMS ONLY (helper lemmas: Fbr/Lemmas/Ovl*.lean).  Model: Fbr/Ovl.lean.
-/
import Fbr.Ovl
import Fbr.Lemmas.OvlMerge
import Fbr.Lemmas.OvlHoare
import Fbr.Lemmas.OvlInv
import Fbr.Lemmas.OvlNoUpper
import Fbr.Lemmas.OvlSimLookup
import Fbr.Lemmas.OvlSimRO
import Fbr.Lemmas.OvlOps
import Fbr.Lemmas.OvlAll
import Fbr.Lemmas.OvlRm
import Fbr.Lemmas.OvlRmdirB
import Fbr.Lemmas.OvlEffects
import Fbr.Lemmas.OvlAttrOps
import Fbr.Lemmas.OvlLink
import Fbr.Lemmas.OvlFrameOps

namespace Fbr.Thm.C10
open Fbr.Ovl

/-! ## merge algebra: what the SPEC `merge` means
  `cands d pp n` (Fbr.Lemmas.OvlMerge) are the layers, topmost first, that take part in the merged
  directory `pp` and have an entry called `n`. -/

/-- Topmost wins: what is visible at `pp/n` is the entry of the topmost contributing layer
    (nothing when that entry is a whiteout). -/
theorem topmost_wins (d : Disk) (pp : Path) (n : Name) (i : Nat) (rest : List Nat)
    (h : cands d pp n = i :: rest) : merge d (n :: pp) = (d.nodeAt i (n :: pp)).view := by
  rcases @cutIdx_head d (n :: pp) i rest with h0 | ⟨tl, h0⟩
  · have ha : (d.nodeAt i (n :: pp)).isAbsent = false := by
      have : i ∈ cands d pp n := by simp [h]
      simp [cands] at this
      exact this.2.2
    rw [merge_of_stack_nil (by rw [stackIdx_cons, h, h0]), (cutIdx_eq_nil_iff ha).1 h0]
    rfl
  · exact merge_of_stack_cons (by rw [stackIdx_cons, h, h0])

/-- no layer contributes the name: nothing is visible -/
theorem nothing_from_nothing (d : Disk) (pp : Path) (n : Name) (h : cands d pp n = []) :
    merge d (n :: pp) = .none :=
  merge_of_stack_nil (by rw [stackIdx_cons, h]; rfl)

/-- Whiteout hides: when the topmost contributing entry is a whiteout, the name and everything
    below it are invisible, whatever the layers underneath contain. -/
theorem whiteout_hides (d : Disk) (pp : Path) (n : Name) (i : Nat) (rest : List Nat)
    (h : cands d pp n = i :: rest) (hw : d.nodeAt i (n :: pp) = .whiteout) :
    ∀ q : Path, merge d (q ++ n :: pp) = .none := by
  have h0 : stackIdx d (n :: pp) = [] := by rw [stackIdx_cons, h, cutIdx_whiteout hw]
  exact fun q => merge_of_stack_nil (stack_below_nil d (n :: pp) h0 q)

/-- A non-directory on top shadows: a directory of the same name in a lower layer contributes
    nothing, all its children are invisible. -/
theorem file_over_dir_shadows (d : Disk) (pp : Path) (n : Name) (i : Nat) (rest : List Nat)
    (h : cands d pp n = i :: rest) (hnd : (d.nodeAt i (n :: pp)).isDir = false) :
    ∀ (m : Name) (q : Path), merge d (q ++ m :: n :: pp) = .none := by
  have h1 : stackIdx d (n :: pp) = [] ∨ stackIdx d (n :: pp) = [i] := by
    rw [stackIdx_cons, h, cutIdx_cons]
    cases hn : d.nodeAt i (n :: pp) <;> simp_all [Node.isDir]
  have h0 : ∀ m, stackIdx d (m :: n :: pp) = [] := by
    intro m
    rw [stackIdx_cons, cands]
    rcases h1 with h1 | h1 <;> simp [h1, hnd, cutIdx_nil]
  exact fun m q => merge_of_stack_nil (stack_below_nil d (m :: n :: pp) (h0 m) q)

/-- Opaque cuts: below an opaque directory only its own layer is consulted. -/
theorem opaque_cuts (d : Disk) (pp : Path) (n : Name) (i : Nat) (rest : List Nat)
    (h : cands d pp n = i :: rest) (ho : (d.nodeAt i (n :: pp)).isOpaqueDir = true) (m : Name) :
    stackIdx d (n :: pp) = [i] ∧ merge d (m :: n :: pp) = (d.nodeAt i (m :: n :: pp)).view := by
  have h1 : stackIdx d (n :: pp) = [i] := by
    rw [stackIdx_cons, h, cutIdx_cons]
    cases hn : d.nodeAt i (n :: pp) <;> simp_all [Node.isOpaqueDir]
  refine ⟨h1, ?_⟩
  have hd : (d.nodeAt i (n :: pp)).isDir = true := by
    cases hn : d.nodeAt i (n :: pp) <;> simp_all [Node.isOpaqueDir, Node.isDir]
  by_cases ha : (d.nodeAt i (m :: n :: pp)).isAbsent = true
  · have hc : cands d (n :: pp) m = [] := by simp [cands, h1, hd, ha]
    rw [nothing_from_nothing d (n :: pp) m hc]
    cases hx : d.nodeAt i (m :: n :: pp) <;> simp_all [Node.isAbsent, Node.view]
  · have hc : cands d (n :: pp) m = [i] := by simp [cands, h1, hd, ha]
    exact topmost_wins d (n :: pp) m i [] hc

/-- A directory over a non-directory: the lower entry and everything under it is cut off, the
    merged directory consists of the upper directory alone. -/
theorem dir_over_file_shadows (d : Disk) (pp : Path) (n : Name) (i j : Nat) (rest : List Nat)
    (h : cands d pp n = i :: j :: rest) (hd : (d.nodeAt i (n :: pp)).isDir = true)
    (hf : (d.nodeAt j (n :: pp)).isDir = false) :
    stackIdx d (n :: pp) = [i] := by
  rw [stackIdx_cons, h]
  cases hn : d.nodeAt i (n :: pp) <;> simp_all [Node.isDir]
  rw [cutIdx_dir hn, cutDirsIdx_nondir hf]
  split <;> rfl

/-- Directories merge: two non-opaque directories on top both take part, and a name that only
    the lower one has is visible through the merged directory. -/
theorem dirs_merge (d : Disk) (pp : Path) (n m : Name) (i j : Nat) (rest : List Nat)
    (h : cands d pp n = i :: j :: rest)
    (hi : ∃ mo x, d.nodeAt i (n :: pp) = .dir mo 0 x) (hj : (d.nodeAt j (n :: pp)).isDir = true)
    (hmi : d.nodeAt i (m :: n :: pp) = .absent) (hmj : (d.nodeAt j (m :: n :: pp)).isAbsent = false) :
    merge d (m :: n :: pp) = (d.nodeAt j (m :: n :: pp)).view := by
  obtain ⟨mo, x, hi⟩ := hi
  have h1 : ∃ tl, stackIdx d (n :: pp) = i :: j :: tl := by
    rw [stackIdx_cons, h, cutIdx_dir hi]
    cases hn : d.nodeAt j (n :: pp) <;> simp_all [Node.isDir]
    rw [cutDirsIdx_dir hn]
    split <;> simp
  obtain ⟨tl, h1⟩ := h1
  have hdi : (d.nodeAt i (n :: pp)).isDir = true := by simp [hi, Node.isDir]
  have hc : ∃ tl', cands d (n :: pp) m = j :: tl' := by
    have e1 : ((d.nodeAt i (n :: pp)).isDir && !(d.nodeAt i (m :: n :: pp)).isAbsent) = false := by
      simp [hmi, Node.isAbsent]
    have e2 : ((d.nodeAt j (n :: pp)).isDir && !(d.nodeAt j (m :: n :: pp)).isAbsent) = true := by
      simp [hj, hmj]
    exact ⟨_, by rw [cands, h1, List.filter_cons, e1, List.filter_cons, e2]; rfl⟩
  obtain ⟨tl', hc⟩ := hc
  exact topmost_wins d (n :: pp) m j tl' hc

/-! non-vacuity: a concrete three-layer disk exercising every rule -/
section Examples

/-- upper: `a` whiteout, `b` opaque dir with `b/x`, `c` dir with `c/u`;
    lower1: `a` file, `b` dir with `b/y`, `c` dir with `c/v`, `d` file; lower2: `d` dir with `d/z` -/
def exUpper : Layer := fun q =>
  if q = [] then .dir 0o755 0 0 else if q = [0] then .whiteout else if q = [1] then .dir 0o755 1 0
  else if q = [3, 1] then .file 1 0o644 [7] 0 else if q = [2] then .dir 0o700 0 0
  else if q = [4, 2] then .file 2 0o600 [] 0 else .absent
def exLower1 : Layer := fun q =>
  if q = [] then .dir 0o755 0 0 else if q = [0] then .file 3 0o644 [1] 0 else if q = [1] then .dir 0o711 0 0
  else if q = [4, 1] then .file 4 0o644 [2] 0 else if q = [2] then .dir 0o755 0 0
  else if q = [3, 2] then .symlink 5 else if q = [3] then .file 5 0o444 [3] 0 else .absent
def exLower2 : Layer := fun q =>
  if q = [] then .dir 0o755 0 0 else if q = [3] then .dir 0o755 0 0
  else if q = [0, 3] then .file 6 0o644 [4] 0 else .absent
def exDisk : Disk := { upper := some exUpper, lowers := [exLower1, exLower2] }

example : merge exDisk [0] = .none := by decide                       -- whiteout hides lower file
example : merge exDisk [1] = .dir 0o755 0 := by decide                -- topmost wins
example : merge exDisk [3, 1] = .file 0o644 [7] 0 := by decide        -- opaque dir keeps its own
example : merge exDisk [4, 1] = .none := by decide                    -- opaque cuts lower b/y
example : merge exDisk [4, 2] = .file 0o600 [] 0 := by decide         -- dirs merge: upper c/u
example : merge exDisk [3, 2] = .symlink 5 := by decide               -- dirs merge: lower c/v
example : merge exDisk [3] = .file 0o444 [3] 0 := by decide           -- file over dir
example : merge exDisk [0, 3] = .none := by decide                    -- ... shadows d/z
example : cands exDisk [] 2 = [0, 1] := by decide

end Examples

/-! ## lower layers are never modified

  `run (importFs d) ops` is the state after `OverlayFs::new` + `import` over the disk `d` and the
  history `ops` (any layer contents, any operations, any length).  `log` holds every call of a
  mutating layer method (mkdir, create, mknod, symlink, link, unlink, rmdir, setattr, setxattr,
  removexattr, write, open-for-write, create_whiteout, delete_whiteout, set_opaque) the overlay
  issued, with the index of the layer it was issued on (0 = upper). -/

/-- Every mutating call the overlay ever issues is issued on the upper layer, and the lower
    layers of the disk are, as functions, exactly the ones the history started with — for every
    initial disk and every history.  (Proved through the invariant "a real inode flagged
    `in_upper_layer` belongs to layer 0", which `RealInode`'s mutators and the direct
    `layer.<method>` call sites rely on.) -/
theorem lowers_never_mutated (d : Disk) (ops : List Op) :
    (∀ c ∈ (run (importFs d) ops).log, c.layer = 0) ∧ (run (importFs d) ops).disk.lowers = d.lowers := by
  have h := run_inv (I := upperSpec d.lowers) ops _ (import_upper d)
  exact ⟨h.2.1, h.2.2⟩

/-- the same for a single operation from any state reachable that way, including failed ones -/
theorem step_keeps_lowers (d : Disk) (ops : List Op) (op : Op) :
    (runOp op (run (importFs d) ops)).st.disk.lowers = d.lowers := by
  have e : ∀ s, run s (ops ++ [op]) = (runOp op (run s ops)).st := by
    induction ops with
    | nil => intro s; rfl
    | cons o rest ih => intro s; exact ih (runOp o s).st
  have h := run_inv (I := upperSpec d.lowers) (ops ++ [op]) _ (import_upper d)
  rw [e] at h
  exact h.2.2

/-- Without an upper layer nothing is ever changed: no mutating call is issued on any layer and
    the disk stays literally the same, whatever the history. -/
theorem no_upper_changes_nothing (d : Disk) (hd : d.upper = none) (ops : List Op) :
    (run (importFs d) ops).log = [] ∧ (run (importFs d) ops).disk = d := by
  have h := run_inv (I := noUpperSpec d) ops _ (import_noUpper d hd)
  refine ⟨?_, h.2.2⟩
  cases hl : (run (importFs d) ops).log with
  | nil => rfl
  | cons c rest => exact (h.2.1 c (by simp [hl])).elim

/-- Without an upper layer every modifying operation (create, mkdir, mknod, symlink, link,
    unlink, rmdir, open for writing, write, chmod, truncate, setxattr, removexattr) fails, after
    any history, and leaves the disk and the (empty) call log as they were. -/
theorem no_upper_modifying_fails (d : Disk) (hd : d.upper = none) (ops : List Op) (op : Op)
    (hm : op.isModifying = true) :
    ∃ e s', runOp op (run (importFs d) ops) = .err e s' ∧ s'.disk = d ∧ s'.log = [] := by
  have h := run_inv (I := noUpperSpec d) ops _ (import_noUpper d hd)
  have hf := runOp_fails hd op hm _ h
  cases hr : runOp op (run (importFs d) ops) with
  | ok a s' => exact (hf.1 a s' hr).elim
  | err e s' =>
    have h' := hf.2 e s' hr
    refine ⟨e, s', rfl, h'.2.2, ?_⟩
    cases hl : s'.log with
    | nil => rfl
    | cons c rest => exact (h'.2.1 c (by simp [hl])).elim

/-! ## the visible tree is the union

  `liveView s p` is what a client gets by walking the (root-first) path `p` through the overlay
  in state `s` (LOOKUP per component, then the node's attributes / content / target / xattr from
  the real inode the overlay would use); `merge d q` is the SPEC at the leaf-first path `q`.
  `Disk.RootsOK` (every layer root is a directory) and `Disk.TreesOK` (every layer is a tree:
  whatever exists lies in a directory) are the only assumptions on the layers. -/

/-- Whenever the in-memory forest is a valid cache of the disk (`Consistent`: every node keeps
    exactly the real inodes `scan_childrens`/`new_from_real_inodes` would compute from the disk
    now, loaded directories list exactly the names that have any), the live view at EVERY path
    equals the overlayfs union of the layers. -/
theorem view_is_merge_of_consistent (s : St) (hc : Consistent s) (p : List Name) :
    liveView s p = merge s.disk p.reverse :=
  consistent_view_is_merge s hc p

/-- A freshly imported overlay shows exactly the overlayfs union of its layers — for every
    layer contents (any number of lowers, with or without upper, whiteouts, opaque directories,
    same names as files and directories in several layers) and every path of any depth. -/
theorem fresh_view_is_merge (d : Disk) (hr : d.RootsOK) (ht : d.TreesOK) (p : List Name) :
    liveView (importFs d) p = merge d p.reverse := by
  have h := import_consistent d hr ht
  rw [consistent_view_is_merge _ h.1, h.2]

/-- `view_is_merge`: after ANY history of operations — all 19 kinds: lookup, readdir, read,
    readlink, getxattr, open (any flags), walk, write, chmod, truncate, setxattr, removexattr (with
    copy-up of files, symlinks, special files and of any chain of missing parent directories),
    create, mkdir, mknod, symlink (over nothing, over an upper whiteout, over a lower whiteout;
    `set_opaque` included), link (both copy-ups included), unlink and rmdir (with or without
    whiteout, `lower_entry_exists` and the clearing of upper whiteouts by `empty_node_directory`
    included), successful or failed — from ANY initial disk whose layers are trees with directory
    roots, the live view at EVERY path is the overlayfs union of what is on disk then.

    Proof: the in-memory forest stays a valid cache of the disk (`Consistent`) over every
    operation (`Fbr.Ovl.runOp_cons_all`).  For `rmdir` the invariant is broken inside the
    operation (upper whiteouts are deleted before the directory itself goes); that window is
    described exactly (`Fbr.Ovl.RmReady`) and the end of `do_rm` re-establishes the invariant. -/
theorem view_is_merge (d : Disk) (hr : d.RootsOK) (ht : d.TreesOK) (ops : List Op) (p : List Name) :
    liveView (run (importFs d) ops) p = merge (run (importFs d) ops).disk p.reverse := by
  have h0 := import_consistent d hr ht
  exact consistent_view_is_merge _ (run_cons_all ops _ h0.1) p

/-- every operation kind keeps the cache invariant, one at a time, from any state with a valid
    cache, whether the operation succeeds or fails -/
theorem every_op_keeps_cache (s : St) (hc : Consistent s) (op : Op) : Consistent (runOp op s).st :=
  (runOp_cons_all op).st hc

/-- the cache is valid after every history -/
theorem cache_valid_after_history (d : Disk) (hr : d.RootsOK) (ht : d.TreesOK) (ops : List Op) :
    Consistent (run (importFs d) ops) :=
  run_cons_all ops _ (import_consistent d hr ht).1

/-- (superseded by `view_is_merge`; the name is kept because DESIGN.md refers to it) the same for
    histories of the operations in `Op.covered` -/
theorem view_is_merge_partial (d : Disk) (hr : d.RootsOK) (ht : d.TreesOK) (ops : List Op)
    (_hops : ∀ op ∈ ops, op.covered = true) (p : List Name) :
    liveView (run (importFs d) ops) p = merge (run (importFs d) ops).disk p.reverse :=
  view_is_merge d hr ht ops p

/-- (superseded by `every_op_keeps_cache`) -/
theorem covered_op_keeps_cache (s : St) (hc : Consistent s) (op : Op) (_hop : op.covered = true) :
    Consistent (runOp op s).st :=
  every_op_keeps_cache s hc op

/-! ## operations update the union as an ordinary file system would

  `op_refines_plain_fs` is proved in pieces; see `op_refines_plain_fs_partial` for what exactly is
  and is not covered. -/

/-- Non-modifying operations (lookup, readdir, read, readlink, getxattr, open read-only, walk)
    leave the union unchanged at every path, as they leave an ordinary file system unchanged —
    after ANY history (of all 19 operation kinds), whether they succeed or fail. -/
theorem readonly_op_refines_plain_fs (d : Disk) (hr : d.RootsOK) (ht : d.TreesOK) (ops : List Op)
    (op : Op) (hop : op.isModifying = false) :
    merge (runOp op (run (importFs d) ops)).st.disk = merge (run (importFs d) ops).disk := by
  have hc := cache_valid_after_history d hr ht ops
  have h' := (runOp_ro_cd (run (importFs d) ops).disk op hop).st ⟨hc, rfl⟩
  rw [h'.2]

/-- `op_refines_plain_fs`, PARTIAL.  What is proved, each from ANY state with a valid cache (hence
    after any history, `cache_valid_after_history`):
    (1) non-modifying operations change the union nowhere (`readonly_op_refines_plain_fs`; this
        theorem is its older form for read-only histories);
    (2) for each of the 13 modifying operations, what the union shows AT THE TARGET PATH after a
        successful operation: `unlink_refines_plain_fs`, `rmdir_refines_plain_fs` (gone, with
        everything below), `create_` / `mknod_` / `symlink_` / `mkdir_refines_plain_fs` (the new entry;
        a new directory is empty), `link_refines_plain_fs` (the new name shows what the old name
        shows), `chmod_` / `truncate_` / `write_` / `open_` / `setxattr_` / `removexattr_refines_plain_fs`
        (the old entry changed as chmod(2) / ftruncate(2) / pwrite(2) / open(O_TRUNC) / setxattr(2)
        change it, with type, mode, content and target carried over a copy-up);
    (3) every operation, successful or failed, keeps live view = union (`view_is_merge`).
    (4) the FRAME for the six operations that only add or remove a name (create, mkdir, mknod,
        symlink, unlink, rmdir), successful or failed: the union at every path outside the target's
        subtree is unchanged up to xattrs (`namespace_op_frame`); a failed unlink / rmdir changes
        the union nowhere (`failed_remove_changes_nothing`).
    NOT proved in Lean (the reason for `_partial`): the frame for link and for the six
    attribute-changing operations (chmod, truncate, write, open-for-write, setxattr,
    removexattr: that the union at all OTHER paths is unchanged), and which errno an operation
    answers.  The frame holds only up to the `user.*` xattrs of entries that get copied up (known
    finding `C10:copy-up:xattr-lost`); for the attribute-changing operations and link it is in
    addition not expressible over this view type, which carries no inode identity (a chmod or
    write through one hard link is visible through the other), and file copy-up would need an
    "inode ids on disk are below `nextId`" invariant in the model.  Those parts rest on the
    harness's ordinary-directory reference run (`C10:not-plain-fs:*`). -/
theorem op_refines_plain_fs_partial (d : Disk) (hr : d.RootsOK) (ht : d.TreesOK) (ops : List Op)
    (hops : ∀ op ∈ ops, op.isModifying = false) (op : Op) (hop : op.isModifying = false) :
    merge (runOp op (run (importFs d) ops)).st.disk = merge d := by
  have h0 := import_consistent d hr ht
  have h := run_ro_cd d ops hops _ ⟨h0.1, h0.2⟩
  have h' := (runOp_ro_cd d op hop).st h
  rw [h'.2]

/-- a successful unlink removes the name from the union (from any state with a valid cache, in
    particular after any history) -/
theorem unlink_refines_plain_fs (s : St) (hc : Consistent s) (p : List Name) (r : Reply) (s' : St)
    (h : runOp (.unlink p) s = .ok r s') : merge s'.disk p.reverse = .none ∧ Consistent s' := by
  have h1 := (runOp_unlink_gone p s hc).1 r s' h
  refine ⟨?_, h1.1⟩
  rw [merge_eq_specStat s'.disk h1.1.roots, h1.2]
  rfl

/-- a successful rmdir removes the name and everything that any layer has below it from the
    union: whatever upper whiteouts had to be cleared to empty the upper directory, nothing of
    the lower layers shows through afterwards -/
theorem rmdir_refines_plain_fs (s : St) (hc : Consistent s) (p : List Name) (r : Reply) (s' : St)
    (h : runOp (.rmdir p) s = .ok r s') :
    (∀ q : List Name, merge s'.disk (q ++ p.reverse) = .none) ∧ Consistent s' := by
  have h1 := (runOp_rmdir_gone p s hc).1 r s' h
  exact ⟨merge_none_below s'.disk h1.1.roots _ h1.2, h1.1⟩

/-- a successful create leaves an empty regular file with the requested mode at the path -/
theorem create_refines_plain_fs (s : St) (hc : Consistent s) (p : List Name) (mode : Nat) (r : Reply) (s' : St)
    (h : runOp (.create p mode) s = .ok r s') :
    merge s'.disk p.reverse = .file mode [] 0 ∧ Consistent s' := by
  obtain ⟨hc', X', hsp, hv⟩ := (runOp_create_eff p mode s hc).1 r s' h
  exact ⟨by rw [merge_eq_specStat s'.disk hc'.roots, hsp]; exact hv, hc'⟩

/-- a successful mknod leaves a special file with the requested mode at the path -/
theorem mknod_refines_plain_fs (s : St) (hc : Consistent s) (p : List Name) (mode : Nat) (r : Reply) (s' : St)
    (h : runOp (.mknod p mode) s = .ok r s') :
    merge s'.disk p.reverse = .other mode ∧ Consistent s' := by
  obtain ⟨hc', X', hsp, hv⟩ := (runOp_mknod_eff p mode s hc).1 r s' h
  exact ⟨by rw [merge_eq_specStat s'.disk hc'.roots, hsp]; exact hv, hc'⟩

/-- a successful symlink leaves a symbolic link with the requested target at the path -/
theorem symlink_refines_plain_fs (s : St) (hc : Consistent s) (p : List Name) (t : Nat) (r : Reply) (s' : St)
    (h : runOp (.symlink p t) s = .ok r s') :
    merge s'.disk p.reverse = .symlink t ∧ Consistent s' := by
  obtain ⟨hc', ⟨X', hsp, hv⟩, _⟩ := (runOp_symlink_eff p t s hc).1 r s' h
  exact ⟨by rw [merge_eq_specStat s'.disk hc'.roots, hsp]; exact hv, hc'⟩

/-- a successful mkdir leaves a directory with the requested mode at the path, and that directory
    is EMPTY in the union — whatever the lower layers have at and below that path (a deleted
    lower directory of the same name does not come back: the F6 property, on the level of the
    union) -/
theorem mkdir_refines_plain_fs (s : St) (hc : Consistent s) (p : List Name) (mode : Nat) (r : Reply) (s' : St)
    (h : runOp (.mkdir p mode) s = .ok r s') :
    merge s'.disk p.reverse = .dir mode 0 ∧
      (∀ (c : Name) (q : List Name), merge s'.disk (q ++ c :: p.reverse) = .none) ∧ Consistent s' := by
  obtain ⟨hc', ⟨X', hsp, hv⟩, hempty⟩ := (runOp_mkdir_eff p mode s hc).1 r s' h
  refine ⟨by rw [merge_eq_specStat s'.disk hc'.roots, hsp]; exact hv, fun c q => ?_, hc'⟩
  exact merge_none_below s'.disk hc'.roots _ (hempty rfl c) q

/-- a successful link makes the new name show exactly what the old name shows (type, mode,
    content, xattr: they are the same upper file from then on), which is a non-directory -/
theorem link_refines_plain_fs (s : St) (hc : Consistent s) (src dst : List Name) (r : Reply) (s' : St)
    (h : runOp (.link src dst) s = .ok r s') :
    merge s'.disk dst.reverse = merge s'.disk src.reverse ∧ merge s'.disk src.reverse ≠ .none ∧
      (∀ m x, merge s'.disk src.reverse ≠ .dir m x) ∧ Consistent s' := by
  obtain ⟨hc', X, X', hs, hd, hv, hnd⟩ := (runOp_link_eff src dst s hc).1 r s' h
  have hvis : X.isWhiteout = false ∧ X.isAbsent = false := by
    -- what LOOKUP answers is never a whiteout or nothing
    rw [specStat_eq] at hs
    cases he : expReals s'.disk src.reverse with
    | nil => rw [he] at hs; cases hs
    | cons e erest =>
      rw [he] at hs
      simp only [headStat] at hs
      by_cases hw : e.whiteout = true
      · simp [hw] at hs
      · simp only [hw, Bool.false_eq_true, if_false, Option.some.injEq] at hs
        have hex := expReals_eq s'.disk hc'.roots src.reverse
        rw [he] at hex
        cases hi : expIdx s'.disk src.reverse with
        | nil => rw [hi] at hex; cases hex
        | cons i irest =>
          rw [hi] at hex
          simp only [List.map_cons, List.cons.injEq] at hex
          have hew : e.whiteout = (s'.disk.nodeAt i src.reverse).isWhiteout := by rw [hex.1]; rfl
          have hst : s'.disk.statReal e = s'.disk.nodeAt i src.reverse := by rw [hex.1]; rfl
          rw [← hs, hst]
          refine ⟨by rw [← hew]; simpa using hw, ?_⟩
          cases hsrc : src.reverse with
          | nil =>
            have : i ∈ s'.disk.indices := by
              have : expIdx s'.disk [] = s'.disk.indices := rfl
              rw [← this, ← hsrc, hi]; simp
            have hdir := hc'.roots i this
            cases hn : s'.disk.nodeAt i [] <;> simp_all [Node.isDir, Node.isAbsent]
          | cons n pp =>
            rw [hsrc] at hi
            exact expIdx_present s'.disk n pp i (by rw [hi]; simp)
  rw [merge_eq_specStat s'.disk hc'.roots, merge_eq_specStat s'.disk hc'.roots, hs, hd]
  refine ⟨hv, ?_, ?_, hc'⟩
  · cases X <;> simp_all [viewOfStat, Node.view, Node.isWhiteout, Node.isAbsent]
  · intro m x
    cases X <;> simp_all [viewOfStat, Node.view, Node.isDir]

/-- THE FRAME of the six operations that only add or remove a name (create, mkdir, mknod,
    symlink, unlink, rmdir) with target path `p`: whether the operation succeeds or fails, the
    union at EVERY path that is not `p` or below `p` is what it was — up to `user.x` xattrs
    (`dropX`), because parent directories that exist only in lower layers are copied up without
    their xattrs (known finding `C10:copy-up:xattr-lost:dir`).  Together with the target-path
    theorems above (`create_` … `rmdir_refines_plain_fs`) this is the complete plain-file-system
    refinement statement for these operations, modulo that xattr loss: the copy-up of any chain
    of missing parents, the deletion of upper whiteouts by `empty_node_directory`, the new
    whiteout or opaque marker are all invisible in the union. -/
theorem namespace_op_frame (s : St) (hc : Consistent s) (op : Op) (p : List Name)
    (hop : op = .unlink p ∨ op = .rmdir p ∨ (∃ mode, op = .create p mode) ∨ (∃ mode, op = .mkdir p mode) ∨
      (∃ mode, op = .mknod p mode) ∨ (∃ t, op = .symlink p t)) (q : Path)
    (hq : p.reverse.isSuffixOf q = false) :
    (merge (runOp op s).st.disk q).dropX = (merge s.disk q).dropX := by
  have key : Triple (CD s.disk) (runOp op) (fun _ s' => FrameD s.disk s'.disk p.reverse)
      (fun s' => FrameD s.disk s'.disk p.reverse) := by
    rcases hop with rfl | rfl | ⟨mode, rfl⟩ | ⟨mode, rfl⟩ | ⟨mode, rfl⟩ | ⟨t, rfl⟩
    · exact (runOp_unlink_frame s.disk p).conseq (fun _ h => h) (fun _ _ h => h.2) (fun _ h => h.2.frame _)
    · exact (runOp_rmdir_frame s.disk p).conseq (fun _ h => h) (fun _ _ h => h.2) (fun _ h => h.2.frame _)
    · exact (runOp_create_frame s.disk p mode).conseq (fun _ h => h) (fun _ _ h => h.2) (fun _ h => h.2)
    · exact (runOp_mkdir_frame s.disk p mode).conseq (fun _ h => h) (fun _ _ h => h.2) (fun _ h => h.2)
    · exact (runOp_mknod_frame s.disk p mode).conseq (fun _ h => h) (fun _ _ h => h.2) (fun _ h => h.2)
    · exact (runOp_symlink_frame s.disk p t).conseq (fun _ h => h) (fun _ _ h => h.2) (fun _ h => h.2)
  exact key.st ⟨hc, rfl⟩ q hq

/-- a FAILED unlink or rmdir leaves the union unchanged at every path, up to xattrs (it may have
    copied parent directories up before failing) -/
theorem failed_remove_changes_nothing (s : St) (hc : Consistent s) (op : Op) (p : List Name)
    (hop : op = .unlink p ∨ op = .rmdir p) (e : Nat) (s' : St) (h : runOp op s = .err e s') (q : Path) :
    (merge s'.disk q).dropX = (merge s.disk q).dropX := by
  rcases hop with rfl | rfl
  · exact ((runOp_unlink_frame s.disk p s ⟨hc, rfl⟩).2 e s' h).2 q
  · exact ((runOp_rmdir_frame s.disk p s ⟨hc, rfl⟩).2 e s' h).2 q

/-! The attribute-changing operations.  `ViewChanged d d' q gv` (Fbr.Lemmas.OvlAttrOps): at `q` the
    union of `d'` shows `gv w`, where `w` is what the union of `d` showed up to the `user.x` xattr
    (`w.dropX = (merge d q).dropX`): when the node has to be copied up first its type, mode,
    content and link target are preserved and only the xattr is lost (known finding
    `C10:copy-up:xattr-lost`).  `chmodV`, `truncV`, `writeV`, `openV`, `setxV` are the obvious
    changes of a visible node (`pwrite` / `resize` are pwrite(2) / ftruncate(2) on chunk lists). -/

theorem chmod_refines_plain_fs (s : St) (hc : Consistent s) (p : List Name) (mode : Nat) (r : Reply) (s' : St)
    (h : runOp (.chmod p mode) s = .ok r s') :
    Consistent s' ∧ ViewChanged s.disk s'.disk p.reverse (chmodV mode) := by
  obtain ⟨st, hsp, hch⟩ := (runOp_chmod_eff s.disk p mode s ⟨hc, rfl⟩).1 r s' h
  exact viewChanged_of_changed hc.roots hsp hch _ (chmodN_view mode)

theorem truncate_refines_plain_fs (s : St) (hc : Consistent s) (p : List Name) (k : Nat) (r : Reply) (s' : St)
    (h : runOp (.truncate p k) s = .ok r s') :
    Consistent s' ∧ ViewChanged s.disk s'.disk p.reverse (truncV k) := by
  obtain ⟨st, hsp, hch⟩ := (runOp_truncate_eff s.disk p k s ⟨hc, rfl⟩).1 r s' h
  exact viewChanged_of_changed hc.roots hsp hch _ (truncN_view k)

/-- OPEN(flags) + WRITE(off, data) + RELEASE: with O_TRUNC the old content goes first, with
    O_APPEND the data lands at the end -/
theorem write_refines_plain_fs (s : St) (hc : Consistent s) (p : List Name) (fl : OFlag) (off : Nat)
    (data : List Nat) (r : Reply) (s' : St) (h : runOp (.write p fl off data) s = .ok r s') :
    Consistent s' ∧ ViewChanged s.disk s'.disk p.reverse (writeV fl.isTrunc (fl == .wa) off data) := by
  obtain ⟨st, hsp, hch⟩ := (runOp_write_eff s.disk p fl off data s ⟨hc, rfl⟩).1 r s' h
  exact viewChanged_of_changed hc.roots hsp hch _ (writeAllN_view _ _ off data)

/-- OPEN with a writing flag: only O_TRUNC changes what is visible -/
theorem open_refines_plain_fs (s : St) (hc : Consistent s) (p : List Name) (fl : OFlag) (hfl : fl.isWrite = true)
    (r : Reply) (s' : St) (h : runOp (.open p fl) s = .ok r s') :
    Consistent s' ∧ ViewChanged s.disk s'.disk p.reverse (openV fl.isTrunc) := by
  obtain ⟨st, hsp, hch⟩ := (runOp_openW_eff s.disk p fl hfl s ⟨hc, rfl⟩).1 r s' h
  exact viewChanged_of_changed hc.roots hsp hch _ (openN_view _)

/-- setxattr: the value is exactly the new one (nothing of the old xattr matters) -/
theorem setxattr_refines_plain_fs (s : St) (hc : Consistent s) (p : List Name) (v : Nat) (r : Reply) (s' : St)
    (h : runOp (.setx p v) s = .ok r s') :
    Consistent s' ∧ ViewChanged s.disk s'.disk p.reverse (setxV v) := by
  obtain ⟨st, hsp, hch⟩ := (runOp_setx_eff s.disk p v s ⟨hc, rfl⟩).1 r s' h
  exact viewChanged_of_changed hc.roots hsp hch _ (setxN_view v)

theorem removexattr_refines_plain_fs (s : St) (hc : Consistent s) (p : List Name) (r : Reply) (s' : St)
    (h : runOp (.rmx p) s = .ok r s') :
    Consistent s' ∧ ViewChanged s.disk s'.disk p.reverse (setxV 0) := by
  obtain ⟨st, hsp, hch⟩ := (runOp_rmx_eff s.disk p s ⟨hc, rfl⟩).1 r s' h
  exact viewChanged_of_changed hc.roots hsp hch _ (setxN_view 0)

/-- for setxattr the statement without the "up to the xattr" clause: type, mode and content are
    exactly the old ones, the xattr is the new value -/
theorem setxattr_exact (s : St) (hc : Consistent s) (p : List Name) (v : Nat) (r : Reply) (s' : St)
    (h : runOp (.setx p v) s = .ok r s') :
    merge s'.disk p.reverse = setxV v (merge s.disk p.reverse) := by
  obtain ⟨_, w, hw, hm⟩ := setxattr_refines_plain_fs s hc p v r s' h
  rw [hm]
  cases w <;> cases hx : merge s.disk p.reverse <;> simp_all [VNode.dropX, setxV]

/-! non-vacuity of the hypotheses: the example disk is well-formed -/
example : exDisk.RootsOK := by
  intro i hi
  have : i = 0 ∨ i = 1 ∨ i = 2 := by
    have : i = 0 ∨ ∃ a, a < 2 ∧ a + 1 = i := by simpa [exDisk, Disk.indices] using hi
    rcases this with h | ⟨a, ha, rfl⟩
    · exact Or.inl h
    · omega
  rcases this with rfl | rfl | rfl <;> decide

end Fbr.Thm.C10
