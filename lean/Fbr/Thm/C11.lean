/-
  C11 — overlay disk state matches the live view across restart; copy-up preserves files.
  PROPERTY THEOREMS ONLY (helper lemmas: Fbr/Lemmas/Ovl*.lean).  Model: Fbr/Ovl.lean.
-/
import Fbr.Ovl
import Fbr.Lemmas.OvlMerge
import Fbr.Lemmas.OvlHoare
import Fbr.Lemmas.OvlInv
import Fbr.Lemmas.OvlSimLookup
import Fbr.Lemmas.OvlSimRO
import Fbr.Lemmas.OvlOps
import Fbr.Lemmas.OvlAll
import Fbr.Lemmas.OvlRm
import Fbr.Lemmas.OvlCreate
import Fbr.Lemmas.OvlRmdirA
import Fbr.Lemmas.OvlRmdirB
import Fbr.Lemmas.OvlAttr
import Fbr.Lemmas.OvlAttrOps
import Fbr.Thm.C10

namespace Fbr.Thm.C11
open Fbr.Ovl

/-- `set_opaque` on a directory makes it opaque on disk and keeps mode and xattr. -/
theorem set_opaque_sets (L : Layer) (p : Path) (m o x : Nat) (h : L p = .dir m o x) :
    ∃ L', hSetOpaque L p = .ok L' ∧ L' p = .dir m 1 x := by
  refine ⟨L.set p (.dir m 1 x), ?_, ?_⟩
  · simp [hSetOpaque, h]
  · simp [Layer.set]

/-! ## restart

  `importFs s.disk` is a second `OverlayFs` started over the directories as the history left
  them.  -/

/-- After ANY history of operations (modifying or not, successful or failed) a freshly started
    overlay over the same directories shows exactly the overlayfs union of what is on disk then
    — at every path.  (The layers stay well-formed along every history: `run_wf`.) -/
theorem restart_view_is_merge (d : Disk) (hr : d.RootsOK) (ht : d.TreesOK) (ops : List Op) (p : List Name) :
    liveView (importFs (run (importFs d) ops).disk) p = merge (run (importFs d) ops).disk p.reverse := by
  have hwf := run_wf d hr ht ops
  have h := import_consistent _ hwf.1 hwf.2
  rw [consistent_view_is_merge _ h.1, h.2]

/-- Restart equals live whenever the live forest is a valid cache of the disk. -/
theorem restart_view_eq_live_of_consistent (s : St) (hc : Consistent s) (p : List Name) :
    liveView (importFs s.disk) p = liveView s p := by
  have h := import_consistent s.disk hc.roots hc.trees
  rw [consistent_view_is_merge _ h.1, h.2, consistent_view_is_merge s hc]

/-- `restart_view_eq_live`: after ANY history of operations (all 19 kinds, successful or failed),
    from any initial disk whose layers are trees with directory roots, a freshly started overlay
    over the same directories shows, at every path, exactly what the running instance shows. -/
theorem restart_view_eq_live (d : Disk) (hr : d.RootsOK) (ht : d.TreesOK) (ops : List Op) (p : List Name) :
    liveView (importFs (run (importFs d) ops).disk) p = liveView (run (importFs d) ops) p :=
  restart_view_eq_live_of_consistent _ (Fbr.Thm.C10.cache_valid_after_history d hr ht ops) p

/-- (superseded by `restart_view_eq_live`; the name is kept because DESIGN.md refers to it) -/
theorem restart_view_eq_live_partial (d : Disk) (hr : d.RootsOK) (ht : d.TreesOK) (ops : List Op)
    (_hops : ∀ op ∈ ops, op.covered = true) (p : List Name) :
    liveView (importFs (run (importFs d) ops).disk) p = liveView (run (importFs d) ops) p :=
  restart_view_eq_live d hr ht ops p

/-- what "deleted" means for a path: nothing is visible there or anywhere below, on disk
    (`merge`), in the running instance and in a freshly started one -/
def DeletedAt (s' : St) (p : List Name) : Prop :=
  ∀ q : List Name, merge s'.disk ((p ++ q).reverse) = .none ∧ liveView s' (p ++ q) = .none ∧
    liveView (importFs s'.disk) (p ++ q) = .none

/-- `deleted_stays_deleted`: after a successful unlink (of a file, symlink or special file living
    in the upper layer, in lower layers, or in both) or a successful rmdir (of a directory that
    lives in the upper layer, in lower layers, or is merged from both; with upper whiteouts to
    clear or without), after ANY history, the path and everything below it is invisible on disk
    (`merge`), in the running instance and in a freshly started one.  For unlink this is the
    property the second `fix:` of this engine (da2e768) restored. -/
theorem deleted_stays_deleted (d : Disk) (hr : d.RootsOK) (ht : d.TreesOK) (ops : List Op)
    (p : List Name) (op : Op) (hop : op = .unlink p ∨ op = .rmdir p) (r : Reply) (s' : St)
    (h : runOp op (run (importFs d) ops) = .ok r s') : DeletedAt s' p := by
  have hc := Fbr.Thm.C10.cache_valid_after_history d hr ht ops
  have key : ∀ (hc' : Consistent s'), (∀ q : List Name, merge s'.disk (q ++ p.reverse) = .none) → DeletedAt s' p := by
    intro hc' hall q
    have hm : merge s'.disk ((p ++ q).reverse) = .none := by
      rw [List.reverse_append]; exact hall q.reverse
    refine ⟨hm, ?_, ?_⟩
    · rw [consistent_view_is_merge s' hc', hm]
    · rw [restart_view_eq_live_of_consistent s' hc', consistent_view_is_merge s' hc', hm]
  rcases hop with rfl | rfl
  · have h1 := (runOp_unlink_gone p _ hc).1 r s' h
    exact key h1.1 (merge_none_below s'.disk h1.1.roots _ h1.2)
  · obtain ⟨hm, hc'⟩ := Fbr.Thm.C10.rmdir_refines_plain_fs _ hc p r s' h
    exact key hc' hm

/-- the same from any state with a valid cache (unlink; name kept, superseded by
    `deleted_stays_deleted`) -/
theorem deleted_stays_deleted_partial (s : St) (hc : Consistent s) (p : List Name) (r : Reply) (s' : St)
    (h : runOp (.unlink p) s = .ok r s') :
    merge s'.disk p.reverse = .none ∧ liveView s' p = .none ∧ liveView (importFs s'.disk) p = .none := by
  obtain ⟨hm, hc'⟩ := Fbr.Thm.C10.unlink_refines_plain_fs s hc p r s' h
  refine ⟨hm, ?_, ?_⟩
  · rw [consistent_view_is_merge s' hc', hm]
  · rw [restart_view_eq_live_of_consistent s' hc', consistent_view_is_merge s' hc', hm]

/-- `recreated_dir_is_opaque`: when `do_mkdir` makes a directory where the forest had a node (it
    can only be a whiteout node, otherwise EEXIST) the new upper directory carries the opaque
    marker — so by `C10.opaque_cuts` nothing of the lower layers can show through it after a
    restart — and the cache is still valid (so restart = live).  This is the property the first
    `fix:` of this engine (8653268, F6) restored. -/
theorem recreated_dir_is_opaque (s : St) (hc : Consistent s) (pp : Path) (n : Name) (mode : Nat)
    (pm o : MNode) (hpm : s.mem pp = some pm) (hlo : pm.loaded = true) (ho : s.mem (n :: pp) = some o)
    (s' : St) (h : doCreateLike pp n true (mkChildOf .mkdir n (.dir mode 0 0)) s = .ok () s') :
    (s'.disk.nodeAt 0 (n :: pp)).isOpaqueDir = true ∧ Consistent s' := by
  have := doCreateLike_spec pp n true .mkdir (.dir mode 0 0)
    ⟨rfl, rfl, fun _ => ⟨mode, rfl⟩, fun h => (by cases h)⟩ s hc hpm hlo
  rw [h] at this
  exact ⟨this.2.1 rfl ⟨o, ho⟩, this.1⟩

/-- `recreated_dir_is_empty`: whenever `do_mkdir` succeeds (over nothing, over an upper whiteout,
    over a lower whiteout, whatever directories of that name the lower layers have), the new
    directory shows as a directory with the requested mode and NOTHING is visible below it — on
    disk (`merge`), hence also live and after a restart (`C10.view_is_merge_of_consistent`,
    `restart_view_eq_live_of_consistent`). -/
theorem recreated_dir_is_empty (s : St) (hc : Consistent s) (pp : Path) (n : Name) (mode : Nat)
    (pm : MNode) (hpm : s.mem pp = some pm) (hlo : pm.loaded = true)
    (s' : St) (h : doCreateLike pp n true (mkChildOf .mkdir n (.dir mode 0 0)) s = .ok () s') :
    merge s'.disk (n :: pp) = .dir mode 0 ∧ (∀ (c : Name) (q : List Name), merge s'.disk (q ++ c :: n :: pp) = .none) ∧
      Consistent s' := by
  have := doCreateLike_spec pp n true .mkdir (.dir mode 0 0)
    ⟨rfl, rfl, fun _ => ⟨mode, rfl⟩, fun h => (by cases h)⟩ s hc hpm hlo
  rw [h] at this
  obtain ⟨hc', _, ⟨X', hX', hv⟩, hempty, _⟩ := this
  refine ⟨?_, fun c q => merge_none_below s'.disk hc'.roots _ (hempty rfl c) q, hc'⟩
  rw [merge_eq_specStat s'.disk hc'.roots, hX']
  exact hv

/-- Copy-up keeps the cache valid: after `copy_node_up(p)` (a file, symlink, special file or
    directory with any chain of missing parent directories) the forest is still exactly what a
    restart would compute, and on success the node is backed by the upper layer. -/
theorem copy_up_keeps_cache (s : St) (hc : Consistent s) (p : Path) :
    (∀ s', copyNodeUp p s = .ok () s' → Consistent s' ∧ UpAt p s') ∧
    (∀ e s', copyNodeUp p s = .err e s' → Consistent s') := by
  have := copyNodeUp_cons p s hc
  exact ⟨fun s' h => this.1 () s' h, fun e s' h => this.2 e s' h⟩

/-- `copy_up_preserves`, end to end: after a successful `copy_node_up(p)` of a node that is visible
    at `p` (a file, symlink, special file or directory, in whatever lower layers, with any chain
    of parent directories missing in the upper layer), the overlayfs union of the disk shows at
    `p` AND AT EVERY ANCESTOR DIRECTORY of `p` exactly what it showed before — type, permission
    bits, content, link target (`VNode.dropX` only forgets the `user.x` xattr value, which copy-up
    does not carry over: known finding `C10:copy-up:xattr-lost`).  So a parent directory created
    by `create_upper_dir` has its original mode.  The node is then backed by the upper layer,
    the cache is still valid (hence live view = restart view = union, `C10.view_is_merge_of_consistent`)
    and no lower layer has changed. -/
theorem copy_up_preserves (s : St) (hc : Consistent s) (p : Path) (hvis : merge s.disk p ≠ .none)
    (hmem : ∃ m, s.mem p = some m) (s' : St) (h : copyNodeUp p s = .ok () s') :
    (∀ q, q.isSuffixOf p = true → (merge s'.disk q).dropX = (merge s.disk q).dropX) ∧
      Consistent s' ∧ UpAt p s' ∧ s'.disk.lowers = s.disk.lowers := by
  have hv : specStat s.disk p ≠ none := by
    intro hn
    apply hvis
    rw [merge_eq_specStat s.disk hc.roots, hn]; rfl
  obtain ⟨h1, h2, h3, h4⟩ := copyNodeUp_view hc hv hmem h
  exact ⟨h4, h1, h2, h3⟩

/-- "files first modified through the overlay show their complete prior content plus the
    modification": after a successful OPEN(flags)+WRITE(off, data) on a file — wherever it lives,
    copied up on the way if need be — the running instance AND a freshly started one show the
    old mode and the old content changed as pwrite(2) changes it (after truncation with O_TRUNC,
    at the end with O_APPEND); only the xattr of a copied-up file is lost (`dropX`). -/
theorem modified_file_keeps_prior_content (s : St) (hc : Consistent s) (p : List Name) (fl : OFlag) (off : Nat)
    (data : List Nat) (r : Reply) (s' : St) (h : runOp (.write p fl off data) s = .ok r s') :
    ∃ w, w.dropX = (liveView s p).dropX ∧ liveView s' p = writeV fl.isTrunc (fl == .wa) off data w ∧
      liveView (importFs s'.disk) p = writeV fl.isTrunc (fl == .wa) off data w := by
  obtain ⟨hc', w, hw, hm⟩ := Fbr.Thm.C10.write_refines_plain_fs s hc p fl off data r s' h
  refine ⟨w, by rw [consistent_view_is_merge s hc]; exact hw, ?_, ?_⟩
  · rw [consistent_view_is_merge s' hc', hm]
  · rw [restart_view_eq_live_of_consistent s' hc', consistent_view_is_merge s' hc', hm]

/-- `copy_up_preserves`, at the level of what is written into the upper layer (the host calls):
    the entry
    `copy_symlink_up` / `copy_special_up` / `copy_regfile_up` create has the type, the permission
    bits, the link target and (after the content write) the content of the lower original; only
    the `user.x` xattr is dropped (known finding `C10:copy-up:xattr-lost`).  Missing parents are
    made by `create_upper_dir` with `mkdir(name, st.st_mode)` — `.dir st.mode 0 0` in
    `createUpperDir`, whose effect on the cache is `copy_up_keeps_cache`. -/
theorem copy_up_writes (st : Node) (id : Nat) (L : Layer) (pp : Path) (n : Name) :
    (∀ t, st = .symlink t → (upperCopy st id) = .symlink t) ∧
    (∀ i m, st = .other i m → (upperCopy st id) = .other id m) ∧
    (∀ i m c x L1 L2, st = .file i m c x → hMk L pp n (upperCopy st id) = .ok L1 →
      hWrite L1 (n :: pp) 0 c = .ok L2 → L2 (n :: pp) = .file id m c 0) := by
  refine ⟨fun t h => by rw [h]; rfl, fun i m h => by rw [h]; rfl, ?_⟩
  intro i m c x L1 L2 hst hmk hwr
  rw [hst] at hmk
  simp only [upperCopy, hMk] at hmk
  split at hmk
  · cases hmk
    simp only [hWrite, Layer.set, if_true] at hwr
    cases hwr
    simp [Layer.updFile, Layer.set, pwrite]
  · cases hmk

/-- `rmdir_clears_upper_whiteouts`, the whole of `empty_node_directory` as `do_rm` reaches it: for
    a loaded directory node `p` that has an upper directory and whose children in the forest are
    all whiteout nodes (what `count_entries_and_whiteout` has established), the loop succeeds
    (no `delete_whiteout` fails), afterwards the upper directory has NO entry left (so the `rmdir`
    that follows cannot answer ENOTEMPTY), the upper layer is unchanged outside that directory and
    still a tree, the lower layers are untouched, and the forest is unchanged outside the
    directory's subtree. -/
theorem rmdir_clears_upper_whiteouts (s : St) (hc : Consistent s) (L : Layer) (hup : s.disk.upper = some L)
    (p : Path) (m : MNode) (hm : s.mem p = some m) (hmu : m.inUpper = true) (hlo : m.loaded = true)
    (r : Real) (rest : List Real) (hr : m.reals = r :: rest) (hd : (s.disk.statReal r).isDir = true)
    (hwh : ∀ c cm, s.mem (c :: p) = some cm → cm.whiteout = true) :
    ∃ s' L', emptyNodeDirectory p s = .ok () s' ∧ s'.disk.upper = some L' ∧ s'.disk.lowers = s.disk.lowers ∧
      (∀ c, L' (c :: p) = .absent) ∧ L' p = L p ∧ (∀ q, p.isSuffixOf q = false → L' q = L q) ∧ TreeOK L' ∧
      (∀ q, p.isSuffixOf q = false → s'.mem q = s.mem q) := by
  obtain ⟨t, Lt, hrun, hi, hempty⟩ := emptyNodeDirectory_spec hc hup hm hmu hlo hr hd hwh
  refine ⟨t, Lt, hrun, by rw [hi.disk]; rfl, by rw [hi.disk]; rfl, fun c => ?_, hi.self, hi.out, hi.tree, hi.memOut⟩
  have := hempty c
  cases hx : Lt (c :: p) <;> simp_all [Node.isAbsent]

/-- `rmdir_clears_upper_whiteouts`, end to end: RMDIR of a directory that is empty in the view
    never leaves the cache invalid, and when it succeeds the directory is gone for good — see
    `deleted_stays_deleted`.  One step of the loop at the level of the host call: -/
theorem rmdir_clears_upper_whiteouts_step (L : Layer) (p : Path) (c : Name) (h : L (c :: p) = .whiteout) :
    ∃ L', hDeleteWhiteout L p c = .ok L' ∧ L' (c :: p) = .absent ∧ ∀ q, q ≠ c :: p → L' q = L q := by
  refine ⟨L.set (c :: p) .absent, ?_, ?_, ?_⟩
  · simp [hDeleteWhiteout, h, hUnlink]
  · simp [Layer.set]
  · intro q hq; simp [Layer.set, hq]

/-! non-vacuity: the F6 history on a concrete disk (lower: `a/` with `a/b`; empty upper):
    `unlink a/b; rmdir a; mkdir a` leaves an OPAQUE `a` in the upper layer and nothing shows
    through, live and on disk. -/
section Examples

def f6Upper : Layer := fun q => if q = [] then .dir 0o755 0 0 else .absent
def f6Lower : Layer := fun q =>
  if q = [] then .dir 0o755 0 0 else if q = [0] then .dir 0o755 0 0
  else if q = [1, 0] then .file 1 0o644 [7] 0 else .absent
def f6Disk : Disk := { upper := some f6Upper, lowers := [f6Lower] }
def f6Ops : List Op := [.unlink [0, 1], .rmdir [0], .mkdir [0] 0o700]

example : merge f6Disk [1, 0] = .file 0o644 [7] 0 := by decide
example : (run (importFs f6Disk) f6Ops).disk.nodeAt 0 [0] = .dir 0o700 1 0 := by decide
example : merge (run (importFs f6Disk) f6Ops).disk [1, 0] = .none := by decide
example : liveView (run (importFs f6Disk) f6Ops) [0, 1] = .none := by decide
example : liveView (run (importFs f6Disk) f6Ops) [0] = .dir 0o700 0 := by decide

/-! link (both copy-ups) and rmdir with upper whiteouts to clear, on the same disk: `link a/b c`
    copies `a/b` up (creating the upper `a`), then a write through the new name is seen through
    the old one; `unlink a/b; unlink c; rmdir a` goes through the window in which the cache is
    invalid (the upper whiteout `a/b` is deleted before `a` is removed) and ends with `a` gone,
    live and on disk. -/
def lnOps : List Op := [.link [0, 1] [2], .write [2] .w 0 [9]]
def rmOps : List Op := [.link [0, 1] [2], .unlink [0, 1], .unlink [2], .rmdir [0]]

example : liveView (run (importFs f6Disk) lnOps) [2] = .file 0o644 [9] 0 := by decide
example : liveView (run (importFs f6Disk) lnOps) [0, 1] = .file 0o644 [9] 0 := by decide
example : merge (run (importFs f6Disk) lnOps).disk [1, 0] = .file 0o644 [9] 0 := by decide
example : (run (importFs f6Disk) rmOps).disk.nodeAt 0 [0] = .whiteout := by decide
example : liveView (run (importFs f6Disk) rmOps) [0] = .none := by decide
example : merge (run (importFs f6Disk) rmOps).disk [1, 0] = .none := by decide
example : liveView (importFs (run (importFs f6Disk) rmOps).disk) [0, 1] = .none := by decide

end Examples

end Fbr.Thm.C11
