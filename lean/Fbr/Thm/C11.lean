/-
  C11 — overlay disk state matches the live view across restart; copy-up preserves files.
  PROPERTY THEOREMS ONLY (helper lemmas: Fbr/Lemmas/Ovl*.lean).  Model: Fbr/Ovl.lean.
-/
import Fbr.Ovl
import Fbr.Lemmas.OvlMerge

namespace Fbr.Thm.C11
open Fbr.Ovl

/-- `set_opaque` on a directory makes it opaque on disk and keeps mode and xattr. -/
theorem set_opaque_sets (L : Layer) (p : Path) (m o x : Nat) (h : L p = .dir m o x) :
    ∃ L', hSetOpaque L p = .ok L' ∧ L' p = .dir m 1 x := by
  refine ⟨L.set p (.dir m 1 x), ?_, ?_⟩
  · simp [hSetOpaque, h]
  · simp [Layer.set]

end Fbr.Thm.C11
