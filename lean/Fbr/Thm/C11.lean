/-
  C11 — overlay disk state matches the live view across restart; copy-up preserves files.
  PROPERTY THEOREMS ONLY (helper lemmas: Fbr/Lemmas/Ovl*.lean).  Model: Fbr/Ovl.lean.
-/
import Fbr.Ovl
import Fbr.Lemmas.OvlMerge
import Fbr.Lemmas.OvlHoare
import Fbr.Lemmas.OvlInv
import Fbr.Lemmas.OvlSimLookup
import Fbr.Lemmas.OvlSimRO
import Fbr.Lemmas.OvlOps
import Fbr.Lemmas.OvlAll

namespace Fbr.Thm.C11
open Fbr.Ovl

/-- `set_opaque` on a directory makes it opaque on disk and keeps mode and xattr. -/
theorem set_opaque_sets (L : Layer) (p : Path) (m o x : Nat) (h : L p = .dir m o x) :
    ∃ L', hSetOpaque L p = .ok L' ∧ L' p = .dir m 1 x := by
  refine ⟨L.set p (.dir m 1 x), ?_, ?_⟩
  · simp [hSetOpaque, h]
  · simp [Layer.set]

/-! ## restart

  `importFs s.disk` is a second `OverlayFs` started over the directories as the history left
  them.  -/

/-- After ANY history of operations (modifying or not, successful or failed) a freshly started
    overlay over the same directories shows exactly the overlayfs union of what is on disk then
    — at every path.  (The layers stay well-formed along every history: `run_wf`.) -/
theorem restart_view_is_merge (d : Disk) (hr : d.RootsOK) (ht : d.TreesOK) (ops : List Op) (p : List Name) :
    liveView (importFs (run (importFs d) ops).disk) p = merge (run (importFs d) ops).disk p.reverse := by
  have hwf := run_wf d hr ht ops
  have h := import_consistent _ hwf.1 hwf.2
  rw [consistent_view_is_merge _ h.1, h.2]

/-- Restart equals live whenever the live forest is a valid cache of the disk. -/
theorem restart_view_eq_live_of_consistent (s : St) (hc : Consistent s) (p : List Name) :
    liveView (importFs s.disk) p = liveView s p := by
  have h := import_consistent s.disk hc.roots hc.trees
  rw [consistent_view_is_merge _ h.1, h.2, consistent_view_is_merge s hc]

/-- `restart_view_eq_live`, PARTIAL: after any history of covered operations (`Op.covered`: all
    non-modifying ones, and open-for-writing / write / chmod / truncate / setxattr / removexattr
    with their copy-ups) a freshly started overlay over the same directories shows, at every
    path, exactly what the running instance shows.  Missing: histories containing create, mkdir,
    mknod, symlink, link, unlink, rmdir (see `C10.view_is_merge_partial`); the restart side is
    fully proved for those too (`restart_view_is_merge`). -/
theorem restart_view_eq_live_partial (d : Disk) (hr : d.RootsOK) (ht : d.TreesOK) (ops : List Op)
    (hops : ∀ op ∈ ops, op.covered = true) (p : List Name) :
    liveView (importFs (run (importFs d) ops).disk) p = liveView (run (importFs d) ops) p := by
  have h0 := import_consistent d hr ht
  exact restart_view_eq_live_of_consistent _ (run_cons ops hops _ h0.1) p

/-- Copy-up keeps the cache valid: after `copy_node_up(p)` (a file, symlink, special file or
    directory with any chain of missing parent directories) the forest is still exactly what a
    restart would compute, and on success the node is backed by the upper layer. -/
theorem copy_up_keeps_cache (s : St) (hc : Consistent s) (p : Path) :
    (∀ s', copyNodeUp p s = .ok () s' → Consistent s' ∧ UpAt p s') ∧
    (∀ e s', copyNodeUp p s = .err e s' → Consistent s') := by
  have := copyNodeUp_cons p s hc
  exact ⟨fun s' h => this.1 () s' h, fun e s' h => this.2 e s' h⟩

end Fbr.Thm.C11
