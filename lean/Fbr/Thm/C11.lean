/-
  C11 — overlay disk state matches the live view across restart; copy-up preserves files.
  PROPERTY THEOREMS ONLY (helper lemmas: Fbr/Lemmas/Ovl*.lean).  Model: Fbr/Ovl.lean.
-/
import Fbr.Ovl
import Fbr.Lemmas.OvlMerge
import Fbr.Lemmas.OvlHoare
import Fbr.Lemmas.OvlInv
import Fbr.Lemmas.OvlSimLookup
import Fbr.Lemmas.OvlSimRO

namespace Fbr.Thm.C11
open Fbr.Ovl

/-- `set_opaque` on a directory makes it opaque on disk and keeps mode and xattr. -/
theorem set_opaque_sets (L : Layer) (p : Path) (m o x : Nat) (h : L p = .dir m o x) :
    ∃ L', hSetOpaque L p = .ok L' ∧ L' p = .dir m 1 x := by
  refine ⟨L.set p (.dir m 1 x), ?_, ?_⟩
  · simp [hSetOpaque, h]
  · simp [Layer.set]

/-! ## restart

  `importFs s.disk` is a second `OverlayFs` started over the directories as the history left
  them.  -/

/-- After ANY history of operations (modifying or not, successful or failed) a freshly started
    overlay over the same directories shows exactly the overlayfs union of what is on disk then
    — at every path.  (The layer roots stay directories along every history: `run_rootsOK`.) -/
theorem restart_view_is_merge (d : Disk) (hr : d.RootsOK) (ops : List Op) (p : List Name) :
    liveView (importFs (run (importFs d) ops).disk) p = merge (run (importFs d) ops).disk p.reverse := by
  have hroots := run_rootsOK d hr ops
  have h := import_consistent _ hroots
  rw [consistent_view_is_merge _ h.1, h.2]

/-- Restart equals live whenever the live forest is a valid cache of the disk. -/
theorem restart_view_eq_live_of_consistent (s : St) (hc : Consistent s) (p : List Name) :
    liveView (importFs s.disk) p = liveView s p := by
  have h := import_consistent s.disk hc.roots
  rw [consistent_view_is_merge _ h.1, h.2, consistent_view_is_merge s hc]

/-- `restart_view_eq_live`, PARTIAL: proved for histories of non-modifying operations (which do
    change the in-memory forest by loading directories).  For histories with modifying operations
    the missing link is the preservation of `Consistent` (see `C10.view_is_merge_partial`); the
    restart side is fully proved (`restart_view_is_merge`). -/
theorem restart_view_eq_live_partial (d : Disk) (hr : d.RootsOK) (ops : List Op)
    (hops : ∀ op ∈ ops, op.isModifying = false) (p : List Name) :
    liveView (importFs (run (importFs d) ops).disk) p = liveView (run (importFs d) ops) p := by
  have h0 := import_consistent d hr
  have h := run_ro_cd d ops hops _ ⟨h0.1, h0.2⟩
  exact restart_view_eq_live_of_consistent _ h.1 p

end Fbr.Thm.C11
