/-
  C17 — Guest memory written by the server is always marked dirty.

  PROPERTY THEOREMS ONLY (helper lemmas: `Fbr.Lemmas.Xport*`).  Model: `Fbr.Xport` (IoBuffers,
  VirtioFsWriter, Reader, the AtomicBitmap page arithmetic) and the handle table `Fbr.XportSys`.

  Vocabulary: `w.log` is the list of raw memory accesses the model performed (every
  `copy_nonoverlapping` and every buffer range a scripted file filled), `wrAddrs w.log` the
  byte addresses `(region, index)` it *wrote*, `w.dirty` the pages `(region, page index)` set in
  the bitmap, `pageOf p a` the page containing address `a` for bitmap page size `p`.

  `Start st` (Fbr.Lemmas.XportStart) = a virtio-fs request before the server touched it: empty
  access and dirty logs, no fusedev writer, page size > 0, counters that cannot overflow usize;
  `writable st` = the byte addresses of the writers' buffers; `exec st ops` = the handle table
  after an arbitrary operation list; `ahead ws` = the addresses still in front of the writers.

  All statements are for ANY bitmap page size `p > 0`, ANY descriptor-chain layout (any list of
  `(region, off, len)` buffers, zero-length ones included, any alignment), ANY operation list
  (reads, object reads, file transfers with scripted short counts / errors / EINTR through files
  that do or do not override the vectored methods, splits of readers and writers, writes,
  vectored writes, write_from(_at), write_all_from, commit), by induction over the list.
-/
import Fbr.Lemmas.XportStart
import Fbr.Lemmas.XportCThm
import Fbr.Lemmas.SrvDirty

namespace Fbr.Thm.C17
open Fbr.Xport

/-- **dirty ⊇ written**: whatever the server did, every byte address it wrote lies in a page that
    is marked dirty. -/
theorem dirty_superset (st : St) (ops : List Op) (h : Start st) :
    ∀ a ∈ wrAddrs (exec st ops).w.log, pageOf (exec st ops).w.p a ∈ (exec st ops).w.dirty :=
  (exec_inv ops (start_inv h)).w.dirty_sup

/-- **dirty ⊆ written**: every page marked dirty contains a byte address the server wrote. -/
theorem dirty_subset (st : St) (ops : List Op) (h : Start st) :
    ∀ x ∈ (exec st ops).w.dirty, ∃ a ∈ wrAddrs (exec st ops).w.log, pageOf (exec st ops).w.p a = x :=
  (exec_inv ops (start_inv h)).w.dirty_sub

/-- **Every modified byte is in a dirty page** (the property on memory CONTENT, what the
    `C17:missed-dirty` oracle checks by diffing guest memory): after ANY operation list, a byte of
    guest memory that differs from its value before the request lies in a page marked dirty — at
    any address, in any region; and no region changed its size.  (`dirty_superset` speaks about
    write accesses; this adds that nothing else ever changes memory.) -/
theorem modified_bytes_are_dirty (st : St) (ops : List Op) (h : Start st)
    (hr : ∀ b ∈ st.readers, WF st.w.mem b.segs) (hw : ∀ b ∈ st.writers, WF st.w.mem b.segs) :
    (∀ a : Addr, (exec st ops).w.mem.byteAt a ≠ st.w.mem.byteAt a → pageOf (exec st ops).w.p a ∈ (exec st ops).w.dirty)
    ∧ (∀ x, ((exec st ops).w.mem.get x).length = (st.w.mem.get x).length) := by
  refine ⟨?_, (exec_cinv ops (start_cinv h hr hw)).len⟩
  intro a hne
  by_cases hm : a ∈ wrAddrs (exec st ops).w.log
  · exact dirty_superset st ops h a hm
  · exact absurd (exec_frame_log ops (start_cinv h hr hw) (fun _ _ => rfl) a hm) hne

/-- Request (readable) descriptors stay clean unless they share a page with reply space: every
    dirty page contains an address of a *writable* descriptor, one that the server wrote. -/
theorem dirty_only_in_reply_space (st : St) (ops : List Op) (h : Start st) :
    ∀ x ∈ (exec st ops).w.dirty, ∃ a ∈ writable st, a ∈ wrAddrs (exec st ops).w.log ∧ pageOf (exec st ops).w.p a = x := by
  intro x hx
  have hi := exec_inv ops (start_inv h)
  obtain ⟨a, ha, e⟩ := hi.w.dirty_sub x hx
  exact ⟨a, hi.w.wr_in a ha, ha, e⟩

/-- **Unused reply space stays clean** (up to page sharing): when the writable buffers do not
    overlap, every dirty page is justified by an address that was written and is no longer ahead
    of any writer — space a writer has not consumed never causes a mark. -/
theorem unused_reply_space_stays_clean (st : St) (ops : List Op) (h : Start st) (hnd : (writable st).Nodup) :
    ∀ x ∈ (exec st ops).w.dirty, ∃ a ∈ wrAddrs (exec st ops).w.log,
      a ∉ ahead (exec st ops).writers ∧ pageOf (exec st ops).w.p a = x := by
  intro x hx
  obtain ⟨a, ha, e⟩ := dirty_subset st ops h x hx
  have hperm := (exec_once ops (start_inv h) (start_once h)).2
  have hnd' := (hperm.nodup_iff).mpr hnd
  exact ⟨a, ha, fun hah => (List.nodup_append.mp hnd').2.2 a ha a hah rfl, e⟩

/-- Reader operations (any of them, any number) never mark anything. -/
theorem reads_mark_nothing (st : St) (ops : List Op) (h : Start st) (hw : st.writers = []) :
    (exec st ops).w.dirty = [] := by
  have hi := exec_inv ops (start_inv h)
  have hW : writable st = [] := by simp [writable, hw]
  cases hd : (exec st ops).w.dirty with
  | nil => rfl
  | cons x rest =>
    obtain ⟨a, ha, _⟩ := hi.w.dirty_sub x (by rw [hd]; exact List.mem_cons_self)
    have := hi.w.wr_in a ha
    rw [hW] at this
    cases this

/-- One `write`: it writes the next `k` addresses of the writer's flat address list (`k` = the
    count it returns, 0 on failure) and afterwards the dirty set is the old one plus exactly the
    pages of those `k` addresses. -/
theorem write_marks_exactly_what_it_wrote (b : IoBufs) (w : World) (data : Bytes) (hp : 0 < w.p)
    (hov : b.consumed + total b.segs < USIZE) :
    ∃ k, (∀ j, (VirtioW.write b w data).res = .ok j → j = k)
      ∧ wrAddrs (VirtioW.write b w data).w.log = wrAddrs w.log ++ (addrs b.segs).take k
      ∧ ∀ x, x ∈ (VirtioW.write b w data).w.dirty ↔ x ∈ w.dirty ∨ ∃ a ∈ (addrs b.segs).take k, pageOf w.p a = x := by
  obtain ⟨k, _, h, hok, _⟩ := vwrite_advBy b w data hp hov
  obtain ⟨_, _, _, h4, _, h6, _, _⟩ := h
  refine ⟨k, hok, by simpa [sel] using h4, ?_⟩
  intro x; rw [h6]; simp

/-- `write_from` / `write_from_at` with any scripted file (short count, error, EINTR; overriding
    the vectored methods or relying on the trait defaults): exactly the pages of the `k` bytes the
    file delivered are marked — not the `count` bytes that were offered. -/
theorem write_from_marks_only_delivered_bytes (b : IoBufs) (w : World) (src : Script) (count : Nat)
    (at_ : Option Nat) (hp : 0 < w.p) (hov : b.consumed + total b.segs < USIZE) :
    ∃ k, k ≤ count ∧ (∀ j, (VirtioW.writeFrom b w src count at_).res = .ok j → j = k)
      ∧ wrAddrs (VirtioW.writeFrom b w src count at_).w.log = wrAddrs w.log ++ (addrs b.segs).take k
      ∧ ∀ x, x ∈ (VirtioW.writeFrom b w src count at_).w.dirty ↔ x ∈ w.dirty ∨ ∃ a ∈ (addrs b.segs).take k, pageOf w.p a = x := by
  unfold VirtioW.writeFrom
  split
  · exact ⟨0, Nat.zero_le _, (by intro j hj; cases hj), by simp, by intro x; simp⟩
  · obtain ⟨k, hk, h, hok, _⟩ := consume_adv b w true true count src (fun w bufs => src.readVectored w bufs at_)
      (fun _ => hp) (fun _ => rfl) hov (readVectored_fok src w _ at_)
    obtain ⟨_, _, _, h4, _, h6, _, _⟩ := h
    refine ⟨k, hk, hok, by simpa [sel] using h4, ?_⟩
    intro x; rw [h6]; simp

/-- The bitmap arithmetic itself (`AtomicBitmap::set_addr_range` behind `BaseSlice`): the pages set
    for a range are exactly the pages containing one of its bytes — none for an empty range. -/
theorem pages_of_range_exact (p : Nat) (hp : 0 < p) (s : Seg) (x : Nat × Nat) :
    x ∈ pagesOf p s ↔ ∃ a ∈ segAddrs s, pageOf p a = x :=
  mem_pagesOf hp

/-! ### whole requests (srv stage) -/

/-- **What the srv stage expects the bitmap to hold after a whole request** — the real
    `Server::handle_message` on a virtio-fs chain over `GuestMemoryMmap<AtomicBitmap>` is compared
    with `Fbr.SrvShow.dirtyPages` — is exactly the set of 4 KiB pages that contain one of the
    first `n` byte addresses of the writable descriptors in chain order, where `n` is the length
    of the reply the server model stores (`(Srv.handle cfg fs req).out.area.length`); for any
    descriptor list (zero-length descriptors, any alignment) and any `n`. -/
theorem server_reply_dirty_pages_exact (segs : List (Nat × Nat)) (cfg : Fbr.Srv.Cfg)
    (fs : Fbr.Srv.Call → Fbr.Srv.Ans) (req : Fbr.Wire.Bytes) (x : Nat) :
    x ∈ Fbr.SrvShow.dirtyPages segs (Fbr.Srv.handle cfg fs req).out.area.length ↔
      ∃ a ∈ (Fbr.SrvShow.areaAddrs segs).take (Fbr.Srv.handle cfg fs req).out.area.length, a / 4096 = x :=
  Fbr.SrvShow.mem_dirtyPages _ _ _

/-- a request that stores no reply bytes leaves every page clean -/
theorem server_no_reply_nothing_dirty (segs : List (Nat × Nat)) : Fbr.SrvShow.dirtyPages segs 0 = [] := by
  have h : ∀ x, x ∉ Fbr.SrvShow.dirtyPages segs 0 := by
    intro x hx
    have := (Fbr.SrvShow.mem_dirtyPages segs 0 x).mp hx
    simp at this
  exact List.eq_nil_iff_forall_not_mem.mpr h

example : 4 ∈ Fbr.SrvShow.dirtyPages [(4090, 10), (0, 0), (20000, 100)] 12 ∧
    5 ∉ Fbr.SrvShow.dirtyPages [(4090, 10), (0, 0), (20000, 100)] 12 := by
  constructor
  · exact (Fbr.SrvShow.mem_dirtyPages _ _ _).mpr ⟨20000, by decide, by decide⟩
  · intro h
    obtain ⟨a, ha, e⟩ := (Fbr.SrvShow.mem_dirtyPages _ _ _).mp h
    revert a; decide

/-! ### non-vacuity -/

example : Start exampleStart := by
  refine ⟨rfl, rfl, rfl, by decide, ?_, ?_⟩ <;> decide

/-- `unused_reply_space_stays_clean`: its writable buffers do not overlap -/
example : (writable exampleStart).Nodup := by decide +kernel

/-- and the theorems say something there: a split writer, a short `write_from`, a header write -/
example :
    let st := exec exampleStart [.ws 0 16, .wf 1 100 none ⟨.full, [.n 70], 3, 0, [], []⟩, .wr 0 (patBytes 1 0 16)]
    st.w.dirty.eraseDups = [(2, 1), (2, 2), (1, 0), (1, 1)] := by
  decide +kernel

end Fbr.Thm.C17
