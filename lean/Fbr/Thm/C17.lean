/-
  C17 — Guest memory written by the server is always marked dirty.

  PROPERTY THEOREMS ONLY (helper lemmas: `Fbr.Lemmas.Xport*`).  Model: `Fbr.Xport` (IoBuffers,
  VirtioFsWriter, Reader, the AtomicBitmap page arithmetic) and the handle table `Fbr.XportSys`.

  Vocabulary: `w.log` is the list of raw memory accesses the model performed (every
  `copy_nonoverlapping` and every buffer range a scripted file filled), `wrAddrs w.log` the
  byte addresses `(region, index)` it *wrote*, `w.dirty` the pages `(region, page index)` set in
  the bitmap, `pageOf p a` the page containing address `a` for bitmap page size `p`.

  All statements are for ANY bitmap page size `p > 0`, ANY descriptor-chain layout (any list of
  `(region, off, len)` buffers, zero-length ones included, any alignment), ANY operation list
  (reads, object reads, file transfers with scripted short counts / errors / EINTR through files
  that do or do not override the vectored methods, splits of readers and writers, writes,
  vectored writes, write_from(_at), write_all_from, commit), by induction over the list.
-/
import Fbr.Lemmas.XportSys

namespace Fbr.Thm.C17
open Fbr.Xport

/-- a virtio-fs request before the server touched it: nothing logged, nothing dirty, no fusedev
    writer, a positive page size, counters that cannot overflow `usize` (what
    `from_descriptor_chain` / `VirtioFsWriter::new` guarantee by their `checked_add`) -/
def Start (st : St) : Prop :=
  st.w.log = [] ∧ st.w.dirty = [] ∧ st.fws = [] ∧ 0 < st.w.p
    ∧ (∀ b ∈ st.readers, b.consumed + total b.segs < USIZE)
    ∧ (∀ b ∈ st.writers, b.consumed + total b.segs < USIZE)

/-- all addresses the readers (resp. writers) of a state may still touch -/
def readable (st : St) : List Addr := st.readers.flatMap fun b => addrs b.segs
def writable (st : St) : List Addr := st.writers.flatMap fun b => addrs b.segs

theorem start_inv {st : St} (h : Start st) :
    Inv (readable st) (writable st) (sizes st.readers) (sizes st.writers) st := by
  obtain ⟨hl, hd, hf, hp, hr, hw⟩ := h
  refine ⟨⟨hp, by simp [hl, rdAddrs], by simp [hl, wrAddrs], by simp [hl, wrAddrs], by simp [hd]⟩, ?_, ?_, rfl, rfl, hf⟩
  · intro b hb
    exact ⟨fun a ha => List.mem_flatMap.mpr ⟨b, hb, ha⟩, hr b hb⟩
  · intro b hb
    exact ⟨fun a ha => List.mem_flatMap.mpr ⟨b, hb, ha⟩, hw b hb⟩

/-- **dirty ⊇ written**: whatever the server did, every byte address it wrote lies in a page that
    is marked dirty. -/
theorem dirty_superset (st : St) (ops : List Op) (h : Start st) :
    ∀ a ∈ wrAddrs (exec st ops).w.log, pageOf (exec st ops).w.p a ∈ (exec st ops).w.dirty :=
  (exec_inv ops (start_inv h)).w.dirty_sup

/-- **dirty ⊆ written**: every page marked dirty contains a byte address the server wrote. -/
theorem dirty_subset (st : St) (ops : List Op) (h : Start st) :
    ∀ x ∈ (exec st ops).w.dirty, ∃ a ∈ wrAddrs (exec st ops).w.log, pageOf (exec st ops).w.p a = x :=
  (exec_inv ops (start_inv h)).w.dirty_sub

/-- Request (readable) descriptors stay clean unless they share a page with reply space: every
    dirty page contains an address of a *writable* descriptor, one that the server wrote. -/
theorem dirty_only_in_reply_space (st : St) (ops : List Op) (h : Start st) :
    ∀ x ∈ (exec st ops).w.dirty, ∃ a ∈ writable st, a ∈ wrAddrs (exec st ops).w.log ∧ pageOf (exec st ops).w.p a = x := by
  intro x hx
  have hi := exec_inv ops (start_inv h)
  obtain ⟨a, ha, e⟩ := hi.w.dirty_sub x hx
  exact ⟨a, hi.w.wr_in a ha, ha, e⟩

/-- Reader operations (any of them, any number) never mark anything. -/
theorem reads_mark_nothing (st : St) (ops : List Op) (h : Start st) (hw : st.writers = []) :
    (exec st ops).w.dirty = [] := by
  have hi := exec_inv ops (start_inv h)
  have hW : writable st = [] := by simp [writable, hw]
  cases hd : (exec st ops).w.dirty with
  | nil => rfl
  | cons x rest =>
    obtain ⟨a, ha, _⟩ := hi.w.dirty_sub x (by rw [hd]; exact List.mem_cons_self)
    have := hi.w.wr_in a ha
    rw [hW] at this
    cases this

/-- One `write`: it writes the next `k` addresses of the writer's flat address list (`k` = the
    count it returns, 0 on failure) and afterwards the dirty set is the old one plus exactly the
    pages of those `k` addresses. -/
theorem write_marks_exactly_what_it_wrote (b : IoBufs) (w : World) (data : Bytes) (hp : 0 < w.p)
    (hov : b.consumed + total b.segs < USIZE) :
    ∃ k, (∀ j, (VirtioW.write b w data).res = .ok j → j = k)
      ∧ wrAddrs (VirtioW.write b w data).w.log = wrAddrs w.log ++ (addrs b.segs).take k
      ∧ ∀ x, x ∈ (VirtioW.write b w data).w.dirty ↔ x ∈ w.dirty ∨ ∃ a ∈ (addrs b.segs).take k, pageOf w.p a = x := by
  obtain ⟨k, _, h, hok, _⟩ := vwrite_advBy b w data hp hov
  obtain ⟨_, _, _, h4, _, h6, _, _⟩ := h
  refine ⟨k, hok, by simpa [sel] using h4, ?_⟩
  intro x; rw [h6]; simp

/-- `write_from` / `write_from_at` with any scripted file (short count, error, EINTR; overriding
    the vectored methods or relying on the trait defaults): exactly the pages of the `k` bytes the
    file delivered are marked — not the `count` bytes that were offered. -/
theorem write_from_marks_only_delivered_bytes (b : IoBufs) (w : World) (src : Script) (count : Nat)
    (at_ : Option Nat) (hp : 0 < w.p) (hov : b.consumed + total b.segs < USIZE) :
    ∃ k, k ≤ count ∧ (∀ j, (VirtioW.writeFrom b w src count at_).res = .ok j → j = k)
      ∧ wrAddrs (VirtioW.writeFrom b w src count at_).w.log = wrAddrs w.log ++ (addrs b.segs).take k
      ∧ ∀ x, x ∈ (VirtioW.writeFrom b w src count at_).w.dirty ↔ x ∈ w.dirty ∨ ∃ a ∈ (addrs b.segs).take k, pageOf w.p a = x := by
  unfold VirtioW.writeFrom
  split
  · exact ⟨0, Nat.zero_le _, (by intro j hj; cases hj), by simp, by intro x; simp⟩
  · obtain ⟨k, hk, h, hok, _⟩ := consume_adv b w true true count src (fun w bufs => src.readVectored w bufs at_)
      (fun _ => hp) (fun _ => rfl) hov (readVectored_fok src w _ at_)
    obtain ⟨_, _, _, h4, _, h6, _, _⟩ := h
    refine ⟨k, hk, hok, by simpa [sel] using h4, ?_⟩
    intro x; rw [h6]; simp

/-- The bitmap arithmetic itself (`AtomicBitmap::set_addr_range` behind `BaseSlice`): the pages set
    for a range are exactly the pages containing one of its bytes — none for an empty range. -/
theorem pages_of_range_exact (p : Nat) (hp : 0 < p) (s : Seg) (x : Nat × Nat) :
    x ∈ pagesOf p s ↔ ∃ a ∈ segAddrs s, pageOf p a = x :=
  mem_pagesOf hp

/-! ### non-vacuity -/

/-- a chain with a zero-length buffer, buffers straddling page borders of page size 64, two
    regions; one reader, one writer -/
def exampleStart : St :=
  { w := { p := 64, mem := ⟨[(1, List.replicate 300 0), (2, List.replicate 300 0)]⟩, dirty := [], log := [], fd := [] },
    readers := [{ segs := [⟨1, 10, 8⟩, ⟨1, 20, 0⟩], consumed := 0 }],
    writers := [{ segs := [⟨1, 60, 10⟩, ⟨2, 0, 0⟩, ⟨2, 100, 130⟩], consumed := 0 }],
    fws := [] }

example : Start exampleStart := by
  refine ⟨rfl, rfl, rfl, by decide, ?_, ?_⟩ <;> decide

/-- and the theorems say something there: a split writer, a short `write_from`, a header write -/
example :
    let st := exec exampleStart [.ws 0 16, .wf 1 100 none ⟨.full, [.n 70], 3, 0, [], []⟩, .wr 0 (patBytes 1 0 16)]
    st.w.dirty.eraseDups = [(2, 1), (2, 2), (1, 0), (1, 1)] := by
  decide +kernel

end Fbr.Thm.C17
