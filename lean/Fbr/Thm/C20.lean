/-
  C20 — The asynchronous request path behaves exactly like the synchronous one.

  PROPERTY THEOREMS ONLY (helpers: `Fbr.Lemmas.SrvAsyncEq`).  Models: `Fbr.SrvAsync.handle`
  (async_io.rs) and `Fbr.Srv.handle` (sync_io.rs) over the same file system function; both are
  tied to the real code by the `srv` correspondence run in async mode, whose direct oracle also
  runs BOTH real request paths on every generated request and compares calls, reply bytes and
  return value.

  Full statement of the property:  ∀ cfg fs req, forget (SrvAsync.handle cfg fs req) = Srv.handle cfg fs req.
  It is FALSE of the code for one family of inputs, recorded as a known finding
  (`C20:write:size-over-1MiB`): `async_write` refuses a WRITE whose `size` field exceeds 1 MiB
  before calling the file system, the synchronous handler passes it on
  (`write_oversize_counterexample`).  `async_eq_sync_partial` proves the statement for every
  other request.  The second hypothesis is not a restriction of the server: the
  `AsyncFileSystem` trait has no way to return a passthrough id from `open`/`create`, so a file
  system that answers both traits consistently never returns one (`NoPassthrough`).
-/
import Fbr.Lemmas.SrvAsyncEq
import Fbr.SrvSpec
import Fbr.Gen.Server

namespace Fbr.Thm.C20
open Fbr.Srv Fbr.SrvAsync Fbr.Wire

/-- Today's async dispatch arms and async handlers are the ones `Fbr.SrvAsync` was written from. -/
theorem async_dispatch_as_modelled :
    Gen.srvAsyncDispatch = SrvSpec.expectedAsyncDispatch ∧ Gen.srvAsyncFns = SrvSpec.expectedAsyncFns :=
  ⟨rfl, rfl⟩

/-- the file system never returns a passthrough id (the async trait cannot carry one) -/
def NoPassthrough (fs : Call → Ans) : Prop :=
  (∀ c fh o pt, fs c = .opened fh o pt → pt = none) ∧ (∀ c e fh o pt, fs c = .created e fh o pt → pt = none)

/-- the `size` field of a WRITE request -/
def writeSize (req : Bytes) : Nat := u32At ((req.drop IN_HDR).take 40) 16

theorem handleBody_unknown (cfg : Cfg) (fs : Call → Ans) (ctx : Ctx) (calls0 : List Call)
    (hdrLen op u nodeid : Nat) (r : Bytes) (h1 : asyncOps.contains op = false) (h2 : syncRouted op = false) :
    handleBody cfg fs ctx calls0 hdrLen op u nodeid r = errRes cfg u calls0 [] (.os ENOSYS) := by
  unfold handleBody
  split <;> first | rfl | (exfalso; revert h1 h2; decide)

theorem simple_open_eq (cfg : Cfg) (fs : Call → Ans) (u : Nat) (calls0 : List Call) (c : Call)
    (hpt : NoPassthrough fs) :
    simple cfg fs u calls0 c [] openBodyA =
      simple cfg fs u calls0 c [] (fun a => match a with
        | .opened fh opts pt => some (openOutBytes fh opts pt, [])
        | _ => none) := by
  unfold simple finish
  cases h : fs c <;> simp only [openBodyA]
  next fh o pt => rw [hpt.1 c fh o pt h]

theorem simple_create_eq (cfg : Cfg) (fs : Call → Ans) (u : Nat) (calls0 : List Call) (c : Call)
    (al : List Nat) (hpt : NoPassthrough fs) :
    simple cfg fs u calls0 c al createBodyA =
      simple cfg fs u calls0 c al (fun a => match a with
        | .created e fh opts pt => some (entryOutBytes (Conv.entryOutOfEntry e), openOutBytes fh opts pt)
        | _ => none) := by
  unfold simple finish
  cases h : fs c <;> simp only [createBodyA]
  next e fh o pt => rw [hpt.2 c e fh o pt h]

/-- per-opcode agreement of the ten async handlers with their synchronous twins -/
theorem handleBodyA_eq (cfg : Cfg) (fs : Call → Ans) (ctx : Ctx) (calls0 : List Call)
    (hdrLen op u nodeid : Nat) (r : Bytes) (hpt : NoPassthrough fs)
    (hw : ¬ (op = 16 ∧ u32At (r.take 40) 16 > MAX_BUFFER_SIZE)) :
    forget (handleBodyA cfg fs ctx calls0 hdrLen op u nodeid r) =
      handleBody cfg fs ctx calls0 hdrLen op u nodeid r := by
  unfold handleBodyA
  split
  · -- LOOKUP
    unfold handleBody
    exact forget_aNamed _ _ _ _ _ _ _ _ (fun nm al => forget_aLookupReply _ _ _ _ _)
  · unfold handleBody
    exact forget_aWithObj _ _ _ _ _ _ (fun b => forget_aSimple _ _ _ _ _ _ _)
  · unfold handleBody
    exact forget_aWithObj _ _ _ _ _ _ (fun b => forget_aSimple _ _ _ _ _ _ _)
  · -- OPEN
    unfold handleBody
    refine forget_aWithObj _ _ _ _ _ _ (fun b => ?_)
    rw [forget_aSimple]
    exact simple_open_eq _ _ _ _ _ hpt
  · -- READ
    unfold handleBody
    refine forget_aWithObj _ _ _ _ _ _ (fun b => ?_)
    dsimp only
    split
    · rfl
    · exact forget_aReadReply _ _ _ _
  · -- WRITE
    unfold handleBody
    unfold aWithObj withObj
    split
    · rfl
    · have hsz : ¬ u32At (r.take 40) 16 > MAX_BUFFER_SIZE := fun h => hw ⟨rfl, h⟩
      simp only [hsz, if_false]
      exact forget_aSimple _ _ _ _ _ _ _
  · unfold handleBody
    exact forget_aWithObj _ _ _ _ _ _ (fun b => forget_aSimple _ _ _ _ _ _ _)
  · unfold handleBody
    exact forget_aWithObj _ _ _ _ _ _ (fun b => forget_aSimple _ _ _ _ _ _ _)
  · -- CREATE
    unfold handleBody
    refine forget_aWithObj _ _ _ _ _ _ (fun b => ?_)
    refine forget_aNamed _ _ _ _ _ _ _ _ (fun nm al => ?_)
    rw [forget_aSimple]
    exact simple_create_eq _ _ _ _ _ _ hpt
  · unfold handleBody
    exact forget_aWithObj _ _ _ _ _ _ (fun b => forget_aSimple _ _ _ _ _ _ _)
  · exact forget_ofSync _

/-- **The asynchronous path observes exactly like the synchronous one** — same file-system
    calls with the same arguments, same reply bytes (or the same absence of a reply), same
    return value, same negotiated version — for every request byte string, transport and
    capacity, except WRITE requests whose size field exceeds 1 MiB (known finding). -/
theorem async_eq_sync_partial (cfg : Cfg) (fs : Call → Ans) (req : Bytes) (hpt : NoPassthrough fs)
    (hw : ¬ (opOf req = 16 ∧ writeSize req > MAX_BUFFER_SIZE)) :
    forget (SrvAsync.handle cfg fs req) = Srv.handle cfg fs req := by
  unfold SrvAsync.handle Srv.handle
  split
  · rfl
  · cases hr : fs (remapCall req) with
    | err e => rfl
    | _ =>
      all_goals (
        simp only
        unfold afterRemapA afterRemap
        split
        · split
          · rfl
          · exact forget_aErrRes _ _ _ _ _
        · split
          · exact handleBodyA_eq _ _ _ _ _ _ _ _ _ hpt hw
          · next hn =>
            have hb := Bool.or_eq_false_iff.mp (Bool.eq_false_iff.mpr hn)
            rw [handleBody_unknown _ _ _ _ _ _ _ _ _ hb.1 hb.2]
            exact forget_aErrRes _ _ _ _ _)

/-- the divergence that remains: a WRITE with `size = 2^20 + 1` reaches the file system on the
    synchronous path and is refused with ENOMEM on the asynchronous one -/
theorem write_oversize_counterexample :
    let hdr := le32 80 ++ le32 16 ++ le64 1 ++ le64 1 ++ le32 0 ++ le32 0 ++ le32 0 ++ le32 0
    let body := le64 0 ++ le64 0 ++ le32 (2 ^ 20 + 1) ++ le32 0 ++ le64 0 ++ le32 0 ++ le32 0
    let cfg : Cfg := { fusedev := true, cap := 4096 }
    let fs : Call → Ans := fun _ => .count 0
    (forget (SrvAsync.handle cfg fs (hdr ++ body))).calls.length = 1 ∧
    (Srv.handle cfg fs (hdr ++ body)).calls.length = 2 := by
  decide

/-- non-vacuity of the hypotheses -/
example : NoPassthrough (fun _ => Ans.opened (some 3) 0 none) :=
  ⟨by intro c fh o pt h; cases h; rfl, by intro c e fh o pt h; cases h⟩

end Fbr.Thm.C20
