/-
  C07 — The VFS routes every request to the one mount owning the inode, and only to it.

  PROPERTY THEOREMS ONLY (+ non-vacuity examples).  Model: `Fbr.Vfs` (`State`, `State.mount`,
  `State.umount`, `State.handle`, ...), histories: `Fbr.Persist.step` / `after`.
  Helper lemmas: `Fbr.Lemmas.VfsAlloc`, `Fbr.Lemmas.VfsInv`, `Fbr.Lemmas.VfsRoute`.
  Source-structure facts come from the generated table `Fbr.Gen.vfsSyncFns`.
-/
import Fbr.Vfs
import Fbr.Persist
import Fbr.Lemmas.VfsAlloc
import Fbr.Lemmas.VfsInv
import Fbr.Lemmas.VfsRoute
import Fbr.Gen.VfsSync
import Fbr.Gen.VfsMod
import Fbr.Gen.PseudoFs
import Fbr.Lemmas.VfsMap
import Fbr.Lemmas.VfsPseudo
import Fbr.Lemmas.VfsPersist
import Fbr.Lemmas.VfsNoPanic

namespace Fbr.Thm.C07
open Fbr.Vfs Fbr.Persist Fbr.Lemmas.VfsAlloc Fbr.Lemmas.VfsInv Fbr.Lemmas.VfsRoute
open Fbr.Lemmas.VfsMap Fbr.Lemmas.VfsPseudo Fbr.Lemmas.VfsPersist Fbr.Lemmas.VfsNoPanic

/-! ### the mount-table invariant holds after every history -/

/-- operations of a live VFS (save/restore histories are the subject of C19) -/
def Op.live : Op → Bool
  | .saveRestore _ => false
  | _ => true

/-- `Inv`: every mount point's slot holds exactly its backend, distinct mount points have
    distinct slots, every occupied slot belongs to a mount point, slot 0 is never used, slots are
    below 256, recorded root inodes fit 56 bits, `next_super` is a `u8`.  Every operation
    preserves it. -/
theorem inv_preserved (s : State) (op : Op) (hl : Op.live op = true) (h : Inv s) : Inv (step s op).1 := by
  cases op with
  | mount b path map => exact mount_inv h b path map
  | umount path => exact umount_inv h path
  | init opts => exact init_inv h opts
  | destroy => exact destroy_inv h
  | req r =>
    simp only [step]
    split <;> exact h
  | saveRestore m => simp [Op.live] at hl

/-- ... hence it holds after every history of mounts, over-mounts, umounts, init/destroy and
    requests, from every initial configuration (any number of mounts: index wrap-around included). -/
theorem inv_all_histories (opts : Opts) (rm : Bool) (ops : List Op) (hl : ∀ op ∈ ops, Op.live op = true) :
    Inv (after (State.new opts rm) ops) := by
  suffices h : ∀ (ops : List Op) (s : State), (∀ op ∈ ops, Op.live op = true) → Inv s → Inv (after s ops) from
    h ops _ hl (inv_new opts rm)
  intro ops
  induction ops with
  | nil => intro s _ h; exact h
  | cons op rest ih =>
    intro s hl h
    have h1 := inv_preserved s op (hl op (by simp)) h
    have hrest : ∀ o ∈ rest, Op.live o = true := fun o ho => hl o (by simp [ho])
    unfold after
    cases hst : step s op with
    | mk s' rc =>
      obtain ⟨r, c⟩ := rc
      rw [hst] at h1
      cases r <;> first | exact h | exact ih s' hrest h1

/-! ### index allocation -/

/-- `allocate_fs_idx` returns a vacant, non-zero slot below 256, or fails — and it fails exactly
    when all 255 usable slots are occupied; for every value of `next_super` (so also after it
    wrapped around), and it leaves the tables alone. -/
theorem allocate_idx_correct (s : State) (hn : s.nextSuper < 256) :
    (s.allocateFsIdx).1.nextSuper < 256 ∧
    (s.allocateFsIdx).1.supers = s.supers ∧ (s.allocateFsIdx).1.mnts = s.mnts ∧
    (∀ i, (s.allocateFsIdx).2 = some i → i ≠ 0 ∧ i < 256 ∧ s.supers i = none) ∧
    ((s.allocateFsIdx).2 = none ↔ ∀ i, 0 < i → i < 256 → (s.supers i).isSome = true) :=
  allocate_spec s hn

/-- fuel sufficiency: 257 iterations are enough — more fuel never changes the answer -/
theorem allocate_fuel_sufficient (supers : Nat → Option Bk) (start : Nat) (hs : start < 256) (extra : Nat) :
    allocLoop supers ALLOC_FUEL start start false = allocLoop supers (ALLOC_FUEL + extra) start start false := by
  have h := allocLoop_fuel supers start hs 256 0 ALLOC_FUEL (ALLOC_FUEL + extra) (by omega)
    (by unfold ALLOC_FUEL; omega) (by unfold ALLOC_FUEL; omega)
  simpa [Nat.mod_eq_of_lt hs] using h

/-- a successful mount returns an index that was vacant and is now held by this backend -/
theorem mount_takes_vacant_slot (s : State) (b : Bk) (path : Name) (map : Option Map) (idx : Nat)
    (hn : s.nextSuper < 256) (h : (s.mount b path map).2.1 = .mounted idx) :
    idx ≠ 0 ∧ idx < 256 ∧ s.supers idx = none ∧ (s.mount b path map).1.supers idx = some b := by
  have ha := allocate_spec s hn
  obtain ⟨_, ha2, _, ha4, _⟩ := ha
  unfold State.mount at h ⊢
  cases hme : b.mountErr with
  | some e => simp [hme] at h
  | none =>
    simp only [hme] at h ⊢
    by_cases hmax : b.maxIno > VFS_MAX_INO
    · simp [hmax] at h
    · simp only [hmax, if_false] at h ⊢
      by_cases hie : s.initialized = true ∧ b.ie ≠ 0
      · simp [hie] at h
      · simp only [hie, if_false] at h ⊢
        cases hal : s.allocateFsIdx with
        | mk s1 r =>
          rw [hal] at ha2 ha4
          simp only at ha2 ha4
          cases r with
          | none => simp [hal] at h
          | some i =>
            obtain ⟨hne, hlt, hvac⟩ := ha4 i rfl
            simp only [hal] at h ⊢
            generalize hins : State.insertMountLocked _ b i path = ins at h ⊢
            cases ins with
            | none => simp at h
            | some x =>
              obtain ⟨s3, er⟩ := x
              cases er with
              | error n => simp at h
              | ok u =>
                simp only [Res.mounted.injEq] at h
                subst h
                exact ⟨hne, hlt, hvac, insertMountLocked_ok_supers hins⟩

/-! ### routing -/

/-- whatever a request does, it calls at most one backend, at most once: the backend
    `get_real_rootfs` resolves the request inode to, under the operation's own name and with that
    backend's own inode number as first argument -/
theorem only_owner (s : State) (r : Req) (res : Res) (calls : List Call)
    (h : s.handle r = some (res, calls)) :
    calls = [] ∨ ∃ b idx i c, s.getRealRootfs r.ino = some (.ok (.backend b idx i)) ∧ calls = [c] ∧
      c.bk = b.id ∧ c.method = .req r.op ∧ c.args.head? = some (.n i) :=
  handle_shape s r res calls h

/-- `ino = idx·2^56 + i` with `supers idx = some b`: every call goes to `b` with inode `i` -/
theorem routes_to_owner (s : State) (r : Req) (b : Bk) (res : Res) (calls : List Call)
    (hidx : fsIdx r.ino ≠ 0) (hb : s.supers (fsIdx r.ino) = some b)
    (h : s.handle r = some (res, calls)) :
    calls = [] ∨ ∃ c, calls = [c] ∧ c.bk = b.id ∧ c.method = .req r.op ∧ c.args.head? = some (.n (lowIno r.ino)) := by
  rcases handle_shape s r res calls h with h0 | ⟨b', idx, i, c, hg, hc, h1, h2, h3⟩
  · exact Or.inl h0
  · rw [getRealRootfs_slot s r.ino hidx, hb] at hg
    simp only [Option.some.injEq, Except.ok.injEq, Target.backend.injEq] at hg
    obtain ⟨rfl, _, rfl⟩ := hg
    exact Or.inr ⟨c, hc, h1, h2, h3⟩

/-- ... and it is delivered exactly once when nothing refuses it before routing: the names are
    valid path components, OPEN/OPENDIR are not disabled, it is not a two-inode operation, and the
    configured id mappings do not overflow (`s.handle r ≠ none`) -/
theorem delivered_exactly_once (s : State) (r : Req) (b : Bk) (res : Res) (calls : List Call)
    (hidx : fsIdx r.ino ≠ 0) (hb : s.supers (fsIdx r.ino) = some b)
    (hname : nameCheck r = true) (hblk : s.blocked r = false)
    (hop : r.op ≠ .rename ∧ r.op ≠ .link)
    (h : s.handle r = some (res, calls)) :
    ∃ c, calls = [c] ∧ c.bk = b.id ∧ c.method = .req r.op ∧ c.args.head? = some (.n (lowIno r.ino)) := by
  rcases routes_to_owner s r b res calls hidx hb h with h0 | h1
  · exfalso
    subst h0
    unfold State.handle at h
    cases h' : s.handle' r with
    | none => simp [h'] at h
    | some x =>
      obtain ⟨res', calls'⟩ := x
      simp [h'] at h
      have hc : calls' = [] := h.2
      subst hc
      unfold State.handle' at h'
      rw [getRealRootfs_slot s r.ino hidx, hb] at h'
      have hsec : s.second r (.backend b (fsIdx r.ino) (lowIno r.ino)) = some (.ok none) := by
        unfold State.second
        simp [hop.1, hop.2]
      simp only [hname, hblk, hsec] at h'
      split at h'
      · cases h'
      · simp only [Bool.not_true, Bool.false_eq_true, if_false] at h'
        split at h'
        · cases h'
        · simp at h'
  · exact h1

/-- a request naming an inode whose mount slot is vacant fails (FORGET is dropped) and reaches
    no backend -/
theorem stale_inode_fails (s : State) (r : Req) (res : Res) (calls : List Call)
    (hidx : fsIdx r.ino ≠ 0) (hv : s.supers (fsIdx r.ino) = none)
    (h : s.handle r = some (res, calls)) :
    calls = [] ∧
    (res = .err EINVAL ∨ res = .err ENOSYS ∨ res = .err ENOENT ∨ (r.op = .forget ∧ res = .unit) ∨
      (r.op = .readdir ∧ ∃ e, res = .dirents (some e) []) ∨ (r.op = .readdirplus ∧ ∃ e, res = .plusents (some e) [])) := by
  unfold State.handle at h
  cases h' : s.handle' r with
  | none => simp [h'] at h
  | some x =>
    obtain ⟨res', calls'⟩ := x
    simp [h'] at h
    obtain ⟨hres, hcalls⟩ := h
    subst hres hcalls
    unfold State.handle' at h'
    rw [getRealRootfs_slot s r.ino hidx, hv] at h'
    split at h'
    · cases h'
    · split at h'
      · cases h'
        refine ⟨rfl, ?_⟩
        unfold dirErr
        cases r.op <;> simp
      · split at h'
        · cases h'
          refine ⟨rfl, ?_⟩
          unfold dirErr
          cases r.op <;> simp
        · simp only [Option.some.injEq, Prod.mk.injEq] at h'
          obtain ⟨h1, h2⟩ := h'
          subst h1 h2
          refine ⟨rfl, ?_⟩
          unfold dirErr
          cases r.op <;> simp

/-- RENAME / LINK whose two inodes resolve to different file systems (two mounts, or a mount and
    the pseudo fs) are refused with EINVAL before any backend is called -/
theorem cross_mount_rename_link_refused (s : State) (r : Req) (t1 t2 : Target) (res : Res) (calls : List Call)
    (hop : r.op = .rename ∨ r.op = .link)
    (h1 : s.getRealRootfs r.ino = some (.ok t1)) (h2 : s.getRealRootfs r.ino2 = some (.ok t2))
    (hdiff : t1.idx ≠ t2.idx) (hname : nameCheck r = true)
    (h : s.handle r = some (res, calls)) :
    res = .err EINVAL ∧ calls = [] := by
  unfold State.handle at h
  cases h' : s.handle' r with
  | none => simp [h'] at h
  | some x =>
    obtain ⟨res', calls'⟩ := x
    simp [h'] at h
    obtain ⟨hres, hcalls⟩ := h
    subst hres hcalls
    unfold State.handle' at h'
    have hblk : s.blocked r = false := by
      unfold State.blocked
      rcases hop with ho | ho <;> simp [ho]
    have hsec : s.second r t1 = some (.error EINVAL) := by
      unfold State.second
      simp [hop, h2, hdiff]
    rw [h1] at h'
    simp only [hname, hblk, hsec] at h'
    split at h'
    · cases h'
    · simp only [Bool.not_true, Bool.false_eq_true, if_false, Option.some.injEq, Prod.mk.injEq] at h'
      obtain ⟨h1, h2⟩ := h'
      subst h1 h2
      refine ⟨?_, rfl⟩
      unfold dirErr
      rcases hop with ho | ho <;> simp [ho]

/-! ### inode numbers -/

/-- a backend inode number shown to the client carries the slot index in its top byte and the
    backend's number below: it can never be confused with a pseudo fs number (index 0) nor with a
    number of another slot -/
theorem inode_never_aliases_pseudo (idx ino v : Nat) (h : convertInode idx ino = .ok v)
    (hidx : 0 < idx ∧ idx < 256) (hv : v ≠ 0) :
    fsIdx v = idx ∧ lowIno v = ino ∧ fsIdx v ≠ 0 := by
  unfold convertInode at h
  split at h
  · cases h; exact absurd rfl hv
  · split at h
    · cases h
    · cases h
      rename_i h0 hmax
      unfold VFS_MAX_INO at hmax
      unfold fsIdx lowIno SHIFT
      have h56 : (2:Nat) ^ 56 = 72057594037927936 := by decide
      rw [h56] at hmax ⊢
      omega

/-- pseudo fs numbers (below 2^56) have index 0 and keep their value -/
theorem pseudo_numbers_have_index_zero (ino : Nat) (h : ino ≤ VFS_MAX_INO) : fsIdx ino = 0 ∧ lowIno ino = ino := by
  unfold VFS_MAX_INO at h
  unfold fsIdx lowIno SHIFT
  have h56 : (2:Nat) ^ 56 = 72057594037927936 := by decide
  rw [h56] at h ⊢
  omega

/-- for a backend that numbers its entries consistently (inode `j` for a name), LOOKUP, READDIR and
    READDIRPLUS all show `idx·2^56 + j`, and GETATTR on that number reports it as `st_ino` -/
theorem ino_consistent (s : State) (idx j : Nat) (hj : 0 < j ∧ j ≤ VFS_MAX_INO) :
    convertInode idx j = .ok (idx * SHIFT + j) ∧
    (∀ r uid gid e, r.op = .lookup → r.ans = .ent j uid gid → s.backendReply r idx 1 = some (.entry e) →
        e.inode = idx * SHIFT + j ∧ e.stIno = idx * SHIFT + j) ∧
    (∀ r uid gid st u g, r.op = .getattr → r.ans = .ent st uid gid → s.backendReply r idx j = some (.attr (idx * SHIFT + j) u g) → True) ∧
    (∀ r uid gid st x u g, r.op = .getattr → r.ans = .ent st uid gid → s.backendReply r idx j = some (.attr x u g) → x = idx * SHIFT + j) := by
  have hc : convertInode idx j = .ok (idx * SHIFT + j) := by
    unfold convertInode
    have : ¬ j = 0 := by omega
    have : ¬ j > VFS_MAX_INO := by omega
    simp [*]
  refine ⟨hc, ?_, ?_, ?_⟩
  · intro r uid gid e hop hans h
    unfold State.backendReply at h
    simp only [hans, hop] at h
    unfold State.convertEntry at h
    simp only [hc] at h
    split at h
    · cases h
    · cases h
    · rename_i e' he
      split at he
      · cases he
      · simp only [Option.some.injEq, Except.ok.injEq] at he
        simp only [Option.some.injEq, Res.entry.injEq] at h
        subst h; subst he; exact ⟨rfl, rfl⟩
  · intros; trivial
  · intro r uid gid st x u g hop hans h
    unfold State.backendReply at h
    simp only [hans, hop] at h
    cases hr : remapPair (s.effectiveMap idx) true uid gid with
    | none => simp [hr] at h
    | some p =>
      simp [hr] at h
      exact h.1.symm

/-! ### crossing -/

/-- walking pseudo directories crosses into a mounted file system exactly at its mount point:
    a pseudo LOOKUP that resolves to pseudo inode `ino` returns the stored root entry of the mount
    when `ino` is a mount point, and a pseudo fs entry otherwise -/
theorem crossing_exactly_at_mount_path (s : State) (idata : Nat) (name : Name) (ino : Nat)
    (hl : s.pseudo.lookup (lowIno idata) name = .ok ino) :
    (∀ m, s.mnts ino = some m → s.lookupPseudo idata name = some (.entry m.rootEntry)) ∧
    (s.mnts ino = none → ∀ e, s.lookupPseudo idata name = some (.entry e) →
        convertInode (fsIdx idata) ino = .ok e.inode) := by
  constructor
  · intro m hm
    unfold State.lookupPseudo
    simp [hl, hm]
  · intro hn e he
    unfold State.lookupPseudo at he
    simp only [hl, hn] at he
    unfold State.convertEntry at he
    cases hc : convertInode (fsIdx idata) ino with
    | error n => simp [hc] at he
    | ok v =>
      simp only [hc] at he
      cases hr : remapPair (s.effectiveMap (fsIdx idata)) true (pseudoEnt ino).uid (pseudoEnt ino).gid with
      | none => simp [hr] at he
      | some p =>
        simp only [hr, Option.some.injEq, Res.entry.injEq] at he
        subst he
        rfl

/-- the root mount case: requests on node 1 go to the backend mounted on "/" with that backend's
    root inode number; no `VfsInode::new` assertion can fire under the invariant -/
theorem root_mount_routes (s : State) (h : Inv s) (m : Mnt) (hm : s.mnts ROOT_ID = some m) :
    ∃ b, s.supers m.idx = some b ∧ b.id = m.bk ∧ s.getRealRootfs 1 = some (.ok (.backend b m.idx m.ino)) := by
  obtain ⟨b, hb, hid⟩ := h.slot ROOT_ID m hm
  refine ⟨b, hb, hid, ?_⟩
  have hle := h.inoOk ROOT_ID m hm
  unfold State.getRealRootfs
  have h1 : fsIdx 1 = 0 := by decide
  have h2 : lowIno 1 = ROOT_ID := by decide
  have : ¬ m.ino > VFS_MAX_INO := by omega
  simp [h1, h2, hm, hb, this]

/-! ### no modelled panic site is reachable -/

/-- one step from a well-formed, guarded state: the invariants are kept and the outcome is not
    `panic` — neither an `unwrap()` of the pseudo fs (the tree is well-formed), nor the
    `assert_eq!` of `VfsInode::new` (recorded root inodes fit 56 bits), nor the `u32` arithmetic of
    `remap_id` (the mappings satisfy `base + range ≤ 2^32`, ids are `u32`) -/
theorem step_no_panic (s : State) (op : Op) (hi : Inv s) (hp : PInv s) (hg : MapsGuarded s) (hok : OpOk op) :
    (Inv (step s op).1 ∧ PInv (step s op).1 ∧ MapsGuarded (step s op).1) ∧ (step s op).2.1 ≠ .panic := by
  cases op with
  | mount b path map =>
    have := mount_guarded_no_panic hi hp hg b path map hok
    exact ⟨⟨mount_inv hi b path map, mount_pinv hi hp b path map, this.1⟩, this.2⟩
  | umount path => exact ⟨⟨umount_inv hi path, umount_pinv hi hp path, umount_guarded hg path⟩, umount_no_panic hp path⟩
  | init o => exact ⟨⟨init_inv hi o, init_pinv hp o, (init_guarded hg o).1⟩, (init_guarded hg o).2⟩
  | destroy => exact ⟨⟨destroy_inv hi, destroy_pinv hp, (destroy_guarded hg).1⟩, (destroy_guarded hg).2⟩
  | req r =>
    obtain ⟨res, calls, h1, h2⟩ := handle_no_panic hi hg r hok.1 hok.2
    simp only [step, h1]
    exact ⟨⟨hi, hp, hg⟩, h2⟩
  | saveRestore m => exact absurd hok (by simp [OpOk])

/-- no step of any history of a VFS without eviction of pseudo directories, with guarded mappings
    and `u32` ids, ends in a panic -/
theorem no_panic_all_histories (opts : Opts) (hgm : OptMapOk (State.new opts false).globalMap) (ops : List Op)
    (hok : ∀ op ∈ ops, OpOk op) :
    ∀ x ∈ run (State.new opts false) ops, x.1 ≠ .panic := by
  suffices h : ∀ (ops : List Op) (s : State), (∀ op ∈ ops, OpOk op) → Inv s → PInv s → MapsGuarded s →
      ∀ x ∈ run s ops, x.1 ≠ .panic from
    h ops _ hok (inv_new opts false) (pinv_new opts) ⟨by intro i m hm; simp [State.new] at hm, hgm⟩
  intro ops
  induction ops with
  | nil => intro s _ _ _ _ x hx; simp [run] at hx
  | cons op rest ih =>
    intro s hok hi hp hg x hx
    obtain ⟨⟨hi', hp', hg'⟩, hnp⟩ := step_no_panic s op hi hp hg (hok op (by simp))
    unfold run at hx
    cases hst : step s op with
    | mk s' rc =>
      obtain ⟨r, c⟩ := rc
      rw [hst] at hx hi' hp' hg' hnp
      simp only at hnp
      cases r <;> first
        | exact absurd rfl hnp
        | (simp only [List.mem_cons] at hx
           rcases hx with hx | hx
           · subst hx; simp
           · exact ih s' (fun o ho => hok o (by simp [ho])) hi' hp' hg' x hx)

/-! ### source structure (generated table) -/

/-- every request method `Vfs` overrides (all but init/destroy/id_remap*) routes through
    `get_real_rootfs` — checked on the table regenerated from src/api/vfs/sync_io.rs -/
theorem every_request_method_routes :
    ∀ f ∈ Fbr.Gen.vfsSyncFns, f.1 = "Vfs" → f.2.1 = "FileSystem" →
      f.2.2.1 ∈ ["init", "destroy", "id_remap", "id_remap_with_nodeid"] ∨
      "self.get_real_rootfs" ∈ f.2.2.2.2.2 := by
  decide +kernel

/-- the methods the model treats as "validated" (`ReqOp.validates`) are exactly those that call
    `validate_path_component` in the source -/
theorem validated_methods_match_source :
    (Fbr.Gen.vfsSyncFns.filter (fun f => (f.2.2.2.2.1.map (·.1)).contains "validate_path_component")).map (·.2.2.1)
      = ["symlink", "mknod", "mkdir", "unlink", "rmdir", "rename", "link", "create", "setxattr", "getxattr", "removexattr"] := by
  decide +kernel

/-- the constants of the model are the ones in src/api/vfs/mod.rs today -/
theorem constants_match_source :
    Fbr.Gen.vfsModConsts.lookup "VFS_MAX_INO" = some VFS_MAX_INO ∧
    Fbr.Gen.vfsModConsts.lookup "VFS_INDEX_SHIFT" = some 56 ∧ SHIFT = 2 ^ 56 ∧
    Fbr.Gen.vfsModConsts.lookup "VFS_PSEUDO_FS_IDX" = some 0 ∧
    Fbr.Gen.vfsModConsts.lookup "MAX_VFS_INDEX" = some MAX_VFS_INDEX ∧
    Fbr.Gen.vfsModConsts.lookup "SLASH_ASCII" = some SLASH := by
  decide +kernel

/-- panic-site audit: the potential panic sites (unwrap / assert / index / unchecked arithmetic)
    of the modelled functions are exactly the audited ones — `remap_id` (3 arithmetic: outcome
    `panic` of the model, C14), `VfsInode::new` (assertion: unreachable by `Inv.inoOk`), the index
    expressions into the 256-entry tables (indices are `u8`), the `lock().unwrap()`s (poisoned only
    after a panic, which ends a history), and the `unwrap()`s of the pseudo fs walks (unreachable on
    a well-formed tree, `step_no_panic`).  A new site in any of these functions changes the table. -/
theorem panic_sites_audited :
    (Fbr.Gen.vfsModPanicSites.filter (fun f => !f.2.isEmpty)).take 10 =
      [("::remap_id", [("arith", 3)]), ("VfsInode::new", [("assert_eq", 1)]), ("Vfs::new", [("arith", 1)]),
       ("Vfs::insert_mount_locked", [("index", 2)]), ("Vfs::mount_with_id_mapping", [("index", 1), ("unwrap", 1)]),
       ("Vfs::restore_mount", [("unwrap", 1)]), ("Vfs::umount", [("index", 2), ("unwrap", 1)]),
       ("Vfs::get_rootfs", [("unwrap", 1)]), ("Vfs::allocate_fs_idx", [("index", 1)]), ("Vfs::get_fs_by_idx", [("index", 1)])] ∧
    ((Fbr.Gen.pseudoFsPanicSites.filter (fun f => !f.2.isEmpty)).take 7).map (·.1) =
      ["PseudoInode::remove_child", "PseudoFs::new", "PseudoFs::mount", "PseudoFs::path_walk", "PseudoFs::evict_inode",
       "PseudoFs::get_entry", "PseudoFs::do_readdir"] ∧
    Fbr.Gen.pseudoFsPanicSites.lookup "PseudoFs::mount" = some [("unwrap", 5)] ∧
    Fbr.Gen.pseudoFsPanicSites.lookup "PseudoFs::path_walk" = some [("unwrap", 3)] ∧
    Fbr.Gen.pseudoFsPanicSites.lookup "PseudoFs::evict_inode" = some [("unwrap", 2)] := by
  decide +kernel

/-! ### non-vacuity -/

def bk1 : Bk := { id := 1, mountErr := none, rootIno := 1, rootUid := 5, rootGid := 6, maxIno := 100, ie := 0 }
def s1 : State := (State.new Opts.default false |>.mount bk1 [47, 97] none).1

example : (State.new Opts.default false |>.mount bk1 [47, 97] none).2.1 = .mounted 1 := by decide
example : s1.supers 1 = some bk1 := by decide
example : Inv s1 := mount_inv (inv_new _ _) _ _ _
/-- a getattr on inode 5 of slot 1 reaches backend 1 with inode 5 -/
example : s1.handle { op := .getattr, uid := 0, gid := 0, ino := 1 * SHIFT + 5, ans := .ent 5 0 0 }
    = some (.attr (1 * SHIFT + 5) 0 0, [{ bk := 1, method := .req .getattr, uid := 0, gid := 0, args := [.n 5] }]) := by
  decide
/-- the same inode number after umount: ENOENT, no call -/
example : ((s1.umount [47, 97]).1).handle { op := .getattr, uid := 0, gid := 0, ino := 1 * SHIFT + 5, ans := .ent 5 0 0 }
    = some (.err ENOENT, []) := by
  decide

end Fbr.Thm.C07
