/-
  C13 — Wire structures and constants match the kernel's FUSE ABI.

  PROPERTY THEOREMS ONLY.  Facts: `Fbr.Gen.AbiRust` (regenerated from /repo/src/abi/*.rs by the
  syn translator) and `Fbr.Gen.AbiKernel` (regenerated from /usr/include/linux/fuse.h by the C
  compiler).  Specification: `Fbr.AbiSpec` (hand-written pairing) and `Fbr.Abi.layout`
  (`repr(C)`).  Every quantifier below ranges over a finite generated table and is decided
  completely by kernel evaluation, except `opcode_from_total`, which is over all naturals.
-/
import Fbr.AbiSpec
import Fbr.Conv
import Fbr.Gen.AbiRust
import Fbr.Gen.AbiKernel

namespace Fbr.Thm.C13
open Fbr Fbr.Abi Fbr.AbiSpec Fbr.Gen

/-- Every Rust wire structure has the kernel's size, field order, offsets and widths
    (in the pairing mode declared in `AbiSpec`). -/
theorem structs_match : ∀ p ∈ structPairs, pairOk rustStructs kernelStructs p = true := by
  decide +kernel

/-- No `#[repr(C)]` structure of the ABI files escapes the comparison. -/
theorem structs_all_covered :
    ∀ s ∈ rustStructs, s.name ∈ structPairs.map (·.rust)
      ∨ (Mode.concat s.name) ∈ structPairs.map (·.mode)
      ∨ s.name ∈ structsWithoutCounterpart := by
  decide +kernel

/-- The translator understood every constant expression, bitflags member and match arm. -/
theorem nothing_unknown :
    rustConstsUnknown = [] ∧ rustBitflagsUnknown = [] ∧ opcodeFromUnknownArms = [] := by
  decide +kernel

/-- Every paired constant has the kernel's numeric value. -/
theorem consts_match :
    ∀ p ∈ constPairs, (rustConsts.lookup p.1).isSome = true
      ∧ rustConsts.lookup p.1 = kernelMacros.lookup p.2 := by
  decide +kernel

theorem consts_all_covered :
    ∀ c ∈ rustConsts, c.1 ∈ constPairs.map (·.1) ∨ c.1 ∈ constsWithoutCounterpart := by
  decide +kernel

def bitflagValue (ty member : String) : Option Nat :=
  match rustBitflags.find? (·.1 == ty) with
  | some (_, _, ms) => ms.lookup member
  | none => none

/-- Every bitflags member has the value of the kernel macro paired with it. -/
theorem bitflags_match :
    ∀ p ∈ bitflagPairs, (bitflagValue p.1 p.2.1).isSome = true
      ∧ bitflagValue p.1 p.2.1 = kernelMacros.lookup p.2.2 := by
  decide +kernel

theorem bitflags_all_covered :
    ∀ b ∈ rustBitflags, ∀ m ∈ b.2.2,
      (b.1, m.1) ∈ bitflagPairs.map (fun p => (p.1, p.2.1)) ∨ (b.1, m.1) ∈ bitflagsWithoutCounterpart := by
  decide +kernel

def enumValue (en variant : String) : Option Nat :=
  match rustEnums.find? (·.1 == en) with
  | some (_, _, vs) => vs.lookup variant
  | none => none

def kernelEnumValue (en member : String) : Option Nat :=
  match kernelEnums.find? (·.1 == en) with
  | some (_, ms) => ms.lookup member
  | none => none

/-- Every opcode has the kernel's number. -/
theorem opcodes_match :
    ∀ p ∈ opcodePairs, (enumValue "Opcode" p.1).isSome = true
      ∧ enumValue "Opcode" p.1 = kernelEnumValue "fuse_opcode" p.2 := by
  decide +kernel

theorem opcodes_all_covered :
    ∀ e ∈ rustEnums, e.1 = "Opcode" → ∀ v ∈ e.2.2,
      v.1 ∈ opcodePairs.map (·.1) ∨ v.1 ∈ opcodesWithoutCounterpart := by
  decide +kernel

/-- Every notification code has the kernel's number. -/
theorem notify_codes_match :
    ∀ p ∈ notifyPairs, (enumValue "NotifyOpcode" p.1).isSome = true
      ∧ enumValue "NotifyOpcode" p.1 = kernelEnumValue "fuse_notify_code" p.2 := by
  decide +kernel

theorem notify_codes_all_covered :
    ∀ e ∈ rustEnums, e.1 = "NotifyOpcode" → ∀ v ∈ e.2.2,
      v.1 ∈ notifyPairs.map (·.1) ∨ v.1 ∈ notifyWithoutCounterpart := by
  decide +kernel

/-- The opcode numbers the kernel can send that the library knows: the kernel's value of every
    paired enumerator, minus the two byte-swap detection markers (they are not requests). -/
def knownOps : List Nat :=
  (opcodePairs.filter (fun p => p.1 != "CuseInitBswapReserved" && p.1 != "InitBswapReserved")).filterMap
    (fun p => kernelEnumValue "fuse_opcode" p.2)

def maxOpcode : Nat := (enumValue "Opcode" "MaxOpcode").getD 0

/-- `From<u32> for Opcode` is total: a known number maps to itself, **every** other number —
    all of them, not a sample — maps to the unsupported-opcode value. -/
theorem opcode_from_total (n : Nat) :
    opcodeFrom n = if n ∈ knownOps then n else maxOpcode := by
  have hk : knownOps = opcodeFromArms.map (·.1) := by decide +kernel
  have hm : maxOpcode = 50 := by decide +kernel
  rw [hk, hm]
  unfold opcodeFrom
  split <;> first | decide | (simp only [opcodeFromArms, List.map, List.mem_cons, List.not_mem_nil, or_false]; rw [if_neg]; intro h; grind)

/-- and the arms of the match are identity arms (`k => Opcode::K` with discriminant `k`). -/
theorem opcode_from_arms_identity : ∀ a ∈ opcodeFromArms, a.1 = a.2 := by decide +kernel

theorem opcode_from_default_is_max : opcodeFromDefault = some maxOpcode := by decide +kernel

/-! ### conversions between host stat data and wire attributes -/
open Fbr.Conv

/-- The conversion functions in today's source are the ones `Fbr.Conv` models. -/
theorem convs_as_modelled : Gen.convs = Conv.expectedConvs := by decide +kernel

/-- a wire attribute is well-formed when its 32-bit fields are 32-bit -/
def Attr.WF (a : Attr) : Prop :=
  a.atimensec < u32 ∧ a.mtimensec < u32 ∧ a.ctimensec < u32 ∧ a.nlink < u32 ∧ a.rdev < u32 ∧ a.blksize < u32

/-- wire → host → wire is the identity on **every** well-formed attribute (no field lost). -/
theorem attr_roundtrip_wire (a : Attr) (h : Attr.WF a) :
    attrWithFlags (statOfAttr a) a.flags = a := by
  obtain ⟨h1, h2, h3, h4, h5, h6⟩ := h
  cases a
  simp only [attrWithFlags, statOfAttr, Attr.mk.injEq, true_and, and_true] at *
  refine ⟨?_, ?_, ?_, ?_, ?_, ?_⟩ <;> exact Nat.mod_eq_of_lt ‹_›

/-- host values that fit the wire widths -/
def Stat.Fits (st : Stat) : Prop :=
  st.atimeNsec < u32 ∧ st.mtimeNsec < u32 ∧ st.ctimeNsec < u32 ∧ st.nlink < u32 ∧ st.rdev < u32 ∧ st.blksize < u32

/-- host → wire → host preserves every field the wire format can carry, whenever the host
    values fit the wire widths (exactly the guard under which no truncation happens). -/
theorem stat_roundtrip_host (st : Stat) (flags : Nat) (h : Stat.Fits st) :
    statOfAttr (attrWithFlags st flags) = st := by
  obtain ⟨h1, h2, h3, h4, h5, h6⟩ := h
  cases st
  simp only [attrWithFlags, statOfAttr, Stat.mk.injEq, true_and, and_true] at *
  refine ⟨?_, ?_, ?_, ?_, ?_, ?_⟩ <;> exact Nat.mod_eq_of_lt ‹_›

/-- the guard is necessary: a nanosecond field that does not fit is truncated -/
example : statOfAttr (attrWithFlags { (default : Stat) with atimeNsec := 2 ^ 32 + 5 } 0)
    ≠ { (default : Stat) with atimeNsec := 2 ^ 32 + 5 } := by decide

/-- 64-bit fields are never altered, whatever their value (no hypothesis). -/
theorem attr_wide_fields_exact (st : Stat) (f : Nat) :
    let a := attrWithFlags st f
    a.ino = st.ino ∧ a.size = st.size ∧ a.blocks = st.blocks ∧ a.atime = st.atime ∧
    a.mtime = st.mtime ∧ a.ctime = st.ctime ∧ a.mode = st.mode ∧ a.uid = st.uid ∧ a.gid = st.gid ∧
    a.flags = f := by
  simp [attrWithFlags]

/-- `From<stat64> for Attr` is `with_flags` with no flags. -/
theorem attr_of_stat_no_flags (st : Stat) : (attrOfStat st).flags = 0 := rfl

/-- SETATTR: every field the client can set reaches the host structure unchanged. -/
theorem setattr_to_stat_fields (s : SetattrIn) :
    let st := statOfSetattr s
    st.mode = s.mode ∧ st.uid = s.uid ∧ st.gid = s.gid ∧ st.size = s.size ∧ st.atime = s.atime ∧
    st.mtime = s.mtime ∧ st.ctime = s.ctime ∧ st.atimeNsec = s.atimensec ∧
    st.mtimeNsec = s.mtimensec ∧ st.ctimeNsec = s.ctimensec := by
  simp [statOfSetattr]

/-- STATFS: 64-bit counters exact; 32-bit fields exact when they fit. -/
theorem statvfs_to_kstatfs_fields (s : Statvfs)
    (h : s.bsize < u32 ∧ s.namemax < u32 ∧ s.frsize < u32) :
    let k := kstatfsOfStatvfs s
    k.blocks = s.blocks ∧ k.bfree = s.bfree ∧ k.bavail = s.bavail ∧ k.files = s.files ∧
    k.ffree = s.ffree ∧ k.bsize = s.bsize ∧ k.namelen = s.namemax ∧ k.frsize = s.frsize := by
  obtain ⟨h1, h2, h3⟩ := h
  simp [kstatfsOfStatvfs, Nat.mod_eq_of_lt h1, Nat.mod_eq_of_lt h2, Nat.mod_eq_of_lt h3]

/-- an entry's attribute flags survive the conversion used by every entry-carrying reply -/
theorem entry_out_keeps_attr_flags (e : Entry) : (entryOutOfEntry e).attr.flags = e.attrFlags := rfl

/-- non-vacuity: a concrete well-formed attribute and a fitting stat -/
example : Attr.WF { (default : Attr) with ino := 7, atimensec := 999999999, nlink := 3, flags := 2 } := by
  unfold Attr.WF u32; decide
example : Stat.Fits { (default : Stat) with ino := 7, size := 2 ^ 63, mtimeNsec := 5, blksize := 4096 } := by
  unfold Stat.Fits u32; decide

end Fbr.Thm.C13
