/-
  C01 — Untrusted request bytes never crash the server nor corrupt the reply stream.

  PROPERTY THEOREMS ONLY (helper lemmas: `Fbr.Lemmas.SrvGood`).  Model: `Fbr.Srv.handle`,
  the model of `Server::handle_message`, tied to /repo by the `srv` correspondence run (both
  transports, arbitrary segmentation, arbitrary reply capacity, scripted file system).

  Every theorem quantifies over **all** request byte strings `req`, all configurations `cfg`
  (transport, reply capacity, negotiated minor, presence of the DAX handler) and all file
  systems `fs : Call → Ans`.  Hypotheses: the reply capacity fits a `u32` (`cfg.cap < 2^32`; the
  writers are built from `u32` descriptor lengths / a ≤ 1 MiB+4 KiB buffer) and the file system
  reports errors as errnos in 1..4095 or as non-OS `io::ErrorKind`s (`FsSane`).
-/
import Fbr.Lemmas.SrvGood
import Fbr.Lemmas.SrvAllocs
import Fbr.Lemmas.SrvAsyncGood

namespace Fbr.Thm.C01
open Fbr.Srv Fbr.Wire

/-- The reply-stream invariant holds for every request: see the corollaries below. -/
theorem good_handle (cfg : Cfg) (fs : Call → Ans) (req : Bytes) (hcap : cfg.cap < 2 ^ 32)
    (hfs : FsSane fs) : Good cfg (uniqueOf req) (handle cfg fs req) := by
  have hu : uniqueOf req < 2 ^ 64 := u64At_lt req 8
  unfold handle
  split
  · exact good_silent _ _ _ rfl (by intro s; simp) (by intro n h; simp at h)
  · split
    · exact good_silent _ _ _ rfl (by intro s; simp) (by intro n h; simp at h)
    · unfold afterRemap
      split
      · split
        · exact good_silent _ _ _ rfl (by intro s; simp) (by intro n h; simp at h)
        · exact good_errRes _ _ _ _ _ hu (sane_os _ (by decide) (by decide))
      · exact good_handleBody _ _ _ _ _ _ _ _ _ hu hcap hfs

/-- Message handling never ends in a panic outcome.  (The model has one explicit panic site
    class: a second write on an unbuffered /dev/fuse writer trips
    `assert!(self.buffered || self.buf.is_empty())`; `fusedev_single_write` shows it is never
    reached.  Arithmetic sites are discharged in `dirent_padding_lt_8`,
    `batch_forget_bound_no_underflow`, `init_compat_sizes_fit`.) -/
theorem no_panic (cfg : Cfg) (fs : Call → Ans) (req : Bytes) (hcap : cfg.cap < 2 ^ 32)
    (hfs : FsSane fs) (s : String) : (handle cfg fs req).ret ≠ .panic s :=
  (good_handle cfg fs req hcap hfs).noPanic s

/-- On /dev/fuse a request causes at most one `write`/`writev` on the session fd … -/
theorem fusedev_single_write (cfg : Cfg) (fs : Call → Ans) (req : Bytes) (hcap : cfg.cap < 2 ^ 32)
    (hfs : FsSane fs) : (handle cfg fs req).out.sys.length ≤ 1 :=
  (good_handle cfg fs req hcap hfs).oneWrite

/-- … and that one write is one complete message: the length field equals the bytes emitted,
    `unique` is the request's, `error` is zero or a negated errno. -/
theorem reply_well_formed_fusedev (cfg : Cfg) (fs : Call → Ans) (req : Bytes) (hcap : cfg.cap < 2 ^ 32)
    (hfs : FsSane fs) : ∀ m ∈ (handle cfg fs req).out.sys, WfMsg (uniqueOf req) m :=
  (good_handle cfg fs req hcap hfs).sysWf

/-- On virtio-fs the writable area is either untouched or starts with one complete message
    (header length within the bytes stored, `unique` the request's, `error` zero or a negated
    errno). -/
theorem reply_well_formed_virtio (cfg : Cfg) (fs : Call → Ans) (req : Bytes) (hcap : cfg.cap < 2 ^ 32)
    (hfs : FsSane fs) :
    (handle cfg fs req).out.area = [] ∨ WfArea (uniqueOf req) (handle cfg fs req).out.area :=
  (good_handle cfg fs req hcap hfs).areaWf

/-- the two transports never mix: nothing is stored in a descriptor area on /dev/fuse and no fd
    write happens on virtio-fs -/
theorem transports_separate (cfg : Cfg) (fs : Call → Ans) (req : Bytes) (hcap : cfg.cap < 2 ^ 32)
    (hfs : FsSane fs) :
    (cfg.fusedev = true → (handle cfg fs req).out.area = []) ∧
    (cfg.fusedev = false → (handle cfg fs req).out.sys = []) :=
  ⟨(good_handle cfg fs req hcap hfs).sepF, (good_handle cfg fs req hcap hfs).sepV⟩

/-- **Nothing larger than the reply buffer is ever handed to the transport**: every message written
    to /dev/fuse and the bytes stored in the virtio-fs reply area fit the capacity the client
    supplied — for every request, transport and file system (the model-level statement of "no
    write beyond the reply descriptors"; the bounds of the descriptor arithmetic itself are C04's
    `accesses_in_bounds`, and the harness surrounds every real buffer with canaries). -/
theorem reply_fits_reply_buffer (cfg : Cfg) (fs : Call → Ans) (req : Bytes) (hcap : cfg.cap < 2 ^ 32)
    (hfs : FsSane fs) :
    (∀ m ∈ (handle cfg fs req).out.sys, m.length ≤ cfg.cap) ∧ (handle cfg fs req).out.area.length ≤ cfg.cap :=
  ⟨(good_handle cfg fs req hcap hfs).fitsSys, (good_handle cfg fs req hcap hfs).fitsArea⟩

/-- FORGET and BATCH_FORGET never produce a reply — whatever the body, the header length, the
    capacity, the transport or the file system (no hypothesis at all). -/
theorem forget_never_replies (cfg : Cfg) (fs : Call → Ans) (req : Bytes)
    (hop : opOf req = 2 ∨ opOf req = 42) : (handle cfg fs req).out = {} := by
  unfold handle
  split
  · rfl
  · split
    · rfl
    · unfold afterRemap
      split
      · have : isForget (opOf req) = true := by rcases hop with h | h <;> simp [isForget, h]
        simp [this]
      · rcases hop with h | h
        · rw [h]; unfold handleBody; simp only; unfold withObj; split <;> simp [bail]
        · rw [h]; unfold handleBody; simp only; unfold withObj
          split
          · simp [bail]
          · dsimp only; split
            · simp [bail]
            · split <;> simp [bail]

/-- **Every heap allocation whose size is taken from request fields is bounded** by the
    request-buffer limit (1 MiB + 4 KiB) or, if the transport presented a larger buffer, by the
    size of that buffer — for every request, configuration and file system (no hypothesis). The
    model records the sizes of `get_message_body`'s buffer, `batch_forget`'s and
    `removemapping`'s vectors and `ioctl`'s input buffer. -/
theorem allocs_bounded (cfg : Cfg) (fs : Call → Ans) (req : Bytes) :
    ∀ a ∈ (handle cfg fs req).allocs, a ≤ max (MAX_BUFFER_SIZE + BUFFER_HEADER_SIZE) req.length := by
  unfold handle
  split
  · intro a ha; cases ha
  · split
    · intro a ha; cases ha
    · unfold afterRemap
      split
      · split
        · intro a ha; cases ha
        · intro a ha; cases ha
      · next hlen =>
        refine allocs_handleBody cfg fs _ _ _ _ _ _ _ _ ?_ (Nat.le_max_left _ _) ?_
        · exact Nat.le_trans (Nat.not_lt.mp hlen) (Nat.le_max_left _ _)
        · simp only [List.length_drop]
          exact Nat.le_trans (Nat.sub_le _ _) (Nat.le_max_right _ _)

/-! ### arithmetic panic sites -/

/-- `&DIRENT_PADDING[..padding]`: the padding of a directory record is always < 8, for names
    of every length -/
theorem dirent_padding_lt_8 (nameLen : Nat) :
    (DIRENT + nameLen + 7) / 8 * 8 - (DIRENT + nameLen) < 8 ∧ DIRENT + nameLen ≤ (DIRENT + nameLen + 7) / 8 * 8 := by
  unfold DIRENT; omega

/-- `MAX_BUFFER_SIZE + BUFFER_HEADER_SIZE - size_of::<BatchForgetIn>() - size_of::<InHeader>()`
    in `batch_forget` cannot underflow -/
theorem batch_forget_bound_no_underflow : 8 + IN_HDR ≤ MAX_BUFFER_SIZE + BUFFER_HEADER_SIZE := by decide

/-- `<[u8; N]>::from_slice(out.as_slice().split_at(N).0).unwrap()` in `init`: the compat sizes
    fit inside the 64-byte `InitOut` for every enabled set -/
theorem init_compat_sizes_fit (cfg : Cfg) (ra en : Nat) :
    (initOutFull cfg ra en).length = 64 ∧ 8 ≤ 64 ∧ 24 ≤ 64 := by
  simp [initOutFull]

/-! ### exactly one answer -/

/-- Whenever message handling reports a positive number of reply bytes, exactly one reply
    reached the client (one fd write on /dev/fuse; a non-empty, well-formed area on virtio-fs). -/
theorem ok_return_means_replied (cfg : Cfg) (fs : Call → Ans) (req : Bytes) (hcap : cfg.cap < 2 ^ 32)
    (hfs : FsSane fs) (n : Nat) (h : (handle cfg fs req).ret = .ok n) (hn : 0 < n) :
    Replied cfg (handle cfg fs req) :=
  (good_handle cfg fs req hcap hfs).okReplied n h hn

/-- the common reply tail always answers when the buffer can hold the reply: an error needs 16
    bytes, a success `16 + |body| + |data|` -/
theorem finish_answers (cfg : Cfg) (u : Nat) (calls : List Call) (al : List Nat) (a : Ans)
    (okb : Ans → Option (Bytes × Bytes)) (h16 : 16 ≤ cfg.cap)
    (hfit : ∀ b d, okb a = some (b, d) → 16 + b.length + d.length ≤ cfg.cap) :
    ∃ n, 0 < n ∧ (finish cfg u calls al a okb).ret = .ok n := by
  unfold finish
  split
  · next e =>
    rcases replyErr_cases cfg u e with ⟨_, h⟩ | ⟨h, _⟩
    · omega
    · exact ⟨16, by decide, by simp [errRes, h]⟩
  · split
    · next b d heq =>
      rcases replyOk_cases cfg u b d with ⟨_, h⟩ | ⟨h, _⟩
      · have := hfit b d heq; omega
      · exact ⟨16 + b.length + d.length, by omega, by simp [okRes, h]⟩
    · rcases replyErr_cases cfg u (.os ENOSYS) with ⟨_, h⟩ | ⟨h, _⟩
      · omega
      · exact ⟨16, by decide, by simp [errRes, h]⟩

/-- **A well-formed request of an opcode that requires an answer produces exactly one reply.**
    Stated for every handler built from the common shape "read the request structure, call the
    file system once, reply" (`withObj` + `simple`: GETATTR, SETATTR, OPEN, WRITE, RELEASE, FSYNC,
    FLUSH, OPENDIR, RELEASEDIR, FSYNCDIR, GETLK, SETLK, SETLKW, ACCESS, BMAP, POLL, FALLOCATE,
    LSEEK, LISTXATTR): if the request structure is present (`n ≤ r.length`) and the reply buffer
    can hold the reply, the result is a positive `ok`, hence (`ok_return_means_replied`) exactly
    one reply. -/
theorem structured_request_answered (cfg : Cfg) (fs : Call → Ans) (u : Nat) (calls0 : List Call)
    (r : Bytes) (n : Nat) (mk : Bytes → Call) (okb : Ans → Option (Bytes × Bytes)) (hn : n ≤ r.length)
    (h16 : 16 ≤ cfg.cap)
    (hfit : ∀ b d, okb (fs (mk (r.take n))) = some (b, d) → 16 + b.length + d.length ≤ cfg.cap) :
    ∃ k, 0 < k ∧ (withObj cfg calls0 r n fun b => simple cfg fs u calls0 (mk b) [] okb).ret = .ok k := by
  unfold withObj
  rw [if_neg (by omega)]
  exact finish_answers cfg u _ _ _ okb h16 hfit

/-! ### the asynchronous request path (`Server::async_handle_message`)

`Fbr.SrvAsync.handle` is the model of `async_io.rs`; `forget` drops what only the async writer
records.  These hold for EVERY request byte string — including the WRITE requests on which the
two paths differ (C20's known finding) and file systems that return passthrough ids. -/

/-- the reply-stream invariant on the asynchronous path -/
theorem async_good_handle (cfg : Cfg) (fs : Call → Ans) (req : Bytes) (hcap : cfg.cap < 2 ^ 32)
    (hfs : FsSane fs) : Good cfg (uniqueOf req) (Fbr.SrvAsync.forget (Fbr.SrvAsync.handle cfg fs req)) :=
  Fbr.SrvAsync.good_handleA cfg fs req hcap hfs

theorem async_no_panic (cfg : Cfg) (fs : Call → Ans) (req : Bytes) (hcap : cfg.cap < 2 ^ 32)
    (hfs : FsSane fs) (s : String) : (Fbr.SrvAsync.handle cfg fs req).ret ≠ .panic s :=
  (async_good_handle cfg fs req hcap hfs).noPanic s

theorem async_fusedev_single_write (cfg : Cfg) (fs : Call → Ans) (req : Bytes) (hcap : cfg.cap < 2 ^ 32)
    (hfs : FsSane fs) : (Fbr.SrvAsync.handle cfg fs req).out.sys.length ≤ 1 :=
  (async_good_handle cfg fs req hcap hfs).oneWrite

theorem async_reply_well_formed_fusedev (cfg : Cfg) (fs : Call → Ans) (req : Bytes) (hcap : cfg.cap < 2 ^ 32)
    (hfs : FsSane fs) : ∀ m ∈ (Fbr.SrvAsync.handle cfg fs req).out.sys, WfMsg (uniqueOf req) m :=
  (async_good_handle cfg fs req hcap hfs).sysWf

theorem async_reply_well_formed_virtio (cfg : Cfg) (fs : Call → Ans) (req : Bytes) (hcap : cfg.cap < 2 ^ 32)
    (hfs : FsSane fs) :
    (Fbr.SrvAsync.handle cfg fs req).out.area = [] ∨
      WfArea (uniqueOf req) (Fbr.SrvAsync.handle cfg fs req).out.area :=
  (async_good_handle cfg fs req hcap hfs).areaWf

theorem async_reply_fits_reply_buffer (cfg : Cfg) (fs : Call → Ans) (req : Bytes) (hcap : cfg.cap < 2 ^ 32)
    (hfs : FsSane fs) :
    (∀ m ∈ (Fbr.SrvAsync.handle cfg fs req).out.sys, m.length ≤ cfg.cap) ∧
      (Fbr.SrvAsync.handle cfg fs req).out.area.length ≤ cfg.cap :=
  ⟨(async_good_handle cfg fs req hcap hfs).fitsSys, (async_good_handle cfg fs req hcap hfs).fitsArea⟩

/-- non-vacuity of the hypotheses: a concrete sane file system and capacity -/
example : FsSane (fun _ => Ans.err (.os 2)) ∧ (4096 : Nat) < 2 ^ 32 := by
  constructor
  · intro c e h; cases h; exact ⟨by decide, by decide⟩
  · decide

end Fbr.Thm.C01
