/-
  C19 — Saving and restoring VFS state reproduces the same namespace (persist feature).

  PROPERTY THEOREMS ONLY (+ non-vacuity examples).  Model: `Fbr.Persist` (`save`, `restore`,
  `toV1`, `liveMounts`, `reattach`, `saveRestore`) over `Fbr.Vfs`.  The byte format
  (`versionize` / `dbs-snapshot`) is trusted and exercised by the correspondence run.
  Helper lemmas: `Fbr.Lemmas.VfsPseudo` (well-formed pseudo trees, `restorePseudo_save`),
  `Fbr.Lemmas.VfsPersist`, `Fbr.Lemmas.VfsInv`.

  Known findings (model follows the code; counterexample theorems below):
    * the global id mapping is not part of what `restore_from_bytes` can restore (F11),
    * `initialized` is restored as `!in_opts.is_empty()` (S4),
    * with `remove_pseudo_root`, evicting a non-leaf pseudo directory makes snapshots unloadable.
-/
import Fbr.Vfs
import Fbr.Persist
import Fbr.Lemmas.VfsInv
import Fbr.Lemmas.VfsMap
import Fbr.Lemmas.VfsPseudo
import Fbr.Lemmas.VfsPersist
import Fbr.Lemmas.VfsReattach
import Fbr.Gen.AbiRust

namespace Fbr.Thm.C19
open Fbr.Vfs Fbr.Persist Fbr.Lemmas.VfsInv Fbr.Lemmas.VfsMap Fbr.Lemmas.VfsPseudo Fbr.Lemmas.VfsPersist
open Fbr.Lemmas.VfsReattach

/-- histories of a live VFS (mount / umount / init / destroy / requests) -/
def liveOps (ops : List Op) : Prop := ∀ op ∈ ops, (match op with | .saveRestore _ => false | _ => true) = true

/-! ### reachable states are well-formed -/

/-- after every history of a VFS that does not evict pseudo directories: the mount-table
    invariant, a well-formed pseudo tree (numbers increasing in creation order, children lists =
    parent links in creation order, every parent present) and a 256-entry mapping table -/
theorem wellformed_all_histories (opts : Opts) (ops : List Op) (hl : liveOps ops) :
    Inv (after (State.new opts false) ops) ∧ PInv (after (State.new opts false) ops) := by
  suffices h : ∀ (ops : List Op) (s : State), liveOps ops → Inv s ∧ PInv s → Inv (after s ops) ∧ PInv (after s ops) from
    h ops _ hl ⟨inv_new opts false, pinv_new opts⟩
  intro ops
  induction ops with
  | nil => intro s _ h; exact h
  | cons op rest ih =>
    intro s hl ⟨hi, hp⟩
    have hrest : liveOps rest := fun o ho => hl o (by simp [ho])
    have h1 : Inv (step s op).1 ∧ PInv (step s op).1 := by
      cases op with
      | mount b path map => exact ⟨mount_inv hi b path map, mount_pinv hi hp b path map⟩
      | umount path => exact ⟨umount_inv hi path, umount_pinv hi hp path⟩
      | init o => exact ⟨init_inv hi o, init_pinv hp o⟩
      | destroy => exact ⟨destroy_inv hi, destroy_pinv hp⟩
      | req r =>
        simp only [step]
        split <;> exact ⟨hi, hp⟩
      | saveRestore m => have := hl (.saveRestore m) (by simp); simp at this
    unfold after
    cases hst : step s op with
    | mk s' rc =>
      obtain ⟨r, c⟩ := rc
      rw [hst] at h1
      cases r <;> first | exact ⟨hi, hp⟩ | exact ih s' hrest h1

/-! ### what a restore reproduces -/

/-- restoring a saved state into a fresh instance (built with the same global mapping) succeeds
    and reproduces, exactly: the pseudo tree (every node, number, parent, name, children order),
    `next_inode`, `next_super`, the options, the per-mount mapping table; nothing is mounted yet;
    `initialized` is *derived* from `in_opts` (see the known finding below) -/
theorem restore_save (s : State) (h : PInv s) :
    ∃ s', restore s.globalMap s.rmRoot (save s) false = some s' ∧
      s'.pseudo = s.pseudo ∧ s'.nextSuper = s.nextSuper ∧ s'.opts = s.opts ∧
      s'.mountMaps = s.mountMaps ∧ s'.globalMap = s.globalMap ∧ s'.rmRoot = s.rmRoot ∧
      s'.initialized = decide (s.opts.inOpts ≠ 0) ∧
      (∀ i, s'.supers i = none) ∧ (∀ p, s'.mnts p = none) := by
  have hp : restorePseudo (save s).nextInode (save s).inodes = some s.pseudo := restorePseudo_save h.wf
  unfold restore
  rw [hp]
  refine ⟨_, rfl, rfl, rfl, rfl, ?_, rfl, rfl, rfl, fun _ => rfl, fun _ => rfl⟩
  exact loadMaps_save s h.range

/-- the same paths resolve to the same pseudo inode numbers on the restored instance -/
theorem same_paths_same_pseudo_inodes (s s' : State) (h : PInv s)
    (hr : restore s.globalMap s.rmRoot (save s) false = some s') (comps : List Comp) :
    s'.pseudo.pathWalk 1 comps = s.pseudo.pathWalk 1 comps := by
  obtain ⟨t, ht, hps, _⟩ := restore_save s h
  rw [hr] at ht; cases ht
  rw [hps]

/-- pseudo directories created afterwards get the numbers they would have got without the
    save/restore: walking (and creating) any path gives the same tree and the same number -/
theorem future_pseudo_dirs_same_numbers (s s' : State) (h : PInv s)
    (hr : restore s.globalMap s.rmRoot (save s) false = some s') (comps : List Comp) :
    s'.pseudo.mountWalk 1 comps = s.pseudo.mountWalk 1 comps := by
  obtain ⟨t, ht, hps, _⟩ := restore_save s h
  rw [hr] at ht; cases ht
  rw [hps]

/-- mounts made afterwards are allocated from the same `next_super`: once the slots hold the same
    backends again, `allocate_fs_idx` returns the same index -/
theorem future_mounts_same_indices (s s' t : State) (h : PInv s)
    (hr : restore s.globalMap s.rmRoot (save s) false = some s')
    (ht1 : t.nextSuper = s'.nextSuper) (ht2 : ∀ i, (t.supers i).isSome = (s.supers i).isSome) :
    t.allocateFsIdx.2 = s.allocateFsIdx.2 ∧ t.allocateFsIdx.1.nextSuper = s.allocateFsIdx.1.nextSuper := by
  obtain ⟨u, hu, _, hns, _⟩ := restore_save s h
  rw [hr] at hu; cases hu
  have hloop : ∀ (fuel start next : Nat) (found : Bool),
      allocLoop t.supers fuel start next found = allocLoop s.supers fuel start next found := by
    intro fuel
    induction fuel with
    | zero => intro start next found; rfl
    | succ f ih =>
      intro start next found
      unfold allocLoop
      simp only [ht2, ih]
  unfold State.allocateFsIdx
  rw [ht1, hns, hloop]
  exact ⟨rfl, rfl⟩

/-! ### the restored, re-attached instance is indistinguishable -/

/-- every invariant the identity theorem needs holds after every live history -/
theorem all_invariants_all_histories (opts : Opts) (ops : List Op) (hl : liveOps ops) :
    Inv (after (State.new opts false) ops) ∧ MapInv (after (State.new opts false) ops) ∧
    PInv (after (State.new opts false) ops) ∧ XInv (after (State.new opts false) ops) := by
  suffices h : ∀ (ops : List Op) (s : State), liveOps ops → Inv s ∧ MapInv s ∧ PInv s ∧ XInv s →
      Inv (after s ops) ∧ MapInv (after s ops) ∧ PInv (after s ops) ∧ XInv (after s ops) from
    h ops _ hl ⟨inv_new opts false, mapInv_new opts false, pinv_new opts, xinv_new opts false⟩
  intro ops
  induction ops with
  | nil => intro s _ h; exact h
  | cons op rest ih =>
    intro s hl ⟨hi, hm, hp, hx⟩
    have hrest : liveOps rest := fun o ho => hl o (by simp [ho])
    have h1 : Inv (step s op).1 ∧ MapInv (step s op).1 ∧ PInv (step s op).1 ∧ XInv (step s op).1 := by
      cases op with
      | mount b path map =>
        exact ⟨mount_inv hi b path map, mount_mapInv hi hm b path map, mount_pinv hi hp b path map, mount_xinv hi hp hx b path map⟩
      | umount path => exact ⟨umount_inv hi path, umount_mapInv hi hm path, umount_pinv hi hp path, umount_xinv hp hx path⟩
      | init o => exact ⟨init_inv hi o, init_mapInv hm o, init_pinv hp o, init_xinv hx o⟩
      | destroy => exact ⟨destroy_inv hi, destroy_mapInv hm, destroy_pinv hp, destroy_xinv hx⟩
      | req r =>
        simp only [step]
        split <;> exact ⟨hi, hm, hp, hx⟩
      | saveRestore m => have := hl (.saveRestore m) (by simp); simp at this
    unfold after
    cases hst : step s op with
    | mk s' rc =>
      obtain ⟨r, c⟩ := rc
      rw [hst] at h1
      cases r <;> first | exact ⟨hi, hm, hp, hx⟩ | exact ih s' hrest h1

/-- saving, restoring into a fresh instance built with the same constructor options and
    re-attaching the backends at their recorded indices gives back *the same state*: same mount
    table (every old inode number routes to the corresponding backend), same pseudo tree, same
    per-mount and global mappings, same options, same `next_super` / `next_inode`.
    PARTIAL with respect to the property text in exactly the known-finding inputs: the hypothesis
    `initialized = (in_opts ≠ 0)` excludes sessions negotiated with no flag bits / destroyed /
    failed INIT (C19:initialized:*), "same constructor options" excludes the lost global mapping
    (C19:global-map-not-restored), and `State.new _ false` excludes `remove_pseudo_root`
    (C19:restore-fails:evicted-parent); counterexample theorems below. -/
theorem restore_save_identity_partial (opts : Opts) (ops : List Op) (hl : liveOps ops)
    (hinit : (after (State.new opts false) ops).initialized = decide ((after (State.new opts false) ops).opts.inOpts ≠ 0)) :
    (saveRestore (after (State.new opts false) ops) .same).1 = after (State.new opts false) ops ∧
    (saveRestore (after (State.new opts false) ops) .same).2.1 = .unit := by
  obtain ⟨hi, hm, hp, hx⟩ := all_invariants_all_histories opts ops hl
  exact saveRestore_identity hi hm hp hx hinit

/-- ... hence the restored instance is a bisimulation partner of the original for every later
    history (mount, umount, init, destroy, every request, further save/restores): all replies and
    all backend call logs are equal, and mounts / pseudo directories created afterwards receive the
    indices and numbers they would have received without the save/restore -/
theorem restore_save_bisimilar_partial (opts : Opts) (ops : List Op) (hl : liveOps ops)
    (hinit : (after (State.new opts false) ops).initialized = decide ((after (State.new opts false) ops).opts.inOpts ≠ 0))
    (later : List Op) :
    run (saveRestore (after (State.new opts false) ops) .same).1 later = run (after (State.new opts false) ops) later := by
  rw [(restore_save_identity_partial opts ops hl hinit).1]

/-! ### previous format version -/

/-- a version-1 snapshot of the same state (no per-mount mappings) still loads, with the same
    pseudo tree, `next_inode`, `next_super` and options; every per-mount mapping is `None` -/
theorem v1_loads (s : State) (h : PInv s) :
    ∃ s', restore s.globalMap s.rmRoot (toV1 (save s)) true = some s' ∧
      s'.pseudo = s.pseudo ∧ s'.nextSuper = s.nextSuper ∧ s'.opts = s.opts ∧
      (∀ i, s'.mountMaps i = none) := by
  have hp : restorePseudo (toV1 (save s)).nextInode (toV1 (save s)).inodes = some s.pseudo := restorePseudo_save h.wf
  unfold restore
  rw [hp]
  refine ⟨_, rfl, rfl, rfl, rfl, ?_⟩
  intro i
  simp only [loadMaps, if_true]
  by_cases hi : i < MAX_VFS_INDEX
  · simp [hi]
  · rw [List.getElem?_eq_none (by simp; omega)]; rfl

/-! ### known findings (the full-strength statement is false of the code) -/

/-- full strength would be: `saveRestore` into a fresh default instance leaves every later answer
    unchanged.  KNOWN FINDING `C19:global-map-not-restored`: the global id mapping is a plain field
    set by `Vfs::new`; a fresh `Vfs::new(VfsOptions::default())` that loads the snapshot translates
    nothing.  Witness: global mapping (0,1000,65536), `/a` mounted, GETATTR by uid 1005: the
    original shows the backend uid 5, the restored instance shows it 1005. -/
theorem global_map_not_restored_counterexample :
    ∃ (s : State) (r : Req), (saveRestore s .dflt).2.1 = .unit ∧
      ((saveRestore s .dflt).1.handle r).map (·.2) ≠ (s.handle r).map (·.2) := by
  refine ⟨(State.new { Opts.default with idMapping := (0, 1000, 65536) } false |>.mount
      { id := 1, mountErr := none, rootIno := 1, rootUid := 5, rootGid := 6, maxIno := 100, ie := 0 } [47, 97] none).1,
    { op := .getattr, uid := 1005, gid := 1006, ino := 1 * SHIFT + 7, ans := .ent 7 5 6 }, ?_, ?_⟩ <;> decide

/-- `restore_save` with the same constructor options is exact on `globalMap` (hypothesis of every
    bisimulation statement): the partial form of the full-strength claim -/
theorem global_map_kept_with_same_ctor_options_partial (s : State) (h : PInv s) :
    ∃ s', restore s.globalMap s.rmRoot (save s) false = some s' ∧ s'.globalMap = s.globalMap := by
  obtain ⟨s', h1, _, _, _, _, h2, _⟩ := restore_save s h
  exact ⟨s', h1, h2⟩

/-- KNOWN FINDING `C19:initialized:*`: `initialized` is not saved but derived from `in_opts`.
    (a) INIT with no flag bits: the original refuses a second INIT, the restored one accepts it;
    (b) INIT + DESTROY: the original accepts a new INIT, the restored one refuses it. -/
theorem initialized_not_restored_counterexample :
    (∃ s : State, s.initialized = true ∧ (saveRestore s .same).1.initialized = false) ∧
    (∃ s : State, s.initialized = false ∧ (saveRestore s .same).1.initialized = true) := by
  refine ⟨⟨((State.new Opts.default false).init 0).1, ?_, ?_⟩,
          ⟨((((State.new Opts.default false).init 1).1).destroy).1, ?_, ?_⟩⟩ <;> decide

/-- ... and `initialized` is reproduced exactly when it agrees with `in_opts ≠ 0` -/
theorem initialized_restored_partial (s : State) (h : PInv s) (hi : s.initialized = decide (s.opts.inOpts ≠ 0)) :
    ∃ s', restore s.globalMap s.rmRoot (save s) false = some s' ∧ s'.initialized = s.initialized := by
  obtain ⟨s', h1, _, _, _, _, _, _, h2, _⟩ := restore_save s h
  exact ⟨s', h1, by rw [h2, hi]⟩

def bkPlain (id : Nat) : Bk := { id := id, mountErr := none, rootIno := 1, rootUid := 0, rootGid := 0, maxIno := 100, ie := 0 }
/-- mount `/a/b`, mount `/a`, umount `/a` on an instance with `remove_pseudo_root` -/
def evictWitness : State :=
  let s0 := State.new Opts.default true
  let s1 := (s0.mount (bkPlain 1) [47, 97, 47, 98] none).1
  let s2 := (s1.mount (bkPlain 2) [47, 97] none).1
  (s2.umount [47, 97]).1

/-- KNOWN FINDING `C19:restore-fails:evicted-parent`: with `remove_pseudo_root`, umount evicts a
    pseudo directory that still has children; the orphan is saved and the snapshot does not load.
    Witness: mount `/a/b`, mount `/a`, umount `/a`. -/
theorem restore_fails_after_evict_counterexample :
    ∃ s : State, s.rmRoot = true ∧ restore s.globalMap s.rmRoot (save s) false = none := by
  refine ⟨evictWitness, ?_, ?_⟩ <;> decide

/-- mount `/a`, mount `/a/../b`, umount `/a` on an instance with `remove_pseudo_root` -/
def recreateWitness : State :=
  let s0 := State.new Opts.default true
  let s1 := (s0.mount (bkPlain 1) [47, 97] none).1
  let s2 := (s1.mount (bkPlain 2) [47, 97, 47, 46, 46, 47, 98] none).1
  (s2.umount [47, 97]).1

/-- KNOWN FINDING `C19:rm-evicted:reattach-recreates-dir`: `restore_mount` walks the recorded
    mount path with `PseudoFs::mount`; a path through an evicted directory creates it again, so
    the restored pseudo tree differs from the original (`a` is back, `next_inode` moved on) -/
theorem reattach_recreates_evicted_dir_counterexample :
    ∃ s : State, s.rmRoot = true ∧ (saveRestore s .same).2.1 = .unit ∧
      (saveRestore s .same).1.pseudo.nextInode ≠ s.pseudo.nextInode := by
  refine ⟨recreateWitness, ?_, ?_, ?_⟩ <;> decide

/-! ### constants pinned against the source -/

/-- the `FsOptions` bits `Vfs::init` manipulates have the values the generated table gives them -/
theorem init_bits_match_source :
    (Fbr.Gen.rustBitflags.find? (·.1 == "FsOptions")).map (fun t =>
      [t.2.2.lookup "ATOMIC_O_TRUNC", t.2.2.lookup "WRITEBACK_CACHE", t.2.2.lookup "ZERO_MESSAGE_OPEN",
       t.2.2.lookup "ZERO_MESSAGE_OPENDIR", t.2.2.lookup "HANDLE_KILLPRIV_V2"])
      = some [some ATOMIC_O_TRUNC, some WRITEBACK_CACHE, some ZERO_MESSAGE_OPEN, some ZERO_MESSAGE_OPENDIR, some HANDLE_KILLPRIV_V2] := by
  decide +kernel

/-! ### non-vacuity -/

def bkA : Bk := { id := 1, mountErr := none, rootIno := 1, rootUid := 5, rootGid := 6, maxIno := 100, ie := 0 }
def sA : State := ((State.new Opts.default false |>.mount bkA [47, 97, 47, 98] (some (0, 1000, 65536))).1.mount
  { bkA with id := 2 } [47, 100] none).1

example : PInv sA := (wellformed_all_histories Opts.default
  [.mount bkA [47, 97, 47, 98] (some (0, 1000, 65536)), .mount { bkA with id := 2 } [47, 100] none] (by intro op h; simp at h; rcases h with h | h <;> subst h <;> rfl)).2
/-- the snapshot lists the three pseudo directories a, a/b, d with their numbers -/
example : (save sA).inodes = [{ ino := 2, parent := 1, name := [97] }, { ino := 3, parent := 2, name := [98] }, { ino := 4, parent := 1, name := [100] }] := by
  decide
/-- save + restore + re-attach gives back both mounts at their indices -/
example : (saveRestore sA .same).2.1 = .unit ∧ ((saveRestore sA .same).1.supers 1).map (·.id) = some 1 ∧
    ((saveRestore sA .same).1.supers 2).map (·.id) = some 2 ∧ (saveRestore sA .same).1.nextSuper = 3 := by
  decide

end Fbr.Thm.C19
