/-
  C14 — UID/GID mapping translates every id crossing the VFS, per mount, both ways.

  PROPERTY THEOREMS ONLY (+ non-vacuity examples).  Model: `Fbr.Vfs` (`remapId`, `remapPair`,
  `State.effectiveMap`, `State.convertEntry`, `State.remapIdx`, `State.handle`, `State.backendReply`).
  Helper lemmas: `Fbr.Lemmas.VfsMap`, `Fbr.Lemmas.VfsRoute`, `Fbr.Lemmas.VfsInv`.
  The model follows the code after the three `fix:` commits recorded in known_findings.json
  (86fa535 double translation of mount roots, 970e802 mapping inherited through slot reuse,
  deb3769 root mount context translated with the global mapping).
-/
import Fbr.Vfs
import Fbr.Persist
import Fbr.Lemmas.VfsInv
import Fbr.Lemmas.VfsMap
import Fbr.Lemmas.VfsRoute
import Fbr.Lemmas.VfsNoPanic
import Fbr.Gen.VfsSync
import Fbr.Gen.VfsMod

namespace Fbr.Thm.C14
open Fbr.Vfs Fbr.Persist Fbr.Lemmas.VfsInv Fbr.Lemmas.VfsMap Fbr.Lemmas.VfsRoute Fbr.Lemmas.VfsNoPanic

/-! ### arithmetic of `remap_id` -/

/-- there and back is the identity on the range, under the exact no-overflow guard
    `base + range ≤ 2^32` on the target side of each direction -/
theorem remap_inverse (v a b r : Nat) (ha : a + r ≤ U32) (hb : b + r ≤ U32) (h1 : a ≤ v) (h2 : v - a < r) :
    ∃ w, remapId v a b r = some w ∧ b ≤ w ∧ w - b < r ∧ remapId w b a r = some v := by
  refine ⟨v - a + b, remapId_in_range hb h1 h2, by omega, by omega, ?_⟩
  rw [remapId_in_range ha (by omega) (by omega)]
  congr 1
  omega

/-- ids outside the source range pass unchanged -/
theorem remap_identity_outside (v a b r : Nat) (h : ¬ (a ≤ v ∧ v - a < r)) : remapId v a b r = some v :=
  remapId_outside h

/-- under the guard the translation of a `u32` never overflows and yields a `u32` -/
theorem remap_total_under_guard (v a b r : Nat) (hb : b + r ≤ U32) (hv : v < U32) :
    ∃ w, remapId v a b r = some w ∧ w < U32 :=
  remapId_total hb hv

/-- the guard is necessary: with `to_base + range > 2^32` an id of the range overflows `u32`
    (mapping (0, 4294967000, 65536), id 1000) -/
theorem remap_guard_needed_counterexample :
    ¬ (∀ v a b r : Nat, v < U32 → a < U32 → b < U32 → r < U32 → (remapId v a b r).isSome = true) := by
  intro h
  have := h 1000 0 4294967000 65536 (by decide) (by decide) (by decide) (by decide)
  revert this
  decide

/-- `remap_id` as a build without overflow checks computes it (wrapping `u32` arithmetic) -/
def remapIdWrap (v a b r : Nat) : Nat := if a ≤ v ∧ v - a < r then (v - a + b) % U32 else v

/-- ... and there the round trip silently fails: 1000 → 704 → 704 -/
theorem wrapping_remap_not_inverse_counterexample :
    ¬ (∀ v a b r : Nat, a ≤ v → v - a < r → remapIdWrap (remapIdWrap v a b r) b a r = v) := by
  intro h
  have := h 1000 0 4294967000 65536 (by decide) (by decide)
  revert this
  decide

/-- with every configured mapping inside the guard and `u32` ids in the request and in the
    backend's answer, no request overflows the id arithmetic (or panics otherwise) -/
theorem request_never_overflows_under_guard (s : State) (hinv : Inv s) (hg : MapsGuarded s) (r : Req)
    (hids : r.uid < U32 ∧ r.gid < U32 ∧ r.setUid < U32 ∧ r.setGid < U32) (hans : AnsOk r.ans) :
    ∃ res calls, s.handle r = some (res, calls) ∧ res ≠ .panic :=
  handle_no_panic hinv hg r hids hans

/-- ... and the guard is necessary at this level too: a mapping beyond it makes a plain GETATTR
    panic (overflow checks on) -/
theorem request_overflows_beyond_guard_counterexample :
    ∃ (s : State) (r : Req), Inv s ∧ r.uid < U32 ∧ r.gid < U32 ∧ s.handle r = none := by
  refine ⟨State.new { Opts.default with idMapping := (4294967000, 0, 65536) } false,
    { op := .getattr, uid := 1000, gid := 0, ino := 1 }, inv_new _ _, by decide, by decide, by decide⟩

/-! ### the mapping in force for a mount -/

/-- `Inv ∧ MapInv` hold after every history of mounts (with or without a mapping), over-mounts,
    umounts, failed mounts, init/destroy and requests — in particular after slot reuse -/
theorem mapping_invariant_all_histories (opts : Opts) (rm : Bool) (ops : List Op)
    (hl : ∀ op ∈ ops, (match op with | .saveRestore _ => false | _ => true) = true) :
    Inv (after (State.new opts rm) ops) ∧ MapInv (after (State.new opts rm) ops) := by
  suffices h : ∀ (ops : List Op) (s : State),
      (∀ op ∈ ops, (match op with | .saveRestore _ => false | _ => true) = true) →
      Inv s ∧ MapInv s → Inv (after s ops) ∧ MapInv (after s ops) from
    h ops _ hl ⟨inv_new opts rm, mapInv_new opts rm⟩
  intro ops
  induction ops with
  | nil => intro s _ h; exact h
  | cons op rest ih =>
    intro s hl ⟨hi, hm⟩
    have hrest : ∀ o ∈ rest, (match o with | .saveRestore _ => false | _ => true) = true :=
      fun o ho => hl o (by simp [ho])
    have h1 : Inv (step s op).1 ∧ MapInv (step s op).1 := by
      cases op with
      | mount b path map => exact ⟨mount_inv hi b path map, mount_mapInv hi hm b path map⟩
      | umount path => exact ⟨umount_inv hi path, umount_mapInv hi hm path⟩
      | init o => exact ⟨init_inv hi o, init_mapInv hm o⟩
      | destroy => exact ⟨destroy_inv hi, destroy_mapInv hm⟩
      | req r =>
        simp only [step]
        split <;> exact ⟨hi, hm⟩
      | saveRestore m => have := hl (.saveRestore m) (by simp); simp at this
    unfold after
    cases hst : step s op with
    | mk s' rc =>
      obtain ⟨r, c⟩ := rc
      rw [hst] at h1
      cases r <;> first | exact ⟨hi, hm⟩ | exact ih s' hrest h1

/-- each mount uses its own mapping if it was given one and the global mapping otherwise:
    `effectiveMap` of a mount point's slot is the mapping recorded at its mount, else the global
    one — whatever occupied the slot before -/
theorem effective_map_is_own_or_global (s : State) (h : MapInv s) (p : Nat) (m : Mnt) (hm : s.mnts p = some m) :
    s.effectiveMap m.idx = (match m.map with
      | some x => some x
      | none => s.globalMap) := by
  obtain ⟨a, _⟩ := h p m hm
  unfold State.effectiveMap
  rw [a]
  cases m.map <;> rfl

/-- the mapping recorded at a mount is the one given to that `mount` call (`None` included), and
    the record names the backend that was mounted -/
theorem mount_records_given_map (s : State) (hn : s.nextSuper < 256) (b : Bk) (path : Name) (map : Option Map) (idx : Nat)
    (h : (s.mount b path map).2.1 = .mounted idx) :
    ∃ p m, (s.mount b path map).1.mnts p = some m ∧ m.idx = idx ∧ m.map = map ∧ m.bk = b.id := by
  rcases mount_cases s hn b path map with ⟨_, hno⟩ | ⟨next, _, _, hno⟩ | ⟨next, idx', _, _, _, _, ⟨_, hno⟩ | ⟨s3, r, hins, h1, hiff⟩⟩
  · exact absurd h (hno idx)
  · exact absurd h (hno idx)
  · exact absurd h (hno idx)
  · obtain ⟨hr, hi⟩ := (hiff idx).mp h
    subst hr hi
    obtain ⟨p, m, hm, a, c, d⟩ := insertMountLocked_ok_record hins
    refine ⟨p, m, by rw [h1]; exact hm, a, ?_, c⟩
    rw [d]
    simp [upd]

/-! ### requests: the backend sees internal ids -/

/-- for every operation that reaches a backend: it is the backend of the mount the request inode
    resolves to, and the context ids it sees — and for SETATTR the owner ids to be set — are the
    client's ids translated external → internal with the mapping of *that* mount (also for node 1
    of a root mount, and for LINK whose header addresses the new parent) -/
theorem backend_sees_internal (s : State) (hinv : Inv s) (r : Req) (res : Res) (c : Call)
    (h : s.handle r = some (res, [c])) :
    ∃ b idx i, s.getRealRootfs r.ino = some (.ok (.backend b idx i)) ∧ s.supers idx = some b ∧ c.bk = b.id ∧
      remapPair (s.effectiveMap idx) false r.uid r.gid = some (c.uid, c.gid) ∧
      (r.op = .setattr → ∃ au ag, remapPair (s.effectiveMap idx) false r.setUid r.setGid = some (au, ag) ∧
          c.args = [.n i, .n au, .n ag]) := by
  unfold State.handle at h
  cases h' : s.handle' r with
  | none => simp [h'] at h
  | some x =>
    obtain ⟨res', calls'⟩ := x
    simp only [h', Option.map_some, Option.some.injEq, Prod.mk.injEq] at h
    obtain ⟨_, hc⟩ := h
    subst hc
    obtain ⟨b, idx, i, hg, hb, _, hctx, _, hset⟩ := handle'_delivered s hinv.zero r res' c h'
    exact ⟨b, idx, i, hg, target_slot hg, hb, hctx, hset⟩

/-- the slot whose mapping translates the request context is the slot that serves the request
    (root mount included: the defect fixed by deb3769) -/
theorem ctx_mapping_is_serving_mount (s : State) (ino : Nat) (b : Bk) (idx i : Nat)
    (h : s.getRealRootfs ino = some (.ok (.backend b idx i))) : s.remapIdx ino = idx :=
  remapIdx_of_target h

/-! ### replies: the client sees external ids, translated exactly once -/

/-- entry replies (LOOKUP, MKDIR, MKNOD, SYMLINK, LINK, CREATE): the owner ids the client sees are
    the backend's ids translated internal → external exactly once with the mount's mapping -/
theorem client_sees_external_once_entry (s : State) (r : Req) (idx i ino uid gid : Nat) (e : Ent)
    (hop : r.op = .lookup ∨ r.op = .mkdir ∨ r.op = .mknod ∨ r.op = .symlink ∨ r.op = .link ∨ r.op = .create)
    (hans : r.ans = .ent ino uid gid)
    (h : s.backendReply r idx i = some (.entry e)) :
    remapPair (s.effectiveMap idx) true uid gid = some (e.uid, e.gid) := by
  unfold State.backendReply at h
  simp only [hans] at h
  have hce : ∀ x, (match s.convertEntry idx ino { inode := ino, stIno := ino, uid := uid, gid := gid } with
      | none => none
      | some (.error e) => some (Res.err e)
      | some (.ok e) => some (Res.entry e)) = some (Res.entry x) →
      remapPair (s.effectiveMap idx) true uid gid = some (x.uid, x.gid) := by
    intro x hx
    unfold State.convertEntry at hx
    cases hc : convertInode idx ino with
    | error n => simp [hc] at hx
    | ok v =>
      simp only [hc] at hx
      cases hr : remapPair (s.effectiveMap idx) true uid gid with
      | none => simp [hr] at hx
      | some p =>
        simp only [hr, Option.some.injEq, Res.entry.injEq] at hx
        subst hx
        rfl
  rcases hop with ho | ho | ho | ho | ho | ho <;> (simp only [ho] at h; exact hce e h)

/-- GETATTR / SETATTR replies likewise -/
theorem client_sees_external_once_attr (s : State) (r : Req) (idx i st uid gid x u g : Nat)
    (hop : r.op = .getattr ∨ r.op = .setattr) (hans : r.ans = .ent st uid gid)
    (h : s.backendReply r idx i = some (.attr x u g)) :
    remapPair (s.effectiveMap idx) true uid gid = some (u, g) := by
  unfold State.backendReply at h
  simp only [hans] at h
  rcases hop with ho | ho <;>
  · simp only [ho] at h
    cases hr : remapPair (s.effectiveMap idx) true uid gid with
    | none => simp [hr] at h
    | some p =>
      simp only [hr, Option.map_some, Option.some.injEq, Res.attr.injEq] at h
      obtain ⟨_, h2, h3⟩ := h
      subst h2 h3
      rfl

/-- READDIRPLUS: every entry delivered to the client carries the owner ids of one of the entries
    the backend offered, translated exactly once with the mount's mapping -/
theorem client_sees_external_once_readdirplus (s : State) (r : Req) (idx i : Nat)
    (l : List (Nat × Nat × Nat × Nat × Name)) (e : Option Nat) (out : List PEnt)
    (hop : r.op = .readdirplus) (hans : r.ans = .plus l)
    (h : s.backendReply r idx i = some (.plusents e out)) :
    ∀ y ∈ out, ∃ d ∈ l, remapPair (s.effectiveMap idx) true d.2.2.1 d.2.2.2.1 = some (y.ent.uid, y.ent.gid) ∧
      convertInode idx d.2.1 = .ok y.ent.inode ∧ y.ino = y.ent.inode ∧ y.ent.stIno = y.ent.inode := by
  unfold State.backendReply at h
  simp only [hans, hop] at h
  intro y hy
  generalize hf : dirFold _ r.stop ((List.range l.length).zip l) [] = df at h
  cases df with
  | none => simp at h
  | some pr =>
    obtain ⟨e', out'⟩ := pr
    simp only [Option.map_some, Option.some.injEq, Res.plusents.injEq] at h
    obtain ⟨_, h2⟩ := h
    subst h2
    rcases dirFold_mem _ _ _ _ _ _ hf y hy with hm | ⟨x, hx, hfx⟩
    · simp at hm
    · have hxl : x.2 ∈ l := (List.of_mem_zip hx).2
      refine ⟨x.2, hxl, ?_⟩
      cases hc : convertInode idx x.2.2.1 with
      | error n => simp [hc] at hfx
      | ok ino =>
        simp only [hc] at hfx
        cases hr : remapPair (s.effectiveMap idx) true x.2.2.2.1 x.2.2.2.2.1 with
        | none => simp [hr] at hfx
        | some p =>
          simp only [hr, Option.map_some, Option.some.injEq, Except.ok.injEq] at hfx
          subst hfx
          exact ⟨rfl, rfl, rfl, rfl⟩

/-- mount roots: a LOOKUP that crosses a mount point returns the root of the mounted backend with
    its owner translated exactly once with the mount's own (else the global) mapping — not twice
    (the defect fixed by 86fa535) and not with a stranger's mapping (970e802) -/
theorem mount_root_seen_external_once_lookup (s : State) (h : MapInv s) (idata : Nat) (name : Name) (ino : Nat) (m : Mnt)
    (hl : s.pseudo.lookup (lowIno idata) name = .ok ino) (hm : s.mnts ino = some m) :
    ∃ b, s.supers m.idx = some b ∧
      s.lookupPseudo idata name = some (.entry m.rootEntry) ∧
      remapPair (match m.map with
                 | some x => some x
                 | none => s.globalMap) true b.rootUid b.rootGid = some (m.rootEntry.uid, m.rootEntry.gid) := by
  obtain ⟨_, b, hb, _, _, _, hr⟩ := h ino m hm
  refine ⟨b, hb, ?_, ?_⟩
  · unfold State.lookupPseudo
    simp [hl, hm]
  · rw [← effective_map_is_own_or_global s h ino m hm]
    exact hr

/-- ... and READDIRPLUS of a pseudo directory shows the same once-translated root entry -/
theorem mount_root_seen_external_once_readdirplus (s : State) (r : Req) (idata : Nat)
    (l : List (Nat × Nat × Name)) (e : Option Nat) (out : List PEnt)
    (hop : r.op = .readdirplus) (hl : s.pseudo.dirList (lowIno idata) r.size r.off = .ok l)
    (h : s.pseudoReq r idata = some (.plusents e out)) :
    ∀ y ∈ out, ∃ d ∈ l, ∀ m, s.mnts d.1 = some m →
      y.ent.uid = m.rootEntry.uid ∧ y.ent.gid = m.rootEntry.gid ∧ y.ent.inode = m.rootEntry.inode := by
  unfold State.pseudoReq at h
  simp only [hop, hl] at h
  intro y hy
  generalize hf : dirFold _ r.stop l [] = df at h
  cases df with
  | none => simp at h
  | some pr =>
    obtain ⟨e', out'⟩ := pr
    simp only [Option.map_some, Option.some.injEq, Res.plusents.injEq] at h
    obtain ⟨_, h2⟩ := h
    subst h2
    rcases dirFold_mem _ _ _ _ _ _ hf y hy with hm | ⟨x, hx, hfx⟩
    · simp at hm
    · refine ⟨x, hx, ?_⟩
      intro m hm
      simp only [hm, Option.some.injEq] at hfx
      cases hc : convertInode m.idx m.ino with
      | error n => simp [hc, Except.map] at hfx
      | ok v =>
        simp only [hc, Except.map, Except.ok.injEq] at hfx
        subst hfx
        exact ⟨rfl, rfl, rfl⟩

/-! ### known finding: owner of pseudo directories -/

/-- KNOWN FINDING `C14:pseudo-dir:lookup-getattr-differ`: under a global mapping a pseudo directory
    reports its (synthetic, internal 0) owner translated in LOOKUP but untranslated in GETATTR and
    READDIRPLUS.  Concrete witness: global mapping (0, 1000, 65536), `/a/b` mounted, pseudo dir `a`
    (inode 2): LOOKUP shows uid 1000, GETATTR shows uid 0.  The theorems above are therefore stated
    for backend-owned inodes and mount roots; this one records the exception. -/
theorem pseudo_dir_owner_counterexample :
    ∃ (s : State) (idata : Nat) (name : Name) (e : Ent) (u g : Nat),
      s.lookupPseudo idata name = some (.entry e) ∧
      s.pseudoReq { op := .getattr, uid := 0, gid := 0, ino := e.inode } e.inode = some (.attr e.inode u g) ∧
      e.uid ≠ u := by
  refine ⟨(State.new { Opts.default with idMapping := (0, 1000, 65536) } false |>.mount
      { id := 1, mountErr := none, rootIno := 1, rootUid := 5, rootGid := 6, maxIno := 100, ie := 0 } [47, 97, 47, 98] none).1,
    1, [97], { inode := 2, stIno := 2, uid := 1000, gid := 1000 }, 0, 0, ?_, ?_, ?_⟩ <;> decide

/-! ### source structure (generated tables) -/

def callsOf (tbl : List (String × String × String × String × List (String × List String) × List String)) (fn : String) : List String :=
  match tbl.find? (fun f => f.2.2.1 == fn) with
  | some f => f.2.2.2.2.2
  | none => []

/-- the translation call sites the model assumes are the ones in the source today: GETATTR and
    SETATTR convert the reply (`convert_attr`), SETATTR translates the owner first
    (`remap_attr_id`), the entry operations go through `convert_backend_entry`, READDIRPLUS
    translates each entry (`remap_attr_id`), `id_remap_with_nodeid` translates the context with the
    effective mapping, and `lookup_pseudo` calls `convert_entry` exactly once (the non-crossing
    branch; the crossing branch returns the stored root entry) -/
theorem translation_call_sites_match_source :
    "self.convert_attr" ∈ callsOf Fbr.Gen.vfsSyncFns "getattr" ∧
    "self.convert_attr" ∈ callsOf Fbr.Gen.vfsSyncFns "setattr" ∧
    "self.remap_attr_id" ∈ callsOf Fbr.Gen.vfsSyncFns "setattr" ∧
    "self.remap_attr_id" ∈ callsOf Fbr.Gen.vfsSyncFns "readdirplus" ∧
    (∀ fn ∈ ["lookup", "symlink", "mknod", "mkdir", "link", "create"],
        "self.convert_backend_entry" ∈ callsOf Fbr.Gen.vfsSyncFns fn) ∧
    "self.remap_ctx_ids" ∈ callsOf Fbr.Gen.vfsSyncFns "id_remap_with_nodeid" ∧
    "self.get_effective_id_mapping" ∈ callsOf Fbr.Gen.vfsSyncFns "id_remap_with_nodeid" ∧
    ((callsOf Fbr.Gen.vfsModFns "lookup_pseudo").filter (· == "self.convert_entry")).length = 1 ∧
    "self.get_effective_id_mapping" ∈ callsOf Fbr.Gen.vfsModFns "convert_entry" ∧
    "self.mount_id_mappings.store" ∈ callsOf Fbr.Gen.vfsModFns "mount_with_id_mapping" := by
  decide +kernel

/-! ### non-vacuity -/

def bkA : Bk := { id := 1, mountErr := none, rootIno := 1, rootUid := 5, rootGid := 6, maxIno := 100, ie := 0 }
def sA : State := (State.new Opts.default false |>.mount bkA [47, 97] (some (0, 1000, 65536))).1

/-- `remap_inverse` has instances: 5 ↦ 1005 ↦ 5 under (0, 1000, 65536) -/
example : remapId 5 0 1000 65536 = some 1005 ∧ remapId 1005 1000 0 65536 = some 5 := by decide
/-- a getattr by external uid 1005 reaches the backend as internal uid 5; the backend's owner 5 is
    shown as 1005 -/
example : sA.handle { op := .getattr, uid := 1005, gid := 1006, ino := 1 * SHIFT + 7, ans := .ent 7 5 6 }
    = some (.attr (1 * SHIFT + 7) 1005 1006, [{ bk := 1, method := .req .getattr, uid := 5, gid := 6, args := [.n 7] }]) := by
  decide
/-- crossing lookup of the mount root: owner 5 shown as 1005 (once), not 2005 -/
example : sA.lookupPseudo 1 [97] = some (.entry { inode := 1 * SHIFT + 1, stIno := 1 * SHIFT + 1, uid := 1005, gid := 1006 }) := by
  decide
example : MapInv sA := mount_mapInv (inv_new _ _) (mapInv_new _ _) _ _ _

end Fbr.Thm.C14
