/-
  C12 — INIT negotiation enables exactly the features both sides asked for.

  PROPERTY THEOREMS ONLY.  Model: the INIT part of `Fbr.Srv` (`initCapable`, `initEnabled`,
  `initFlagsOut`, `initOutFull`, `initOutBody`, `initHandler`), tied to `Server::init` by the
  `srv` correspondence run (all majors/minors/flag words/presence of the extended payload/`want`
  sets) and the direct INIT oracle.  Bit-level statements use `Nat.testBit`, so they hold for
  every flag word, not a sample.

  The layer toggles (VFS / passthrough / overlay: no_open, no_opendir, writeback, killpriv_v2,
  perfile_dax "only when negotiated") and "the VFS refuses a second INIT" are stated over
  `Fbr.InitFs`, tied to `Vfs::init`, `PassthroughFs::init`, `OverlayFs::init` by the `initfs`
  correspondence run (toggles observed by behaviour: OPEN/OPENDIR → ENOSYS, FUSE_ATTR_DAX).
-/
import Fbr.Lemmas.SrvReply
import Fbr.Gen.AbiRust
import Fbr.InitFs
import Fbr.Lemmas.Bits

namespace Fbr.Thm.C12
open Fbr.Srv Fbr.Wire

/-- the bits `FsOptions` knows, from the generated bitflags table of today's source -/
def fsOptionsAllFromSource : Nat :=
  match Gen.rustBitflags.find? (·.1 == "FsOptions") with
  | some (_, _, ms) => ms.foldl (fun acc m => acc ||| m.2) 0
  | none => 0

/-- the model's mask of known option bits is exactly the union of today's `FsOptions` members -/
theorem known_bits_from_source : FS_OPTIONS_ALL = fsOptionsAllFromSource := by decide +kernel

theorem init_ext_bit : INIT_EXT = 2 ^ 30 := by decide

/-- **Enabled is the intersection**: a bit is enabled iff the client offered it (capable), the
    file system wants it, and the library knows it. -/
theorem enabled_is_intersection (capable want : Nat) (i : Nat) :
    (initEnabled capable want).testBit i =
      (capable.testBit i && (want.testBit i && FS_OPTIONS_ALL.testBit i)) := by
  simp [initEnabled, Nat.testBit_and]

/-- capable = the offered words restricted to known bits; `flags2` counts only when INIT_EXT is
    set AND the extended payload is present; without the payload INIT_EXT itself is dropped -/
theorem capable_with_payload (flags : Nat) (rest : Bytes) (hext : flags &&& INIT_EXT != 0)
    (hp : rest.length ≥ 48) :
    initCapable flags rest = (flags ||| (u32At rest 0 <<< 32)) &&& FS_OPTIONS_ALL := by
  simp [initCapable, hext, hp]

theorem capable_without_payload (flags : Nat) (rest : Bytes) (hext : flags &&& INIT_EXT != 0)
    (hp : rest.length < 48) :
    initCapable flags rest = (flags &&& (2 ^ 64 - 1 - INIT_EXT)) &&& FS_OPTIONS_ALL := by
  have : ¬ rest.length ≥ 48 := by omega
  simp [initCapable, hext, this]

theorem capable_without_ext (flags : Nat) (rest : Bytes) (hext : ¬ (flags &&& INIT_EXT != 0)) :
    initCapable flags rest = flags &&& FS_OPTIONS_ALL := by
  simp [initCapable, hext]

/-- a 32-bit `flags` word offers no extended bit unless INIT_EXT and the payload are there -/
theorem capable_no_extended_without_marker (flags : Nat) (rest : Bytes) (hf : flags < 2 ^ 32)
    (h : ¬ (flags &&& INIT_EXT != 0) ∨ rest.length < 48) (i : Nat) (hi : 32 ≤ i) :
    (initCapable flags rest).testBit i = false := by
  have hflag : flags.testBit i = false := Nat.testBit_lt_two_pow (Nat.lt_of_lt_of_le hf (Nat.pow_le_pow_right (by decide) hi))
  rcases h with h | h
  · rw [capable_without_ext flags rest h]; simp [Nat.testBit_and, hflag]
  · by_cases hext : flags &&& INIT_EXT != 0
    · rw [capable_without_payload flags rest hext h]; simp [Nat.testBit_and, hflag]
    · rw [capable_without_ext flags rest hext]; simp [Nat.testBit_and, hflag]

/-- the word sent back differs from the enabled set at most in the INIT_EXT marker -/
theorem flags_out_bits (en : Nat) (i : Nat) (hi : i ≠ 30) :
    (initFlagsOut en).testBit i = en.testBit i := by
  unfold initFlagsOut
  split
  · rw [Nat.testBit_or, init_ext_bit, Nat.testBit_two_pow]
    simp [Ne.symm hi]
  · rfl

/-- **Extended bits only together with the marker**: whenever the `flags2` half of the reply is
    non-zero, the `flags` half carries INIT_EXT (bit 30), so the client will read `flags2`. -/
theorem extended_bits_need_marker (en : Nat) (h : initFlagsOut en >>> 32 ≠ 0) :
    (initFlagsOut en).testBit 30 = true := by
  unfold initFlagsOut at h ⊢
  split
  · rw [Nat.testBit_or, init_ext_bit, Nat.testBit_two_pow]; simp
  · next hz =>
    simp only [bne_iff_ne, ne_eq, Decidable.not_not] at hz
    rw [if_neg (by simpa using hz)] at h
    exact absurd hz h

/-- and the marker is added only when an extended bit is enabled (never gratuitously) -/
theorem marker_only_when_needed (en : Nat) (h30 : en.testBit 30 = false) (hz : en >>> 32 = 0) :
    (initFlagsOut en).testBit 30 = false := by
  unfold initFlagsOut
  simp [hz, h30]

/-- the reply is laid out for the client's minor version: 8, 24 or 64 bytes -/
theorem reply_layout_by_minor (cfg : Cfg) (minor ra en : Nat) :
    (initOutBody cfg minor ra en).length = if minor < 5 then 8 else if minor < 23 then 24 else 64 := by
  unfold initOutBody
  have hl : (initOutFull cfg ra en).length = 64 := by simp [initOutFull]
  split
  · simp [List.length_take, hl]
  · split
    · simp [List.length_take, hl]
    · exact hl

/-- the fields of the full reply as the kernel reads them: version 7.33, echoed readahead,
    `flags`/`flags2` = the two halves of the word above, the write limit and page count -/
theorem init_out_fields (cfg : Cfg) (ra en : Nat) (rest : Bytes) :
    u32At (initOutFull cfg ra en ++ rest) 0 = 7 ∧ u32At (initOutFull cfg ra en ++ rest) 4 = 33 ∧
    u32At (initOutFull cfg ra en ++ rest) 8 = ra % 2 ^ 32 ∧
    u32At (initOutFull cfg ra en ++ rest) 12 = initFlagsOut en % 2 ^ 32 % 2 ^ 32 ∧
    u32At (initOutFull cfg ra en ++ rest) 20 = initMaxWrite cfg en % 2 ^ 32 ∧
    u32At (initOutFull cfg ra en ++ rest) 32 = (initFlagsOut en >>> 32) % 2 ^ 32 := by
  have s16 : ∀ (v : Nat) (r : Bytes) (off : Nat), 2 ≤ off → u32At (le16 v ++ r) off = u32At r (off - 2) := by
    intro v r off h; rw [u32At_skip _ _ _ (by simpa using h)]; simp
  refine ⟨?_, ?_, ?_, ?_, ?_, ?_⟩ <;>
    (unfold initOutFull KERNEL_VERSION KERNEL_MINOR_VERSION
     simp (disch := omega) only [List.append_assoc, u32At_skip32, s16, Nat.reduceSub, u32At_le32, Nat.reduceMod, Nat.reducePow])

/-- a lower major is refused with EPROTO and the file system is never asked -/
theorem major_too_low (cfg : Cfg) (fs : Call → Ans) (u : Nat) (calls0 : List Call) (rest b : Bytes)
    (h : u32At b 0 < 7) :
    initHandler cfg fs u calls0 rest b = errRes cfg u calls0 [] (.os EPROTO) := by
  unfold initHandler KERNEL_VERSION
  simp [h]

/-- a higher major is answered with a bare 7.33 reply (the client retries with 7.x) and the file
    system is never asked -/
theorem major_too_high (cfg : Cfg) (fs : Call → Ans) (u : Nat) (calls0 : List Call) (rest b : Bytes)
    (h : u32At b 0 > 7) :
    initHandler cfg fs u calls0 rest b =
      okRes cfg u calls0 [] (le32 7 ++ le32 33 ++ zeros 56) [] cfg.minor := by
  unfold initHandler KERNEL_VERSION KERNEL_MINOR_VERSION
  have : ¬ u32At b 0 < 7 := by omega
  simp [h, this]

/-- the negotiated write size always fits the request buffer (4 KiB page size):
    max_write + header room ≤ 1 MiB + 4 KiB, and is never zero -/
theorem max_write_fits (cfg : Cfg) (en : Nat) (hp : cfg.pagesize = 4096) :
    initMaxWrite cfg en + BUFFER_HEADER_SIZE ≤ MAX_BUFFER_SIZE + BUFFER_HEADER_SIZE ∧ 0 < initMaxWrite cfg en := by
  unfold initMaxWrite MAX_REQ_PAGES MIN_READ_BUFFER BUFFER_HEADER_SIZE MAX_BUFFER_SIZE
  rw [hp]
  split
  · decide
  · split <;> decide

/-- max_pages is reported exactly when MAX_PAGES was negotiated -/
theorem max_pages_iff (en : Nat) : initMaxPages en = (if en &&& MAX_PAGES_FLAG != 0 then 256 else 0) := rfl

/-- non-vacuity: a client offering INIT_EXT + per-file DAX with the payload present, and a file
    system wanting per-file DAX, get bit 33 and the marker -/
example :
    let cap := initCapable (INIT_EXT ||| 0x20) (le32 2 ++ zeros 44)
    let en := initEnabled cap 0x200000000
    en = 0x200000000 ∧ (initFlagsOut en).testBit 30 = true ∧ initFlagsOut en >>> 32 = 2 := by
  decide

/-! ### the layers switch features on only when negotiated -/
section Layers
open Fbr.InitFs

/-- rewrite option tests into bit tests -/
macro "bits" : tactic => `(tactic|
  simp only [ZMO_pow, ZMOD_pow, WB_pow, KP2_pow, AOT_pow, DAX_pow, RDP_pow, RDPA_pow, has_pow,
    Nat.testBit_and, Nat.testBit_or, Nat.testBit_two_pow, without_bit _ _ _ (by decide : (3 : Nat) < 64),
    without_bit _ _ _ (by decide : (16 : Nat) < 64), without_bit _ _ _ (by decide : (17 : Nat) < 64),
    without_bit _ _ _ (by decide : (24 : Nat) < 64), without_bit _ _ _ (by decide : (28 : Nat) < 64),
    without_bit _ _ _ (by decide : (33 : Nat) < 64)] at *)

/-- **VFS**: after `init`, no-open mode is on only if the client offered zero-message open AND
    the options the VFS returns (hence the reply) carry it; likewise no-opendir.  For every
    option record (including caller-supplied `out_opts`) and every capability word. -/
theorem vfs_toggles_only_when_negotiated (o : VfsOpts) (capable : Nat) :
    ((vfsNegotiate o capable).noOpen = true →
        has capable ZERO_MESSAGE_OPEN = true ∧ has (vfsNegotiate o capable).outOpts ZERO_MESSAGE_OPEN = true) ∧
    ((vfsNegotiate o capable).noOpendir = true →
        has capable ZERO_MESSAGE_OPENDIR = true ∧ has (vfsNegotiate o capable).outOpts ZERO_MESSAGE_OPENDIR = true) := by
  unfold vfsNegotiate
  cases h1 : o.noOpen <;> cases h2 : o.noOpendir <;> cases h3 : o.noWriteback <;> cases h4 : o.killprivV2 <;>
    (simp only [Bool.false_and, Bool.true_and, Bool.not_false, Bool.not_true, if_true, if_false,
       Bool.false_eq_true]
     bits
     simp
     try (intros; simp_all))

/-- and conversely the VFS never drops a negotiated zero-message mode it was configured for -/
theorem vfs_toggles_when_negotiated (o : VfsOpts) (capable : Nat) (h : o.noOpen = true)
    (hn : has (vfsNegotiate o capable).outOpts ZERO_MESSAGE_OPEN = true) :
    (vfsNegotiate o capable).noOpen = true := by
  unfold vfsNegotiate at hn ⊢
  cases h2 : o.noOpendir <;> cases h3 : o.noWriteback <;> cases h4 : o.killprivV2 <;>
    (simp only [h, h2, h3, h4, Bool.true_and, Bool.not_false, Bool.not_true, if_true, if_false, Bool.false_eq_true] at hn ⊢
     bits
     simp_all)

/-- the VFS never asks for an option the server did not offer -/
theorem vfs_wants_within_offered (o : VfsOpts) (capable : Nat) (i : Nat) :
    (vfsNegotiate o capable).outOpts.testBit i = true → capable.testBit i = true := by
  unfold vfsNegotiate
  simp only [Nat.testBit_and]
  intro h
  simp at h
  exact h.2

/-- **The VFS refuses a second INIT** (and accepts one again after DESTROY) — for every history -/
theorem second_init_refused (s : VfsState) (c1 c2 : Nat) :
    (vfsInit (vfsInit s c1).1 c2).2 = none ∨ s.initialized = true ∧ (vfsInit s c1).2 = none := by
  unfold vfsInit
  cases h : s.initialized <;> simp [h]

theorem init_after_destroy_accepted (s : VfsState) (c : Nat) : (vfsInit (vfsDestroy s) c).2 ≠ none := by
  simp [vfsInit, vfsDestroy]

theorem gate_and (c : LayerCfg) (sw : Bool) (capable k : Nat) :
    gate c sw capable (2 ^ k) = (capable.testBit k && gate c sw capable (2 ^ k)) := by
  unfold gate
  rw [has_pow]
  cases capable.testBit k <;> simp

/-- **Passthrough**: each toggle is on exactly when its feature bit is both offered and wanted
    (the server enables `capable ∩ want`), standalone or under the VFS, for every configuration
    and capability word. -/
theorem pt_toggles_iff_negotiated (c : LayerCfg) (capable : Nat) :
    ((ptInit c capable).2.noOpen = has (capable &&& (ptInit c capable).1) ZERO_MESSAGE_OPEN) ∧
    ((ptInit c capable).2.noOpendir = has (capable &&& (ptInit c capable).1) ZERO_MESSAGE_OPENDIR) ∧
    ((ptInit c capable).2.writeback = has (capable &&& (ptInit c capable).1) WRITEBACK_CACHE) ∧
    ((ptInit c capable).2.killprivV2 = has (capable &&& (ptInit c capable).1) HANDLE_KILLPRIV_V2) ∧
    ((ptInit c capable).2.perfileDax = has (capable &&& (ptInit c capable).1) PERFILE_DAX) := by
  unfold ptInit
  simp only
  obtain ⟨b16, b17, b24, b28, b33, _⟩ := ptOpts_bits (gate c c.writeback capable WRITEBACK_CACHE)
    (gate c c.noOpen capable ZERO_MESSAGE_OPEN) (gate c c.noOpendir capable ZERO_MESSAGE_OPENDIR)
    (gate c c.killprivV2 capable HANDLE_KILLPRIV_V2) (has capable PERFILE_DAX)
  simp only [ZMO_pow, ZMOD_pow, WB_pow, KP2_pow, DAX_pow] at *
  refine ⟨?_, ?_, ?_, ?_, ?_⟩
  · rw [has_pow, Nat.testBit_and, b17]; exact gate_and c c.noOpen capable 17
  · rw [has_pow, Nat.testBit_and, b24]; exact gate_and c c.noOpendir capable 24
  · rw [has_pow, Nat.testBit_and, b16]; exact gate_and c c.writeback capable 16
  · rw [has_pow, Nat.testBit_and, b28]; exact gate_and c c.killprivV2 capable 28
  · simp only [has_pow, Nat.testBit_and] at b33 ⊢
    rw [b33]; cases capable.testBit 33 <;> rfl

/-- with no-open negotiated the passthrough never also advertises ATOMIC_O_TRUNC -/
theorem pt_no_atomic_trunc (c : LayerCfg) (capable : Nat) : (ptInit c capable).1.testBit 3 = false :=
  (ptOpts_bits _ _ _ _ _).2.2.2.2.2

/-- **Overlay**: no-open / no-opendir / writeback / kill-priv exactly as the passthrough; per-file
    DAX is on exactly when the configuration asks for it and the bit is offered, and the option
    word carries the bit exactly then. -/
theorem ovl_toggles_iff_negotiated (c : LayerCfg) (capable : Nat) :
    ((ovlInit c capable).2.noOpen = (ptInit c capable).2.noOpen) ∧
    ((ovlInit c capable).2.noOpendir = (ptInit c capable).2.noOpendir) ∧
    ((ovlInit c capable).2.writeback = (ptInit c capable).2.writeback) ∧
    ((ovlInit c capable).2.killprivV2 = (ptInit c capable).2.killprivV2) ∧
    ((ovlInit c capable).2.perfileDax = (c.perfileDax && capable.testBit 33)) ∧
    ((ovlInit c capable).1.testBit 33 = (ovlInit c capable).2.perfileDax) := by
  unfold ovlInit
  simp only [DAX_pow, has_pow]
  refine ⟨trivial, trivial, trivial, trivial, trivial, ?_⟩
  cases hd : (c.perfileDax && capable.testBit 33)
  · simp only [Bool.false_eq_true, if_false]
    rw [without_bit _ _ _ (by decide)]
    simp
  · simp only [if_true]
    rw [Nat.testBit_or, Nat.testBit_two_pow]
    simp

end Layers

end Fbr.Thm.C12
