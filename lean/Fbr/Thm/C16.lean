/-
  C16 — directory listing returns each entry exactly once across any chunking/resumption.
  (property theorems only; helper lemmas live in Fbr/Lemmas/PtDir*.lean)
-/
import Fbr.PtDir

namespace Fbr.Thm.C16
open Fbr.PtDir

/-- placeholder while the engine is brought up: a zero-size request delivers nothing -/
theorem size_zero_delivers_nothing (H : Host) (st : St) (plus : Bool) (h off : Nat) :
    (readReq H st plus h 0 off none).2 = .ok [] := by
  simp [readReq, doReaddir]

end Fbr.Thm.C16
