/-
  C16 — directory listing returns each entry exactly once across any chunking / resumption.

  Model: `Fbr.PtDir` — `do_readdir` of the passthrough file system with the cached-cookie fast
  path, the `lseek64` path, the linear-scan fallback, the dot-only refetch loop and the record
  loop; the host is a list of records `(ino, cookie, type, name)` in host order read through
  `getdents` (longest prefix that fits); the server's `add_dirent` accounting (`Fbr.Srv.addDirent`)
  is the callback; `PseudoFs::do_readdir`.  Byte-level `skip_to_cookie` / `last_cookie_in_buf` /
  `only_dot_entries` work on raw buffers.  Helper lemmas: `Fbr.Lemmas.PtDir*`.
  PROPERTY THEOREMS ONLY here (+ non-vacuity examples).

  Vocabulary (defined with the lemmas): `WF d` distinct non-zero cookies, NUL-free names;
  `Pos d c rest` — `c` is 0 or the cookie of a record and `rest` is what follows; `real` drops
  "." / ".."; `view e` the `DirEntry` delivered for a record; `fuseLen plus n` the bytes
  `add_dirent` accounts for a name of length `n`; `Inv st` the (fd position, cached cookie)
  invariant; `walk` a sequential walk (each request preceded by arbitrary other requests — any
  handles, offsets, sizes, READDIR or READDIRPLUS, opendir/releasedir — and issued on any handle of
  the walker's set, or on none in no_opendir mode); `Adequate` every buffer of the walk can hold at
  least the next not-yet-delivered entry.

  Defects found for this property were repaired in /repo (`fix:` 3fb9b95: readdirplus kept the
  reference of an entry whose callback failed; 990c44d: a batch of only "." / ".." produced a
  premature empty reply); the model follows the repaired code.
-/
import Fbr.Lemmas.PtDirRefs
import Fbr.Lemmas.PtDirBuf
import Fbr.Lemmas.PtDirPseudo
import Fbr.Lemmas.PtDirScanFail

namespace Fbr.Thm.C16
open Fbr.PtDir Fbr.Wire Fbr.Lemmas.PtDir

/-- **Listing complete, each entry once.**  On a host whose `lseek64` accepts every position
    (all cookies ≤ i64::MAX — ext4, xfs, tmpfs, …): for every well-formed directory, every state
    reachable so far (`Inv`), every sequential walk from offset 0 — any sequence of buffer sizes each
    able to hold the next entry, plain or plus per request, on any of the walker's handles `W` or
    without opendir, interleaved with arbitrary other requests on any handles (going back, other
    streams, opening, closing other streams) — the concatenation of the replies is exactly the
    directory without "." / ".." in host order, each record once, and the walk ends with an empty
    reply, provided it is allowed at least one request more than there are entries. -/
theorem listing_complete_once {H : Host} (wf : WF H.dir) (hq : H.eofQuirk = false)
    (hseek : ∀ c, H.seekErr c = none) (hcookies : ∀ e ∈ H.dir, e.cookie ≤ I64_MAX)
    (W : List Nat) (st : St) (inv : Inv st) (hW : Open st W) (steps : List Step)
    (hsteps : ∀ s ∈ steps, (∀ op ∈ s.noise, ∀ h ∈ W, op ≠ .releasedir h) ∧ (st.noOpendir = true ∨ s.h ∈ W))
    (hadq : Adequate H st 0 (real H.dir) steps) (hlen : (real H.dir).length < steps.length) :
    (walk H st 0 steps).flatten = (real H.dir).map view ∧ (walk H st 0 steps).getLast? = some [] := by
  apply walk_complete wf hq W st.noOpendir steps st 0 H.dir inv rfl hW (Or.inl ⟨rfl, rfl⟩) hsteps _ hadq hlen
  apply along_of_forall
  intro s _ st' c' rest' hp hfits
  refine ⟨hfits, fun _ => Or.inl ⟨?_, hseek c'⟩⟩
  rcases hp with ⟨h0, _⟩ | ⟨pre, e, hd, hc⟩
  · rw [h0]; exact Nat.zero_le _
  · rw [← hc]; exact hcookies e (by rw [hd]; simp)

/-- **…also through the linear-scan fallback**, at full strength: cookies may exceed i64::MAX
    and `lseek64` may answer `EINVAL` for any cookie but 0 (NFS), so that requests whose cached
    cookie does not hit go through the rewind-and-scan path.  The scan re-reads the directory from
    the start with the *request's* size, up to the record the client resumes after; `ScanGuard`,
    checked along the actual walk (`Along`), asks exactly that of each such request: the records up
    to and including the one whose cookie is the resume offset — records this walk has already
    delivered (or "." / "..") — fit the request's buffer.  Nothing is asked of requests that hit
    the cached cookie or whose cookie `lseek64` takes, and nothing about records not yet
    delivered beyond `Adequate` (the next entry fits).  The guard cannot be weakened:
    `fallback_guard_necessary` shows that a request violating it fails with `EINVAL`
    (`fallback_tiny_size_counterexample` is an instance).  Proved by induction over walks
    (`walk_complete`). -/
theorem listing_complete_once_fallback {H : Host} (wf : WF H.dir) (hq : H.eofQuirk = false)
    (hseek : ∀ c, H.seekErr c = none ∨ H.seekErr c = some EINVAL) (hseek0 : H.seekErr 0 = none)
    (W : List Nat) (st : St) (inv : Inv st) (hW : Open st W) (steps : List Step)
    (hsteps : ∀ s ∈ steps, (∀ op ∈ s.noise, ∀ h ∈ W, op ≠ .releasedir h) ∧ (st.noOpendir = true ∨ s.h ∈ W))
    (hguard : Along H (ScanGuard H) st 0 steps)
    (hadq : Adequate H st 0 (real H.dir) steps) (hlen : (real H.dir).length < steps.length) :
    (walk H st 0 steps).flatten = (real H.dir).map view ∧ (walk H st 0 steps).getLast? = some [] := by
  apply walk_complete wf hq W st.noOpendir steps st 0 H.dir inv rfl hW (Or.inl ⟨rfl, rfl⟩) hsteps _ hadq hlen
  refine along_mono H _ _ ?_ steps st 0 hguard
  intro s st' c' hg rest' hp hfits
  refine ⟨hfits, fun hhit => ?_⟩
  by_cases h0 : c' = 0
  · left; rw [h0]; exact ⟨Nat.zero_le _, hseek0⟩
  · by_cases hle : c' ≤ I64_MAX
    · rcases hseek c' with h | h
      · exact Or.inl ⟨hle, h⟩
      · exact Or.inr ⟨Or.inr h, h0, fun pre e hd hc => hg hhit (Or.inr h) pre e rest' hd hc⟩
    · exact Or.inr ⟨Or.inl (by omega), h0, fun pre e hd hc => hg hhit (Or.inl (by omega)) pre e rest' hd hc⟩

/-- a uniform sufficient condition for the guard (the earlier `_partial` hypothesis): every request
    buffer holds every record of the directory (any buffer ≥ 280 bytes does) -/
theorem listing_complete_once_fallback_big_buffers {H : Host} (wf : WF H.dir) (hq : H.eofQuirk = false)
    (hseek : ∀ c, H.seekErr c = none ∨ H.seekErr c = some EINVAL) (hseek0 : H.seekErr 0 = none)
    (W : List Nat) (st : St) (inv : Inv st) (hW : Open st W) (steps : List Step)
    (hsteps : ∀ s ∈ steps, (∀ op ∈ s.noise, ∀ h ∈ W, op ≠ .releasedir h) ∧ (st.noOpendir = true ∨ s.h ∈ W))
    (hbig : ∀ s ∈ steps, ∀ e ∈ H.dir, reclen e ≤ s.size)
    (hadq : Adequate H st 0 (real H.dir) steps) (hlen : (real H.dir).length < steps.length) :
    (walk H st 0 steps).flatten = (real H.dir).map view ∧ (walk H st 0 steps).getLast? = some [] := by
  apply listing_complete_once_fallback wf hq hseek hseek0 W st inv hW steps hsteps _ hadq hlen
  apply along_of_forall
  intro s hs st' c' _ _ pre e rest hd _ x hx
  apply hbig s hs x
  rw [hd]
  rcases List.mem_append.mp hx with h | h
  · exact List.mem_append_left _ h
  · rw [List.mem_singleton.mp h]; simp

/-- **the guard of the fallback is necessary**: a request that resumes after a record of the
    directory and violates `ScanGuard` — the cached cookie does not hit, `lseek64` cannot take the
    cookie, and some record up to and including that one does not fit the buffer — is answered
    `EINVAL` (the scan's `getdents64` on that record fails), whatever the state. -/
theorem fallback_guard_necessary {H : Host} (wf : WF H.dir) (hq : H.eofQuirk = false) (s : Step) (st : St) (c : Nat)
    (hc : ∃ pre e rest, H.dir = pre ++ e :: rest ∧ e.cookie = c) (hsz : s.size ≠ 0)
    (hh : st.noOpendir = true ∨ ∃ fd, st.fds s.h = some fd) (hg : ¬ ScanGuard H s st c) :
    (readReq H st s.plus s.h s.size c none).2 = .error EINVAL := by
  by_cases hmiss : hitOf st s.h c = false
  · by_cases hbad : c > I64_MAX ∨ H.seekErr c = some EINVAL
    · by_cases hun : ∃ pre e rest, H.dir = pre ++ e :: rest ∧ e.cookie = c ∧ ∃ x ∈ pre ++ [e], reclen x > s.size
      · obtain ⟨pre, e, rest, hd, hce, hx⟩ := hun
        exact readReq_scan_fails wf hq st s.plus s.h s.size c hd hce hsz hh hmiss hbad hx
      · exfalso; apply hg
        intro _ _ pre e rest hd hce x hx
        by_cases hle : reclen x ≤ s.size
        · exact hle
        · exact absurd ⟨pre, e, rest, hd, hce, x, hx, by omega⟩ hun
    · exfalso; apply hg; intro _ hb; exact absurd hb hbad
  · exfalso; apply hg; intro hm; exact absurd hm hmiss

/-- the defect of the fallback path that `ScanGuard` excludes (model level; this
    host has no cookie above i64::MAX, so it cannot be replayed here): a 60-byte name first, the
    client resumes after it from a cookie above i64::MAX with a 32-byte buffer that holds the next
    entry "b" — the scan's first `getdents64(32)` fails with EINVAL instead of delivering "b" -/
theorem fallback_tiny_size_counterexample :
    let long : HEnt := { ino := 1, cookie := 2 ^ 63 + 5, type := 8, name := List.replicate 60 97 }
    let b : HEnt := { ino := 2, cookie := 77, type := 8, name := [98] }
    let H : Host := { dir := [long, b] }
    fuseLen false b.name.length ≤ 32 ∧
    (readReq H { noOpendir := true } false 0 32 (2 ^ 63 + 5) none).2 = .error EINVAL := by
  refine ⟨by decide, ?_⟩
  rfl

/-- **Resume from any cookie.**  Whatever the cache holds and wherever the descriptors stand
    (`Inv` is all that is known about the state), the reply to `offset = c` — `c` being 0 or the
    cookie of any record — is a prefix of the non-dot records right after that record, non-empty
    if anything is left and the buffer holds the next entry; the accounted bytes fit `size`; the
    state afterwards satisfies the invariant again. -/
theorem resume_from_any_cookie {H : Host} (wf : WF H.dir) (hq : H.eofQuirk = false) (st : St) (inv : Inv st)
    (plus : Bool) (h size c : Nat) (rest : Dir) (hp : Pos H.dir c rest) (h24 : 24 ≤ size)
    (hnext : ∀ e r, real rest = e :: r → fuseLen plus e.name.length ≤ size)
    (hh : st.noOpendir = true ∨ ∃ fd, st.fds h = some fd)
    (hseek : c ≤ I64_MAX ∧ H.seekErr c = none) :
    ∃ (st' : St) (p : Dir), readReq H st plus h size c none = (st', .ok (p.map view)) ∧
      p <+: real rest ∧ (real rest ≠ [] → p ≠ []) ∧ Inv st' := by
  obtain ⟨st', p, hreq, hr⟩ := resume_step wf hq st inv plus h size c rest hp h24 hnext hh
    (fun hfits => ⟨hfits, fun _ => Or.inl hseek⟩)
  exact ⟨st', p, hreq, hr.isPrefix, hr.progress, hr.kept.1⟩

/-- what is delivered for a record: its name (NUL-trimmed = the name), its type, its cookie as a
    non-zero continuation offset; "." and ".." are never delivered -/
theorem delivered_entries_faithful {d : Dir} (wf : WF d) (e : HEnt) (he : e ∈ real d) :
    (view e).name = e.name ∧ (view e).type = e.type ∧ (view e).off = e.cookie ∧ (view e).off ≠ 0 ∧
    e.name ≠ [46] ∧ e.name ≠ [46, 46] := by
  have hin : e ∈ d := (List.mem_filter.mp he).1
  have hnd : isDot e = false := by simpa using (List.mem_filter.mp he).2
  refine ⟨view_name e (wf.nonul e hin), rfl, rfl, wf.nonzero e hin, ?_, ?_⟩
  · intro h
    have : isDot e = true := by simp [isDot, isDotName, nameField, reclen, HDR, h, DOT, DOTDOT, zeros, List.replicate, List.isPrefixOf]
    rw [this] at hnd; cases hnd
  · intro h
    have : isDot e = true := by simp [isDot, isDotName, nameField, reclen, HDR, h, DOT, DOTDOT, zeros, List.replicate, List.isPrefixOf]
    rw [this] at hnd; cases hnd

/-- **Cache soundness (1).**  The invariant "a cached cookie is the position of the descriptor
    it is cached for, and there is none without an open stream" holds after every history of
    opendir / releasedir / READDIR / READDIRPLUS requests with any parameters, any injected
    callback failure, on any host. -/
theorem cache_sound (H : Host) (nod : Bool) (history : List Op) :
    Inv (applyOps H { noOpendir := nod } history) := by
  have init : Inv ({ noOpendir := nod } : St) :=
    ⟨fun _ _ _ h _ => (by cases h), fun _ _ => rfl, fun _ _ => rfl⟩
  exact (applyOps_keeps H [] history (fun _ _ _ h => by cases h) _ init (fun _ h => by cases h)).1

/-- **Cache soundness (2).**  Hence a cache hit (`consume_cached_cookie` true: the cached cookie
    equals the requested offset) happens only when the descriptor stands exactly after that
    cookie. -/
theorem cache_hit_only_at_position (st : St) (inv : Inv st) (h offset : Nat) (fd : Fd)
    (hfd : st.fds h = some fd) (hit : (!st.noOpendir && st.cache h == some offset) = true) :
    fd.pos = offset := by
  simp only [Bool.and_eq_true, beq_iff_eq] at hit
  exact inv.sound h fd offset hfd hit.2

/-- **Reply within size.**  The bytes `add_dirent` accounts for the delivered entries of a reply
    never exceed the requested size. -/
theorem reply_within_size {H : Host} (wf : WF H.dir) (hq : H.eofQuirk = false) (st : St) (inv : Inv st)
    (plus : Bool) (h size c : Nat) (rest : Dir) (hp : Pos H.dir c rest) (h24 : 24 ≤ size)
    (hnext : ∀ e r, real rest = e :: r → fuseLen plus e.name.length ≤ size)
    (hh : st.noOpendir = true ∨ ∃ fd, st.fds h = some fd)
    (hseek : c ≤ I64_MAX ∧ H.seekErr c = none) :
    ∃ (st' : St) (p : Dir), readReq H st plus h size c none = (st', .ok (p.map view)) ∧
      (p.map (fun e => fuseLen plus (view e).name.length)).sum ≤ size := by
  obtain ⟨st', p, hreq, hr⟩ := resume_step wf hq st inv plus h size c rest hp h24 hnext hh
    (fun hfits => ⟨hfits, fun _ => Or.inl hseek⟩)
  exact ⟨st', p, hreq, hr.within⟩

/-- **READDIRPLUS references = delivered entries** under the server's accounting: one lookup
    reference per delivered record, in order; READDIR keeps none. -/
theorem plus_refs_equal_delivered {H : Host} (wf : WF H.dir) (hq : H.eofQuirk = false) (st : St) (inv : Inv st)
    (plus : Bool) (h size c : Nat) (rest : Dir) (hp : Pos H.dir c rest) (h24 : 24 ≤ size)
    (hnext : ∀ e r, real rest = e :: r → fuseLen plus e.name.length ≤ size)
    (hh : st.noOpendir = true ∨ ∃ fd, st.fds h = some fd)
    (hseek : c ≤ I64_MAX ∧ H.seekErr c = none) :
    ∃ (st' : St) (p : Dir), readReq H st plus h size c none = (st', .ok (p.map view)) ∧
      st'.refs = (if plus then (p.map (·.ino)).reverse ++ st.refs else st.refs) := by
  obtain ⟨st', p, hreq, hr⟩ := resume_step wf hq st inv plus h size c rest hp h24 hnext hh
    (fun hfits => ⟨hfits, fun _ => Or.inl hseek⟩)
  exact ⟨st', p, hreq, hr.refs⟩

/-- **…and for an arbitrary callback**: whatever `add_entry` answers for each offer — a count,
    `Ok(0)`, or an error at any point (the repaired case) — the record loop of readdirplus ends
    holding exactly one reference per offer the callback accepted, and the loop of readdir none. -/
theorem plus_refs_equal_delivered_any_callback {σ : Type} (plus : Bool) (cb : Cb σ) (batch : Dir) (s : σ)
    (refs : List Nat) :
    ∃ accepted, (entryLoop plus (recordCb cb) batch true (s, []) refs).cb.2 = accepted ∧
      (entryLoop plus (recordCb cb) batch true (s, []) refs).refs = (if plus then accepted ++ refs else refs) := by
  obtain ⟨k, h1, h2⟩ := entryLoop_refs plus cb batch true s [] refs
  exact ⟨k, by simpa using h1, h2⟩

/-- **`skip_to_cookie` is correct** on every well-formed `getdents64` buffer: it leaves exactly
    the records after the first one whose `d_off` is the requested cookie, reports whether there
    is one, and does not panic. -/
theorem skip_to_cookie_correct (offset : Nat) (b : Dir) (henc : ∀ e ∈ b, Enc e) :
    skipToCookie (encodeAll b) offset =
      match skipToCookieL b offset with
      | some r => .found (encodeAll r)
      | none => .notFound :=
  skipToCookie_encoded offset b henc

/-- …and on arbitrary bytes: a match always leaves a suffix of the buffer, and a record shorter
    than the 19-byte header stops the scan (no endless loop). -/
theorem skip_to_cookie_malformed (buf : Bytes) (offset : Nat) :
    (∀ rest, skipToCookie buf offset = .found rest → ∃ pre, buf = pre ++ rest) ∧
    (u16At buf 16 < HDR → skipToCookie buf offset = .notFound) :=
  ⟨fun rest h => skipToCookie_suffix buf offset rest h, skipToCookie_short_reclen buf offset⟩

/-- **`last_cookie_in_buf` is correct**: the `d_off` of the last record of a well-formed buffer
    (`None` for an empty one); a malformed first record (shorter than the header or longer than
    the buffer) yields `None` instead of looping or indexing out of bounds. -/
theorem last_cookie_correct (b : Dir) (henc : ∀ e ∈ b, Enc e) (buf : Bytes) :
    lastCookieInBuf (encodeAll b) = lastCookieL b ∧
    (u16At buf 16 < HDR ∨ u16At buf 16 > buf.length → lastCookieInBuf buf = none) :=
  ⟨lastCookieInBuf_encoded b henc, lastCookieInBuf_malformed buf⟩

/-- `only_dot_entries` (added with fix 990c44d) reads a well-formed buffer as "all records are
    `.` or `..`" -/
theorem only_dot_entries_correct (b : Dir) (henc : ∀ e ∈ b, Enc e) :
    onlyDotEntries (encodeAll b) = onlyDotsL b :=
  onlyDotEntries_encoded b henc

/-- **Pseudo directories: resume from any offset.**  The reply to `offset = k` — any `k`, also
    beyond the end or `u64::MAX` — is a prefix of the children from index `k` on, the `i`-th child
    carrying offset `i + 1` and type DT_UNKNOWN, within the requested size. -/
theorem pseudo_resume_from_any_offset (children : List PChild) (plus : Bool) (size offset : Nat)
    (hs : size ≠ 0) :
    ∃ p, pseudoRead children plus size offset none = .ok p ∧
      p <+: pOffers (children.drop offset) offset ∧
      (p.map (fun o => fuseLen plus o.name.length)).sum ≤ size := by
  refine ⟨_, pseudoRead_spec children plus size offset hs, acceptedO_prefix _ _ _ _, ?_⟩
  have := acceptedO_within size plus (pOffers (children.drop offset) offset) 0 (Nat.zero_le _)
  omega

/-- **Pseudo directories: listing complete, each child once**, for every sequence of buffers that
    hold a child, ending with an empty reply. -/
theorem pseudo_listing_complete_once (children : List PChild) (steps : List (Bool × Nat))
    (hsteps : ∀ s ∈ steps, s.2 ≠ 0 ∧ ∀ ch ∈ children, fuseLen s.1 ch.name.length ≤ s.2)
    (hmany : children.length < steps.length) :
    (pwalk children 0 steps).flatten = pOffers children 0 ∧ (pwalk children 0 steps).getLast? = some [] := by
  have := pwalk_complete children steps 0 (Nat.zero_le _) hsteps (by omega)
  simpa using this

/-- why every theorem above assumes `eofQuirk = false`: on a host with that ext4 defect the first
    rewind of a descriptor whose first `getdents64` happened at end-of-directory lists nothing -/
theorem eof_quirk_counterexample :
    let a : HEnt := { ino := 1, cookie := I64_MAX, type := 8, name := [97] }
    let H : Host := { dir := [a], eofQuirk := true }
    let st0 : St := (opendir {}).1
    let st1 := (readReq H st0 false 1 4096 I64_MAX none).1
    (readReq H st1 false 1 4096 0 none).2 = .ok [] ∧
    (readReq { H with eofQuirk := false } (readReq { H with eofQuirk := false } st0 false 1 4096 I64_MAX none).1
        false 1 4096 0 none).2 = .ok [view a] := by
  refine ⟨?_, ?_⟩ <;> rfl

/-! ### non-vacuity -/

/-- a directory in hash order: "." and ".." in the middle, arbitrary cookies, a hard link -/
def exDir : Dir :=
  [ { ino := 5, cookie := 900, type := 8, name := [120, 121] },          -- "xy"
    { ino := 1, cookie := 17, type := 4, name := [46] },                  -- "."
    { ino := 6, cookie := 333, type := 10, name := [46, 97] },            -- ".a"
    { ino := 2, cookie := 2 ^ 62, type := 4, name := [46, 46] },          -- ".."
    { ino := 5, cookie := I64_MAX, type := 8, name := List.replicate 30 98 } ]

def exHost : Host := { dir := exDir }

example : WF exDir :=
  ⟨by decide, by decide, by decide⟩

/-- a walk with buffers of exactly one entry each (32, 32, 56 bytes), interleaved with a
    going-back request on the same handle and a READDIRPLUS on another one: hypotheses hold and
    the replies are the three non-dot records, then the empty reply -/
def exSteps : List Step :=
  [ { noise := [.opendir], plus := false, h := 1, size := 32 },
    { noise := [.read true 2 4096 0 none], plus := false, h := 1, size := 32 },
    { noise := [.read false 1 32 0 none, .releasedir 2], plus := false, h := 1, size := 56 },
    { noise := [], plus := true, h := 1, size := 4096 } ]

set_option maxRecDepth 100000 in
example : Adequate exHost (opendir {}).1 0 (real exDir) exSteps :=
  adequate_of_bool _ _ _ _ _ (by rfl)

set_option maxRecDepth 100000 in
example : (walk exHost (opendir {}).1 0 exSteps).map (·.map (·.name)) =
    [[[120, 121]], [[46, 97]], [List.replicate 30 98], []] := by
  rfl

/-- the fallback theorem is not vacuous: the first record's cookie is above i64::MAX, the walker
    gets it with a 32-byte buffer, another request on the same handle moves the descriptor and drops
    the cached cookie, and the walker resumes with an 88-byte buffer — through the linear scan
    (the first buffer could not hold the second record: the earlier `_partial` hypothesis fails) -/
def fbDir : Dir :=
  [ { ino := 2, cookie := 2 ^ 63 + 5, type := 8, name := [98] },
    { ino := 1, cookie := 77, type := 8, name := List.replicate 60 97 } ]

def fbHost : Host := { dir := fbDir }

def fbSteps : List Step :=
  [ { noise := [.opendir], plus := false, h := 1, size := 32 },
    { noise := [.read false 1 4096 0 none], plus := false, h := 1, size := 88 },
    { noise := [], plus := false, h := 1, size := 88 } ]

example : WF fbDir := ⟨by decide, by decide, by decide⟩

set_option maxRecDepth 100000 in
example : Along fbHost (ScanGuard fbHost) (opendir {}).1 0 fbSteps :=
  along_of_bool _ _ _ (scanGuard_of_bool fbHost rfl) _ _ _ (by rfl)

set_option maxRecDepth 100000 in
example : Adequate fbHost (opendir {}).1 0 (real fbDir) fbSteps :=
  adequate_of_bool _ _ _ _ _ (by rfl)

/-- the second request really takes the scan: no cache hit, cookie above i64::MAX -/
example : hitOf (applyOps fbHost (readReq fbHost (applyOps fbHost (opendir {}).1 [.opendir]) false 1 32 0 none).1
    [.read false 1 4096 0 none]) 1 (2 ^ 63 + 5) = false ∧ 2 ^ 63 + 5 > I64_MAX := by
  refine ⟨by rfl, by decide⟩

set_option maxRecDepth 100000 in
example : (walk fbHost (opendir {}).1 0 fbSteps).map (·.map (·.name)) = [[[98]], [List.replicate 60 97], []] := by
  rfl

end Fbr.Thm.C16
