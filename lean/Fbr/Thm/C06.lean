/-
  C06 — nothing outside the exported directory is reachable; names are single components.
  PROPERTY THEOREMS ONLY.  Part 1: the name checks (model + generated source tables);
  part 2 (below): the inode table stays inside the export (host laws).
-/
import Fbr.Lemmas.PtHostNames
import Fbr.Gen.PtSync
import Fbr.Gen.PtMod
import Fbr.Gen.PtUtil
import Fbr.Gen.VfsSync
import Fbr.Gen.VfsMod
import Fbr.Lemmas.HostRefDemo
import Fbr.Lemmas.PtHostExportHist

namespace Fbr.Thm.C06
open Fbr.Host Fbr.PtHost

/-! ## the check itself -/

/-- **validate_ok_iff.**  For every name (a C string: no interior NUL), `validate_path_component`
    accepts it iff it is not ".", not ".." and contains no '/'.  The empty name is accepted (the
    code does not reject it; the host call then fails with ENOENT). -/
theorem validate_ok_iff (n : Name) (h0 : (0 : UInt8) ∉ n) :
    validatePathComponent n = none ↔ (n ≠ [46] ∧ n ≠ [46, 46] ∧ SLASH ∉ n) := by
  unfold validatePathComponent isSafePathComponent isDotOrDotdot
  have h1 := startsWith_dot n h0
  have h2 := startsWith_dotdot n h0
  have h3 := contains_slash n
  have hmem : SLASH ∈ withNul n ↔ SLASH ∈ n := by simp [withNul, SLASH]
  by_cases hs : SLASH ∈ n
  · have hm : SLASH ∈ withNul n := hmem.mpr hs
    simp [hm, hs]
  · have hm : ¬ SLASH ∈ withNul n := fun h => hs (hmem.mp h)
    by_cases hd : n = [46]
    · simp [hd, startsWith, withNul, CURRENT_DIR_CSTR, SLASH]
    · by_cases hdd : n = [46, 46]
      · simp [hdd, startsWith, withNul, PARENT_DIR_CSTR, CURRENT_DIR_CSTR, SLASH]
      · have e1 : startsWith (withNul n) CURRENT_DIR_CSTR = false := by
          cases h : startsWith (withNul n) CURRENT_DIR_CSTR
          · rfl
          · exact absurd (h1.mp h) hd
        have e2 : startsWith (withNul n) PARENT_DIR_CSTR = false := by
          cases h : startsWith (withNul n) PARENT_DIR_CSTR
          · rfl
          · exact absurd (h2.mp h) hdd
        simp [e1, e2, hd, hdd, hs, hm]

/-- the only error of the check is EINVAL -/
theorem validate_err_is_einval (n : Name) : validatePathComponent n = none ∨ validatePathComponent n = some EINVAL := by
  unfold validatePathComponent; split <;> simp

/-- non-vacuity: ordinary names pass; ".", "..", "a/b" do not; the empty name passes -/
example : validatePathComponent [97] = none ∧ validatePathComponent [] = none ∧
    validatePathComponent [46] = some EINVAL ∧ validatePathComponent [46, 46] = some EINVAL ∧
    validatePathComponent [97, 47, 98] = some EINVAL ∧ validatePathComponent [46, 46, 46] = none := by decide

/-! ## the model rejects before any host call -/

/-- **lookup_single_component.**  A LOOKUP whose name contains '/' is answered EINVAL and the
    request's program is `pure`: not a single host call is made, the tables are unchanged — for
    every configuration, table state and parent. -/
theorem lookup_single_component (cfg : Cfg) (s : PtState) (p : Nat) (n : Name) (h : SLASH ∈ n) :
    step cfg s (.lookup p n) = .pure (.error EINVAL, s) := by
  have : SLASH ∈ withNul n := by simp [withNul, h]
  simp [step, handle, lookup, this, M.throw]

/-- **mutators_validate_names (model).**  A standalone passthrough (`do_import`) answers EINVAL to
    every request that creates, removes, renames or links a name when that name is ".", ".." or
    contains '/', and its program is `pure`: no host call, tables unchanged.  (RENAME: either name.) -/
theorem mutators_reject_bad_names (cfg : Cfg) (s : PtState) (hc : cfg.doImport = true) (n : Name)
    (hb : validatePathComponent n = some EINVAL) (ctx : Ctx) (p q i : Nat) (t o : Name) (m r u f ff : Nat) :
    step cfg s (.mkdir ctx p n m u) = .pure (.error EINVAL, s) ∧
    step cfg s (.mknod ctx p n m r u) = .pure (.error EINVAL, s) ∧
    step cfg s (.symlink ctx t p n) = .pure (.error EINVAL, s) ∧
    step cfg s (.create ctx p n f m u ff) = .pure (.error EINVAL, s) ∧
    step cfg s (.unlink p n) = .pure (.error EINVAL, s) ∧
    step cfg s (.rmdir p n) = .pure (.error EINVAL, s) ∧
    step cfg s (.link i p n) = .pure (.error EINVAL, s) ∧
    step cfg s (.rename p n q o f) = .pure (.error EINVAL, s) ∧
    (validatePathComponent o = none → step cfg s (.rename p o q n f) = .pure (.error EINVAL, s)) := by
  have hv := validateName_bad cfg n hc hb s
  refine ⟨?_, ?_, ?_, ?_, ?_, ?_, ?_, ?_, ?_⟩
  · simp only [step, handle, mkdir]; exact bind_throw _ _ _ _ hv
  · simp only [step, handle, mknod]; exact bind_throw _ _ _ _ hv
  · simp only [step, handle, symlink]; exact bind_throw _ _ _ _ hv
  · simp only [step, handle, create]; exact bind_throw _ _ _ _ hv
  · simp only [step, handle, unlink]; exact bind_throw _ _ _ _ hv
  · simp only [step, handle, rmdir]; exact bind_throw _ _ _ _ hv
  · simp only [step, handle, link]; exact bind_throw _ _ _ _ hv
  · simp only [step, handle, rename]; exact bind_throw _ _ _ _ hv
  · intro ho
    simp only [step, handle, rename]
    rw [bind_ok _ _ s s () (validateName_ok cfg o ho s)]
    exact bind_throw _ _ _ _ hv

/-- **dotdot_at_root_is_root (model).**  A lookup of ".." in the root inode issues exactly the
    host calls of a lookup of "." — the name handed to `openat` is "." — whatever the host answers. -/
theorem dotdot_at_root_is_root (cfg : Cfg) (s : PtState) :
    step cfg s (.lookup ROOT_ID [46, 46]) = step cfg s (.lookup ROOT_ID [46]) := by
  have h1 : (SLASH ∈ withNul [46, 46]) = False := by simp [withNul, SLASH]
  have h2 : (SLASH ∈ withNul [46]) = False := by simp [withNul, SLASH]
  simp only [step, handle, lookup, List.contains_eq_mem, decide_eq_true_eq, h1, h2, if_false]
  have : doLookup cfg ROOT_ID [46, 46] = doLookup cfg ROOT_ID [46] := by
    unfold doLookup
    simp [startsWith, withNul, PARENT_DIR_CSTR, DOT]
  rw [this]

/-! ## the source starts every name-taking mutator with the check (generated tables) -/

/-- **mutators_validate_names (PassthroughFs, source).**  In `src/passthrough/sync_io.rs` as it is
    now, the first statement of mkdir, rmdir, create, unlink, mknod, symlink is
    `self.validate_path_component(name)?;`, of link `…(newname)?;`, and rename starts with the check
    of `oldname` followed by the check of `newname`; lookup starts with the '/' test. -/
theorem pt_mutators_start_with_name_check :
    (∀ fn ∈ ["mkdir", "rmdir", "create", "unlink", "mknod", "symlink"],
      (leadOf Gen.ptSyncLead "PassthroughFs<S>" "FileSystem" fn).bind List.head? = some "self.validate_path_component(name)?;") ∧
    (leadOf Gen.ptSyncLead "PassthroughFs<S>" "FileSystem" "link").bind List.head? = some "self.validate_path_component(newname)?;" ∧
    (leadOf Gen.ptSyncLead "PassthroughFs<S>" "FileSystem" "rename").map (·.take 2) =
      some ["self.validate_path_component(oldname)?;", "self.validate_path_component(newname)?;"] ∧
    (leadOf Gen.ptSyncLead "PassthroughFs<S>" "FileSystem" "lookup").bind List.head? =
      some "ifname.to_bytes_with_nul().contains(&SLASH_ASCII){returnErr(einval());}" := by
  decide +kernel

/-- the method only skips the check behind a VFS and otherwise calls the shared function -/
theorem pt_validate_method_shape :
    leadOf Gen.ptModLead "PassthroughFs<S>" "" "validate_path_component" =
      some ["if!self.cfg.do_import{returnOk(());}", "validate_path_component(name)"] := by
  decide +kernel

/-- **mutators_validate_names (Vfs, source).**  In `src/api/vfs/sync_io.rs` the first statement of
    symlink, mknod, mkdir, unlink, rmdir, create is `validate_path_component(name)?;`, of link
    `…(newname)?;`; rename starts with both checks, before the first `get_real_rootfs` (i.e. before
    any backend is selected); lookup starts with the '/' test. -/
theorem vfs_mutators_start_with_name_check :
    (∀ fn ∈ ["symlink", "mknod", "mkdir", "unlink", "rmdir", "create"],
      (leadOf Gen.vfsSyncLead "Vfs" "FileSystem" fn).bind List.head? = some "validate_path_component(name)?;") ∧
    (leadOf Gen.vfsSyncLead "Vfs" "FileSystem" "link").bind List.head? = some "validate_path_component(newname)?;" ∧
    leadOf Gen.vfsSyncLead "Vfs" "FileSystem" "rename" =
      some ["validate_path_component(oldname)?;", "validate_path_component(newname)?;",
            "let(root,idata_old)=self.get_real_rootfs(olddir)?;"] ∧
    (leadOf Gen.vfsSyncLead "Vfs" "FileSystem" "lookup").bind List.head? =
      some "ifname.to_bytes_with_nul().contains(&SLASH_ASCII){returnErr(io::Error::from_raw_os_error(libc::EINVAL));}" := by
  decide +kernel

/-- the shared check is the text the model `validatePathComponent` / `isSafePathComponent` /
    `isDotOrDotdot` was written from, and '/' is 47 -/
theorem name_check_source_pinned :
    leadOf Gen.vfsModLead "" "" "validate_path_component" =
      some ["matchis_safe_path_component(name){true=>Ok(()),false=>Err(io::Error::from_raw_os_error(libc::EINVAL)),}"] ∧
    leadOf Gen.vfsModLead "" "" "is_safe_path_component" =
      some ["letbytes=name.to_bytes_with_nul();", "ifbytes.contains(&SLASH_ASCII){returnfalse;}", "!is_dot_or_dotdot(name)"] ∧
    leadOf Gen.vfsModLead "" "" "is_dot_or_dotdot" =
      some ["letbytes=name.to_bytes_with_nul();", "bytes.starts_with(CURRENT_DIR_CSTR)||bytes.starts_with(PARENT_DIR_CSTR)"] ∧
    Gen.vfsModConsts.lookup "SLASH_ASCII" = some 47 := by
  decide +kernel

/-- the lookup path as the model has it: every lookup opens with `O_NOFOLLOW|O_CLOEXEC|flags`
    (`open_file_restricted`), `do_lookup` rewrites ".." at the root to ".", the re-open strips
    `O_NOFOLLOW`/`O_CREAT` and is guarded by `is_safe_inode` = regular file or directory -/
theorem lookup_path_source_pinned :
    leadOf Gen.ptModLead "PassthroughFs<S>" "" "open_file_restricted" =
      some ["letflags=libc::O_NOFOLLOW|libc::O_CLOEXEC|flags;", "openat(dir,pathname,flags,mode)"] ∧
    (∃ l, leadOf Gen.ptModLead "PassthroughFs<S>" "" "do_lookup" = some l ∧
      "letname=ifparent==fuse::ROOT_ID&&name.to_bytes_with_nul().starts_with(PARENT_DIR_CSTR){CStr::from_bytes_with_nul(CURRENT_DIR_CSTR).unwrap()}else{name};" ∈ l) ∧
    leadOf Gen.ptUtilLead "" "" "reopen_fd_through_proc" =
      some ["letname=CString::new(format!(\"{}\",fd.as_raw_fd()).as_str())?;", "openat(proc_self_fd,&name,flags&!libc::O_NOFOLLOW&!libc::O_CREAT,0,)"] ∧
    leadOf Gen.ptUtilLead "" "" "is_safe_inode" = some ["matches!(mode&libc::S_IFMT,libc::S_IFREG|libc::S_IFDIR)"] ∧
    (leadOf Gen.ptSyncLead "PassthroughFs<S>" "" "open_inode").map (·.drop 1) =
      some ["if!is_safe_inode(data.mode){Err(ebadf())}else{letmutnew_flags=self.get_writeback_open_flags(flags);if!self.cfg.allow_direct_io&&flags&libc::O_DIRECT!=0{new_flags&=!libc::O_DIRECT;}data.open_file(new_flags|libc::O_CLOEXEC,&self.proc_self_fd)}"] := by
  refine ⟨by decide +kernel, ?_, by decide +kernel, by decide +kernel, by decide +kernel⟩
  refine ⟨_, rfl, ?_⟩
  decide +kernel

end Fbr.Thm.C06

/-! ## part 2 — the export is closed (reference host FS) -/

namespace Fbr.Thm.C06
open Fbr.Host Fbr.Host.Ref

/-- **nofollow_never_leaves.**  In the reference FS, from a state in which every descriptor
    denotes an export object (`Good`): a lookup `openat(dirfd, name, O_NOFOLLOW|O_CLOEXEC|O_PATH)` of a
    name without '/' — other than ".." on the export root — that succeeds returns a descriptor of
    the directory entry *itself* (`lookup1`: a symbolic link is returned as the link, never its
    target), that object belongs to the export, and the new state is again `Good`. -/
theorem nofollow_never_leaves (s : State) (g : Good s) (dfd : Fd) (d : Obj) (name : Name) (f : Fd) (o : Obj)
    (hd : fdObj s dfd = some d) (hslash : name.contains Ref.SLASH = false)
    (hroot : ¬ (d = s.exportRoot ∧ name = dotdot))
    (h : (stepCore s (.openat dfd name (O_NOFOLLOW ||| O_CLOEXEC ||| O_PATH) 0)).1 = .fd f o) :
    lookup1 s d name = .ok o ∧ s.sent o = false ∧
    Good (stepCore s (.openat dfd name (O_NOFOLLOW ||| O_CLOEXEC ||| O_PATH) 0)).2 := by
  have hflags : (has (O_NOFOLLOW ||| O_CLOEXEC ||| O_PATH) O_CREAT && has (O_NOFOLLOW ||| O_CLOEXEC ||| O_PATH) O_EXCL) = false := by decide
  have hnf : has (O_NOFOLLOW ||| O_CLOEXEC ||| O_PATH) O_NOFOLLOW = true := by decide
  have hp : has (O_NOFOLLOW ||| O_CLOEXEC ||| O_PATH) O_PATH = true := by decide
  have hgood := good_step s g (.openat dfd name (O_NOFOLLOW ||| O_CLOEXEC ||| O_PATH) 0)
    (Or.inr ⟨hnf, hp, hslash, fun ⟨h1, h2⟩ => hroot ⟨by rw [hd] at h1; exact Option.some.inj h1, h2⟩⟩)
  have hdin := fdObj_inside s g dfd d hd
  simp only [stepCore, hd, hflags, Bool.false_eq_true, if_false, hnf, Bool.not_true, hp, if_true] at h
  split at h
  · cases h
  · rename_i o' ho'
    simp only [newFd] at h
    cases h
    have hl : lookup1 s d name = .ok o := by
      unfold resolve at ho'
      split at ho'
      · cases ho'
      · simp only [hslash, Bool.not_false, if_true] at ho'
        exact walk_single_nofollow s d name o ho'
    exact ⟨hl, lookup1_inside s g d name o hdin hroot hl, hgood⟩

/-- the re-open through /proc denotes the same inode as the descriptor it re-opens -/
theorem reopen_same_object (s : State) (f f' : Fd) (o : Obj) (fl md : Nat)
    (h : (stepCore s (.reopen f fl md)).1 = .fd f' o) : fdObj s f = some o := by
  simp only [stepCore] at h
  split at h
  · cases h
  · rename_i e he
    split at h
    · simp only [newFd] at h; cases h; simp [fdObj, he]
    · unfold openObj at h
      split at h
      · cases h
      · split at h
        · cases h
        · split at h <;> (simp only [newFd] at h; cases h; simp [fdObj, he])

/-- **rename_link_stay_inside.**  From a `Good` state, mkdirat, mknodat, symlinkat, linkat,
    unlinkat and renameat2 (every flag value, every name — names that are not plain single
    components are refused by the host) leave every object of the sentinel tree exactly as it was
    and lead to a `Good` state: whatever is created, linked, removed or moved stays among the
    export objects. -/
theorem rename_link_stay_inside (s : State) (g : Good s) (c : HCall)
    (hc : (∃ d n m, c = .mkdirat d n m) ∨ (∃ d n m r, c = .mknodat d n m r) ∨ (∃ t d n, c = .symlinkat t d n) ∨
          (∃ f o d n fl, c = .linkat f o d n fl) ∨ (∃ d n fl, c = .unlinkat d n fl) ∨
          (∃ a x b y fl, c = .renameat2 a x b y fl)) :
    Good (stepCore s c).2 ∧ ∀ x, s.sent x = true → (stepCore s c).2.nodes x = s.nodes x := by
  have h1 : ConfinedOpen s c := by
    rcases hc with ⟨_, _, _, rfl⟩ | ⟨_, _, _, _, rfl⟩ | ⟨_, _, _, rfl⟩ | ⟨_, _, _, _, _, rfl⟩ | ⟨_, _, _, rfl⟩ | ⟨_, _, _, _, _, rfl⟩ <;> trivial
  have h2 : ∀ d n fl m, c = .openat d n fl m → (has fl O_CREAT && has fl O_EXCL) = true ∨ has fl O_TRUNC = false := by
    intro d n fl m e
    rcases hc with ⟨_, _, _, rfl⟩ | ⟨_, _, _, _, rfl⟩ | ⟨_, _, _, rfl⟩ | ⟨_, _, _, _, _, rfl⟩ | ⟨_, _, _, rfl⟩ | ⟨_, _, _, _, _, rfl⟩ <;> cases e
  exact ⟨good_step s g c h1, fun x hx => sentinel_untouched s g c h2 x hx⟩

/-- **confined_program_stays_inside.**  For the reference host: `Good` (every open descriptor — the
    O_PATH descriptors of the inode table and the descriptors of the handle table are descriptors
    — and every file handle denotes an object of the export) is preserved by every *program* all of
    whose calls are confined in the state they are issued in (`AllConfined`), and such a run
    changes no object of the sentinel tree.  (`inode_table_within_export` below proves that every
    request of the passthrough is such a program.) -/
theorem confined_program_stays_inside {α : Type} (sent : Obj → Bool) (root : Obj) (p : Prog α) (s : State)
    (inv : Good s) (hconf : AllConfined sent root p s) :
    Good ((p.run (ops sent root) s).2.1) ∧
    (∀ f e, (p.run (ops sent root) s).2.1.fds f = some e → s.sent e.obj = false) ∧
    (∀ x, s.sent x = true → (p.run (ops sent root) s).2.1.nodes x = s.nodes x) := by
  have h := run_good sent root p s inv hconf
  refine ⟨h.1, ?_, h.2⟩
  intro f e he
  have hs : (p.run (ops sent root) s).2.1.sent = s.sent := Fbr.PtHost.run_sent sent root p s
  rw [← hs]
  exact h.1.fds f e he

open Fbr.PtHost in
/-- **inode_table_within_export.**  The passthrough model (`Fbr.PtHost`, every configuration bit:
    file handles, `use_host_ino`, `no_open`, …) run on the reference host FS.  Start: a host state
    in which every descriptor / file handle denotes an export object (`Good`) and the descriptor
    tables are well-formed (`Wf`: ids below their counters, one handle id per inode); the table
    after `import()` (`initState`), whose root handle denotes the export root.  Then for **every
    history** `rs` of requests — every name, every inode / handle number, every flag word —

    * the host state is `Good` again, and every entry of the inode table denotes — by its O_PATH
      descriptor or its file handle — the object recorded as its id, an object of the export;
    * **exactly the entries numbered 1 denote the export root** (the fact the earlier `_partial`
      version was missing: ".." is rewritten only on inode 1, so ".." is never sent on a descriptor
      of the export root under another number);
    * every open descriptor (inode table, handle table, temporaries) and every file handle of the
      host denotes an export object; no object of the sentinel tree has changed.

    No hypothesis on the history when the passthrough is standalone (`do_import = true`, see
    `inode_table_within_export_standalone`).  Behind a VFS (`do_import = false`) the passthrough
    skips its own name check, and the hypothesis `FrontChecked` states what the front end has
    checked instead (`vfs_mutators_start_with_name_check`): names handed to symlink / mknod /
    mkdir / create / link contain no '/'.  Proof: the joint invariant `Fbr.PtHost.J` of table and
    host is kept by every request and every call of every request is confined in the state it is
    issued in (`jsafe_handle`: `do_lookup`'s one `openat` is `O_PATH|O_NOFOLLOW`, single component,
    never ".." on the export root; CREATE's is `O_CREAT|O_EXCL`); induction over the history. -/
theorem inode_table_within_export (sent : Obj → Bool) (root : Obj) (cfg : Cfg) (rs : List Req) (h : State)
    (inv : Good h) (wf : Wf h) (rootHandle : IHandle) (rootMode : Nat)
    (hroot : Denotes h rootHandle h.exportRoot) (hfront : ∀ r ∈ rs, r.FrontChecked cfg) :
    Good (runHistory (ops sent root) cfg (initState rootHandle h.exportRoot rootMode) h rs).2 ∧
    (∀ d ∈ (runHistory (ops sent root) cfg (initState rootHandle h.exportRoot rootMode) h rs).1.inodes,
      Denotes (runHistory (ops sent root) cfg (initState rootHandle h.exportRoot rootMode) h rs).2 d.handle d.id ∧
      h.sent d.id = false ∧ (d.id = h.exportRoot ↔ d.inode = ROOT_ID)) ∧
    (∀ f e, (runHistory (ops sent root) cfg (initState rootHandle h.exportRoot rootMode) h rs).2.fds f = some e →
      h.sent e.obj = false) ∧
    (∀ k o, (runHistory (ops sent root) cfg (initState rootHandle h.exportRoot rootMode) h rs).2.handles k = some o →
      h.sent o = false) ∧
    (∀ x, h.sent x = true →
      (runHistory (ops sent root) cfg (initState rootHandle h.exportRoot rootMode) h rs).2.nodes x = h.nodes x) := by
  have j0 := j_init h inv wf rootHandle rootMode hroot
  obtain ⟨j, hsent, hnodes⟩ := j_history sent root cfg rs hfront _ h j0
  have hexp := runHistory_exportRoot sent root cfg rs (initState rootHandle h.exportRoot rootMode) h
  refine ⟨j.good, ?_, ?_, ?_, hnodes⟩
  · intro d hd
    refine ⟨j.den d hd, ?_, ?_⟩
    · rw [← hsent]; exact j.inside d hd
    · rw [← hexp]; exact ⟨j.uniq d hd, j.rootId d hd⟩
  · intro f e he; rw [← hsent]; exact j.good.fds f e he
  · intro k o hk; rw [← hsent]; exact j.good.handles k o hk

open Fbr.PtHost in
/-- the standalone passthrough (`do_import = true`, names checked by `validate_path_component`):
    `inode_table_within_export` for every history, no hypothesis on the requests -/
theorem inode_table_within_export_standalone (sent : Obj → Bool) (root : Obj) (cfg : Cfg) (hcfg : cfg.doImport = true)
    (rs : List Req) (h : State) (inv : Good h) (wf : Wf h) (rootHandle : IHandle) (rootMode : Nat)
    (hroot : Denotes h rootHandle h.exportRoot) :
    Good (runHistory (ops sent root) cfg (initState rootHandle h.exportRoot rootMode) h rs).2 ∧
    (∀ d ∈ (runHistory (ops sent root) cfg (initState rootHandle h.exportRoot rootMode) h rs).1.inodes,
      Denotes (runHistory (ops sent root) cfg (initState rootHandle h.exportRoot rootMode) h rs).2 d.handle d.id ∧
      h.sent d.id = false ∧ (d.id = h.exportRoot ↔ d.inode = ROOT_ID)) ∧
    (∀ f e, (runHistory (ops sent root) cfg (initState rootHandle h.exportRoot rootMode) h rs).2.fds f = some e →
      h.sent e.obj = false) ∧
    (∀ k o, (runHistory (ops sent root) cfg (initState rootHandle h.exportRoot rootMode) h rs).2.handles k = some o →
      h.sent o = false) ∧
    (∀ x, h.sent x = true →
      (runHistory (ops sent root) cfg (initState rootHandle h.exportRoot rootMode) h rs).2.nodes x = h.nodes x) :=
  inode_table_within_export sent root cfg rs h inv wf rootHandle rootMode hroot
    (fun r _ => frontChecked_standalone cfg r hcfg)

/-- every request of every such history is a confined program: `AllConfined` holds of
    `Pt.step cfg pt r` in any state satisfying the joint invariant (which every reachable state
    does, `j_history`) -/
theorem requests_are_confined (sent : Obj → Bool) (root : Obj) (cfg : Fbr.PtHost.Cfg) (r : Fbr.PtHost.Req)
    (hr : r.FrontChecked cfg) (pt : Fbr.PtHost.PtState) (h : State) (j : Fbr.PtHost.J pt h) :
    AllConfined sent root (Fbr.PtHost.step cfg pt r) h :=
  (Fbr.PtHost.j_request sent root cfg r hr pt h j).1

/-! ### non-vacuity (a concrete host: `Fbr.Lemmas.HostRefDemo`) -/

/-- the invariant holds of a concrete state with a sentinel tree around the export -/
example : Good demo := demo_good

/-- the hypotheses of `inode_table_within_export` hold of it: well-formed tables, and descriptor 0
    (the root handle of `import()`) denotes the export root -/
example : Wf demo ∧ Fbr.PtHost.Denotes demo (.file 0) demo.exportRoot := ⟨Fbr.PtHost.demo_wf, rfl⟩

/-- a history on that host that walks down, back up with "..", and onto the out-pointing symlink:
    "a" gets number 2, ".." from it finds the root entry again (number 1, object 2: its count goes
    2 → 4 with the "." / ".." lookups), the symlink is entered as itself (object 3) -/
example :
    (Fbr.PtHost.runHistory (ops demoSent 2) {} (Fbr.PtHost.initState (.file 0) 2 16877) demo
      [.lookup 1 sA, .lookup 2 dotdot, .lookup 2 dot, .lookup 1 dotdot, .lookup 1 sLnk]).1.inodes.map
      (fun d => (d.inode, d.id, d.refcount)) = [(3, 3, 1), (2, 4, 2), (1, 2, 4)] := by decide

/-- O_NOFOLLOW on a symlink that points out of the export yields the link itself (object 3) … -/
example : (stepCore demo (.openat 0 sLnk (O_NOFOLLOW ||| O_CLOEXEC ||| O_PATH) 0)).1 = .fd 1 3 := by decide

/-- … whereas the same call without O_NOFOLLOW reaches the sentinel file (object 1): the flag is
    what keeps lookups inside -/
example : (stepCore demo (.openat 0 sLnk (O_CLOEXEC ||| O_PATH) 0)).1 = .fd 1 1 ∧ demo.sent 1 = true := by decide

/-- ".." on the export root reaches the sentinel parent (object 0): the rewrite to "." is needed -/
example : (stepCore demo (.openat 0 dotdot (O_NOFOLLOW ||| O_CLOEXEC ||| O_PATH) 0)).1 = .fd 1 0 ∧ demo.sent 0 = true := by decide

/-- a name with '/' walks out of the export: the single-component check is needed -/
example : (stepCore demo (.openat 0 sUpSecret (O_NOFOLLOW ||| O_CLOEXEC ||| O_PATH) 0)).1 = .fd 1 1 := by decide

/-- "." and ".." below the root stay inside -/
example : (stepCore demo (.openat 0 dot (O_NOFOLLOW ||| O_CLOEXEC ||| O_PATH) 0)).1 = .fd 1 2 := by decide

end Fbr.Thm.C06
