/-
  C15 — Handles and descriptors are released when the client releases them.

  PROPERTY THEOREMS ONLY (model: `Fbr.PtRefs`; lemmas: `Fbr.Lemmas.Pt*`).
-/
import Fbr.PtRefs
import Fbr.Lemmas.PtMap
import Fbr.Lemmas.PtProj

namespace Fbr.Thm.C15
open Fbr.PtRefs

/-- `release` / `releasedir` remove the handle and its directory-position record, and only when
    the request names the inode the handle was opened on. -/
theorem release_removes_handle_and_cookie (s : St) (i : Ino) (h : Hnd) :
    (handleGet s h i = true →
        mget (doRelease s i h).1.handles h = none ∧ h ∉ (doRelease s i h).1.cookies
        ∧ (doRelease s i h).2 = .ok)
    ∧ (handleGet s h i = false → doRelease s i h = (s, .err EBADF)) := by
  constructor
  · intro hg
    simp [doRelease, hg, freeFd]
  · intro hg
    simp [doRelease, hg]

end Fbr.Thm.C15
