/-
  C15 — Handles and descriptors are released when the client releases them.

  PROPERTY THEOREMS ONLY.  Model: `Fbr.PtRefs` — the handle table (`handles`, `cookies`,
  `next_handle`), the inode table of C08, the mount-fd reference count, and a **descriptor
  ledger**: `fds` counts the descriptors the process holds; every host `open*` is `allocFd` (+1,
  may fail), every drop `freeFd` (−1).  Faults: a descriptor allocation fails whenever the fault
  oracle `Env.failAt` says so for that allocation, or when the request's RLIMIT headroom is used
  up — the theorems hold for EVERY oracle, every headroom, every history of requests, every host
  answer, both `inode_file_handles` modes, `no_open`/`no_opendir` on or off (fields of `Env`).
  Specification: `Fbr.PtSpec` (`Spec.hnds` = handles delivered and not yet released; `Spec.held` =
  references held).  Lemmas: `Fbr.Lemmas.Pt{Count,Ledger,LedgerOps,LedgerStep,Handles,FreshTables}`.
-/
import Fbr.PtRefs
import Fbr.PtSpec
import Fbr.Lemmas.PtMap
import Fbr.Lemmas.PtProj
import Fbr.Lemmas.PtLedgerStep
import Fbr.Lemmas.PtHandles
import Fbr.Lemmas.PtFreshTables
import Fbr.Lemmas.PtRun
import Fbr.Lemmas.PtFresh
import Fbr.Lemmas.PtUniq

namespace Fbr.Thm.C15
open Fbr.PtRefs

abbrev History := List (Option Nat × Op)

/-- After ANY history, a handle is accepted together with an inode number (`HandleMap::get`, used
    by getattr/read/write/readdir/release…) exactly when the client holds that handle and it was
    delivered for that inode: from the `open`/`opendir`/`create` reply that returned it until the
    `release`/`releasedir` (or `destroy`) that gave it back — not with another inode, not before,
    not after. -/
theorem handle_bound_to_inode (e : Env) (h : History) (hd : Hnd) (ino : Ino) :
    handleGet (run e St.fresh h).1 hd ino = true
      ↔ mget (Spec.init.run h (run e St.fresh h).2).hnds hd = some ino := by
  have hh := run_hnds e h St.fresh Spec.init rfl
  unfold handleGet
  rw [hh]
  cases hm : mget (Spec.init.run h (run e St.fresh h).2).hnds hd with
  | none => simp
  | some i => simp

/-- Distinct opens get distinct handles: after any history every held handle is below
    `next_handle`, so the handle the next `open`/`opendir`/`create` hands out is held by nobody. -/
theorem handles_distinct (e : Env) (h : History) :
    (∀ hd i, mget (run e St.fresh h).1.handles hd = some i → hd < (run e St.fresh h).1.nextHandle)
    ∧ mget (run e St.fresh h).1.handles (run e St.fresh h).1.nextHandle = none
    ∧ (∀ ino hr s' hd, doOpen e (run e St.fresh h).1 ino hr = (s', .handle hd) →
        mget (run e St.fresh h).1.handles hd = none) := by
  have hl := run_linv e h linv_fresh
  have hnone : mget (run e St.fresh h).1.handles (run e St.fresh h).1.nextHandle = none := by
    cases hm : mget (run e St.fresh h).1.handles (run e St.fresh h).1.nextHandle with
    | none => rfl
    | some i => exact absurd (hl.hk _ _ hm) (Nat.lt_irrefl _)
  refine ⟨hl.hk, hnone, ?_⟩
  intro ino hr s' hd ho
  unfold doOpen at ho
  have ht := tables_openInode e (run e St.fresh h).1 ino hr
  split at ho
  · cases ho
  · rename_i s1 heq
    rw [heq] at ht
    have e2 : s1.nextHandle = hd := by have := (Prod.mk.inj ho).2; cases this; rfl
    rw [← e2, nextHandle_of_tables ht]
    exact hnone

/-- `release` / `releasedir` remove the handle and its directory-position record, and only when
    the request names the inode the handle was opened on; and after any history a
    directory-position record exists only for a handle that is still open. -/
theorem release_removes_handle_and_cookie (s : St) (i : Ino) (h : Hnd) :
    (handleGet s h i = true →
        mget (doRelease s i h).1.handles h = none ∧ h ∉ (doRelease s i h).1.cookies
        ∧ (doRelease s i h).2 = .ok)
    ∧ (handleGet s h i = false → doRelease s i h = (s, .err EBADF))
    ∧ (∀ (e : Env) (hist : History) (hd : Hnd), hd ∈ (run e St.fresh hist).1.cookies →
        (mget (run e St.fresh hist).1.handles hd).isSome = true) := by
  refine ⟨?_, ?_, ?_⟩
  · intro hg
    simp [doRelease, hg, freeFd]
  · intro hg
    simp [doRelease, hg]
  · intro e hist hd hc
    exact (run_linv e hist linv_fresh).ck hd hc

/-- The descriptor ledger is balanced after every request of every history, wherever descriptor
    allocations failed inside the requests: the process holds its 2 own descriptors, one per inode
    kept by descriptor, one mount fd while some inode kept by handle (or nothing else) references
    it, one per open handle — and NO temporary (`no_open`/`no_opendir` per-request files, parents
    re-opened by handle, `O_PATH` probes, files of failed creates … are all closed again). -/
theorem ledger_balanced (e : Env) (h : History) :
    (run e St.fresh h).1.fds
        = 2 + nFile (run e St.fresh h).1 + mfd (run e St.fresh h).1
          + (run e St.fresh h).1.handles.length
    ∧ (run e St.fresh h).1.mountRefs = nHand (run e St.fresh h).1 := by
  have hl := run_linv e h linv_fresh
  exact ⟨by have := hl.fds; omega, by have := hl.mr; omega⟩

/-- Once the client has released every handle and forgotten every inode, the server holds no more
    inode objects, handles, directory-position records or descriptors than a freshly started
    (initialised) server: at most the root entry, no handle, no cookie, 2 descriptors + 1 for the
    root (its `O_PATH` descriptor, or the mount fd it references).  Any history, any fault
    placement, any `no_open`/`no_opendir`, and every numbering / handle configuration but one:
    `use_host_ino = false` (both `inode_file_handles` modes), or `inode_file_handles = false`
    (`NoHandles h`: no host answer carries a file handle; both `use_host_ino` modes).  The
    remaining combination `use_host_ino ∧ inode_file_handles` is the known finding of C08
    (`hostino_reuse_counterexample`). -/
theorem tables_return_to_fresh (e : Env) (h : History) (hcfg : e.useHostIno = false ∨ NoHandles h)
    (hsat : (run e St.fresh h).1.lookups + 2 < U64_MAX)
    (hheld : ∀ i, i ≠ ROOT_ID → (Spec.init.run h (run e St.fresh h).2).held i = 0)
    (hhnds : (Spec.init.run h (run e St.fresh h).2).hnds = []) :
    ((run e St.fresh h).1.data = [] ∨ ∃ d, (run e St.fresh h).1.data = [(ROOT_ID, d)])
    ∧ (run e St.fresh h).1.handles = []
    ∧ (run e St.fresh h).1.cookies = []
    ∧ (run e St.fresh h).1.fds = 2 + (run e St.fresh h).1.data.length := by
  have hl := run_linv e h linv_fresh
  have hg := run_good e h ⟨never_clobbers e h hcfg, hsat⟩
  have hh : (run e St.fresh h).1.handles = [] := by
    rw [run_hnds e h St.fresh Spec.init rfl]; exact hhnds
  have hdata : (run e St.fresh h).1.data = [] ∨ ∃ d, (run e St.fresh h).1.data = [(ROOT_ID, d)] := by
    apply single_entry hl.nd ROOT_ID
    intro k v hm
    apply Classical.byContradiction
    intro hne
    have := hg.ref k hne
    rw [hm, hheld k hne] at this
    simp at this
  have hck : (run e St.fresh h).1.cookies = [] := by
    cases hc : (run e St.fresh h).1.cookies with
    | nil => rfl
    | cons x r =>
      have := hl.ck x (by rw [hc]; simp)
      rw [hh] at this; simp at this
  refine ⟨hdata, hh, hck, ?_⟩
  have hf := hl.fds
  have hm := hl.mr
  rw [hh] at hf
  rcases hdata with hd | ⟨d, hd⟩
  · simp only [nFile, nHand, mfd, hd, cnt_nil, List.length_nil] at hf hm ⊢
    simp [hm] at hf
    omega
  · simp only [nFile, nHand, mfd, hd, cnt_cons, cnt_nil, List.length_cons, List.length_nil] at hf hm ⊢
    cases hfh : d.fh with
    | none => simp [hfh] at hf hm; simp [hm] at hf; omega
    | some x => simp [hfh] at hf hm; simp [hm] at hf; omega

/-- The client can always get there: releasing a held handle removes it, and forgetting a number
    with (at least) its held count removes the entry — so the hypotheses of
    `tables_return_to_fresh` are reachable from every state by the client's own cleanup. -/
theorem cleanup_is_possible (e : Env) (s : St) :
    (∀ hd ino, handleGet s hd ino = true → mget (doRelease s ino hd).1.handles hd = none)
    ∧ (∀ i d n, i ≠ ROOT_ID → mget s.data i = some d → d.refs ≤ n →
        mget (forgetOne e s i n).data i = none) := by
  constructor
  · intro hd ino hg; simp [doRelease, hg, freeFd]
  · intro i d n hi hm hn
    rw [forgetOne_data_self e s i n d hi hm]
    simp; omega

/-! ### non-vacuity -/

def exEnv : Env := { useHostIno := false, noOpen := false, noOpendir := false, failAt := fun n => n == 5 }

/-- init; create a (handle 1); opendir root (handle 2); a lookup whose descriptor allocation is
    refused by the RLIMIT headroom; a lookup refused by the fault oracle; readdirplus; release
    both; forget -/
def exHist : History :=
  [ (none, .init (.ok { id := ⟨0, 0, 0⟩, fh := none, safe := true, dir := true })),
    (none, .create ROOT_ID false false .created (.ok { id := ⟨1, 0, 0⟩, fh := none, safe := true }) 0),
    (none, .opendir ROOT_ID 0),
    (some 0, .lookup ROOT_ID false (.ok { id := ⟨2, 0, 0⟩, fh := none, safe := true })),
    (none, .lookup ROOT_ID false (.ok { id := ⟨2, 0, 0⟩, fh := none, safe := true })),
    (none, .readdirplus ROOT_ID 2 0 (.ok [.dot, .name (.ok { id := ⟨1, 0, 0⟩, fh := none, safe := true })]) 0 .err),
    (none, .release 2 1),
    (none, .releasedir ROOT_ID 2),
    (none, .forget 2 1) ]

/-- the hypotheses of `tables_return_to_fresh` are satisfiable by a history with handles, a cookie,
    both kinds of injected descriptor faults and an undone readdirplus entry; the final state is
    the fresh one: root only, 3 descriptors -/
example :
    (run exEnv St.fresh exHist).2.map (fun r => match r with
        | .err e => e
        | _ => 0) = [0, 0, 0, 24, 24, 0, 0, 0, 0]
    ∧ (run exEnv St.fresh exHist).1.lookups + 2 < U64_MAX
    ∧ (Spec.init.run exHist (run exEnv St.fresh exHist).2).hnds = []
    ∧ (Spec.init.run exHist (run exEnv St.fresh exHist).2).held 2 = 0
    ∧ (run exEnv St.fresh exHist).1.data.length = 1
    ∧ (run exEnv St.fresh exHist).1.fds = 3 := by
  decide

end Fbr.Thm.C15
