/-
  C04 — Transport readers/writers move every byte exactly once, in order, within bounds.

  PROPERTY THEOREMS ONLY (helper lemmas: `Fbr.Lemmas.Xport*`).  Model: `Fbr.Xport` (IoBuffers,
  Reader, VirtioFsWriter, FuseDevWriter, the FileVolatileSlice adapter) and `Fbr.XportSys` (handle
  table + operation lists).  Specification: `Fbr.XportSpec` — ONE FLAT LIST AND A CURSOR:
  a buffer list denotes its flat list of byte addresses `addrs segs` (content = that list read
  through memory, `flat m segs`), and every operation is `take`/`drop` on it (`Spec.advance`,
  `Spec.split`).

  `w.log` is the list of raw memory accesses performed (each `copy_nonoverlapping`, each range a
  scripted file touched); `rdAddrs`/`wrAddrs` are the byte addresses read / written, in order.
-/
import Fbr.Lemmas.XportSys
import Fbr.Lemmas.XportRes
import Fbr.Thm.C17

namespace Fbr.Thm.C04
open Fbr.Xport Fbr.Thm.C17

/-! ### refinement of the cursor operations to the flat list -/

/-- `Reader::read(buf)` IS `Spec.advance`: it returns `min(n, available)`, the addresses it reads
    are the next ones of the flat list in order, and the cursor afterwards is the advanced spec
    cursor.  (Any buffer list: zero-length buffers, any borders.) -/
theorem read_refines_spec (b : IoBufs) (w : World) (n : Nat) (hov : b.consumed + total b.segs < USIZE) :
    let o := Reader.read b w n
    o.res = .ok (min n (total b.segs))
      ∧ rdAddrs o.w.log = rdAddrs w.log ++ (b.abs.advance n).1
      ∧ wrAddrs o.w.log = wrAddrs w.log
      ∧ o.b.abs = (b.abs.advance n).2 := by
  intro o
  have hr := read_res b w n hov
  obtain ⟨k, _, h, hok, _⟩ := read_advBy b w n hov
  have hk : k = min n (total b.segs) := by
    have := hok _ hr; omega
  obtain ⟨_, _, _, h4, h5, _, h7, h8⟩ := h
  simp only [sel, Bool.false_eq_true, if_false, Bool.not_false, if_true] at h4 h5
  refine ⟨hr, ?_, h5, ?_⟩
  · rw [h4, hk, take_min_total]; rfl
  · simp only [IoBufs.abs, Spec.advance, length_addrs]
    rw [h7, h8, hk]
    congr 1
    by_cases hn : n ≤ total b.segs
    · rw [Nat.min_eq_left hn]
    · rw [Nat.min_eq_right (by omega), List.drop_of_length_le (by simp), List.drop_of_length_le (by simp; omega)]

/-- `split_at(k)` IS `Spec.split`: it fails exactly when `k` exceeds what is available (and then
    changes nothing — the result carries no new state); otherwise `self` keeps the first `k`
    addresses and its counter, `other` gets the rest with a zero counter.  Any buffer list, any
    cut point (inside a buffer, on a border, 0, everything). -/
theorem split_partitions (b : IoBufs) (k : Nat) :
    (b.available < k ↔ ∃ e, b.splitAt k = .error e)
    ∧ (∀ a o, b.splitAt k = .ok (a, o) →
        b.abs.split k = some (a.abs, o.abs)
          ∧ addrs a.segs ++ addrs o.segs = addrs b.segs
          ∧ a.available = k ∧ o.available = b.available - k ∧ a.consumed = b.consumed ∧ o.consumed = 0) := by
  refine ⟨by rw [available_eq_total]; exact (splitAt_error_iff b k).symm, ?_⟩
  intro a o h
  obtain ⟨hk, ha, ho, ca, co⟩ := splitAt_ok h
  have la : total a.segs = k := by
    have := congrArg List.length ha; simp at this; omega
  have lo : total o.segs = total b.segs - k := by
    have := congrArg List.length ho; simpa using this
  refine ⟨?_, by rw [ha, ho, List.take_append_drop], by rw [available_eq_total, la],
    by rw [available_eq_total, available_eq_total, lo], ca, co⟩
  simp only [Spec.split, IoBufs.abs, length_addrs, hk, if_true, ha, ho, ca, co]

/-! ### any operation list -/

/-- **Counters add up.**  Start from any readers/writers (any chain shape) and run ANY operation
    list: the sum of `available + consumed` over all readers (including those created by splits)
    is still the total length of the readable buffers, and the same for writers. -/
theorem counters_add_up (st : St) (ops : List Op) (h : Start st) :
    sizes (exec st ops).readers = sizes st.readers ∧ sizes (exec st ops).writers = sizes st.writers :=
  ⟨(exec_inv ops (start_inv h)).rsum, (exec_inv ops (start_inv h)).wsum⟩

/-- **Accesses in bounds.**  After ANY operation list, every byte address read lies in one of the
    reader's original buffers and every byte address written lies in one of the writer's original
    buffers — nothing outside the descriptor chain is ever touched, and readers never write. -/
theorem accesses_in_bounds (st : St) (ops : List Op) (h : Start st) :
    (∀ a ∈ rdAddrs (exec st ops).w.log, a ∈ readable st)
    ∧ (∀ a ∈ wrAddrs (exec st ops).w.log, a ∈ writable st) :=
  ⟨(exec_inv ops (start_inv h)).w.rd_in, (exec_inv ops (start_inv h)).w.wr_in⟩

/-- … and therefore inside the memory regions, when the chain's buffers are (`WF`, which the
    constructors check with `get_slice`). -/
theorem accesses_inside_regions (st : St) (ops : List Op) (h : Start st) (m : Mem)
    (hr : ∀ b ∈ st.readers, WF m b.segs) (hw : ∀ b ∈ st.writers, WF m b.segs) :
    ∀ a ∈ rdAddrs (exec st ops).w.log ++ wrAddrs (exec st ops).w.log, a.2 < (m.get a.1).length := by
  intro a ha
  have hb := accesses_in_bounds st ops h
  have key : ∀ (l : List IoBufs), (∀ b ∈ l, WF m b.segs) → a ∈ l.flatMap (fun b => addrs b.segs) →
      a.2 < (m.get a.1).length := by
    intro l hl hm
    obtain ⟨b, hb1, hb2⟩ := List.mem_flatMap.mp hm
    obtain ⟨s, hs1, hs2⟩ := mem_addrs.mp hb2
    have := hl b hb1 s hs1
    rw [mem_segAddrs] at hs2
    rw [hs2.1]; omega
  rcases List.mem_append.mp ha with h1 | h1
  · exact key _ hr (hb.1 a h1)
  · exact key _ hw (hb.2 a h1)

/-- The cursors that remain after ANY operation list still cover only chain addresses. -/
theorem remaining_buffers_in_bounds (st : St) (ops : List Op) (h : Start st) :
    (∀ b ∈ (exec st ops).readers, ∀ a ∈ addrs b.segs, a ∈ readable st)
    ∧ (∀ b ∈ (exec st ops).writers, ∀ a ∈ addrs b.segs, a ∈ writable st) :=
  ⟨fun b hb => ((exec_inv ops (start_inv h)).readers b hb).1, fun b hb => ((exec_inv ops (start_inv h)).writers b hb).1⟩

/-! ### overflow -/

/-- **Overflow fails without writing**: a `write` of more bytes than available returns an error
    and leaves the cursor, memory, dirty log and access log exactly as they were. -/
theorem overflow_fails_without_writing (b : IoBufs) (w : World) (data : Bytes) (h : b.available < data.length) :
    let o := VirtioW.write b w data
    o.res = .error .invalidData ∧ o.b = b ∧ o.w.mem = w.mem ∧ o.w.log = w.log ∧ o.w.dirty = w.dirty := by
  intro o
  have hc : VirtioW.checkAvail b data.length 0 0 = .error .invalidData := by
    unfold VirtioW.checkAvail
    simp only [Nat.add_zero]
    by_cases h1 : data.length ≥ USIZE
    · simp [h1]
    · simp [h1, h]
  simp [o, VirtioW.write, hc]

/-- … the same for `write_vectored` (total length) and `write_from(_at)` / `write_all_from`
    (requested count). -/
theorem overflow_fails_without_writing_vectored (b : IoBufs) (w : World) (bufs : List Bytes)
    (h : b.available < bufs.foldl (fun acc x => acc + x.length) 0) :
    let o := VirtioW.writeVectored b w bufs
    o.res = .error .invalidData ∧ o.b = b ∧ o.w.mem = w.mem ∧ o.w.log = w.log ∧ o.w.dirty = w.dirty := by
  intro o
  have hc : VirtioW.checkAvail b (bufs.foldl (fun acc x => acc + x.length) 0) 0 0 = .error .invalidData := by
    unfold VirtioW.checkAvail
    simp only [Nat.add_zero]
    by_cases h1 : bufs.foldl (fun acc x => acc + x.length) 0 ≥ USIZE
    · simp [h1]
    · simp [h1, h]
  simp [o, VirtioW.writeVectored, hc]

theorem overflow_fails_without_writing_from (b : IoBufs) (w : World) (src : Script) (count : Nat)
    (at_ : Option Nat) (h : b.available < count) :
    let o := VirtioW.writeFrom b w src count at_
    o.res = .error .invalidData ∧ o.b = b ∧ o.w.mem = w.mem ∧ o.w.log = w.log ∧ o.w.dirty = w.dirty
      ∧ o.aux.offered = src.offered := by
  intro o
  have hc : VirtioW.checkAvail b count 0 0 = .error .invalidData := by
    unfold VirtioW.checkAvail
    simp only [Nat.add_zero]
    by_cases h1 : count ≥ USIZE
    · simp [h1]
    · simp [h1, h]
  simp [o, VirtioW.writeFrom, hc]

/-- A `write` that fits succeeds with the full length (no spurious short writes). -/
theorem write_that_fits_succeeds (b : IoBufs) (w : World) (data : Bytes)
    (hov : b.consumed + total b.segs < USIZE) (h : data.length ≤ b.available) :
    (VirtioW.write b w data).res = .ok data.length :=
  vwrite_res_ok b w data hov (by rw [← available_eq_total]; exact h)

/-! ### zero-length buffers -/

/-- **Zero-length segments are harmless**: inserting or removing zero-length buffers anywhere in
    a chain changes nothing in the flat list the cursor operations act on (and all operation
    theorems above are stated on that flat list). -/
theorem zero_length_segments_harmless (segs : List Seg) :
    addrs (segs.filter fun s => s.len ≠ 0) = addrs segs ∧ total (segs.filter fun s => s.len ≠ 0) = total segs := by
  induction segs with
  | nil => exact ⟨rfl, rfl⟩
  | cons s rest ih =>
    by_cases h : s.len = 0
    · rw [List.filter_cons_of_neg (by simp [h])]
      simp only [addrs, total, segAddrs_zero s h, List.nil_append, h, Nat.zero_add]
      exact ih
    · rw [List.filter_cons_of_pos (by simp [h])]
      simp only [addrs, total, ih.1, ih.2, and_self]

/-! ### non-vacuity -/

example : Start exampleStart ∧ (∀ b ∈ exampleStart.readers, WF exampleStart.w.mem b.segs)
    ∧ (∀ b ∈ exampleStart.writers, WF exampleStart.w.mem b.segs) := by
  refine ⟨⟨rfl, rfl, rfl, by decide, by decide, by decide⟩, ?_, ?_⟩ <;> decide +kernel

/-- `read_refines_spec`, `write_that_fits_succeeds`: a cursor whose counter cannot overflow -/
example : (⟨[⟨1, 10, 8⟩, ⟨1, 20, 0⟩, ⟨2, 0, 33⟩], 5⟩ : IoBufs).consumed
    + total (⟨[⟨1, 10, 8⟩, ⟨1, 20, 0⟩, ⟨2, 0, 33⟩], 5⟩ : IoBufs).segs < USIZE := by decide

/-- `overflow_fails_without_writing`: a writer with 3 bytes left asked to take 4 -/
example : (⟨[⟨1, 10, 3⟩], 0⟩ : IoBufs).available < (patBytes 1 0 4).length := by decide

/-- `split_partitions`: a split inside a buffer after partial consumption -/
example : ∃ a o, (⟨[⟨1, 13, 5⟩, ⟨1, 20, 0⟩, ⟨2, 0, 33⟩], 3⟩ : IoBufs).splitAt 7 = .ok (a, o) :=
  ⟨_, _, rfl⟩

end Fbr.Thm.C04
