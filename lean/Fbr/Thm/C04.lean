/-
  C04 — Transport readers/writers move every byte exactly once, in order, within bounds.

  PROPERTY THEOREMS ONLY (helper lemmas: `Fbr.Lemmas.Xport*`).  Model: `Fbr.Xport` (IoBuffers,
  Reader, VirtioFsWriter, FuseDevWriter, the FileVolatileSlice adapter) and `Fbr.XportSys` (handle
  table + operation lists).  Specification: `Fbr.XportSpec` — ONE FLAT LIST AND A CURSOR:
  a buffer list denotes its flat list of byte addresses `addrs segs` (content = that list read
  through memory, `flat m segs`), and every operation is `take`/`drop` on it (`Spec.advance`,
  `Spec.split`).

  `Start st` (Fbr.Lemmas.XportStart) = a virtio-fs request before the server touched it: empty
  access log and dirty log, no fusedev writer, page size > 0, counters that cannot overflow usize
  (what the constructors guarantee: `constructors_establish_invariants`); `readable st` /
  `writable st` = the byte addresses of the reader's / writer's buffers; `exec st ops` = the
  handle table after an arbitrary operation list (`Fbr.XportSys`).

  Notes (DESIGN §7): S5 — the trait-default `*_vectored_at_volatile` use `bufs.first()`; modelled
  as they are (`Script.writeVectored/readVectored`, kind `dflt`) and all theorems hold for both
  kinds of file, a leading zero-length buffer just makes such a file transfer 0 bytes.
  F3 — `FileVolatileSlice::read_slice` used to call `write_slice`; fixed in /repo (681974b), so
  `bytes_adapter_is_plain_view` is stated at full strength.

  `w.log` is the list of raw memory accesses performed (each `copy_nonoverlapping`, each range a
  scripted file touched); `rdAddrs`/`wrAddrs` are the byte addresses read / written, in order.

  Content vocabulary (Fbr.Lemmas.XportCSys): `delivered s i op` = the bytes operation `op`, run
  in state `s`, returns into the caller's buffer (`read`, `read_obj`) or hands to its sink
  (`read_to(_at)`, `read_exact_to`) through reader handle `i` (`[]` if `op` is not a reader
  operation on `i`); `placed s i op` = the bytes `op` stores through writer handle `i`: the first
  `n` bytes of its source — the caller's buffer(s) in order, the scripted file's byte stream from
  its position — with `n` the advance of the cursor (= the count the operation reports,
  `writer_ops_place_what_they_report`); `deliveredAll s i ops` / `placedAll s i ops` = their
  concatenation over an operation list, in operation order, each operation evaluated in the
  state the previous ones left.
-/
import Fbr.Lemmas.XportSys
import Fbr.Lemmas.XportOnce
import Fbr.Lemmas.XportRes
import Fbr.Lemmas.XportSplitWrite
import Fbr.Lemmas.XportFuse2
import Fbr.Lemmas.XportChain
import Fbr.Lemmas.XportStart
import Fbr.Lemmas.XportCThm
import Fbr.Lemmas.XportCLog
import Fbr.Lemmas.XportFuseThm
import Fbr.Lemmas.XportFuseRd
import Fbr.Thm.C01
import Fbr.Lemmas.FileIo

namespace Fbr.Thm.C04
open Fbr.Xport

/-! ### refinement of the cursor operations to the flat list -/

/-- `Reader::read(buf)` IS `Spec.advance`: it returns `min(n, available)`, the addresses it reads
    are the next ones of the flat list in order, and the cursor afterwards is the advanced spec
    cursor.  (Any buffer list: zero-length buffers, any borders.) -/
theorem read_refines_spec (b : IoBufs) (w : World) (n : Nat) (hov : b.consumed + total b.segs < USIZE) :
    let o := Reader.read b w n
    o.res = .ok (min n (total b.segs))
      ∧ rdAddrs o.w.log = rdAddrs w.log ++ (b.abs.advance n).1
      ∧ wrAddrs o.w.log = wrAddrs w.log
      ∧ o.b.abs = (b.abs.advance n).2 := by
  intro o
  have hr := read_res b w n hov
  obtain ⟨k, _, h, hok, _⟩ := read_advBy b w n hov
  have hk : k = min n (total b.segs) := by
    have := hok _ hr; omega
  obtain ⟨_, _, _, h4, h5, _, h7, h8⟩ := h
  simp only [sel, Bool.false_eq_true, if_false, Bool.not_false, if_true] at h4 h5
  refine ⟨hr, ?_, h5, ?_⟩
  · rw [h4, hk, take_min_total]; rfl
  · simp only [IoBufs.abs, Spec.advance, length_addrs]
    rw [h7, h8, hk]
    congr 1
    by_cases hn : n ≤ total b.segs
    · rw [Nat.min_eq_left hn]
    · rw [Nat.min_eq_right (by omega), List.drop_of_length_le (by simp), List.drop_of_length_le (by simp; omega)]

/-- `split_at(k)` IS `Spec.split`: it fails exactly when `k` exceeds what is available (and then
    changes nothing — the result carries no new state); otherwise `self` keeps the first `k`
    addresses and its counter, `other` gets the rest with a zero counter.  Any buffer list, any
    cut point (inside a buffer, on a border, 0, everything). -/
theorem split_partitions (b : IoBufs) (k : Nat) :
    (b.available < k ↔ ∃ e, b.splitAt k = .error e)
    ∧ (∀ a o, b.splitAt k = .ok (a, o) →
        b.abs.split k = some (a.abs, o.abs)
          ∧ addrs a.segs ++ addrs o.segs = addrs b.segs
          ∧ a.available = k ∧ o.available = b.available - k ∧ a.consumed = b.consumed ∧ o.consumed = 0) := by
  refine ⟨by rw [available_eq_total]; exact (splitAt_error_iff b k).symm, ?_⟩
  intro a o h
  obtain ⟨hk, ha, ho, ca, co⟩ := splitAt_ok h
  have la : total a.segs = k := by
    have := congrArg List.length ha; simp at this; omega
  have lo : total o.segs = total b.segs - k := by
    have := congrArg List.length ho; simpa using this
  refine ⟨?_, by rw [ha, ho, List.take_append_drop], by rw [available_eq_total, la],
    by rw [available_eq_total, available_eq_total, lo], ca, co⟩
  simp only [Spec.split, IoBufs.abs, length_addrs, hk, if_true, ha, ho, ca, co]

/-! ### any operation list -/

/-- **Counters add up.**  Start from any readers/writers (any chain shape) and run ANY operation
    list: the sum of `available + consumed` over all readers (including those created by splits)
    is still the total length of the readable buffers, and the same for writers. -/
theorem counters_add_up (st : St) (ops : List Op) (h : Start st) :
    sizes (exec st ops).readers = sizes st.readers ∧ sizes (exec st ops).writers = sizes st.writers :=
  ⟨(exec_inv ops (start_inv h)).rsum, (exec_inv ops (start_inv h)).wsum⟩

/-- **Accesses in bounds.**  After ANY operation list, every byte address read lies in one of the
    reader's original buffers and every byte address written lies in one of the writer's original
    buffers — nothing outside the descriptor chain is ever touched, and readers never write. -/
theorem accesses_in_bounds (st : St) (ops : List Op) (h : Start st) :
    (∀ a ∈ rdAddrs (exec st ops).w.log, a ∈ readable st)
    ∧ (∀ a ∈ wrAddrs (exec st ops).w.log, a ∈ writable st) :=
  ⟨(exec_inv ops (start_inv h)).w.rd_in, (exec_inv ops (start_inv h)).w.wr_in⟩

/-- … and therefore inside the memory regions, when the chain's buffers are (`WF`, which the
    constructors check with `get_slice`). -/
theorem accesses_inside_regions (st : St) (ops : List Op) (h : Start st) (m : Mem)
    (hr : ∀ b ∈ st.readers, WF m b.segs) (hw : ∀ b ∈ st.writers, WF m b.segs) :
    ∀ a ∈ rdAddrs (exec st ops).w.log ++ wrAddrs (exec st ops).w.log, a.2 < (m.get a.1).length := by
  intro a ha
  have hb := accesses_in_bounds st ops h
  have key : ∀ (l : List IoBufs), (∀ b ∈ l, WF m b.segs) → a ∈ l.flatMap (fun b => addrs b.segs) →
      a.2 < (m.get a.1).length := by
    intro l hl hm
    obtain ⟨b, hb1, hb2⟩ := List.mem_flatMap.mp hm
    obtain ⟨s, hs1, hs2⟩ := mem_addrs.mp hb2
    have := hl b hb1 s hs1
    rw [mem_segAddrs] at hs2
    rw [hs2.1]; omega
  rcases List.mem_append.mp ha with h1 | h1
  · exact key _ hr (hb.1 a h1)
  · exact key _ hw (hb.2 a h1)

/-- The cursors that remain after ANY operation list still cover only chain addresses. -/
theorem remaining_buffers_in_bounds (st : St) (ops : List Op) (h : Start st) :
    (∀ b ∈ (exec st ops).readers, ∀ a ∈ addrs b.segs, a ∈ readable st)
    ∧ (∀ b ∈ (exec st ops).writers, ∀ a ∈ addrs b.segs, a ∈ writable st) :=
  ⟨fun b hb => ((exec_inv ops (start_inv h)).readers b hb).1, fun b hb => ((exec_inv ops (start_inv h)).writers b hb).1⟩

/-- **Every byte exactly once.**  After ANY operation list, the addresses read so far together
    with the addresses still ahead of all readers (however split) are a permutation of the
    readable descriptors' addresses — and likewise written/writers/writable.  Hence, when the
    descriptors do not overlap, no byte is read twice, written twice, or both consumed and still
    ahead of some cursor. -/
theorem every_byte_moved_exactly_once (st : St) (ops : List Op) (h : Start st) :
    (rdAddrs (exec st ops).w.log ++ ahead (exec st ops).readers).Perm (readable st)
    ∧ (wrAddrs (exec st ops).w.log ++ ahead (exec st ops).writers).Perm (writable st) :=
  exec_once ops (start_inv h) (start_once h)

theorem no_byte_written_twice (st : St) (ops : List Op) (h : Start st) (hnd : (writable st).Nodup) :
    (wrAddrs (exec st ops).w.log).Nodup ∧ (ahead (exec st ops).writers).Nodup
      ∧ ∀ a ∈ wrAddrs (exec st ops).w.log, a ∉ ahead (exec st ops).writers := by
  have hp := (every_byte_moved_exactly_once st ops h).2
  have hnd' := (hp.nodup_iff).mpr hnd
  obtain ⟨h1, h2, h3⟩ := List.nodup_append.mp hnd'
  exact ⟨h1, h2, fun a ha hb => h3 a ha a hb rfl⟩

/-! ### overflow -/

/-- **Overflow fails without writing**: a `write` of more bytes than available returns an error
    and leaves the cursor, memory, dirty log and access log exactly as they were. -/
theorem overflow_fails_without_writing (b : IoBufs) (w : World) (data : Bytes) (h : b.available < data.length) :
    let o := VirtioW.write b w data
    o.res = .error .invalidData ∧ o.b = b ∧ o.w.mem = w.mem ∧ o.w.log = w.log ∧ o.w.dirty = w.dirty := by
  intro o
  have hc : VirtioW.checkAvail b data.length 0 0 = .error .invalidData := by
    unfold VirtioW.checkAvail
    simp only [Nat.add_zero]
    by_cases h1 : data.length ≥ USIZE
    · simp [h1]
    · simp [h1, h]
  simp [o, VirtioW.write, hc]

/-- … the same for `write_vectored` (total length) and `write_from(_at)` / `write_all_from`
    (requested count). -/
theorem overflow_fails_without_writing_vectored (b : IoBufs) (w : World) (bufs : List Bytes)
    (h : b.available < bufs.foldl (fun acc x => acc + x.length) 0) :
    let o := VirtioW.writeVectored b w bufs
    o.res = .error .invalidData ∧ o.b = b ∧ o.w.mem = w.mem ∧ o.w.log = w.log ∧ o.w.dirty = w.dirty := by
  intro o
  have hc : VirtioW.checkAvail b (bufs.foldl (fun acc x => acc + x.length) 0) 0 0 = .error .invalidData := by
    unfold VirtioW.checkAvail
    simp only [Nat.add_zero]
    by_cases h1 : bufs.foldl (fun acc x => acc + x.length) 0 ≥ USIZE
    · simp [h1]
    · simp [h1, h]
  simp [o, VirtioW.writeVectored, hc]

theorem overflow_fails_without_writing_from (b : IoBufs) (w : World) (src : Script) (count : Nat)
    (at_ : Option Nat) (h : b.available < count) :
    let o := VirtioW.writeFrom b w src count at_
    o.res = .error .invalidData ∧ o.b = b ∧ o.w.mem = w.mem ∧ o.w.log = w.log ∧ o.w.dirty = w.dirty
      ∧ o.aux.offered = src.offered := by
  intro o
  have hc : VirtioW.checkAvail b count 0 0 = .error .invalidData := by
    unfold VirtioW.checkAvail
    simp only [Nat.add_zero]
    by_cases h1 : count ≥ USIZE
    · simp [h1]
    · simp [h1, h]
  simp [o, VirtioW.writeFrom, hc]

/-- A `write` that fits succeeds with the full length (no spurious short writes). -/
theorem write_that_fits_succeeds (b : IoBufs) (w : World) (data : Bytes)
    (hov : b.consumed + total b.segs < USIZE) (h : data.length ≤ b.available) :
    (VirtioW.write b w data).res = .ok data.length :=
  vwrite_res_ok b w data hov (by rw [← available_eq_total]; exact h)

/-! ### zero-length buffers -/

/-- **Zero-length segments are harmless**: inserting or removing zero-length buffers anywhere in
    a chain changes nothing in the flat list the cursor operations act on (and all operation
    theorems above are stated on that flat list). -/
theorem zero_length_segments_harmless (segs : List Seg) :
    addrs (segs.filter fun s => s.len ≠ 0) = addrs segs ∧ total (segs.filter fun s => s.len ≠ 0) = total segs := by
  induction segs with
  | nil => exact ⟨rfl, rfl⟩
  | cons s rest ih =>
    by_cases h : s.len = 0
    · rw [List.filter_cons_of_neg (by simp [h])]
      simp only [addrs, total, segAddrs_zero s h, List.nil_append, h, Nat.zero_add]
      exact ih
    · rw [List.filter_cons_of_pos (by simp [h])]
      simp only [addrs, total, ih.1, ih.2, and_self]

/-! ### content: the bytes themselves -/

/-- **Byte-level refinement of `read`.**  With the buffers inside their regions, `read(buf)`
    returns exactly the next `n` bytes of the flat content (`Spec.advance` on the flat *byte*
    list), leaves the rest as the new content, and does not modify memory. -/
theorem read_returns_request_bytes (b : IoBufs) (w : World) (n : Nat) (hwf : WF w.mem b.segs)
    (hov : b.consumed + total b.segs < USIZE) :
    let o := Reader.read b w n
    o.aux = ((b.absBytes w.mem).advance n).1 ∧ o.b.absBytes w.mem = ((b.absBytes w.mem).advance n).2
      ∧ o.w.mem = w.mem := by
  intro o
  obtain ⟨hb, hm⟩ := read_bytes b w n hwf.inMem
  have h1 := readMany_spec b w [n] hwf.inMem hov
  simp only [readMany, List.flatten_cons, List.flatten_nil, List.append_nil] at h1
  obtain ⟨h1a, h1b, _⟩ := h1
  have hlen : (flat w.mem b.segs).length = total b.segs := by
    rw [flat_eq_map _ _ hwf.inMem]; simp
  refine ⟨hb, ?_, hm⟩
  simp only [IoBufs.absBytes, Spec.advance]
  have hrest : flat w.mem (Reader.read b w n).b.segs = (flat w.mem b.segs).drop n := by
    have e : (flat w.mem b.segs).take n ++ flat w.mem (Reader.read b w n).b.segs
        = (flat w.mem b.segs).take n ++ (flat w.mem b.segs).drop n := by
      rw [List.take_append_drop, ← hb]; exact h1a
    exact List.append_cancel_left e
  rw [hrest, h1b, hb]
  simp [List.length_take]

/-- **Reads are the request bytes, in order** (content level, any operation list).  Start from
    any request (any chain layout; the readable and the writable descriptors do not share a
    byte), run ANY operation list `pre` (reads, object reads, file transfers, splits, writes on
    any handles), pick ANY reader handle `i` that exists then — the original reader or one half
    of any split — and run ANY further operation list `ops` that does not split handle `i`
    itself (operations on all other handles, including their splits, and all writer operations
    may be interleaved arbitrarily; `read_to(_at)`/`read_exact_to` go through scripted files
    with short counts, EIO, EINTR, with or without vectored overrides).  Then the bytes
    delivered through `i` — returned by `read`/`read_obj`, handed to the sinks — concatenated in
    operation order, followed by what the handle still holds, are exactly what it held before,
    read through the ORIGINAL memory: a prefix of the request bytes, nothing skipped, nothing
    repeated, nothing altered; the counter grew by the number of bytes delivered; and what is
    still ahead is still unmodified in memory. -/
theorem reads_are_request_bytes_in_order (st : St) (pre ops : List Op) (h : Start st)
    (hdisj : ∀ a ∈ readable st, a ∉ writable st)
    (hr : ∀ b ∈ st.readers, WF st.w.mem b.segs) (hw : ∀ b ∈ st.writers, WF st.w.mem b.segs)
    (i : Nat) (b0 : IoBufs) (hi : (exec st pre).readers[i]? = some b0) (hns : ∀ k, Op.rs i k ∉ ops) :
    ∃ bf, (exec (exec st pre) ops).readers[i]? = some bf
      ∧ deliveredAll (exec st pre) i ops ++ flat st.w.mem bf.segs = flat st.w.mem b0.segs
      ∧ bf.consumed = b0.consumed + (deliveredAll (exec st pre) i ops).length
      ∧ (∀ a ∈ addrs bf.segs, (exec (exec st pre) ops).w.mem.byteAt a = st.w.mem.byteAt a) :=
  reads_core pre ops h hdisj hr hw i b0 hi hns

/-- `delivered` is what a caller observes (and what the differential run compares with the real
    `Reader`): the `bytes` of the observation of `step` — for `read` always, for `read_obj` when it
    succeeds (a failing `read_obj` has consumed and dropped what `delivered` lists), for the file
    transfers when the scripted sink starts empty (its `got` afterwards). -/
theorem delivered_bytes_are_the_observed_ones (s : St) (h : Nat) (b : IoBufs) (hg : s.readers[h]? = some b) :
    (∀ n, (step s (.rd h n)).2.bytes = delivered s h (.rd h n))
    ∧ (∀ n, (Reader.readObj b s.w n).res = .ok () → (step s (.ro h n)).2.bytes = delivered s h (.ro h n))
    ∧ (∀ count at_ sc, sc.got = [] → (step s (.rt h count at_ sc)).2.bytes = delivered s h (.rt h count at_ sc))
    ∧ (∀ count sc, sc.got = [] → (step s (.re h count sc)).2.bytes = delivered s h (.re h count sc)) :=
  obs_bytes_delivered s h b hg

/-- The same on addresses for EVERY reader operation (object reads, file transfers with any
    scripted file, retry loops): each advances the cursor by some `n`, reading exactly the next
    `n` addresses in order and leaving the rest — so over any operation list no byte is visited
    twice or skipped.  (`Adv` is closed under sequencing: `Adv.trans`.) -/
theorem every_reader_op_advances (b : IoBufs) (w : World) (hov : b.consumed + total b.segs < USIZE) :
    (∀ n, Adv false false b w (Reader.readObj b w n).b (Reader.readObj b w n).w)
    ∧ (∀ dst count at_, Adv false false b w (Reader.readTo b w dst count at_).b (Reader.readTo b w dst count at_).w)
    ∧ (∀ fuel dst count, Adv false false b w (Reader.readExactTo fuel b w dst count).b (Reader.readExactTo fuel b w dst count).w) :=
  ⟨fun n => readObj_adv b w n hov, fun dst count at_ => readTo_adv b w dst count at_ hov,
   fun fuel dst count => readExactTo_adv fuel b w dst count hov⟩

/-- … and EVERY writer operation likewise (with the pages of exactly those addresses marked). -/
theorem every_writer_op_advances (b : IoBufs) (w : World) (hp : 0 < w.p) (hov : b.consumed + total b.segs < USIZE) :
    (∀ data, Adv true true b w (VirtioW.write b w data).b (VirtioW.write b w data).w)
    ∧ (∀ bufs, Adv true true b w (VirtioW.writeVectored b w bufs).b (VirtioW.writeVectored b w bufs).w)
    ∧ (∀ src count at_, Adv true true b w (VirtioW.writeFrom b w src count at_).b (VirtioW.writeFrom b w src count at_).w)
    ∧ (∀ src count, Adv true true b w (VirtioW.writeAllFrom b w src count).b (VirtioW.writeAllFrom b w src count).w) :=
  ⟨fun d => vwrite_adv b w d hp hov, fun bufs => writeVectored_adv b w bufs hp hov,
   fun src count at_ => writeFrom_adv b w src count at_ hp hov, fun src count => writeAllFrom_adv b w src count hp hov⟩

/-- **Writes are the concatenation written** (content level, any operation list).  Start from
    any request whose writable descriptors do not overlap, run ANY operation list `pre`, pick
    ANY writer handle `i` that exists then (the original writer or a half of any split), and run
    ANY further operation list `ops` that does not split handle `i` itself (`write`,
    `write_vectored`, `write_from(_at)`, `write_all_from` with any scripted source — short counts,
    EIO, EINTR, trait-default vectored methods —, failing and refused operations, operations on
    every other handle and reader operations interleaved arbitrarily).  Then the buffers handle
    `i` held hold exactly the concatenation, in operation order, of what was stored through it,
    followed by their old content (unused space untouched); its counter grew by that length; it
    still holds exactly the rest; and no byte outside the space the writers held changed. -/
theorem writes_are_concatenation (st : St) (pre ops : List Op) (h : Start st) (hnd : (writable st).Nodup)
    (hr : ∀ b ∈ st.readers, WF st.w.mem b.segs) (hw : ∀ b ∈ st.writers, WF st.w.mem b.segs)
    (i : Nat) (b0 : IoBufs) (hi : (exec st pre).writers[i]? = some b0) (hns : ∀ k, Op.ws i k ∉ ops) :
    ∃ bf, (exec (exec st pre) ops).writers[i]? = some bf
      ∧ flat (exec (exec st pre) ops).w.mem b0.segs
          = placedAll (exec st pre) i ops
            ++ (flat (exec st pre).w.mem b0.segs).drop (placedAll (exec st pre) i ops).length
      ∧ bf.consumed = b0.consumed + (placedAll (exec st pre) i ops).length
      ∧ addrs bf.segs = (addrs b0.segs).drop (placedAll (exec st pre) i ops).length
      ∧ (∀ a, a ∉ ahead (exec st pre).writers →
          (exec (exec st pre) ops).w.mem.byteAt a = (exec st pre).w.mem.byteAt a) :=
  writes_core pre ops h hnd hr hw i b0 hi hns

/-- **All bytes delivered are request bytes** (global form, splits of every handle allowed).  After
    ANY operation list — any readers, however split, in any interleaving — the bytes delivered by
    all reader operations (`deliveredLog`: `delivered` of each operation through the handle it
    acts on, concatenated in operation order) are exactly the bytes of the ORIGINAL memory at the
    addresses read, in the order they were read.  With `every_byte_moved_exactly_once` (those
    addresses, together with what the readers still hold, are a permutation of the readable
    descriptors' addresses): no request byte is delivered twice, none is invented or altered. -/
theorem all_delivered_bytes_are_request_bytes (st : St) (ops : List Op) (h : Start st)
    (hdisj : ∀ a ∈ readable st, a ∉ writable st)
    (hr : ∀ b ∈ st.readers, WF st.w.mem b.segs) (hw : ∀ b ∈ st.writers, WF st.w.mem b.segs) :
    deliveredLog st ops = (rdAddrs (exec st ops).w.log).map st.w.mem.byteAt := by
  have := exec_rdlog ops (start_cinv h hr hw) (start_rinv hdisj)
  rw [h.1] at this
  simpa [rdAddrs] using this.symm

/-- **All bytes written hold what was stored** (global form, splits of every handle allowed).  After
    ANY operation list on non-overlapping writable descriptors, the addresses written, in the order
    they were written, hold exactly the bytes stored by all writer operations (`placedLog`:
    `placed` of each operation through the handle it acts on, concatenated in operation order) —
    no later operation, on any handle, has disturbed an earlier one's bytes. -/
theorem all_written_bytes_hold_what_was_placed (st : St) (ops : List Op) (h : Start st) (hnd : (writable st).Nodup)
    (hr : ∀ b ∈ st.readers, WF st.w.mem b.segs) (hw : ∀ b ∈ st.writers, WF st.w.mem b.segs) :
    (wrAddrs (exec st ops).w.log).map (exec st ops).w.mem.byteAt = placedLog st ops := by
  have h0 : WL st [] := by
    unfold WL; rw [h.1]; exact ⟨by simp only [wrAddrs, List.nil_append]; exact hnd, rfl⟩
  simpa using (exec_wl ops (start_cinv h hr hw) h0).2

/-- **What a writer operation stores is what it reports** (the `n` in `placed`): a successful
    `write` stores the whole buffer and reports its length, a failing one stores nothing; a
    successful `write_vectored` reporting `n` stores the first `n` bytes of the buffers in order;
    `write_from(_at)` reporting `n ≤ count` stores the `n` bytes the scripted file delivered
    (from its position, or from the given offset), a failing one stores nothing; a successful
    `write_all_from(count)` stores `count` bytes of the file's stream.  (A failing
    `write_all_from`/`write_vectored` may have stored a prefix: `placed` is that prefix.) -/
theorem writer_ops_place_what_they_report (b : IoBufs) (w : World) (hp : 0 < w.p) (hwf : WF w.mem b.segs)
    (hov : b.consumed + total b.segs < USIZE) (h : Nat) :
    (∀ data n, (VirtioW.write b w data).res = .ok n → n = data.length ∧ writerIn b w (.wr h data) = data)
    ∧ (∀ data e, (VirtioW.write b w data).res = .error e → writerIn b w (.wr h data) = [])
    ∧ (∀ datas n, (VirtioW.writeVectored b w datas).res = .ok n → writerIn b w (.wv h datas) = datas.flatten.take n)
    ∧ (∀ count at_ sc n, (VirtioW.writeFrom b w sc count at_).res = .ok n →
        n ≤ count ∧ writerIn b w (.wf h count at_ sc) = patBytes sc.seed (at_.getD sc.pos) n)
    ∧ (∀ count at_ sc e, (VirtioW.writeFrom b w sc count at_).res = .error e → writerIn b w (.wf h count at_ sc) = [])
    ∧ (∀ count sc, (VirtioW.writeAllFrom b w sc count).res = .ok () →
        writerIn b w (.wa h count sc) = patBytes sc.seed sc.pos count) :=
  writerIn_reported b w hp hwf.inMem hov h

/-- **Memory changes only where something was written**: after ANY operation list every byte
    whose address is not in the write log is as it was — with `accesses_in_bounds`: nothing
    outside the writable descriptors ever changes, and (`no_byte_written_twice`) space a writer
    has not consumed is untouched. -/
theorem memory_changes_only_where_written (st : St) (ops : List Op) (h : Start st)
    (hr : ∀ b ∈ st.readers, WF st.w.mem b.segs) (hw : ∀ b ∈ st.writers, WF st.w.mem b.segs) :
    (∀ a, a ∉ wrAddrs (exec st ops).w.log → (exec st ops).w.mem.byteAt a = st.w.mem.byteAt a)
    ∧ (∀ x, ((exec st ops).w.mem.get x).length = (st.w.mem.get x).length) :=
  ⟨exec_frame_log ops (start_cinv h hr hw) (fun _ _ => rfl), (exec_cinv ops (start_cinv h hr hw)).len⟩

/-- **Split header/data writers** (content level, any operation list).  After ANY operation list
    `pre`, split ANY writer handle `i` at `k` into a header half (still `i`) and a data half (the
    new handle, index `writers.length`), then run ANY operation list that does not split these
    two halves again — any interleaving of any writer operations on the two halves (data first,
    header first, alternating, short or failing `write_from`s, …) and of operations on other
    handles.  The buffers the writer held before the split then hold
    `(everything stored through the header half) ++ (untouched rest of the first k bytes) ++
     (everything stored through the data half) ++ (untouched rest)`. -/
theorem split_writers_concatenate (st : St) (pre ops : List Op) (h : Start st) (hnd : (writable st).Nodup)
    (hr : ∀ b ∈ st.readers, WF st.w.mem b.segs) (hw : ∀ b ∈ st.writers, WF st.w.mem b.segs)
    (i k : Nat) (b a o : IoBufs) (hi : (exec st pre).writers[i]? = some b) (hs : b.splitAt k = .ok (a, o))
    (hns : ∀ k', Op.ws i k' ∉ ops ∧ Op.ws (exec st pre).writers.length k' ∉ ops) :
    flat (exec (exec st (pre ++ [.ws i k])) ops).w.mem b.segs
      = (placedAll (exec st (pre ++ [.ws i k])) i ops
          ++ (flat (exec st pre).w.mem a.segs).drop (placedAll (exec st (pre ++ [.ws i k])) i ops).length)
        ++ (placedAll (exec st (pre ++ [.ws i k])) (exec st pre).writers.length ops
          ++ (flat (exec st pre).w.mem o.segs).drop
              (placedAll (exec st (pre ++ [.ws i k])) (exec st pre).writers.length ops).length) :=
  split_core pre ops h hnd hr hw i k b a o hi hs hns

/-- The constructors establish the hypotheses used above: a cursor built from ANY descriptor
    chain starts at 0, cannot overflow `usize`, keeps the descriptor lengths in order, and every
    buffer lies inside a region of the guest memory layout. -/
theorem constructors_establish_invariants (lay : Layout) (chain : List Desc) (wr : Bool) (b : IoBufs)
    (h : fromChain lay chain wr = .ok b) :
    b.consumed = 0 ∧ b.consumed + total b.segs < USIZE ∧ (∀ s ∈ b.segs, Fits lay s)
      ∧ b.segs.map (·.len) = (chain.filter (·.writable == wr)).map (·.len) :=
  fromChain_spec lay chain wr b h

/-! ### FuseDevWriter -/

/-- The `assert!(buffered || buf.is_empty())` is reachable through the public API exactly by a
    further write on an unbuffered writer that has already written (the documented one-shot
    rule); no other writer state panics. -/
theorem fuse_assert_only_on_one_shot_violation (f : FuseW) (sz : Nat) (hok : f.ok) :
    (∃ s, f.checkAvail sz = .error (.panic s)) ↔ (f.buffered = false ∧ f.len ≠ 0) :=
  checkAvail_panics_iff f sz hok

/-- `write` never reallocates the borrowed buffer and keeps `len ≤ cap` (so
    `available_bytes = capacity - len` never underflows) — for every writer state and data. -/
theorem fuse_never_realloc (f : FuseW) (w : World) (data : Bytes) (hok : f.ok) :
    (FuseW.write f w data).f.ok ∧ (FuseW.write f w data).f.cap = f.cap
      ∧ (FuseW.write f w data).res ≠ .error (.panic "realloc of borrowed buffer") :=
  fwrite_ok f w data hok

/-- `split_at(k)` fails iff `k > capacity`; otherwise the two writers own adjacent windows whose
    capacities add up, share the bytes already written, and both are buffered. -/
theorem fuse_split_partitions (f : FuseW) (k : Nat) (hok : f.ok) :
    ((∃ e, f.splitAt k = .error e) ↔ f.cap < k)
    ∧ ∀ a o, f.splitAt k = .ok (a, o) →
        a.ok ∧ o.ok ∧ a.cap + o.cap = f.cap ∧ a.base = f.base ∧ o.base = f.base + a.cap
          ∧ a.len + o.len = f.len ∧ a.buffered = true ∧ o.buffered = true ∧ k ≤ f.cap ∧ a.cap = k :=
  ⟨fsplit_error_iff f k, fun a o h => fsplit_ok f a o k hok h⟩

/-- A buffered write that fits appends exactly `data` to the writer's buffer, writes nothing to
    the descriptor and touches no other byte; one that does not fit is refused. -/
theorem fuse_buffered_write_appends (f : FuseW) (w : World) (data : Bytes) (hb : f.buffered = true) (hok : f.ok)
    (hfit : data.length ≤ f.cap - f.len) (hin : f.inMem w.mem) :
    (FuseW.write f w data).res = .ok data.length
      ∧ (FuseW.write f w data).f.slice (FuseW.write f w data).w.mem = f.slice w.mem ++ data
      ∧ (FuseW.write f w data).w.fd = w.fd
      ∧ (∀ a : Addr, ¬ (a.1 = f.region ∧ f.base + f.len ≤ a.2 ∧ a.2 < f.base + f.len + data.length) →
          (FuseW.write f w data).w.mem.byteAt a = w.mem.byteAt a) := by
  obtain ⟨h1, _, h3, h4, _, h6⟩ := fwrite_buffered f w data hb hok hfit hin
  exact ⟨h1, h3, h4, h6⟩

/-- `commit(other)` issues at most one record: `self.buf ++ other.buf`. -/
theorem fuse_commit_is_concatenation (f : FuseW) (w : World) (other : Option FuseW) (hb : f.buffered = true) :
    ∃ r : Bytes, r = f.slice w.mem ++ (match other with | some g => g.slice w.mem | none => [])
      ∧ (FuseW.commit f w other).1 = .ok r.length
      ∧ (FuseW.commit f w other).2.fd = (if r.isEmpty then w.fd else w.fd ++ [r])
      ∧ (FuseW.commit f w other).2.mem = w.mem :=
  fcommit_spec f w other hb

/-! #### FuseDevWriter: any operation list

  `FStart st R base cap` (Fbr.Lemmas.XportFuseThm) = a /dev/fuse reply before the server touched
  it: one fresh `FuseDevWriter::new` over the buffer `[base, base+cap)` of region `R` (inside
  memory), no virtio-fs writer, an empty access log, any readers.  `fahead fws` = the addresses of
  the windows `[base, base+cap)` of all writers of a table; `fwriterIn f w op` / `fplaced s i op` /
  `fplacedAll s i ops` = the bytes an operation / an operation list appends through fusedev
  handle `i` (as `placed`/`placedAll`: the first `n` bytes of the source, `n` the growth of `len` =
  the count reported, `fuse_ops_append_what_they_report`). -/

/-- **FuseDevWriter invariant over ANY operation list** (writes, vectored writes, `write_from(_at)`,
    `write_all_from` with any scripted file, splits at any offset of any writer — also after
    partial writes —, commits, failing and refused operations, reader operations in between, in
    any order): every writer keeps `len ≤ cap` — the `Vec` laid over the borrowed buffer never
    outgrows its capacity, so it never reallocates and `capacity - len` never underflows —, stays
    inside the original buffer, the windows of all writers (however split) always PARTITION the
    original buffer, `available_bytes + bytes_written`
    of every writer is its capacity and the capacities add up to the buffer size, every memory write lies inside it, the
    memory regions keep their sizes, and no virtio-fs writer appears. -/
theorem fuse_invariant_any_operation_list (st : St) (R base cap : Nat) (ops : List Op) (h : FStart st R base cap) :
    (∀ f ∈ (exec st ops).fws, f.len ≤ f.cap ∧ f.region = R ∧ base ≤ f.base ∧ f.base + f.cap ≤ base + cap
        ∧ f.availableBytes + f.bytesWritten = f.cap)
    ∧ (fahead (exec st ops).fws).Perm (segAddrs ⟨R, base, cap⟩)
    ∧ (((exec st ops).fws.map FuseW.cap).sum = cap)
    ∧ (∀ a ∈ wrAddrs (exec st ops).w.log, a ∈ segAddrs ⟨R, base, cap⟩)
    ∧ (∀ x, ((exec st ops).w.mem.get x).length = (st.w.mem.get x).length)
    ∧ (exec st ops).writers = [] := by
  have hi := exec_finv ops (fstart_finv h)
  refine ⟨?_, hi.part, ?_, hi.wrin, exec_flen ops (fstart_finv h), hi.nowr⟩
  · intro f hf
    obtain ⟨h1, h2, h3, h4⟩ := hi.each f hf
    unfold FuseW.ok at h1
    exact ⟨h1, h2, h3, h4, by unfold FuseW.availableBytes FuseW.bytesWritten; omega⟩
  · rw [← length_fahead, hi.part.length_eq]; simp

/-- … and no operation on a writer with `len ≤ cap` inside memory (every writer of every reachable
    table, by the theorem above) ends in the "realloc of borrowed buffer" or the "capacity - len
    underflow" outcome: whatever fails, fails with an ordinary error (no room, the file's error,
    the documented one-shot assert). -/
theorem fuse_no_operation_reallocates (f : FuseW) (w : World) (hok : f.ok) (hin : f.inMem w.mem) (e : IoErr) :
    (∀ data, (FuseW.write f w data).res = .error e → Benign e)
    ∧ (∀ bufs, (FuseW.writeVectored f w bufs).res = .error e → Benign e)
    ∧ (∀ src count at_, (FuseW.writeFrom f w src count at_).res = .error e → Benign e)
    ∧ (∀ src count, (FuseW.writeAllFrom f w src count).res = .error e → Benign e) :=
  ⟨fun data => fwrite_benign f w data hok, fun bufs => fwriteVectored_benign f w bufs hok,
   fun src count at_ => fwriteFrom_benign f w src count at_ hok,
   fun src count => fwriteAllFrom_benign f w src count hok hin⟩

/-- **Reads are the request bytes, in order — on the /dev/fuse transport.**  The same statement as
    `reads_are_request_bytes_in_order` for the `Reader` living next to FuseDevWriters: request
    buffer(s) inside memory and outside the reply buffer; ANY operation list `pre`, ANY reader
    handle `i` existing then, ANY further operation list that does not split `i` (all FuseDevWriter
    operations, splits and commits, and operations on other readers interleaved arbitrarily). -/
theorem fuse_reads_are_request_bytes_in_order (st : St) (R base cap : Nat) (pre ops : List Op) (h : FStart st R base cap)
    (hov : ∀ b ∈ st.readers, b.consumed + total b.segs < USIZE)
    (hr : ∀ b ∈ st.readers, WF st.w.mem b.segs)
    (hout : ∀ b ∈ st.readers, ∀ a ∈ addrs b.segs, a ∉ segAddrs ⟨R, base, cap⟩)
    (i : Nat) (b0 : IoBufs) (hi : (exec st pre).readers[i]? = some b0) (hns : ∀ k, Op.rs i k ∉ ops) :
    ∃ bf, (exec (exec st pre) ops).readers[i]? = some bf
      ∧ deliveredAll (exec st pre) i ops ++ flat st.w.mem bf.segs = flat st.w.mem b0.segs
      ∧ bf.consumed = b0.consumed + (deliveredAll (exec st pre) i ops).length
      ∧ (∀ a ∈ addrs bf.segs, (exec (exec st pre) ops).w.mem.byteAt a = st.w.mem.byteAt a) :=
  freads_core pre ops h hov hr hout i b0 hi hns

/-- **Overflow fails without writing** on /dev/fuse: a `write`, `write_vectored`, `write_from(_at)` or
    `write_all_from` asking for more than `capacity - len` (on any writer that may write at all:
    buffered, or unbuffered and fresh) returns `InvalidData` and leaves the writer, memory, the
    descriptor, the logs and the scripted file exactly as they were. -/
theorem fuse_overflow_fails_without_writing (f : FuseW) (w : World) (hok : f.ok) (hmode : f.buffered = true ∨ f.len = 0) :
    (∀ data : Bytes, f.cap - f.len < data.length →
        (FuseW.write f w data).res = .error .invalidData ∧ (FuseW.write f w data).f = f ∧ (FuseW.write f w data).w = w)
    ∧ (∀ bufs : List Bytes, f.cap - f.len < bufs.flatten.length →
        (FuseW.writeVectored f w bufs).res = .error .invalidData ∧ (FuseW.writeVectored f w bufs).f = f
          ∧ (FuseW.writeVectored f w bufs).w = w)
    ∧ (∀ src count at_, f.cap - f.len < count →
        (FuseW.writeFrom f w src count at_).res = .error .invalidData ∧ (FuseW.writeFrom f w src count at_).f = f
          ∧ (FuseW.writeFrom f w src count at_).w = w ∧ (FuseW.writeFrom f w src count at_).aux = src)
    ∧ (∀ src count, f.cap - f.len < count →
        (FuseW.writeAllFrom f w src count).res = .error .invalidData ∧ (FuseW.writeAllFrom f w src count).f = f
          ∧ (FuseW.writeAllFrom f w src count).w = w ∧ (FuseW.writeAllFrom f w src count).aux = src) :=
  fuse_overflow f w hok hmode

/-- An unbuffered (never split) fresh writer sends each write straight to the descriptor as ONE
    record: `write` the buffer (memory untouched), `write_vectored` the concatenation of the
    buffers (none when it is empty), `write_from(_at)` reporting `n` exactly the `n` bytes the file
    delivered. -/
theorem fuse_unbuffered_write_is_one_record (f : FuseW) (w : World) (hb : f.buffered = false) (hl : f.len = 0)
    (hin : f.inMem w.mem) :
    (∀ data : Bytes, data.length ≤ f.cap →
        (FuseW.write f w data).res = .ok data.length ∧ (FuseW.write f w data).w.fd = w.fd ++ [data]
          ∧ (FuseW.write f w data).w.mem = w.mem)
    ∧ (∀ bufs : List Bytes, bufs ≠ [] → bufs.flatten.length ≤ f.cap →
        (FuseW.writeVectored f w bufs).res = .ok bufs.flatten.length
          ∧ (FuseW.writeVectored f w bufs).w.fd = (if bufs.flatten.isEmpty then w.fd else w.fd ++ [bufs.flatten])
          ∧ (FuseW.writeVectored f w bufs).w.mem = w.mem)
    ∧ (∀ src count at_ n, (FuseW.writeFrom f w src count at_).res = .ok n →
        (FuseW.writeFrom f w src count at_).w.fd = w.fd ++ [patBytes src.seed (at_.getD src.pos) n]) :=
  fuse_unbuffered f w hb hl hin

/-- **Buffered appends, any operation list.**  After ANY operation list `pre`, take ANY buffered
    writer `i` (any half of any split) and run ANY further operation list `ops` that does not
    split `i` itself (all operations on all other writers, their splits, commits and reader
    operations interleaved arbitrarily): its buffer is then its old buffer followed by exactly
    what was appended through it, in operation order; only `len` moved; it is still buffered. -/
theorem fuse_buffered_writes_append_any_operation_list (st : St) (R base cap : Nat) (pre ops : List Op)
    (h : FStart st R base cap) (i : Nat) (f0 : FuseW) (hi : (exec st pre).fws[i]? = some f0)
    (hb : f0.buffered = true) (hns : ∀ k, Op.fs i k ∉ ops) :
    ∃ ff, (exec (exec st pre) ops).fws[i]? = some ff ∧ ff.buffered = true
      ∧ ff = { f0 with len := f0.len + (fplacedAll (exec st pre) i ops).length }
      ∧ ff.slice (exec (exec st pre) ops).w.mem = f0.slice (exec st pre).w.mem ++ fplacedAll (exec st pre) i ops :=
  fuse_slice_run ops (exec_finv pre (fstart_finv h)) i f0 hi hb hns

/-- What a buffered operation appends is what it reports: `write` the whole buffer (or nothing,
    refused), `write_vectored` all buffers in order (or nothing), `write_from(_at)` reporting `n` the
    `n` bytes the file delivered (nothing on error). -/
theorem fuse_ops_append_what_they_report (f : FuseW) (w : World) (hb : f.buffered = true) (hok : f.ok)
    (hin : f.inMem w.mem) (h : Nat) :
    (∀ data n, (FuseW.write f w data).res = .ok n → n = data.length ∧ fwriterIn f w (.fw h data) = data)
    ∧ (∀ data e, (FuseW.write f w data).res = .error e → fwriterIn f w (.fw h data) = [])
    ∧ (∀ datas n, (FuseW.writeVectored f w datas).res = .ok n →
        n = datas.flatten.length ∧ fwriterIn f w (.fv h datas) = datas.flatten)
    ∧ (∀ datas e, (FuseW.writeVectored f w datas).res = .error e → fwriterIn f w (.fv h datas) = [])
    ∧ (∀ count at_ sc n, (FuseW.writeFrom f w sc count at_).res = .ok n →
        fwriterIn f w (.ff h count at_ sc) = patBytes sc.seed (at_.getD sc.pos) n)
    ∧ (∀ count at_ sc e, (FuseW.writeFrom f w sc count at_).res = .error e → fwriterIn f w (.ff h count at_ sc) = []) :=
  fwriterIn_reported f w hb hok hin h

/-- **Split header/data writers on /dev/fuse committed together** (any operation list).  Fresh
    writer, `split_at(k)` for any `k ≤ cap`, then ANY operation list without further splits and
    commits — any number of `write`/`write_vectored`/`write_from(_at)`/`write_all_from` on the two
    halves in any interleaving (data first, header first, alternating), fitting or refused, short
    or failing file reads, reader operations in between —, then `first.commit(Some(second))`:
    nothing reached the descriptor before the commit, the commit reports the total length, and
    exactly ONE record reaches the descriptor: (everything appended through the first half) ++
    (everything appended through the second half) — none if both are empty. -/
theorem fuse_split_header_data_one_record (st : St) (R base cap : Nat) (h : FStart st R base cap) (k : Nat)
    (hk : k ≤ cap) (ops : List Op) (hns : ∀ i k', Op.fs i k' ∉ ops) (hnc : ∀ i o, Op.fc i o ∉ ops) :
    (exec (step st (.fs 0 k)).1 ops).w.fd = st.w.fd
    ∧ (step (exec (step st (.fs 0 k)).1 ops) (.fc 0 (some 1))).2.res
        = .ok (fplacedAll (step st (.fs 0 k)).1 0 ops ++ fplacedAll (step st (.fs 0 k)).1 1 ops).length
    ∧ (step (exec (step st (.fs 0 k)).1 ops) (.fc 0 (some 1))).1.w.fd
        = (if (fplacedAll (step st (.fs 0 k)).1 0 ops ++ fplacedAll (step st (.fs 0 k)).1 1 ops).isEmpty then st.w.fd
           else st.w.fd ++ [fplacedAll (step st (.fs 0 k)).1 0 ops ++ fplacedAll (step st (.fs 0 k)).1 1 ops]) :=
  fuse_split_commit_run h k hk ops hns hnc

/-! ### FileVolatileSlice -/

/-- **The buffer adapter is a plain view.**  `read`/`read_slice`/`load` return the slice's bytes
    and (by their type) cannot change it; `write`/`write_slice`/`store` replace exactly the bytes
    addressed and keep the length; what is written is what is read back. -/
theorem bytes_adapter_is_plain_view (sl : Bytes) (addr : Nat) :
    -- read / read_slice
    (∀ n, 0 < n → addr < sl.length → Adapter.read sl n addr = .ok ((sl.drop addr).take n))
    ∧ (∀ old : Bytes, addr + old.length ≤ sl.length → 0 < old.length →
        Adapter.readSlice sl old addr = (.ok (), (sl.drop addr).take old.length))
    -- write / write_slice / store: length kept, exactly the addressed bytes replaced, read back
    ∧ (∀ buf : Bytes, 0 < buf.length → addr + buf.length ≤ sl.length →
        Adapter.write sl buf addr = .ok (writeAt sl addr buf, buf.length)
        ∧ (writeAt sl addr buf).length = sl.length
        ∧ (∀ i, (writeAt sl addr buf).getD i 0 = if addr ≤ i ∧ i < addr + buf.length then buf.getD (i - addr) 0 else sl.getD i 0)
        ∧ Adapter.read (writeAt sl addr buf) buf.length addr = .ok buf
        ∧ Adapter.writeSlice sl buf addr = (.ok [], writeAt sl addr buf))
    ∧ (∀ val : Bytes, 0 < val.length → addr + val.length ≤ sl.length → addr % val.length = 0 →
        Adapter.store sl val addr 0 = (.ok (), writeAt sl addr val)
        ∧ Adapter.load (writeAt sl addr val) val.length addr 0 = .ok val) := by
  have rb : ∀ buf : Bytes, addr + buf.length ≤ sl.length → ((writeAt sl addr buf).drop addr).take buf.length = buf := by
    intro buf h
    simp only [writeAt, List.append_assoc]
    rw [List.drop_append_of_le_length (by simp; omega), List.drop_of_length_le (by simp; omega)]
    simp
  refine ⟨?_, ?_, ?_, ?_⟩
  · intro n hn ha
    simp [Adapter.read, Nat.ne_of_gt hn, Nat.not_le.mpr ha]
  · intro old h hn
    have h1 : ¬ (old.length = 0) := by omega
    have h2 : ¬ (addr ≥ sl.length) := by omega
    have hl : ((sl.drop addr).take old.length).length = old.length := by simp; omega
    simp only [Adapter.readSlice, Adapter.read, h1, h2, if_false, hl, ne_eq, not_true_eq_false]
    simp
  · intro buf hn h
    have h1 : buf.isEmpty = false := by cases buf <;> simp_all
    have h2 : ¬ (addr ≥ sl.length) := by omega
    have hc : min buf.length (sl.length - addr) = buf.length := by omega
    have hw : Adapter.write sl buf addr = .ok (writeAt sl addr buf, buf.length) := by
      simp only [Adapter.write, h1, h2, if_false, hc, List.take_length, Bool.false_eq_true]
    refine ⟨hw, length_writeAt _ _ _ h, fun i => getD_writeAt _ _ _ h i, ?_, ?_⟩
    · have h3 : ¬ (addr ≥ (writeAt sl addr buf).length) := by rw [length_writeAt _ _ _ h]; omega
      simp only [Adapter.read, Nat.ne_of_gt hn, h3, if_false, rb buf h]
    · simp only [Adapter.writeSlice, hw, ne_eq, not_true_eq_false, if_false]
  · intro val hn h hal
    have h1 : ¬ (addr + val.length > sl.length) := by omega
    have h2 : ¬ ((0 + addr) % val.length ≠ 0) := by simp [hal]
    refine ⟨by simp only [Adapter.store, h1, h2, if_false], ?_⟩
    have h3 : ¬ (addr + val.length > (writeAt sl addr val).length) := by rw [length_writeAt _ _ _ h]; omega
    simp only [Adapter.load, h3, h2, if_false, rb val h]

/-- Accesses beyond the slice are refused and change nothing. -/
theorem bytes_adapter_refuses_out_of_bounds (sl : Bytes) (addr : Nat) (h : sl.length ≤ addr) :
    (∀ n, 0 < n → Adapter.read sl n addr = .error (.outOfBounds addr))
    ∧ (∀ buf : Bytes, 0 < buf.length → Adapter.write sl buf addr = .error (.outOfBounds addr)
        ∧ (Adapter.writeSlice sl buf addr).2 = sl)
    ∧ (∀ val : Bytes, 0 < val.length → (Adapter.store sl val addr 0).2 = sl) := by
  refine ⟨?_, ?_, ?_⟩
  · intro n hn; simp [Adapter.read, Nat.ne_of_gt hn, h]
  · intro buf hn
    have h1 : buf.isEmpty = false := by cases buf <;> simp_all
    have hw : Adapter.write sl buf addr = .error (.outOfBounds addr) := by
      simp [Adapter.write, h1, h]
    exact ⟨hw, by simp [Adapter.writeSlice, hw]⟩
  · intro val hn
    have : addr + val.length > sl.length := by omega
    simp [Adapter.store, this]

/-! ### non-vacuity -/

example : Start exampleStart ∧ (∀ b ∈ exampleStart.readers, WF exampleStart.w.mem b.segs)
    ∧ (∀ b ∈ exampleStart.writers, WF exampleStart.w.mem b.segs) := by
  refine ⟨⟨rfl, rfl, rfl, by decide, by decide, by decide⟩, ?_, ?_⟩ <;> decide +kernel

/-- `read_refines_spec`, `write_that_fits_succeeds`: a cursor whose counter cannot overflow -/
example : (⟨[⟨1, 10, 8⟩, ⟨1, 20, 0⟩, ⟨2, 0, 33⟩], 5⟩ : IoBufs).consumed
    + total (⟨[⟨1, 10, 8⟩, ⟨1, 20, 0⟩, ⟨2, 0, 33⟩], 5⟩ : IoBufs).segs < USIZE := by decide

/-- `overflow_fails_without_writing`: a writer with 3 bytes left asked to take 4 -/
example : (⟨[⟨1, 10, 3⟩], 0⟩ : IoBufs).available < (patBytes 1 0 4).length := by decide

/-- `split_partitions`: a split inside a buffer after partial consumption -/
example : ∃ a o, (⟨[⟨1, 13, 5⟩, ⟨1, 20, 0⟩, ⟨2, 0, 33⟩], 3⟩ : IoBufs).splitAt 7 = .ok (a, o) :=
  ⟨_, _, rfl⟩

/-- `writes_are_concatenation`, `split_writers_concatenate`, `no_byte_written_twice`:
    non-overlapping buffers inside their regions (incl. a zero-length one) -/
example : (addrs exampleStart.writers[0]!.segs).Nodup ∧ WF exampleStart.w.mem exampleStart.writers[0]!.segs
    ∧ ∃ a o, exampleStart.writers[0]!.splitAt 16 = .ok (a, o) ∧ 16 ≤ a.available ∧ 100 ≤ o.available := by
  refine ⟨by decide +kernel, by decide +kernel, _, _, rfl, by decide, by decide⟩

/-- `reads_are_request_bytes_in_order`: readable and writable descriptors share no byte there; and
    the theorem speaks about something: a `read`, a split, a short `read_to` through a file that
    takes 2 of the 3 bytes offered, then a read on the split-off half — handle 0 delivered the 3+2
    bytes in order, handle 1 (created by the split) its first byte -/
example : (∀ a ∈ readable exampleStart, a ∉ writable exampleStart)
    ∧ (deliveredAll exampleStart 0 [.rd 0 3, .rs 0 3, .rt 0 3 none ⟨.full, [.n 2], 0, 0, [], []⟩, .rd 1 1]).length = 5
    ∧ (deliveredAll (exec exampleStart [.rd 0 3, .rs 0 3]) 1 [.rt 0 3 none ⟨.full, [.n 2], 0, 0, [], []⟩, .rd 1 1]).length = 1 := by
  refine ⟨by decide +kernel, by decide +kernel, by decide +kernel⟩

/-- `writes_are_concatenation` / `split_writers_concatenate`: a split writer, data through the
    second half from a file that delivers 5 of 8 bytes, a header through the first half, more
    data: what was stored through each half, in operation order -/
example :
    placedAll (exec exampleStart [.ws 0 4]) 0
        [.wf 1 8 none ⟨.full, [.n 5], 3, 0, [], []⟩, .wr 0 [1, 2, 3], .wr 1 [9], .wr 0 [4, 5]] = [1, 2, 3]
    ∧ placedAll (exec exampleStart [.ws 0 4]) 1
        [.wf 1 8 none ⟨.full, [.n 5], 3, 0, [], []⟩, .wr 0 [1, 2, 3], .wr 1 [9], .wr 0 [4, 5]]
        = patBytes 3 0 5 ++ [9] := by
  refine ⟨by decide +kernel, by decide +kernel⟩

/-- the fusedev theorems: a start state, and a header/data scenario with interleaved writes — one
    record `header ++ data` at commit, nothing before -/
example : FStart exampleFuse 2 64 64
    ∧ (∀ b ∈ exampleFuse.readers, b.consumed + total b.segs < USIZE ∧ WF exampleFuse.w.mem b.segs
        ∧ ∀ a ∈ addrs b.segs, a ∉ segAddrs ⟨2, 64, 64⟩)
    ∧ (step (exec (step exampleFuse (.fs 0 16)).1 [.fw 1 [1, 2, 3], .fw 0 [8, 9], .rd 0 4, .fw 1 [4], .fw 0 [7]])
        (.fc 0 (some 1))).1.w.fd = [[8, 9, 7, 1, 2, 3, 4]] := by
  refine ⟨⟨rfl, rfl, by decide +kernel, rfl⟩, by decide +kernel, by decide +kernel⟩

/-- FuseDevWriter: a fresh writer over a 64-byte window split at 16 -/
example : (FuseW.new 2 64 64).ok ∧ (FuseW.new 2 64 64).len = 0
    ∧ (FuseW.new 2 64 64).inMem ⟨[(2, List.replicate 192 0)]⟩
    ∧ ∃ a o, (FuseW.new 2 64 64).splitAt 16 = .ok (a, o) := by
  refine ⟨by unfold FuseW.ok; decide, rfl, by unfold FuseW.inMem; decide +kernel, _, _, rfl⟩

/-- `fuse_assert_only_on_one_shot_violation` is not vacuous either way: an unbuffered writer that
    has written panics on the next write, a buffered one does not -/
example : (∃ s, (⟨2, 64, 8, 64, false⟩ : FuseW).checkAvail 1 = .error (.panic s))
    ∧ (⟨2, 64, 8, 64, true⟩ : FuseW).checkAvail 1 = .ok () := ⟨⟨_, rfl⟩, rfl⟩

/-- a chain accepted by the constructors -/
example : ∃ b, fromChain [(1, 4096, 8192), (2, 65536, 4096)]
    [⟨false, 4100, 8⟩, ⟨false, 4200, 0⟩, ⟨true, 65536, 4096⟩, ⟨true, 5000, 1⟩] true = .ok b := ⟨_, rfl⟩


/-! ### the file adapters (`file_traits.rs`, `async_file.rs`)

`Fbr.FileIo.readVec` / `writeVec` have the shape of the vectored file operations — one positioned
operation per buffer at an offset advanced by the buffer's size, stopping after the first short
count (the asynchronous implementation unrolls this in groups of 4, 3, 2 and 1).  The trait's
contract is "must behave as a single call with the buffers concatenated". -/

/-- a vectored read delivers, buffer after buffer, exactly what one read of the total size at the
    same offset returns — for every file, offset and list of buffer sizes (zero-sized ones included) -/
theorem file_vectored_read_is_single_read (file : Fbr.FileIo.Bytes) (off : Nat) (caps : List Nat) :
    (Fbr.FileIo.readVec file off caps).1.flatten = Fbr.FileIo.preadAt file off caps.sum ∧
    (Fbr.FileIo.readVec file off caps).2 = (Fbr.FileIo.preadAt file off caps.sum).length :=
  Fbr.FileIo.readVec_flat file off caps

/-- no buffer receives more than its size, and there is one result per buffer -/
theorem file_vectored_read_respects_buffers (file : Fbr.FileIo.Bytes) (off : Nat) (caps : List Nat) :
    (Fbr.FileIo.readVec file off caps).1.length = caps.length ∧
    ∀ i, ((Fbr.FileIo.readVec file off caps).1.getD i []).length ≤ caps.getD i 0 :=
  Fbr.FileIo.readVec_each_le file off caps

/-- a vectored write leaves the file exactly as one write of the concatenation at the same offset
    does, and reports the total length -/
theorem file_vectored_write_is_single_write (file : Fbr.FileIo.Bytes) (off : Nat) (ds : List Fbr.FileIo.Bytes) :
    Fbr.FileIo.writeVec file off ds = (Fbr.FileIo.pwriteAt file off ds.flatten, ds.flatten.length) :=
  Fbr.FileIo.writeVec_concat file off ds

example : Fbr.FileIo.writeVec [1, 2, 3, 4] 6 [[7, 8], [], [9]] = ([1, 2, 3, 4, 0, 0, 7, 8, 9], 3) := by decide
example : (Fbr.FileIo.readVec [1, 2, 3, 4, 5] 1 [2, 0, 5, 1]).1 = [[2, 3], [], [4, 5], []] := by decide

/-! ### composition with the server model (C01)

The server model treats the writer as a flat cursor of capacity `cfg.cap`; this theorem justifies
that abstraction: `reply_fits_reply_buffer` (C01) gives `|reply| ≤ cfg.cap`, and
`write_that_fits_succeeds` / `writes_are_concatenation` do the rest. -/

/-- For every request, every file system, every layout of the reply descriptors (`b0`, any list of
    non-overlapping buffers whose total room is at least the capacity the server assumed): after the
    virtio writer stores the server's reply, the flat content of the reply descriptors is the reply
    followed by the old content, and no byte outside the writable descriptors changed. -/
theorem server_reply_lands_at_start_of_reply_area (cfg : Fbr.Srv.Cfg) (fs : Fbr.Srv.Call → Fbr.Srv.Ans)
    (req : Fbr.Wire.Bytes) (st : St) (h : Start st) (hnd : (writable st).Nodup)
    (hr : ∀ b ∈ st.readers, WF st.w.mem b.segs) (hw : ∀ b ∈ st.writers, WF st.w.mem b.segs)
    (b0 : IoBufs) (hi : st.writers[0]? = some b0) (hroom : cfg.cap ≤ b0.available)
    (hcap : cfg.cap < 2 ^ 32) (hfs : Fbr.Srv.FsSane fs) :
    let msg := (Fbr.Srv.handle cfg fs req).out.area
    let sf := exec st [Op.wr 0 msg]
    flat sf.w.mem b0.segs = msg ++ (flat st.w.mem b0.segs).drop msg.length
      ∧ (∀ a, a ∉ ahead st.writers → sf.w.mem.byteAt a = st.w.mem.byteAt a) := by
  intro msg sf
  have hfit : msg.length ≤ b0.available :=
    Nat.le_trans (Fbr.Thm.C01.reply_fits_reply_buffer cfg fs req hcap hfs).2 hroom
  have hmem : b0 ∈ st.writers := List.mem_of_getElem? hi
  have hov : b0.consumed + total b0.segs < USIZE := h.2.2.2.2.2 b0 hmem
  have hok := write_that_fits_succeeds b0 st.w msg hov hfit
  have hplaced : writerIn b0 st.w (.wr 0 msg) = msg :=
    ((writer_ops_place_what_they_report b0 st.w h.2.2.2.1 (hw b0 hmem) hov 0).1 msg _ hok).2
  obtain ⟨bf, _, hflat, _, _, hframe⟩ :=
    writes_are_concatenation st [] [Op.wr 0 msg] h hnd hr hw 0 b0 (by simpa [exec] using hi)
      (by intro k hk; simp at hk)
  have hp : placedAll (exec st []) 0 [Op.wr 0 msg] = msg := by
    simp only [exec, placedAll, placed, Op.wh, hi, if_true, List.append_nil]
    exact hplaced
  rw [hp] at hflat
  exact ⟨hflat, hframe⟩


end Fbr.Thm.C04
