/-
  C08 — An inode stays valid exactly as long as the client holds lookup references to it.

  PROPERTY THEOREMS ONLY.  Model: `Fbr.PtRefs` (inode table of the passthrough file system,
  function by function: `do_lookup`, `forget_one`, `allocate_inode`, `UniqueInodeGenerator`,
  `InodeStore`, and the reference handling of lookup/create/mkdir/mknod/symlink/link/readdirplus/
  forget/batch_forget/destroy/init).  Specification: `Fbr.PtSpec` (`Spec` = what a client computes
  from its requests and the replies: entries delivered − counts forgotten, truncated at 0).
  Lemmas: `Fbr.Lemmas.Pt*`.

  A *history* is any list of requests, each with an optional RLIMIT headroom (descriptor
  allocations inside the request fail beyond it) and with every host answer as an argument —
  the theorems quantify over all of them, and over any fault oracle `Env.failAt`.
  `St.lookups` is a ghost counter of successful `do_lookup`s; `lookups + 2 < U64_MAX` says the u64
  reference counter does not saturate (fewer than 2^64 − 3 entries were ever returned).
  `St.clobbered` is a ghost flag: `InodeStore::insert` replaced a live entry.

  Status.  Full strength for `use_host_ino = false` (both `inode_file_handles` modes, every
  history) and for `use_host_ino = true` with `inode_file_handles = false` (`NoHandles`: no host
  answer carries a file handle; `refcount_refines_spec_hostino`).  For `use_host_ino = true` with
  file handles the refinement is proved under `clobbered = false` (`…_hostino_partial`) and
  `hostino_reuse_counterexample` shows that the hypothesis cannot be dropped there: known finding
  `C08:number-aliased:host-ino-reused-while-held` (inode_file_handles ∧ use_host_ino, host inode
  number reused while the old file is referenced).
-/
import Fbr.PtRefs
import Fbr.PtSpec
import Fbr.Lemmas.PtMap
import Fbr.Lemmas.PtProj
import Fbr.Lemmas.Pack
import Fbr.Lemmas.PtRefsBasic
import Fbr.Lemmas.PtRun
import Fbr.Lemmas.PtFresh
import Fbr.Lemmas.PtSession
import Fbr.Lemmas.PtUniq
import Fbr.Thm.C09

namespace Fbr.Thm.C08
open Fbr.PtRefs

abbrev History := List (Option Nat × Op)

/-- **Every history** (any requests, any host answers, any descriptor-fault placement, with or
    without file handles), `use_host_ino = false`: for every inode number other than the root, the
    stored reference count is exactly the client's count — entries delivered by lookup / create /
    mkdir / mknod / symlink / link / readdirplus minus the counts forgotten (single, batched,
    over-counted; truncated at 0) — and the number is stored iff that count is positive.
    Entries that did not reach the client (readdirplus entry refused with `Ok(0)` or `Err`, failed
    create) leave no reference behind. -/
theorem refcount_refines_spec (e : Env) (hk : e.useHostIno = false) (h : History)
    (hsat : (run e St.fresh h).1.lookups + 2 < U64_MAX) :
    Ref (run e St.fresh h).1 (Spec.init.run h (run e St.fresh h).2) :=
  (run_good e h ⟨never_clobbers_keep e hk h, hsat⟩).ref

/-- **Every history, `use_host_ino = true`, `inode_file_handles = false`** (`NoHandles h`: no host
    answer of the history — lookups, created entries, readdirplus records, the imported root —
    carries a file handle, i.e. `name_to_handle_at` is never used): the same refinement at full
    strength, no ghost hypothesis about replaced entries.  Inode numbers are
    `(uid << 47) | st_ino` (uid = small id of the (dev, mnt) pair) or remembered virtual numbers;
    an entry kept by descriptor is always found by its `InodeId`, the packing is injective, so an
    insert never lands on a number in use (`never_clobbers_hostino`, invariant `HU` threaded through
    the effect relation together with the allocator facts `LkU`). -/
theorem refcount_refines_spec_hostino (e : Env) (hk : e.useHostIno = true) (h : History) (hnh : NoHandles h)
    (hsat : (run e St.fresh h).1.lookups + 2 < U64_MAX) :
    Ref (run e St.fresh h).1 (Spec.init.run h (run e St.fresh h).2) :=
  (run_good e h ⟨never_clobbers_hostino e hk h hnh, hsat⟩).ref

/-- The same refinement in any mode, for histories in which no insert replaced a live entry.
    PARTIAL only for `use_host_ino = true` **with** file handles: there the hypothesis
    `clobbered = false` cannot be discharged — it fails when the host reuses an inode number while
    the old file is still referenced (see the counterexample, a known finding of the code).  In
    every other configuration it is discharged: `refcount_refines_spec` (`use_host_ino = false`),
    `refcount_refines_spec_hostino` (`use_host_ino = true`, no file handles). -/
theorem refcount_refines_spec_hostino_partial (e : Env) (h : History)
    (hcl : (run e St.fresh h).1.clobbered = false)
    (hsat : (run e St.fresh h).1.lookups + 2 < U64_MAX) :
    Ref (run e St.fresh h).1 (Spec.init.run h (run e St.fresh h).2) :=
  (run_good e h ⟨hcl, hsat⟩).ref

def cexEnv : Env := { useHostIno := true, noOpen := false, noOpendir := false, failAt := fun _ => false }

/-- init; lookup "f" → host file (ino 1, handle 1); the file is unlinked and its inode number
    reused: lookup "f" → host file (ino 1, handle 2) -/
def cexHist : History :=
  [ (none, .init (.ok { id := ⟨0, 0, 0⟩, fh := some 0, safe := true, dir := true })),
    (none, .lookup ROOT_ID false (.ok { id := ⟨1, 0, 0⟩, fh := some 1, safe := true })),
    (none, .lookup ROOT_ID false (.ok { id := ⟨1, 0, 0⟩, fh := some 2, safe := true })) ]

/-- The refinement is FALSE with `inode_file_handles ∧ use_host_ino` when the host reuses an inode
    number while the client still references the old file: both lookups return number
    `(1 << 47) | 1`, the client holds two references, the server's entry was replaced and counts one
    (so one forget of the old reference invalidates the new file). -/
theorem hostino_reuse_counterexample :
    cexEnv.useHostIno = true
    ∧ (run cexEnv St.fresh cexHist).1.lookups + 2 < U64_MAX
    ∧ ¬ Ref (run cexEnv St.fresh cexHist).1 (Spec.init.run cexHist (run cexEnv St.fresh cexHist).2) := by
  refine ⟨rfl, by decide, fun hr => ?_⟩
  have := hr 140737488355329 (by decide)
  revert this
  decide

/-- An inode number (other than the root) resolves — `inode_map.get` finds it — exactly while the
    client's count is positive; corollary of the refinement. -/
theorem valid_iff_positive (e : Env) (hk : e.useHostIno = false) (h : History)
    (hsat : (run e St.fresh h).1.lookups + 2 < U64_MAX) (i : Ino) (hi : i ≠ ROOT_ID) :
    (mget (run e St.fresh h).1.data i).isSome = true
      ↔ 0 < (Spec.init.run h (run e St.fresh h).2).held i := by
  have := refcount_refines_spec e hk h hsat i hi
  cases hm : mget (run e St.fresh h).1.data i with
  | none =>
    rw [hm] at this
    by_cases hz : (Spec.init.run h (run e St.fresh h).2).held i = 0
    · simp [hz]
    · simp [hz] at this
  | some d =>
    rw [hm] at this
    by_cases hz : (Spec.init.run h (run e St.fresh h).2).held i = 0
    · simp [hz] at this
    · simp; omega

/-- …and with `use_host_ino = true`, `inode_file_handles = false` -/
theorem valid_iff_positive_hostino (e : Env) (hk : e.useHostIno = true) (h : History) (hnh : NoHandles h)
    (hsat : (run e St.fresh h).1.lookups + 2 < U64_MAX) (i : Ino) (hi : i ≠ ROOT_ID) :
    (mget (run e St.fresh h).1.data i).isSome = true
      ↔ 0 < (Spec.init.run h (run e St.fresh h).2).held i := by
  have := refcount_refines_spec_hostino e hk h hnh hsat i hi
  cases hm : mget (run e St.fresh h).1.data i with
  | none =>
    rw [hm] at this
    by_cases hz : (Spec.init.run h (run e St.fresh h).2).held i = 0
    · simp [hz]
    · simp [hz] at this
  | some d =>
    rw [hm] at this
    by_cases hz : (Spec.init.run h (run e St.fresh h).2).held i = 0
    · simp [hz] at this
    · simp; omega

/-- The root can never be forgotten: `forget_one` on inode 1 is the identity whatever the count,
    a batch of forgets leaves the root entry untouched, and along any history without
    `destroy`/re-`init` (from any state, any mode) the root entry stays in the table. -/
theorem root_never_forgotten (e : Env) :
    (∀ s n, forgetOne e s ROOT_ID n = s)
    ∧ (∀ s l, mget (batchForget e s l).data ROOT_ID = mget s.data ROOT_ID)
    ∧ (∀ s (h : History), hasDestroy h = false → (mget s.data ROOT_ID).isSome = true →
        (mget (run e s h).1.data ROOT_ID).isSome = true) :=
  ⟨fun s n => forgetOne_root e s n, fun s l => batchForget_root e l s,
   fun s h hd hr => (run_tr e h s Spec.init).rootLive hd hr⟩

/-- Over-forgetting saturates: a count at least as large as the stored one removes the entry
    (it never goes negative / wraps), and further forgets of that number change nothing. -/
theorem over_forget_saturates (e : Env) (s : St) (i : Ino) (d : IData) (n m : Nat)
    (hi : i ≠ ROOT_ID) (hd : mget s.data i = some d) (hn : d.refs ≤ n) :
    mget (forgetOne e s i n).data i = none
    ∧ forgetOne e (forgetOne e s i n) i m = forgetOne e s i n := by
  have key : mget (forgetOne e s i n).data i = none := by
    rw [forgetOne_data_self e s i n d hi hd]
    simp; omega
  exact ⟨key, forgetOne_absent e _ i m key⟩

/-- While valid, one host file has one inode number (`use_host_ino = false`, any session =
    INIT followed by any history without destroy/re-init): two live numbers whose entries have the
    same host identity — `(st_ino, st_dev, mnt_id)` and file handle — are the same number.  (That a
    number denotes one host file is the functionality of `data`.) -/
theorem number_injective (e : Env) (hk : e.useHostIno = false) (root : HAns) (h : History)
    (hnd : hasDestroy h = false) (i j : Ino) (di dj : IData)
    (hi : mget (run e (afterInit e root) h).1.data i = some di)
    (hj : mget (run e (afterInit e root) h).1.data j = some dj)
    (hid : di.id = dj.id) (hfh : di.fh = dj.fh) : i = j :=
  ((run_tr e h (afterInit e root) Spec.init).inj hk hnd (inj_afterInit e root)).injective hi hj hid hfh

/-- A file looked up again after being forgotten gets the same number (`use_host_ino = false`,
    inodes tracked by descriptors): if a lookup of host file `f` returned `ino`, then after ANY
    history without destroy/re-init — forgets of `ino` down to zero, over-forgets, lookups of other
    files, … — in which no file handles are in use, every later successful lookup of `f` (through
    any parent / name) returns `ino` again. -/
theorem number_stable_after_forget (e : Env) (hk : e.useHostIno = false) (s : St) (p : Ino)
    (pst : Bool) (f : HFile) (hf : f.fh = none) (ino : Ino)
    (h1 : (doLookup e s p pst (.ok f)).2 = .ok ino)
    (h : History) (hnd : hasDestroy h = false)
    (hnh : (run e (doLookup e s p pst (.ok f)).1 h).1.byHandle = [])
    (p' : Ino) (pst' : Bool) (ino' : Ino)
    (h2 : (doLookup e (run e (doLookup e s p pst (.ok f)).1 h).1 p' pst' (.ok f)).2 = .ok ino') :
    ino' = ino := by
  have r1 := doLookup_records_fd e s p pst f hf h1
  have r2 := (run_tr e h (doLookup e s p pst (.ok f)).1 Spec.init).idStable hk hnd hnh _ _ r1
  exact doLookup_uses_fd e hk _ p' pst' f hf r2 h2

/-- … and with file handles the handle → number map is just as stable. -/
theorem number_stable_after_forget_handles (e : Env) (hk : e.useHostIno = false) (s : St) (h : History)
    (hnd : hasDestroy h = false) (k : FhId) (i : Ino) (hm : mget s.byHandle k = some i) :
    mget (run e s h).1.byHandle k = some i :=
  (run_tr e h s Spec.init).hStable hk hnd k i hm

/-- Rename and unlink do not touch the inode table: every number stays valid with the same entry
    (so a referenced inode survives rename, and unlink when tracked by descriptor). -/
theorem survives_rename_and_unlink (e : Env) (s : St) (p1 p2 : Ino) (st1 st2 : Bool) (hr : Errno) :
    (opRename e s p1 st1 p2 st2 hr).1.data = s.data ∧ (opUnlink e s p1 st1 hr).1.data = s.data :=
  ⟨data_of_tables (tables_opRename e s p1 st1 p2 st2 hr), data_of_tables (tables_opUnlink e s p1 st1 hr)⟩

/-- `(unique_id << 47) | ino` is injective on (id, host inode ≤ MAX_HOST_INO), the virtual range
    (bit 55 set) is disjoint from the host range and injective in (id, counter), no packed number
    is the root and every packed number fits `VFS_MAX_INO`. -/
theorem unique_inode_packing_injective (u1 u2 i1 i2 : Nat)
    (hu1 : 1 ≤ u1 ∧ u1 < 255) (hu2 : 1 ≤ u2 ∧ u2 < 255)
    (h1 : i1 ≤ MAX_HOST_INO) (h2 : i2 ≤ MAX_HOST_INO) :
    (packIno u1 i1 = packIno u2 i2 → u1 = u2 ∧ i1 = i2)
    ∧ (packIno u1 (i1 ||| VIRTUAL_INODE_FLAG) = packIno u2 (i2 ||| VIRTUAL_INODE_FLAG) → u1 = u2 ∧ i1 = i2)
    ∧ packIno u1 i1 ≠ packIno u2 (i2 ||| VIRTUAL_INODE_FLAG)
    ∧ packIno u1 i1 ≠ ROOT_ID ∧ packIno u1 (i1 ||| VIRTUAL_INODE_FLAG) ≠ ROOT_ID
    ∧ packIno u1 i1 ≤ VFS_MAX_INO ∧ packIno u1 (i1 ||| VIRTUAL_INODE_FLAG) ≤ VFS_MAX_INO := by
  have a1 : i1 < 2 ^ 47 := by unfold MAX_HOST_INO at h1; omega
  have a2 : i2 < 2 ^ 47 := by unfold MAX_HOST_INO at h2; omega
  rw [packIno_eq u1 i1 a1, packIno_eq u2 i2 a2, packIno_virt_eq u1 i1 (by omega) a1,
    packIno_virt_eq u2 i2 (by omega) a2]
  unfold ROOT_ID VFS_MAX_INO
  refine ⟨?_, ?_, ?_, ?_, ?_, ?_, ?_⟩ <;> omega

/-! ### non-vacuity -/

def exEnv : Env := { useHostIno := false, noOpen := false, noOpendir := false, failAt := fun _ => false }

/-- init; lookup a; lookup a; readdirplus delivering a and refusing b; forget a 2; forget a 9 -/
def exHist : History :=
  [ (none, .init (.ok { id := ⟨0, 0, 0⟩, fh := none, safe := true, dir := true })),
    (none, .lookup ROOT_ID false (.ok { id := ⟨1, 0, 0⟩, fh := none, safe := true })),
    (none, .lookup ROOT_ID false (.ok { id := ⟨1, 0, 0⟩, fh := none, safe := true })),
    (none, .opendir ROOT_ID 0),
    (none, .readdirplus ROOT_ID 1 0 (.ok [.dot, .name (.ok { id := ⟨1, 0, 0⟩, fh := none, safe := true }),
        .name (.ok { id := ⟨2, 0, 0⟩, fh := none, safe := true })]) 1 .full),
    (none, .forget 2 2) ]

/-- the hypotheses of `refcount_refines_spec` are satisfiable by a history that exercises lookup,
    readdirplus (one entry delivered, one refused) and forget: count 3 − 2 = 1 for "a", the refused
    entry left nothing behind -/
example :
    (run exEnv St.fresh exHist).1.lookups + 2 < U64_MAX
    ∧ (mget (run exEnv St.fresh exHist).1.data 2).map (·.refs) = some 1
    ∧ (Spec.init.run exHist (run exEnv St.fresh exHist).2).held 2 = 1
    ∧ mget (run exEnv St.fresh exHist).1.data 3 = none
    ∧ (Spec.init.run exHist (run exEnv St.fresh exHist).2).held 3 = 0 := by
  decide

/-- `use_host_ino = true` without file handles: two files with the same `st_ino` on different
    devices get different numbers (uid 1 and 2), the file with a host inode number above
    `MAX_HOST_INO` gets a virtual number and — forgotten and looked up again — the same one -/
def hiHist : History :=
  [ (none, .init (.ok { id := ⟨0, 0, 0⟩, fh := none, safe := true, dir := true })),
    (none, .lookup ROOT_ID false (.ok { id := ⟨5, 0, 0⟩, fh := none, safe := true })),
    (none, .lookup ROOT_ID false (.ok { id := ⟨5, 1, 0⟩, fh := none, safe := true })),
    (none, .lookup ROOT_ID false (.ok { id := ⟨2 ^ 50, 0, 0⟩, fh := none, safe := true })),
    (none, .forget (packIno 1 (2 ||| VIRTUAL_INODE_FLAG)) 1),
    (none, .lookup ROOT_ID false (.ok { id := ⟨2 ^ 50, 0, 0⟩, fh := none, safe := true })),
    (none, .lookup ROOT_ID false (.ok { id := ⟨5, 0, 0⟩, fh := none, safe := true })) ]

example : NoHandles hiHist := by
  intro x hx
  simp only [hiHist, List.mem_cons, List.not_mem_nil, or_false] at hx
  rcases hx with rfl | rfl | rfl | rfl | rfl | rfl | rfl <;> first | rfl | trivial

example :
    (run cexEnv St.fresh hiHist).2.map (fun r => match r with | .entry i => i | _ => 0) =
      [0, packIno 1 5, packIno 2 5, packIno 1 (2 ||| VIRTUAL_INODE_FLAG), 0, packIno 1 (2 ||| VIRTUAL_INODE_FLAG), packIno 1 5]
    ∧ (run cexEnv St.fresh hiHist).1.lookups + 2 < U64_MAX
    ∧ (run cexEnv St.fresh hiHist).1.clobbered = false
    ∧ (mget (run cexEnv St.fresh hiHist).1.data (packIno 1 5)).map (·.refs) = some 2
    ∧ (Spec.init.run hiHist (run cexEnv St.fresh hiHist).2).held (packIno 1 5) = 2 := by
  decide

/-! ### Concurrent histories

The theorems above are about sequential histories.  "Any history of requests" also covers
requests served concurrently; for those the count statement is carried by the small-step model of
`do_lookup` / `forget_one` (Fbr.Conc, hook H1 ties it to the code): under EVERY schedule of any
number of threads the stored count of a file is completed lookups minus amounts forgotten, and a
number handed out stays resolvable while that difference is positive. -/

theorem concurrent_refcount_exact {c : Conc.Cfg} (hinj : ∀ f g, c.pack f = c.pack g → f = g)
    (progs : Conc.Tid → List Conc.Op) (sched : List Conc.Tid) :
    let s := Conc.reach c progs sched
    (∀ f, Conc.liveCount s.store f + s.decs f = s.incs f)
    ∧ (s.lock = .free → ∀ i o, s.store.data i = some o → 0 < s.store.cells o) :=
  let h := Fbr.Thm.C09.refcount_eq_ghost hinj progs sched
  ⟨h.1, h.2.2⟩

theorem concurrent_number_usable_while_held {c : Conc.Cfg}
    (hinj : ∀ f g, c.pack f = c.pack g → f = g)
    (progs : Conc.Tid → List Conc.Op) (sched : List Conc.Tid) :
    let s := Conc.reach c progs sched
    ∀ t f i, (f, i) ∈ (s.threads t).results → s.decs f < s.incs f →
      ∃ o, s.store.data i = some o ∧ s.store.objHost o = f
        ∧ s.store.cells o = s.incs f - s.decs f :=
  Fbr.Thm.C09.returned_number_usable hinj progs sched

end Fbr.Thm.C08
