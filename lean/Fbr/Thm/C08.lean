/-
  C08 — An inode stays valid exactly as long as the client holds lookup references to it.

  PROPERTY THEOREMS ONLY (model: `Fbr.PtRefs`; lemmas: `Fbr.Lemmas.Pt*`).
-/
import Fbr.PtRefs
import Fbr.Lemmas.PtMap
import Fbr.Lemmas.PtProj
import Fbr.Lemmas.Pack
import Fbr.Lemmas.PtRefsBasic

namespace Fbr.Thm.C08
open Fbr.PtRefs

/-- The root can never be forgotten: `forget_one` on inode 1 is the identity, whatever the count. -/
theorem root_never_forgotten (e : Env) (s : St) (n : Nat) : forgetOne e s ROOT_ID n = s := by
  simp [forgetOne]

/-- `(unique_id << 47) | ino` is injective on (id, host inode ≤ MAX_HOST_INO), the virtual range
    (bit 55 set) is disjoint from the host range and injective in (id, counter), no packed number
    is the root and every packed number fits `VFS_MAX_INO`. -/
theorem unique_inode_packing_injective (u1 u2 i1 i2 : Nat)
    (hu1 : 1 ≤ u1 ∧ u1 < 255) (hu2 : 1 ≤ u2 ∧ u2 < 255)
    (h1 : i1 ≤ MAX_HOST_INO) (h2 : i2 ≤ MAX_HOST_INO) :
    (packIno u1 i1 = packIno u2 i2 → u1 = u2 ∧ i1 = i2)
    ∧ (packIno u1 (i1 ||| VIRTUAL_INODE_FLAG) = packIno u2 (i2 ||| VIRTUAL_INODE_FLAG) → u1 = u2 ∧ i1 = i2)
    ∧ packIno u1 i1 ≠ packIno u2 (i2 ||| VIRTUAL_INODE_FLAG)
    ∧ packIno u1 i1 ≠ ROOT_ID ∧ packIno u1 (i1 ||| VIRTUAL_INODE_FLAG) ≠ ROOT_ID
    ∧ packIno u1 i1 ≤ VFS_MAX_INO ∧ packIno u1 (i1 ||| VIRTUAL_INODE_FLAG) ≤ VFS_MAX_INO := by
  have a1 : i1 < 2 ^ 47 := by unfold MAX_HOST_INO at h1; omega
  have a2 : i2 < 2 ^ 47 := by unfold MAX_HOST_INO at h2; omega
  rw [packIno_eq u1 i1 a1, packIno_eq u2 i2 a2, packIno_virt_eq u1 i1 (by omega) a1,
    packIno_virt_eq u2 i2 (by omega) a2]
  unfold ROOT_ID VFS_MAX_INO
  refine ⟨?_, ?_, ?_, ?_, ?_, ?_, ?_⟩ <;> omega

/-- Over-forgetting saturates: a count at least as large as the stored one removes the entry
    (it never goes negative / wraps), and further forgets of that number change nothing. -/
theorem over_forget_saturates (e : Env) (s : St) (i : Ino) (d : IData) (n m : Nat)
    (hi : i ≠ ROOT_ID) (hd : mget s.data i = some d) (hn : d.refs ≤ n) :
    mget (forgetOne e s i n).data i = none
    ∧ forgetOne e (forgetOne e s i n) i m = forgetOne e s i n := by
  have key : mget (forgetOne e s i n).data i = none := by
    rw [forgetOne_data_self e s i n d hi hd]
    simp; omega
  exact ⟨key, forgetOne_absent e _ i m key⟩

end Fbr.Thm.C08
