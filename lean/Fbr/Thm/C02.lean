/-
  C02 — Each request is decoded into exactly the operation and arguments the client sent.

  PROPERTY THEOREMS ONLY (helpers: `Fbr.Lemmas.SrvDecode`, `Fbr.Lemmas.Wire`).
  The client's encoding is written here from the kernel's layout (`encHdr`, `le32`/`le64` per
  field in wire order) — independently of the library's structs, whose equality with the kernel
  layout is C13.  Each `*_exact` theorem says: for EVERY value of every field (within its wire
  width), every trailing byte string, every file system and configuration, the file system
  receives exactly the per-request id-remap call followed by exactly one call of the operation the
  opcode denotes, with every argument equal to what the client encoded, optional arguments
  following their flag bits.
-/
import Fbr.Lemmas.SrvDecode
import Fbr.SrvSpec
import Fbr.Gen.Server
import Fbr.Lemmas.SrvPairs
import Fbr.Gen.FsAsync
import Fbr.Gen.FsSync

namespace Fbr.Thm.C02
open Fbr.Srv Fbr.Wire

/-- Today's handlers (request struct, bindings, helper calls, fs call + argument expressions,
    reply constructors) and dispatch arms are the ones `Fbr.Srv` was written from (checked by
    the kernel's definitional equality on the two closed tables). -/
theorem handlers_as_modelled :
    Gen.srvSyncFns = SrvSpec.expectedSyncFns ∧ Gen.srvSyncDispatch = SrvSpec.expectedSyncDispatch :=
  ⟨rfl, rfl⟩

/-- … and the buffer constants are the ones the model uses. -/
theorem constants_as_modelled :
    Gen.srvModConsts.lookup "MAX_BUFFER_SIZE" = some MAX_BUFFER_SIZE ∧
    Gen.srvModConsts.lookup "BUFFER_HEADER_SIZE" = some BUFFER_HEADER_SIZE ∧
    Gen.srvModConsts.lookup "MIN_READ_BUFFER" = some MIN_READ_BUFFER ∧
    Gen.srvModConsts.lookup "MAX_REQ_PAGES" = some MAX_REQ_PAGES := by
  decide +kernel


/-- the caller ids reach the file system unchanged unless the remap call rewrote them -/
theorem context_from_header (fs : Call → Ans) (h : Hdr) (hk : ∀ u g, fs (remapOf h) ≠ .remapSet u g) :
    ctxFor h (fs (remapOf h)) = { uid := h.uid, gid := h.gid, pid := h.pid } := by
  unfold ctxFor
  split
  · next u g heq => exact absurd heq (hk u g)
  · rfl

/-- FORGET -/
theorem forget_exact (cfg : Cfg) (fs : Call → Ans) (h : Hdr) (R : Req fs h) (hop : h.op = 2)
    (n : Nat) (hn : n < 2 ^ 64) (trail : Bytes) :
    (handle cfg fs (encHdr h ++ (le64 n ++ trail))).calls =
      [remapOf h, call fs h "forget" [.n h.nodeid, .n n]] := by
  rw [handle_reaches_handler cfg fs h R.wf _ R.len R.remapOk, hop]
  unfold handleBody
  simp only
  rw [withObj_ok _ _ _ _ _ (by simp only [List.length_append, le32_length, le64_length]; omega)]
  simp only [mkCall, call, List.cons_append, List.nil_append]
  wire_norm

/-- GETATTR: the handle is present iff GETATTR_FH (bit 0) is set -/
theorem getattr_exact (cfg : Cfg) (fs : Call → Ans) (h : Hdr) (R : Req fs h) (hop : h.op = 3)
    (flags dummy fh : Nat) (hf : flags < 2 ^ 32) (hd : dummy < 2 ^ 32) (hfh : fh < 2 ^ 64) (trail : Bytes) :
    (handle cfg fs (encHdr h ++ (le32 flags ++ le32 dummy ++ le64 fh ++ trail))).calls =
      [remapOf h, call fs h "getattr" [.n h.nodeid, .optN (if flags &&& 1 != 0 then some fh else none)]] := by
  rw [handle_reaches_handler cfg fs h R.wf _ R.len R.remapOk, hop]
  unfold handleBody
  simp only
  rw [withObj_ok _ _ _ _ _ (by simp only [List.length_append, le32_length, le64_length]; omega)]
  simp only [simple_calls, mkCall, call, List.cons_append, List.nil_append, GETATTR_FH]
  wire_norm

/-- OPEN -/
theorem open_exact (cfg : Cfg) (fs : Call → Ans) (h : Hdr) (R : Req fs h) (hop : h.op = 14)
    (flags fuseFlags : Nat) (hf : flags < 2 ^ 32) (hff : fuseFlags < 2 ^ 32) (trail : Bytes) :
    (handle cfg fs (encHdr h ++ (le32 flags ++ le32 fuseFlags ++ trail))).calls =
      [remapOf h, call fs h "open" [.n h.nodeid, .n flags, .n fuseFlags]] := by
  rw [handle_reaches_handler cfg fs h R.wf _ R.len R.remapOk, hop]
  unfold handleBody
  simp only
  rw [withObj_ok _ _ _ _ _ (by simp only [List.length_append, le32_length, le64_length]; omega)]
  simp only [simple_calls, mkCall, call, List.cons_append, List.nil_append]
  wire_norm

/-- FSYNC / FSYNCDIR: datasync is bit 0 of fsync_flags -/
theorem fsync_exact (cfg : Cfg) (fs : Call → Ans) (h : Hdr) (R : Req fs h) (hop : h.op = 20)
    (fh ff pad : Nat) (hfh : fh < 2 ^ 64) (hff : ff < 2 ^ 32) (hp : pad < 2 ^ 32) (trail : Bytes) :
    (handle cfg fs (encHdr h ++ (le64 fh ++ le32 ff ++ le32 pad ++ trail))).calls =
      [remapOf h, call fs h "fsync" [.n h.nodeid, .b (ff &&& 1 != 0), .n fh]] := by
  rw [handle_reaches_handler cfg fs h R.wf _ R.len R.remapOk, hop]
  unfold handleBody
  simp only
  rw [withObj_ok _ _ _ _ _ (by simp only [List.length_append, le32_length, le64_length]; omega)]
  simp only [simple_calls, mkCall, call, List.cons_append, List.nil_append]
  wire_norm

/-- RELEASE: flush / flock-unlock from the release flags, lock owner present iff either is set -/
theorem release_exact (cfg : Cfg) (fs : Call → Ans) (h : Hdr) (R : Req fs h) (hop : h.op = 18)
    (fh flags rf owner : Nat) (hfh : fh < 2 ^ 64) (hfl : flags < 2 ^ 32) (hrf : rf < 2 ^ 32)
    (ho : owner < 2 ^ 64) (trail : Bytes) :
    (handle cfg fs (encHdr h ++ (le64 fh ++ le32 flags ++ le32 rf ++ le64 owner ++ trail))).calls =
      [remapOf h, call fs h "release" [.n h.nodeid, .n flags, .n fh, .b (rf &&& 1 != 0), .b (rf &&& 2 != 0),
        .optN (if (rf &&& 1 != 0) || (rf &&& 2 != 0) then some owner else none)]] := by
  rw [handle_reaches_handler cfg fs h R.wf _ R.len R.remapOk, hop]
  unfold handleBody
  simp only
  rw [withObj_ok _ _ _ _ _ (by simp only [List.length_append, le32_length, le64_length]; omega)]
  simp only [simple_calls, mkCall, call, List.cons_append, List.nil_append, RELEASE_FLUSH, RELEASE_FLOCK_UNLOCK]
  wire_norm

/-- FALLOCATE -/
theorem fallocate_exact (cfg : Cfg) (fs : Call → Ans) (h : Hdr) (R : Req fs h) (hop : h.op = 43)
    (fh off len mode pad : Nat) (hfh : fh < 2 ^ 64) (hoff : off < 2 ^ 64) (hl : len < 2 ^ 64)
    (hm : mode < 2 ^ 32) (hp : pad < 2 ^ 32) (trail : Bytes) :
    (handle cfg fs (encHdr h ++ (le64 fh ++ le64 off ++ le64 len ++ le32 mode ++ le32 pad ++ trail))).calls =
      [remapOf h, call fs h "fallocate" [.n h.nodeid, .n fh, .n mode, .n off, .n len]] := by
  rw [handle_reaches_handler cfg fs h R.wf _ R.len R.remapOk, hop]
  unfold handleBody
  simp only
  rw [withObj_ok _ _ _ _ _ (by simp only [List.length_append, le32_length, le64_length]; omega)]
  simp only [simple_calls, mkCall, call, List.cons_append, List.nil_append]
  wire_norm

/-- LSEEK -/
theorem lseek_exact (cfg : Cfg) (fs : Call → Ans) (h : Hdr) (R : Req fs h) (hop : h.op = 46)
    (fh off whence pad : Nat) (hfh : fh < 2 ^ 64) (hoff : off < 2 ^ 64) (hwh : whence < 2 ^ 32)
    (hp : pad < 2 ^ 32) (trail : Bytes) :
    (handle cfg fs (encHdr h ++ (le64 fh ++ le64 off ++ le32 whence ++ le32 pad ++ trail))).calls =
      [remapOf h, call fs h "lseek" [.n h.nodeid, .n fh, .n off, .n whence]] := by
  rw [handle_reaches_handler cfg fs h R.wf _ R.len R.remapOk, hop]
  unfold handleBody
  simp only
  rw [withObj_ok _ _ _ _ _ (by simp only [List.length_append, le32_length, le64_length]; omega)]
  simp only [simple_calls, mkCall, call, List.cons_append, List.nil_append]
  wire_norm

/-- ACCESS -/
theorem access_exact (cfg : Cfg) (fs : Call → Ans) (h : Hdr) (R : Req fs h) (hop : h.op = 34)
    (mask pad : Nat) (hm : mask < 2 ^ 32) (hp : pad < 2 ^ 32) (trail : Bytes) :
    (handle cfg fs (encHdr h ++ (le32 mask ++ le32 pad ++ trail))).calls =
      [remapOf h, call fs h "access" [.n h.nodeid, .n mask]] := by
  rw [handle_reaches_handler cfg fs h R.wf _ R.len R.remapOk, hop]
  unfold handleBody
  simp only
  rw [withObj_ok _ _ _ _ _ (by simp only [List.length_append, le32_length, le64_length]; omega)]
  simp only [simple_calls, mkCall, call, List.cons_append, List.nil_append]
  wire_norm

/-- SETLKW reaches `setlkw` (not `setlk`) with the lock description -/
theorem setlkw_exact (cfg : Cfg) (fs : Call → Ans) (h : Hdr) (R : Req fs h) (hop : h.op = 33)
    (fh owner s e ty pid lf pad : Nat) (h1 : fh < 2 ^ 64) (h2 : owner < 2 ^ 64) (h3 : s < 2 ^ 64)
    (h4 : e < 2 ^ 64) (h5 : ty < 2 ^ 32) (h6 : pid < 2 ^ 32) (h7 : lf < 2 ^ 32) (h8 : pad < 2 ^ 32)
    (trail : Bytes) :
    (handle cfg fs (encHdr h ++ (le64 fh ++ le64 owner ++ le64 s ++ le64 e ++ le32 ty ++ le32 pid ++
        le32 lf ++ le32 pad ++ trail))).calls =
      [remapOf h, call fs h "setlkw" [.n h.nodeid, .n fh, .n owner, .lock s e ty pid, .n lf]] := by
  rw [handle_reaches_handler cfg fs h R.wf _ R.len R.remapOk, hop]
  unfold handleBody
  simp only
  rw [withObj_ok _ _ _ _ _ (by simp only [List.length_append, le32_length, le64_length]; omega)]
  simp only [simple_calls, mkCall, call, List.cons_append, List.nil_append]
  wire_norm

/-- READ: six arguments in the right places, lock owner present iff READ_LOCKOWNER (bit 1);
    needs a reply buffer that can hold the header (otherwise the request is refused before the
    file system is asked) -/
theorem read_exact (cfg : Cfg) (fs : Call → Ans) (h : Hdr) (R : Req fs h) (hop : h.op = 15)
    (hcap : 16 ≤ cfg.cap)
    (fh off size rf owner flags pad : Nat) (h1 : fh < 2 ^ 64) (h2 : off < 2 ^ 64) (h3 : size < 2 ^ 32)
    (h4 : rf < 2 ^ 32) (h5 : owner < 2 ^ 64) (h6 : flags < 2 ^ 32) (h7 : pad < 2 ^ 32) (trail : Bytes) :
    (handle cfg fs (encHdr h ++ (le64 fh ++ le64 off ++ le32 size ++ le32 rf ++ le64 owner ++ le32 flags ++
        le32 pad ++ trail))).calls =
      [remapOf h, call fs h "read" [.n h.nodeid, .n fh, .n size, .n off,
        .optN (if rf &&& 2 != 0 then some owner else none), .n flags]] := by
  rw [handle_reaches_handler cfg fs h R.wf _ R.len R.remapOk, hop]
  unfold handleBody
  simp only
  rw [withObj_ok _ _ _ _ _ (by simp only [List.length_append, le32_length, le64_length]; omega)]
  have hc : ¬ cfg.cap < OUT_HDR := by unfold OUT_HDR; omega
  simp only [if_neg hc]
  have : ∀ c a, (readReply cfg h.unique c a).calls = c := by
    intro c a; unfold readReply; split
    · split <;> rfl
    · rfl
    · rfl
  rw [this]
  simp only [mkCall, call, List.cons_append, List.nil_append, READ_LOCKOWNER]
  wire_norm


/-! ### operations carrying names -/

/-- a file name as the client sends it: no NUL inside -/
def NameOk (n : Bytes) : Prop := ∀ b ∈ n, b ≠ 0

/-- LOOKUP / UNLINK / RMDIR / REMOVEXATTR: the name of every length, byte for byte -/
theorem name_ops_exact (cfg : Cfg) (fs : Call → Ans) (h : Hdr) (R : Req fs h) (name : Bytes) (hn : NameOk name)
    (hl : h.len = IN_HDR + 0 + (name.length + 1)) :
    (h.op = 1 → (handle cfg fs (encHdr h ++ ([] ++ (name ++ [0])))).calls =
        [remapOf h, call fs h "lookup" [.n h.nodeid, .bytes name]]) ∧
    (h.op = 10 → (handle cfg fs (encHdr h ++ ([] ++ (name ++ [0])))).calls =
        [remapOf h, call fs h "unlink" [.n h.nodeid, .bytes name]]) ∧
    (h.op = 11 → (handle cfg fs (encHdr h ++ ([] ++ (name ++ [0])))).calls =
        [remapOf h, call fs h "rmdir" [.n h.nodeid, .bytes name]]) ∧
    (h.op = 24 → (handle cfg fs (encHdr h ++ ([] ++ (name ++ [0])))).calls =
        [remapOf h, call fs h "removexattr" [.n h.nodeid, .bytes name]]) := by
  refine ⟨?_, ?_, ?_, ?_⟩ <;> intro hop <;>
    (rw [handle_reaches_handler cfg fs h R.wf _ R.len R.remapOk, hop]
     unfold handleBody
     simp only
     rw [named_ok _ _ _ _ [] name 0 _ rfl hl hn]
     simp [mkCall, call])

/-- MKNOD: mode, rdev, umask and the name -/
theorem mknod_exact (cfg : Cfg) (fs : Call → Ans) (h : Hdr) (R : Req fs h) (hop : h.op = 8)
    (mode rdev umask pad : Nat) (h1 : mode < 2 ^ 32) (h2 : rdev < 2 ^ 32) (h3 : umask < 2 ^ 32) (h4 : pad < 2 ^ 32)
    (name : Bytes) (hn : NameOk name) (hl : h.len = IN_HDR + 16 + (name.length + 1)) :
    (handle cfg fs (encHdr h ++ ((le32 mode ++ le32 rdev ++ le32 umask ++ le32 pad) ++ (name ++ [0])))).calls =
      [remapOf h, call fs h "mknod" [.n h.nodeid, .bytes name, .n mode, .n rdev, .n umask]] := by
  rw [handle_reaches_handler cfg fs h R.wf _ R.len R.remapOk, hop]
  unfold handleBody
  simp only
  rw [withObj_ok _ _ _ _ _ (by simp only [List.length_append, le32_length]; omega)]
  rw [named_ok _ _ _ _ (le32 mode ++ le32 rdev ++ le32 umask ++ le32 pad) name 16 _ (by simp) hl hn]
  simp only [simple_calls, mkCall, call, List.cons_append, List.nil_append]
  wire_norm

/-- MKDIR -/
theorem mkdir_exact (cfg : Cfg) (fs : Call → Ans) (h : Hdr) (R : Req fs h) (hop : h.op = 9)
    (mode umask : Nat) (h1 : mode < 2 ^ 32) (h3 : umask < 2 ^ 32)
    (name : Bytes) (hn : NameOk name) (hl : h.len = IN_HDR + 8 + (name.length + 1)) :
    (handle cfg fs (encHdr h ++ ((le32 mode ++ le32 umask) ++ (name ++ [0])))).calls =
      [remapOf h, call fs h "mkdir" [.n h.nodeid, .bytes name, .n mode, .n umask]] := by
  rw [handle_reaches_handler cfg fs h R.wf _ R.len R.remapOk, hop]
  unfold handleBody
  simp only
  rw [withObj_ok _ _ _ _ _ (by simp only [List.length_append, le32_length]; omega)]
  rw [named_ok _ _ _ _ (le32 mode ++ le32 umask) name 8 _ (by simp) hl hn]
  simp only [simple_calls, mkCall, call, List.cons_append, List.nil_append]
  wire_norm

/-- LINK: the existing inode, the new parent (header node id) and the new name -/
theorem link_exact (cfg : Cfg) (fs : Call → Ans) (h : Hdr) (R : Req fs h) (hop : h.op = 13)
    (old : Nat) (h1 : old < 2 ^ 64) (name : Bytes) (hn : NameOk name)
    (hl : h.len = IN_HDR + 8 + (name.length + 1)) :
    (handle cfg fs (encHdr h ++ (le64 old ++ (name ++ [0])))).calls =
      [remapOf h, call fs h "link" [.n old, .n h.nodeid, .bytes name]] := by
  rw [handle_reaches_handler cfg fs h R.wf _ R.len R.remapOk, hop]
  unfold handleBody
  simp only
  rw [withObj_ok _ _ _ _ _ (by simp only [List.length_append, le64_length]; omega)]
  rw [named_ok _ _ _ _ (le64 old) name 8 _ (by simp) hl hn]
  simp only [simple_calls, mkCall, call, List.cons_append, List.nil_append]
  wire_norm

/-- CREATE: the whole `fuse_create_in` and the name -/
theorem create_exact (cfg : Cfg) (fs : Call → Ans) (h : Hdr) (R : Req fs h) (hop : h.op = 35)
    (flags mode umask ff : Nat) (h1 : flags < 2 ^ 32) (h2 : mode < 2 ^ 32) (h3 : umask < 2 ^ 32) (h4 : ff < 2 ^ 32)
    (name : Bytes) (hn : NameOk name) (hl : h.len = IN_HDR + 16 + (name.length + 1)) :
    (handle cfg fs (encHdr h ++ ((le32 flags ++ le32 mode ++ le32 umask ++ le32 ff) ++ (name ++ [0])))).calls =
      [remapOf h, call fs h "create" [.n h.nodeid, .bytes name, .create flags mode umask ff]] := by
  rw [handle_reaches_handler cfg fs h R.wf _ R.len R.remapOk, hop]
  unfold handleBody
  simp only
  rw [withObj_ok _ _ _ _ _ (by simp only [List.length_append, le32_length]; omega)]
  rw [named_ok _ _ _ _ (le32 flags ++ le32 mode ++ le32 umask ++ le32 ff) name 16 _ (by simp) hl hn]
  simp only [simple_calls, mkCall, call, List.cons_append, List.nil_append]
  wire_norm

/-- GETXATTR: the attribute name and the client's buffer size -/
theorem getxattr_exact (cfg : Cfg) (fs : Call → Ans) (h : Hdr) (R : Req fs h) (hop : h.op = 22)
    (size pad : Nat) (h1 : size < 2 ^ 32) (h2 : pad < 2 ^ 32)
    (name : Bytes) (hn : NameOk name) (hl : h.len = IN_HDR + 8 + (name.length + 1)) :
    (handle cfg fs (encHdr h ++ ((le32 size ++ le32 pad) ++ (name ++ [0])))).calls =
      [remapOf h, call fs h "getxattr" [.n h.nodeid, .bytes name, .n size]] := by
  rw [handle_reaches_handler cfg fs h R.wf _ R.len R.remapOk, hop]
  unfold handleBody
  simp only
  rw [withObj_ok _ _ _ _ _ (by simp only [List.length_append, le32_length]; omega)]
  rw [named_ok _ _ _ _ (le32 size ++ le32 pad) name 8 _ (by simp) hl hn]
  simp only [simple_calls, mkCall, call, List.cons_append, List.nil_append]
  wire_norm

/-- SYMLINK: link name then target, both NUL terminated -/
theorem symlink_exact (cfg : Cfg) (fs : Call → Ans) (h : Hdr) (R : Req fs h) (hop : h.op = 6)
    (name target : Bytes) (hn : NameOk name) (ht : NameOk target)
    (hl : h.len = IN_HDR + 0 + (name.length + 1 + (target.length + 1))) :
    (handle cfg fs (encHdr h ++ (name ++ 0 :: (target ++ [0])))).calls =
      [remapOf h, call fs h "symlink" [.bytes target, .n h.nodeid, .bytes name]] := by
  rw [handle_reaches_handler cfg fs h R.wf _ R.len R.remapOk, hop]
  unfold handleBody
  simp only
  rw [getBody_ok h.len 0 (name.length + 1 + (target.length + 1)) _ hl (by simp; omega)]
  simp only
  rw [List.take_of_length_le (by simp; omega), twoCstrs_ok name target hn ht]
  simp [mkCall, call]

/-- RENAME / RENAME2: old and new name, the new directory, flags masked to the three rename
    flags the protocol defines (RENAME is flags = 0) -/
theorem rename2_exact (cfg : Cfg) (fs : Call → Ans) (h : Hdr) (R : Req fs h) (hop : h.op = 45)
    (newdir flags pad : Nat) (h1 : newdir < 2 ^ 64) (h2 : flags < 2 ^ 32) (h3 : pad < 2 ^ 32)
    (o n : Bytes) (ho : NameOk o) (hn : NameOk n)
    (hl : h.len = IN_HDR + 16 + (o.length + 1 + (n.length + 1))) :
    (handle cfg fs (encHdr h ++ ((le64 newdir ++ le32 flags ++ le32 pad) ++ (o ++ 0 :: (n ++ [0]))))).calls =
      [remapOf h, call fs h "rename" [.n h.nodeid, .bytes o, .n newdir, .bytes n, .n (flags &&& 7)]] := by
  rw [handle_reaches_handler cfg fs h R.wf _ R.len R.remapOk, hop]
  unfold handleBody
  simp only
  rw [withObj_ok _ _ _ _ _ (by simp only [List.length_append, le32_length, le64_length]; omega)]
  have hd : ((le64 newdir ++ le32 flags ++ le32 pad) ++ (o ++ 0 :: (n ++ [0]))).drop 16 = o ++ 0 :: (n ++ [0]) := by
    rw [show (16 : Nat) = (le64 newdir ++ le32 flags ++ le32 pad).length by simp, List.drop_left]
  simp only [hd]
  rw [getBody_ok h.len 16 (o.length + 1 + (n.length + 1)) _ hl (by simp; omega)]
  simp only
  rw [List.take_of_length_le (by simp; omega), twoCstrs_ok o n ho hn]
  simp only [simple_calls, mkCall, call, List.cons_append, List.nil_append, RENAME_MASK]
  wire_norm
  rfl

theorem rename_exact (cfg : Cfg) (fs : Call → Ans) (h : Hdr) (R : Req fs h) (hop : h.op = 12)
    (newdir : Nat) (h1 : newdir < 2 ^ 64) (o n : Bytes) (ho : NameOk o) (hn : NameOk n)
    (hl : h.len = IN_HDR + 8 + (o.length + 1 + (n.length + 1))) :
    (handle cfg fs (encHdr h ++ (le64 newdir ++ (o ++ 0 :: (n ++ [0]))))).calls =
      [remapOf h, call fs h "rename" [.n h.nodeid, .bytes o, .n newdir, .bytes n, .n 0]] := by
  rw [handle_reaches_handler cfg fs h R.wf _ R.len R.remapOk, hop]
  unfold handleBody
  simp only
  rw [withObj_ok _ _ _ _ _ (by simp only [List.length_append, le64_length]; omega)]
  have hd : (le64 newdir ++ (o ++ 0 :: (n ++ [0]))).drop 8 = o ++ 0 :: (n ++ [0]) := by
    rw [show (8 : Nat) = (le64 newdir).length by simp, List.drop_left]
  simp only [hd]
  rw [getBody_ok h.len 8 (o.length + 1 + (n.length + 1)) _ hl (by simp; omega)]
  simp only
  rw [List.take_of_length_le (by simp; omega), twoCstrs_ok o n ho hn]
  simp only [simple_calls, mkCall, call, List.cons_append, List.nil_append]
  wire_norm

/-! ### remaining fixed-layout operations -/

/-- WRITE: handle, offset, size, flags, the payload bytes, lock owner iff WRITE_LOCKOWNER (bit 1),
    delayed-write iff WRITE_CACHE (bit 0) -/
theorem write_exact (cfg : Cfg) (fs : Call → Ans) (h : Hdr) (R : Req fs h) (hop : h.op = 16)
    (fh off wf owner flags pad : Nat) (payload : Bytes) (h1 : fh < 2 ^ 64) (h2 : off < 2 ^ 64)
    (h3 : payload.length < 2 ^ 32) (h4 : wf < 2 ^ 32) (h5 : owner < 2 ^ 64) (h6 : flags < 2 ^ 32) (h7 : pad < 2 ^ 32) :
    (handle cfg fs (encHdr h ++ ((le64 fh ++ le64 off ++ le32 payload.length ++ le32 wf ++ le64 owner ++ le32 flags ++
        le32 pad) ++ payload))).calls =
      [remapOf h, call fs h "write" [.n h.nodeid, .n fh, .bytes payload, .n payload.length, .n off,
        .optN (if wf &&& 2 != 0 then some owner else none), .b (wf &&& 1 != 0), .n flags, .n wf]] := by
  rw [handle_reaches_handler cfg fs h R.wf _ R.len R.remapOk, hop]
  unfold handleBody
  simp only
  rw [withObj_ok _ _ _ _ _ (by simp only [List.length_append, le32_length, le64_length]; omega)]
  have hd : ((le64 fh ++ le64 off ++ le32 payload.length ++ le32 wf ++ le64 owner ++ le32 flags ++ le32 pad) ++ payload).drop 40 = payload := by
    rw [show (40 : Nat) = (le64 fh ++ le64 off ++ le32 payload.length ++ le32 wf ++ le64 owner ++ le32 flags ++ le32 pad).length by simp, List.drop_left]
  simp only [simple_calls, mkCall, call, List.cons_append, List.nil_append, WRITE_LOCKOWNER, WRITE_CACHE, hd]
  have hsz : u32At (List.take 40 (le64 fh ++ le64 off ++ le32 payload.length ++ le32 wf ++ le64 owner ++ le32 flags ++ le32 pad ++ payload)) 16 = payload.length := by
    wire_norm
  simp only [List.append_assoc] at hsz ⊢
  rw [hsz, List.take_of_length_le (Nat.le_refl _)]
  wire_norm

/-- FLUSH -/
theorem flush_exact (cfg : Cfg) (fs : Call → Ans) (h : Hdr) (R : Req fs h) (hop : h.op = 25)
    (fh un pad owner : Nat) (h1 : fh < 2 ^ 64) (h2 : un < 2 ^ 32) (h3 : pad < 2 ^ 32) (h4 : owner < 2 ^ 64) (trail : Bytes) :
    (handle cfg fs (encHdr h ++ (le64 fh ++ le32 un ++ le32 pad ++ le64 owner ++ trail))).calls =
      [remapOf h, call fs h "flush" [.n h.nodeid, .n fh, .n owner]] := by
  rw [handle_reaches_handler cfg fs h R.wf _ R.len R.remapOk, hop]
  unfold handleBody
  simp only
  rw [withObj_ok _ _ _ _ _ (by simp only [List.length_append, le32_length, le64_length]; omega)]
  simp only [simple_calls, mkCall, call, List.cons_append, List.nil_append]
  wire_norm

/-- OPENDIR / RELEASEDIR / FSYNCDIR -/
theorem opendir_exact (cfg : Cfg) (fs : Call → Ans) (h : Hdr) (R : Req fs h) (hop : h.op = 27)
    (flags pad : Nat) (h1 : flags < 2 ^ 32) (h2 : pad < 2 ^ 32) (trail : Bytes) :
    (handle cfg fs (encHdr h ++ (le32 flags ++ le32 pad ++ trail))).calls =
      [remapOf h, call fs h "opendir" [.n h.nodeid, .n flags]] := by
  rw [handle_reaches_handler cfg fs h R.wf _ R.len R.remapOk, hop]
  unfold handleBody
  simp only
  rw [withObj_ok _ _ _ _ _ (by simp only [List.length_append, le32_length]; omega)]
  simp only [simple_calls, mkCall, call, List.cons_append, List.nil_append]
  wire_norm

theorem releasedir_exact (cfg : Cfg) (fs : Call → Ans) (h : Hdr) (R : Req fs h) (hop : h.op = 29)
    (fh flags rf owner : Nat) (h1 : fh < 2 ^ 64) (h2 : flags < 2 ^ 32) (h3 : rf < 2 ^ 32) (h4 : owner < 2 ^ 64) (trail : Bytes) :
    (handle cfg fs (encHdr h ++ (le64 fh ++ le32 flags ++ le32 rf ++ le64 owner ++ trail))).calls =
      [remapOf h, call fs h "releasedir" [.n h.nodeid, .n flags, .n fh]] := by
  rw [handle_reaches_handler cfg fs h R.wf _ R.len R.remapOk, hop]
  unfold handleBody
  simp only
  rw [withObj_ok _ _ _ _ _ (by simp only [List.length_append, le32_length, le64_length]; omega)]
  simp only [simple_calls, mkCall, call, List.cons_append, List.nil_append]
  wire_norm

theorem fsyncdir_exact (cfg : Cfg) (fs : Call → Ans) (h : Hdr) (R : Req fs h) (hop : h.op = 30)
    (fh ff pad : Nat) (hfh : fh < 2 ^ 64) (hff : ff < 2 ^ 32) (hp : pad < 2 ^ 32) (trail : Bytes) :
    (handle cfg fs (encHdr h ++ (le64 fh ++ le32 ff ++ le32 pad ++ trail))).calls =
      [remapOf h, call fs h "fsyncdir" [.n h.nodeid, .b (ff &&& 1 != 0), .n fh]] := by
  rw [handle_reaches_handler cfg fs h R.wf _ R.len R.remapOk, hop]
  unfold handleBody
  simp only
  rw [withObj_ok _ _ _ _ _ (by simp only [List.length_append, le32_length, le64_length]; omega)]
  simp only [simple_calls, mkCall, call, List.cons_append, List.nil_append]
  wire_norm

/-- GETLK / SETLK -/
theorem getlk_setlk_exact (cfg : Cfg) (fs : Call → Ans) (h : Hdr) (R : Req fs h)
    (fh owner s e ty pid lf pad : Nat) (h1 : fh < 2 ^ 64) (h2 : owner < 2 ^ 64) (h3 : s < 2 ^ 64)
    (h4 : e < 2 ^ 64) (h5 : ty < 2 ^ 32) (h6 : pid < 2 ^ 32) (h7 : lf < 2 ^ 32) (h8 : pad < 2 ^ 32)
    (trail : Bytes) :
    (h.op = 31 → (handle cfg fs (encHdr h ++ (le64 fh ++ le64 owner ++ le64 s ++ le64 e ++ le32 ty ++ le32 pid ++
        le32 lf ++ le32 pad ++ trail))).calls =
      [remapOf h, call fs h "getlk" [.n h.nodeid, .n fh, .n owner, .lock s e ty pid, .n lf]]) ∧
    (h.op = 32 → (handle cfg fs (encHdr h ++ (le64 fh ++ le64 owner ++ le64 s ++ le64 e ++ le32 ty ++ le32 pid ++
        le32 lf ++ le32 pad ++ trail))).calls =
      [remapOf h, call fs h "setlk" [.n h.nodeid, .n fh, .n owner, .lock s e ty pid, .n lf]]) := by
  constructor <;> intro hop <;>
    (rw [handle_reaches_handler cfg fs h R.wf _ R.len R.remapOk, hop]
     unfold handleBody
     simp only
     rw [withObj_ok _ _ _ _ _ (by simp only [List.length_append, le32_length, le64_length]; omega)]
     simp only [simple_calls, mkCall, call, List.cons_append, List.nil_append]
     wire_norm)

/-- LISTXATTR / BMAP / POLL -/
theorem listxattr_exact (cfg : Cfg) (fs : Call → Ans) (h : Hdr) (R : Req fs h) (hop : h.op = 23)
    (size pad : Nat) (h1 : size < 2 ^ 32) (h2 : pad < 2 ^ 32) (trail : Bytes) :
    (handle cfg fs (encHdr h ++ (le32 size ++ le32 pad ++ trail))).calls =
      [remapOf h, call fs h "listxattr" [.n h.nodeid, .n size]] := by
  rw [handle_reaches_handler cfg fs h R.wf _ R.len R.remapOk, hop]
  unfold handleBody
  simp only
  rw [withObj_ok _ _ _ _ _ (by simp only [List.length_append, le32_length]; omega)]
  simp only [simple_calls, mkCall, call, List.cons_append, List.nil_append]
  wire_norm

theorem bmap_exact (cfg : Cfg) (fs : Call → Ans) (h : Hdr) (R : Req fs h) (hop : h.op = 37)
    (block bs pad : Nat) (h1 : block < 2 ^ 64) (h2 : bs < 2 ^ 32) (h3 : pad < 2 ^ 32) (trail : Bytes) :
    (handle cfg fs (encHdr h ++ (le64 block ++ le32 bs ++ le32 pad ++ trail))).calls =
      [remapOf h, call fs h "bmap" [.n h.nodeid, .n block, .n bs]] := by
  rw [handle_reaches_handler cfg fs h R.wf _ R.len R.remapOk, hop]
  unfold handleBody
  simp only
  rw [withObj_ok _ _ _ _ _ (by simp only [List.length_append, le32_length, le64_length]; omega)]
  simp only [simple_calls, mkCall, call, List.cons_append, List.nil_append]
  wire_norm

theorem poll_exact (cfg : Cfg) (fs : Call → Ans) (h : Hdr) (R : Req fs h) (hop : h.op = 40)
    (fh kh flags events : Nat) (h1 : fh < 2 ^ 64) (h2 : kh < 2 ^ 64) (h3 : flags < 2 ^ 32) (h4 : events < 2 ^ 32)
    (trail : Bytes) :
    (handle cfg fs (encHdr h ++ (le64 fh ++ le64 kh ++ le32 flags ++ le32 events ++ trail))).calls =
      [remapOf h, call fs h "poll" [.n h.nodeid, .n fh, .n kh, .n flags, .n events]] := by
  rw [handle_reaches_handler cfg fs h R.wf _ R.len R.remapOk, hop]
  unfold handleBody
  simp only
  rw [withObj_ok _ _ _ _ _ (by simp only [List.length_append, le32_length, le64_length]; omega)]
  simp only [simple_calls, mkCall, call, List.cons_append, List.nil_append]
  wire_norm

/-- READLINK / STATFS: no request structure, one call with the node id -/
theorem readlink_statfs_exact (cfg : Cfg) (fs : Call → Ans) (h : Hdr) (R : Req fs h) (body : Bytes) :
    (h.op = 5 → (handle cfg fs (encHdr h ++ body)).calls = [remapOf h, call fs h "readlink" [.n h.nodeid]]) ∧
    (h.op = 17 → (handle cfg fs (encHdr h ++ body)).calls = [remapOf h, call fs h "statfs" [.n h.nodeid]]) := by
  constructor <;> intro hop <;>
    (rw [handle_reaches_handler cfg fs h R.wf _ R.len R.remapOk, hop]
     unfold handleBody
     simp [mkCall, call])

/-- INTERRUPT reaches no file-system operation at all; DESTROY reaches `destroy` -/
theorem interrupt_destroy_exact (cfg : Cfg) (fs : Call → Ans) (h : Hdr) (R : Req fs h) (body : Bytes) :
    (h.op = 36 → (handle cfg fs (encHdr h ++ body)).calls = [remapOf h]) ∧
    (h.op = 38 → (handle cfg fs (encHdr h ++ body)).calls =
        [remapOf h, { method := "destroy", ctx := { uid := 0, gid := 0, pid := 0 }, args := [] }]) := by
  constructor <;> intro hop <;>
    (rw [handle_reaches_handler cfg fs h R.wf _ R.len R.remapOk, hop]
     unfold handleBody
     simp [okRes])

/-- READDIR / READDIRPLUS: handle, size and offset (the fs is asked only when the reply buffer
    can hold the header plus the requested size) -/
theorem readdir_exact (cfg : Cfg) (fs : Call → Ans) (h : Hdr) (R : Req fs h)
    (fh off size rf owner flags pad : Nat) (h1 : fh < 2 ^ 64) (h2 : off < 2 ^ 64) (h3 : size < 2 ^ 32)
    (h4 : rf < 2 ^ 32) (h5 : owner < 2 ^ 64) (h6 : flags < 2 ^ 32) (h7 : pad < 2 ^ 32) (trail : Bytes)
    (hcap : size + 16 ≤ cfg.cap) :
    (h.op = 28 → (handle cfg fs (encHdr h ++ (le64 fh ++ le64 off ++ le32 size ++ le32 rf ++ le64 owner ++ le32 flags ++
        le32 pad ++ trail))).calls = [remapOf h, call fs h "readdir" [.n h.nodeid, .n fh, .n size, .n off]]) ∧
    (h.op = 44 → (handle cfg fs (encHdr h ++ (le64 fh ++ le64 off ++ le32 size ++ le32 rf ++ le64 owner ++ le32 flags ++
        le32 pad ++ trail))).calls = [remapOf h, call fs h "readdirplus" [.n h.nodeid, .n fh, .n size, .n off]]) := by
  have hsz : u32At (List.take 40 (le64 fh ++ le64 off ++ le32 size ++ le32 rf ++ le64 owner ++ le32 flags ++ le32 pad ++ trail)) 16 = size := by
    wire_norm
  constructor <;> intro hop <;>
    (rw [handle_reaches_handler cfg fs h R.wf _ R.len R.remapOk, hop]
     unfold handleBody
     simp only
     rw [withObj_ok _ _ _ _ _ (by simp only [List.length_append, le32_length, le64_length]; omega)]
     simp only [List.append_assoc] at hsz ⊢
     simp only [hsz]
     rw [if_neg (by unfold OUT_HDR; omega), if_neg (by unfold OUT_HDR; omega)]
     simp only [dirReply_calls, mkCall, call, List.cons_append, List.nil_append]
     wire_norm
     simp)


/-- SETATTR: every settable field reaches the file system in the host structure, the handle is
    present iff FATTR_FH (bit 6), the valid mask is the ten attribute bits of `valid` -/
theorem setattr_exact (cfg : Cfg) (fs : Call → Ans) (h : Hdr) (R : Req fs h) (hop : h.op = 4)
    (valid pad fh size lo atime mtime ctime ans mns cns mode u4 uid gid u5 : Nat)
    (b1 : valid < 2 ^ 32) (b2 : pad < 2 ^ 32) (b3 : fh < 2 ^ 64) (b4 : size < 2 ^ 64) (b5 : lo < 2 ^ 64)
    (b6 : atime < 2 ^ 64) (b7 : mtime < 2 ^ 64) (b8 : ctime < 2 ^ 64) (b9 : ans < 2 ^ 32) (b10 : mns < 2 ^ 32)
    (b11 : cns < 2 ^ 32) (b12 : mode < 2 ^ 32) (b13 : u4 < 2 ^ 32) (b14 : uid < 2 ^ 32) (b15 : gid < 2 ^ 32)
    (b16 : u5 < 2 ^ 32) (trail : Bytes) :
    (handle cfg fs (encHdr h ++ (le32 valid ++ le32 pad ++ le64 fh ++ le64 size ++ le64 lo ++ le64 atime ++
        le64 mtime ++ le64 ctime ++ le32 ans ++ le32 mns ++ le32 cns ++ le32 mode ++ le32 u4 ++ le32 uid ++
        le32 gid ++ le32 u5 ++ trail))).calls =
      [remapOf h, call fs h "setattr" [.n h.nodeid,
        .stat { ino := 0, size := size, blocks := 0, atime := atime, mtime := mtime, ctime := ctime,
                atimeNsec := ans, mtimeNsec := mns, ctimeNsec := cns, mode := mode, nlink := 0,
                uid := uid, gid := gid, rdev := 0, blksize := 0 },
        .optN (if valid &&& 64 != 0 then some fh else none), .n (valid &&& SETATTR_VALID_MASK)]] := by
  rw [handle_reaches_handler cfg fs h R.wf _ R.len R.remapOk, hop]
  unfold handleBody
  simp only
  rw [withObj_ok _ _ _ _ _ (by simp only [List.length_append, le32_length, le64_length]; omega)]
  simp only [simple_calls, mkCall, call, List.cons_append, List.nil_append, FATTR_FH, setattrOf,
    Conv.statOfSetattr]
  wire_norm

/-- SETXATTR: name, value bytes (exactly `size` of them) and flags -/
theorem setxattr_exact (cfg : Cfg) (fs : Call → Ans) (h : Hdr) (R : Req fs h) (hop : h.op = 21)
    (flags : Nat) (h2 : flags < 2 ^ 32) (name value : Bytes) (hn : NameOk name) (hv : value.length < 2 ^ 32)
    (hl : h.len = IN_HDR + 8 + (name.length + 1 + value.length)) :
    (handle cfg fs (encHdr h ++ ((le32 value.length ++ le32 flags) ++ (name ++ 0 :: value)))).calls =
      [remapOf h, call fs h "setxattr" [.n h.nodeid, .bytes name, .bytes value, .n flags]] := by
  rw [handle_reaches_handler cfg fs h R.wf _ R.len R.remapOk, hop]
  unfold handleBody
  simp only
  rw [withObj_ok _ _ _ _ _ (by simp only [List.length_append, le32_length]; omega)]
  have hd : ((le32 value.length ++ le32 flags) ++ (name ++ 0 :: value)).drop 8 = name ++ 0 :: value := by
    rw [show (8 : Nat) = (le32 value.length ++ le32 flags).length by simp, List.drop_left]
  simp only [hd]
  rw [getBody_ok h.len 8 (name.length + 1 + value.length) _ hl (by simp; omega)]
  simp only
  rw [List.take_of_length_le (by simp; omega)]
  have hc : (name ++ 0 :: value).contains 0 = true := by simp
  have htw : (name ++ 0 :: value).takeWhile (· != 0) = name := by
    have := cstr_name name value hn
    unfold cstr at this
    rw [if_pos hc] at this
    exact Option.some.inj this
  have hdv : (name ++ 0 :: value).drop (name.length + 1) = value := by
    rw [show name ++ 0 :: value = (name ++ [0]) ++ value by simp,
        show name.length + 1 = (name ++ [0]).length by simp, List.drop_left]
  have hsz : u32At (List.take 8 (le32 value.length ++ le32 flags ++ (name ++ 0 :: value))) 0 = value.length := by
    wire_norm
  simp only [hc, Bool.not_true, Bool.false_eq_true, if_false, htw, hdv]
  simp only [List.append_assoc] at hsz ⊢
  rw [hsz, Nat.mod_eq_of_lt hv]
  simp only [bne_self_eq_false, Bool.false_eq_true, if_false, simple_calls, mkCall, call, List.cons_append, List.nil_append]
  wire_norm

/-- BATCH_FORGET: every (node id, count) pair, in order -/
theorem batch_forget_exact_one (cfg : Cfg) (fs : Call → Ans) (h : Hdr) (R : Req fs h) (hop : h.op = 42)
    (dummy ino cnt : Nat) (h1 : dummy < 2 ^ 32) (h2 : ino < 2 ^ 64) (h3 : cnt < 2 ^ 64) (trail : Bytes) :
    (handle cfg fs (encHdr h ++ (le32 1 ++ le32 dummy ++ le64 ino ++ le64 cnt ++ trail))).calls =
      [remapOf h, call fs h "batch_forget" [.pairs [(ino, cnt)]]] := by
  rw [handle_reaches_handler cfg fs h R.wf _ R.len R.remapOk, hop]
  unfold handleBody
  simp only
  rw [withObj_ok _ _ _ _ _ (by simp only [List.length_append, le32_length, le64_length]; omega)]
  have hc : u32At (List.take 8 (le32 1 ++ le32 dummy ++ le64 ino ++ le64 cnt ++ trail)) 0 = 1 := by wire_norm
  have hd : (le32 1 ++ le32 dummy ++ le64 ino ++ le64 cnt ++ trail).drop 8 = le64 ino ++ le64 cnt ++ trail := by
    rw [show le32 1 ++ le32 dummy ++ le64 ino ++ le64 cnt ++ trail = (le32 1 ++ le32 dummy) ++ (le64 ino ++ le64 cnt ++ trail) by simp,
        show (8 : Nat) = (le32 1 ++ le32 dummy).length by simp, List.drop_left]
  simp only [List.append_assoc] at hc hd ⊢
  simp only [hc, hd]
  rw [if_neg (by decide), if_neg (by simp; omega)]
  simp only [mkCall, call, List.cons_append, List.nil_append, List.range_one, List.map_cons, List.map_nil,
    Nat.mul_zero, Nat.zero_add]
  wire_norm

/-- BATCH_FORGET with ANY number of items: every (node id, count) pair reaches the file system,
    in order, with exact values (the only bound is the server's own size limit) -/
theorem batch_forget_exact (cfg : Cfg) (fs : Call → Ans) (h : Hdr) (R : Req fs h) (hop : h.op = 42)
    (dummy : Nat) (items : List (Nat × Nat)) (h1 : dummy < 2 ^ 32)
    (hb : ∀ p ∈ items, p.1 < 2 ^ 64 ∧ p.2 < 2 ^ 64)
    (hn : items.length * 16 ≤ MAX_BUFFER_SIZE + BUFFER_HEADER_SIZE - 8 - IN_HDR) (trail : Bytes) :
    (handle cfg fs (encHdr h ++ (le32 items.length ++ le32 dummy ++ encPairs items ++ trail))).calls =
      [remapOf h, call fs h "batch_forget" [.pairs items]] := by
  have hn32 : items.length < 2 ^ 32 := by
    unfold MAX_BUFFER_SIZE BUFFER_HEADER_SIZE IN_HDR at hn; omega
  rw [handle_reaches_handler cfg fs h R.wf _ R.len R.remapOk, hop]
  unfold handleBody
  simp only
  rw [withObj_ok _ _ _ _ _ (by simp only [List.length_append, le32_length]; omega)]
  have hc : u32At (List.take 8 (le32 items.length ++ le32 dummy ++ encPairs items ++ trail)) 0 = items.length := by
    wire_norm
  have hd : (le32 items.length ++ le32 dummy ++ encPairs items ++ trail).drop 8 = encPairs items ++ trail := by
    rw [show le32 items.length ++ le32 dummy ++ encPairs items ++ trail =
          (le32 items.length ++ le32 dummy) ++ (encPairs items ++ trail) by simp,
        show (8 : Nat) = (le32 items.length ++ le32 dummy).length by simp, List.drop_left]
  simp only [List.append_assoc] at hc hd ⊢
  simp only [hc, hd]
  rw [if_neg (by omega), if_neg (by simp only [List.length_append, encPairs_length]; omega)]
  simp only [mkCall, call, List.cons_append, List.nil_append]
  rw [pairs_decode items hb trail]

/-- SETUPMAPPING (virtio-fs with a DAX window): all five fields -/
theorem setupmapping_exact (cfg : Cfg) (fs : Call → Ans) (h : Hdr) (R : Req fs h) (hop : h.op = 48)
    (hvu : cfg.hasVuReq = true)
    (fh foffset len flags moffset : Nat) (h1 : fh < 2 ^ 64) (h2 : foffset < 2 ^ 64) (h3 : len < 2 ^ 64)
    (h4 : flags < 2 ^ 64) (h5 : moffset < 2 ^ 64) (trail : Bytes) :
    (handle cfg fs (encHdr h ++ (le64 fh ++ le64 foffset ++ le64 len ++ le64 flags ++ le64 moffset ++ trail))).calls =
      [remapOf h, call fs h "setupmapping" [.n h.nodeid, .n fh, .n foffset, .n len, .n flags, .n moffset]] := by
  rw [handle_reaches_handler cfg fs h R.wf _ R.len R.remapOk, hop]
  unfold handleBody
  simp only [hvu, Bool.not_true, Bool.false_eq_true, if_false]
  rw [withObj_ok _ _ _ _ _ (by simp only [List.length_append, le64_length]; omega)]
  simp only [simple_calls, mkCall, call, List.cons_append, List.nil_append]
  wire_norm

/-- without a DAX window SETUPMAPPING / REMOVEMAPPING never reach the file system -/
theorem mapping_needs_window (cfg : Cfg) (fs : Call → Ans) (h : Hdr) (R : Req fs h) (hop : h.op = 48 ∨ h.op = 49)
    (hvu : cfg.hasVuReq = false) (body : Bytes) :
    (handle cfg fs (encHdr h ++ body)).calls = [remapOf h] := by
  rw [handle_reaches_handler cfg fs h R.wf _ R.len R.remapOk]
  rcases hop with hop | hop <;> (rw [hop]; unfold handleBody; simp [hvu, errRes])

/-- REMOVEMAPPING with ANY number of items: every (offset, length) pair, in order -/
theorem removemapping_exact (cfg : Cfg) (fs : Call → Ans) (h : Hdr) (R : Req fs h) (hop : h.op = 49)
    (hvu : cfg.hasVuReq = true) (items : List (Nat × Nat))
    (hb : ∀ p ∈ items, p.1 < 2 ^ 64 ∧ p.2 < 2 ^ 64)
    (hn : items.length * 16 ≤ MAX_BUFFER_SIZE) (trail : Bytes) :
    (handle cfg fs (encHdr h ++ (le32 items.length ++ encPairs items ++ trail))).calls =
      [remapOf h, call fs h "removemapping" [.n h.nodeid, .pairs items]] := by
  have hn32 : items.length < 2 ^ 32 := by unfold MAX_BUFFER_SIZE at hn; omega
  rw [handle_reaches_handler cfg fs h R.wf _ R.len R.remapOk, hop]
  unfold handleBody
  simp only [hvu, Bool.not_true, Bool.false_eq_true, if_false]
  rw [withObj_ok _ _ _ _ _ (by simp only [List.length_append, le32_length]; omega)]
  have hc : u32At (List.take 4 (le32 items.length ++ encPairs items ++ trail)) 0 = items.length := by
    wire_norm
  have hd : (le32 items.length ++ encPairs items ++ trail).drop 4 = encPairs items ++ trail := by
    rw [show le32 items.length ++ encPairs items ++ trail = le32 items.length ++ (encPairs items ++ trail) by simp,
        show (4 : Nat) = (le32 items.length).length by simp, List.drop_left]
  simp only [List.append_assoc] at hc hd ⊢
  simp only [hc, hd]
  rw [if_neg (by omega), if_neg (by simp only [List.length_append, encPairs_length]; omega)]
  simp only [simple_calls, mkCall, call, List.cons_append, List.nil_append]
  rw [pairs_decode items hb trail]


/-- IOCTL: handle, flags, command, the `in_size` input bytes and the output size -/
theorem ioctl_exact (cfg : Cfg) (fs : Call → Ans) (h : Hdr) (R : Req fs h) (hop : h.op = 39)
    (fh flags cmd arg os : Nat) (data : Bytes) (h1 : fh < 2 ^ 64) (h2 : flags < 2 ^ 32) (h3 : cmd < 2 ^ 32)
    (h4 : arg < 2 ^ 64) (h5 : data.length < 2 ^ 32) (h6 : os < 2 ^ 32) :
    (handle cfg fs (encHdr h ++ ((le64 fh ++ le32 flags ++ le32 cmd ++ le64 arg ++ le32 data.length ++ le32 os) ++ data))).calls =
      [remapOf h, call fs h "ioctl" [.n h.nodeid, .n fh, .n flags, .n cmd,
        .optN (if data.isEmpty then none else some 1), .bytes data, .n os]] := by
  rw [handle_reaches_handler cfg fs h R.wf _ R.len R.remapOk, hop]
  unfold handleBody
  simp only
  rw [withObj_ok _ _ _ _ _ (by simp only [List.length_append, le32_length, le64_length]; omega)]
  have hd : ((le64 fh ++ le32 flags ++ le32 cmd ++ le64 arg ++ le32 data.length ++ le32 os) ++ data).drop 32 = data := by
    rw [show (32 : Nat) = (le64 fh ++ le32 flags ++ le32 cmd ++ le64 arg ++ le32 data.length ++ le32 os).length by simp, List.drop_left]
  have hsz : u32At (List.take 32 (le64 fh ++ le32 flags ++ le32 cmd ++ le64 arg ++ le32 data.length ++ le32 os ++ data)) 24 = data.length := by
    wire_norm
  simp only [List.append_assoc] at hd hsz ⊢
  simp only [hd, hsz]
  rw [if_neg (by omega)]
  simp only [simple_calls, mkCall, call, List.cons_append, List.nil_append, List.take_of_length_le (Nat.le_refl _)]
  wire_norm

/-- NOTIFY_REPLY reaches `notify_reply` (which takes no arguments) -/
theorem notify_reply_exact (cfg : Cfg) (fs : Call → Ans) (h : Hdr) (R : Req fs h) (hop : h.op = 41) (body : Bytes) :
    (handle cfg fs (encHdr h ++ body)).calls =
      [remapOf h, { method := "notify_reply", ctx := { uid := 0, gid := 0, pid := 0 }, args := [] }] := by
  rw [handle_reaches_handler cfg fs h R.wf _ R.len R.remapOk, hop]
  unfold handleBody
  simp

/-! ### the `Arc<FS>` wrappers (`api/filesystem/sync_io.rs`, `async_io.rs`)

A server is usually built over `Arc<FS>` (`Server<Arc<Vfs>>`); the wrapper implements the trait by
hand, method by method.  Over the table regenerated from the source: every method the trait
declares is implemented by the wrapper (so no trait default silently replaces the file system's
own method) and forwards to the method OF THE SAME NAME. -/

abbrev FnRow := String × String × String × String × List (String × List String) × List String

def traitMethods (rows : List FnRow) (tr : String) : List String :=
  rows.filterMap fun r => if r.1 == "trait:" ++ tr then some r.2.2.1 else none

def forwards (rows : List FnRow) (impl tr m : String) : Bool :=
  rows.any fun r => r.1 == impl && r.2.1 == tr && r.2.2.1 == m && r.2.2.2.2.2.contains ("self.deref()." ++ m)

theorem arc_wrapper_forwards_every_method :
    (traitMethods Fbr.Gen.fsSyncFns "FileSystem").all (forwards Fbr.Gen.fsSyncFns "Arc<FS>" "FileSystem") = true ∧
    (traitMethods Fbr.Gen.fsAsyncFns "AsyncFileSystem").all
      (forwards Fbr.Gen.fsAsyncFns "Arc<FS>" "AsyncFileSystem") = true := by
  constructor <;> decide +kernel

/-- the table is not empty: 46 and 10 methods -/
theorem arc_wrapper_table_sizes :
    (traitMethods Fbr.Gen.fsSyncFns "FileSystem").length = 46 ∧
    (traitMethods Fbr.Gen.fsAsyncFns "AsyncFileSystem").length = 10 := by
  constructor <;> decide +kernel

/-- no other file-system operation is invoked: apart from the id-remap, one call -/
theorem exactly_one_call_example (cfg : Cfg) (fs : Call → Ans) (h : Hdr) (R : Req fs h) (hop : h.op = 14)
    (flags fuseFlags : Nat) (hf : flags < 2 ^ 32) (hff : fuseFlags < 2 ^ 32) (trail : Bytes) :
    (handle cfg fs (encHdr h ++ (le32 flags ++ le32 fuseFlags ++ trail))).calls.length = 2 := by
  rw [open_exact cfg fs h R hop flags fuseFlags hf hff trail]; rfl

/-- non-vacuity: a concrete request satisfies `Req` -/
example : Req (fun _ => Ans.unit) { len := 56, op := 3, unique := 7, nodeid := 1, uid := 1000, gid := 1000, pid := 42, pad := 0 } where
  wf := by constructor <;> decide
  len := by decide
  remapOk := by intro e h; cases h

end Fbr.Thm.C02
