/-
  C02 — Each request is decoded into exactly the operation and arguments the client sent.

  PROPERTY THEOREMS ONLY (helpers: `Fbr.Lemmas.SrvDecode`, `Fbr.Lemmas.Wire`).
  The client's encoding is written here from the kernel's layout (`encHdr`, `le32`/`le64` per
  field in wire order) — independently of the library's structs, whose equality with the kernel
  layout is C13.  Each `*_exact` theorem says: for EVERY value of every field (within its wire
  width), every trailing byte string, every file system and configuration, the file system
  receives exactly the per-request id-remap call followed by exactly one call of the operation the
  opcode denotes, with every argument equal to what the client encoded, optional arguments
  following their flag bits.
-/
import Fbr.Lemmas.SrvDecode
import Fbr.SrvSpec
import Fbr.Gen.Server

namespace Fbr.Thm.C02
open Fbr.Srv Fbr.Wire

/-- Today's handlers (request struct, bindings, helper calls, fs call + argument expressions,
    reply constructors) and dispatch arms are the ones `Fbr.Srv` was written from (checked by
    the kernel's definitional equality on the two closed tables). -/
theorem handlers_as_modelled :
    Gen.srvSyncFns = SrvSpec.expectedSyncFns ∧ Gen.srvSyncDispatch = SrvSpec.expectedSyncDispatch :=
  ⟨rfl, rfl⟩

/-- … and the buffer constants are the ones the model uses. -/
theorem constants_as_modelled :
    Gen.srvModConsts.lookup "MAX_BUFFER_SIZE" = some MAX_BUFFER_SIZE ∧
    Gen.srvModConsts.lookup "BUFFER_HEADER_SIZE" = some BUFFER_HEADER_SIZE ∧
    Gen.srvModConsts.lookup "MIN_READ_BUFFER" = some MIN_READ_BUFFER ∧
    Gen.srvModConsts.lookup "MAX_REQ_PAGES" = some MAX_REQ_PAGES := by
  decide +kernel

/-- common hypotheses of a well-formed request -/
structure Req (fs : Call → Ans) (h : Hdr) : Prop where
  wf : h.WF
  len : h.len ≤ MAX_BUFFER_SIZE + BUFFER_HEADER_SIZE
  remapOk : ∀ e, fs (remapOf h) ≠ .err e

/-- the call the handlers make with the (possibly remapped) caller ids -/
def call (fs : Call → Ans) (h : Hdr) (m : String) (args : List Arg) : Call :=
  { method := m, ctx := ctxFor h (fs (remapOf h)), args := args }

/-- the caller ids reach the file system unchanged unless the remap call rewrote them -/
theorem context_from_header (fs : Call → Ans) (h : Hdr) (hk : ∀ u g, fs (remapOf h) ≠ .remapSet u g) :
    ctxFor h (fs (remapOf h)) = { uid := h.uid, gid := h.gid, pid := h.pid } := by
  unfold ctxFor
  split
  · next u g heq => exact absurd heq (hk u g)
  · rfl

/-- FORGET -/
theorem forget_exact (cfg : Cfg) (fs : Call → Ans) (h : Hdr) (R : Req fs h) (hop : h.op = 2)
    (n : Nat) (hn : n < 2 ^ 64) (trail : Bytes) :
    (handle cfg fs (encHdr h ++ (le64 n ++ trail))).calls =
      [remapOf h, call fs h "forget" [.n h.nodeid, .n n]] := by
  rw [handle_reaches_handler cfg fs h R.wf _ R.len R.remapOk, hop]
  unfold handleBody
  simp only
  rw [withObj_ok _ _ _ _ _ (by simp only [List.length_append, le32_length, le64_length]; omega)]
  simp only [mkCall, call, List.cons_append, List.nil_append]
  wire_norm

/-- GETATTR: the handle is present iff GETATTR_FH (bit 0) is set -/
theorem getattr_exact (cfg : Cfg) (fs : Call → Ans) (h : Hdr) (R : Req fs h) (hop : h.op = 3)
    (flags dummy fh : Nat) (hf : flags < 2 ^ 32) (hd : dummy < 2 ^ 32) (hfh : fh < 2 ^ 64) (trail : Bytes) :
    (handle cfg fs (encHdr h ++ (le32 flags ++ le32 dummy ++ le64 fh ++ trail))).calls =
      [remapOf h, call fs h "getattr" [.n h.nodeid, .optN (if flags &&& 1 != 0 then some fh else none)]] := by
  rw [handle_reaches_handler cfg fs h R.wf _ R.len R.remapOk, hop]
  unfold handleBody
  simp only
  rw [withObj_ok _ _ _ _ _ (by simp only [List.length_append, le32_length, le64_length]; omega)]
  simp only [simple_calls, mkCall, call, List.cons_append, List.nil_append, GETATTR_FH]
  wire_norm

/-- OPEN -/
theorem open_exact (cfg : Cfg) (fs : Call → Ans) (h : Hdr) (R : Req fs h) (hop : h.op = 14)
    (flags fuseFlags : Nat) (hf : flags < 2 ^ 32) (hff : fuseFlags < 2 ^ 32) (trail : Bytes) :
    (handle cfg fs (encHdr h ++ (le32 flags ++ le32 fuseFlags ++ trail))).calls =
      [remapOf h, call fs h "open" [.n h.nodeid, .n flags, .n fuseFlags]] := by
  rw [handle_reaches_handler cfg fs h R.wf _ R.len R.remapOk, hop]
  unfold handleBody
  simp only
  rw [withObj_ok _ _ _ _ _ (by simp only [List.length_append, le32_length, le64_length]; omega)]
  simp only [simple_calls, mkCall, call, List.cons_append, List.nil_append]
  wire_norm

/-- FSYNC / FSYNCDIR: datasync is bit 0 of fsync_flags -/
theorem fsync_exact (cfg : Cfg) (fs : Call → Ans) (h : Hdr) (R : Req fs h) (hop : h.op = 20)
    (fh ff pad : Nat) (hfh : fh < 2 ^ 64) (hff : ff < 2 ^ 32) (hp : pad < 2 ^ 32) (trail : Bytes) :
    (handle cfg fs (encHdr h ++ (le64 fh ++ le32 ff ++ le32 pad ++ trail))).calls =
      [remapOf h, call fs h "fsync" [.n h.nodeid, .b (ff &&& 1 != 0), .n fh]] := by
  rw [handle_reaches_handler cfg fs h R.wf _ R.len R.remapOk, hop]
  unfold handleBody
  simp only
  rw [withObj_ok _ _ _ _ _ (by simp only [List.length_append, le32_length, le64_length]; omega)]
  simp only [simple_calls, mkCall, call, List.cons_append, List.nil_append]
  wire_norm

/-- RELEASE: flush / flock-unlock from the release flags, lock owner present iff either is set -/
theorem release_exact (cfg : Cfg) (fs : Call → Ans) (h : Hdr) (R : Req fs h) (hop : h.op = 18)
    (fh flags rf owner : Nat) (hfh : fh < 2 ^ 64) (hfl : flags < 2 ^ 32) (hrf : rf < 2 ^ 32)
    (ho : owner < 2 ^ 64) (trail : Bytes) :
    (handle cfg fs (encHdr h ++ (le64 fh ++ le32 flags ++ le32 rf ++ le64 owner ++ trail))).calls =
      [remapOf h, call fs h "release" [.n h.nodeid, .n flags, .n fh, .b (rf &&& 1 != 0), .b (rf &&& 2 != 0),
        .optN (if (rf &&& 1 != 0) || (rf &&& 2 != 0) then some owner else none)]] := by
  rw [handle_reaches_handler cfg fs h R.wf _ R.len R.remapOk, hop]
  unfold handleBody
  simp only
  rw [withObj_ok _ _ _ _ _ (by simp only [List.length_append, le32_length, le64_length]; omega)]
  simp only [simple_calls, mkCall, call, List.cons_append, List.nil_append, RELEASE_FLUSH, RELEASE_FLOCK_UNLOCK]
  wire_norm

/-- FALLOCATE -/
theorem fallocate_exact (cfg : Cfg) (fs : Call → Ans) (h : Hdr) (R : Req fs h) (hop : h.op = 43)
    (fh off len mode pad : Nat) (hfh : fh < 2 ^ 64) (hoff : off < 2 ^ 64) (hl : len < 2 ^ 64)
    (hm : mode < 2 ^ 32) (hp : pad < 2 ^ 32) (trail : Bytes) :
    (handle cfg fs (encHdr h ++ (le64 fh ++ le64 off ++ le64 len ++ le32 mode ++ le32 pad ++ trail))).calls =
      [remapOf h, call fs h "fallocate" [.n h.nodeid, .n fh, .n mode, .n off, .n len]] := by
  rw [handle_reaches_handler cfg fs h R.wf _ R.len R.remapOk, hop]
  unfold handleBody
  simp only
  rw [withObj_ok _ _ _ _ _ (by simp only [List.length_append, le32_length, le64_length]; omega)]
  simp only [simple_calls, mkCall, call, List.cons_append, List.nil_append]
  wire_norm

/-- LSEEK -/
theorem lseek_exact (cfg : Cfg) (fs : Call → Ans) (h : Hdr) (R : Req fs h) (hop : h.op = 46)
    (fh off whence pad : Nat) (hfh : fh < 2 ^ 64) (hoff : off < 2 ^ 64) (hwh : whence < 2 ^ 32)
    (hp : pad < 2 ^ 32) (trail : Bytes) :
    (handle cfg fs (encHdr h ++ (le64 fh ++ le64 off ++ le32 whence ++ le32 pad ++ trail))).calls =
      [remapOf h, call fs h "lseek" [.n h.nodeid, .n fh, .n off, .n whence]] := by
  rw [handle_reaches_handler cfg fs h R.wf _ R.len R.remapOk, hop]
  unfold handleBody
  simp only
  rw [withObj_ok _ _ _ _ _ (by simp only [List.length_append, le32_length, le64_length]; omega)]
  simp only [simple_calls, mkCall, call, List.cons_append, List.nil_append]
  wire_norm

/-- ACCESS -/
theorem access_exact (cfg : Cfg) (fs : Call → Ans) (h : Hdr) (R : Req fs h) (hop : h.op = 34)
    (mask pad : Nat) (hm : mask < 2 ^ 32) (hp : pad < 2 ^ 32) (trail : Bytes) :
    (handle cfg fs (encHdr h ++ (le32 mask ++ le32 pad ++ trail))).calls =
      [remapOf h, call fs h "access" [.n h.nodeid, .n mask]] := by
  rw [handle_reaches_handler cfg fs h R.wf _ R.len R.remapOk, hop]
  unfold handleBody
  simp only
  rw [withObj_ok _ _ _ _ _ (by simp only [List.length_append, le32_length, le64_length]; omega)]
  simp only [simple_calls, mkCall, call, List.cons_append, List.nil_append]
  wire_norm

/-- SETLKW reaches `setlkw` (not `setlk`) with the lock description -/
theorem setlkw_exact (cfg : Cfg) (fs : Call → Ans) (h : Hdr) (R : Req fs h) (hop : h.op = 33)
    (fh owner s e ty pid lf pad : Nat) (h1 : fh < 2 ^ 64) (h2 : owner < 2 ^ 64) (h3 : s < 2 ^ 64)
    (h4 : e < 2 ^ 64) (h5 : ty < 2 ^ 32) (h6 : pid < 2 ^ 32) (h7 : lf < 2 ^ 32) (h8 : pad < 2 ^ 32)
    (trail : Bytes) :
    (handle cfg fs (encHdr h ++ (le64 fh ++ le64 owner ++ le64 s ++ le64 e ++ le32 ty ++ le32 pid ++
        le32 lf ++ le32 pad ++ trail))).calls =
      [remapOf h, call fs h "setlkw" [.n h.nodeid, .n fh, .n owner, .lock s e ty pid, .n lf]] := by
  rw [handle_reaches_handler cfg fs h R.wf _ R.len R.remapOk, hop]
  unfold handleBody
  simp only
  rw [withObj_ok _ _ _ _ _ (by simp only [List.length_append, le32_length, le64_length]; omega)]
  simp only [simple_calls, mkCall, call, List.cons_append, List.nil_append]
  wire_norm

/-- READ: six arguments in the right places, lock owner present iff READ_LOCKOWNER (bit 1);
    needs a reply buffer that can hold the header (otherwise the request is refused before the
    file system is asked) -/
theorem read_exact (cfg : Cfg) (fs : Call → Ans) (h : Hdr) (R : Req fs h) (hop : h.op = 15)
    (hcap : 16 ≤ cfg.cap)
    (fh off size rf owner flags pad : Nat) (h1 : fh < 2 ^ 64) (h2 : off < 2 ^ 64) (h3 : size < 2 ^ 32)
    (h4 : rf < 2 ^ 32) (h5 : owner < 2 ^ 64) (h6 : flags < 2 ^ 32) (h7 : pad < 2 ^ 32) (trail : Bytes) :
    (handle cfg fs (encHdr h ++ (le64 fh ++ le64 off ++ le32 size ++ le32 rf ++ le64 owner ++ le32 flags ++
        le32 pad ++ trail))).calls =
      [remapOf h, call fs h "read" [.n h.nodeid, .n fh, .n size, .n off,
        .optN (if rf &&& 2 != 0 then some owner else none), .n flags]] := by
  rw [handle_reaches_handler cfg fs h R.wf _ R.len R.remapOk, hop]
  unfold handleBody
  simp only
  rw [withObj_ok _ _ _ _ _ (by simp only [List.length_append, le32_length, le64_length]; omega)]
  have hc : ¬ cfg.cap < OUT_HDR := by unfold OUT_HDR; omega
  simp only [if_neg hc]
  have : ∀ c a, (readReply cfg h.unique c a).calls = c := by
    intro c a; unfold readReply; split
    · split <;> rfl
    · rfl
    · rfl
  rw [this]
  simp only [mkCall, call, List.cons_append, List.nil_append, READ_LOCKOWNER]
  wire_norm

/-- no other file-system operation is invoked: apart from the id-remap, one call -/
theorem exactly_one_call_example (cfg : Cfg) (fs : Call → Ans) (h : Hdr) (R : Req fs h) (hop : h.op = 14)
    (flags fuseFlags : Nat) (hf : flags < 2 ^ 32) (hff : fuseFlags < 2 ^ 32) (trail : Bytes) :
    (handle cfg fs (encHdr h ++ (le32 flags ++ le32 fuseFlags ++ trail))).calls.length = 2 := by
  rw [open_exact cfg fs h R hop flags fuseFlags hf hff trail]; rfl

/-- non-vacuity: a concrete request satisfies `Req` -/
example : Req (fun _ => Ans.unit) { len := 56, op := 3, unique := 7, nodeid := 1, uid := 1000, gid := 1000, pid := 42, pad := 0 } where
  wf := by constructor <;> decide
  len := by decide
  remapOk := by intro e h; cases h

end Fbr.Thm.C02
