/-
  Fbr.SrvAsync — model of `Server::async_handle_message` (src/api/server/async_io.rs) over the
  same scripted file system.  Ten operations have async handlers, everything else falls
  through to the synchronous handlers of `Fbr.Srv`.

  On /dev/fuse the async writer uses `pwrite(fd, .., 0)` for single-buffer writes and `writev`
  for multi-buffer ones; `Out.sys` lists the system calls in order and `Out.pw` says, per call,
  whether it was a positional write at offset 0 (`true`) or a `writev` (`false`).
-/
import Fbr.Srv

namespace Fbr.SrvAsync
open Fbr.Wire Fbr.Conv Fbr.Srv

structure AOut where
  sys : List Bytes := []
  pw : List Bool := []
  placed : List (Nat × Bytes) := []
  deriving Repr, DecidableEq, Inhabited

/-- what the harness pre-fills scratch / reply buffers with -/
def fillByte (i : Nat) : UInt8 := UInt8.ofNat ((i * 31 + 7) % 256)

/-- `async_reply_ok` on an unsplit writer -/
def aReplyOk (cfg : Cfg) (unique : Nat) (body data : Bytes) : AOut × Ret :=
  let len := OUT_HDR + body.length + data.length
  let msg := outHeader len 0 unique ++ body ++ data
  if len > cfg.cap then ({}, .err .encodeMessage)
  else if cfg.fusedev then
    ({ sys := [msg], pw := [body.isEmpty && data.isEmpty] }, .ok len)
  else ({ placed := [(0, msg)] }, .ok len)

/-- `async_do_reply_error` on an unsplit, unbuffered writer.  `commitUnbuffered` says whether
    `async_commit` writes the (never filled) internal buffer again when the writer is not
    buffered — it does in the pinned tree (the sync `commit` returns early instead). -/
def aReplyErr (cfg : Cfg) (unique : Nat) (e : IoErr) (commitUnbuffered : Bool) : AOut × Ret :=
  if OUT_HDR > cfg.cap then ({}, .err .encodeMessage)
  else
    let h := outHeader OUT_HDR (errField e) unique
    if cfg.fusedev then
      if commitUnbuffered then
        ({ sys := [h, (List.range OUT_HDR).map fillByte], pw := [true, true] }, .ok OUT_HDR)
      else ({ sys := [h], pw := [true] }, .ok OUT_HDR)
    else ({ placed := [(0, h)] }, .ok OUT_HDR)

structure ARes where
  calls : List Call := []
  out : AOut := {}
  ret : Ret := .ok 0
  minor : Nat := 33
  allocs : List Nat := []
  deriving Repr, Inhabited

def ofSync (r : Res) : ARes :=
  { calls := r.calls, ret := r.ret, minor := r.minor, allocs := r.allocs,
    out := { sys := r.out.sys, pw := r.out.sys.map (fun _ => false), placed := r.out.placed } }

/-- whether `FuseDevWriter::async_commit` lacks the `!buffered` early return (pinned tree: yes) -/
def COMMIT_UNBUFFERED : Bool := true

def aFinish (cfg : Cfg) (unique : Nat) (calls : List Call) (allocs : List Nat) (a : Ans)
    (okBody : Ans → Option (Bytes × Bytes)) : ARes :=
  match a with
  | .err e =>
    let (o, r) := aReplyErr cfg unique e COMMIT_UNBUFFERED
    { calls := calls, out := o, ret := r, minor := cfg.minor, allocs := allocs }
  | a =>
    match okBody a with
    | some (body, data) =>
      let (o, r) := aReplyOk cfg unique body data
      { calls := calls, out := o, ret := r, minor := cfg.minor, allocs := allocs }
    | none =>
      let (o, r) := aReplyErr cfg unique (.os ENOSYS) COMMIT_UNBUFFERED
      { calls := calls, out := o, ret := r, minor := cfg.minor, allocs := allocs }

def aBail (cfg : Cfg) (calls : List Call) (allocs : List Nat) (e : SrvErr) : ARes :=
  { calls := calls, ret := .err e, minor := cfg.minor, allocs := allocs }

def asyncOps : List Nat := [1, 3, 4, 14, 15, 16, 20, 30, 35, 43]

def handleBodyA (cfg : Cfg) (fs : Call → Ans) (ctx : Ctx) (calls0 : List Call)
    (hdrLen op unique nodeid : Nat) (r : Bytes) : ARes :=
  let mk (m : String) (args : List Arg) : Call := { method := m, ctx := ctx, args := args }
  let simple (c : Call) (allocs : List Nat) (okb : Ans → Option (Bytes × Bytes)) : ARes :=
    aFinish cfg unique (calls0 ++ [c]) allocs (fs c) okb
  let withObj (n : Nat) (k : Bytes → ARes) : ARes :=
    if r.length < n then aBail cfg calls0 [] .decodeMessage else k (r.take n)
  let named (sub : Nat) (k : Bytes → List Nat → ARes) : ARes :=
    match getBody hdrLen sub (r.drop sub) with
    | .error e => aBail cfg calls0 [] e
    | .ok (body, n) =>
      match cstr body with
      | none =>
        let (o, _) := aReplyErr cfg unique (.os EINVAL) COMMIT_UNBUFFERED
        { calls := calls0, out := o, ret := .err .invalidCString, minor := cfg.minor, allocs := [n] }
      | some name => k name [n]
  match op with
  | 1 =>
    named 0 fun name al =>
      let c := mk "lookup" [.n nodeid, .bytes name]
      match fs c with
      | .entry e =>
        if cfg.minor < 4 && e.inode == 0 then
          let (o, rt) := aReplyErr cfg unique (.os ENOENT) COMMIT_UNBUFFERED
          { calls := calls0 ++ [c], out := o, ret := rt, minor := cfg.minor, allocs := al }
        else aFinish cfg unique (calls0 ++ [c]) al (.entry e) entryBody
      | a => aFinish cfg unique (calls0 ++ [c]) al a entryBody
  | 3 =>
    withObj 16 fun b =>
      let fh := if u32At b 0 &&& GETATTR_FH != 0 then some (u64At b 8) else none
      simple (mk "getattr" [.n nodeid, .optN fh]) [] attrBody
  | 4 =>
    withObj 88 fun b =>
      let s := setattrOf b
      let fh := if s.valid &&& FATTR_FH != 0 then some s.fh else none
      simple (mk "setattr" [.n nodeid, .stat (statOfSetattr s), .optN fh, .n (s.valid &&& SETATTR_VALID_MASK)]) [] attrBody
  | 14 =>
    withObj 8 fun b =>
      simple (mk "open" [.n nodeid, .n (u32At b 0), .n (u32At b 4)]) [] fun
        | .opened fh opts _ => some (openOutBytes fh opts none, [])
        | _ => none
  | 15 =>
    withObj 40 fun b =>
      let owner := if u32At b 20 &&& READ_LOCKOWNER != 0 then some (u64At b 24) else none
      if cfg.cap < OUT_HDR then aBail cfg calls0 [] .invalidHeaderLength
      else
        let c := mk "read" [.n nodeid, .n (u64At b 0), .n (u32At b 16), .n (u64At b 8), .optN owner, .n (u32At b 32)]
        let dataCap := cfg.cap - OUT_HDR
        let errReply (e : IoErr) : ARes :=
          let h := outHeader OUT_HDR (errField e) unique
          { calls := calls0 ++ [c], ret := .ok OUT_HDR, minor := cfg.minor,
            out := if cfg.fusedev then { sys := [h], pw := [true] } else { placed := [(0, h)] } }
        match fs c with
        | .data d =>
          if d.length > dataCap then errReply (.kind "InvalidData")
          else
            let len := (OUT_HDR + d.length) % 2 ^ 32
            let h := outHeader len 0 unique
            { calls := calls0 ++ [c], ret := .ok len, minor := cfg.minor,
              out := if cfg.fusedev then { sys := [h ++ d], pw := [d.isEmpty] }
                     else { placed := (if d.isEmpty then [] else [(OUT_HDR, d)]) ++ [(0, h)] } }
        | .err e => errReply e
        | _ => errReply (.os ENOSYS)
  | 16 =>
    withObj 40 fun b =>
      let fuseFlags := u32At b 20
      let size := u32At b 16
      if size > MAX_BUFFER_SIZE then
        let (o, rt) := aReplyErr cfg unique (.os ENOMEM) COMMIT_UNBUFFERED
        { calls := calls0, out := o, ret := rt, minor := cfg.minor }
      else
        let owner := if fuseFlags &&& WRITE_LOCKOWNER != 0 then some (u64At b 24) else none
        let payload := (r.drop 40).take size
        simple (mk "write" [.n nodeid, .n (u64At b 0), .bytes payload, .n size, .n (u64At b 8), .optN owner,
                            .b (fuseFlags &&& WRITE_CACHE != 0), .n (u32At b 32), .n fuseFlags]) [] fun
          | .count n => some (le32 n ++ le32 0, [])
          | _ => none
  | 20 =>
    withObj 16 fun b =>
      simple (mk "fsync" [.n nodeid, .b (u32At b 8 &&& 1 != 0), .n (u64At b 0)]) [] unitBody
  | 30 =>
    withObj 16 fun b =>
      simple (mk "fsyncdir" [.n nodeid, .b (u32At b 8 &&& 1 != 0), .n (u64At b 0)]) [] unitBody
  | 35 =>
    withObj 16 fun b => named 16 fun name al =>
      simple (mk "create" [.n nodeid, .bytes name, .create (u32At b 0) (u32At b 4) (u32At b 8) (u32At b 12)]) al fun
        | .created e fh opts _ => some (entryOutBytes (entryOutOfEntry e), openOutBytes fh opts none)
        | _ => none
  | 43 =>
    withObj 32 fun b =>
      simple (mk "fallocate" [.n nodeid, .n (u64At b 0), .n (u32At b 24), .n (u64At b 8), .n (u64At b 16)]) [] unitBody
  | _ => ofSync (Srv.handleBody cfg fs ctx calls0 hdrLen op unique nodeid r)

/-- opcodes the async dispatcher routes to a synchronous handler or to the no-reply group -/
def syncRouted (op : Nat) : Bool :=
  [2, 5, 6, 8, 9, 10, 11, 12, 13, 17, 18, 21, 22, 23, 24, 25, 26, 27, 28, 29, 31, 32, 33, 34, 36, 37, 38,
   39, 40, 41, 42, 44, 45, 46, 48, 49].contains op

/-- `Server::async_handle_message` -/
def handle (cfg : Cfg) (fs : Call → Ans) (req : Bytes) : ARes :=
  if req.length < IN_HDR then { ret := .err .decodeMessage, minor := cfg.minor }
  else
    let h := req.take IN_HDR
    let r := req.drop IN_HDR
    let hdrLen := u32At h 0
    let op := u32At h 4
    let unique := u64At h 8
    let nodeid := u64At h 16
    let ctx0 := ctxOfHeader h
    let remap : Call := { method := "id_remap", ctx := ctx0, args := [.n nodeid] }
    match fs remap with
    | .err _ => { calls := [remap], ret := .err .failedToRemapID, minor := cfg.minor }
    | a =>
      let ctx := match a with
        | .remapSet u g => { ctx0 with uid := u, gid := g }
        | _ => ctx0
      if hdrLen > MAX_BUFFER_SIZE + BUFFER_HEADER_SIZE || cfg.cap < OUT_HDR then
        let (o, rt) := aReplyErr cfg unique (.os ENOMEM) COMMIT_UNBUFFERED
        { calls := [remap], out := o, ret := rt, minor := cfg.minor }
      else if asyncOps.contains op || syncRouted op then
        handleBodyA cfg fs ctx [remap] hdrLen op unique nodeid r
      else
        let (o, rt) := aReplyErr cfg unique (.os ENOSYS) COMMIT_UNBUFFERED
        { calls := [remap], out := o, ret := rt, minor := cfg.minor }

end Fbr.SrvAsync
