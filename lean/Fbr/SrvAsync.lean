/-
  Fbr.SrvAsync — model of `Server::async_handle_message` (src/api/server/async_io.rs) over the
  same scripted file system.  Ten operations have async handlers, everything else falls
  through to the synchronous handlers of `Fbr.Srv`.

  On /dev/fuse the async writer uses `pwrite(fd, .., 0)` for single-buffer writes and `writev`
  for multi-buffer ones; `AOut.sys` lists the system calls in order and `AOut.pw` says, per call,
  whether it was a positional write (`true`) or a `writev` (`false`).  The bytes are what the
  client observes; `forget` drops the `pw` annotation to compare with the synchronous result.
-/
import Fbr.Srv

namespace Fbr.SrvAsync
open Fbr.Wire Fbr.Conv Fbr.Srv

structure AOut where
  sys : List Bytes := []
  pw : List Bool := []
  area : Bytes := []
  deriving Repr, DecidableEq, Inhabited

/-- what the harness pre-fills scratch / reply buffers with -/
def fillByte (i : Nat) : UInt8 := UInt8.ofNat ((i * 31 + 7) % 256)

/-- whether `FuseDevWriter::async_commit` lacks the `!buffered` early return (it did in the
    pinned tree — every unbuffered async error reply was followed by a second write of 16 stale
    buffer bytes; fixed, see known_findings.json) -/
def COMMIT_UNBUFFERED : Bool := false

def aEmit (cfg : Cfg) (msg : Bytes) (positional : Bool) : AOut :=
  if cfg.fusedev then { sys := [msg], pw := [positional] } else { area := msg }

/-- `async_reply_ok` on an unsplit writer -/
def aReplyOk (cfg : Cfg) (unique : Nat) (body data : Bytes) : AOut × Ret :=
  let len := OUT_HDR + body.length + data.length
  let msg := outHeader len 0 unique ++ body ++ data
  if len > cfg.cap then ({}, .err .encodeMessage)
  else (aEmit cfg msg (body.isEmpty && data.isEmpty), .ok len)

/-- `async_do_reply_error` on an unsplit, unbuffered writer -/
def aReplyErr (cfg : Cfg) (unique : Nat) (e : IoErr) : AOut × Ret :=
  if OUT_HDR > cfg.cap then ({}, .err .encodeMessage)
  else
    let h := outHeader OUT_HDR (errField e) unique
    if cfg.fusedev && COMMIT_UNBUFFERED then
      ({ sys := [h, (List.range OUT_HDR).map fillByte], pw := [true, true] }, .ok OUT_HDR)
    else (aEmit cfg h true, .ok OUT_HDR)

structure ARes where
  calls : List Call := []
  out : AOut := {}
  ret : Ret := .ok 0
  minor : Nat := 33
  allocs : List Nat := []
  deriving Repr, Inhabited

def ofSync (r : Res) : ARes :=
  { calls := r.calls, ret := r.ret, minor := r.minor, allocs := r.allocs,
    out := { sys := r.out.sys, pw := r.out.sys.map (fun _ => false), area := r.out.area } }

/-- what the client can observe of an async result -/
def forget (r : ARes) : Res :=
  { calls := r.calls, ret := r.ret, minor := r.minor, allocs := r.allocs,
    out := { sys := r.out.sys, area := r.out.area } }

def aErrRes (cfg : Cfg) (unique : Nat) (calls : List Call) (allocs : List Nat) (e : IoErr) : ARes :=
  { calls := calls, out := (aReplyErr cfg unique e).1, ret := (aReplyErr cfg unique e).2,
    minor := cfg.minor, allocs := allocs }

def aOkRes (cfg : Cfg) (unique : Nat) (calls : List Call) (allocs : List Nat) (body data : Bytes) : ARes :=
  { calls := calls, out := (aReplyOk cfg unique body data).1, ret := (aReplyOk cfg unique body data).2,
    minor := cfg.minor, allocs := allocs }

def aFinish (cfg : Cfg) (unique : Nat) (calls : List Call) (allocs : List Nat) (a : Ans)
    (okBody : Ans → Option (Bytes × Bytes)) : ARes :=
  match a with
  | .err e => aErrRes cfg unique calls allocs e
  | a =>
    match okBody a with
    | some (body, data) => aOkRes cfg unique calls allocs body data
    | none => aErrRes cfg unique calls allocs (.os ENOSYS)

def aBail (cfg : Cfg) (calls : List Call) (allocs : List Nat) (e : SrvErr) : ARes :=
  { calls := calls, ret := .err e, minor := cfg.minor, allocs := allocs }

def asyncOps : List Nat := [1, 3, 4, 14, 15, 16, 20, 30, 35, 43]

def aSimple (cfg : Cfg) (fs : Call → Ans) (unique : Nat) (calls0 : List Call) (c : Call)
    (allocs : List Nat) (okb : Ans → Option (Bytes × Bytes)) : ARes :=
  aFinish cfg unique (calls0 ++ [c]) allocs (fs c) okb

def aWithObj (cfg : Cfg) (calls0 : List Call) (r : Bytes) (n : Nat) (k : Bytes → ARes) : ARes :=
  if r.length < n then aBail cfg calls0 [] .decodeMessage else k (r.take n)

def aNamed (cfg : Cfg) (unique : Nat) (calls0 : List Call) (hdrLen : Nat) (r : Bytes) (sub : Nat)
    (k : Bytes → List Nat → ARes) : ARes :=
  match getBody hdrLen sub (r.drop sub) with
  | .error e => aBail cfg calls0 [] e
  | .ok (body, n) =>
    match cstr body with
    | none => { aErrRes cfg unique calls0 [n] (.os EINVAL) with ret := .err .invalidCString }
    | some name => k name [n]

def aLookupReply (cfg : Cfg) (unique : Nat) (calls : List Call) (al : List Nat) (a : Ans) : ARes :=
  match a with
  | .entry e =>
    if cfg.minor < 4 && e.inode == 0 then aErrRes cfg unique calls al (.os ENOENT)
    else aFinish cfg unique calls al (.entry e) entryBody
  | a => aFinish cfg unique calls al a entryBody

/-- replies through a writer split at the header: buffered, so one `pwrite` (header only) or one
    `writev` (header + data) at commit -/
def aSplitErr (cfg : Cfg) (unique : Nat) (calls : List Call) (e : IoErr) : ARes :=
  { calls := calls, ret := .ok OUT_HDR, minor := cfg.minor,
    out := aEmit cfg (outHeader OUT_HDR (errField e) unique) true }

def aSplitOk (cfg : Cfg) (unique : Nat) (calls : List Call) (payload : Bytes) : ARes :=
  { calls := calls, ret := .ok ((OUT_HDR + payload.length) % 2 ^ 32), minor := cfg.minor,
    out := aEmit cfg (outHeader ((OUT_HDR + payload.length) % 2 ^ 32) 0 unique ++ payload) payload.isEmpty }

def aReadReply (cfg : Cfg) (unique : Nat) (calls : List Call) (a : Ans) : ARes :=
  match a with
  | .data d =>
    if d.length > cfg.cap - OUT_HDR then aSplitErr cfg unique calls (.kind "InvalidData")
    else aSplitOk cfg unique calls d
  | .err e => aSplitErr cfg unique calls e
  | _ => aSplitErr cfg unique calls (.os ENOSYS)

/-- the async trait cannot return a passthrough id -/
def openBodyA : Ans → Option (Bytes × Bytes)
  | .opened fh opts _ => some (openOutBytes fh opts none, [])
  | _ => none

def createBodyA : Ans → Option (Bytes × Bytes)
  | .created e fh opts _ => some (entryOutBytes (entryOutOfEntry e), openOutBytes fh opts none)
  | _ => none

def handleBodyA (cfg : Cfg) (fs : Call → Ans) (ctx : Ctx) (calls0 : List Call)
    (hdrLen op unique nodeid : Nat) (r : Bytes) : ARes :=
  match op with
  | 1 =>
    aNamed cfg unique calls0 hdrLen r 0 fun name al =>
      aLookupReply cfg unique (calls0 ++ [mkCall ctx "lookup" [.n nodeid, .bytes name]]) al
        (fs (mkCall ctx "lookup" [.n nodeid, .bytes name]))
  | 3 =>
    aWithObj cfg calls0 r 16 fun b =>
      aSimple cfg fs unique calls0 (mkCall ctx "getattr" [.n nodeid,
        .optN (if u32At b 0 &&& GETATTR_FH != 0 then some (u64At b 8) else none)]) [] attrBody
  | 4 =>
    aWithObj cfg calls0 r 88 fun b =>
      aSimple cfg fs unique calls0 (mkCall ctx "setattr" [.n nodeid, .stat (statOfSetattr (setattrOf b)),
        .optN (if (setattrOf b).valid &&& FATTR_FH != 0 then some (setattrOf b).fh else none),
        .n ((setattrOf b).valid &&& SETATTR_VALID_MASK)]) [] attrBody
  | 14 =>
    aWithObj cfg calls0 r 8 fun b =>
      aSimple cfg fs unique calls0 (mkCall ctx "open" [.n nodeid, .n (u32At b 0), .n (u32At b 4)]) [] openBodyA
  | 15 =>
    aWithObj cfg calls0 r 40 fun b =>
      if cfg.cap < OUT_HDR then aBail cfg calls0 [] .invalidHeaderLength
      else
        aReadReply cfg unique (calls0 ++ [mkCall ctx "read" [.n nodeid, .n (u64At b 0), .n (u32At b 16), .n (u64At b 8),
            .optN (if u32At b 20 &&& READ_LOCKOWNER != 0 then some (u64At b 24) else none), .n (u32At b 32)]])
          (fs (mkCall ctx "read" [.n nodeid, .n (u64At b 0), .n (u32At b 16), .n (u64At b 8),
            .optN (if u32At b 20 &&& READ_LOCKOWNER != 0 then some (u64At b 24) else none), .n (u32At b 32)]))
  | 16 =>
    aWithObj cfg calls0 r 40 fun b =>
      if u32At b 16 > MAX_BUFFER_SIZE then aErrRes cfg unique calls0 [] (.os ENOMEM)
      else
        aSimple cfg fs unique calls0 (mkCall ctx "write" [.n nodeid, .n (u64At b 0), .bytes ((r.drop 40).take (u32At b 16)),
          .n (u32At b 16), .n (u64At b 8),
          .optN (if u32At b 20 &&& WRITE_LOCKOWNER != 0 then some (u64At b 24) else none),
          .b (u32At b 20 &&& WRITE_CACHE != 0), .n (u32At b 32), .n (u32At b 20)]) [] fun
            | .count n => some (le32 n ++ le32 0, [])
            | _ => none
  | 20 =>
    aWithObj cfg calls0 r 16 fun b =>
      aSimple cfg fs unique calls0 (mkCall ctx "fsync" [.n nodeid, .b (u32At b 8 &&& 1 != 0), .n (u64At b 0)]) [] unitBody
  | 30 =>
    aWithObj cfg calls0 r 16 fun b =>
      aSimple cfg fs unique calls0 (mkCall ctx "fsyncdir" [.n nodeid, .b (u32At b 8 &&& 1 != 0), .n (u64At b 0)]) [] unitBody
  | 35 =>
    aWithObj cfg calls0 r 16 fun b => aNamed cfg unique calls0 hdrLen r 16 fun name al =>
      aSimple cfg fs unique calls0 (mkCall ctx "create" [.n nodeid, .bytes name, .create (u32At b 0) (u32At b 4) (u32At b 8) (u32At b 12)]) al createBodyA
  | 43 =>
    aWithObj cfg calls0 r 32 fun b =>
      aSimple cfg fs unique calls0 (mkCall ctx "fallocate" [.n nodeid, .n (u64At b 0), .n (u32At b 24), .n (u64At b 8), .n (u64At b 16)]) [] unitBody
  | _ => ofSync (Srv.handleBody cfg fs ctx calls0 hdrLen op unique nodeid r)

/-- opcodes the async dispatcher routes to a synchronous handler or to the no-reply group -/
def syncRouted (op : Nat) : Bool :=
  [2, 5, 6, 8, 9, 10, 11, 12, 13, 17, 18, 21, 22, 23, 24, 25, 26, 27, 28, 29, 31, 32, 33, 34, 36, 37, 38,
   39, 40, 41, 42, 44, 45, 46, 48, 49].contains op

def afterRemapA (cfg : Cfg) (fs : Call → Ans) (req : Bytes) (a : Ans) : ARes :=
  if hdrLenOf req > MAX_BUFFER_SIZE + BUFFER_HEADER_SIZE then
    if isForget (opOf req) then { calls := [remapCall req], ret := .err .invalidMessage, minor := cfg.minor }
    else aErrRes cfg (uniqueOf req) [remapCall req] [] (.os ENOMEM)
  else if asyncOps.contains (opOf req) || syncRouted (opOf req) then
    handleBodyA cfg fs (ctxAfterRemap req a) [remapCall req] (hdrLenOf req) (opOf req) (uniqueOf req)
      (nodeidOf req) (req.drop IN_HDR)
  else aErrRes cfg (uniqueOf req) [remapCall req] [] (.os ENOSYS)

/-- `Server::async_handle_message` -/
def handle (cfg : Cfg) (fs : Call → Ans) (req : Bytes) : ARes :=
  if req.length < IN_HDR then { ret := .err .decodeMessage, minor := cfg.minor }
  else
    match fs (remapCall req) with
    | .err _ => { calls := [remapCall req], ret := .err .failedToRemapID, minor := cfg.minor }
    | a => afterRemapA cfg fs req a

end Fbr.SrvAsync
