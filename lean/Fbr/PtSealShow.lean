/-
  Fbr.PtSealShow — parsing of `ptseal` case lines and canonical printing (driver side only).

  case line:  seal=0|1 no=0|1 [wb=0|1] dio=<align> files=<size,...> fal=<mode:errnoW:errnoR,...> ops=<op;...>
     ops:  op:<f>:<flags>                    OPEN
           cr:<f>:<flags>                    CREATE (f ≥ number of files: a new name)
           wr:<f>:<k>:<flags>:<len>:<off>    WRITE on the k-th handle (0 = handle value 0)
           sa:<f>:<k|->:<s|m|sm>:<size>      SETATTR (s = SIZE, m = MODE)
           fa:<f>:<k>:<mode>:<off>:<len>     FALLOCATE
           rl:<f>:<k>                        RELEASE
  output per op: ok[:n] | e<errno>, followed by ~<file>=<size> for every pre-existing file whose
  size changed
-/
import Fbr.Proto
import Fbr.PtSeal

namespace Fbr.PtSealShow
open Fbr.Proto Fbr.PtSeal

structure Run where
  st : St
  opened : Array Nat := #[]
  outs : Array String := #[]

def handleOf (r : Run) (k : Nat) : Nat := if k = 0 then 0 else r.opened.getD (k - 1) 0

def parseFal (s : String) : List (Nat × Nat × Nat) :=
  if s.isEmpty then [] else
  (s.splitOn ",").filterMap fun it =>
    match it.splitOn ":" with
    | [m, w, r] => match m.toNat?, w.toNat?, r.toNat? with
      | some a, some b, some c => some (a, b, c)
      | _, _, _ => none
    | _ => none

def parseReq (r : Run) (op : String) : Option (Req × Bool) :=   -- (request, yields a handle)
  let n (s : String) : Nat := s.toNat?.getD 0
  match op.splitOn ":" with
  | ["op", f, fl] => some (.opn (n f) (Flags.ofNat (n fl)), true)
  | ["cr", f, fl] => some (.create (n f) (Flags.ofNat (n fl)), true)
  | ["wr", f, k, fl, len, off] => some (.write (n f) (handleOf r (n k)) (Flags.ofNat (n fl)) (n len) (n off), false)
  | ["sa", f, k, v, size] =>
    let h := if k == "-" then none else some (handleOf r (n k))
    some (.setattr (n f) h (v.contains 's') (n size) (v.contains 'm'), false)
  | ["fa", f, k, mode, off, len] => some (.fallocate (n f) (handleOf r (n k)) (n mode) (n off) (n len), false)
  | ["rl", f, k] => some (.release (n f) (handleOf r (n k)), false)
  | _ => none

def stepOp (cfg : Cfg) (nfiles : Nat) (r : Run) (op : String) : Run :=
  match parseReq r op with
  | none => { r with outs := r.outs.push "bad-op" }
  | some (req, opens) =>
    let o := step cfg r.st req
    let res := match o.ret with
      | .ok v => if opens then "ok" else s!"ok:{v}"
      | .error e => s!"e{e}"
    let changes := (List.range nfiles).filterMap fun i =>
      if r.st.host.size i != o.st.host.size i then some s!"~{i}={(o.st.host.size i).getD 0}" else none
    let opened := match o.ret with
      | .ok v => if opens && !cfg.noOpen then r.opened.push v else r.opened
      | .error _ => r.opened
    { st := o.st, opened := opened, outs := r.outs.push (res ++ String.join changes) }

def runLine (line : String) : String :=
  let kv := tokens line
  let sizes := natList (getD kv "files")
  let fal := parseFal (getD kv "fal")
  let host : Host :=
    { size := fun i => sizes[i]?, dio := getNatD kv "dio" 512,
      falErr := fun m w => match fal.find? (·.1 == m) with
        | some (_, ew, er) => let e := if w then ew else er; if e == 0 then none else some e
        | none => some EOPNOTSUPP }
  let cfg : Cfg :=
    { sealed := getNatD kv "seal" 1 == 1, noOpen := getNatD kv "no" == 1,
      allowDirectIo := getNatD kv "adio" 1 == 1, writeback := (getNatD kv "wb" == 1) }
  let ops := (getD kv "ops").splitOn ";" |>.filter (!·.isEmpty)
  let r := ops.foldl (stepOp cfg sizes.length) ({ st := { host := host } } : Run)
  ";".intercalate r.outs.toList

end Fbr.PtSealShow
