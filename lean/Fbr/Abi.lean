/-
  Fbr.Abi — data types for the generated ABI tables and the `repr(C)` layout function.
  Hand-written; the tables themselves (`Fbr.Gen.*`) are regenerated from /repo's source and
  from the installed kernel header on every run.
-/
namespace Fbr.Abi

/-- A Rust field type as the translator sees it. -/
inductive Ty where
  | prim (bytes : Nat)            -- u8/i8 = 1, u16 = 2, u32/i32 = 4, u64/i64 = 8
  | struct (name : String)        -- another `#[repr(C)]` struct of the same table
  | array (elem : Ty) (len : Nat)
  | unknown (text : String)       -- anything the translator did not understand
  deriving Repr, DecidableEq, Inhabited

structure RStruct where
  name   : String
  repr   : String
  fields : List (String × Ty)
  deriving Repr, DecidableEq, Inhabited

/-- Kernel-side truth: the C compiler's `offsetof`/`sizeof` for every field. -/
structure KStruct where
  name   : String
  size   : Nat
  fields : List (String × Nat × Nat)     -- (name, offset, size); size 0 = flexible array
  deriving Repr, DecidableEq, Inhabited

def roundUp (n a : Nat) : Nat := if a = 0 then n else ((n + a - 1) / a) * a

/-- (size, alignment) of a type, with `fuel` bounding nesting depth.
    `none` when the type mentions an unknown struct or an unknown construct. -/
def sizeAlign (tbl : List RStruct) : Nat → Ty → Option (Nat × Nat)
  | _, .prim b => some (b, b)
  | 0, _ => none
  | _ + 1, .unknown _ => none
  | fuel + 1, .array e n => (sizeAlign tbl fuel e).map (fun (s, a) => (s * n, a))
  | fuel + 1, .struct nm =>
      match tbl.find? (·.name == nm) with
      | none => none
      | some st =>
        if st.repr != "repr(C)" then none else
        (st.fields.foldlM (fun (acc : Nat × Nat) (f : String × Ty) =>
            (sizeAlign tbl fuel f.2).map (fun (s, a) => (roundUp acc.1 a + s, max acc.2 a)))
          (0, 1)).map (fun (off, al) => (roundUp off al, al))

/-- `repr(C)` layout of a struct: list of (field name, offset, size) and total size. -/
def layout (tbl : List RStruct) (st : RStruct) : Option (List (String × Nat × Nat) × Nat) :=
  if st.repr != "repr(C)" then none else
  let rec go (fs : List (String × Ty)) (off al : Nat) (acc : List (String × Nat × Nat)) :
      Option (List (String × Nat × Nat) × Nat) :=
    match fs with
    | [] => some (acc.reverse, roundUp off al)
    | (n, t) :: rest => do
        let (s, a) ← sizeAlign tbl 4 t
        let o := roundUp off a
        go rest (o + s) (max al a) ((n, o, s) :: acc)
  go st.fields 0 1 []

/-- How a Rust structure is related to the kernel's. -/
inductive Mode where
  | exact                       -- same fields, offsets, widths, total size
  | prefixOf (compatSize : Nat) -- Rust struct is the kernel struct's first `compatSize` bytes
  | concat (second : String)    -- Rust struct ++ `second` is the kernel struct
  | flexTail                    -- kernel has a trailing flexible array member Rust omits
  deriving Repr, DecidableEq

structure Pair where
  rust    : String
  kernel  : String
  mode    : Mode := .exact
  /-- field renames (rust name, kernel name); offsets and widths must still agree -/
  renames : List (String × String) := []
  /-- kernel fields (in order) that one wider Rust field covers, e.g. u16+u16 under one u32 -/
  merged  : List (String × List String) := []
  deriving Repr, DecidableEq

def renameOf (p : Pair) (n : String) : String :=
  match p.renames.lookup n with
  | some k => k
  | none => n

/-- Collapse kernel fields listed in `merged` into one field named like the Rust field. -/
def mergeK (p : Pair) (ks : List (String × Nat × Nat)) : List (String × Nat × Nat) :=
  p.merged.foldl (fun acc (rn, parts) =>
    match parts with
    | [] => acc
    | first :: _ =>
      match acc.find? (·.1 == first) with
      | none => acc
      | some (_, off, _) =>
        let tot := (acc.filter (fun f => parts.contains f.1)).foldl (fun s f => s + f.2.2) 0
        let kept := acc.filter (fun f => !(parts.contains f.1) || f.1 == first)
        kept.map (fun f => if f.1 == first then (rn, off, tot) else f)) ks

def dropFlex (ks : List (String × Nat × Nat)) : List (String × Nat × Nat) :=
  ks.filter (fun f => f.2.2 != 0)

/-- The check for one pair: `true` iff layouts agree in the pair's mode. -/
def pairOk (rtbl : List RStruct) (ktbl : List KStruct) (p : Pair) : Bool :=
  match rtbl.find? (·.name == p.rust), ktbl.find? (·.name == p.kernel) with
  | some r, some k =>
    match layout rtbl r with
    | none => false
    | some (rl, rsize) =>
      let rl' := rl.map (fun f => (renameOf p f.1, f.2.1, f.2.2))
      let kl := mergeK p k.fields
      match p.mode with
      | .exact => rl' == kl && rsize == k.size
      | .flexTail => rl' == dropFlex kl && rsize == k.size
      | .prefixOf c => rsize == c && rl' == kl.filter (fun f => f.2.1 + f.2.2 ≤ c)
                        && (kl.filter (fun f => f.2.1 + f.2.2 ≤ c)).length == rl'.length
      | .concat s2 =>
        match rtbl.find? (·.name == s2) with
        | none => false
        | some r2 =>
          match layout rtbl r2 with
          | none => false
          | some (rl2, rsize2) =>
            let shifted := rl2.map (fun f => (renameOf p f.1, f.2.1 + rsize, f.2.2))
            (rl' ++ shifted) == kl && rsize + rsize2 == k.size
  | _, _ => false

end Fbr.Abi
