/-
  Helper lemmas for C04: memory updates seen pointwise (`Mem.byteAt` after `Mem.write`), and the
  effect of the copy-in loop on memory.
-/
import Fbr.Lemmas.XportBytes

namespace Fbr.Xport

theorem lookup_filter_ne (l : List (Nat × Bytes)) (r x : Nat) (h : x ≠ r) :
    (l.filter fun e => e.1 != r).lookup x = l.lookup x := by
  induction l with
  | nil => rfl
  | cons e rest ih =>
    obtain ⟨k, v⟩ := e
    by_cases hk : k = r
    · subst hk
      have : (x == k) = false := by simp [h]
      simp [List.filter, List.lookup, this, ih]
    · have hk' : (k != r) = true := by simp [hk]
      simp only [List.filter, hk', List.lookup]
      cases hx : x == k <;> simp [ih]

theorem get_set_same (m : Mem) (r : Nat) (bs : Bytes) : (m.set r bs).get r = bs := by
  simp [Mem.get, Mem.set, List.lookup]

theorem get_set_other (m : Mem) (r x : Nat) (bs : Bytes) (h : x ≠ r) : (m.set r bs).get x = m.get x := by
  have : (x == r) = false := by simp [h]
  simp [Mem.get, Mem.set, List.lookup, this, lookup_filter_ne _ _ _ h]

theorem length_writeAt (bs : Bytes) (off : Nat) (d : Bytes) (h : off + d.length ≤ bs.length) :
    (writeAt bs off d).length = bs.length := by
  simp [writeAt]; omega

theorem getD_writeAt (bs : Bytes) (off : Nat) (d : Bytes) (h : off + d.length ≤ bs.length) (i : Nat) :
    (writeAt bs off d).getD i 0 = if off ≤ i ∧ i < off + d.length then d.getD (i - off) 0 else bs.getD i 0 := by
  simp only [writeAt, List.getD_eq_getElem?_getD, List.append_assoc]
  by_cases h1 : i < off
  · rw [List.getElem?_append_left (by simp; omega)]
    simp [List.getElem?_take, h1]
    intro h2; omega
  · rw [List.getElem?_append_right (by simp; omega)]
    simp only [List.length_take, Nat.min_eq_left (show off ≤ bs.length by omega)]
    by_cases h2 : i < off + d.length
    · rw [List.getElem?_append_left (by omega)]
      simp [show off ≤ i by omega, h2]
    · rw [List.getElem?_append_right (by omega)]
      simp only [List.getElem?_drop]
      have : ¬ (off ≤ i ∧ i < off + d.length) := by omega
      simp only [this, if_false]
      congr 2; omega

/-- writing `d` at `(r, off)` (inside the region) changes exactly those bytes -/
theorem byteAt_write (m : Mem) (r off : Nat) (d : Bytes) (h : off + d.length ≤ (m.get r).length) (a : Addr) :
    (m.write r off d).byteAt a =
      if a.1 = r ∧ off ≤ a.2 ∧ a.2 < off + d.length then d.getD (a.2 - off) 0 else m.byteAt a := by
  unfold Mem.write Mem.byteAt
  by_cases hr : a.1 = r
  · rw [hr, get_set_same, getD_writeAt _ _ _ h]
    simp
  · rw [get_set_other _ _ _ _ hr]
    simp [hr]

theorem length_get_write (m : Mem) (r off : Nat) (d : Bytes) (h : off + d.length ≤ (m.get r).length) (x : Nat) :
    ((m.write r off d).get x).length = (m.get x).length := by
  unfold Mem.write
  by_cases hx : x = r
  · rw [hx, get_set_same, length_writeAt _ _ _ h]
  · rw [get_set_other _ _ _ _ hx]

theorem writeAt_nil (bs : Bytes) (off : Nat) : writeAt bs off [] = bs := by
  simp [writeAt]

/-- variants that also cover the empty write at any offset -/
theorem byteAt_write' (m : Mem) (r off : Nat) (d : Bytes) (h : d = [] ∨ off + d.length ≤ (m.get r).length) (a : Addr) :
    (m.write r off d).byteAt a =
      if a.1 = r ∧ off ≤ a.2 ∧ a.2 < off + d.length then d.getD (a.2 - off) 0 else m.byteAt a := by
  rcases h with h | h
  · subst h
    have : ¬ (a.1 = r ∧ off ≤ a.2 ∧ a.2 < off + ([] : Bytes).length) := by
      simp only [List.length_nil, Nat.add_zero]; omega
    simp only [this, if_false]
    unfold Mem.write Mem.byteAt
    rw [writeAt_nil]
    by_cases hr : a.1 = r
    · rw [hr, get_set_same]
    · rw [get_set_other _ _ _ _ hr]
  · exact byteAt_write m r off d h a

theorem length_get_write' (m : Mem) (r off : Nat) (d : Bytes) (h : d = [] ∨ off + d.length ≤ (m.get r).length) (x : Nat) :
    ((m.write r off d).get x).length = (m.get x).length := by
  rcases h with h | h
  · subst h
    unfold Mem.write
    rw [writeAt_nil]
    by_cases hx : x = r
    · rw [hx, get_set_same]
    · rw [get_set_other _ _ _ _ hx]
  · exact length_get_write m r off d h x

theorem mk_mem_segAddrs (s : Seg) (j : Nat) (h : j < s.len) : (s.region, s.off + j) ∈ segAddrs s :=
  mem_segAddrs.mpr ⟨rfl, Nat.le_add_right _ _, Nat.add_lt_add_left h _⟩

end Fbr.Xport
