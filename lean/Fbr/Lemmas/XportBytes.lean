/-
  Helper lemmas for C04: content level.  Under `InMem` (the addresses lie inside their regions)
  the content of a buffer list is its flat address list read through memory, and `Reader::read`
  returns exactly those bytes.
-/
import Fbr.Lemmas.XportRes

namespace Fbr.Xport

/-- all addresses lie inside their regions -/
def InMem (m : Mem) (A : List Addr) : Prop := ∀ a ∈ A, a.2 < (m.get a.1).length

theorem InMem.take {m : Mem} {A : List Addr} (h : InMem m A) (n : Nat) : InMem m (A.take n) :=
  fun a ha => h a (List.mem_of_mem_take ha)

theorem InMem.drop {m : Mem} {A : List Addr} (h : InMem m A) (n : Nat) : InMem m (A.drop n) :=
  fun a ha => h a (List.mem_of_mem_drop ha)

theorem WF.inMem {m : Mem} {segs : List Seg} (h : WF m segs) : InMem m (addrs segs) := by
  intro a ha
  obtain ⟨s, hs1, hs2⟩ := mem_addrs.mp ha
  have := h s hs1
  rw [mem_segAddrs] at hs2
  rw [hs2.1]; omega

theorem readSeg_eq_map (m : Mem) (s : Seg) (h : InMem m (segAddrs s)) :
    readSeg m s = (segAddrs s).map m.byteAt := by
  by_cases h0 : s.len = 0
  · simp [readSeg, segAddrs, h0]
  · have hl : s.off + s.len ≤ (m.get s.region).length := by
      have := h (s.region, s.off + (s.len - 1)) (by
        rw [mem_segAddrs]; refine ⟨rfl, ?_, ?_⟩ <;> simp only <;> omega)
      simp only at this; omega
    apply List.ext_getElem
    · simp [readSeg, segAddrs]; omega
    · intro i h1 h2
      simp only [readSeg, segAddrs, List.length_map, List.length_range] at h1 h2
      simp only [readSeg, segAddrs, List.getElem_take, List.getElem_drop, List.getElem_map, List.getElem_range,
        Mem.byteAt]
      rw [List.getD_eq_getElem?_getD, List.getElem?_eq_getElem (by omega)]
      rfl

theorem flat_eq_map (m : Mem) (segs : List Seg) (h : InMem m (addrs segs)) :
    flat m segs = (addrs segs).map m.byteAt := by
  induction segs with
  | nil => rfl
  | cons s rest ih =>
    simp only [flat, addrs, List.map_append]
    rw [readSeg_eq_map m s (fun a ha => h a (by simp [addrs, ha])), ih (fun a ha => h a (by simp [addrs, ha]))]

/-- the bytes `copyOut` returns are the bytes at the first `rem` addresses -/
theorem copyOut_bytes (w : World) (bufs : List Seg) (rem : Nat) (h : InMem w.mem (addrs bufs)) :
    (copyOut w bufs rem).2.1 = ((addrs bufs).take rem).map w.mem.byteAt := by
  induction bufs generalizing w rem with
  | nil => simp [copyOut, addrs]
  | cons s rest ih =>
    simp only [copyOut]
    have h1 : InMem w.mem (segAddrs { s with len := min rem s.len }) := by
      rw [take_min_segAddrs]; exact fun a ha => h a (by simp [addrs, List.mem_of_mem_take ha])
    have := ih { w with log := w.log ++ [{ region := s.region, off := s.off, len := min rem s.len, write := false }] }
      (rem - min rem s.len) (fun a ha => h a (by simp [addrs, ha]))
    simp only at this
    rw [this, readSeg_eq_map _ _ h1, take_min_segAddrs, ← List.map_append, take_cons_addrs]

/-- `Reader::read(buf)`: the bytes copied are the next `n` bytes of the flat content, memory is
    untouched -/
theorem read_bytes (b : IoBufs) (w : World) (n : Nat) (h : InMem w.mem (addrs b.segs)) :
    (Reader.read b w n).aux = (flat w.mem b.segs).take n ∧ (Reader.read b w n).w.mem = w.mem := by
  rw [flat_eq_map _ _ h, ← List.map_take]
  unfold Reader.read consume
  by_cases he : (allocate b.segs n).isEmpty = true
  · simp only [he, if_true]
    have h0 := allocate_isEmpty_total _ _ he
    have : (addrs b.segs).take n = [] := by
      rw [← take_min_total, h0]; rfl
    simp [this]
  · simp only [he, Bool.false_eq_true, if_false]
    have hb := copyOut_bytes w (allocate b.segs n) n (by rw [addrs_allocate]; exact h.take n)
    have hs := copyOut_spec w (allocate b.segs n) n
    rcases hc : copyOut w (allocate b.segs n) n with ⟨w1, bs, t⟩
    rw [hc] at hb hs
    simp only at hb hs ⊢
    rw [addrs_allocate, List.take_take, Nat.min_self] at hb
    cases hm : b.markUsed t with
    | error e => exact ⟨hb, hs.2.1⟩
    | ok b' => exact ⟨hb, hs.2.1⟩

/-- a run of `read` calls with buffer sizes `ns` -/
def readMany (b : IoBufs) (w : World) : List Nat → List Bytes × IoBufs × World
  | [] => ([], b, w)
  | n :: rest =>
    let o := Reader.read b w n
    let (outs, b', w') := readMany o.b o.w rest
    (o.aux :: outs, b', w')

theorem drop_min_total (segs : List Seg) (n : Nat) :
    (addrs segs).drop (min n (total segs)) = (addrs segs).drop n := by
  by_cases h : n ≤ total segs
  · rw [Nat.min_eq_left h]
  · rw [Nat.min_eq_right (by omega), List.drop_of_length_le (by simp), List.drop_of_length_le (by simp; omega)]

theorem readMany_spec (b : IoBufs) (w : World) (ns : List Nat) (h : InMem w.mem (addrs b.segs))
    (hov : b.consumed + total b.segs < USIZE) :
    (readMany b w ns).1.flatten ++ flat w.mem (readMany b w ns).2.1.segs = flat w.mem b.segs
      ∧ (readMany b w ns).2.1.consumed = b.consumed + (readMany b w ns).1.flatten.length
      ∧ (readMany b w ns).2.2.mem = w.mem := by
  induction ns generalizing b w with
  | nil => simp [readMany]
  | cons n rest ih =>
    obtain ⟨hb, hm⟩ := read_bytes b w n h
    obtain ⟨k, _, hadv, hok, _⟩ := read_advBy b w n hov
    have hk : k = min n (total b.segs) := (hok _ (read_res b w n hov)).symm
    have hinv := hadv.inv
    obtain ⟨_, _, _, _, _, _, h7, h8⟩ := hadv
    have hA : addrs (Reader.read b w n).b.segs = (addrs b.segs).drop n := by
      rw [h7, hk, drop_min_total]
    have hin : InMem (Reader.read b w n).w.mem (addrs (Reader.read b w n).b.segs) := by
      rw [hm, hA]; exact h.drop n
    obtain ⟨i1, i2, i3⟩ := ih (Reader.read b w n).b (Reader.read b w n).w hin (by rw [hinv]; exact hov)
    have hF : flat w.mem (Reader.read b w n).b.segs = (flat w.mem b.segs).drop n := by
      rw [flat_eq_map _ _ (by rw [← hm]; exact hin), flat_eq_map _ _ h, hA, List.map_drop]
    have hlen : (Reader.read b w n).aux.length = k := by
      rw [hb, flat_eq_map _ _ h]; simp; omega
    simp only [readMany, List.flatten_cons, List.append_assoc, List.length_append]
    rw [hm] at i1 i3
    refine ⟨?_, ?_, i3⟩
    · rw [i1, hF, hb, List.take_append_drop]
    · rw [i2, h8, hlen]; omega

end Fbr.Xport
