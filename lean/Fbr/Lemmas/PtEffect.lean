/-
  What `do_lookup` does to the stored entries (`data`) and to the `clobbered` ghost.
-/
import Fbr.PtRefs
import Fbr.Lemmas.PtMap
import Fbr.Lemmas.PtProj
import Fbr.Lemmas.PtRefsBasic

namespace Fbr.PtRefs

/-- the parts of the state the number allocator does not touch -/
structure AllocFrame (s s' : St) : Prop where
  data : s'.data = s.data
  clobbered : s'.clobbered = s.clobbered
  lookups : s'.lookups = s.lookups
  byId : s'.byId = s.byId
  byHandle : s'.byHandle = s.byHandle
  fds : s'.fds = s.fds
  mountRefs : s'.mountRefs = s.mountRefs
  handles : s'.handles = s.handles
  cookies : s'.cookies = s.cookies
  nextHandle : s'.nextHandle = s.nextHandle
  next : s.next ≤ s'.next

theorem AllocFrame.refl (s : St) : AllocFrame s s :=
  ⟨rfl, rfl, rfl, rfl, rfl, rfl, rfl, rfl, rfl, rfl, Nat.le_refl _⟩

theorem devUid_frame (s : St) (id : InodeId) : AllocFrame s (devUid s id).1 := by
  unfold devUid
  split
  · exact AllocFrame.refl s
  · split
    · exact AllocFrame.refl s
    · exact ⟨rfl, rfl, rfl, rfl, rfl, rfl, rfl, rfl, rfl, rfl, Nat.le_refl _⟩

theorem getUniqueInode_frame (s : St) (id : InodeId) : AllocFrame s (getUniqueInode s id).1 := by
  unfold getUniqueInode
  have h := devUid_frame s id
  split
  · rename_i s1 heq; rw [heq] at h; exact h
  · rename_i s1 uid heq
    rw [heq] at h
    split
    · exact h
    · split
      · exact h
      · exact ⟨h.data, h.clobbered, h.lookups, h.byId, h.byHandle, h.fds, h.mountRefs, h.handles,
          h.cookies, h.nextHandle, h.next⟩

theorem allocateInode_frame (e : Env) (s : St) (id : InodeId) (fh : Option FhId) :
    AllocFrame s (allocateInode e s id fh).1 := by
  have hu := getUniqueInode_frame s id
  unfold allocateInode
  split
  · split
    · exact AllocFrame.refl s
    · exact ⟨rfl, rfl, rfl, rfl, rfl, rfl, rfl, rfl, rfl, rfl, Nat.le_succ _⟩
  · split
    · split
      · exact AllocFrame.refl s
      · exact hu
    · exact hu

/-- without `use_host_ino` the number is the remembered one, or the next fresh one -/
theorem allocateInode_keep (e : Env) (hk : e.useHostIno = false) (s : St) (id : InodeId)
    (fh : Option FhId) :
    (∃ i, getInodeLocked s id fh = some i ∧ allocateInode e s id fh = (s, .ok i))
    ∨ (getInodeLocked s id fh = none
        ∧ allocateInode e s id fh = ({ s with next := s.next + 1 }, .ok s.next)) := by
  unfold allocateInode
  simp only [hk, Bool.not_false, if_true]
  cases h : getInodeLocked s id fh with
  | some i => exact Or.inl ⟨i, rfl, rfl⟩
  | none => exact Or.inr ⟨rfl, rfl⟩

theorem insertInode_maps (s : St) (ino : Ino) (d : IData) :
    (insertInode s ino d).byId = mput s.byId d.id ino
    ∧ (insertInode s ino d).byHandle = (match d.fh with
        | some h => mput s.byHandle h ino
        | none => s.byHandle)
    ∧ (insertInode s ino d).next = s.next ∧ (insertInode s ino d).lookups = s.lookups := by
  unfold insertInode
  cases h : mget s.data ino with
  | none => exact ⟨rfl, rfl, rfl, rfl⟩
  | some old =>
    have ht := tables_dropIData s old
    simp only
    refine ⟨by rw [byId_of_tables ht], ?_, by rw [next_of_tables ht], by rw [lookups_of_tables ht]⟩
    cases d.fh <;> simp [byHandle_of_tables ht]

@[simp] theorem insertInode_data (s : St) (ino : Ino) (d : IData) :
    (insertInode s ino d).data = mput s.data ino d := by
  unfold insertInode
  cases h : mget s.data ino with
  | none => simp
  | some old => simp [data_of_tables (tables_dropIData s old)]

@[simp] theorem insertInode_clobbered (s : St) (ino : Ino) (d : IData) :
    (insertInode s ino d).clobbered
      = (s.clobbered || (decide (ino ≠ ROOT_ID) && (mget s.data ino).isSome)) := by
  unfold insertInode
  cases h : mget s.data ino with
  | none => simp [h]
  | some old =>
    simp [h, data_of_tables (tables_dropIData s old), clob_of_tables (tables_dropIData s old)]

/-- how a `do_lookup` changes the inode store -/
def LkEff (e : Env) (s s' : St) (r : Except Errno Ino) : Prop :=
  (∃ er, r = .error er ∧ s'.data = s.data ∧ s'.clobbered = s.clobbered ∧ s'.lookups = s.lookups
      ∧ s'.byId = s.byId ∧ s'.byHandle = s.byHandle ∧ s.next ≤ s'.next)
  ∨ (∃ ino d, r = .ok ino ∧ mget s.data ino = some d
      ∧ s'.data = mput s.data ino { d with refs := satAdd d.refs 1 } ∧ s'.clobbered = s.clobbered
      ∧ s'.lookups = s.lookups + 1
      ∧ s'.byId = s.byId ∧ s'.byHandle = s.byHandle ∧ s'.next = s.next)
  ∨ (∃ ino d0, r = .ok ino ∧ d0.refs = 1 ∧ s'.data = mput s.data ino d0
      ∧ s'.clobbered = (s.clobbered || (decide (ino ≠ ROOT_ID) && (mget s.data ino).isSome))
      ∧ s'.lookups = s.lookups + 1
      ∧ s'.byId = mput s.byId d0.id ino
      ∧ s'.byHandle = (match d0.fh with
          | some h => mput s.byHandle h ino
          | none => s.byHandle)
      ∧ getAlt s d0.id d0.fh = none
      ∧ (e.useHostIno = false →
          (getInodeLocked s d0.id d0.fh = some ino ∧ s'.next = s.next)
          ∨ (getInodeLocked s d0.id d0.fh = none ∧ ino = s.next ∧ s'.next = s.next + 1)))

theorem LkEff.frame {e : Env} {s0 s s' s2 : St} {r : Except Errno Ino} (h : LkEff e s s' r)
    (h0 : s.tables = s0.tables) (h2 : s2.tables = s'.tables) : LkEff e s0 s2 r := by
  have d0 := data_of_tables h0; have c0 := clob_of_tables h0
  have d2 := data_of_tables h2; have c2 := clob_of_tables h2
  have l0 := lookups_of_tables h0; have l2 := lookups_of_tables h2
  have b0 := byId_of_tables h0; have b2 := byId_of_tables h2
  have y0 := byHandle_of_tables h0; have y2 := byHandle_of_tables h2
  have n0 := next_of_tables h0; have n2 := next_of_tables h2
  rcases h with ⟨er, a, b, c, l, x, y, z⟩ | ⟨ino, d, a, b, c, dd, l, x, y, z⟩
    | ⟨ino, d, a, b, c, dd, l, x, y, g, z⟩
  · exact Or.inl ⟨er, a, by rw [d2, b, d0], by rw [c2, c, c0], by rw [l2, l, l0], by rw [b2, x, b0],
      by rw [y2, y, y0], by rw [n2, ← n0]; exact z⟩
  · exact Or.inr (Or.inl ⟨ino, d, a, by rw [← d0, b], by rw [d2, c, d0], by rw [c2, dd, c0],
      by rw [l2, l, l0], by rw [b2, x, b0], by rw [y2, y, y0], by rw [n2, z, n0]⟩)
  · refine Or.inr (Or.inr ⟨ino, d, a, b, by rw [d2, c, d0], by rw [c2, dd, c0, d0], by rw [l2, l, l0],
      by rw [b2, x, b0], by rw [y2, y, y0], by rw [← getAlt_of_tables h0]; exact g, ?_⟩)
    intro hk
    rw [← getInodeLocked_of_tables h0, n2, ← n0]
    exact z hk

theorem LkEff.error_refl (e : Env) (s : St) (er : Errno) : LkEff e s s (.error er) :=
  Or.inl ⟨er, rfl, rfl, rfl, rfl, rfl, rfl, Nat.le_refl _⟩

theorem LkEff.of_tables {e : Env} {s s' : St} (er : Errno) (h : s'.tables = s.tables) :
    LkEff e s s' (.error er) :=
  Or.inl ⟨er, rfl, data_of_tables h, clob_of_tables h, lookups_of_tables h, byId_of_tables h,
    byHandle_of_tables h, by rw [next_of_tables h]; exact Nat.le_refl _⟩

theorem getAlt_data {s : St} {id : InodeId} {fh : Option FhId} {ino : Ino} {d : IData}
    (h : getAlt s id fh = some (ino, d)) : mget s.data ino = some d := by
  unfold getAlt at h
  have hh : ∀ h', getByHandle s h' = some (ino, d) → mget s.data ino = some d := by
    intro h' e
    unfold getByHandle at e
    split at e
    · cases e
    · rename_i i _
      cases hm : mget s.data i with
      | none => simp [hm] at e
      | some d' => simp [hm] at e; obtain ⟨a, b⟩ := e; subst a; subst b; exact hm
  have hi : getById s id = some (ino, d) → mget s.data ino = some d := by
    intro e
    unfold getById at e
    split at e
    · cases e
    · rename_i i _
      cases hm : mget s.data i with
      | none => simp [hm] at e
      | some d' => simp [hm] at e; obtain ⟨a, b⟩ := e; subst a; subst b; exact hm
  split at h
  · rename_i x hx
    cases h
    cases fh with
    | none => simp at hx
    | some h' => exact hh h' (by simpa using hx)
  · split at h
    · rename_i i d' hx
      split at h
      · cases h; exact hi hx
      · cases h
    · cases h

theorem lookupInsert_eff (e : Env) (s : St) (f : HFile) (hg : getAlt s f.id f.fh = none) :
    LkEff e s (lookupInsert e s f).1 (lookupInsert e s f).2 := by
  unfold lookupInsert
  have h1 := tables_toOpenable e s f.fh
  split
  · rename_i s1 er heq
    rw [heq] at h1
    exact LkEff.of_tables er (by rw [tables_freeFd]; exact h1)
  · rename_i s1 heq
    rw [heq] at h1
    have hfr := allocateInode_frame e s1 f.id f.fh
    have hkeep := fun hk => allocateInode_keep e hk s1 f.id f.fh
    have hd1 := data_of_tables h1
    have hc1 := clob_of_tables h1
    have herr : ∀ (s2 : St) (er : Errno), AllocFrame s1 s2 →
        LkEff e s (dropPending s2 f.fh) (.error er) := by
      intro s2 er hf
      exact Or.inl ⟨er, rfl, by rw [data_of_tables (tables_dropPending _ _), hf.data, hd1],
        by rw [clob_of_tables (tables_dropPending _ _), hf.clobbered, hc1],
        by rw [lookups_of_tables (tables_dropPending _ _), hf.lookups, lookups_of_tables h1],
        by rw [byId_of_tables (tables_dropPending _ _), hf.byId, byId_of_tables h1],
        by rw [byHandle_of_tables (tables_dropPending _ _), hf.byHandle, byHandle_of_tables h1],
        by rw [next_of_tables (tables_dropPending _ _), ← next_of_tables h1]; exact hf.next⟩
    split
    · rename_i s2 er heq2
      rw [heq2] at hfr
      exact herr s2 er hfr
    · rename_i s2 ino heq2
      rw [heq2] at hfr
      split
      · exact herr s2 EOTHER hfr
      · have hm := insertInode_maps s2 ino { id := f.id, fh := f.fh, refs := 1, safe := f.safe }
        refine Or.inr (Or.inr ⟨ino, { id := f.id, fh := f.fh, refs := 1, safe := f.safe }, rfl, rfl,
          ?_, ?_, ?_, ?_, ?_, hg, ?_⟩)
        · rw [data_of_tables (tables_settlePath _ _)]
          show (insertInode s2 ino { id := f.id, fh := f.fh, refs := 1, safe := f.safe }).data = _
          rw [insertInode_data, hfr.data, hd1]
        · rw [clob_of_tables (tables_settlePath _ _)]
          show (insertInode s2 ino { id := f.id, fh := f.fh, refs := 1, safe := f.safe }).clobbered = _
          rw [insertInode_clobbered, hfr.data, hfr.clobbered, hd1, hc1]
        · rw [lookups_of_tables (tables_settlePath _ _)]
          show s2.lookups + 1 = _
          rw [hfr.lookups, lookups_of_tables h1]
        · rw [byId_of_tables (tables_settlePath _ _)]
          show (insertInode s2 ino { id := f.id, fh := f.fh, refs := 1, safe := f.safe }).byId = _
          rw [hm.1, hfr.byId, byId_of_tables h1]
        · rw [byHandle_of_tables (tables_settlePath _ _)]
          show (insertInode s2 ino { id := f.id, fh := f.fh, refs := 1, safe := f.safe }).byHandle = _
          rw [hm.2.1, hfr.byHandle, byHandle_of_tables h1]
        · intro hk
          rw [next_of_tables (tables_settlePath _ _)]
          show _ ∨ (_ ∧ _ ∧ (insertInode s2 ino { id := f.id, fh := f.fh, refs := 1, safe := f.safe }).next = _)
          rw [hm.2.2.1, ← getInodeLocked_of_tables h1, ← next_of_tables h1]
          rcases hkeep hk with ⟨i, a, b⟩ | ⟨a, b⟩
          · rw [heq2] at b
            have e1 : s2 = s1 := (Prod.mk.inj b).1
            have e2 : ino = i := by have := (Prod.mk.inj b).2; cases this; rfl
            subst e1; subst e2
            exact Or.inl ⟨a, rfl⟩
          · rw [heq2] at b
            have e1 : s2 = { s1 with next := s1.next + 1 } := (Prod.mk.inj b).1
            have e2 : ino = s1.next := by have := (Prod.mk.inj b).2; cases this; rfl
            subst e2
            exact Or.inr ⟨a, rfl, by rw [e1]⟩

theorem lookupCore_eff (e : Env) (s : St) (f : HFile) :
    LkEff e s (lookupCore e s f).1 (lookupCore e s f).2 := by
  unfold lookupCore
  split
  · rename_i ino d hg
    refine Or.inr (Or.inl ⟨ino, d, rfl, getAlt_data hg, ?_, ?_, ?_, ?_, ?_, ?_⟩)
    · simp [data_of_tables (tables_freeFd _), setRefs]
    · simp [clob_of_tables (tables_freeFd _), setRefs]
    · simp [lookups_of_tables (tables_freeFd _)]
    · simp [byId_of_tables (tables_freeFd _), setRefs]
    · simp [byHandle_of_tables (tables_freeFd _), setRefs]
    · simp [next_of_tables (tables_freeFd _), setRefs]
  · rename_i hg
    exact lookupInsert_eff e s f hg

theorem doLookup_eff (e : Env) (s : St) (p : Ino) (pst : Bool) (a : HAns) :
    LkEff e s (doLookup e s p pst a).1 (doLookup e s p pst a).2 := by
  unfold doLookup
  split
  · exact LkEff.error_refl e s _
  · rename_i dir _
    have h1 := tables_getFile e s dir pst
    split
    · rename_i s1 er heq
      rw [heq] at h1
      exact LkEff.of_tables er h1
    · rename_i s1 heq
      rw [heq] at h1
      have h2 := tables_allocFd e s1
      split
      · rename_i s2 heq2
        rw [heq2] at h2
        exact LkEff.of_tables _ (by rw [tables_closeTemp, h2, h1])
      · rename_i s2 heq2
        rw [heq2] at h2
        split
        · exact LkEff.of_tables _ (by rw [tables_closeTemp, tables_freeFd, h2, h1])
        · rename_i f
          have := lookupCore_eff e s2 f
          split
          rename_i s3 r heq3
          rw [heq3] at this
          exact this.frame (by rw [h2, h1]) (tables_closeTemp _ _)

end Fbr.PtRefs
