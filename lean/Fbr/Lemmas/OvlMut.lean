/-
  Tools for re-establishing the cache invariant after one upper-layer entry changed:
  the kept indices are strictly increasing, `localExp` in index form, what a point update of the
  upper layer does to `nodeAt` / `realOf`, and the local frame lemma.
-/
import Fbr.Ovl
import Fbr.Lemmas.OvlExp
import Fbr.Lemmas.OvlSim
import Fbr.Lemmas.OvlLocal

namespace Fbr.Ovl

/-! ### kept indices are strictly increasing -/

theorem dirsIdx_sublist (d : Disk) (p : Path) : ∀ l, (dirsIdx d p l).Sublist l
  | [] => List.Sublist.slnil
  | i :: rest => by
    rw [dirsIdx]
    split
    · split
      · exact List.Sublist.cons_cons i (List.nil_sublist _)
      · exact List.Sublist.cons_cons i (dirsIdx_sublist d p rest)
    · exact List.nil_sublist _

theorem cutW_sublist (d : Disk) (p : Path) : ∀ l, (cutW d p l).Sublist l
  | [] => List.Sublist.slnil
  | i :: rest => by
    rw [cutW]
    split
    · exact List.Sublist.cons_cons i (dirsIdx_sublist d p rest)
    · exact List.Sublist.cons_cons i (List.nil_sublist _)

theorem expIdx_sublist (d : Disk) : ∀ p, (expIdx d p).Sublist d.indices
  | [] => List.Sublist.refl _
  | n :: pp => by
    rw [expIdx]
    exact ((cutW_sublist d _ _).trans List.filter_sublist).trans
      ((dirsIdx_sublist d pp _).trans (expIdx_sublist d pp))

theorem indices_sorted (d : Disk) : d.indices.Pairwise (· < ·) := by
  unfold Disk.indices
  have h2 : ((List.range d.lowers.length).map (· + 1)).Pairwise (· < ·) := by
    rw [List.pairwise_map]
    exact List.pairwise_lt_range.imp (by intro a b h; omega)
  cases d.upper with
  | none => simpa using h2
  | some L =>
    simp only [List.singleton_append, List.pairwise_cons]
    refine ⟨?_, h2⟩
    intro a ha
    simp only [List.mem_map] at ha
    obtain ⟨b, _, rfl⟩ := ha
    omega

theorem expIdx_sorted (d : Disk) (p : Path) : (expIdx d p).Pairwise (· < ·) :=
  (indices_sorted d).sublist (expIdx_sublist d p)

/-- only the head of a kept stack can be the upper layer -/
theorem tail_pos {l : List Nat} (h : l.Pairwise (· < ·)) {i : Nat} {rest : List Nat} (hl : l = i :: rest) :
    ∀ j ∈ rest, j ≠ 0 := by
  subst hl
  intro j hj
  have := (List.pairwise_cons.1 h).1 j hj
  omega

/-! ### `localExp` on index form -/

theorem localExp_realOf (d : Disk) (p : Path) (l : List Nat) (pm : MNode)
    (h : pm.reals = l.map (realOf d p)) (n : Name) :
    localExp d pm n =
      (cutW d (n :: p) ((dirsIdx d p l).filter fun i => !(d.nodeAt i (n :: p)).isAbsent)).map (realOf d (n :: p)) := by
  unfold localExp
  rw [h, takeDirs_realOf, filterMap_lookupChild d p n _ (dirsIdx_all_dirs d p l), ← newFromReals_realOf]
  generalize newFromReals d _ = x
  cases x <;> rfl

/-! ### a point update of the upper layer -/

/-- the disk with the upper-layer entry at `q` replaced by `X` -/
def Disk.setUpper (d : Disk) (q : Path) (X : Node) : Disk :=
  match d.upper with
  | some L => d.setLayer 0 (L.set q X)
  | none => d

theorem nodeAt_setUpper (d : Disk) (q : Path) (X : Node) (hu : d.upper.isSome) (i : Nat) (p : Path) :
    (d.setUpper q X).nodeAt i p = if i = 0 ∧ p = q then X else d.nodeAt i p := by
  unfold Disk.setUpper
  cases hup : d.upper with
  | none => rw [hup] at hu; cases hu
  | some L =>
    cases i with
    | zero =>
      simp only [Disk.nodeAt, Disk.layer, Disk.setLayer, Layer.set, true_and, hup]
    | succ j => simp [Disk.nodeAt, Disk.layer, Disk.setLayer]

theorem indices_setUpper (d : Disk) (q : Path) (X : Node) : (d.setUpper q X).indices = d.indices := by
  unfold Disk.setUpper
  cases hup : d.upper with
  | none => rfl
  | some L => simp [Disk.setLayer, Disk.indices, hup]

theorem lowers_setUpper (d : Disk) (q : Path) (X : Node) : (d.setUpper q X).lowers = d.lowers := by
  unfold Disk.setUpper
  cases hup : d.upper with
  | none => rfl
  | some L => simp [Disk.setLayer]

theorem nodeAt_setUpper_ne (d : Disk) (q : Path) (X : Node) (hu : d.upper.isSome) (i : Nat) (p : Path)
    (h : ¬(i = 0 ∧ p = q)) : (d.setUpper q X).nodeAt i p = d.nodeAt i p := by
  rw [nodeAt_setUpper d q X hu, if_neg h]

theorem realOf_setUpper_ne (d : Disk) (q : Path) (X : Node) (hu : d.upper.isSome) (i : Nat) (p : Path)
    (h : ¬(i = 0 ∧ p = q)) : realOf (d.setUpper q X) p i = realOf d p i := by
  simp [realOf, nodeAt_setUpper_ne d q X hu i p h]

/-! ### local frame -/

/-- same kind of entry: scanning cannot tell the two nodes apart -/
def sameShape (a b : Node) : Prop :=
  a.isAbsent = b.isAbsent ∧ a.isWhiteout = b.isWhiteout ∧ a.isDir = b.isDir ∧ a.isOpaqueDir = b.isOpaqueDir

theorem sameShape_refl (a : Node) : sameShape a a := ⟨rfl, rfl, rfl, rfl⟩

/-- two disks agree (up to attributes) on what scanning reads for the child `n` of a node with
    real inodes `rs` -/
def AgreeFor (d d' : Disk) (rs : List Real) (n : Name) : Prop :=
  ∀ r ∈ rs, sameShape (d'.nodeAt r.layer r.path) (d.nodeAt r.layer r.path) ∧
    sameShape (d'.nodeAt r.layer (n :: r.path)) (d.nodeAt r.layer (n :: r.path))

theorem takeDirs_agree (d d' : Disk) : ∀ rs : List Real,
    (∀ r ∈ rs, sameShape (d'.nodeAt r.layer r.path) (d.nodeAt r.layer r.path)) → takeDirs d' rs = takeDirs d rs
  | [], _ => rfl
  | r :: rest, h => by
    have h1 := (h r (by simp)).2.2.1
    have ih := takeDirs_agree d d' rest (fun x hx => h x (List.mem_cons_of_mem _ hx))
    rw [takeDirs, takeDirs, Disk.statReal, Disk.statReal, h1, ih]

theorem lookupChild_agree (d d' : Disk) (r : Real) (n : Name)
    (h : sameShape (d'.nodeAt r.layer (n :: r.path)) (d.nodeAt r.layer (n :: r.path))) :
    lookupChild d' r n = lookupChild d r n := by
  obtain ⟨ha, hw, _, ho⟩ := h
  simp only [lookupChild]
  split
  · rfl
  · cases h1 : d'.nodeAt r.layer (n :: r.path) <;> cases h2 : d.nodeAt r.layer (n :: r.path) <;>
      simp_all [Node.isAbsent, Node.isWhiteout, Node.isOpaqueDir]

theorem newFromReals_agree (d d' : Disk) (cs : List Real)
    (h : ∀ c ∈ cs, sameShape (d'.nodeAt c.layer c.path) (d.nodeAt c.layer c.path)) :
    newFromReals d' cs = newFromReals d cs := by
  cases cs with
  | nil => rfl
  | cons c rest =>
    have h1 := (h c (by simp)).2.2.1
    have h2 := takeDirs_agree d d' rest (fun x hx => h x (List.mem_cons_of_mem _ hx))
    rw [newFromReals, newFromReals, Disk.statReal, Disk.statReal, h1, h2]

theorem filterMap_congr' {α β : Type} {f g : α → Option β} : ∀ {l : List α}, (∀ x ∈ l, f x = g x) →
    l.filterMap f = l.filterMap g
  | [], _ => rfl
  | a :: rest, h => by
    simp only [List.filterMap_cons, h a (by simp)]
    rw [filterMap_congr' (fun x hx => h x (List.mem_cons_of_mem _ hx))]

/-- (local frame) scanning for a child only reads the kinds of the parent's real inodes and of
    their entries for that child -/
theorem localExp_agree (d d' : Disk) (pm : MNode) (n : Name) (h : AgreeFor d d' pm.reals n) :
    localExp d' pm n = localExp d pm n := by
  unfold localExp
  have h1 : takeDirs d' pm.reals = takeDirs d pm.reals := takeDirs_agree d d' _ (fun r hr => (h r hr).1)
  have h2 : (takeDirs d pm.reals).filterMap (lookupChild d' · n) = (takeDirs d pm.reals).filterMap (lookupChild d · n) :=
    filterMap_congr' fun r hr => lookupChild_agree d d' r n (h r (takeDirs_sub d _ r hr)).2
  rw [h1, h2]
  have h3 : newFromReals d' ((takeDirs d pm.reals).filterMap (lookupChild d · n)) =
      newFromReals d ((takeDirs d pm.reals).filterMap (lookupChild d · n)) := by
    apply newFromReals_agree
    intro c hc
    simp only [List.mem_filterMap] at hc
    obtain ⟨r, hr, hcr⟩ := hc
    have hr' := takeDirs_sub d _ r hr
    unfold lookupChild at hcr
    split at hcr
    · cases hcr
    · split at hcr
      · cases hcr
      · cases hcr
        exact (h r hr').2
  rw [h3]

/-- whether the first real inode answers LOOKUP does not depend on the disk -/
theorem headStat_isSome (d d' : Disk) (rs : List Real) : (headStat d' rs).isSome = (headStat d rs).isSome := by
  cases rs with
  | nil => rfl
  | cons r rest => simp only [headStat]; split <;> rfl

theorem headStat_ne_none_iff (d d' : Disk) (rs : List Real) : headStat d' rs ≠ none ↔ headStat d rs ≠ none := by
  have := headStat_isSome d d' rs
  cases h1 : headStat d' rs <;> cases h2 : headStat d rs <;> simp_all

/-! ### changes of the upper layer that keep every entry's kind (attribute changes) -/

theorem nodeAt_setLayer0 (d : Disk) (L' : Layer) (i : Nat) (p : Path) :
    (d.setLayer 0 L').nodeAt i p = if i = 0 then L' p else d.nodeAt i p := by
  cases i <;> simp [Disk.nodeAt, Disk.layer, Disk.setLayer]

theorem consistent_sameShape {s : St} (hc : Consistent s) {L L' : Layer} (hup : s.disk.upper = some L)
    (hs : ∀ p, sameShape (L' p) (L p)) (hstep : HostStep L L') (log' : List Call) :
    Consistent { s with disk := s.disk.setLayer 0 L', log := log' } := by
  have hl := hc.toLocal
  have hshape : ∀ i p, sameShape ((s.disk.setLayer 0 L').nodeAt i p) (s.disk.nodeAt i p) := by
    intro i p
    rw [nodeAt_setLayer0]
    split
    · rename_i hi; subst hi
      simpa [Disk.nodeAt, Disk.layer, hup] using hs p
    · exact sameShape_refl _
  have hidx : (s.disk.setLayer 0 L').indices = s.disk.indices := by
    simp [Disk.setLayer, Disk.indices, hup]
  have hagree : ∀ (pm : MNode) n, localExp (s.disk.setLayer 0 L') pm n = localExp s.disk pm n :=
    fun pm n => localExp_agree _ _ pm n (fun r _ => ⟨hshape _ _, hshape _ _⟩)
  apply LConsistent.toConsistent
  refine ⟨?_, ?_, ?_, ?_, hl.wh, ?_, hl.kidsMem, hl.unloaded, hl.reach⟩
  · intro i hi
    show ((s.disk.setLayer 0 L').nodeAt i []).isDir = true
    rw [(hshape i []).2.2.1]
    exact hl.roots i (by rw [← hidx]; exact hi)
  · intro i Li hLi
    cases i with
    | zero =>
      simp only [Disk.layer, Disk.setLayer, Option.some.injEq] at hLi
      subst hLi
      exact hstep.2 (hl.trees 0 L hup)
    | succ j => exact hl.trees (j + 1) Li (by simpa [Disk.layer, Disk.setLayer] using hLi)
  · obtain ⟨m, hm, hr⟩ := hl.root
    refine ⟨m, hm, ?_⟩
    have : (s.disk.setLayer 0 L').indices.map (rootReal (s.disk.setLayer 0 L')) = s.disk.indices.map (rootReal s.disk) := by
      rw [hidx]
      apply List.map_congr_left
      intro i _
      simp [rootReal, (hshape i []).2.2.2]
    show RealsLike m.reals ((s.disk.setLayer 0 L').indices.map (rootReal (s.disk.setLayer 0 L')))
    rw [this]; exact hr
  · intro pp pm n c hpm hcm
    show RealsLike c.reals (localExp (s.disk.setLayer 0 L') pm n)
    rw [hagree]; exact hl.child pp pm n c hpm hcm
  · intro p m hm hlo n
    show (n ∈ m.kids → localExp (s.disk.setLayer 0 L') m n ≠ []) ∧
      (needsNode (localExp (s.disk.setLayer 0 L') m n) = true → n ∈ m.kids)
    rw [hagree]
    exact hl.kidsLoaded p m hm hlo n

/-- a host call that only changes attributes -/
def KeepShape (f : Layer → Except Nat Layer) : Prop := ∀ L L', f L = .ok L' → ∀ p, sameShape (L' p) (L p)

theorem sameShape_updFile (L : Layer) (id : Nat) (g : Node → Node) (hg : ∀ nd, sameShape (g nd) nd) (p : Path) :
    sameShape ((L.updFile id g) p) (L p) := by
  unfold Layer.updFile
  cases hq : L p with
  | file i m c x =>
    simp only []
    split
    · exact hg _
    · exact sameShape_refl _
  | other i m =>
    simp only []
    split
    · exact hg _
    · exact sameShape_refl _
  | absent => exact sameShape_refl _
  | whiteout => exact sameShape_refl _
  | symlink t => exact sameShape_refl _
  | dir m o x => exact sameShape_refl _

theorem sameShape_setDir (L : Layer) (p : Path) (m o x m' x' : Nat) (h : L p = .dir m o x) (q : Path) :
    sameShape ((L.set p (.dir m' o x')) q) (L q) := by
  simp only [Layer.set]
  split
  · rename_i hq; subst hq; rw [h]; exact ⟨rfl, rfl, rfl, rfl⟩
  · exact sameShape_refl _

theorem keepShape_hWrite (p : Path) (off : Nat) (data : List Nat) : KeepShape (hWrite · p off data) := by
  intro L L' h
  simp only [hWrite] at h
  split at h
  · cases h
    exact sameShape_updFile L _ _ (fun nd => by cases nd <;> exact sameShape_refl _)
  · cases h

theorem keepShape_hOpen (p : Path) (t : Bool) : KeepShape (hOpen · p t) := by
  intro L L' h
  simp only [hOpen] at h
  split at h
  · cases h
  · split at h
    · cases h
      exact sameShape_updFile L _ _ (fun nd => by cases nd <;> exact sameShape_refl _)
    · cases h; exact fun _ => sameShape_refl _
  · cases h; exact fun _ => sameShape_refl _
  · cases h
  · cases h

theorem keepShape_hChmod (p : Path) (mode : Nat) : KeepShape (fun L => hChmod L p mode) := by
  intro L L' h
  simp only [hChmod] at h
  split at h
  · cases h
  · cases h
    exact sameShape_updFile L _ _ (fun nd => by cases nd <;> exact sameShape_refl _)
  · rename_i m o x hx
    cases h; exact sameShape_setDir L p m o x mode x hx
  · cases h
    exact sameShape_updFile L _ _ (fun nd => by cases nd <;> exact sameShape_refl _)
  · cases h
  · cases h; exact fun _ => sameShape_refl _

theorem keepShape_hTruncate (p : Path) (n : Nat) : KeepShape (fun L => hTruncate L p n) := by
  intro L L' h
  simp only [hTruncate] at h
  split at h
  · cases h
  · cases h
    exact sameShape_updFile L _ _ (fun nd => by cases nd <;> exact sameShape_refl _)
  · cases h
  · cases h

theorem keepShape_hSetX (p : Path) (v : Nat) : KeepShape (fun L => hSetX L p v) := by
  intro L L' h
  simp only [hSetX] at h
  split at h
  · cases h
  · cases h
    exact sameShape_updFile L _ _ (fun nd => by cases nd <;> exact sameShape_refl _)
  · rename_i m o x hx
    cases h; exact sameShape_setDir L p m o x m v hx
  · cases h

theorem keepShape_hRmX (p : Path) : KeepShape (fun L => hRmX L p) := by
  intro L L' h
  simp only [hRmX] at h
  split at h
  · cases h
  · split at h
    · cases h
    · exact keepShape_hSetX p 0 L L' h

end Fbr.Ovl
