/-
  rmdir, part A: the loop of `empty_node_directory` as `do_rm` reaches it (every child of the
  directory is a whiteout node).  The loop deletes every upper whiteout below the directory and
  drops those children from the forest; what it leaves is described by `EmptyInv`.
-/
import Fbr.Ovl
import Fbr.Lemmas.OvlHoare
import Fbr.Lemmas.OvlSim
import Fbr.Lemmas.OvlSimLookup
import Fbr.Lemmas.OvlLocal
import Fbr.Lemmas.OvlMut
import Fbr.Lemmas.OvlMutA
import Fbr.Lemmas.OvlMutB
import Fbr.Lemmas.OvlMutC
import Fbr.Lemmas.OvlMutP3
import Fbr.Lemmas.OvlEval
import Fbr.Lemmas.OvlCreate
import Fbr.Lemmas.OvlRm

namespace Fbr.Ovl

theorem setLayer0_setLayer0 (d : Disk) (A B : Layer) : (d.setLayer 0 A).setLayer 0 B = d.setLayer 0 B := rfl

theorem layer0_setLayer0 (d : Disk) (A : Layer) : (d.setLayer 0 A).layer 0 = some A := rfl

theorem below_child (c : Name) (p : Path) : p.isSuffixOf (c :: p) = true :=
  below_of_below c (below_self p)

theorem sibling_not_below {c c' : Name} (p : Path) (h : c' ≠ c) : (c :: p).isSuffixOf (c' :: p) = false :=
  not_below_child (not_below_parent c p) (by intro h'; injection h' with h'; exact h h')

/-- what the loop maintains, relative to the consistent state `s0` it started from (`L` = upper
    layer then, `m` = the directory node at `p`); `Lt` = upper layer now -/
structure EmptyInv (s0 : St) (L : Layer) (p : Path) (m : MNode) (t : St) (Lt : Layer) : Prop where
  disk : t.disk = s0.disk.setLayer 0 Lt
  out : ∀ q, p.isSuffixOf q = false → Lt q = L q
  self : Lt p = L p
  tree : TreeOK Lt
  kid : ∀ c, (t.mem (c :: p) = s0.mem (c :: p) ∧ Lt (c :: p) = L (c :: p)) ∨
    (t.mem (c :: p) = none ∧ (Lt (c :: p)).isAbsent = true)
  memOut : ∀ q, p.isSuffixOf q = false → t.mem q = s0.mem q
  node : ∃ mt, t.mem p = some mt ∧ mt.reals = m.reals

theorem EmptyInv.start {s0 : St} {L : Layer} (hc : Consistent s0) (hup : s0.disk.upper = some L)
    {p : Path} {m : MNode} (hm : s0.mem p = some m) : EmptyInv s0 L p m s0 L := by
  refine ⟨?_, fun _ _ => rfl, rfl, hc.trees 0 L hup, fun c => Or.inl ⟨rfl, rfl⟩, fun _ _ => rfl, m, hm, rfl⟩
  cases hs : s0.disk with
  | mk up lo => simp [hs] at hup; simp [Disk.setLayer, hup]

/-- the upper entry of a whiteout node that is in the upper layer is a whiteout -/
theorem upper_whiteout_entry {s : St} (hc : Consistent s) {L : Layer} (hup : s.disk.upper = some L)
    {q : Path} {cm : MNode} (hcm : s.mem q = some cm) (hu : cm.inUpper = true) (hw : cm.whiteout = true) :
    L q = .whiteout := by
  obtain ⟨r0, _, _, _, _, hw0, rest0, hr0⟩ := upper_head hc hcm hu
  have h1 := hc.wh q cm hcm
  rw [hr0, hw] at h1
  have h2 : r0.whiteout = true := by simpa [headWhiteout] using h1.symm
  rw [hw0] at h2
  have : (L q).isWhiteout = true := by simpa [Disk.nodeAt, Disk.layer, hup] using h2
  cases hx : L q <;> simp_all [Node.isWhiteout]

/-- one child -/
theorem emptyOne_step {s0 : St} (hc : Consistent s0) {L : Layer} (hup : s0.disk.upper = some L)
    {p : Path} {m : MNode} {r : Real} (hrl : r.layer = 0) (hrp : r.path = p)
    (hwh : ∀ c cm, s0.mem (c :: p) = some cm → cm.whiteout = true)
    (c : Name) {t : St} {Lt : Layer} (hi : EmptyInv s0 L p m t Lt) :
    ∃ t' Lt', emptyOne p r c t = .ok () t' ∧ EmptyInv s0 L p m t' Lt' ∧
      (∀ cm, t'.mem (c :: p) = some cm → cm.inUpper = false) ∧
      (∀ c', t'.mem (c' :: p) = none ∨ t'.mem (c' :: p) = t.mem (c' :: p)) := by
  unfold emptyOne
  rw [bind_ok (getSt_eval t)]
  cases hcm : t.mem (c :: p) with
  | none =>
    refine ⟨t, Lt, rfl, hi, fun cm h => ?_, fun _ => Or.inr rfl⟩
    rw [hcm] at h; cases h
  | some cm =>
    simp only []
    by_cases hu : cm.inUpper = true
    · -- an upper whiteout: delete it, drop the child
      have hk : t.mem (c :: p) = s0.mem (c :: p) ∧ Lt (c :: p) = L (c :: p) := by
        rcases hi.kid c with h | ⟨h, _⟩
        · exact h
        · rw [h] at hcm; cases hcm
      obtain ⟨hk1, hk2⟩ := hk
      have hcm0 : s0.mem (c :: p) = some cm := by rw [← hk1]; exact hcm
      have hw := hwh c cm hcm0
      have hLq : Lt (c :: p) = .whiteout := by rw [hk2]; exact upper_whiteout_entry hc hup hcm0 hu hw
      simp only [hu, hw, if_true]
      have hdel : hDeleteWhiteout Lt r.path c = .ok (Lt.set (c :: p) .absent) := by
        simp [hDeleteWhiteout, hrp, hLq, hUnlink]
      have hL0 : t.disk.layer r.layer = some Lt := by rw [hrl, hi.disk]; rfl
      obtain ⟨t1, h1, hd1, hm1⟩ := layerCall_ok' (f := fun L => hDeleteWhiteout L r.path c) Method.deleteWhiteout hL0 hdel
      rw [bind_ok h1]
      obtain ⟨mt, hmt, hmtr⟩ := hi.node
      obtain ⟨t2, h2, hd2, hm2⟩ := removeChild_ok' (s := t1) c (by rw [hm1]; exact hmt)
      refine ⟨t2, Lt.set (c :: p) .absent, h2, ⟨?_, ?_, ?_, ?_, ?_, ?_, ?_⟩, ?_, ?_⟩
      · rw [hd2, hd1, hrl, hi.disk]; rfl
      · intro q hq
        have : q ≠ c :: p := by intro h; rw [h, below_child] at hq; cases hq
        simp only [Layer.set, if_neg this]
        exact hi.out q hq
      · simp only [Layer.set, if_neg (ne_cons_self c p)]
        exact hi.self
      · exact (hostStep_rm Lt p c (fun x => leaf_of_nondir hi.tree (by rw [hLq]; rfl) x)).2 hi.tree
      · intro c'
        by_cases hcc : c' = c
        · subst hcc
          right
          refine ⟨?_, by simp [Layer.set, Node.isAbsent]⟩
          rw [hm2, hm1, removedMem_apply, if_neg (cons_ne_self c' p), below_self]
          rfl
        · have hne : c' :: p ≠ c :: p := by intro h; injection h with h; exact hcc h
          have hmem : t2.mem (c' :: p) = t.mem (c' :: p) := by
            rw [hm2, hm1, removedMem_apply, if_neg (cons_ne_self c' p), sibling_not_below p hcc]
            rfl
          rw [hmem]
          simp only [Layer.set, if_neg hne]
          exact hi.kid c'
      · intro q hq
        have h1' : q ≠ p := by intro h; rw [h, below_self] at hq; cases hq
        have h2' : (c :: p).isSuffixOf q = false := by
          cases hb : (c :: p).isSuffixOf q with
          | false => rfl
          | true =>
            have h3 : p.isSuffixOf q = true :=
              List.isSuffixOf_iff_suffix.2 ((List.suffix_cons c p).trans (List.isSuffixOf_iff_suffix.1 hb))
            rw [h3] at hq; cases hq
        rw [hm2, hm1, removedMem_apply, if_neg h1', h2']
        exact hi.memOut q hq
      · exact ⟨{ mt with kids := mt.kids.filter (· != c) }, by rw [hm2, hm1, removedMem_apply]; simp, hmtr⟩
      · intro cm' h
        rw [hm2, hm1, removedMem_apply, if_neg (cons_ne_self c p), below_self] at h
        cases h
      · intro c'
        by_cases hcc : c' = c
        · subst hcc
          left
          rw [hm2, hm1, removedMem_apply, if_neg (cons_ne_self c' p), below_self]
          rfl
        · right
          rw [hm2, hm1, removedMem_apply, if_neg (cons_ne_self c' p), sibling_not_below p hcc]
          rfl
    · simp only [hu, Bool.false_eq_true, if_false]
      refine ⟨t, Lt, rfl, hi, fun cm' h => ?_, fun _ => Or.inr rfl⟩
      rw [hcm] at h; cases h
      simpa using hu

/-- the whole loop -/
theorem emptyLoop {s0 : St} (hc : Consistent s0) {L : Layer} (hup : s0.disk.upper = some L)
    {p : Path} {m : MNode} {r : Real} (hrl : r.layer = 0) (hrp : r.path = p)
    (hwh : ∀ c cm, s0.mem (c :: p) = some cm → cm.whiteout = true) :
    ∀ (l : List Name) {t : St} {Lt : Layer}, EmptyInv s0 L p m t Lt →
    ∃ t' Lt', forNames (emptyOne p r) l t = .ok () t' ∧ EmptyInv s0 L p m t' Lt' ∧
      (∀ c ∈ l, ∀ cm, t'.mem (c :: p) = some cm → cm.inUpper = false) ∧
      (∀ c', t'.mem (c' :: p) = none ∨ t'.mem (c' :: p) = t.mem (c' :: p))
  | [], t, Lt, hi => ⟨t, Lt, rfl, hi, fun c h _ _ => by simp at h, fun _ => Or.inr rfl⟩
  | c :: rest, t, Lt, hi => by
    obtain ⟨t1, L1, h1, hi1, hp1, hmono1⟩ := emptyOne_step hc hup hrl hrp hwh c hi
    obtain ⟨t2, L2, h2, hi2, hp2, hmono2⟩ := emptyLoop hc hup hrl hrp hwh rest hi1
    refine ⟨t2, L2, ?_, hi2, ?_, ?_⟩
    · unfold forNames
      rw [bind_ok h1]; exact h2
    · intro c' hc' cm hcm
      simp only [List.mem_cons] at hc'
      rcases hc' with rfl | hc'
      · rcases hmono2 c' with h | h
        · rw [h] at hcm; cases hcm
        · rw [h] at hcm; exact hp1 cm hcm
      · exact hp2 c' hc' cm hcm
    · intro c'
      rcases hmono2 c' with h | h
      · exact Or.inl h
      · rw [h]; exact hmono1 c'

/-- a name that the upper directory of an upper, loaded directory node has is a child of the
    node, and that child is in the upper layer -/
theorem upper_entry_has_node {s : St} (hc : Consistent s) {L : Layer} (hup : s.disk.upper = some L)
    {p : Path} {m : MNode} (hm : s.mem p = some m) (hmu : m.inUpper = true) (hlo : m.loaded = true)
    (hdir : (L p).isDir = true) (c : Name) (hpres : (L (c :: p)).isAbsent = false) :
    c ∈ m.kids ∧ ∃ cm, s.mem (c :: p) = some cm ∧ cm.inUpper = true := by
  have hl := hc.toLocal
  have hu : s.disk.upper.isSome := by rw [hup]; rfl
  have hn0 : ∀ q, s.disk.nodeAt 0 q = L q := fun q => by simp [Disk.nodeAt, Disk.layer, hup]
  -- the node's real inodes in index form
  have hforms : ∃ t0, expIdx s.disk p = 0 :: t0 ∧
      (m.reals = (expIdx s.disk p).map (realOf s.disk p) ∨
        (expIdx s.disk p = [0] ∧ m.reals = [staleOf (realOf s.disk p 0)])) := by
    rcases realsOK_forms hc.roots (hc.reals _ m hm) with h | ⟨i, hi, hi0, h⟩
    · cases he : expIdx s.disk p with
      | nil => rw [he] at h; simp [MNode.inUpper, h] at hmu
      | cons i0 t0 =>
        have : m.inUpper = (i0 == 0) := by simp [MNode.inUpper, h, he, realOf]
        rw [hmu] at this
        have hi0 : i0 = 0 := by simpa using this.symm
        exact ⟨t0, by rw [hi0], Or.inl (by rw [h, he])⟩
    · exact ⟨[], by rw [hi, hi0], Or.inr ⟨by rw [hi, hi0], by rw [h, hi0]⟩⟩
  obtain ⟨t0, ht0, hf⟩ := hforms
  have hloc : ∃ tl, localExp s.disk m c = realOf s.disk (c :: p) 0 :: tl := by
    rw [localExp_forms s.disk p (expIdx s.disk p) m hf c, ht0, dirsIdx, if_pos (by rw [hn0]; exact hdir)]
    have hkeep : (!(s.disk.nodeAt 0 (c :: p)).isAbsent) = true := by rw [hn0, hpres]; rfl
    split
    · rw [List.filter_cons, if_pos hkeep, List.filter_nil, cutW]
      split <;> exact ⟨_, rfl⟩
    · rw [List.filter_cons, if_pos hkeep, cutW]
      split <;> exact ⟨_, rfl⟩
  obtain ⟨tl, hloc⟩ := hloc
  have hneeds : needsNode (localExp s.disk m c) = true := by
    rw [hloc]; simp [needsNode, realOf]
  have hin := (hl.kidsLoaded p m hm hlo c).2 hneeds
  obtain ⟨cm, hcm⟩ := hl.kidsMem p m c hm hin
  refine ⟨hin, cm, hcm, ?_⟩
  rcases hl.child p m c cm hm hcm with h | ⟨e, he, _, h⟩
  · rw [hloc] at h
    simp [MNode.inUpper, h, realOf]
  · rw [hloc] at he
    simp only [List.cons.injEq] at he
    simp [MNode.inUpper, h, ← he.1, staleOf, realOf]

/-- `empty_node_directory` on an upper directory node whose children are all whiteouts: afterwards
    the upper directory is empty -/
theorem emptyNodeDirectory_spec {s0 : St} (hc : Consistent s0) {L : Layer} (hup : s0.disk.upper = some L)
    {p : Path} {m : MNode} (hm : s0.mem p = some m) (hmu : m.inUpper = true) (hlo : m.loaded = true)
    {r : Real} {rest : List Real} (hr : m.reals = r :: rest) (hd : (s0.disk.statReal r).isDir = true)
    (hwh : ∀ c cm, s0.mem (c :: p) = some cm → cm.whiteout = true) :
    ∃ t Lt, emptyNodeDirectory p s0 = .ok () t ∧ EmptyInv s0 L p m t Lt ∧
      ∀ c, (Lt (c :: p)).isAbsent = true := by
  obtain ⟨r0, hur, hrl, hrp, _, _, rest0, hr0⟩ := upper_head hc hm hmu
  have hrr : r = r0 := by rw [hr] at hr0; injection hr0
  subst hrr
  have hdirL : (L p).isDir = true := by
    simpa [Disk.statReal, hrl, hrp, Disk.nodeAt, Disk.layer, hup] using hd
  have hst := nodeStat_eq hc hm
  rw [hr] at hst
  obtain ⟨t, Lt, hloop, hi, hpost, _⟩ := emptyLoop hc hup hrl hrp hwh m.kids (EmptyInv.start hc hup hm)
  refine ⟨t, Lt, ?_, hi, fun c => ?_⟩
  · unfold emptyNodeDirectory
    rw [bind_ok (getNode_ok hm), bind_ok hst]
    simp only [hd, Bool.not_true, Bool.false_eq_true, if_false, hur]
    exact hloop
  · rcases hi.kid c with ⟨hk1, hk2⟩ | ⟨_, hk2⟩
    · cases ha : (Lt (c :: p)).isAbsent with
      | true => rfl
      | false =>
        exfalso
        rw [hk2] at ha
        obtain ⟨hin, cm, hcm, hcu⟩ := upper_entry_has_node hc hup hm hmu hlo hdirL c ha
        have := hpost c hin cm (by rw [hk1]; exact hcm)
        rw [hcu] at this; cases this
    · exact hk2

end Fbr.Ovl
