/-
  The real inodes the code keeps for a path, as a function of the disk alone (`expReals`: what
  `import` + `scan_childrens` + `new_from_real_inodes` compute along the path), their link to
  the index-level `expIdx` (Fbr.Lemmas.OvlSpecLink) and hence to the SPEC `merge`.
-/
import Fbr.Ovl
import Fbr.Lemmas.OvlMerge
import Fbr.Lemmas.OvlSpecLink
import Fbr.Lemmas.OvlHoare

namespace Fbr.Ovl

/-- the real inode of layer `i` at path `p` with the flags `lookup_child` computes -/
def realOf (d : Disk) (p : Path) (i : Nat) : Real :=
  { layer := i, inUpper := i == 0, path := p,
    whiteout := (d.nodeAt i p).isWhiteout, opq := (d.nodeAt i p).isOpaqueDir }

/-- every layer root is a directory -/
def Disk.RootsOK (d : Disk) : Prop := ∀ i ∈ d.indices, (d.nodeAt i []).isDir = true

/-- every layer is a tree -/
def Disk.TreesOK (d : Disk) : Prop := ∀ i L, d.layer i = some L → TreeOK L

/-- the real inodes the overlay node `p` keeps, computed with the model's own functions -/
def expReals (d : Disk) : Path → List Real
  | [] => d.indices.map (rootReal d)
  | n :: pp =>
    match newFromReals d ((takeDirs d (expReals d pp)).filterMap (lookupChild d · n)) with
    | some k => k.reals
    | none => []

theorem statReal_realOf (d : Disk) (p : Path) (i : Nat) : d.statReal (realOf d p i) = d.nodeAt i p := rfl

theorem isWhiteout_not_dir {n : Node} (h : n.isDir = true) : n.isWhiteout = false := by
  cases n <;> simp_all [Node.isDir, Node.isWhiteout]

theorem rootReal_eq_realOf {d : Disk} {i : Nat} (h : (d.nodeAt i []).isDir = true) :
    rootReal d i = realOf d [] i := by
  simp [rootReal, realOf, isWhiteout_not_dir h]

theorem takeDirs_realOf (d : Disk) (p : Path) :
    ∀ l, takeDirs d (l.map (realOf d p)) = (dirsIdx d p l).map (realOf d p)
  | [] => rfl
  | i :: rest => by
    simp only [List.map_cons, takeDirs, dirsIdx, statReal_realOf]
    by_cases hd : (d.nodeAt i p).isDir = true
    · have hw := isWhiteout_not_dir hd
      by_cases ho : (d.nodeAt i p).isOpaqueDir = true
      · simp [realOf, hd, hw, ho]
      · simp only [Bool.not_eq_true] at ho
        simp [realOf, hd, hw, ho]
        exact takeDirs_realOf d p rest
    · simp only [Bool.not_eq_true] at hd
      by_cases hw : (d.nodeAt i p).isWhiteout = true <;> simp [realOf, hd, hw]

theorem lookupChild_realOf (d : Disk) (p : Path) (n : Name) (i : Nat)
    (hw : (d.nodeAt i p).isWhiteout = false) :
    lookupChild d (realOf d p i) n =
      if (d.nodeAt i (n :: p)).isAbsent then none else some (realOf d (n :: p) i) := by
  unfold lookupChild
  simp only [realOf, hw, Bool.false_eq_true, if_false]
  cases h : d.nodeAt i (n :: p) <;> simp [Node.isAbsent, Node.isWhiteout, Node.isOpaqueDir]

theorem filterMap_lookupChild (d : Disk) (p : Path) (n : Name) :
    ∀ l : List Nat, (∀ i ∈ l, (d.nodeAt i p).isDir = true) →
      (l.map (realOf d p)).filterMap (lookupChild d · n) =
        (l.filter fun i => !(d.nodeAt i (n :: p)).isAbsent).map (realOf d (n :: p))
  | [], _ => rfl
  | i :: rest, h => by
    have hi := h i (by simp)
    have ih := filterMap_lookupChild d p n rest (fun j hj => h j (List.mem_cons_of_mem _ hj))
    simp only [List.map_cons, List.filterMap_cons, lookupChild_realOf d p n i (isWhiteout_not_dir hi),
      List.filter_cons]
    by_cases ha : (d.nodeAt i (n :: p)).isAbsent = true
    · simp [ha, ih]
    · simp only [Bool.not_eq_true] at ha
      simp [ha, ih]

theorem newFromReals_realOf (d : Disk) (p : Path) (l : List Nat) :
    (match newFromReals d (l.map (realOf d p)) with | some k => k.reals | none => []) =
      (cutW d p l).map (realOf d p) := by
  cases l with
  | nil => rfl
  | cons i rest =>
    simp only [List.map_cons, newFromReals, cutW, statReal_realOf]
    by_cases hd : (d.nodeAt i p).isDir = true
    · have hw := isWhiteout_not_dir hd
      by_cases ho : (d.nodeAt i p).isOpaqueDir = true
      · simp [realOf, hd, hw, ho]
      · simp only [Bool.not_eq_true] at ho
        simp [realOf, hd, hw, ho]
        exact takeDirs_realOf d p rest
    · simp only [Bool.not_eq_true] at hd
      simp [realOf, hd]

/-- (L) the model's functions along a path compute the index-level stack -/
theorem expReals_eq (d : Disk) (hr : d.RootsOK) : ∀ p, expReals d p = (expIdx d p).map (realOf d p)
  | [] => by
    simp only [expReals, expIdx]
    apply List.map_congr_left
    intro i hi
    exact rootReal_eq_realOf (hr i hi)
  | n :: pp => by
    rw [expReals, expReals_eq d hr pp, takeDirs_realOf,
      filterMap_lookupChild d pp n _ (dirsIdx_all_dirs d pp _), newFromReals_realOf, expIdx]

/-- what LOOKUP answers for a path according to the disk: the attributes of the first kept real
    inode, nothing for a whiteout -/
def specStat (d : Disk) (p : Path) : Option Node :=
  match expReals d p with
  | [] => none
  | r :: _ => if r.whiteout then none else some (d.statReal r)

def viewOfStat : Option Node → VNode
  | some n => n.view
  | none => .none

/-- (A)+(L): the SPEC at a path is the view of what LOOKUP answers -/
theorem merge_eq_specStat (d : Disk) (hr : d.RootsOK) (p : Path) : merge d p = viewOfStat (specStat d p) := by
  rw [merge_eq_head, specStat, expReals_eq d hr]
  cases h : expIdx d p with
  | nil => rfl
  | cons i rest =>
    simp only [List.map_cons, realOf, statReal_realOf]
    by_cases hw : (d.nodeAt i p).isWhiteout = true
    · simp only [hw, if_true, viewOfStat]
      cases hn : d.nodeAt i p <;> simp_all [Node.isWhiteout, Node.view]
    · simp only [Bool.not_eq_true] at hw
      simp [hw, viewOfStat, Disk.statReal]

/-- nothing is visible below a path that is not a visible directory -/
theorem specStat_below (d : Disk) (n : Name) (pp : Path)
    (h : ∀ st, specStat d pp = some st → st.isDir = false) : specStat d (n :: pp) = none := by
  have htd : takeDirs d (expReals d pp) = [] := by
    cases hl : expReals d pp with
    | nil => rfl
    | cons r rest =>
      unfold takeDirs
      by_cases hw : r.whiteout = true
      · simp [hw]
      · simp only [Bool.not_eq_true] at hw
        have := h (d.statReal r) (by simp [specStat, hl, hw])
        simp [hw, this]
  simp [specStat, expReals, htd, newFromReals]

end Fbr.Ovl
