/-
  C08, `use_host_ino = false`: inode numbers come from `next_inode` or from the remembered
  id/handle → number maps, all of which stay below `next_inode`; hence an insert never replaces a
  live entry (`clobbered` stays false) — for every history.
-/
import Fbr.Lemmas.PtRun

namespace Fbr.PtRefs

structure Fresh (s : St) : Prop where
  two : 2 ≤ s.next
  dataLt : ∀ i d, mget s.data i = some d → i < s.next
  byIdLt : ∀ k i, mget s.byId k = some i → i < s.next
  byHLt : ∀ k i, mget s.byHandle k = some i → i < s.next

/-- a remembered number whose file the probe did not find is not in use -/
theorem not_live_of_mapping {s : St} {id : InodeId} {fh : Option FhId} {ino : Ino}
    (hg : getAlt s id fh = none) (hm : getInodeLocked s id fh = some ino) : mget s.data ino = none := by
  cases hd : mget s.data ino with
  | none => rfl
  | some d =>
    exfalso
    unfold getAlt at hg
    unfold getInodeLocked at hm
    cases fh with
    | some h =>
      simp only at hm
      simp [getByHandle, hm, hd] at hg
    | none =>
      simp only at hm
      simp [getById, hm, hd] at hg

theorem forgetOne_keep (e : Env) (hk : e.useHostIno = false) (s : St) (i : Ino) (n : Nat) :
    (forgetOne e s i n).byId = s.byId ∧ (forgetOne e s i n).byHandle = s.byHandle
    ∧ (forgetOne e s i n).next = s.next
    ∧ (∀ j d, mget (forgetOne e s i n).data j = some d →
        ∃ d', mget s.data j = some d' ∧ d'.id = d.id ∧ d'.fh = d.fh) := by
  unfold forgetOne
  split
  · exact ⟨rfl, rfl, rfl, fun j d h => ⟨d, h, rfl, rfl⟩⟩
  · split
    · exact ⟨rfl, rfl, rfl, fun j d h => ⟨d, h, rfl, rfl⟩⟩
    · rename_i d0 hd0
      simp only
      split
      · unfold removeInode
        simp only [hk, Bool.not_false, Bool.true_or, if_true]
        have ht := tables_dropIData { s with data := mdel s.data i } d0
        refine ⟨by rw [byId_of_tables ht], by rw [byHandle_of_tables ht], by rw [next_of_tables ht], ?_⟩
        intro j d h
        rw [data_of_tables ht] at h
        simp only [mget_mdel] at h
        split at h
        · cases h
        · exact ⟨d, h, rfl, rfl⟩
      · refine ⟨rfl, rfl, rfl, ?_⟩
        intro j d h
        simp only [setRefs_data, mget_mput] at h
        split at h
        · rename_i e1; subst e1; cases h; exact ⟨d0, hd0, rfl, rfl⟩
        · exact ⟨d, h, rfl, rfl⟩

theorem Tr.fresh {e : Env} {nf : Bool} (hk : e.useHostIno = false) {b : Bool} {s s' : St} {sp sp' : Spec}
    (h : Tr e nf b s sp s' sp') (f : Fresh s) (hc : s.clobbered = false) :
    Fresh s' ∧ s'.clobbered = false := by
  induction h with
  | frame hd hc' hl hb hy hn =>
    exact ⟨⟨by rw [hn]; exact f.two, by rw [hd, hn]; exact f.dataLt, by rw [hb, hn]; exact f.byIdLt,
      by rw [hy, hn]; exact f.byHLt⟩, by rw [hc']; exact hc⟩
  | @lookup s0 s1 sp0 r0 _ h =>
    rcases h with ⟨er, _, hd, c, _, hb, hy, hn⟩ | ⟨ino, d, _, hm, hd, c, _, hb, hy, hn⟩
      | ⟨ino, d0, _, _, hd, c, _, hb, hy, hg, hz⟩
    · refine ⟨⟨by have := f.two; omega, ?_, ?_, ?_⟩, by rw [c]; exact hc⟩
      · intro i d h; rw [hd] at h; exact Nat.lt_of_lt_of_le (f.dataLt i d h) hn
      · intro k i h; rw [hb] at h; exact Nat.lt_of_lt_of_le (f.byIdLt k i h) hn
      · intro k i h; rw [hy] at h; exact Nat.lt_of_lt_of_le (f.byHLt k i h) hn
    · refine ⟨⟨by rw [hn]; exact f.two, ?_, by rw [hb, hn]; exact f.byIdLt,
        by rw [hy, hn]; exact f.byHLt⟩, by rw [c]; exact hc⟩
      intro i d' h
      rw [hd, mget_mput] at h
      rw [hn]
      split at h
      · rename_i e1; subst e1; exact f.dataLt _ d hm
      · exact f.dataLt i d' h
    · -- insert
      have key : ino < s1.next ∧ mget s0.data ino = none
          ∧ (s1.next = s0.next ∨ s1.next = s0.next + 1) := by
        rcases hz hk with ⟨hm, hn⟩ | ⟨hm, hi, hn⟩
        · have hlt : ino < s0.next := by
            unfold getInodeLocked at hm
            cases hfh : d0.fh with
            | some h' => rw [hfh] at hm; exact f.byHLt _ _ hm
            | none => rw [hfh] at hm; exact f.byIdLt _ _ hm
          exact ⟨by rw [hn]; exact hlt, not_live_of_mapping hg hm, Or.inl hn⟩
        · subst hi
          refine ⟨by rw [hn]; exact Nat.lt_succ_self _, ?_, Or.inr hn⟩
          cases hd' : mget s0.data s0.next with
          | none => rfl
          | some x => exact absurd (f.dataLt _ _ hd') (Nat.lt_irrefl _)
      obtain ⟨hlt, hnone, hnext⟩ := key
      have hle : s0.next ≤ s1.next ∧ ino < s1.next := by
        rcases hnext with hn | hn
        · exact ⟨by rw [hn]; exact Nat.le_refl _, hlt⟩
        · exact ⟨by rw [hn]; exact Nat.le_succ _, hlt⟩
      refine ⟨⟨Nat.le_trans f.two hle.1, ?_, ?_, ?_⟩, ?_⟩
      · intro i d h
        rw [hd, mget_mput] at h
        split at h
        · rename_i e1; subst e1; exact hle.2
        · exact Nat.lt_of_lt_of_le (f.dataLt i d h) hle.1
      · intro k i h
        rw [hb, mget_mput] at h
        split at h
        · cases h; exact hle.2
        · exact Nat.lt_of_lt_of_le (f.byIdLt k i h) hle.1
      · intro k i h
        rw [hy] at h
        cases hfh : d0.fh with
        | none => rw [hfh] at h; exact Nat.lt_of_lt_of_le (f.byHLt k i h) hle.1
        | some h' =>
          rw [hfh] at h
          simp only [mget_mput] at h
          split at h
          · cases h; exact hle.2
          · exact Nat.lt_of_lt_of_le (f.byHLt k i h) hle.1
      · rw [c, hc, hnone]; simp
  | @forget s0 _ i n =>
    obtain ⟨hb, hy, hn, hsub⟩ := forgetOne_keep e hk s0 i n
    refine ⟨⟨by rw [hn]; exact f.two, ?_, by rw [hb, hn]; exact f.byIdLt, by rw [hy, hn]; exact f.byHLt⟩,
      by rw [(forgetOne_ghost e s0 i n).1]; exact hc⟩
    intro j d h
    obtain ⟨d', h', _⟩ := hsub j d h
    rw [hn]; exact f.dataLt j d' h'
  | hnds _ => exact ⟨f, hc⟩
  | setRoot hd _ hc' _ hb hy hn =>
    refine ⟨⟨by rw [hn]; exact f.two, ?_, ?_, ?_⟩, by rw [hc']; exact hc⟩
    · intro i d h
      rw [hd, mget_mput] at h
      rw [hn]
      split at h
      · rename_i e1; subst e1; exact f.two
      · exact f.dataLt i d h
    · intro k i h
      rw [hb, mget_mput] at h
      rw [hn]
      split at h
      · cases h; exact f.two
      · exact f.byIdLt k i h
    · intro k i h
      rw [hy] at h
      rw [hn]
      split at h
      · simp only [mget_mput] at h
        split at h
        · cases h; exact f.two
        · exact f.byHLt k i h
      · exact f.byHLt k i h
  | clear hd hc' _ hb hy hn =>
    refine ⟨⟨by rw [hn]; exact f.two, ?_, ?_, ?_⟩, by rw [hc']; exact hc⟩
    · intro i d h; simp [hd] at h
    · intro k i h; simp [hb] at h
    · intro k i h; simp [hy] at h
  | trans _ _ ih1 ih2 =>
    obtain ⟨f1, c1⟩ := ih1 f hc
    exact ih2 f1 c1
  | relax _ ih => exact ih f hc

theorem fresh_fresh : Fresh St.fresh :=
  ⟨by simp [St.fresh, ROOT_ID], by intro i d h; simp [St.fresh] at h,
   by intro k i h; simp [St.fresh] at h, by intro k i h; simp [St.fresh] at h⟩

/-- without `use_host_ino`, no history ever makes `InodeStore::insert` replace a live entry -/
theorem never_clobbers_keep (e : Env) (hk : e.useHostIno = false) (h : List (Option Nat × Op)) :
    (run e St.fresh h).1.clobbered = false :=
  ((run_tr e h St.fresh Spec.init).fresh hk fresh_fresh rfl).2

end Fbr.PtRefs
