/-
  Without an upper layer every modifying operation of the overlay model fails.
-/
import Fbr.Ovl
import Fbr.Lemmas.OvlHoare
import Fbr.Lemmas.OvlInv

namespace Fbr.Ovl
variable {d0 : Disk}

local notation "NU" => GInv (noUpperSpec d0)

/-- `f` never succeeds (and keeps the invariant when it fails) -/
def Fails {α : Type} (d0 : Disk) (f : M α) : Prop := Triple (GInv (noUpperSpec d0)) f (fun _ _ => False) (GInv (noUpperSpec d0))

theorem Fails.bind_left {α β : Type} {f : M α} {g : α → M β} (h : Fails d0 f) : Fails d0 (f >>= g) :=
  Triple.bind h fun _ => Triple.false_pre

theorem Fails.bind_right {α β : Type} {f : M α} {g : α → M β} {Q : α → Prop}
    (hf : Triple NU f (fun a s => Q a ∧ NU s) NU) (hg : ∀ a, Q a → Fails d0 (g a)) : Fails d0 (f >>= g) :=
  Triple.bind hf fun a => Triple.pure_pre fun hq => hg a hq

theorem Fails.bind_right' {α β : Type} {f : M α} {g : α → M β}
    (hf : Triple NU f (fun _ => NU) NU) (hg : ∀ a, Fails d0 (g a)) : Fails d0 (f >>= g) :=
  Triple.bind hf fun a => hg a

theorem Fails.fail {α : Type} (e : Nat) : Fails d0 (fail e : M α) := Triple.fail' fun _ h => h

theorem hasUpper_false (hd0 : d0.upper = none) :
    Triple NU hasUpper (fun b s => b = false ∧ NU s) NU :=
  hasUpper_inv.post fun b s h => by
    refine ⟨?_, h.2⟩
    have : s.disk = d0 := h.2.2.2
    rw [h.1, this, hd0]; rfl

theorem upperCheck_fails {α : Type} (hd0 : d0.upper = none) (rest : M α) :
    Fails d0 (do let up ← hasUpper; if !up then fail EROFS else rest) := by
  refine Fails.bind_right (hasUpper_false hd0) fun b hb => ?_
  subst hb
  exact Fails.fail _

theorem doCreateLike_fails (hd0 : d0.upper = none) (pp : Path) (n : Name) (b : Bool) (mk : Real → M Real) :
    Fails d0 (doCreateLike pp n b mk) := by
  unfold doCreateLike
  exact upperCheck_fails hd0 _

theorem doLink_fails (hd0 : d0.upper = none) (src pp : Path) (n : Name) : Fails d0 (doLink src pp n) := by
  unfold doLink
  exact upperCheck_fails hd0 _

theorem doRm_fails (hd0 : d0.upper = none) (pp : Path) (n : Name) (dir : Bool) : Fails d0 (doRm pp n dir) := by
  unfold doRm
  exact upperCheck_fails hd0 _

theorem doSetattr_fails (hd0 : d0.upper = none) (p : Path) (f : Path → Layer → Except Nat Layer) :
    Fails d0 (doSetattr p f) := by
  unfold doSetattr
  exact upperCheck_fails hd0 _

theorem copyNodeUp_fails (p : Path) : Fails d0 (copyNodeUp p) :=
  (copyNodeUp_inv p).post fun _ _ h => noUpper_not_upAt h.2 h.1

theorem doOpen_write_fails (p : Path) (trunc : Bool) : Fails d0 (doOpen p true trunc) := by
  unfold doOpen
  refine Fails.bind_right' (lookupSelf_inv' p |>.post fun _ _ h => h.2) fun m => ?_
  refine Triple.ite' (fun _ => Fails.fail _) fun _ => ?_
  simp only [whenM, if_true]
  exact Fails.bind_left (copyNodeUp_fails p)

theorem doWrite_fails (p : Path) (trunc append : Bool) (off : Nat) (data : List Nat) :
    Fails d0 (doWrite p trunc append off data) := by
  unfold doWrite
  exact Fails.bind_left (doOpen_write_fails p trunc)

theorem doXattr_fails (p : Path) (meth : Method) (f : Path → Layer → Except Nat Layer) :
    Fails d0 (doXattr p meth f) := by
  unfold doXattr
  refine Triple.bind (lookupSelf_inv p) fun m => ?_
  refine Triple.ite' (fun _ => Triple.fail' fun _ h => h.2) fun _ => ?_
  refine Triple.bind ((ensureUp p m).pre fun _ h => ⟨h.1.2, h.2⟩) fun _ => ?_
  exact fun s hs => (noUpper_not_upAt hs.2 hs.1).elim

theorem kindGuard_fails {α : Type} (k : Kind) (e1 e2 e3 : Nat) (body : M α) (hb : Fails d0 body) :
    Fails d0 (match k with | .d => fail e1 | .l => fail e2 | .o => fail e3 | .f => body) := by
  cases k
  · exact Fails.fail _
  · exact hb
  · exact Fails.fail _
  · exact Fails.fail _

/-- Without an upper layer every modifying operation fails. -/
theorem runOp_fails (hd0 : d0.upper = none) (op : Op) (hm : op.isModifying = true) : Fails d0 (runOp op) := by
  cases op with
  | lookup p => simp [Op.isModifying] at hm
  | readdir p => simp [Op.isModifying] at hm
  | read p => simp [Op.isModifying] at hm
  | readlink p => simp [Op.isModifying] at hm
  | getx p => simp [Op.isModifying] at hm
  | walk => simp [Op.isModifying] at hm
  | create p mode =>
    unfold runOp
    refine Fails.bind_right' (resolveParent_inv p) fun r => ?_
    obtain ⟨pp, n⟩ := r
    refine Fails.bind_right' (lookupSelf_inv' pp |>.post fun _ _ h => h.2) fun _ => ?_
    refine Fails.bind_right' freshId_inv fun id => ?_
    exact Fails.bind_left (doCreateLike_fails hd0 _ _ _ _)
  | mkdir p mode =>
    unfold runOp
    refine Fails.bind_right' (resolveParent_inv p) fun r => ?_
    obtain ⟨pp, n⟩ := r
    refine Fails.bind_right' (lookupSelf_inv' pp |>.post fun _ _ h => h.2) fun _ => ?_
    exact Fails.bind_left (doCreateLike_fails hd0 _ _ _ _)
  | mknod p mode =>
    unfold runOp
    refine Fails.bind_right' (resolveParent_inv p) fun r => ?_
    obtain ⟨pp, n⟩ := r
    refine Fails.bind_right' (lookupSelf_inv' pp |>.post fun _ _ h => h.2) fun _ => ?_
    refine Fails.bind_right' freshId_inv fun id => ?_
    exact Fails.bind_left (doCreateLike_fails hd0 _ _ _ _)
  | symlink p t =>
    unfold runOp
    refine Fails.bind_right' (resolveParent_inv p) fun r => ?_
    obtain ⟨pp, n⟩ := r
    refine Fails.bind_right' (lookupSelf_inv' pp |>.post fun _ _ h => h.2) fun _ => ?_
    exact Fails.bind_left (doCreateLike_fails hd0 _ _ _ _)
  | link src dst =>
    unfold runOp
    refine Fails.bind_right' (resolve_inv src) fun r => ?_
    obtain ⟨sp, st⟩ := r
    refine Triple.ite' (fun _ => Fails.fail _) fun _ => ?_
    refine Fails.bind_right' (resolveParent_inv dst) fun r => ?_
    obtain ⟨pp, n⟩ := r
    refine Fails.bind_right' (lookupSelf_inv' sp |>.post fun _ _ h => h.2) fun sm => ?_
    refine Triple.ite' (fun _ => Fails.fail _) fun _ => ?_
    refine Fails.bind_right' (lookupSelf_inv' pp |>.post fun _ _ h => h.2) fun pm => ?_
    refine Triple.ite' (fun _ => Fails.fail _) fun _ => ?_
    exact Fails.bind_left (doLink_fails hd0 _ _ _)
  | unlink p =>
    unfold runOp
    refine Fails.bind_right' (resolveParent_inv p) fun r => ?_
    obtain ⟨pp, n⟩ := r
    refine Fails.bind_right' (doLookup_inv pp n) fun st => ?_
    refine Triple.ite' (fun _ => Fails.fail _) fun _ => ?_
    exact Fails.bind_left (doRm_fails hd0 _ _ _)
  | rmdir p =>
    unfold runOp
    refine Fails.bind_right' (resolveParent_inv p) fun r => ?_
    obtain ⟨pp, n⟩ := r
    refine Fails.bind_right' (doLookup_inv pp n) fun st => ?_
    refine Triple.ite' (fun _ => Fails.fail _) fun _ => ?_
    exact Fails.bind_left (doRm_fails hd0 _ _ _)
  | «open» p fl =>
    unfold runOp
    refine Fails.bind_right' (resolve_inv p) fun r => ?_
    obtain ⟨path, st⟩ := r
    refine kindGuard_fails _ _ _ _ _ ?_
    have hw : fl.isWrite = true := by simpa [Op.isModifying] using hm
    rw [hw]
    exact Fails.bind_left (doOpen_write_fails _ _)
  | write p fl off data =>
    unfold runOp
    refine Fails.bind_right' (resolve_inv p) fun r => ?_
    obtain ⟨path, st⟩ := r
    refine kindGuard_fails _ _ _ _ _ ?_
    exact Fails.bind_left (doWrite_fails _ _ _ _ _)
  | chmod p mode =>
    unfold runOp
    refine Fails.bind_right' (resolve_inv p) fun r => ?_
    obtain ⟨path, st⟩ := r
    refine Triple.ite' (fun _ => Fails.fail _) fun _ => ?_
    exact Fails.bind_left (doSetattr_fails hd0 _ _)
  | truncate p n =>
    unfold runOp
    refine Fails.bind_right' (resolve_inv p) fun r => ?_
    obtain ⟨path, st⟩ := r
    refine kindGuard_fails _ _ _ _ _ ?_
    exact Fails.bind_left (doSetattr_fails hd0 _ _)
  | setx p v =>
    unfold runOp
    refine Fails.bind_right' (resolve_inv p) fun r => ?_
    obtain ⟨path, st⟩ := r
    refine Triple.ite' (fun _ => Fails.fail _) fun _ => ?_
    exact Fails.bind_left (doXattr_fails _ _ _)
  | rmx p =>
    unfold runOp
    refine Fails.bind_right' (resolve_inv p) fun r => ?_
    obtain ⟨path, st⟩ := r
    refine Triple.ite' (fun _ => Fails.fail _) fun _ => ?_
    exact Fails.bind_left (doXattr_fails _ _ _)

end Fbr.Ovl
