/-
  do_rm (unlink; rmdir of a directory without upper whiteouts to clear) keeps the forest a
  valid cache of the disk.
-/
import Fbr.Ovl
import Fbr.Lemmas.OvlHoare
import Fbr.Lemmas.OvlSim
import Fbr.Lemmas.OvlSimLookup
import Fbr.Lemmas.OvlSimRO
import Fbr.Lemmas.OvlLocal
import Fbr.Lemmas.OvlMut
import Fbr.Lemmas.OvlMutA
import Fbr.Lemmas.OvlMutB
import Fbr.Lemmas.OvlMutC
import Fbr.Lemmas.OvlMutP1
import Fbr.Lemmas.OvlMutP3
import Fbr.Lemmas.OvlMutP4
import Fbr.Lemmas.OvlEval
import Fbr.Lemmas.OvlCopyUp
import Fbr.Lemmas.OvlOps
import Fbr.Lemmas.OvlCreate

namespace Fbr.Ovl

/-- replacing an entry that has nothing below it by an entry that is not a directory -/
theorem hostStep_replace (L : Layer) (pp : Path) (n : Name) (X : Node) (hp : (L pp).isDir = true)
    (hleaf : ∀ m, (L (m :: n :: pp)).isAbsent = true) : HostStep L (L.set (n :: pp) X) := by
  refine ⟨fun hd => by rw [set_root]; exact hd, fun ht m q hmq => ?_⟩
  simp only [Layer.set] at hmq ⊢
  by_cases h1 : m :: q = n :: pp
  · have : q = pp := by injection h1
    subst this
    rw [if_neg (ne_cons_self n q)]; exact hp
  · rw [if_neg h1] at hmq
    by_cases h2 : q = n :: pp
    · subst h2
      rw [hleaf m] at hmq; cases hmq
    · rw [if_neg h2]; exact ht m q hmq

theorem insertedMem_removedMem (mem : Mem) (n : Name) (pp : Path) (pm m' : MNode) :
    insertedMem (removedMem mem n pp pm) n pp { pm with kids := pm.kids.filter (· != n) } m' =
      insertedMem mem n pp pm m' := by
  funext p
  rw [insertedMem_apply, insertedMem_apply, removedMem_apply]
  by_cases h1 : p = pp
  · simp only [h1, if_true]
    congr 2
    simp only [addNames]
    congr 1
    rw [List.filter_filter]
    apply List.filter_congr
    intro x _
    by_cases hx : x = n <;> simp [hx]
  · simp only [h1, if_false]
    by_cases h2 : p = n :: pp
    · simp [h2]
    · simp only [h2, if_false]
      cases h3 : (n :: pp).isSuffixOf p <;> simp

/-- what the forest says after a successful removal: a whiteout node, or a loaded parent that does
    not list the name -/
def Gone (pp : Path) (n : Name) (s : St) : Prop :=
  (∃ m, s.mem (n :: pp) = some m ∧ m.whiteout = true) ∨
  (∃ pm, s.mem pp = some pm ∧ pm.loaded = true ∧ n ∉ pm.kids)

/-- ... and then nothing answers LOOKUP there, on disk -/
theorem gone_specStat {s : St} (hc : Consistent s) {pp : Path} {n : Name} (h : Gone pp n s) :
    specStat s.disk (n :: pp) = none := by
  rcases h with ⟨m, hm, hw⟩ | ⟨pm, hpm, hlo, hn⟩
  · rw [specStat_of_mem hc hm]
    have := hc.wh _ m hm
    rw [hw] at this
    cases hr : m.reals with
    | nil => rfl
    | cons r rest => rw [hr] at this; simp [headStat, headWhiteout] at this ⊢; simp [this]
  · have hk := hc.kidsLoaded pp pm hpm hlo n
    rw [specStat_eq]
    cases he : expReals s.disk (n :: pp) with
    | nil => rfl
    | cons r rest =>
      by_cases hw : r.whiteout = true
      · simp [headStat, hw]
      · simp only [Bool.not_eq_true] at hw
        exact absurd (hk.2 (by rw [he]; simp [needsNode, hw])) hn

/-- the tail of `do_rm` for a non-directory, or for a directory that only lower layers have: what
    is left in the upper layer and in the forest -/
theorem rmFinish_cons {s : St} (hc : Consistent s) (pp : Path) (n : Name) (dir : Bool) {pm node : MNode}
    (hpm : s.mem pp = some pm) (hpu : pm.inUpper = true) (hlo : pm.loaded = true)
    (hnode : s.mem (n :: pp) = some node) (hnw : node.whiteout = false)
    (hdir : dir = true → node.inUpper = false) :
    Outcome (rmFinish pp n dir node pm (!(node.upperLayerOnly && !lowerEntryExists s.disk pm n)) s)
      (fun _ s' => Consistent s' ∧ Gone pp n s' ∧ FrameX (n :: pp) s s') (fun s' => Consistent s' ∧ ViewX s s') := by
  have hl := hc.toLocal
  obtain ⟨pr, hpr, hprl, hprp, hpru, _, prest, hpreals⟩ := upper_head hc hpm hpu
  obtain ⟨L, hup⟩ : ∃ L, s.disk.upper = some L := by
    cases h : s.disk.upper with
    | none => have := no_upper_not_inUpper hc h hpm; rw [this] at hpu; cases hpu
    | some L => exact ⟨L, rfl⟩
  have hu : s.disk.upper.isSome := by rw [hup]; rfl
  have hframeX : ∀ (X' : Node) (s' : St), s'.disk = s.disk.setUpper (n :: pp) X' → FrameX (n :: pp) s s' := by
    intro X' s' hd
    refine FrameX.of_upper hup (L' := L.set (n :: pp) X') (by rw [hd]; simp [Disk.setUpper, hup]) _ fun q hq => ?_
    have : q ≠ n :: pp := by intro h; rw [h, below_self] at hq; cases hq
    simp only [Layer.set, if_neg this]
  have hL0 : s.disk.layer pr.layer = some L := by rw [hprl]; exact hup
  obtain ⟨pm', hpm', hnk⟩ := hl.reach n pp node hnode
  rw [hpm] at hpm'; cases hpm'
  have hdir0 := parent_isDir_of_kid hc hpm hpu hlo hnk
  have hpd : (L pp).isDir = true := by simpa [Disk.nodeAt, Disk.layer, hup] using hdir0
  -- the node's first real inode
  obtain ⟨rn, nrest, hnreals⟩ : ∃ rn nrest, node.reals = rn :: nrest := by
    cases hr : node.reals with
    | nil =>
      exfalso
      have := (hl.kidsLoaded pp pm hpm hlo n).1 hnk
      have hch := hl.child pp pm n node hpm hnode
      rcases hch with h | ⟨e, he, _, h⟩
      · rw [hr] at h; exact this h.symm
      · rw [hr] at h; cases h
    | cons rn nrest => exact ⟨rn, nrest, rfl⟩
  have hri : ({ childReal pr n with whiteout := true } : Real) =
      { layer := 0, inUpper := true, path := n :: pp, whiteout := true, opq := false } := by
    simp [childReal, hprl, hprp]
  -- common end: a whiteout is created at a path where the upper layer has nothing (any more)
  have whiteoutEnd : ∀ (s3 : St) (L1 : Layer), s3.disk = s.disk.setLayer 0 L1 →
      s3.mem = removedMem s.mem n pp pm → (L1 (n :: pp)).isAbsent = true → (L1 pp).isDir = true →
      L1.set (n :: pp) .whiteout = L.set (n :: pp) .whiteout →
      (∀ m, (L (m :: n :: pp)).isAbsent = true) →
      Outcome ((do
          let ri ← pr.createWhiteout n
          insertChild pp n (newNode ri)) s3) (fun _ s' => Consistent s' ∧ Gone pp n s' ∧ FrameX (n :: pp) s s')
          (fun s' => Consistent s' ∧ ViewX s s') := by
    intro s3 L1 hd3 hm3 hL1a hL1p hL1set hleaf
    have hcw : hCreateWhiteout L1 pr.path n = .ok (L1.set (n :: pp) .whiteout) := by
      rw [hprp]
      cases hx : L1 (n :: pp) <;> simp_all [hCreateWhiteout, Node.isAbsent]
      cases hy : L1 pp <;> simp_all [hMk, hParent, Node.isDir, Node.isAbsent]
    have hL3 : s3.disk.layer pr.layer = some L1 := by rw [hprl, hd3]; simp [Disk.layer, Disk.setLayer]
    obtain ⟨s4, h4, hd4, hm4⟩ := layerCall_ok' (f := fun L => hCreateWhiteout L pr.path n) Method.createWhiteout hL3 hcw
    have hcwok : pr.createWhiteout n s3 = .ok { childReal pr n with whiteout := true } s4 := by
      simp only [Real.createWhiteout, hpru, Bool.not_true, Bool.false_eq_true, if_false]
      rw [bind_ok h4]; rfl
    rw [bind_ok hcwok]
    have hpm4 : s4.mem pp = some { pm with kids := pm.kids.filter (· != n) } := by
      rw [hm4, hm3, removedMem_apply]; simp
    obtain ⟨s5, hins, hd5, hm5⟩ := insertChild_ok' (s := s4) n (newNode { childReal pr n with whiteout := true }) hpm4
    rw [hins]
    have hloc := newEntry_localExp hc hu n pp .whiteout hpm hpu hdir0 rfl (Or.inl rfl)
    have hreal : realOf (s.disk.setUpper (n :: pp) .whiteout) (n :: pp) 0 = { childReal pr n with whiteout := true } := by
      have : (s.disk.setUpper (n :: pp) .whiteout).nodeAt 0 (n :: pp) = .whiteout := by
        rw [nodeAt_setUpper _ _ _ hu]; simp
      simp [realOf, this, hri, Node.isWhiteout, Node.isOpaqueDir]
    have := consistent_insertChild hc hup n pp .whiteout (m' := newNode { childReal pr n with whiteout := true })
      hpm hlo ⟨rfl, rfl⟩ (hostStep_replace L pp n .whiteout hpd hleaf)
      (by rw [hloc, hreal]; exact Or.inl rfl)
      (by simp [newNode, headWhiteout])
      (by rw [hloc]; simp) []
    have hdisk5 : s5.disk = s.disk.setUpper (n :: pp) .whiteout := by
      rw [hd5, hd4, hd3, hprl, hL1set]; simp [Disk.setUpper, hup, Disk.setLayer]
    refine ⟨this.congr ?_ ?_, Or.inl ⟨newNode { childReal pr n with whiteout := true }, ?_, rfl⟩, hframeX _ s5 hdisk5⟩
    · exact hdisk5
    · rw [hm5, hm4, hm3, insertedMem_removedMem]
    · rw [hm5, hm4, hm3, insertedMem_removedMem, insertedMem_apply]
      simp [cons_ne_self]
  unfold rmFinish
  rw [hpr]
  simp only []
  by_cases hnu : node.inUpper = true
  · -- the node has an upper entry: unlink it
    have hdf : dir = false := by
      cases dir with
      | false => rfl
      | true => have := hdir rfl; rw [hnu] at this; cases this
    subst hdf
    obtain ⟨r0, _, hl0, hp0, _, hw0, rest0, hr0⟩ := upper_head hc hnode hnu
    have hq_present : (L (n :: pp)).isAbsent = false := by
      have := head_present hc hnode hr0
      simpa [Disk.statReal, hl0, hp0, Disk.nodeAt, Disk.layer, hup] using this
    simp only [hnu, whenM_true, Bool.false_eq_true, if_false, Bool.true_and]
    cases hunl : hUnlink L pr.path n with
    | error e =>
      rw [bind_err (layerCall_err Method.unlink hL0 hunl)]
      exact ⟨hc.congr rfl rfl, ViewX.of_disk rfl⟩
    | ok L1 =>
      obtain ⟨s3, h3, hd3, hm3⟩ := layerCall_ok' (f := fun L => hUnlink L pr.path n) Method.unlink hL0 hunl
      rw [bind_ok h3]
      rw [hprp] at hunl
      have hL1 : L1 = L.set (n :: pp) .absent ∧ (L (n :: pp)).isDir = false := by
        simp only [hUnlink] at hunl
        cases hx : L (n :: pp) <;> simp [hx] at hunl <;> exact ⟨hunl.symm, by simp [Node.isDir]⟩
      obtain ⟨hL1eq, hqnd⟩ := hL1
      have hleaf : ∀ m, (L (m :: n :: pp)).isAbsent = true := fun m => leaf_of_nondir (hl.trees 0 L hup) hqnd m
      obtain ⟨s4, h4, hd4, hm4⟩ := removeChild_ok' (s := s3) n (by rw [hm3]; exact hpm)
      rw [bind_ok h4]
      by_cases hneed : (if pr.opq = true then false else !(node.upperLayerOnly && !lowerEntryExists s.disk pm n)) = true
      · -- a whiteout takes the place
        rw [if_pos hneed]
        refine whiteoutEnd s4 L1 (by rw [hd4, hd3, hprl]) (by rw [hm4, hm3]) (by rw [hL1eq]; simp [Layer.set, Node.isAbsent])
          (by rw [hL1eq]; simp only [Layer.set, if_neg (ne_cons_self n pp)]; exact hpd)
          (by rw [hL1eq, Layer.set_set]) hleaf
      · -- the name simply goes
        rw [if_neg hneed]
        have hcond : pr.opq = true ∨ lowerEntryExists s.disk pm n = false := by
          by_cases ho : pr.opq = true
          · exact Or.inl ho
          · right
            simp only [ho, Bool.false_eq_true, if_false] at hneed
            cases hle : lowerEntryExists s.disk pm n with
            | false => rfl
            | true => simp [hle] at hneed
        have hH := removed_needsNode hc hu n pp hpm hpreals hpru hcond
        have := consistent_removeChild hc hup n pp .absent hpm (by rw [← hL1eq]; exact keepRoot_hUnlink pp n L L1 hunl) hH []
        have hdisk4 : s4.disk = s.disk.setUpper (n :: pp) .absent := by
          rw [hd4, hd3, hprl, hL1eq]; simp [Disk.setUpper, hup]
        refine ⟨this.congr ?_ ?_, Or.inr ⟨{ pm with kids := pm.kids.filter (· != n) }, ?_, hlo, ?_⟩, hframeX _ s4 hdisk4⟩
        · exact hdisk4
        · rw [hm4, hm3]
        · rw [hm4, hm3, removedMem_apply]; simp
        · simp [List.mem_filter]
  · -- only lower layers have the node: a whiteout is needed
    simp only [Bool.not_eq_true] at hnu
    obtain ⟨_, _, _, habs, _⟩ := lowerDir_facts hc n pp hpm hnode hpu hnu hnreals
    have hLq : (L (n :: pp)).isAbsent = true := by simpa [Disk.nodeAt, Disk.layer, hup] using habs
    have hulo : node.upperLayerOnly = false := by
      simp only [MNode.upperLayerOnly]
      cases hrr : node.reals with
      | nil => rfl
      | cons a t =>
        cases t with
        | nil => simpa [MNode.inUpper, hrr] using hnu
        | cons b t' => rfl
    simp only [hnu, whenM_false, Bool.false_and, Bool.false_eq_true, if_false, hulo, Bool.not_false, if_true]
    rw [bind_ok (pure_eval () s)]
    obtain ⟨s4, h4, hd4, hm4⟩ := removeChild_ok' (s := s) n hpm
    rw [bind_ok h4]
    have hleaf : ∀ m, (L (m :: n :: pp)).isAbsent = true := fun m =>
      leaf_of_nondir (hl.trees 0 L hup) (by cases hx : L (n :: pp) <;> simp_all [Node.isAbsent, Node.isDir]) m
    refine whiteoutEnd s4 L ?_ hm4 hLq hpd rfl hleaf
    rw [hd4]
    cases hs : s.disk with
    | mk up lo => simp [hs] at hup ⊢; simp [Disk.setLayer, hup]

/-- `lookup_node(pp, "")` on a visible directory: loaded, not a whiteout, with real inodes -/
theorem lookupSelf_ready' (pp : Path) :
    Triple (fun s => Consistent s ∧ DirAt pp s) (lookupSelf pp)
      (fun _ s => Consistent s ∧ ∃ pm, s.mem pp = some pm ∧ pm.loaded = true ∧ pm.whiteout = false ∧
        ∃ r rest, pm.reals = r :: rest) Consistent := by
  intro s ⟨hc, st, hsp, hd, m, hm⟩
  have h := lookupSelf_spec s.disk pp s ⟨⟨hc, rfl⟩, m, hm⟩
  refine ⟨fun a s' hf => ?_, fun e s' hf => (h.2 e s' hf).1.1⟩
  obtain ⟨⟨hc', hd'⟩, hm', hw', hload⟩ := h.1 a s' hf
  refine ⟨hc', a, hm', hload st hsp hd, hw', ?_⟩
  have := specStat_of_mem hc' hm'
  rw [hd', hsp] at this
  cases hr : a.reals with
  | nil => rw [hr] at this; cases this
  | cons r rest => exact ⟨r, rest, rfl⟩

/-- `do_rm` for a non-directory, after the parent has been looked up -/
theorem doRm_unlink_tail {s : St} (hc : Consistent s) (pp : Path) (n : Name) {pm : MNode}
    (hpm : s.mem pp = some pm) (hlo : pm.loaded = true) (hw : pm.whiteout = false)
    {r : Real} {rest : List Real} (hr : pm.reals = r :: rest) :
    Outcome ((do
        let node ← lookupNode pp n
        if node.whiteout then fail ENOENT else do
        whenM false (rmDirPrep (n :: pp))
        copyNodeUp pp
        let node ← getNode (n :: pp)
        let pm ← getNode pp
        let s ← getSt
        rmFinish pp n false node pm (!(node.upperLayerOnly && !lowerEntryExists s.disk pm n))) s)
      (fun _ s' => Consistent s' ∧ Gone pp n s' ∧ (DirNode pp s → FrameX (n :: pp) s s'))
      (fun s' => Consistent s' ∧ (DirNode pp s → ViewX s s')) := by
  have hl := hc.toLocal
  have hls := lookupSelf_loaded hc hpm hw hlo hr
  by_cases hn : n ∈ pm.kids
  · obtain ⟨node, hnode⟩ := hl.kidsMem pp pm n hpm hn
    have hlk : lookupNode pp n s = .ok node s := by
      unfold lookupNode
      rw [bind_ok hls]
      simp [hn, getNode_ok hnode]
    rw [bind_ok hlk]
    by_cases hnw : node.whiteout = true
    · simp only [hnw, if_true]; exact ⟨hc, fun _ => ViewX.refl s⟩
    · simp only [Bool.not_eq_true] at hnw
      simp only [hnw, Bool.false_eq_true, if_false, whenM_false]
      rw [bind_ok (pure_eval () s)]
      have hcp := copyNodeUp_spec pp s hc
      cases hres : copyNodeUp pp s with
      | err e s' => rw [hres] at hcp; rw [bind_err hres]; exact ⟨hcp.1, fun _ => hcp.2⟩
      | ok u s2 =>
        rw [hres] at hcp
        rw [bind_ok hres]
        obtain ⟨pm2, hpm2, hpu2⟩ := hcp.up
        obtain ⟨pm2', hpm2', hlo2, _⟩ := hcp.keep pp pm hpm
        rw [hpm2] at hpm2'; cases hpm2'
        have hq2 : s2.mem (n :: pp) = some node := by
          rw [hcp.frame _ (by simp [isSuffixOf_cons_self])]; exact hnode
        rw [bind_ok (getNode_ok hq2), bind_ok (getNode_ok hpm2), bind_ok (getSt_eval s2)]
        have hfin := rmFinish_cons hcp.cons pp n false hpm2 hpu2 (by rw [hlo2]; exact hlo) hq2 hnw (fun h => by cases h)
        cases hres3 : rmFinish pp n false node pm2 (!(node.upperLayerOnly && !lowerEntryExists s2.disk pm2 n)) s2 with
        | err e s3 => rw [hres3] at hfin; exact ⟨hfin.1, fun hdn => (hcp.view hdn).trans hfin.2⟩
        | ok u3 s3 =>
          rw [hres3] at hfin
          exact ⟨hfin.1, hfin.2.1, fun hdn => FrameX.after (hcp.view hdn) hfin.2.2⟩
  · have hlk : lookupNode pp n s = .err ENOENT s := by
      unfold lookupNode
      rw [bind_ok hls]
      simp [hn, fail]
    rw [bind_err hlk]
    exact ⟨hc, fun _ => ViewX.refl s⟩

theorem doRm_unlink_cons (pp : Path) (n : Name) :
    Triple (fun s => Consistent s ∧ DirAt pp s) (doRm pp n false) (fun _ s => Consistent s ∧ Gone pp n s) Consistent := by
  unfold doRm
  refine Triple.bind (Q := fun _ s => Consistent s ∧ DirAt pp s) ?_ fun up => ?_
  · intro s hs
    refine ⟨fun a s' h => ?_, fun e s' h => ?_⟩ <;> cases h
    exact hs
  refine Triple.ite' (fun _ => Triple.fail' fun _ h => h.1) fun _ => ?_
  refine Triple.bind (lookupSelf_ready' pp) fun _ => ?_
  apply Triple.ofOutcome
  intro s ⟨hc, pm, hpm, hlo, hw, r, rest, hr⟩
  have := doRm_unlink_tail hc pp n hpm hlo hw hr
  revert this
  generalize (do
        let node ← lookupNode pp n
        if node.whiteout then fail ENOENT else do
        whenM false (rmDirPrep (n :: pp))
        copyNodeUp pp
        let node ← getNode (n :: pp)
        let pm ← getNode pp
        let s ← getSt
        rmFinish pp n false node pm (!(node.upperLayerOnly && !lowerEntryExists s.disk pm n)) : M Unit) s = res
  intro this
  cases res with
  | ok u s' => exact ⟨this.1, this.2.1⟩
  | err e s' => exact this.1

/-- LOOKUP of the last component keeps the parent a visible directory in the forest -/
theorem doLookup_keepsDir (pp : Path) (n : Name) :
    Triple (fun s => Consistent s ∧ DirAt pp s) (doLookup pp n) (fun _ s => Consistent s ∧ DirAt pp s) Consistent := by
  intro s ⟨hc, st, hsp, hd, m, hm⟩
  have h := doLookup_spec s.disk pp n s ⟨⟨hc, rfl⟩, ⟨m, hm⟩, st, hsp, hd⟩
  refine ⟨fun a s' hf => ?_, fun e s' hf => (h.2 e s' hf).1.1⟩
  obtain ⟨⟨hc', hd'⟩, _, c, hcm⟩ := h.1 a s' hf
  obtain ⟨pm', hpm', _⟩ := hc'.reach n pp c hcm
  exact ⟨hc', st, by rw [hd']; exact hsp, hd, pm', hpm'⟩

theorem splitLast_reverse : ∀ (p pp' : List Name) (n : Name), splitLast p = some (pp', n) →
    p.reverse = n :: pp'.reverse
  | [], _, _, h => by simp [splitLast] at h
  | [a], pp', n, h => by
    simp [splitLast] at h
    obtain ⟨rfl, rfl⟩ := h; rfl
  | a :: b :: rest, pp', n, h => by
    simp only [splitLast] at h
    cases hs : splitLast (b :: rest) with
    | none => simp [hs] at h
    | some r =>
      obtain ⟨q', n'⟩ := r
      simp [hs] at h
      obtain ⟨rfl, rfl⟩ := h
      have ih := splitLast_reverse (b :: rest) q' n' hs
      simp only [List.reverse_cons] at ih ⊢
      rw [ih]; simp

/-- `resolveParent` with the path it resolved -/
theorem resolveParent_spec' (p : List Name) :
    Triple Consistent (resolveParent p) (fun r s => (r.2 :: r.1 = p.reverse) ∧ (Consistent s ∧ DirAt r.1 s)) Consistent := by
  intro s hs
  have h0 := resolveParent_spec p s hs
  refine ⟨fun a s' hf => ⟨?_, h0.1 a s' hf⟩, h0.2⟩
  unfold resolveParent at hf
  cases hsl : splitLast p with
  | none => simp only [hsl] at hf; cases hf
  | some r0 =>
    obtain ⟨pp', n⟩ := r0
    simp only [hsl] at hf
    have h := resolve_spec s.disk pp' s ⟨hs, rfl⟩
    cases hr : resolve pp' s with
    | err e s1 => rw [bind_err hr] at hf; cases hf
    | ok r s1 =>
      obtain ⟨ppath, pst⟩ := r
      have hpath := (h.1 _ s1 hr).2.1
      rw [bind_ok hr] at hf
      by_cases hd : pst.isDir = true
      · simp only [hd, Bool.not_true, Bool.false_eq_true, if_false] at hf
        cases hf
        simp only at hpath ⊢
        rw [hpath, splitLast_reverse p pp' n hsl]
      · simp only [hd, Bool.not_false, if_true] at hf
        cases hf

theorem runOp_unlink_gone (p : List Name) :
    Triple Consistent (runOp (.unlink p))
      (fun _ s => Consistent s ∧ specStat s.disk p.reverse = none) Consistent := by
  unfold runOp
  refine Triple.bind (resolveParent_spec' p) fun r => Triple.pure_pre fun hpath => ?_
  obtain ⟨pp, n⟩ := r
  refine Triple.bind (doLookup_keepsDir pp n) fun st => ?_
  refine Triple.ite' (fun _ => Triple.fail' fun _ h => h.1) fun _ => ?_
  refine Triple.bind (doRm_unlink_cons pp n) fun _ => ?_
  refine Triple.pure' fun s h => ⟨h.1, ?_⟩
  have := gone_specStat h.1 h.2
  simp only at hpath
  rw [← hpath]; exact this

theorem runOp_unlink_cons (p : List Name) :
    Triple Consistent (runOp (.unlink p)) (fun _ => Consistent) Consistent :=
  (runOp_unlink_gone p).post fun _ _ h => h.1

end Fbr.Ovl
