/-
  Fbr.Lemmas.PtHostTable — the inode-table operations of the passthrough model keep the joint
  invariant `J` (Fbr.Lemmas.PtHostSafe): `forget_one` never removes or re-maps the root entry, and
  the table update at the end of `do_lookup` never gives the export root a second number — a lookup
  that reaches the export root object always finds the root entry (by id, or by its file handle).
-/
import Fbr.Lemmas.PtHostSafe

namespace Fbr.PtHost
open Fbr.Host

/-! ### association lists -/

theorem lookup_filter_other (l : List (Nat × Nat)) (x k : Nat) (h : k ≠ x) :
    (l.filter (·.1 != x)).lookup k = l.lookup k := by
  induction l with
  | nil => rfl
  | cons p t ih =>
    obtain ⟨a, b⟩ := p
    by_cases ha : a = x
    · have : (a != x) = false := by simpa using ha
      have hk : (k == a) = false := by rw [ha]; simpa using h
      simp only [List.filter, this, List.lookup, hk]; exact ih
    · have : (a != x) = true := by simpa using ha
      simp only [List.filter, this, List.lookup]
      rw [ih]

theorem lookup_cons_other (l : List (Nat × Nat)) (a b k : Nat) (h : k ≠ a) : ((a, b) :: l).lookup k = l.lookup k := by
  have hk : (k == a) = false := by simpa using h
  simp only [List.lookup, hk]

theorem lookup_cons_self (l : List (Nat × Nat)) (a b : Nat) : ((a, b) :: l).lookup a = some b := by
  simp [List.lookup]

/-! ### `get` -/

theorem get_mem {pt : PtState} {i : Nat} {d : InodeData} (h : pt.get i = some d) : d ∈ pt.inodes ∧ d.inode = i := by
  unfold PtState.get at h
  exact ⟨List.mem_of_find?_eq_some h, by simpa using List.find?_some h⟩

theorem get_of_mem {pt : PtState} {i : Nat} {d : InodeData} (hd : d ∈ pt.inodes) (hi : d.inode = i) : ∃ d', pt.get i = some d' := by
  unfold PtState.get
  cases hf : pt.inodes.find? (·.inode == i) with
  | some d' => exact ⟨d', rfl⟩
  | none =>
    have := List.find?_eq_none.mp hf d hd
    simp [hi] at this

theorem J.getRoot {pt : PtState} {h : Ref.State} (j : J pt h) : ∃ d, pt.get ROOT_ID = some d := by
  obtain ⟨d, hd, hi⟩ := j.rootEx
  exact get_of_mem hd hi

/-- two handle ids of table entries: the root's and one for another object differ -/
theorem J.handle_ne {pt : PtState} {h : Ref.State} (j : J pt h) (d : InodeData) (hd : d ∈ pt.inodes) (k0 : Nat)
    (h1 : d.inode = ROOT_ID) (hk0 : d.handle = .handle k0) (k : Nat) (o : Obj) (hk : h.handles k = some o)
    (ho : o ≠ h.exportRoot) : k ≠ k0 := by
  intro e
  have hden := j.den d hd
  rw [hk0] at hden
  have : h.handles k0 = some d.id := hden
  rw [j.rootId d hd h1, ← e, hk] at this
  exact ho (Option.some.inj this)

/-! ### `setRefcount`, `remove`, `forget_one` -/

theorem mem_setRefcount {pt : PtState} {i rc : Nat} {d' : InodeData} (h : d' ∈ (pt.setRefcount i rc).inodes) :
    ∃ d ∈ pt.inodes, d'.inode = d.inode ∧ d'.id = d.id ∧ d'.handle = d.handle := by
  simp only [PtState.setRefcount, List.mem_map] at h
  obtain ⟨d, hd, e⟩ := h
  refine ⟨d, hd, ?_⟩
  split at e <;> (rw [← e]; exact ⟨rfl, rfl, rfl⟩)

theorem j_setRefcount {pt : PtState} {h : Ref.State} (j : J pt h) (i rc : Nat) : J (pt.setRefcount i rc) h := by
  refine ⟨j.good, j.wf, ?_, ?_, ?_, ?_, j.byId, ?_, j.next⟩
  · obtain ⟨d, hd, hi⟩ := j.rootEx
    refine ⟨if d.inode == i then { d with refcount := rc } else d, ?_, ?_⟩
    · simp only [PtState.setRefcount, List.mem_map]; exact ⟨d, hd, rfl⟩
    · split <;> exact hi
  · intro d' hd' h1
    obtain ⟨d, hd, e1, e2, _⟩ := mem_setRefcount hd'
    rw [e2]; exact j.rootId d hd (by rw [← e1]; exact h1)
  · intro d' hd' h1
    obtain ⟨d, hd, e1, e2, _⟩ := mem_setRefcount hd'
    rw [e1]; exact j.uniq d hd (by rw [← e2]; exact h1)
  · intro d' hd'
    obtain ⟨d, hd, _, e2, e3⟩ := mem_setRefcount hd'
    rw [e2, e3]; exact j.den d hd
  · intro d' hd' k h1 hk
    obtain ⟨d, hd, e1, _, e3⟩ := mem_setRefcount hd'
    exact j.byH d hd k (by rw [← e1]; exact h1) (by rw [← e3]; exact hk)

theorem j_remove {pt : PtState} {h : Ref.State} (j : J pt h) (i : Nat) (keep : Bool) (hi : i ≠ ROOT_ID) :
    J (pt.remove i keep) h := by
  unfold PtState.remove
  cases hg : pt.get i with
  | none => exact j
  | some d =>
    obtain ⟨hd, hdi⟩ := get_mem hg
    have hne : d.id ≠ h.exportRoot := fun e => hi (by rw [← hdi]; exact j.uniq d hd e)
    have hsub : ∀ x, x ∈ pt.inodes.filter (·.inode != i) → x ∈ pt.inodes := fun x hx => (List.mem_filter.mp hx).1
    have hrootEx : ∃ x ∈ pt.inodes.filter (·.inode != i), x.inode = ROOT_ID := by
      obtain ⟨r, hr, hri⟩ := j.rootEx
      refine ⟨r, List.mem_filter.mpr ⟨hr, ?_⟩, hri⟩
      rw [hri]; simpa using (fun e => hi e.symm)
    -- the entry list shrinks
    have j1 : J { pt with inodes := pt.inodes.filter (·.inode != i) } h :=
      ⟨j.good, j.wf, hrootEx, fun x hx => j.rootId x (hsub x hx), fun x hx => j.uniq x (hsub x hx),
       fun x hx => j.den x (hsub x hx), j.byId, fun x hx => j.byH x (hsub x hx), j.next⟩
    simp only []
    cases keep with
    | true => exact j1
    | false =>
      simp only [Bool.false_eq_true, if_false]
      refine ⟨j.good, j.wf, hrootEx, j1.rootId, j1.uniq, j1.den, ?_, ?_, j.next⟩
      · show (pt.byId.filter (·.1 != d.id)).lookup h.exportRoot = some ROOT_ID
        rw [lookup_filter_other _ _ _ (fun e => hne e.symm)]; exact j.byId
      · intro x hx k0 h1 hk0
        have hx' := hsub x hx
        have hden := j.den d hd
        revert hden
        cases hdh : d.handle with
        | file f => intro _; exact j.byH x hx' k0 h1 hk0
        | handle k =>
          intro hden
          have hkk : k ≠ k0 := j.handle_ne x hx' k0 h1 hk0 k d.id hden hne
          show (pt.byHandle.filter (·.1 != k)).lookup k0 = some ROOT_ID
          rw [lookup_filter_other _ _ _ (fun e => hkk e.symm)]
          exact j.byH x hx' k0 h1 hk0

/-- **`forget_one` keeps the invariant**: the root is skipped, other entries are not the root's -/
theorem j_forgetOne (cfg : Cfg) {pt : PtState} {h : Ref.State} (j : J pt h) (i c : Nat) : J (forgetOne cfg pt i c) h := by
  unfold forgetOne
  by_cases hi : (i == ROOT_ID) = true
  · rw [if_pos hi]; exact j
  · rw [if_neg hi]
    have hi' : i ≠ ROOT_ID := by simpa using hi
    cases hg : pt.get i with
    | none => exact j
    | some d =>
      simp only []
      split
      · exact j_remove j i _ hi'
      · exact j_setRefcount j i _

end Fbr.PtHost
