/-
  (A) The scan logic of the code, written on layer indices (`expIdx`: what `import`,
  `scan_childrens` and `new_from_real_inodes` compute along a path), agrees with the SPEC
  (`stackIdx` / `merge`).
-/
import Fbr.Ovl
import Fbr.Lemmas.OvlMerge

namespace Fbr.Ovl

/-- `takeDirs` on layer indices: the directories that take part in the merged directory `p` -/
def dirsIdx (d : Disk) (p : Path) : List Nat → List Nat
  | [] => []
  | i :: rest =>
    if (d.nodeAt i p).isDir then
      (if (d.nodeAt i p).isOpaqueDir then [i] else i :: dirsIdx d p rest)
    else []

/-- `new_from_real_inodes` on layer indices -/
def cutW (d : Disk) (p : Path) : List Nat → List Nat
  | [] => []
  | i :: rest =>
    if (d.nodeAt i p).isDir && !(d.nodeAt i p).isOpaqueDir then i :: dirsIdx d p rest else [i]

/-- the layers whose entry at `p` the overlay node `p` keeps as real inodes -/
def expIdx (d : Disk) : Path → List Nat
  | [] => d.indices
  | n :: pp => cutW d (n :: pp) ((dirsIdx d pp (expIdx d pp)).filter fun i => !(d.nodeAt i (n :: pp)).isAbsent)

/-- what is visible of a kept stack -/
def visIdx (d : Disk) (p : Path) : List Nat → List Nat
  | [] => []
  | i :: rest =>
    if (d.nodeAt i p).isDir then dirsIdx d p (i :: rest)
    else if (d.nodeAt i p).isWhiteout || (d.nodeAt i p).isAbsent then [] else [i]

theorem cutDirsIdx_eq (d : Disk) (p : Path) : ∀ l, cutIdx.cutDirsIdx d p l = dirsIdx d p l
  | [] => rfl
  | j :: rest => by
    rw [cutDirsIdx_cons, dirsIdx]
    cases h : d.nodeAt j p <;> simp [Node.isDir, Node.isOpaqueDir, cutDirsIdx_eq d p rest]

theorem cutIdx_eq_vis (d : Disk) (p : Path) : ∀ l, cutIdx d p l = visIdx d p l
  | [] => rfl
  | i :: rest => by
    rw [cutIdx_cons, visIdx, dirsIdx]
    cases h : d.nodeAt i p <;>
      simp [Node.isDir, Node.isOpaqueDir, Node.isWhiteout, Node.isAbsent, cutDirsIdx_eq]

theorem dirsIdx_all_dirs (d : Disk) (p : Path) : ∀ l, ∀ i ∈ dirsIdx d p l, (d.nodeAt i p).isDir = true
  | [], i, h => by simp [dirsIdx] at h
  | j :: rest, i, h => by
    rw [dirsIdx] at h
    split at h
    · split at h
      · simp at h; subst h; assumption
      · simp at h
        rcases h with h | h
        · subst h; assumption
        · exact dirsIdx_all_dirs d p rest i h
    · simp at h

theorem dirsIdx_idem (d : Disk) (p : Path) : ∀ l, dirsIdx d p (dirsIdx d p l) = dirsIdx d p l
  | [] => rfl
  | i :: rest => by
    rw [dirsIdx]
    split
    · rename_i hd
      split
      · rename_i ho; simp [dirsIdx, hd, ho]
      · rename_i ho; simp [dirsIdx, hd, ho, dirsIdx_idem d p rest]
    · rfl

theorem dirsIdx_of_nondir {d : Disk} {p : Path} {i : Nat} {rest : List Nat}
    (h : (d.nodeAt i p).isDir = false) : dirsIdx d p (i :: rest) = [] := by
  simp [dirsIdx, h]

theorem visIdx_cutW (d : Disk) (p : Path) (l : List Nat) : visIdx d p (cutW d p l) = visIdx d p l := by
  cases l with
  | nil => rfl
  | cons i rest =>
    rw [cutW]
    by_cases hd : (d.nodeAt i p).isDir = true
    · by_cases ho : (d.nodeAt i p).isOpaqueDir = true
      · simp [hd, ho, visIdx, dirsIdx]
      · simp only [Bool.not_eq_true] at ho
        simp [hd, ho, visIdx, dirsIdx, dirsIdx_idem]
    · simp only [Bool.not_eq_true] at hd
      simp [hd, visIdx]

theorem dirsIdx_cutW (d : Disk) (p : Path) (l : List Nat) : dirsIdx d p (cutW d p l) = dirsIdx d p l := by
  cases l with
  | nil => rfl
  | cons i rest =>
    rw [cutW]
    by_cases hd : (d.nodeAt i p).isDir = true
    · by_cases ho : (d.nodeAt i p).isOpaqueDir = true
      · simp [hd, ho, dirsIdx]
      · simp only [Bool.not_eq_true] at ho
        simp [hd, ho, dirsIdx, dirsIdx_idem]
    · simp only [Bool.not_eq_true] at hd
      simp [hd, dirsIdx]

theorem dirsIdx_visIdx (d : Disk) (p : Path) (l : List Nat) : dirsIdx d p (visIdx d p l) = dirsIdx d p l := by
  cases l with
  | nil => rfl
  | cons i rest =>
    rw [visIdx]
    by_cases hd : (d.nodeAt i p).isDir = true
    · simp [hd, dirsIdx_idem]
    · simp only [Bool.not_eq_true] at hd
      simp only [hd, Bool.false_eq_true, if_false]
      split
      · simp [dirsIdx, hd]
      · simp [dirsIdx, hd]

/-- filtering the participating directories by "is a directory here" changes nothing -/
theorem filter_dirs (d : Disk) (pp : Path) (n : Name) (l : List Nat) :
    (dirsIdx d pp l).filter (fun i => (d.nodeAt i pp).isDir && !(d.nodeAt i (n :: pp)).isAbsent) =
    (dirsIdx d pp l).filter (fun i => !(d.nodeAt i (n :: pp)).isAbsent) := by
  apply List.filter_congr
  intro i hi
  simp [dirsIdx_all_dirs d pp l i hi]

/-- the visible stack of a path whose kept stack does not start with a directory has no
    directory in it -/
theorem visIdx_filter_nondir (d : Disk) (pp : Path) (n : Name) (l : List Nat)
    (h : dirsIdx d pp l = []) :
    (visIdx d pp l).filter (fun i => (d.nodeAt i pp).isDir && !(d.nodeAt i (n :: pp)).isAbsent) = [] := by
  cases l with
  | nil => rfl
  | cons i rest =>
    by_cases hd : (d.nodeAt i pp).isDir = true
    · rw [dirsIdx, if_pos hd] at h
      split at h <;> simp at h
    · simp only [Bool.not_eq_true] at hd
      rw [visIdx]
      simp only [hd, Bool.false_eq_true, if_false]
      split
      · rfl
      · simp [hd]

/-- (A) the SPEC stack is the visible part of the stack the code keeps -/
theorem stackIdx_eq_vis (d : Disk) : ∀ p, stackIdx d p = visIdx d p (expIdx d p)
  | [] => by rw [stackIdx, expIdx, cutIdx_eq_vis]
  | n :: pp => by
    rw [stackIdx_cons, cands, stackIdx_eq_vis d pp, expIdx, cutIdx_eq_vis, visIdx_cutW]
    cases hl : expIdx d pp with
    | nil => rfl
    | cons i rest =>
      by_cases hd : (d.nodeAt i pp).isDir = true
      · have : visIdx d pp (i :: rest) = dirsIdx d pp (i :: rest) := by rw [visIdx, if_pos hd]
        rw [this, filter_dirs]
      · simp only [Bool.not_eq_true] at hd
        rw [visIdx_filter_nondir d pp n (i :: rest) (dirsIdx_of_nondir hd), dirsIdx_of_nondir hd]
        rfl

/-- every kept index has an entry at the path (below the root) -/
theorem expIdx_present (d : Disk) (n : Name) (pp : Path) :
    ∀ i ∈ expIdx d (n :: pp), (d.nodeAt i (n :: pp)).isAbsent = false := by
  intro i hi
  rw [expIdx] at hi
  generalize hc : (dirsIdx d pp (expIdx d pp)).filter (fun i => !(d.nodeAt i (n :: pp)).isAbsent) = c at hi
  have hall : ∀ j ∈ c, (d.nodeAt j (n :: pp)).isAbsent = false := by
    intro j hj
    rw [← hc] at hj
    simpa using (List.mem_filter.1 hj).2
  cases c with
  | nil => simp [cutW] at hi
  | cons j rest =>
    rw [cutW] at hi
    split at hi
    · simp at hi
      rcases hi with hi | hi
      · subst hi; exact hall _ (by simp)
      · -- i ∈ dirsIdx rest ⊆ rest
        have : i ∈ rest := by
          clear hc hall
          induction rest with
          | nil => simp [dirsIdx] at hi
          | cons k r ih =>
            rw [dirsIdx] at hi
            split at hi
            · split at hi
              · simp at hi; simp [hi]
              · simp at hi
                rcases hi with hi | hi
                · simp [hi]
                · exact List.mem_cons_of_mem _ (ih hi)
            · simp at hi
        exact hall _ (List.mem_cons_of_mem _ this)
    · simp at hi
      subst hi; exact hall _ (by simp)

/-- (A) what the SPEC shows at a path is the entry of the first kept layer -/
theorem merge_eq_head (d : Disk) (p : Path) :
    merge d p = match expIdx d p with
      | [] => .none
      | i :: _ => (d.nodeAt i p).view := by
  rw [merge_def, stackIdx_eq_vis]
  cases hl : expIdx d p with
  | nil => rfl
  | cons i rest =>
    rw [visIdx]
    by_cases hd : (d.nodeAt i p).isDir = true
    · simp only [hd, if_true, dirsIdx]
      by_cases ho : (d.nodeAt i p).isOpaqueDir = true
      · simp [ho]
      · simp [ho]
    · simp only [Bool.not_eq_true] at hd
      simp only [hd, Bool.false_eq_true, if_false]
      cases hn : d.nodeAt i p <;> simp_all [Node.isWhiteout, Node.isAbsent, Node.view, Node.isDir]

end Fbr.Ovl
