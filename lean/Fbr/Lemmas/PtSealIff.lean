/-
  Helper lemmas for C18: what each request does with and without sealing, split by whether it
  reaches beyond the current size (`Beyond`).
-/
import Fbr.Lemmas.PtSeal

namespace Fbr.Lemmas.PtSeal
open Fbr.PtSeal Fbr.PtSealSpec

/-- sealed and unsealed outcomes agree up to the probes of the seal check -/
def Same (s u : Out) : Prop :=
  s.ret = u.ret ∧ s.st.host.size = u.st.host.size ∧ s.st.handles = u.st.handles ∧ s.st.next = u.st.next ∧
    s.calls.filter (fun c => !HostCall.probe c) = u.calls

/-- `getData` in terms of `resolve` -/
theorem getData_resolve (cfg : Cfg) (st : St) (file h : Nat) (hd : Hnd) (hr : resolve cfg st file h = some hd) :
    ∃ c, getData cfg st file h = (st, .ok hd, c) ∧ c.all (fun c => !HostCall.mutating c) = true ∧
      c.filter (fun c => !HostCall.probe c) = c := by
  unfold resolve at hr
  unfold getData
  cases hno : cfg.noOpen with
  | false =>
    simp only [hno, Bool.false_eq_true, if_false] at hr ⊢
    simp only [Bool.not_false, if_true]
    cases hh : st.handles h with
    | none => simp [hh] at hr
    | some hd' =>
      simp only [hh] at hr ⊢
      split at hr
      · cases hr
        rename_i hf
        simp [hf]
      · cases hr
  | true =>
    simp only [hno, if_true] at hr
    simp only [Bool.not_true, Bool.false_eq_true, if_false]
    cases hsz : st.host.size file with
    | none => simp [hsz] at hr
    | some sz =>
      simp only [hsz, Option.isSome_some, if_true] at hr
      cases hr
      simp [openInode, hostOpen, hsz, openFlags, rdwr, HostCall.mutating, HostCall.probe]

theorem getData_cfg (cfg : Cfg) (b : Bool) (st : St) (file h : Nat) :
    getData { cfg with sealed := b } st file h = getData cfg st file h := by
  unfold getData openInode openFlags
  rfl

theorem checkFdFlags_append (hd : Hnd) (fl : Flags) : (checkFdFlags hd fl).1.fd.append = appendAfter hd fl := by
  unfold checkFdFlags appendAfter
  split <;> rfl

theorem checkFdFlags_calls (hd : Hnd) (fl : Flags) :
    (checkFdFlags hd fl).2.all (fun c => !HostCall.mutating c) = true ∧
    (checkFdFlags hd fl).2.filter (fun c => !HostCall.probe c) = (checkFdFlags hd fl).2 := by
  unfold checkFdFlags
  split <;> simp [HostCall.mutating, HostCall.probe]

theorem sealCheckWrite_err (sz start len : Nat) (h : start + len > sz) : ∃ e, sealCheckWrite sz start len = .error e := by
  unfold sealCheckWrite
  split
  · exact ⟨_, rfl⟩
  · split
    · exact ⟨_, rfl⟩
    · omega

theorem sealCheckWrite_pass (sz start len : Nat) (h : start + len ≤ sz) (hsz : sz < I64) : sealCheckWrite sz start len = .ok () := by
  unfold sealCheckWrite
  have : ¬ (start + len ≥ U64) := by simp only [U64, I64] at *; omega
  simp only [this, if_false]
  split
  · omega
  · rfl

theorem stepWrite_beyond (cfg : Cfg) (st : St) (file h : Nat) (fl : Flags) (len off : Nat) (hd0 : Hnd) (sz : Nat)
    (hr : resolve cfg st file h = some hd0) (hsz : st.host.size file = some sz)
    (hb : (if appendAfter hd0 fl then sz else off) + len > sz) :
    Refused (stepWrite { cfg with sealed := true } st file h fl len off) := by
  obtain ⟨c0, hg, hm, _⟩ := getData_resolve cfg st file h hd0 hr
  unfold stepWrite
  rw [getData_cfg, hg]
  simp only [if_true]
  have ha := checkFdFlags_append hd0 fl
  have hc := (checkFdFlags_calls hd0 fl).1
  rcases hck : checkFdFlags hd0 fl with ⟨hd, c1⟩
  rw [hck] at ha hc
  simp only at ha hc
  simp only [putHnd_host, hsz, ha]
  obtain ⟨e, he⟩ := sealCheckWrite_err sz _ len hb
  rw [he]
  simp only
  refine ⟨⟨e, rfl⟩, ?_⟩
  simp only [List.all_append, hm, hc, Bool.and_true, Bool.true_and]
  rfl

theorem stepWrite_within (cfg : Cfg) (st : St) (file h : Nat) (fl : Flags) (len off : Nat) (hd0 : Hnd) (sz : Nat)
    (hr : resolve cfg st file h = some hd0) (hsz : st.host.size file = some sz) (hlt : sz < I64)
    (hb : (if appendAfter hd0 fl then sz else off) + len ≤ sz) :
    Same (stepWrite { cfg with sealed := true } st file h fl len off)
         (stepWrite { cfg with sealed := false } st file h fl len off) ∧
    ¬ Refused (stepWrite { cfg with sealed := false } st file h fl len off) := by
  obtain ⟨c0, hg, hm, hf0⟩ := getData_resolve cfg st file h hd0 hr
  have ha := checkFdFlags_append hd0 fl
  have hc := (checkFdFlags_calls hd0 fl).2
  rcases hck : checkFdFlags hd0 fl with ⟨hd, c1⟩
  rw [hck] at ha hc
  simp only at ha hc
  have hp : putHnd { cfg with sealed := true } st h hd = putHnd { cfg with sealed := false } st h hd := rfl
  have hu : stepWrite { cfg with sealed := false } st file h fl len off =
      { st := { putHnd { cfg with sealed := false } st h hd with host := (hostPwrite st.host file hd.fd len off).1 },
        ret := (hostPwrite st.host file hd.fd len off).2,
        calls := c0 ++ c1 ++ [] ++ [.pwrite file len off hd.fd.append] } := by
    unfold stepWrite
    rw [getData_cfg cfg false, hg]
    simp only [hck, Bool.false_eq_true, if_false, putHnd_host]
  have hs : stepWrite { cfg with sealed := true } st file h fl len off =
      { st := { putHnd { cfg with sealed := false } st h hd with host := (hostPwrite st.host file hd.fd len off).1 },
        ret := (hostPwrite st.host file hd.fd len off).2,
        calls := c0 ++ c1 ++ [.fstat file, .getfl file] ++ [.pwrite file len off hd.fd.append] } := by
    unfold stepWrite
    rw [getData_cfg cfg true, hg]
    simp only [hck, if_true, putHnd_host, hsz, ha]
    rw [sealCheckWrite_pass sz _ len hb hlt]
    simp only [hp]
  rw [hs, hu]
  refine ⟨⟨rfl, rfl, rfl, rfl, ?_⟩, ?_⟩
  · simp only [List.filter_append, hf0, hc]
    simp [HostCall.probe]
  · intro ⟨_, hall⟩
    simp [List.all_append, HostCall.mutating] at hall

theorem sealCheckFallocate_err (sz off len mode : Nat)
    (h : ¬ (fallocOp mode = 0 ∨ fallocOp mode = FL_PUNCH_HOLE ∨ fallocOp mode = FL_ZERO) ∨ off + len > sz) :
    ∃ e, sealCheckFallocate sz off len mode = .error e := by
  unfold sealCheckFallocate
  split
  · exact ⟨_, rfl⟩
  · simp only
    split
    · rename_i h1
      simp only [Bool.or_eq_true, decide_eq_true_eq] at h1
      split
      · exact ⟨_, rfl⟩
      · rcases h with h | h
        · exact absurd (by rcases h1 with (h1 | h1) | h1 <;> simp [h1]) h
        · omega
    · split <;> exact ⟨_, rfl⟩

theorem sealCheckFallocate_pass (sz off len mode : Nat)
    (hop : fallocOp mode = 0 ∨ fallocOp mode = FL_PUNCH_HOLE ∨ fallocOp mode = FL_ZERO) (h : off + len ≤ sz) (hsz : sz < I64) :
    sealCheckFallocate sz off len mode = .ok () := by
  unfold sealCheckFallocate
  have : ¬ (off + len ≥ U64) := by simp only [U64, I64] at *; omega
  simp only [this, if_false]
  have h1 : (decide (fallocOp mode = 0) || decide (fallocOp mode = FL_PUNCH_HOLE) || decide (fallocOp mode = FL_ZERO)) = true := by
    rcases hop with h | h | h <;> simp [h]
  simp only [h1, if_true]
  split
  · omega
  · rfl

theorem stepFallocate_beyond (cfg : Cfg) (st : St) (file h mode off len : Nat) (hd : Hnd) (sz : Nat)
    (hr : resolve cfg st file h = some hd) (hsz : st.host.size file = some sz)
    (hb : ¬ (fallocOp mode = 0 ∨ fallocOp mode = FL_PUNCH_HOLE ∨ fallocOp mode = FL_ZERO) ∨ off + len > sz) :
    Refused (stepFallocate { cfg with sealed := true } st file h mode off len) := by
  obtain ⟨c0, hg, hm, _⟩ := getData_resolve cfg st file h hd hr
  unfold stepFallocate
  rw [getData_cfg cfg true, hg]
  simp only [if_true, hsz]
  obtain ⟨e, he⟩ := sealCheckFallocate_err sz off len mode hb
  rw [he]
  simp only
  refine ⟨⟨e, rfl⟩, ?_⟩
  simp only [List.all_append, hm, Bool.true_and]
  rfl

theorem stepFallocate_within (cfg : Cfg) (st : St) (file h mode off len : Nat) (hd : Hnd) (sz : Nat)
    (hr : resolve cfg st file h = some hd) (hsz : st.host.size file = some sz) (hlt : sz < I64)
    (hop : fallocOp mode = 0 ∨ fallocOp mode = FL_PUNCH_HOLE ∨ fallocOp mode = FL_ZERO) (hb : off + len ≤ sz) :
    Same (stepFallocate { cfg with sealed := true } st file h mode off len)
         (stepFallocate { cfg with sealed := false } st file h mode off len) ∧
    ¬ Refused (stepFallocate { cfg with sealed := false } st file h mode off len) := by
  obtain ⟨c0, hg, hm, hf0⟩ := getData_resolve cfg st file h hd hr
  have hu : stepFallocate { cfg with sealed := false } st file h mode off len =
      (match (hostFallocate st.host file hd.fd mode off len).2 with
       | .error e => { st := { st with host := (hostFallocate st.host file hd.fd mode off len).1 }, ret := .error e,
                       calls := c0 ++ [] ++ [.fallocate file mode off len] }
       | .ok () => { st := { st with host := (hostFallocate st.host file hd.fd mode off len).1 }, ret := .ok 0,
                     calls := c0 ++ [] ++ [.fallocate file mode off len] }) := by
    unfold stepFallocate
    rw [getData_cfg cfg false, hg]
    simp only [Bool.false_eq_true, if_false]
    rcases hostFallocate st.host file hd.fd mode off len with ⟨H, r⟩
    cases r <;> rfl
  have hs : stepFallocate { cfg with sealed := true } st file h mode off len =
      (match (hostFallocate st.host file hd.fd mode off len).2 with
       | .error e => { st := { st with host := (hostFallocate st.host file hd.fd mode off len).1 }, ret := .error e,
                       calls := c0 ++ [.fstat file] ++ [.fallocate file mode off len] }
       | .ok () => { st := { st with host := (hostFallocate st.host file hd.fd mode off len).1 }, ret := .ok 0,
                     calls := c0 ++ [.fstat file] ++ [.fallocate file mode off len] }) := by
    unfold stepFallocate
    rw [getData_cfg cfg true, hg]
    simp only [if_true, hsz]
    rw [sealCheckFallocate_pass sz off len mode hop hb hlt]
    simp only
    rcases hostFallocate st.host file hd.fd mode off len with ⟨H, r⟩
    cases r <;> rfl
  rw [hs, hu]
  rcases hostFallocate st.host file hd.fd mode off len with ⟨H, r⟩
  cases r with
  | error e =>
    simp only
    refine ⟨⟨rfl, rfl, rfl, rfl, ?_⟩, ?_⟩
    · simp only [List.filter_append, hf0]; simp [HostCall.probe]
    · intro ⟨_, hall⟩; simp [List.all_append, HostCall.mutating] at hall
  | ok u =>
    simp only
    refine ⟨⟨rfl, rfl, rfl, rfl, ?_⟩, ?_⟩
    · simp only [List.filter_append, hf0]; simp [HostCall.probe]
    · intro ⟨_, hall⟩; simp [List.all_append, HostCall.mutating] at hall

/-! ### OPEN, CREATE, SETATTR, RELEASE -/

theorem stepOpen_beyond (cfg : Cfg) (st : St) (file : Nat) (fl : Flags) (hno : cfg.noOpen = false)
    (ht : fl.trunc = true) : Refused (stepOpen { cfg with sealed := true } st file fl) := by
  unfold stepOpen doOpen
  simp [hno, ht, Refused]

theorem stepOpen_within (cfg : Cfg) (st : St) (file : Nat) (fl : Flags) (hno : cfg.noOpen = false)
    (hex : (st.host.size file).isSome = true) (ht : fl.trunc = false) :
    Same (stepOpen { cfg with sealed := true } st file fl) (stepOpen { cfg with sealed := false } st file fl) ∧
    ¬ Refused (stepOpen { cfg with sealed := false } st file fl) := by
  obtain ⟨sz, hsz⟩ := Option.isSome_iff_exists.mp hex
  unfold stepOpen doOpen openInode hostOpen
  simp only [hno, ht, hsz, Bool.false_eq_true, if_false, Bool.and_false, openFlags]
  refine ⟨⟨rfl, rfl, rfl, rfl, ?_⟩, ?_⟩
  · simp [HostCall.probe]
  · intro ⟨⟨e, he⟩, _⟩; cases he

theorem stepCreate_beyond (cfg : Cfg) (st : St) (file : Nat) (fl : Flags)
    (hex : (st.host.size file).isSome = true) (hx : fl.excl = false) (ht : fl.trunc = true) :
    Refused (stepCreate { cfg with sealed := true } st file fl) := by
  obtain ⟨sz, hsz⟩ := Option.isSome_iff_exists.mp hex
  unfold stepCreate
  simp only [hsz, hx, ht, Bool.false_eq_true, if_false, Bool.and_self, if_true]
  exact ⟨⟨_, rfl⟩, rfl⟩

theorem stepCreate_within (cfg : Cfg) (st : St) (file : Nat) (fl : Flags)
    (hres : ¬ ((st.host.size file).isSome = true ∧ fl.excl = true))
    (hb : ¬ ((st.host.size file).isSome = true ∧ fl.excl = false ∧ fl.trunc = true)) :
    Same (stepCreate { cfg with sealed := true } st file fl) (stepCreate { cfg with sealed := false } st file fl) ∧
    ¬ Refused (stepCreate { cfg with sealed := false } st file fl) := by
  unfold stepCreate
  cases hsz : st.host.size file with
  | none =>
    simp only
    cases hno : cfg.noOpen with
    | true =>
      simp only [if_true]
      refine ⟨⟨rfl, rfl, rfl, rfl, by simp [HostCall.probe]⟩, ?_⟩
      intro ⟨⟨e, he⟩, _⟩; cases he
    | false =>
      simp only [Bool.false_eq_true, if_false]
      refine ⟨⟨rfl, rfl, rfl, rfl, by simp [HostCall.probe]⟩, ?_⟩
      intro ⟨⟨e, he⟩, _⟩; cases he
  | some sz =>
    simp only [hsz, Option.isSome_some, true_and] at hres hb
    have hx : fl.excl = false := by cases h : fl.excl <;> simp_all
    have ht : fl.trunc = false := by cases h : fl.trunc <;> simp_all
    simp only [hx, ht, Bool.false_eq_true, if_false, Bool.and_false]
    unfold openInode hostOpen
    simp only [hsz, openFlags, ht, Bool.false_eq_true, if_false]
    cases hno : cfg.noOpen with
    | true =>
      simp only [if_true]
      refine ⟨⟨rfl, rfl, rfl, rfl, by simp [HostCall.probe]⟩, ?_⟩
      intro ⟨⟨e, he⟩, _⟩; cases he
    | false =>
      simp only [Bool.false_eq_true, if_false]
      refine ⟨⟨rfl, rfl, rfl, rfl, by simp [HostCall.probe]⟩, ?_⟩
      intro ⟨⟨e, he⟩, _⟩; cases he

/-- `setattrHnd` succeeds when the request resolves -/
theorem setattrHnd_ok (cfg : Cfg) (st : St) (file : Nat) (h : Option Nat)
    (hres : cfg.noOpen = true ∨ h = none ∨ ∃ hh, h = some hh ∧ (resolve cfg st file hh).isSome = true) :
    ∃ hd, setattrHnd cfg st file h = .ok hd := by
  unfold setattrHnd
  cases hno : cfg.noOpen with
  | true => exact ⟨_, rfl⟩
  | false =>
    simp only [Bool.false_eq_true, if_false]
    rcases hres with h1 | h1 | ⟨hh, h1, h2⟩
    · simp [hno] at h1
    · subst h1; exact ⟨_, rfl⟩
    · subst h1
      unfold resolve at h2
      simp only [hno, Bool.false_eq_true, if_false] at h2
      cases hx : st.handles hh with
      | none => simp [hx] at h2
      | some hd =>
        simp only [hx] at h2 ⊢
        split
        · exact ⟨_, rfl⟩
        · rename_i hne; simp [hne] at h2

theorem setattrHnd_cfg (cfg : Cfg) (b : Bool) (st : St) (file : Nat) (h : Option Nat) :
    setattrHnd { cfg with sealed := b } st file h = setattrHnd cfg st file h := rfl

theorem stepSetattr_beyond (cfg : Cfg) (st : St) (file : Nat) (h : Option Nat) (size : Nat) (sm : Bool)
    (hex : (st.host.size file).isSome = true)
    (hres : cfg.noOpen = true ∨ h = none ∨ ∃ hh, h = some hh ∧ (resolve cfg st file hh).isSome = true) :
    Refused (stepSetattr { cfg with sealed := true } st file h true size sm) := by
  obtain ⟨sz, hsz⟩ := Option.isSome_iff_exists.mp hex
  obtain ⟨hd, hhd⟩ := setattrHnd_ok cfg st file h hres
  unfold stepSetattr
  simp only [hsz, setattrHnd_cfg, hhd, Bool.and_self, if_true]
  exact ⟨⟨_, rfl⟩, rfl⟩

theorem stepSetattr_within (cfg : Cfg) (st : St) (file : Nat) (h : Option Nat) (size : Nat) (sm : Bool)
    (hex : (st.host.size file).isSome = true)
    (hres : cfg.noOpen = true ∨ h = none ∨ ∃ hh, h = some hh ∧ (resolve cfg st file hh).isSome = true) :
    Same (stepSetattr { cfg with sealed := true } st file h false size sm)
         (stepSetattr { cfg with sealed := false } st file h false size sm) ∧
    ¬ Refused (stepSetattr { cfg with sealed := false } st file h false size sm) := by
  obtain ⟨sz, hsz⟩ := Option.isSome_iff_exists.mp hex
  obtain ⟨hd, hhd⟩ := setattrHnd_ok cfg st file h hres
  unfold stepSetattr
  simp only [hsz, setattrHnd_cfg, hhd, Bool.false_and, Bool.false_eq_true, if_false]
  refine ⟨⟨rfl, rfl, rfl, rfl, ?_⟩, ?_⟩
  · cases sm <;> simp [HostCall.probe]
  · intro ⟨⟨e, he⟩, _⟩; cases he

theorem stepRelease_within (cfg : Cfg) (st : St) (file h : Nat) (hno : cfg.noOpen = false)
    (hres : (resolve cfg st file h).isSome = true) :
    Same (stepRelease { cfg with sealed := true } st file h) (stepRelease { cfg with sealed := false } st file h) ∧
    ¬ Refused (stepRelease { cfg with sealed := false } st file h) := by
  unfold resolve at hres
  simp only [hno, Bool.false_eq_true, if_false] at hres
  unfold stepRelease
  simp only [hno, Bool.false_eq_true, if_false]
  cases hx : st.handles h with
  | none => simp [hx] at hres
  | some hd =>
    simp only [hx] at hres ⊢
    have hf : hd.file = file := by
      by_cases hf : hd.file = file
      · exact hf
      · simp [hf] at hres
    simp only [hf, if_true]
    refine ⟨⟨rfl, rfl, rfl, rfl, by simp⟩, ?_⟩
    intro ⟨⟨e, he⟩, _⟩; cases he

/-- probes never mutate, so dropping them does not change whether a mutating call was made -/
theorem all_nonmut_filter (cs : List HostCall) :
    (cs.filter (fun c => !HostCall.probe c)).all (fun c => !HostCall.mutating c) =
      cs.all (fun c => !HostCall.mutating c) := by
  induction cs with
  | nil => rfl
  | cons c cs ih =>
    by_cases hp : HostCall.probe c = true
    · have hm : HostCall.mutating c = false := by
        cases c <;> first | rfl | (simp [HostCall.probe] at hp)
      rw [List.filter_cons]
      simp only [hp, Bool.not_true, Bool.false_eq_true, if_false, List.all_cons, hm, Bool.not_false,
        Bool.true_and, ih]
    · rw [List.filter_cons]
      simp only [hp, Bool.not_false, if_true, List.all_cons, ih]

theorem refused_of_same (s u : Out) (h : Same s u) : Refused s ↔ Refused u := by
  obtain ⟨hr, _, _, _, hc⟩ := h
  unfold Refused
  rw [hr, ← hc, all_nonmut_filter]

end Fbr.Lemmas.PtSeal
