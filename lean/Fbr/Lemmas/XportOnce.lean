/-
  Helper lemmas for C04/C17: "exactly once".  For the handle table of a virtio-fs request, the
  addresses already read (written) together with the addresses still ahead of all readers
  (writers) are always a permutation of the addresses of the readable (writable) descriptors.
-/
import Fbr.Lemmas.XportSys

namespace Fbr.Xport

/-- addresses still ahead of a list of cursors -/
def ahead (l : List IoBufs) : List Addr := l.flatMap fun b => addrs b.segs

theorem perm_ahead_set (l : List IoBufs) (i : Nat) (b x : IoBufs) (T : List Addr) (h : l[i]? = some b)
    (hb : (T ++ addrs x.segs).Perm (addrs b.segs)) : (T ++ ahead (l.set i x)).Perm (ahead l) := by
  induction l generalizing i with
  | nil => simp at h
  | cons y rest ih =>
    cases i with
    | zero =>
      simp only [List.getElem?_cons_zero, Option.some.injEq] at h
      subst h
      simp only [ahead, List.set_cons_zero, List.flatMap_cons, ← List.append_assoc]
      exact List.Perm.append_right _ hb
    | succ i =>
      simp only [List.getElem?_cons_succ] at h
      simp only [ahead, List.set_cons_succ, List.flatMap_cons]
      have := ih i h
      simp only [ahead] at this
      exact (List.perm_append_comm_assoc _ _ _).trans (List.Perm.append_left _ this)

/-- the table after one cursor advanced -/
theorem perm_adv {wr md : Bool} {b b' : IoBufs} {w w' : World} (l : List IoBufs) (i : Nat)
    (h : l[i]? = some b) (hadv : Adv wr md b w b' w') :
    (sel wr w'.log ++ ahead (l.set i b')).Perm (sel wr w.log ++ ahead l) := by
  obtain ⟨n, _, _, _, h4, _, _, h7, _⟩ := hadv
  rw [h4, List.append_assoc]
  apply List.Perm.append_left
  exact perm_ahead_set l i b b' _ h (by rw [h7, List.take_append_drop])

/-- the table after a split -/
theorem perm_split (l : List IoBufs) (i : Nat) (b a o : IoBufs) (h : l[i]? = some b)
    (hb : addrs b.segs = addrs a.segs ++ addrs o.segs) : (ahead (l.set i a ++ [o])).Perm (ahead l) := by
  have h1 : ahead (l.set i a ++ [o]) = ahead (l.set i a) ++ addrs o.segs := by simp [ahead]
  rw [h1]
  exact List.perm_append_comm.trans (perm_ahead_set l i b a (addrs o.segs) h (by rw [hb]; exact List.perm_append_comm))

/-- read addresses + what readers still hold = the readable descriptors; same for writers -/
def Once (R0 W0 : List Addr) (st : St) : Prop :=
  (rdAddrs st.w.log ++ ahead st.readers).Perm R0 ∧ (wrAddrs st.w.log ++ ahead st.writers).Perm W0

theorem Adv.other {wr md : Bool} {b b' : IoBufs} {w w' : World} (h : Adv wr md b w b' w') :
    sel (!wr) w'.log = sel (!wr) w.log := by
  obtain ⟨n, _, _, _, _, h5, _⟩ := h
  exact h5

theorem once_reader {R0 W0 : List Addr} {st : St} {i : Nat} {b b' : IoBufs} {w' : World}
    (h : Once R0 W0 st) (hg : st.readers[i]? = some b) (hadv : Adv false false b st.w b' w') :
    Once R0 W0 { st with w := w', readers := st.readers.set i b' } := by
  have hp := perm_adv st.readers i hg hadv
  have ho := hadv.other
  simp only [sel, Bool.false_eq_true, if_false, Bool.not_false, if_true] at hp ho
  exact ⟨hp.trans h.1, by simp only; rw [ho]; exact h.2⟩

theorem once_writer {R0 W0 : List Addr} {st : St} {i : Nat} {b b' : IoBufs} {w' : World}
    (h : Once R0 W0 st) (hg : st.writers[i]? = some b) (hadv : Adv true true b st.w b' w') :
    Once R0 W0 { st with w := w', writers := st.writers.set i b' } := by
  have hp := perm_adv st.writers i hg hadv
  have ho := hadv.other
  simp only [sel, Bool.false_eq_true, if_false, Bool.not_true, if_true] at hp ho
  exact ⟨by simp only; rw [ho]; exact h.1, hp.trans h.2⟩

theorem step_once {R0 W0 : List Addr} {nr nw : Nat} {st : St} (hi : Inv R0 W0 nr nw st) (h : Once R0 W0 st)
    (op : Op) : Once R0 W0 (step st op).1 := by
  have hnf := hi.nofuse
  cases op with
  | rd i n =>
    simp only [step]
    cases hg : st.readers[i]? with
    | none => exact h
    | some b => exact once_reader h hg (read_adv b st.w n (hi.readers b (mem_of_getElem? hg)).2)
  | ro i n =>
    simp only [step]
    cases hg : st.readers[i]? with
    | none => exact h
    | some b => exact once_reader h hg (readObj_adv b st.w n (hi.readers b (mem_of_getElem? hg)).2)
  | rt i count at_ sc =>
    simp only [step]
    cases hg : st.readers[i]? with
    | none => exact h
    | some b => exact once_reader h hg (readTo_adv b st.w sc count at_.isSome (hi.readers b (mem_of_getElem? hg)).2)
  | re i count sc =>
    simp only [step]
    cases hg : st.readers[i]? with
    | none => exact h
    | some b => exact once_reader h hg (readExactTo_adv _ b st.w sc count (hi.readers b (mem_of_getElem? hg)).2)
  | rs i k =>
    simp only [step]
    cases hg : st.readers[i]? with
    | none => exact h
    | some b =>
      simp only
      cases hs : b.splitAt k with
      | error e => exact h
      | ok r =>
        obtain ⟨a, o⟩ := r
        obtain ⟨_, ha, ho, _⟩ := splitAt_ok hs
        have hp := perm_split st.readers i b a o hg (by rw [ha, ho, List.take_append_drop])
        exact ⟨(List.Perm.append_left _ hp).trans h.1, h.2⟩
  | wr i data =>
    simp only [step]
    cases hg : st.writers[i]? with
    | none => exact h
    | some b => exact once_writer h hg (vwrite_adv b st.w data hi.w.p (hi.writers b (mem_of_getElem? hg)).2)
  | wv i datas =>
    simp only [step]
    cases hg : st.writers[i]? with
    | none => exact h
    | some b => exact once_writer h hg (writeVectored_adv b st.w datas hi.w.p (hi.writers b (mem_of_getElem? hg)).2)
  | wf i count at_ sc =>
    simp only [step]
    cases hg : st.writers[i]? with
    | none => exact h
    | some b => exact once_writer h hg (writeFrom_adv b st.w sc count at_ hi.w.p (hi.writers b (mem_of_getElem? hg)).2)
  | wa i count sc =>
    simp only [step]
    cases hg : st.writers[i]? with
    | none => exact h
    | some b => exact once_writer h hg (writeAllFrom_adv b st.w sc count hi.w.p (hi.writers b (mem_of_getElem? hg)).2)
  | ws i k =>
    simp only [step]
    cases hg : st.writers[i]? with
    | none => exact h
    | some b =>
      simp only
      cases hs : b.splitAt k with
      | error e => exact h
      | ok r =>
        obtain ⟨a, o⟩ := r
        obtain ⟨_, ha, ho, _⟩ := splitAt_ok hs
        have hp := perm_split st.writers i b a o hg (by rw [ha, ho, List.take_append_drop])
        exact ⟨h.1, (List.Perm.append_left _ hp).trans h.2⟩
  | wc i o =>
    simp only [step]
    cases hg : st.writers[i]? with
    | none => exact h
    | some b => exact h
  | fw i data => simp only [step, hnf, List.getElem?_nil]; exact h
  | fv i datas => simp only [step, hnf, List.getElem?_nil]; exact h
  | ff i count at_ sc => simp only [step, hnf, List.getElem?_nil]; exact h
  | fa i count sc => simp only [step, hnf, List.getElem?_nil]; exact h
  | fs i k => simp only [step, hnf, List.getElem?_nil]; exact h
  | fc i o => simp only [step, hnf, List.getElem?_nil]; exact h

theorem exec_once {R0 W0 : List Addr} {nr nw : Nat} (ops : List Op) {st : St} (hi : Inv R0 W0 nr nw st)
    (h : Once R0 W0 st) : Once R0 W0 (exec st ops) := by
  induction ops generalizing st with
  | nil => exact h
  | cons op rest ih => exact ih (step_inv hi op) (step_once hi h op)

end Fbr.Xport
