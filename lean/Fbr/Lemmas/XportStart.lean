/-
  Helper definitions/lemmas for C04/C17: the start state of a virtio-fs request and the fact that
  it satisfies the handle-table invariants.
-/
import Fbr.Lemmas.XportSys
import Fbr.Lemmas.XportOnce

namespace Fbr.Xport

/-- a virtio-fs request before the server touched it: nothing logged, nothing dirty, no fusedev
    writer, a positive page size, counters that cannot overflow `usize` (what
    `from_descriptor_chain` / `VirtioFsWriter::new` guarantee by their `checked_add`) -/
def Start (st : St) : Prop :=
  st.w.log = [] ∧ st.w.dirty = [] ∧ st.fws = [] ∧ 0 < st.w.p
    ∧ (∀ b ∈ st.readers, b.consumed + total b.segs < USIZE)
    ∧ (∀ b ∈ st.writers, b.consumed + total b.segs < USIZE)

/-- all addresses the readers (resp. writers) of a state may still touch -/
def readable (st : St) : List Addr := st.readers.flatMap fun b => addrs b.segs
def writable (st : St) : List Addr := st.writers.flatMap fun b => addrs b.segs

theorem start_inv {st : St} (h : Start st) :
    Inv (readable st) (writable st) (sizes st.readers) (sizes st.writers) st := by
  obtain ⟨hl, hd, hf, hp, hr, hw⟩ := h
  refine ⟨⟨hp, by simp [hl, rdAddrs], by simp [hl, wrAddrs], by simp [hl, wrAddrs], by simp [hd]⟩, ?_, ?_, rfl, rfl, hf⟩
  · intro b hb
    exact ⟨fun a ha => List.mem_flatMap.mpr ⟨b, hb, ha⟩, hr b hb⟩
  · intro b hb
    exact ⟨fun a ha => List.mem_flatMap.mpr ⟨b, hb, ha⟩, hw b hb⟩

theorem start_once {st : St} (h : Start st) : Once (readable st) (writable st) st := by
  obtain ⟨hl, _⟩ := h
  simp only [Once, hl, rdAddrs, wrAddrs, List.nil_append]
  exact ⟨List.Perm.refl _, List.Perm.refl _⟩

/-- a chain with a zero-length buffer, buffers straddling page borders of page size 64, two
    regions; one reader, one writer -/
def exampleStart : St :=
  { w := { p := 64, mem := ⟨[(1, List.replicate 300 0), (2, List.replicate 300 0)]⟩, dirty := [], log := [], fd := [] },
    readers := [{ segs := [⟨1, 10, 8⟩, ⟨1, 20, 0⟩], consumed := 0 }],
    writers := [{ segs := [⟨1, 60, 10⟩, ⟨2, 0, 0⟩, ⟨2, 100, 130⟩], consumed := 0 }],
    fws := [] }

end Fbr.Xport
