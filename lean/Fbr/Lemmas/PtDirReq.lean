/-
  Helper lemmas for C16: one READDIR / READDIRPLUS request served from a valid position.
-/
import Fbr.Lemmas.PtDirAcct

namespace Fbr.Lemmas.PtDir
open Fbr.PtDir Fbr.Wire

/-- `(fd position, cached cookie)` invariant of the file-system state -/
structure Inv (st : St) : Prop where
  /-- a cached cookie is the position of the descriptor it is cached for -/
  sound : ∀ h fd c, st.fds h = some fd → st.cache h = some c → fd.pos = c
  /-- no cookie without an open directory stream -/
  closed : ∀ h, st.fds h = none → st.cache h = none
  /-- handles are allocated upwards -/
  fresh : ∀ h, st.next ≤ h → st.fds h = none

/-- the host can serve a resume from cookie `c` (after which `rest0` follows) with `size` bytes:
    the next record fits, and — unless the cached cookie hits (`hit`), which needs no positioning —
    either `lseek64` accepts the cookie or (linear-scan fallback) the cookie is a record's and every
    record up to and including that one fits a batch (the scan re-reads them with the request's
    `size`; records after the cookie are not re-read) -/
def Serveable (H : Host) (size c : Nat) (rest0 : Dir) (hit : Bool) : Prop :=
  Fits size rest0 ∧
  (hit = false →
    ((c ≤ I64_MAX ∧ H.seekErr c = none) ∨
     ((c > I64_MAX ∨ H.seekErr c = some EINVAL) ∧ c ≠ 0 ∧
        ∀ pre e, H.dir = pre ++ e :: rest0 → e.cookie = c → ∀ x ∈ pre ++ [e], reclen x ≤ size)))

theorem fetch_post {H : Host} (wf : WF H.dir) (hq : H.eofQuirk = false) {size c : Nat} {rest0 : Dir}
    (hp : Pos H.dir c rest0) (hit : Bool) (hs : Serveable H size c rest0 hit) (fd0 : Fd)
    (hpos : hit = true → fd0.pos = c) :
    ∃ b fd1, fetch H hit fd0 size c = (.ok b, fd1) ∧ Post H.dir rest0 b fd1 := by
  obtain ⟨hfits, hpath⟩ := hs
  cases hit with
  | true => exact fetch_seek_post wf hq hp hfits true fd0 hpos (fun h => by cases h)
  | false =>
    rcases hpath rfl with hseek | ⟨hbad, hne, hall⟩
    · exact fetch_seek_post wf hq hp hfits false fd0 hpos (fun _ => hseek)
    · -- linear scan from the start
      rcases hp with ⟨h0, _⟩ | ⟨pre, tgt, hd, hc⟩
      · exact absurd h0 hne
      · have hscan : fetch H false fd0 size c = scan H size c (H.dir.length + 2) { fd0 with pos := 0 } false := by
          unfold fetch
          simp only [Bool.false_eq_true, if_false]
          rcases hbad with hgt | herr
          · simp [hgt]
          · by_cases hgt : c > I64_MAX
            · simp [hgt]
            · simp [hgt, herr]
        rw [hscan]
        apply scan_post wf hq (hall pre tgt hd hc) (fun e r h => hfits [] e r (by simp [h]) rfl) hd hc
          (H.dir.length + 2) { fd0 with pos := 0 } [] H.dir
        · simp
        · left; exact ⟨rfl, rfl⟩
        · intro x hx; simp at hx
        · omega

/-- the outcome of one request served from a valid position -/
structure Served (H : Host) (st st' : St) (plus : Bool) (h size : Nat) (rest0 : Dir) (out : List Offer) : Prop where
  /-- the batch the reply was cut from: `rest0 = dots ++ b ++ t` -/
  batch : ∃ dots b t, rest0 = dots ++ b ++ t ∧ dots.all isDot = true ∧ (b = [] → t = []) ∧
            (b ≠ [] → onlyDotsL b = false) ∧
            out = (accepted size plus (real b) 0).map view ∧
            st'.refs = (if plus then ((accepted size plus (real b) 0).map (·.ino)).reverse ++ st.refs else st.refs)
  inv : Inv st'
  mode : st'.noOpendir = st.noOpendir
  next : st'.next = st.next
  open_ : ∀ h', (st'.fds h').isSome = (st.fds h').isSome

theorem readReq_served {H : Host} (wf : WF H.dir) (hq : H.eofQuirk = false) (st : St) (inv : Inv st)
    (plus : Bool) (h size c : Nat) (rest0 : Dir) (hp : Pos H.dir c rest0) (hsz : size ≠ 0)
    (hh : st.noOpendir = true ∨ ∃ fd, st.fds h = some fd)
    (hs : Serveable H size c rest0 (!st.noOpendir && st.cache h == some c)) :
    ∃ st' out, readReq H st plus h size c none = (st', .ok out) ∧ Served H st st' plus h size rest0 out := by
  unfold readReq doReaddir
  simp only [hsz, if_false]
  cases hno : st.noOpendir with
  | true =>
    simp only [if_true, Bool.not_true, Bool.false_and]
    have hs' : Serveable H size c rest0 false := by rw [hno] at hs; exact hs
    obtain ⟨b0, fd1, hf, hpost1⟩ := fetch_post wf hq hp false hs' {} (fun h => by cases h)
    rw [hf]
    simp only
    obtain ⟨⟨dots, t, hsplit, hdots, hpos, hbt⟩, hlast⟩ := hpost1
    obtain ⟨b, fd2, hr, ⟨⟨dots2, t2, hsplit2, hdots2, _, hbt2⟩, _⟩, hnd⟩ :=
      refetch_post wf hq size rest0 hs.1 (H.dir.length + 1) b0 fd1 dots t hsplit hdots hpos hbt hlast (by
        have : rest0.length ≤ H.dir.length := by
          rcases hp with ⟨_, hr⟩ | ⟨pre, e, hd, _⟩
          · rw [hr]; exact Nat.le_refl _
          · rw [hd]; simp; omega
        have : t.length ≤ rest0.length := by rw [hsplit]; simp; omega
        omega)
    rw [hr]
    simp only [setFd, hno, if_true]
    obtain ⟨h1, h2, h3⟩ := entryLoop_srvCb size plus b true ({} : Acc) st.refs
    simp only at h1 h2 h3
    rw [h2]
    refine ⟨_, _, rfl, ⟨⟨dots2, b, t2, hsplit2, hdots2, hbt2, hnd, ?_, ?_⟩, ?_, hno.symm, rfl, fun _ => rfl⟩⟩
    · rw [h1]; simp
    · simp only; rw [h3]
    · exact ⟨inv.sound, inv.closed, inv.fresh⟩
  | false =>
    rcases hh with hh | ⟨fd0, hfd⟩
    · rw [hno] at hh; cases hh
    simp only [Bool.false_eq_true, if_false, hfd, Bool.not_false, Bool.true_and]
    have hpos0 : (st.cache h == some c) = true → fd0.pos = c := by
      intro hc
      have : st.cache h = some c := by simpa using hc
      exact inv.sound h fd0 c hfd this
    have hs' : Serveable H size c rest0 (st.cache h == some c) := by rw [hno] at hs; exact hs
    obtain ⟨b0, fd1, hf, hpost1⟩ := fetch_post wf hq hp (st.cache h == some c) hs' fd0 hpos0
    rw [hf]
    simp only
    obtain ⟨⟨dots, t, hsplit, hdots, hpos, hbt⟩, hlast⟩ := hpost1
    obtain ⟨b, fd2, hr, ⟨⟨dots2, t2, hsplit2, hdots2, _, hbt2⟩, hlast2⟩, hnd⟩ :=
      refetch_post wf hq size rest0 hs.1 (H.dir.length + 1) b0 fd1 dots t hsplit hdots hpos hbt hlast (by
        have : rest0.length ≤ H.dir.length := by
          rcases hp with ⟨_, hr⟩ | ⟨pre, e, hd, _⟩
          · rw [hr]; exact Nat.le_refl _
          · rw [hd]; simp; omega
        have : t.length ≤ rest0.length := by rw [hsplit]; simp; omega
        omega)
    rw [hr]
    simp only [setFd, hno, Bool.false_eq_true, if_false]
    have hfresh_h : ¬ st.next ≤ h := by
      intro hle
      have := inv.fresh h hle
      rw [hfd] at this; cases this
    cases hl : lastCookieL b with
    | none =>
      simp only [Bool.false_eq_true, if_false]
      obtain ⟨h1, h2, h3⟩ := entryLoop_srvCb size plus b true ({} : Acc) st.refs
      simp only at h1 h2 h3
      rw [h2]
      refine ⟨_, _, rfl, ⟨⟨dots2, b, t2, hsplit2, hdots2, hbt2, hnd, ?_, ?_⟩, ⟨?_, ?_, ?_⟩, hno.symm, rfl, ?_⟩⟩
      · rw [h1]; simp
      · simp only; rw [h3]
      · intro h' fd' c' hf' hc'
        simp only [upd] at hf' hc'
        by_cases hh' : h' = h
        · simp [hh'] at hc'
        · simp only [hh', if_false] at hf' hc'
          exact inv.sound h' fd' c' hf' hc'
      · intro h' hf'
        simp only [upd] at hf' ⊢
        by_cases hh' : h' = h
        · simp [hh'] at hf'
        · simp only [hh', if_false] at hf' ⊢
          exact inv.closed h' hf'
      · intro h' hle
        simp only [upd]
        by_cases hh' : h' = h
        · subst hh'; exact absurd hle hfresh_h
        · simp only [hh', if_false]; exact inv.fresh h' hle
      · intro h'
        simp only [upd]
        by_cases hh' : h' = h
        · simp [hh', hfd]
        · simp [hh']
    | some cl =>
      simp only [Bool.false_eq_true, if_false]
      obtain ⟨h1, h2, h3⟩ := entryLoop_srvCb size plus b true ({} : Acc) st.refs
      simp only at h1 h2 h3
      rw [h2]
      have hbne : b ≠ [] := by
        intro hbe; rw [hbe] at hl; simp [lastCookieL] at hl
      have hcl : fd2.pos = cl := by
        have := hlast2 hbne
        rw [hl] at this
        exact (Option.some.inj this).symm
      refine ⟨_, _, rfl, ⟨⟨dots2, b, t2, hsplit2, hdots2, hbt2, hnd, ?_, ?_⟩, ⟨?_, ?_, ?_⟩, hno.symm, rfl, ?_⟩⟩
      · rw [h1]; simp
      · simp only; rw [h3]
      · intro h' fd' c' hf' hc'
        simp only [upd] at hf' hc'
        by_cases hh' : h' = h
        · simp only [hh', if_true] at hf' hc'
          cases hf'; cases hc'; exact hcl
        · simp only [hh', if_false] at hf' hc'
          exact inv.sound h' fd' c' hf' hc'
      · intro h' hf'
        simp only [upd] at hf' ⊢
        by_cases hh' : h' = h
        · simp [hh'] at hf'
        · simp only [hh', if_false] at hf' ⊢
          exact inv.closed h' hf'
      · intro h' hle
        simp only [upd]
        by_cases hh' : h' = h
        · subst hh'; exact absurd hle hfresh_h
        · simp only [hh', if_false]; exact inv.fresh h' hle
      · intro h'
        simp only [upd]
        by_cases hh' : h' = h
        · simp [hh', hfd]
        · simp [hh']

end Fbr.Lemmas.PtDir
