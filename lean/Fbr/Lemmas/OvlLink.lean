/-
  do_link keeps the forest a valid cache of the disk: copy the source up, copy the new parent up,
  then create the new name like do_mknod does (`createTailG` with `link` as the creating call).
-/
import Fbr.Ovl
import Fbr.Lemmas.OvlHoare
import Fbr.Lemmas.OvlSim
import Fbr.Lemmas.OvlSimLookup
import Fbr.Lemmas.OvlSimRO
import Fbr.Lemmas.OvlLocal
import Fbr.Lemmas.OvlMut
import Fbr.Lemmas.OvlMutA
import Fbr.Lemmas.OvlMutP2
import Fbr.Lemmas.OvlEval
import Fbr.Lemmas.OvlCopyUp
import Fbr.Lemmas.OvlOps
import Fbr.Lemmas.OvlCreate
import Fbr.Lemmas.OvlRmdirB
import Fbr.Lemmas.OvlEffects
import Fbr.Lemmas.OvlAttr

namespace Fbr.Ovl

/-- a non-directory node is not an ancestor of (nor equal to) a directory node -/
theorem nondir_not_ancestor {s : St} (hc : Consistent s) {src pp : Path} {sm pm : MNode}
    (hsm : s.mem src = some sm) {r : Real} {rest : List Real} (hr : sm.reals = r :: rest)
    (hnd : (s.disk.statReal r).isDir = false)
    (hpm : s.mem pp = some pm) {rp : Real} {restp : List Real} (hrp : pm.reals = rp :: restp)
    (hpd : (s.disk.statReal rp).isDir = true) : src.isSuffixOf pp = false := by
  cases hb : src.isSuffixOf pp with
  | false => rfl
  | true =>
    exfalso
    obtain ⟨t, ht⟩ := List.isSuffixOf_iff_suffix.1 hb
    rcases List.eq_nil_or_concat t with rfl | ⟨t', c, rfl⟩
    · simp at ht
      subst ht
      rw [hsm] at hpm; cases hpm
      rw [hr] at hrp; cases hrp
      rw [hnd] at hpd; cases hpd
    · have : t' ++ (c :: src) = pp := by rw [← ht]; simp
      rw [← this] at hpm
      obtain ⟨cm, hcm⟩ := mem_suffix_closed hc t' (c :: src) pm hpm
      rw [(nondir_no_kids hc hsm hr hnd).2 c] at hcm
      cases hcm

/-- `lookup_node_ignore_enoent(parent, name)` in a loaded, visible parent -/
theorem catchLookup_eval {s : St} (hc : Consistent s) {pp : Path} {pm : MNode} (hpm : s.mem pp = some pm)
    (hw : pm.whiteout = false) (hlo : pm.loaded = true) (n : Name) :
    ∃ old, catchEnoent (lookupNode pp n) s = .ok old s ∧
      (match old with
        | none => n ∉ pm.kids
        | some o => s.mem (n :: pp) = some o) := by
  have hl := hc.toLocal
  cases hr : pm.reals with
  | nil =>
    have hst := nodeStat_eq hc hpm
    rw [hr] at hst
    have hls : lookupSelf pp s = .err ENOENT s := by
      unfold lookupSelf
      rw [bind_ok (getNode_ok hpm)]
      simp only [hw, Bool.false_eq_true, if_false]
      rw [bind_err hst]
    have : lookupNode pp n s = .err ENOENT s := by
      unfold lookupNode
      rw [bind_err hls]
    refine ⟨none, by simp [catchEnoent, this], ?_⟩
    rw [no_reals_no_kids hc hpm hlo hr]; simp
  | cons r rest =>
    have hls := lookupSelf_loaded hc hpm hw hlo hr
    by_cases hn : n ∈ pm.kids
    · obtain ⟨o, ho⟩ := hl.kidsMem pp pm n hpm hn
      have : lookupNode pp n s = .ok o s := by
        unfold lookupNode
        rw [bind_ok hls]
        simp [hn, getNode_ok ho]
      exact ⟨some o, by simp [catchEnoent, this], ho⟩
    · have : lookupNode pp n s = .err ENOENT s := by
        unfold lookupNode
        rw [bind_ok hls]
        simp [hn, fail]
      exact ⟨none, by simp [catchEnoent, this], hn⟩

/-- `RealInode::link` of an existing upper non-directory `X` behaves like creating `X` -/
theorem mkLike_link (src : Path) (n : Name) (X : Node) (hXa : X.isAbsent = false) (hXd : X.isDir = false) :
    MkLike (fun pr => pr.link src n) n X (fun L => L src = X) := by
  have hlink : ∀ (L : Layer) (p : Path), L src = X → hLink L src p n = hMk L p n X := by
    intro L p h
    unfold hLink
    rw [h]
    cases X <;> simp_all [Node.isAbsent, Node.isDir]
  constructor
  · intro s r L L' hu hL hC hf
    obtain ⟨s', h1, h2, h3⟩ := layerCall_ok' (f := fun L => hLink L src r.path n) Method.link hL
      (by rw [hlink L r.path hC]; exact hf)
    refine ⟨s', ?_, h2, h3⟩
    simp only [Real.link, hu, Bool.not_true, Bool.false_eq_true, if_false]
    rw [bind_ok h1]; rfl
  · intro s r L e hu hL hC hf
    refine ⟨{ s with log := s.log ++ [⟨r.layer, Method.link⟩] }, ?_, rfl, rfl⟩
    simp only [Real.link, hu, Bool.not_true, Bool.false_eq_true, if_false]
    rw [bind_err (layerCall_err Method.link hL (by rw [hlink L r.path hC]; exact hf))]

/-- what a successful link leaves: both names show the same non-directory -/
def Linked (src dst : Path) (d : Disk) : Prop :=
  ∃ X X', specStat d src = some X ∧ specStat d dst = some X' ∧ X'.view = X.view ∧ X.isDir = false

/-- the statements of `do_link` after the two copy-ups -/
def linkTail (src pp : Path) (n : Name) : M Unit := do
  let sm ← getNode src
  match sm.reals with
  | [] => fail EOTHER
  | sr :: _ => do
    let old ← catchEnoent (lookupNode pp n)
    checkOld old
    createTailG pp n false old (fun pr => pr.link sr.path n)

theorem linkTail_cons {s : St} (hc : Consistent s) (src pp : Path) (n : Name)
    {sm : MNode} (hsm : s.mem src = some sm) (hsu : sm.inUpper = true)
    {sr : Real} {srest : List Real} (hsr : sm.reals = sr :: srest)
    (hnd : (s.disk.statReal sr).isDir = false) (hnw : (s.disk.statReal sr).isWhiteout = false)
    {pm : MNode} (hpm : s.mem pp = some pm) (hpu : pm.inUpper = true) (hlo : pm.loaded = true)
    (hpw : pm.whiteout = false) (hsp : src ≠ pp) :
    Outcome (linkTail src pp n s) (fun _ s' => Consistent s' ∧ Linked src (n :: pp) s'.disk)
      (fun s' => Consistent s') := by
  have hl := hc.toLocal
  obtain ⟨r0, _, hrl, hrp, _, _, rest0, hr0⟩ := upper_head hc hsm hsu
  have hrr : sr = r0 := by rw [hsr] at hr0; injection hr0
  subst hrr
  have hpres := head_present hc hsm hsr
  have hsw : sm.whiteout = false := by
    have hw := hc.wh src sm hsm
    have hsh := reals_shape hc hsm sr (by simp [hsr])
    rw [hw, hsr]
    simp only [headWhiteout]
    rw [hsh.2.2]
    have : s.disk.statReal sr = s.disk.nodeAt sr.layer src := by simp [Disk.statReal, hsh.1]
    rw [← this]; exact hnw
  unfold linkTail
  rw [bind_ok (getNode_ok hsm)]
  simp only [hsr]
  obtain ⟨old, hcatch, holdp⟩ := catchLookup_eval hc hpm hpw hlo n
  rw [bind_ok hcatch]
  have hcheck : (checkOld old s = .ok () s ∧ (∀ o, old = some o → o.whiteout = true)) ∨
      (∃ e, checkOld old s = .err e s) := by
    cases old with
    | none => exact Or.inl ⟨rfl, fun o h => by cases h⟩
    | some o =>
      by_cases how : o.whiteout = true
      · exact Or.inl ⟨by simp [checkOld, how, pure_eval], fun o' h => by cases h; exact how⟩
      · exact Or.inr ⟨EEXIST, by simp [checkOld, how, fail]⟩
  rcases hcheck with ⟨hck, howh⟩ | ⟨e, hck⟩
  rotate_left
  · rw [bind_err hck]; exact hc
  rw [bind_ok hck]
  -- the new name is not the source itself
  have hne : src ≠ n :: pp := by
    intro h
    cases old with
    | none =>
      obtain ⟨pm', hpm', hin⟩ := hl.reach n pp sm (by rw [← h]; exact hsm)
      rw [hpm] at hpm'; cases hpm'
      exact holdp hin
    | some o =>
      have : s.mem (n :: pp) = some o := holdp
      rw [← h, hsm] at this
      cases this
      have := howh sm rfl
      rw [hsw] at this; cases this
  -- the entry that gets the second name
  generalize hX : s.disk.statReal sr = X at hnd hnw hpres
  have hXup : ∀ L, s.disk.upper = some L → L src = X := by
    intro L hup
    rw [← hX]
    simp [Disk.statReal, hrl, hrp, Disk.nodeAt, Disk.layer, hup]
  have hNew : NewEntry false X := ⟨hpres, hnw, fun h => (by cases h), fun _ => hnd⟩
  have := createTailG_cons hc pp n false old (fun pr => pr.link sr.path n) X hNew
    (C := fun L => L src = X) (by rw [hrp]; exact mkLike_link src n X hpres hnd)
    (fun L hup => ⟨hXup L hup, by simp only [Layer.set, if_neg hne]; exact hXup L hup⟩)
    hpm hpu hlo
    (by
      cases old with
      | none => exact holdp
      | some o => exact ⟨holdp, howh o rfl⟩)
  cases hres : createTailG pp n false old (fun pr => pr.link sr.path n) s with
  | err e s' => rw [hres] at this; exact this.1
  | ok u s' =>
    rw [hres] at this
    obtain ⟨hc', _, ⟨X', hX', hv'⟩, _, hdf, hmf, _⟩ := this
    refine ⟨hc', X, X', ?_, hX', hv', hnd⟩
    -- the source node is untouched
    have hnb : (n :: pp).isSuffixOf src = false := by
      cases hb : (n :: pp).isSuffixOf src with
      | false => rfl
      | true =>
        exfalso
        obtain ⟨t, ht⟩ := List.isSuffixOf_iff_suffix.1 hb
        rcases List.eq_nil_or_concat t with rfl | ⟨t', c, rfl⟩
        · exact hne (by simpa using ht.symm)
        · have hsrc : t' ++ (c :: n :: pp) = src := by rw [← ht]; simp
          rw [← hsrc] at hsm
          obtain ⟨cm, hcm⟩ := mem_suffix_closed hc t' (c :: n :: pp) sm hsm
          obtain ⟨o, ho, hckid⟩ := hl.reach c (n :: pp) cm hcm
          -- the node at the new name has a child: it is neither absent nor a whiteout
          cases old with
          | none =>
            obtain ⟨pm', hpm', hin⟩ := hl.reach n pp o ho
            rw [hpm] at hpm'; cases hpm'
            exact holdp hin
          | some o' =>
            have : s.mem (n :: pp) = some o' := holdp
            rw [ho] at this; cases this
            have how := howh o rfl
            have hwh := hc.wh _ o ho
            rw [how] at hwh
            cases hor : o.reals with
            | nil => rw [hor] at hwh; simp [headWhiteout] at hwh
            | cons ro resto =>
              rw [hor] at hwh
              have hrow : ro.whiteout = true := by simpa [headWhiteout] using hwh.symm
              have hsh := reals_shape hc ho ro (by simp [hor])
              have hndo : (s.disk.statReal ro).isDir = false := by
                have : (s.disk.nodeAt ro.layer (n :: pp)).isWhiteout = true := by rw [← hsh.2.2]; exact hrow
                simp only [Disk.statReal, hsh.1]
                cases hx : s.disk.nodeAt ro.layer (n :: pp) <;> simp_all [Node.isWhiteout, Node.isDir]
              rw [(nondir_no_kids hc ho hor hndo).1] at hckid
              cases hckid
    have hsm' : s'.mem src = some sm := by rw [hmf src hsp hnb]; exact hsm
    have hup' : UpNode src X s' := ⟨hc', ⟨sm, hsm', hsu⟩, by
      rw [hdf src hne, ← hX]; simp [Disk.statReal, hrl, hrp]⟩
    exact specStat_of_upNode hup' hnw

theorem doLink_tail_eq (src pp : Path) (n : Name) :
    (do
      let sm ← getNode src
      match sm.reals with
      | [] => fail EOTHER
      | sr :: _ => do
        let old ← catchEnoent (lookupNode pp n)
        checkOld old
        let pr ← getUpperReal pp
        whenM (oldInUpper old) (tryDeleteWhiteout pr n)
        let ri ← pr.link sr.path n
        installChild pp n false old pr ri : M Unit) = linkTail src pp n := rfl

/-- `do_link` from a state where the new parent has been looked up (a loaded directory node) -/
theorem doLink_spec (src pp : Path) (n : Name) (s : St) (hc : Consistent s)
    {pm : MNode} (hpm : s.mem pp = some pm) (hlo : pm.loaded = true)
    {rp : Real} {restp : List Real} (hrp : pm.reals = rp :: restp) (hpd : (s.disk.statReal rp).isDir = true) :
    Outcome (doLink src pp n s) (fun _ s' => Consistent s' ∧ Linked src (n :: pp) s'.disk)
      (fun s' => Consistent s') := by
  unfold doLink
  rw [bind_ok (hasUpper_eval s)]
  cases hupb : s.disk.upper.isSome with
  | false => simp only [Bool.not_false, if_true]; exact hc
  | true =>
    simp only [Bool.not_true, Bool.false_eq_true, if_false]
    cases hsm : s.mem src with
    | none => rw [bind_err (getNode_err hsm)]; exact hc
    | some sm =>
      rw [bind_ok (getNode_ok hsm), bind_ok (getNode_ok hpm)]
      by_cases hww : (sm.whiteout || pm.whiteout) = true
      · simp only [hww, if_true]; exact hc
      simp only [hww, Bool.false_eq_true, if_false]
      have hsw : sm.whiteout = false := by
        cases h : sm.whiteout with
        | false => rfl
        | true => simp [h] at hww
      have hst := nodeStat_eq hc hsm
      cases hsr : sm.reals with
      | nil => rw [hsr] at hst; rw [bind_err hst]; exact hc
      | cons sr srest =>
        rw [hsr] at hst
        rw [bind_ok hst]
        by_cases hsd : (s.disk.statReal sr).isDir = true
        · simp only [hsd, if_true]; exact hc
        simp only [hsd, Bool.false_eq_true, if_false]
        simp only [Bool.not_eq_true] at hsd
        -- the source is not a whiteout on disk
        have hsnw : (s.disk.statReal sr).isWhiteout = false := by
          have hw := hc.wh src sm hsm
          have hsh := reals_shape hc hsm sr (by simp [hsr])
          rw [hsw, hsr] at hw
          simp only [headWhiteout] at hw
          have : s.disk.statReal sr = s.disk.nodeAt sr.layer src := by simp [Disk.statReal, hsh.1]
          rw [this, ← hsh.2.2]; exact hw.symm
        have hnotanc := nondir_not_ancestor hc hsm hsr hsd hpm hrp hpd
        -- copy the source up
        have hcp1 := copyNodeUp_spec src s hc
        cases hres1 : copyNodeUp src s with
        | err e s1 => rw [hres1] at hcp1; rw [bind_err hres1]; exact hcp1.1
        | ok u1 s1 =>
          rw [hres1] at hcp1
          rw [bind_ok hres1]
          -- copy the new parent up
          have hcp2 := copyNodeUp_spec pp s1 hcp1.cons
          cases hres2 : copyNodeUp pp s1 with
          | err e s2 => rw [hres2] at hcp2; rw [bind_err hres2]; exact hcp2.1
          | ok u2 s2 =>
            rw [hres2] at hcp2
            rw [bind_ok hres2]
            show Outcome (linkTail src pp n s2) _ _
            have hc2 := hcp2.cons
            -- the source node afterwards
            obtain ⟨sm1, hsm1, hsu1⟩ := hcp1.up
            have hsm2 : s2.mem src = some sm1 := by
              rw [hcp2.frame src (by rw [hnotanc]; simp)]; exact hsm1
            obtain ⟨sm2, r2, rest2, hsm2', hr2, hd2, hw2⟩ := (hcp1.stat.trans hcp2.stat) src sm sr srest hsm hsr
            rw [hsm2] at hsm2'; cases hsm2'
            -- the parent node afterwards
            obtain ⟨pm2, hpm2, hpu2⟩ := hcp2.up
            obtain ⟨pm1, hpm1, hlo1, _⟩ := hcp1.keep pp pm hpm
            obtain ⟨pm2', hpm2', hlo2, _⟩ := hcp2.keep pp pm1 hpm1
            rw [hpm2] at hpm2'; cases hpm2'
            obtain ⟨pm2', rp2, restp2, hpm2', hrp2, hpd2, _⟩ := (hcp1.stat.trans hcp2.stat) pp pm rp restp hpm hrp
            rw [hpm2] at hpm2'; cases hpm2'
            have hpw2 : pm2.whiteout = false := dir_not_whiteout hc2 hpm2 hrp2 (by rw [hpd2]; exact hpd)
            have hsrcpp : src ≠ pp := by
              intro h
              rw [h, below_self] at hnotanc
              cases hnotanc
            exact linkTail_cons hc2 src pp n hsm2 hsu1 hr2 (by rw [hd2]; exact hsd) (hw2 hsnw)
              hpm2 hpu2 (by rw [hlo2, hlo1]; exact hlo) hpw2 hsrcpp

/-- the whole LINK operation: the cache stays valid, and on success both names show the same
    non-directory -/
theorem runOp_link_eff (src dst : List Name) :
    Triple Consistent (runOp (.link src dst))
      (fun _ s => Consistent s ∧ Linked src.reverse dst.reverse s.disk) Consistent := by
  unfold runOp
  refine Triple.bind (Q := fun r s => r.1 = src.reverse ∧ Consistent s) ?_ fun r => Triple.pure_pre fun hsrc => ?_
  · intro s hs
    have := resolve_spec s.disk src s ⟨hs, rfl⟩
    exact ⟨fun a s' h => ⟨(this.1 a s' h).2.1, (this.1 a s' h).1.1⟩, fun e s' h => (this.2 e s' h).1.1⟩
  obtain ⟨sp, st⟩ := r
  simp only at hsrc
  refine Triple.ite' (fun _ => Triple.fail' fun _ h => h) fun _ => ?_
  refine Triple.bind (resolveParent_spec' dst) fun r => Triple.pure_pre fun hdst => ?_
  obtain ⟨pp, n⟩ := r
  simp only at hdst
  rw [← hsrc, ← hdst]
  -- from here on the disk is fixed until `do_link`
  intro s ⟨hc, std, hsp, hdd, _⟩
  have key : Triple (CD s.disk) (do
      let sm ← lookupSelf sp
      if sm.whiteout then fail ENOENT else do
      let pm ← lookupSelf pp
      if pm.whiteout then fail ENOENT else do
      doLink sp pp n
      let _ ← doLookup pp n
      pure Reply.done) (fun _ s => Consistent s ∧ Linked sp (n :: pp) s.disk) Consistent := by
    refine Triple.bind ((lookupSelf_ro (loadDirectory_cd s.disk) sp).conseq (fun _ h => h) (fun _ _ h => h)
      (fun _ h => h.1)) fun sm => ?_
    refine Triple.ite' (fun _ => Triple.fail' fun _ h => h.1) fun _ => ?_
    refine Triple.bind (Q := fun pm s' => Consistent s' ∧ s'.mem pp = some pm ∧ pm.loaded = true ∧
        ∃ rp restp, pm.reals = rp :: restp ∧ (s'.disk.statReal rp).isDir = true) ?_ fun pm => ?_
    · intro s1 hs1
      cases hm : s1.mem pp with
      | none =>
        refine ⟨fun a s' h => ?_, fun e s' h => ?_⟩ <;> simp [lookupSelf, bind_err (getNode_err hm)] at h
        obtain ⟨_, rfl⟩ := h; exact hs1.1
      | some m =>
        have h := lookupSelf_spec s.disk pp s1 ⟨hs1, m, hm⟩
        refine ⟨fun a s' hf => ?_, fun e s' hf => (h.2 e s' hf).1.1⟩
        obtain ⟨⟨hc', hd'⟩, hm', _, hload⟩ := h.1 a s' hf
        obtain ⟨_, rp, restp, hrp, hstp⟩ := not_whiteout_of_spec hc' hm' (by rw [hd']; exact hsp)
        exact ⟨hc', hm', hload std hsp hdd, rp, restp, hrp, by rw [hstp]; exact hdd⟩
    · refine Triple.ite' (fun _ => Triple.fail' fun _ h => h.1) fun _ => ?_
      refine Triple.bind (Q := fun _ s => Consistent s ∧ Linked sp (n :: pp) s.disk) ?_ fun _ => ?_
      · apply Triple.ofOutcome
        intro s2 ⟨hc2, hpm2, hlo2, rp, restp, hrp, hpd⟩
        exact doLink_spec sp pp n s2 hc2 hpm2 hlo2 hrp hpd
      · refine Triple.bind (Triple.keepDisk (fun d => doLookup_ro (loadDirectory_cd d) pp n) _) fun _ => ?_
        exact Triple.pure' fun _ h => h
  exact key s ⟨hc, rfl⟩

theorem runOp_link_cons (src dst : List Name) :
    Triple Consistent (runOp (.link src dst)) (fun _ => Consistent) Consistent :=
  (runOp_link_eff src dst).post fun _ _ h => h.1

end Fbr.Ovl
