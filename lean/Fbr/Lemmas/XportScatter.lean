/-
  Helper lemmas for C04: what the copy-in loop (`VirtioFsWriter::write`, a source filling the
  offered buffers) leaves in memory, for buffers whose addresses are pairwise distinct.
-/
import Fbr.Lemmas.XportMem

namespace Fbr.Xport

theorem getElem_segAddrs (s : Seg) (j : Nat) (h : j < (segAddrs s).length) :
    (segAddrs s)[j] = (s.region, s.off + j) := by
  simp [segAddrs]

/-- effect of `copyIn` on memory: region sizes are kept, the `j`-th address of the buffers
    receives `data[j]`, every address outside the first `data.length` ones keeps its byte -/
theorem copyIn_mem (w : World) (bufs : List Seg) (data : Bytes)
    (hnd : (addrs bufs).Nodup) (hin : InMem w.mem (addrs bufs)) :
    (∀ x, ((copyIn w bufs data).1.mem.get x).length = (w.mem.get x).length)
    ∧ (∀ a, a ∉ (addrs bufs).take data.length → (copyIn w bufs data).1.mem.byteAt a = w.mem.byteAt a)
    ∧ (∀ j (h1 : j < data.length) (h2 : j < (addrs bufs).length),
        (copyIn w bufs data).1.mem.byteAt ((addrs bufs)[j]) = data[j]) := by
  induction bufs generalizing w data with
  | nil => simp [copyIn, addrs]
  | cons s rest ih =>
    simp only [copyIn]
    -- the step on the first buffer
    have hclen : (data.take (min data.length s.len)).length = (min data.length s.len) := by
      simp only [List.length_take]; omega
    have hfit : data.take (min data.length s.len) = [] ∨ s.off + (data.take (min data.length s.len)).length ≤ (w.mem.get s.region).length := by
      by_cases h0 : (min data.length s.len) = 0
      · left; exact List.eq_nil_of_length_eq_zero (by rw [hclen]; exact h0)
      · right
        have hc : 0 < s.len := by omega
        have := hin (s.region, s.off + (s.len - 1)) (by
          simp only [addrs]; exact List.mem_append_left _ (mk_mem_segAddrs s _ (by omega)))
        simp only at this
        rw [hclen]; omega
    let w1 : World := { w with mem := w.mem.write s.region s.off (data.take (min data.length s.len)),
                               log := w.log ++ [{ region := s.region, off := s.off, len := (min data.length s.len), write := true }] }
    have hnd' : (addrs rest).Nodup := (List.nodup_append.mp hnd).2.1
    have hdisj : ∀ a ∈ segAddrs s, a ∉ addrs rest := fun a ha hb => (List.nodup_append.mp hnd).2.2 a ha a hb rfl
    have hlen1 : ∀ x, (w1.mem.get x).length = (w.mem.get x).length := fun x => length_get_write' _ _ _ _ hfit x
    have hin1 : InMem w1.mem (addrs rest) := by
      intro a ha; rw [hlen1]; exact hin a (by simp [addrs, ha])
    obtain ⟨i1, i2, i3⟩ := ih w1 (data.drop (min data.length s.len)) hnd' hin1
    have hb1 : ∀ a, w1.mem.byteAt a =
        if a.1 = s.region ∧ s.off ≤ a.2 ∧ a.2 < s.off + (data.take (min data.length s.len)).length then (data.take (min data.length s.len)).getD (a.2 - s.off) 0
        else w.mem.byteAt a := fun a => byteAt_write' _ _ _ _ hfit a
    have hdroplen : (data.drop (min data.length s.len)).length = data.length - (min data.length s.len) := by simp
    -- `rest.take` with the two ways of counting what is left of the data
    have htk : (addrs rest).take (data.length - (min data.length s.len)) = (addrs rest).take (data.length - s.len) := by
      by_cases hl : data.length ≤ s.len
      · have : (min data.length s.len) = data.length := by omega
        rw [this, Nat.sub_self, Nat.sub_eq_zero_of_le hl]
      · have : (min data.length s.len) = s.len := by omega
        rw [this]
    refine ⟨fun x => by rw [i1, hlen1], ?_, ?_⟩
    · intro a ha
      simp only [addrs, List.take_append, length_segAddrs, List.mem_append, not_or] at ha
      obtain ⟨ha1, ha2⟩ := ha
      rw [i2 a (by rw [hdroplen, htk]; exact ha2), hb1]
      have : ¬ (a.1 = s.region ∧ s.off ≤ a.2 ∧ a.2 < s.off + (data.take (min data.length s.len)).length) := by
        intro hcon
        apply ha1
        rw [hclen] at hcon
        have hm : a ∈ segAddrs s := by rw [mem_segAddrs]; exact ⟨hcon.1, hcon.2.1, by have := hcon.2.2; omega⟩
        obtain ⟨i, hi, e⟩ := List.getElem_of_mem hm
        have hia : i = a.2 - s.off := by
          rw [getElem_segAddrs] at e
          have := congrArg Prod.snd e; simp only at this; omega
        rw [List.mem_take_iff_getElem]
        refine ⟨i, ?_, e⟩
        have := hcon.2.2
        simp only [length_segAddrs] at hi ⊢
        omega
      simp only [this, if_false]
    · intro j h1 h2
      simp only [addrs] at h2 ⊢
      by_cases hj : j < s.len
      · rw [List.getElem_append_left (by simpa using hj), getElem_segAddrs]
        have hnot : (s.region, s.off + j) ∉ (addrs rest).take (data.drop (min data.length s.len)).length :=
          fun hm => hdisj _ (mk_mem_segAddrs s j hj) (List.mem_of_mem_take hm)
        rw [i2 _ hnot, hb1]
        have hjc : j < (min data.length s.len) := by omega
        have : ((s.region, s.off + j) : Addr).1 = s.region ∧ s.off ≤ ((s.region, s.off + j) : Addr).2
            ∧ ((s.region, s.off + j) : Addr).2 < s.off + (data.take (min data.length s.len)).length := by
          exact ⟨rfl, Nat.le_add_right _ _, by rw [hclen]; exact Nat.add_lt_add_left hjc _⟩
        simp only [this, and_self, if_true]
        rw [List.getD_eq_getElem?_getD, List.getElem?_take]
        simp only [show s.off + j - s.off = j by omega, hjc, if_true]
        rw [List.getElem?_eq_getElem h1]; rfl
      · have hcs : (min data.length s.len) = s.len := by omega
        rw [List.getElem_append_right (by simpa using Nat.le_of_not_lt hj)]
        simp only [length_segAddrs]
        have h2' : j - s.len < (addrs rest).length := by simp at h2 ⊢; omega
        have := i3 (j - s.len) (by rw [hdroplen, hcs]; omega) h2'
        rw [this]
        simp only [List.getElem_drop, hcs]
        congr 1; omega

end Fbr.Xport
