/-
  Helper lemmas for C16: the `(fd position, cached cookie)` invariant is kept by every request,
  whatever its parameters, its callback and the host (no well-formedness needed).
-/
import Fbr.Lemmas.PtDirReq

namespace Fbr.Lemmas.PtDir
open Fbr.PtDir Fbr.Wire

/-- a batch and the descriptor it was read through agree: the fd stands after the last record -/
def Agree (b : Dir) (fd : Fd) : Prop := b ≠ [] → lastCookieL b = some fd.pos

theorem getdents_agree (d : Dir) (size pos : Nat) (b : Dir) (p : Nat) (h : getdents d size pos = .ok (b, p)) :
    b ≠ [] → lastCookieL b = some p := by
  unfold getdents at h
  split at h
  · cases h; intro hne; exact absurd rfl hne
  · split at h
    · cases h
    · cases h
      intro hne
      obtain ⟨c, hc⟩ : ∃ c, lastCookieL (fitPrefix size _) = some c := ⟨_, lastCookieL_eq _ hne⟩
      rw [hc]; rfl

theorem getdentsFd_agree (H : Host) (size : Nat) (fd : Fd) (b : Dir) (fd' : Fd)
    (h : getdentsFd H size fd = (.ok b, fd')) : Agree b fd' := by
  unfold getdentsFd at h
  split at h
  · cases h; intro hne; exact absurd rfl hne
  · split at h
    · cases h; intro hne; exact absurd rfl hne
    · cases hg : getdents H.dir size fd.pos with
      | error e => rw [hg] at h; cases h
      | ok r =>
        obtain ⟨b', p⟩ := r
        rw [hg] at h
        cases h
        exact getdents_agree _ _ _ _ _ hg

theorem skipL_suffix_last (b : Dir) (c : Nat) (r : Dir) (h : skipToCookieL b c = some r) (hr : r ≠ []) :
    lastCookieL r = lastCookieL b := by
  obtain ⟨pre, e, hb, _, _⟩ := skipL_some b c r h
  rw [hb]
  have : pre ++ e :: r = (pre ++ [e]) ++ r := by simp
  rw [this, lastCookieL_append _ _ hr]

theorem scan_agree (H : Host) (size offset : Nat) :
    ∀ (fuel : Nat) (fd : Fd) (found : Bool) (b : Dir) (fd' : Fd),
      scan H size offset fuel fd found = (.ok b, fd') → Agree b fd' := by
  intro fuel
  induction fuel with
  | zero =>
    intro fd found b fd' h
    simp only [scan] at h
    cases h; intro hne; exact absurd rfl hne
  | succ fuel ih =>
    intro fd found b fd' h
    unfold scan at h
    cases hg : getdentsFd H size fd with
    | mk r fd1 =>
      rw [hg] at h
      cases r with
      | error e => cases h
      | ok b1 =>
        simp only at h
        have hag := getdentsFd_agree H size fd b1 fd1 hg
        split at h
        · cases h; intro hne; exact absurd rfl hne
        · split at h
          · cases h; exact hag
          · cases hs : skipToCookieL b1 offset with
            | none => rw [hs] at h; exact ih _ _ _ _ h
            | some rest =>
              rw [hs] at h
              simp only at h
              split at h
              · rename_i hne
                simp only [Prod.mk.injEq, Except.ok.injEq] at h
                obtain ⟨hb, hfd⟩ := h
                subst hb; subst hfd
                have hne' : rest ≠ [] := by simpa using hne
                intro _
                rw [skipL_suffix_last b1 offset _ hs hne']
                apply hag
                intro hb1
                rw [hb1] at hs
                simp [skipToCookieL] at hs
              · exact ih _ _ _ _ h

theorem refetch_agree (H : Host) (size : Nat) :
    ∀ (fuel : Nat) (b0 : Dir) (fd0 : Fd) (b : Dir) (fd : Fd), Agree b0 fd0 →
      refetch H size fuel b0 fd0 = (.ok b, fd) → Agree b fd := by
  intro fuel
  induction fuel with
  | zero =>
    intro b0 fd0 b fd ha h
    simp only [refetch] at h
    cases h; exact ha
  | succ fuel ih =>
    intro b0 fd0 b fd ha h
    unfold refetch at h
    split at h
    · cases hg : getdentsFd H size fd0 with
      | mk r fd1 =>
        rw [hg] at h
        cases r with
        | error e => cases h
        | ok b1 => exact ih _ _ _ _ (getdentsFd_agree H size fd0 b1 fd1 hg) h
    · cases h; exact ha

theorem fetch_agree (H : Host) (hit : Bool) (fd0 : Fd) (size offset : Nat) (b : Dir) (fd : Fd)
    (h : fetch H hit fd0 size offset = (.ok b, fd)) : Agree b fd := by
  unfold fetch at h
  split at h
  · exact getdentsFd_agree _ _ _ _ _ h
  · split at h
    · exact scan_agree _ _ _ _ _ _ _ _ h
    · split at h
      · exact getdentsFd_agree _ _ _ _ _ h
      · split at h
        · exact scan_agree _ _ _ _ _ _ _ _ h
        · cases h

/-- the four facts every request keeps -/
def Kept (st st' : St) : Prop :=
  Inv st' ∧ st'.noOpendir = st.noOpendir ∧ st'.next = st.next ∧ (∀ h', (st'.fds h').isSome = (st.fds h').isSome)

theorem kept_same (st st' : St) (inv : Inv st) (h1 : st'.fds = st.fds) (h2 : st'.cache = st.cache)
    (h3 : st'.next = st.next) (h4 : st'.noOpendir = st.noOpendir) : Kept st st' := by
  refine ⟨⟨?_, ?_, ?_⟩, h4, h3, fun h' => by rw [h1]⟩
  · intro h fd c; rw [h1, h2]; exact inv.sound h fd c
  · intro h; rw [h1, h2]; exact inv.closed h
  · intro h; rw [h1, h3]; exact inv.fresh h

/-- updating handle `h` with a descriptor and a cache entry that agree keeps the invariant -/
theorem kept_update (st st' : St) (inv : Inv st) (h : Nat) (fd0 fd : Fd) (hfd : st.fds h = some fd0)
    (co : Option Nat) (hco : ∀ c, co = some c → fd.pos = c)
    (h1 : st'.fds = upd st.fds h (some fd)) (h2 : st'.cache = upd st.cache h co)
    (h3 : st'.next = st.next) (h4 : st'.noOpendir = st.noOpendir) : Kept st st' := by
  have hfresh_h : ¬ st.next ≤ h := by
    intro hle
    have := inv.fresh h hle
    rw [hfd] at this; cases this
  refine ⟨⟨?_, ?_, ?_⟩, h4, h3, ?_⟩
  · intro h' fd' c' hf' hc'
    rw [h1] at hf'; rw [h2] at hc'
    simp only [upd] at hf' hc'
    by_cases hh' : h' = h
    · simp only [hh', if_true] at hf' hc'
      cases hf'; exact hco c' hc'
    · simp only [hh', if_false] at hf' hc'
      exact inv.sound h' fd' c' hf' hc'
  · intro h' hf'
    rw [h1] at hf'; rw [h2]
    simp only [upd] at hf' ⊢
    by_cases hh' : h' = h
    · simp [hh'] at hf'
    · simp only [hh', if_false] at hf' ⊢
      exact inv.closed h' hf'
  · intro h' hle
    rw [h1, h3] at *
    simp only [upd]
    by_cases hh' : h' = h
    · subst hh'; exact absurd hle hfresh_h
    · simp only [hh', if_false]; exact inv.fresh h' hle
  · intro h'
    rw [h1]
    simp only [upd]
    by_cases hh' : h' = h
    · simp [hh', hfd]
    · simp [hh']

/-- **any** READDIR(PLUS) request — any handle, size, offset, callback — keeps the invariant and
    neither opens nor closes a directory stream -/
theorem doReaddir_inv {σ : Type} (H : Host) (st : St) (inv : Inv st) (plus : Bool) (h size offset : Nat)
    (cb : Cb σ) (s0 : σ) : Kept st (doReaddir H st plus h size offset cb s0).st := by
  unfold doReaddir
  by_cases hsz : size = 0
  · simp only [hsz, if_true]; exact kept_same st st inv rfl rfl rfl rfl
  simp only [hsz, if_false]
  by_cases hno : st.noOpendir = true
  · simp only [hno, if_true, setFd]
    cases fetch H (!true && st.cache h == some offset) {} size offset with
    | mk r fd1 =>
      cases r with
      | error e => exact kept_same st _ inv rfl rfl rfl rfl
      | ok b0 =>
        simp only
        cases refetch H size (H.dir.length + 1) b0 fd1 with
        | mk r2 fd2 =>
          cases r2 with
          | error e => exact kept_same st _ inv rfl rfl rfl rfl
          | ok b => exact kept_same st _ inv rfl rfl rfl hno.symm
  · have hno' : st.noOpendir = false := by simpa using hno
    simp only [hno', Bool.false_eq_true, if_false, setFd]
    cases hfd : st.fds h with
    | none => exact kept_same st _ inv rfl rfl rfl rfl
    | some fd0 =>
      simp only
      cases hf : fetch H (!false && st.cache h == some offset) fd0 size offset with
      | mk r fd1 =>
        cases r with
        | error e =>
          simp only
          exact kept_update st _ inv h fd0 fd1 hfd none (fun c hc => by cases hc) rfl rfl rfl hno'.symm
        | ok b0 =>
          simp only
          have ha1 := fetch_agree _ _ _ _ _ _ _ hf
          cases hr : refetch H size (H.dir.length + 1) b0 fd1 with
          | mk r2 fd2 =>
            cases r2 with
            | error e =>
              simp only
              exact kept_update st _ inv h fd0 fd2 hfd none (fun c hc => by cases hc) rfl rfl rfl hno'.symm
            | ok b =>
              simp only
              have ha2 := refetch_agree _ _ _ _ _ _ _ ha1 hr
              cases hl : lastCookieL b with
              | none =>
                simp only
                exact kept_update st _ inv h fd0 fd2 hfd none (fun c hc => by cases hc) rfl rfl rfl hno'.symm
              | some cl =>
                simp only
                have hbne : b ≠ [] := by
                  intro hbe; rw [hbe] at hl; simp [lastCookieL] at hl
                have := ha2 hbne
                rw [hl] at this
                have hcl : fd2.pos = cl := (Option.some.inj this).symm
                have hupd : upd (upd st.cache h none) h (some cl) = upd st.cache h (some cl) := by
                  funext x; simp only [upd]; split <;> rfl
                exact kept_update st _ inv h fd0 fd2 hfd (some cl) (fun c hc => by cases hc; exact hcl) rfl hupd rfl hno'.symm

theorem opendir_inv (st : St) (inv : Inv st) :
    Inv (opendir st).1 ∧ (opendir st).1.noOpendir = st.noOpendir ∧
    (∀ h', (st.fds h').isSome = true → ((opendir st).1.fds h').isSome = true) := by
  unfold opendir
  split
  · exact ⟨inv, rfl, fun _ h => h⟩
  · refine ⟨⟨?_, ?_, ?_⟩, rfl, ?_⟩
    · intro h' fd' c' hf' hc'
      simp only [upd] at hf' hc'
      by_cases hh' : h' = st.next
      · have := inv.closed h' (inv.fresh h' (by omega))
        rw [this] at hc'; cases hc'
      · simp only [hh', if_false] at hf'
        exact inv.sound h' fd' c' hf' hc'
    · intro h' hf'
      simp only [upd] at hf'
      by_cases hh' : h' = st.next
      · simp [hh'] at hf'
      · simp only [hh', if_false] at hf'
        exact inv.closed h' hf'
    · intro h' hle
      have hle' : st.next + 1 ≤ h' := hle
      simp only [upd]
      have : h' ≠ st.next := by omega
      simp only [this, if_false]
      exact inv.fresh h' (by omega)
    · intro h' hs
      simp only [upd]
      split
      · rfl
      · exact hs

theorem releasedir_inv (st : St) (inv : Inv st) (h : Nat) :
    Inv (releasedir st h).1 ∧ (releasedir st h).1.noOpendir = st.noOpendir ∧
    (∀ h', h' ≠ h → (st.fds h').isSome = true → ((releasedir st h).1.fds h').isSome = true) := by
  unfold releasedir
  split
  · exact ⟨inv, rfl, fun _ _ h => h⟩
  · split
    · exact ⟨inv, rfl, fun _ _ h => h⟩
    · refine ⟨⟨?_, ?_, ?_⟩, rfl, ?_⟩
      · intro h' fd' c' hf' hc'
        simp only [upd] at hf' hc'
        by_cases hh' : h' = h
        · simp [hh'] at hf'
        · simp only [hh', if_false] at hf' hc'
          exact inv.sound h' fd' c' hf' hc'
      · intro h' hf'
        simp only [upd] at hf' ⊢
        by_cases hh' : h' = h
        · simp [hh']
        · simp only [hh', if_false] at hf' ⊢
          exact inv.closed h' hf'
      · intro h' hle
        simp only [upd]
        by_cases hh' : h' = h
        · simp [hh']
        · simp only [hh', if_false]; exact inv.fresh h' hle
      · intro h' hne hs
        simp only [upd, hne, if_false]
        exact hs

end Fbr.Lemmas.PtDir
