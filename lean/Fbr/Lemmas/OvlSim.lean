/-
  (B) The in-memory forest is a valid cache of the disk: `Consistent s`.  Established by
  `import`, preserved by loading (`load_directory`, lookups, readdir, walking), and it makes the
  live view equal to the SPEC `merge` of the disk.
-/
import Fbr.Ovl
import Fbr.Lemmas.OvlMerge
import Fbr.Lemmas.OvlSpecLink
import Fbr.Lemmas.OvlExp
import Fbr.Lemmas.OvlHoare

namespace Fbr.Ovl

/-- a real inode whose cached `opaque` flag was taken before `set_opaque` ran (do_mkdir) -/
def staleOf (e : Real) : Real := { e with opq := false }

/-- the node's real inodes are the ones the disk dictates, except that the single real inode of
    a directory made by do_mkdir (always in the upper layer) may carry a stale `opaque = false` -/
def RealsOK (d : Disk) (p : Path) (rs : List Real) : Prop :=
  rs = expReals d p ∨ ∃ e, expReals d p = [e] ∧ e.inUpper = true ∧ rs = [staleOf e]

def headWhiteout : List Real → Bool
  | r :: _ => r.whiteout
  | [] => false

/-- a stack that must have a node in a loaded parent: something visible, or an upper whiteout
    (a name hidden by a LOWER whiteout may have no node: `do_rm` drops the node in that case) -/
def needsNode : List Real → Bool
  | r :: _ => !r.whiteout || r.inUpper
  | [] => false

structure Consistent (s : St) : Prop where
  roots : s.disk.RootsOK
  trees : s.disk.TreesOK
  root : ∃ m, s.mem [] = some m
  reals : ∀ p m, s.mem p = some m → RealsOK s.disk p m.reals
  wh : ∀ p m, s.mem p = some m → m.whiteout = headWhiteout m.reals
  /-- a loaded directory lists only names that have real inodes, and every name that is visible
      or whited out in the upper layer -/
  kidsLoaded : ∀ p m, s.mem p = some m → m.loaded = true → ∀ n,
    (n ∈ m.kids → expReals s.disk (n :: p) ≠ []) ∧ (needsNode (expReals s.disk (n :: p)) = true → n ∈ m.kids)
  kidsMem : ∀ p m n, s.mem p = some m → n ∈ m.kids → ∃ c, s.mem (n :: p) = some c
  unloaded : ∀ p m, s.mem p = some m → m.loaded = false → m.kids = []
  reach : ∀ n p c, s.mem (n :: p) = some c → ∃ pm, s.mem p = some pm ∧ n ∈ pm.kids

/-! ### scanning a consistent node gives the expected children -/

theorem lookupChild_stale (d : Disk) (e : Real) (n : Name) :
    lookupChild d (staleOf e) n = lookupChild d e n := rfl

theorem takeDirs_single_stale (d : Disk) (e : Real) (n : Name) :
    (takeDirs d [staleOf e]).filterMap (lookupChild d · n) = (takeDirs d [e]).filterMap (lookupChild d · n) := by
  have h1 : takeDirs d [staleOf e] = (takeDirs d [e]).map staleOf := by
    simp only [takeDirs, Disk.statReal]
    by_cases hw : e.whiteout = true
    · simp [hw, staleOf]
    · simp only [Bool.not_eq_true] at hw
      by_cases hd : (d.nodeAt e.layer e.path).isDir = true
      · by_cases ho : e.opq = true <;> simp [hw, hd, ho, staleOf]
      · simp only [Bool.not_eq_true] at hd
        simp [hw, hd, staleOf]
  rw [h1, List.filterMap_map]
  rfl

theorem scan_cands (d : Disk) (p : Path) (rs : List Real) (n : Name) (h : RealsOK d p rs) :
    (takeDirs d rs).filterMap (lookupChild d · n) =
      (takeDirs d (expReals d p)).filterMap (lookupChild d · n) := by
  rcases h with h | ⟨e, he, _, h⟩
  · rw [h]
  · rw [h, he, takeDirs_single_stale]

/-- the node `new_from_real_inodes` builds from the expected real inodes -/
def freshNode (rs : List Real) : MNode := { reals := rs, whiteout := headWhiteout rs, loaded := false, kids := [] }

theorem newFromReals_fresh (d : Disk) (l : List Real) :
    newFromReals d l = match l with
      | [] => none
      | _ :: _ => some (freshNode (match newFromReals d l with | some k => k.reals | none => [])) := by
  cases l with
  | nil => rfl
  | cons r rest =>
    simp only [newFromReals]
    split
    · simp [freshNode, headWhiteout]
    · rename_i h
      simp only [Bool.or_eq_true, not_or, Bool.not_eq_true] at h
      simp [freshNode, headWhiteout, h.1.1]

theorem newFromReals_nonempty (d : Disk) (l : List Real) (k : MNode) (h : newFromReals d l = some k) :
    k.reals ≠ [] := by
  cases l with
  | nil => simp [newFromReals] at h
  | cons r rest =>
    simp only [newFromReals] at h
    split at h <;> (simp only [Option.some.injEq] at h; subst h; simp)

/-- the child `scan_childrens` produces for name `n` -/
theorem scanChild (d : Disk) (p : Path) (m : MNode) (n : Name) (h : RealsOK d p m.reals) :
    newFromReals d ((takeDirs d m.reals).filterMap (lookupChild d · n)) =
      (if expReals d (n :: p) = [] then none else some (freshNode (expReals d (n :: p)))) := by
  rw [scan_cands d p m.reals n h]
  generalize hc : (takeDirs d (expReals d p)).filterMap (lookupChild d · n) = c
  have he : expReals d (n :: p) = match newFromReals d c with | some k => k.reals | none => [] := by
    rw [expReals, hc]
    cases newFromReals d c <;> rfl
  rw [newFromReals_fresh, he]
  cases c with
  | nil => simp [newFromReals]
  | cons r rest =>
    cases hk : newFromReals d (r :: rest) with
    | none => simp [newFromReals] at hk; split at hk <;> cases hk
    | some k => simp [newFromReals_nonempty d _ k hk]

theorem scanKids_lookup (d : Disk) (p : Path) (m : MNode) (n : Name) (h : RealsOK d p m.reals) :
    (scanKids d m).lookup n =
      (if expReals d (n :: p) = [] then none else some (freshNode (expReals d (n :: p)))) := by
  unfold scanKids
  have key : ∀ (l : List Name), l.Nodup →
      (l.filterMap fun n' => (newFromReals d ((takeDirs d m.reals).filterMap (lookupChild d · n'))).map
        fun k => (n', k)).lookup n =
      if n ∈ l then newFromReals d ((takeDirs d m.reals).filterMap (lookupChild d · n)) else none := by
    intro l
    induction l with
    | nil => intro _; rfl
    | cons a rest ih =>
      intro hnd
      have hnd' := (List.nodup_cons.1 hnd)
      simp only [List.filterMap_cons]
      cases hk : newFromReals d ((takeDirs d m.reals).filterMap (lookupChild d · a)) with
      | none =>
        simp only [Option.map_none]
        rw [ih hnd'.2]
        by_cases hna : n = a
        · subst hna; simp [hnd'.1, hk]
        · simp [hna]
      | some k =>
        simp only [Option.map_some, List.lookup_cons]
        by_cases hna : n = a
        · subst hna; simp [hk]
        · have : (n == a) = false := by simpa using hna
          rw [this, ih hnd'.2]
          simp [hna]
  rw [key names (by decide), scanChild d p m n h]
  simp [mem_names]

theorem scanKids_names (d : Disk) (p : Path) (m : MNode) (n : Name) (h : RealsOK d p m.reals) :
    n ∈ (scanKids d m).map (·.1) ↔ expReals d (n :: p) ≠ [] := by
  have hl := scanKids_lookup d p m n h
  constructor
  · intro hm
    intro he
    rw [if_pos he] at hl
    -- n is a key of the list but lookup is none: contradiction
    simp only [List.mem_map] at hm
    obtain ⟨⟨n', k⟩, hmem, rfl⟩ := hm
    have : ∀ (l : List (Name × MNode)), (n', k) ∈ l → l.lookup n' ≠ none := by
      intro l
      induction l with
      | nil => intro h; cases h
      | cons x rest ih =>
        intro hx
        obtain ⟨a, b⟩ := x
        simp only [List.lookup_cons]
        by_cases hna : n' = a
        · subst hna; simp
        · have : (n' == a) = false := by simpa using hna
          rw [this]
          simp at hx
          rcases hx with hx | hx
          · exact absurd hx.1 hna
          · exact ih hx
    exact this _ hmem hl
  · intro he
    rw [if_neg he] at hl
    have := lookup_mem hl
    exact List.mem_map.2 ⟨_, this, rfl⟩

/-! ### `load_directory` -/

/-- the forest after loading the (unloaded, directory) node `m` at `p` -/
def loadedMem (d : Disk) (mem : Mem) (p : Path) (m : MNode) : Mem :=
  (insertKids mem p (scanKids d m)).set p
    (some { m with loaded := true, kids := addNames m.kids ((scanKids d m).map (·.1)) })

theorem insertKids_apply (d : Disk) (mem : Mem) (p : Path) (m : MNode) (h : RealsOK d p m.reals)
    (n : Name) (q : Path) :
    insertKids mem p (scanKids d m) (n :: q) =
      if q = p then
        (if expReals d (n :: p) = [] then mem (n :: q) else some (freshNode (expReals d (n :: p))))
      else mem (n :: q) := by
  simp only [insertKids]
  by_cases hq : q = p
  · subst hq
    simp only [if_true, scanKids_lookup d q m n h]
    by_cases he : expReals d (n :: q) = [] <;> simp [he]
  · simp [hq]

theorem addNames_nil (l : List Name) : addNames [] l = l := by simp [addNames]

theorem ne_cons_self {α : Type} (a : α) (l : List α) : l ≠ a :: l := by
  intro h
  have := congrArg List.length h
  simp at this

theorem ne_cons_cons_self {α : Type} (a b : α) (l : List α) : l ≠ a :: b :: l := by
  intro h
  have := congrArg List.length h
  simp at this
  omega

theorem loaded_consistent (s s' : St) (hc : Consistent s) (p : Path) (m : MNode) (hm : s.mem p = some m)
    (hl : m.loaded = false) (hd : s'.disk = s.disk) (hmem : s'.mem = loadedMem s.disk s.mem p m) :
    Consistent s' := by
  have hr := hc.reals p m hm
  have hk0 : m.kids = [] := hc.unloaded p m hm hl
  -- pointwise description of the new forest
  have hp : loadedMem s.disk s.mem p m p =
      some { m with loaded := true, kids := (scanKids s.disk m).map (·.1) } := by
    simp [loadedMem, Mem.set, hk0, addNames_nil]
  have hchild : ∀ n, loadedMem s.disk s.mem p m (n :: p) =
      if expReals s.disk (n :: p) = [] then s.mem (n :: p) else some (freshNode (expReals s.disk (n :: p))) := by
    intro n
    simp only [loadedMem, Mem.set, if_neg (Ne.symm (ne_cons_self n p)), insertKids_apply s.disk s.mem p m hr, if_true]
  have hother : ∀ q, q ≠ p → (∀ n, q ≠ n :: p) → loadedMem s.disk s.mem p m q = s.mem q := by
    intro q h1 h2
    simp only [loadedMem, Mem.set, if_neg h1]
    cases q with
    | nil => rfl
    | cons n q' =>
      rw [insertKids_apply s.disk s.mem p m hr]
      have : q' ≠ p := fun h => h2 n (by rw [h])
      simp [this]
  -- children of an unloaded node are not in the forest
  have hnochild : ∀ n, s.mem (n :: p) = none := by
    intro n
    cases hx : s.mem (n :: p) with
    | none => rfl
    | some c =>
      obtain ⟨pm, hpm, hn⟩ := hc.reach n p c hx
      rw [hm] at hpm; cases hpm
      rw [hk0] at hn; cases hn
  refine ⟨by rw [hd]; exact hc.roots, by rw [hd]; exact hc.trees, ?_, ?_, ?_, ?_, ?_, ?_, ?_⟩ <;> rw [hmem] <;> try rw [hd]
  · -- root
    by_cases hp0 : p = []
    · subst hp0; exact ⟨_, hp⟩
    · obtain ⟨m0, hm0⟩ := hc.root
      exact ⟨m0, by rw [hother [] (Ne.symm hp0) (fun n h => by cases h)]; exact hm0⟩
  · -- reals
    intro q m' hq
    by_cases h1 : q = p
    · subst h1; rw [hp] at hq; cases hq; exact hr
    · by_cases h2 : ∃ n, q = n :: p
      · obtain ⟨n, rfl⟩ := h2
        rw [hchild] at hq
        split at hq
        · rw [hnochild] at hq; cases hq
        · cases hq; exact Or.inl rfl
      · rw [hother q h1 (fun n h => h2 ⟨n, h⟩)] at hq
        exact hc.reals q m' hq
  · -- wh
    intro q m' hq
    by_cases h1 : q = p
    · subst h1; rw [hp] at hq; cases hq; exact hc.wh _ m hm
    · by_cases h2 : ∃ n, q = n :: p
      · obtain ⟨n, rfl⟩ := h2
        rw [hchild] at hq
        split at hq
        · rw [hnochild] at hq; cases hq
        · cases hq; rfl
      · rw [hother q h1 (fun n h => h2 ⟨n, h⟩)] at hq
        exact hc.wh q m' hq
  · -- kidsLoaded
    intro q m' hq hlq n
    by_cases h1 : q = p
    · subst h1; rw [hp] at hq; cases hq
      refine ⟨(scanKids_names s.disk q m n hr).1, fun hsp => (scanKids_names s.disk q m n hr).2 ?_⟩
      intro he
      rw [he] at hsp
      simp [needsNode] at hsp
    · by_cases h2 : ∃ n, q = n :: p
      · obtain ⟨n', rfl⟩ := h2
        rw [hchild] at hq
        split at hq
        · rw [hnochild] at hq; cases hq
        · cases hq; simp [freshNode] at hlq
      · rw [hother q h1 (fun n h => h2 ⟨n, h⟩)] at hq
        exact hc.kidsLoaded q m' hq hlq n
  · -- kidsMem
    intro q m' n hq hn
    by_cases h1 : q = p
    · subst h1; rw [hp] at hq; cases hq
      have := (scanKids_names s.disk q m n hr).1 hn
      exact ⟨_, by rw [hchild, if_neg this]⟩
    · by_cases h2 : ∃ n, q = n :: p
      · obtain ⟨n', rfl⟩ := h2
        rw [hchild] at hq
        split at hq
        · rw [hnochild] at hq; cases hq
        · cases hq; simp [freshNode] at hn
      · rw [hother q h1 (fun n h => h2 ⟨n, h⟩)] at hq
        obtain ⟨c, hcq⟩ := hc.kidsMem q m' n hq hn
        by_cases h3 : n :: q = p
        · exact ⟨_, by rw [h3]; exact hp⟩
        · refine ⟨c, ?_⟩
          rw [hother (n :: q) h3 (fun n' h => h1 (by injection h))]
          exact hcq
  · -- unloaded
    intro q m' hq hlq
    by_cases h1 : q = p
    · subst h1; rw [hp] at hq; cases hq; simp at hlq
    · by_cases h2 : ∃ n, q = n :: p
      · obtain ⟨n', rfl⟩ := h2
        rw [hchild] at hq
        split at hq
        · rw [hnochild] at hq; cases hq
        · cases hq; rfl
      · rw [hother q h1 (fun n h => h2 ⟨n, h⟩)] at hq
        exact hc.unloaded q m' hq hlq
  · -- reach
    intro n q c hq
    by_cases h0 : q = p
    · subst h0
      rw [hchild] at hq
      split at hq
      · rw [hnochild] at hq; cases hq
      · rename_i he
        exact ⟨_, hp, (scanKids_names s.disk q m n hr).2 he⟩
    · have hq' : s.mem (n :: q) = some c ∨ n :: q = p := by
        by_cases h3 : n :: q = p
        · exact Or.inr h3
        · left
          rw [hother (n :: q) h3 (fun n' h => h0 (by injection h))] at hq
          exact hq
      have hold : ∃ c', s.mem (n :: q) = some c' := by
        rcases hq' with h | h
        · exact ⟨c, h⟩
        · exact ⟨m, by rw [h]; exact hm⟩
      obtain ⟨c', hc'⟩ := hold
      obtain ⟨pm, hpm, hn⟩ := hc.reach n q c' hc'
      refine ⟨pm, ?_, hn⟩
      by_cases h2 : ∃ n', q = n' :: p
      · obtain ⟨n', rfl⟩ := h2
        rw [hnochild] at hpm; cases hpm
      · rw [hother q h0 (fun n' h => h2 ⟨n', h⟩)]
        exact hpm

end Fbr.Ovl
