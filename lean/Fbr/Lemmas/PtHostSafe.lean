/-
  Fbr.Lemmas.PtHostSafe — running the passthrough model on the reference host FS:

  * `Safe Q p h`: run from host state `h`, every call of `p` is confined in the state it is issued
    in (`ConfinedOpen`, no truncating plain `openat`) and the result satisfies `Q`;
  * `J pt h`: the joint invariant of the inode table `pt` and the host state `h` — the host is
    `Good` and well-formed, every table entry's descriptor / file handle denotes the entry's `id`,
    and **exactly the entries numbered 1 denote the export root** (C06 needs this to know that ".."
    is never sent on a descriptor of the export root);
  * `JSafe m`: the request-monad action `m` keeps `J` and all its calls are confined.
-/
import Fbr.PtHost
import Fbr.Lemmas.HostRefWf
import Fbr.Lemmas.PtHostRun

namespace Fbr.PtHost
open Fbr.Host

variable {α β : Type}

/-- a plain `openat` never truncates -/
def TruncOk (c : HCall) : Prop :=
  ∀ d n fl m, c = .openat d n fl m → (has fl O_CREAT && has fl O_EXCL) = true ∨ has fl O_TRUNC = false

/-- all calls confined, result in `Q` (a weakest precondition over the reference FS) -/
def Safe (Q : α → Ref.State → Prop) : Prog α → Ref.State → Prop
  | .pure a, h => Q a h
  | .call c k, h => Ref.ConfinedOpen h c ∧ TruncOk c ∧ Safe Q (k (Ref.step h c).1) (Ref.step h c).2

theorem safe_pure (Q : α → Ref.State → Prop) (a : α) (h : Ref.State) : Safe Q (.pure a) h = Q a h := rfl

theorem safe_call (Q : α → Ref.State → Prop) (c : HCall) (k : HAns → Prog α) (h : Ref.State) :
    Safe Q (.call c k) h = (Ref.ConfinedOpen h c ∧ TruncOk c ∧ Safe Q (k (Ref.step h c).1) (Ref.step h c).2) := rfl

theorem safe_mono {Q Q' : α → Ref.State → Prop} (p : Prog α) (h : Ref.State) (hq : ∀ a h', Q a h' → Q' a h')
    (hs : Safe Q p h) : Safe Q' p h := by
  induction p generalizing h with
  | pure a => exact hq a h hs
  | call c k ih => exact ⟨hs.1, hs.2.1, ih _ _ hs.2.2⟩

theorem safe_bind {Q : β → Ref.State → Prop} (p : Prog α) (f : α → Prog β) (h : Ref.State)
    (hs : Safe (fun a h' => Safe Q (f a) h') p h) : Safe Q (p.bind f) h := by
  induction p generalizing h with
  | pure a => exact hs
  | call c k ih => exact ⟨hs.1, hs.2.1, ih _ _ hs.2.2⟩

/-- `Safe` gives `AllConfined` and the postcondition of the run -/
theorem safe_run (sent : Obj → Bool) (root : Obj) {Q : α → Ref.State → Prop} (p : Prog α) (h : Ref.State)
    (hs : Safe Q p h) :
    Ref.AllConfined sent root p h ∧ Q (val (Ref.ops sent root) p h) (fin (Ref.ops sent root) p h) := by
  induction p generalizing h with
  | pure a => exact ⟨trivial, hs⟩
  | call c k ih =>
    have := ih _ _ hs.2.2
    exact ⟨⟨hs.1, hs.2.1, this.1⟩, this.2⟩

/-- bind of the request monad -/
theorem safe_bindM {Q : Except Nat β × PtState → Ref.State → Prop} (m : M α) (f : α → M β) (pt : PtState) (h : Ref.State)
    (hs : Safe (fun r h' => match r.1 with
                  | .ok a => Safe Q (f a r.2) h'
                  | .error e => Q (.error e, r.2) h') (m pt) h) : Safe Q ((m >>= f) pt) h := by
  show Safe Q (M.bind' m f pt) h
  unfold M.bind'
  refine safe_bind _ _ _ (safe_mono _ _ ?_ hs)
  intro r h' hr
  cases hr1 : r.1 with
  | ok a => simp only [hr1] at hr ⊢; exact hr
  | error e => simp only [hr1] at hr ⊢; exact hr

/-! ### the joint invariant -/

/-- what an inode table entry's `InodeHandle` denotes in the host -/
def Denotes (h : Ref.State) : IHandle → Obj → Prop
  | .file f, o => Ref.fdObj h f = some o
  | .handle k, o => h.handles k = some o

theorem Denotes.ext {h h' : Ref.State} (e : Ref.Ext h h') {x : IHandle} {o : Obj} (d : Denotes h x o) : Denotes h' x o := by
  cases x with
  | file f => exact e.fds f o d
  | handle k => exact e.handles k o d

structure J (pt : PtState) (h : Ref.State) : Prop where
  good : Ref.Good h
  wf : Ref.Wf h
  /-- the root entry exists (it is never forgotten) -/
  rootEx : ∃ d ∈ pt.inodes, d.inode = ROOT_ID
  /-- an entry numbered 1 denotes the export root -/
  rootId : ∀ d ∈ pt.inodes, d.inode = ROOT_ID → d.id = h.exportRoot
  /-- **only inode 1 denotes the export root** -/
  uniq : ∀ d ∈ pt.inodes, d.id = h.exportRoot → d.inode = ROOT_ID
  /-- the descriptor / file handle of an entry denotes the object recorded as its `id` -/
  den : ∀ d ∈ pt.inodes, Denotes h d.handle d.id
  byId : pt.byId.lookup h.exportRoot = some ROOT_ID
  byH : ∀ d ∈ pt.inodes, ∀ k, d.inode = ROOT_ID → d.handle = .handle k → pt.byHandle.lookup k = some ROOT_ID
  /-- fresh inode numbers start above the root's -/
  next : ROOT_ID < pt.nextInode

/-- `J` reads only the inode tables -/
theorem J.tables {pt pt' : PtState} {h : Ref.State} (j : J pt h) (h1 : pt'.inodes = pt.inodes) (h2 : pt'.byId = pt.byId)
    (h3 : pt'.byHandle = pt.byHandle) (h4 : pt'.nextInode = pt.nextInode) : J pt' h := by
  obtain ⟨a, b, c, d, e, f, g, i, k⟩ := j
  constructor <;> (try rw [h1]) <;> (try rw [h2]) <;> (try rw [h3]) <;> (try rw [h4]) <;> assumption

theorem J.host {pt : PtState} {h h' : Ref.State} (j : J pt h) (g : Ref.Good h') (w : Ref.Wf h') (e : Ref.Ext h h') : J pt h' := by
  refine ⟨g, w, j.rootEx, ?_, ?_, ?_, ?_, j.byH, j.next⟩
  · intro d hd h1; rw [e.root]; exact j.rootId d hd h1
  · intro d hd h1; rw [e.root] at h1; exact j.uniq d hd h1
  · intro d hd; exact (j.den d hd).ext e
  · rw [e.root]; exact j.byId

theorem J.step {pt : PtState} {h : Ref.State} (j : J pt h) (c : HCall) (hc : Ref.ConfinedOpen h c) :
    J pt (Ref.step h c).2 ∧ Ref.Ext h (Ref.step h c).2 := by
  have hw := Ref.wf_step h c j.wf
  exact ⟨j.host (Ref.good_step' h j.good c hc) hw.1 hw.2, hw.2⟩

/-- every entry of the table denotes an object of the export -/
theorem J.inside {pt : PtState} {h : Ref.State} (j : J pt h) (d : InodeData) (hd : d ∈ pt.inodes) : h.sent d.id = false := by
  have := j.den d hd
  cases hh : d.handle with
  | file f => rw [hh] at this; exact Ref.fdObj_inside h j.good f d.id this
  | handle k => rw [hh] at this; exact j.good.handles k d.id this

/-! ### `JSafe` -/

/-- the action keeps the joint invariant and all its calls are confined -/
structure JSafe (m : M α) : Prop where
  h : ∀ pt h, J pt h → Safe (fun r h' => J r.2 h') (m pt) h

theorem jsafe_pure (a : α) : JSafe (pure a : M α) := ⟨fun _ _ j => j⟩
theorem jsafe_pure' (a : α) : JSafe (M.pure' a : M α) := ⟨fun _ _ j => j⟩
theorem jsafe_throw (e : Nat) : JSafe (M.throw e : M α) := ⟨fun _ _ j => j⟩
theorem jsafe_get : JSafe M.get := ⟨fun _ _ j => j⟩
theorem jsafe_ofOption (e : Nat) (o : Option α) : JSafe (M.ofOption e o) := by
  cases o <;> exact ⟨fun _ _ j => j⟩
theorem jsafe_ofExcept (o : Except Nat α) : JSafe (M.ofExcept o) := by
  cases o <;> exact ⟨fun _ _ j => j⟩

/-- a table update that keeps the invariant -/
theorem jsafe_modify (f : PtState → PtState) (hf : ∀ pt h, J pt h → J (f pt) h) : JSafe (M.modify f) :=
  ⟨fun pt h j => hf pt h j⟩

/-- a call that is confined in every state (everything but `openat`) -/
theorem jsafe_sys {c : HCall} (hc : ∀ h, Ref.ConfinedOpen h c) (ht : TruncOk c) : JSafe (M.sys c) :=
  ⟨fun _ h j => ⟨hc h, ht, (j.step c (hc h)).1⟩⟩

theorem jsafe_bind {m : M α} {f : α → M β} (hm : JSafe m) (hf : ∀ a, JSafe (f a)) : JSafe (m >>= f) := by
  refine ⟨fun pt h j => ?_⟩
  refine safe_bindM _ _ _ _ (safe_mono _ _ ?_ (hm.h pt h j))
  intro r h' jr
  cases hr1 : r.1 with
  | ok a => simp only []; exact (hf a).h r.2 h' jr
  | error e => simp only []; exact jr

theorem jsafe_try {m : M α} (hm : JSafe m) : JSafe (M.try' m) := by
  refine ⟨fun pt h j => ?_⟩
  unfold M.try'
  exact safe_bind _ _ _ (safe_mono _ _ (fun r h' jr => jr) (hm.h pt h j))

/-- an action without host calls that leaves the inode tables alone (handle table bookkeeping) -/
theorem jsafe_of_pure (m : M α)
    (hm : ∀ pt, ∃ r, m pt = .pure r ∧ r.2.inodes = pt.inodes ∧ r.2.byId = pt.byId ∧ r.2.byHandle = pt.byHandle ∧
      r.2.nextInode = pt.nextInode) : JSafe m := by
  refine ⟨fun pt h j => ?_⟩
  obtain ⟨r, e, h1, h2, h3, h4⟩ := hm pt
  rw [e]
  exact j.tables h1 h2 h3 h4

end Fbr.PtHost
