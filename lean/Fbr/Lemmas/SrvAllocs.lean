/-
  Fbr.Lemmas.SrvAllocs — every heap allocation whose size comes from request fields is bounded.
-/
import Fbr.Srv

namespace Fbr.Srv
open Fbr.Wire Fbr.Conv

/-- all recorded allocation sizes are at most `B` -/
def AllocsLe (B : Nat) (r : Res) : Prop := ∀ a ∈ r.allocs, a ≤ B

theorem allocs_bail (B : Nat) (cfg : Cfg) (calls : List Call) (al : List Nat) (e : SrvErr)
    (h : ∀ a ∈ al, a ≤ B) : AllocsLe B (bail cfg calls al e) := h

theorem allocs_errRes (B : Nat) (cfg : Cfg) (u : Nat) (calls : List Call) (al : List Nat) (e : IoErr)
    (h : ∀ a ∈ al, a ≤ B) : AllocsLe B (errRes cfg u calls al e) := h

theorem allocs_okRes (B : Nat) (cfg : Cfg) (u : Nat) (calls : List Call) (al : List Nat) (b d : Bytes) (m : Nat)
    (h : ∀ a ∈ al, a ≤ B) : AllocsLe B (okRes cfg u calls al b d m) := h

theorem allocs_finish (B : Nat) (cfg : Cfg) (u : Nat) (calls : List Call) (al : List Nat) (a : Ans)
    (okb : Ans → Option (Bytes × Bytes)) (h : ∀ x ∈ al, x ≤ B) : AllocsLe B (finish cfg u calls al a okb) := by
  unfold finish
  split
  · exact h
  · split <;> exact h

theorem allocs_simple (B : Nat) (cfg : Cfg) (fs : Call → Ans) (u : Nat) (calls0 : List Call) (c : Call)
    (al : List Nat) (okb : Ans → Option (Bytes × Bytes)) (h : ∀ x ∈ al, x ≤ B) :
    AllocsLe B (simple cfg fs u calls0 c al okb) := allocs_finish B _ _ _ _ _ _ h

theorem allocs_badName (B : Nat) (cfg : Cfg) (u : Nat) (calls : List Call) (al : List Nat)
    (h : ∀ x ∈ al, x ≤ B) : AllocsLe B (badName cfg u calls al) := h

theorem allocs_withObj (B : Nat) (cfg : Cfg) (calls0 : List Call) (r : Bytes) (n : Nat) (k : Bytes → Res)
    (hk : ∀ b, AllocsLe B (k b)) : AllocsLe B (withObj cfg calls0 r n k) := by
  unfold withObj
  split
  · intro a ha; simp [bail] at ha
  · exact hk _

theorem getBody_bound (hdrLen sub : Nat) (r body : Bytes) (n : Nat)
    (h : getBody hdrLen sub r = .ok (body, n)) : n ≤ hdrLen := by
  unfold getBody at h
  split at h
  · cases h
  · dsimp only at h
    split at h
    · cases h
    · simp only [Except.ok.injEq, Prod.mk.injEq] at h
      obtain ⟨_, rfl⟩ := h
      omega

theorem allocs_named (B : Nat) (cfg : Cfg) (u : Nat) (calls0 : List Call) (hdrLen : Nat) (r : Bytes) (sub : Nat)
    (k : Bytes → List Nat → Res) (hB : hdrLen ≤ B)
    (hk : ∀ nm al, (∀ x ∈ al, x ≤ B) → AllocsLe B (k nm al)) :
    AllocsLe B (named cfg u calls0 hdrLen r sub k) := by
  unfold named
  split
  · intro a ha; simp [bail] at ha
  · next body n heq =>
    have hn : n ≤ B := Nat.le_trans (getBody_bound _ _ _ _ _ heq) hB
    split
    · intro a ha; simp [badName, errRes] at ha; omega
    · exact hk _ _ (by intro x hx; simp at hx; omega)

theorem allocs_nil (B : Nat) (r : Res) (h : r.allocs = []) : AllocsLe B r := by
  intro a ha; rw [h] at ha; cases ha

theorem allocs_lookupReply (B : Nat) (cfg : Cfg) (u : Nat) (calls : List Call) (al : List Nat) (a : Ans)
    (h : ∀ x ∈ al, x ≤ B) : AllocsLe B (lookupReply cfg u calls al a) := by
  unfold lookupReply
  split
  · split
    · exact h
    · exact allocs_finish _ _ _ _ _ _ _ h
  · exact allocs_finish _ _ _ _ _ _ _ h

theorem allocs_readReply (B : Nat) (cfg : Cfg) (u : Nat) (calls : List Call) (a : Ans) :
    AllocsLe B (readReply cfg u calls a) := by
  unfold readReply
  split
  · split <;> exact allocs_nil _ _ rfl
  · exact allocs_nil _ _ rfl
  · exact allocs_nil _ _ rfl

theorem allocs_dirReply (B : Nat) (cfg : Cfg) (u : Nat) (calls : List Call) (size : Nat) (plus : Bool) (a : Ans) :
    AllocsLe B (dirReply cfg u calls size plus a) := by
  unfold dirReply
  split
  · split <;> exact allocs_nil _ _ rfl
  · exact allocs_nil _ _ rfl
  · exact allocs_nil _ _ rfl

theorem allocs_initHandler (B : Nat) (cfg : Cfg) (fs : Call → Ans) (u : Nat) (calls0 : List Call) (rest b : Bytes) :
    AllocsLe B (initHandler cfg fs u calls0 rest b) := by
  unfold initHandler
  split
  · exact allocs_nil _ _ rfl
  · split
    · exact allocs_nil _ _ rfl
    · dsimp only
      unfold initReply
      split <;> exact allocs_nil _ _ rfl

theorem allocs_notifyReply (B : Nat) (cfg : Cfg) (u : Nat) (calls : List Call) (a : Ans) :
    AllocsLe B (notifyReply cfg u calls a) := by
  unfold notifyReply
  split <;> exact allocs_nil _ _ rfl

macro "allocs_step" : tactic => `(tactic| first
  | exact allocs_nil _ _ rfl
  | (apply allocs_withObj; intro _)
  | (apply allocs_named _ _ _ _ _ _ _ _ ‹_›; intro _ _ _)
  | (apply allocs_simple; assumption)
  | (apply allocs_simple; intro x hx; simp at hx; done)
  | (apply allocs_lookupReply; assumption)
  | exact allocs_readReply _ _ _ _ _
  | exact allocs_dirReply _ _ _ _ _ _ _
  | exact allocs_initHandler _ _ _ _ _ _ _
  | exact allocs_notifyReply _ _ _ _ _
  | split
  | dsimp only)

/-- every handler allocates at most `B` bytes per request-driven allocation, where `B` bounds the
    header length, the buffer limit and the buffer actually presented -/
theorem allocs_handleBody (cfg : Cfg) (fs : Call → Ans) (ctx : Ctx) (calls0 : List Call)
    (hdrLen op u nodeid : Nat) (r : Bytes) (B : Nat) (hB : hdrLen ≤ B)
    (hM : MAX_BUFFER_SIZE + BUFFER_HEADER_SIZE ≤ B) (hr : r.length ≤ B) :
    AllocsLe B (handleBody cfg fs ctx calls0 hdrLen op u nodeid r) := by
  have c1 : MAX_BUFFER_SIZE = 1048576 := rfl
  have c2 : BUFFER_HEADER_SIZE = 4096 := rfl
  have c3 : IN_HDR = 40 := rfl
  have d32 := @List.length_drop _ 32 r
  have d8 := @List.length_drop _ 8 r
  have d4 := @List.length_drop _ 4 r
  unfold handleBody
  split
  all_goals (repeat allocs_step)
  all_goals first
    | (have hn := getBody_bound _ _ _ _ _ ‹getBody _ _ _ = _›
       first
       | (apply allocs_bail; intro x hx; simp at hx; omega)
       | (apply allocs_simple; intro x hx; simp at hx; omega)
       | (dsimp only; split
          · (apply allocs_bail; intro x hx; simp at hx; omega)
          · (apply allocs_simple; intro x hx; simp at hx; omega)))
    | (intro x hx; simp [bail] at hx; done)
    | (intro x hx; simp [bail] at hx; omega)
    | (apply allocs_simple; intro x hx; simp at hx; omega)

end Fbr.Srv
