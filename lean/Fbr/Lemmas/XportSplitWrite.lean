/-
  Helper lemmas for C04: a writer split into a header part and a data part; data written first,
  header afterwards (the order the server uses) — the original buffers end up holding
  header ++ untouched header space ++ data ++ untouched data space.
-/
import Fbr.Lemmas.XportWriteMany
import Fbr.Lemmas.XportSys

namespace Fbr.Xport

theorem map_congr_mem {α β : Type} (f g : α → β) (l : List α) (h : ∀ a ∈ l, f a = g a) : l.map f = l.map g :=
  List.map_congr_left h

theorem split_write_flat (b a o : IoBufs) (w : World) (k : Nat) (hs : b.splitAt k = .ok (a, o))
    (datas hdrs : List Bytes) (hp : 0 < w.p)
    (hnd : (addrs b.segs).Nodup) (hin : InMem w.mem (addrs b.segs)) (hov : b.consumed + total b.segs < USIZE)
    (hfd : datas.flatten.length ≤ total o.segs) (hfh : hdrs.flatten.length ≤ total a.segs) :
    flat (writeMany a (writeMany o w datas).2 hdrs).2.mem b.segs
      = (hdrs.flatten ++ (flat w.mem a.segs).drop hdrs.flatten.length)
        ++ (datas.flatten ++ (flat w.mem o.segs).drop datas.flatten.length) := by
  obtain ⟨hk, ha, ho, ca, co⟩ := splitAt_ok hs
  have la : total a.segs = k := by
    have := congrArg List.length ha; simp at this; omega
  have lo : total o.segs = total b.segs - k := by
    have := congrArg List.length ho; simpa using this
  have hsplitA : addrs b.segs = addrs a.segs ++ addrs o.segs := by rw [ha, ho, List.take_append_drop]
  have hnd2 := hnd
  rw [hsplitA] at hnd2
  obtain ⟨hnda, hndo, hdis⟩ := List.nodup_append.mp hnd2
  have hina : InMem w.mem (addrs a.segs) := by rw [ha]; exact hin.take k
  have hino : InMem w.mem (addrs o.segs) := by rw [ho]; exact hin.drop k
  -- data part
  obtain ⟨o1, o2, _, _, _, o6⟩ := writeMany_mem o w datas hp hndo hino (by rw [co]; omega) hfd
  have oflat := writeMany_flat o w datas hp hndo hino (by rw [co]; omega) hfd
  -- header part, in the world left by the data writes
  have hina1 : InMem (writeMany o w datas).2.mem (addrs a.segs) := by
    intro x hx; rw [o1]; exact hina x hx
  have hp1 : 0 < (writeMany o w datas).2.p := by rw [o6]; exact hp
  obtain ⟨a1, a2, _, _, _, _⟩ := writeMany_mem a (writeMany o w datas).2 hdrs hp1 hnda hina1 (by rw [ca]; omega) hfh
  have aflat := writeMany_flat a (writeMany o w datas).2 hdrs hp1 hnda hina1 (by rw [ca]; omega) hfh
  -- final memory
  have hinF : ∀ (A : List Addr), InMem w.mem A → InMem (writeMany a (writeMany o w datas).2 hdrs).2.mem A := by
    intro A hA x hx; rw [a1, o1]; exact hA x hx
  rw [flat_eq_map _ _ (hinF _ hin), hsplitA, List.map_append,
    ← flat_eq_map _ _ (hinF _ hina), ← flat_eq_map _ _ (hinF _ hino), aflat]
  congr 1
  · -- header space: untouched by the data writes
    congr 2
    rw [flat_eq_map _ _ hina1, flat_eq_map _ _ hina]
    apply map_congr_mem
    intro x hx
    exact o2 x (fun hm => hdis x hx x (List.mem_of_mem_take hm) rfl)
  · -- data space: untouched by the header writes
    rw [← oflat, flat_eq_map _ _ (hinF _ hino), flat_eq_map _ _ (by intro x hx; rw [o1]; exact hino x hx)]
    apply map_congr_mem
    intro x hx
    exact a2 x (fun hm => hdis x (List.mem_of_mem_take hm) x hx rfl)

end Fbr.Xport
