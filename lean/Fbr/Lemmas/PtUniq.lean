/-
  C08, `use_host_ino = true` without file handles (`inode_file_handles` off): an insert never
  replaces a live entry — for every history.

  Inode numbers are `(uid << 47) | st_ino` (uid = the small id of the (dev, mnt) pair) or, for host
  inode numbers above `MAX_HOST_INO`, a virtual number remembered in the id → number map.  With
  descriptors only, a live entry is always found by its `InodeId` (`HU.idmap`), so the insert path is
  taken only for files whose number is not in use; the packing is injective (`pack_inj` …), hence a
  number that is in use belongs to the same `InodeId`.
-/
import Fbr.Lemmas.PtRun
import Fbr.Lemmas.PtFresh

namespace Fbr.PtRefs

/-! ### packing arithmetic -/

theorem max_host_lt (a : Nat) (h : a ≤ MAX_HOST_INO) : a < 2 ^ 47 := by unfold MAX_HOST_INO at h; omega

theorem pack_inj {u u' a a' : Nat} (ha : a ≤ MAX_HOST_INO) (ha' : a' ≤ MAX_HOST_INO)
    (h : packIno u a = packIno u' a') : u = u' ∧ a = a' := by
  have h1 := max_host_lt a ha; have h2 := max_host_lt a' ha'
  rw [packIno_eq u a h1, packIno_eq u' a' h2] at h
  omega

theorem pack_virt_inj {u u' v v' : Nat} (hu : u < 255) (hu' : u' < 255) (hv : v ≤ MAX_HOST_INO) (hv' : v' ≤ MAX_HOST_INO)
    (h : packIno u (v ||| VIRTUAL_INODE_FLAG) = packIno u' (v' ||| VIRTUAL_INODE_FLAG)) : u = u' ∧ v = v' := by
  have h1 := max_host_lt v hv; have h2 := max_host_lt v' hv'
  rw [packIno_virt_eq u v (by omega) h1, packIno_virt_eq u' v' (by omega) h2] at h
  omega

theorem pack_ne_virt {u u' a v : Nat} (hu : u < 255) (hu' : u' < 255) (ha : a ≤ MAX_HOST_INO) (hv : v ≤ MAX_HOST_INO) :
    packIno u a ≠ packIno u' (v ||| VIRTUAL_INODE_FLAG) := by
  have h1 := max_host_lt a ha; have h2 := max_host_lt v hv
  rw [packIno_eq u a h1, packIno_virt_eq u' v (by omega) h2]
  omega

theorem pack_ne_root {u a : Nat} (hu : 1 ≤ u) (ha : a ≤ MAX_HOST_INO) : packIno u a ≠ ROOT_ID := by
  have h1 := max_host_lt a ha
  rw [packIno_eq u a h1]; unfold ROOT_ID; omega

theorem pack_virt_ne_root {u v : Nat} (hu : u < 255) (hv : v ≤ MAX_HOST_INO) :
    packIno u (v ||| VIRTUAL_INODE_FLAG) ≠ ROOT_ID := by
  have h2 := max_host_lt v hv
  rw [packIno_virt_eq u v (by omega) h2]; unfold ROOT_ID; omega

/-! ### the invariant -/

/-- virtual form of a number -/
def VirtForm (s : St) (i : Ino) : Prop :=
  ∃ u v, 1 ≤ u ∧ u < 255 ∧ v < s.nextVirt ∧ i = packIno u (v ||| VIRTUAL_INODE_FLAG)

structure HU (s : St) : Prop where
  d : DInv s
  clob : s.clobbered = false
  /-- no entry is kept by file handle -/
  nofh : ∀ i x, mget s.data i = some x → x.fh = none
  /-- how the number of a live entry is formed -/
  form : ∀ i x, mget s.data i = some x → i ≠ ROOT_ID →
    (x.id.ino ≤ MAX_HOST_INO ∧ ∃ u, mget s.devMap (x.id.dev, x.id.mnt) = some u ∧ i = packIno u x.id.ino)
    ∨ (x.id.ino > MAX_HOST_INO ∧ VirtForm s i)
  /-- remembered numbers of virtual ids are virtual numbers -/
  vmap : ∀ id i, mget s.byId id = some i → i ≠ ROOT_ID → id.ino > MAX_HOST_INO → VirtForm s i
  /-- **a live entry is found by its id** (directly, or the id maps to the live root) -/
  idmap : ∀ i x, mget s.data i = some x → i ≠ ROOT_ID →
    mget s.byId x.id = some i ∨ (mget s.byId x.id = some ROOT_ID ∧ (mget s.data ROOT_ID).isSome = true)
  uniq : ∀ i j x y, mget s.data i = some x → mget s.data j = some y → i ≠ ROOT_ID → j ≠ ROOT_ID → x.id = y.id → i = j
  rootmap : ∀ id, mget s.byId id = some ROOT_ID → (mget s.data ROOT_ID).isSome = true

theorem VirtForm.mono {s s' : St} (h : s.nextVirt ≤ s'.nextVirt) {i : Ino} (v : VirtForm s i) : VirtForm s' i := by
  obtain ⟨u, w, h1, h2, h3, h4⟩ := v
  exact ⟨u, w, h1, h2, Nat.lt_of_lt_of_le h3 h, h4⟩

theorem hu_fresh : HU St.fresh := by
  refine ⟨⟨by decide, by decide, ?_, ?_, by decide⟩, rfl, ?_, ?_, ?_, ?_, ?_, ?_⟩
  all_goals (intros; simp [St.fresh] at *)

/-- the allocator grew, nothing else changed -/
theorem HU.ext {s s' : St} (h : HU s) (hd : s'.data = s.data) (hc : s'.clobbered = s.clobbered) (hb : s'.byId = s.byId)
    (hx : AllocExt s s') : HU s' := by
  refine ⟨hx.inv h.d, by rw [hc]; exact h.clob, ?_, ?_, ?_, ?_, ?_, ?_⟩
  · intro i x hi; rw [hd] at hi; exact h.nofh i x hi
  · intro i x hi hr
    rw [hd] at hi
    rcases h.form i x hi hr with ⟨a, u, b, c⟩ | ⟨a, b⟩
    · exact Or.inl ⟨a, u, hx.ext _ _ b, c⟩
    · exact Or.inr ⟨a, b.mono hx.virt⟩
  · intro id i hi hr hg; rw [hb] at hi; exact (h.vmap id i hi hr hg).mono hx.virt
  · intro i x hi hr; rw [hd] at hi; rw [hb, hd]; exact h.idmap i x hi hr
  · intro i j x y hi hj; rw [hd] at hi hj; exact h.uniq i j x y hi hj
  · intro id hi; rw [hb] at hi; rw [hd]; exact h.rootmap id hi

/-- a table whose entries have the same ids / handles under the same numbers -/
theorem HU.same_ids {s s' : St} (h : HU s) (hc : s'.clobbered = s.clobbered) (hb : s'.byId = s.byId) (ha : AllocSame s s')
    (h1 : ∀ i x, mget s'.data i = some x → ∃ x0, mget s.data i = some x0 ∧ x0.id = x.id ∧ x0.fh = x.fh)
    (h2 : (mget s.data ROOT_ID).isSome = true → (mget s'.data ROOT_ID).isSome = true) : HU s' := by
  refine ⟨ha.ext.inv h.d, by rw [hc]; exact h.clob, ?_, ?_, ?_, ?_, ?_, ?_⟩
  · intro i x hi
    obtain ⟨x0, a, _, c⟩ := h1 i x hi
    rw [← c]; exact h.nofh i x0 a
  · intro i x hi hr
    obtain ⟨x0, a, b, _⟩ := h1 i x hi
    rw [← b]
    rcases h.form i x0 a hr with ⟨p, u, q, r⟩ | ⟨p, q⟩
    · exact Or.inl ⟨p, u, by rw [ha.devMap]; exact q, r⟩
    · exact Or.inr ⟨p, q.mono (by rw [ha.nextVirt]; exact Nat.le_refl _)⟩
  · intro id i hi hr hg; rw [hb] at hi
    exact (h.vmap id i hi hr hg).mono (by rw [ha.nextVirt]; exact Nat.le_refl _)
  · intro i x hi hr
    obtain ⟨x0, a, b, _⟩ := h1 i x hi
    rw [hb, ← b]
    rcases h.idmap i x0 a hr with p | ⟨p, q⟩
    · exact Or.inl p
    · exact Or.inr ⟨p, h2 q⟩
  · intro i j x y hi hj hri hrj hxy
    obtain ⟨x0, a, b, _⟩ := h1 i x hi
    obtain ⟨y0, a', b', _⟩ := h1 j y hj
    exact h.uniq i j x0 y0 a a' hri hrj (by rw [b, b', hxy])
  · intro id hi; rw [hb] at hi; exact h2 (h.rootmap id hi)

/-- a probe by id that missed: no live entry has this id -/
theorem HU.no_live_id {s : St} (h : HU s) {id : InodeId} (hg : getAlt s id none = none) :
    ∀ i x, mget s.data i = some x → i ≠ ROOT_ID → x.id ≠ id := by
  intro i x hi hr e
  unfold getAlt getById at hg
  rcases h.idmap i x hi hr with p | ⟨p, q⟩
  · rw [e] at p
    simp [p, hi] at hg
  · rw [e] at p
    cases hroot : mget s.data ROOT_ID with
    | none => rw [hroot] at q; cases q
    | some y => simp [p, hroot] at hg

/-- **the insert path of `do_lookup` keeps the invariant** — in particular the number handed out is
    not in use -/
theorem HU.insert {e : Env} (hk : e.useHostIno = true) {s s' : St} (h : HU s) (f : HFile) (ino : Ino) (hf : f.fh = none)
    (hg : getAlt s f.id f.fh = none)
    (hd : s'.data = mput s.data ino { id := f.id, fh := f.fh, refs := 1, safe := f.safe })
    (hc : s'.clobbered = (s.clobbered || (decide (ino ≠ ROOT_ID) && (mget s.data ino).isSome)))
    (hb : s'.byId = mput s.byId f.id ino) (hx : AllocExt s s') (hform : UForm s s' f.id f.fh ino) : HU s' := by
  rw [hf] at hg hform
  have d' := hx.inv h.d
  have hK3 := h.no_live_id hg
  have hvle : ∀ v, v < s.nextVirt → v ≤ MAX_HOST_INO := fun v hv => by have := h.d.virt; omega
  -- the number is not the root's, and not in use
  have hkey : ino ≠ ROOT_ID ∧ mget s.data ino = none ∧
      ((f.id.ino ≤ MAX_HOST_INO ∧ ∃ u, mget s'.devMap (f.id.dev, f.id.mnt) = some u ∧ ino = packIno u f.id.ino)
       ∨ (f.id.ino > MAX_HOST_INO ∧ VirtForm s' ino)) := by
    rcases hform with ⟨hgt, hl⟩ | ⟨hle, u, hu, hi⟩ | ⟨hgt, u, hu, hi, hv, hn⟩
    · -- the remembered number of a virtual id
      have hl' : mget s.byId f.id = some ino := hl
      have hdead : mget s.data ino = none := by
        cases hdd : mget s.data ino with
        | none => rfl
        | some y =>
          exfalso
          unfold getAlt getById at hg
          simp [hl', hdd] at hg
      have hnr : ino ≠ ROOT_ID := by
        intro e1
        rw [e1] at hl' hdead
        have := h.rootmap f.id hl'
        rw [hdead] at this; cases this
      exact ⟨hnr, hdead, Or.inr ⟨hgt, (h.vmap f.id ino hl' hnr hgt).mono hx.virt⟩⟩
    · -- `(uid << 47) | st_ino`
      have hur := d'.rng _ u hu
      have hu255 : u < 255 := Nat.lt_of_lt_of_le hur.2 d'.uidLe
      have hnr : ino ≠ ROOT_ID := by rw [hi]; exact pack_ne_root hur.1 hle
      refine ⟨hnr, ?_, Or.inl ⟨hle, u, hu, hi⟩⟩
      cases hdd : mget s.data ino with
      | none => rfl
      | some y =>
        exfalso
        rcases h.form ino y hdd hnr with ⟨p, u', q, r⟩ | ⟨p, u', v, q1, q2, q3, r⟩
        · have q' := hx.ext _ _ q
          rw [hi] at r
          obtain ⟨e1, e2⟩ := pack_inj hle p r
          subst e1
          have e3 := d'.inj _ _ u hu q'
          have : y.id = f.id := by
            have e4 := congrArg Prod.fst e3
            have e5 := congrArg Prod.snd e3
            simp only at e4 e5
            cases hy : y.id; cases hfid : f.id
            rw [hy, hfid] at e2 e4 e5
            simp only at e2 e4 e5
            rw [e2, e4, e5]
          exact hK3 ino y hdd hnr this
        · rw [hi] at r
          exact pack_ne_virt hu255 q2 hle (hvle v q3) r
    · -- a new virtual number
      have hur := d'.rng _ u hu
      have hu255 : u < 255 := Nat.lt_of_lt_of_le hur.2 d'.uidLe
      have hnr : ino ≠ ROOT_ID := by rw [hi]; exact pack_virt_ne_root hu255 hv
      refine ⟨hnr, ?_, Or.inr ⟨hgt, u, s.nextVirt, hur.1, hu255, by rw [hn]; exact Nat.lt_succ_self _, hi⟩⟩
      cases hdd : mget s.data ino with
      | none => rfl
      | some y =>
        exfalso
        rcases h.form ino y hdd hnr with ⟨p, u', q, r⟩ | ⟨p, u', v, q1, q2, q3, r⟩
        · have hur' := h.d.rng _ u' q
          have hu'255 : u' < 255 := Nat.lt_of_lt_of_le hur'.2 h.d.uidLe
          rw [hi] at r
          exact pack_ne_virt hu'255 hu255 p hv r.symm
        · rw [hi] at r
          obtain ⟨_, e2⟩ := pack_virt_inj hu255 q2 hv (hvle v q3) r
          rw [← e2] at q3
          exact absurd q3 (Nat.lt_irrefl _)
  obtain ⟨hnr, hdead, hnewform⟩ := hkey
  -- entries of the new table
  have hold : ∀ i x, mget s'.data i = some x →
      (i = ino ∧ x = { id := f.id, fh := f.fh, refs := 1, safe := f.safe }) ∨ (i ≠ ino ∧ mget s.data i = some x) := by
    intro i x hi
    rw [hd, mget_mput] at hi
    split at hi
    · rename_i e1; cases hi; exact Or.inl ⟨e1.symm, rfl⟩
    · rename_i e1; exact Or.inr ⟨fun e2 => e1 e2.symm, hi⟩
  have hrootd : mget s'.data ROOT_ID = mget s.data ROOT_ID := by
    rw [hd, mget_mput_ne _ _ hnr]
  refine ⟨d', by rw [hc, h.clob, hdead]; simp, ?_, ?_, ?_, ?_, ?_, ?_⟩
  · intro i x hi
    rcases hold i x hi with ⟨_, e2⟩ | ⟨_, e2⟩
    · rw [e2]; exact hf
    · exact h.nofh i x e2
  · intro i x hi hr
    rcases hold i x hi with ⟨e1, e2⟩ | ⟨_, e2⟩
    · rw [e1, e2]; exact hnewform
    · rcases h.form i x e2 hr with ⟨a, u, b, c⟩ | ⟨a, b⟩
      · exact Or.inl ⟨a, u, hx.ext _ _ b, c⟩
      · exact Or.inr ⟨a, b.mono hx.virt⟩
  · intro id i hi hr hgt
    rw [hb, mget_mput] at hi
    split at hi
    · rename_i e1
      cases hi
      rcases hnewform with ⟨hle, _⟩ | ⟨_, hv⟩
      · rw [e1] at hle; exact absurd hgt (Nat.not_lt.mpr hle)
      · exact hv
    · exact (h.vmap id i hi hr hgt).mono hx.virt
  · intro i x hi hr
    rcases hold i x hi with ⟨e1, e2⟩ | ⟨_, e2⟩
    · left; rw [e1, e2, hb]; simp
    · have hne : f.id ≠ x.id := fun e3 => hK3 i x e2 hr e3.symm
      rw [hb, mget_mput_ne _ _ hne, hrootd]
      exact h.idmap i x e2 hr
  · intro i j x y hi hj hri hrj hxy
    rcases hold i x hi with ⟨e1, e2⟩ | ⟨_, e2⟩ <;> rcases hold j y hj with ⟨e1', e2'⟩ | ⟨_, e2'⟩
    · rw [e1, e1']
    · exfalso; rw [e2] at hxy; exact hK3 j y e2' hrj hxy.symm
    · exfalso; rw [e2'] at hxy; exact hK3 i x e2 hri hxy
    · exact h.uniq i j x y e2 e2' hri hrj hxy
  · intro id hi
    rw [hb, mget_mput] at hi
    rw [hrootd]
    split at hi
    · cases hi; exact absurd rfl hnr
    · exact h.rootmap id hi

/-! ### forget -/

theorem dropIData_allocSame (t : St) (x : IData) : AllocSame t (dropIData t x) :=
  AllocSame.of_tables (tables_dropIData t x)

theorem removeInode_core (s : St) (i : Ino) (x : IData) (keep : Bool) :
    (removeInode s i x keep).byId = (if keep then s.byId else mdel s.byId x.id) ∧
    (removeInode s i x keep).clobbered = s.clobbered ∧ AllocSame s (removeInode s i x keep) := by
  unfold removeInode
  simp only
  have ht := fun t => tables_dropIData t x
  cases keep with
  | true =>
    simp only [if_true]
    exact ⟨by rw [byId_of_tables (ht _)], by rw [clob_of_tables (ht _)],
      ⟨(dropIData_allocSame _ x).devMap, (dropIData_allocSame _ x).nextUid, (dropIData_allocSame _ x).nextVirt⟩⟩
  | false =>
    simp only [Bool.false_eq_true, if_false]
    exact ⟨by rw [byId_of_tables (ht _)], by rw [clob_of_tables (ht _)],
      ⟨(dropIData_allocSame _ x).devMap, (dropIData_allocSame _ x).nextUid, (dropIData_allocSame _ x).nextVirt⟩⟩

/-- **`forget_one` keeps the invariant** -/
theorem HU.forget {e : Env} (hk : e.useHostIno = true) {s : St} (h : HU s) (i : Ino) (n : Nat) : HU (forgetOne e s i n) := by
  unfold forgetOne
  split
  · exact h
  rename_i hir
  cases hdi : mget s.data i with
  | none => exact h
  | some x =>
    simp only
    split
    · -- the entry goes away
      obtain ⟨hb, hc, ha⟩ := removeInode_core s i x (!e.useHostIno || decide (x.id.ino > MAX_HOST_INO))
      have hd : (removeInode s i x (!e.useHostIno || decide (x.id.ino > MAX_HOST_INO))).data = mdel s.data i :=
        removeInode_data _ _ _ _
      generalize removeInode s i x (!e.useHostIno || decide (x.id.ino > MAX_HOST_INO)) = s' at hb hc ha hd
      have hsub : ∀ j y, mget s'.data j = some y → j ≠ i ∧ mget s.data j = some y := by
        intro j y hj
        rw [hd, mget_mdel] at hj
        split at hj
        · cases hj
        · rename_i e1; exact ⟨fun e2 => e1 e2.symm, hj⟩
      have hroot : mget s'.data ROOT_ID = mget s.data ROOT_ID := by
        rw [hd, mget_mdel_ne _ hir]
      have hbyid : ∀ id j, mget s'.byId id = some j → mget s.byId id = some j := by
        intro id j hj
        rw [hb] at hj
        split at hj
        · exact hj
        · rw [mget_mdel] at hj
          split at hj
          · cases hj
          · exact hj
      refine ⟨ha.ext.inv h.d, by rw [hc]; exact h.clob, ?_, ?_, ?_, ?_, ?_, ?_⟩
      · intro j y hj; exact h.nofh j y (hsub j y hj).2
      · intro j y hj hr
        rcases h.form j y (hsub j y hj).2 hr with ⟨a, u, b, c⟩ | ⟨a, b⟩
        · exact Or.inl ⟨a, u, by rw [ha.devMap]; exact b, c⟩
        · exact Or.inr ⟨a, b.mono (by rw [ha.nextVirt]; exact Nat.le_refl _)⟩
      · intro id j hj hr hgt
        exact (h.vmap id j (hbyid id j hj) hr hgt).mono (by rw [ha.nextVirt]; exact Nat.le_refl _)
      · intro j y hj hr
        obtain ⟨hji, hjs⟩ := hsub j y hj
        have hne : x.id ≠ y.id := fun e1 => hji (h.uniq j i y x hjs hdi hr hir e1.symm)
        have hsame : mget s'.byId y.id = mget s.byId y.id := by
          rw [hb]
          split
          · rfl
          · exact mget_mdel_ne _ hne
        rw [hsame, hroot]
        exact h.idmap j y hjs hr
      · intro j k y z hj hk'
        exact h.uniq j k y z (hsub j y hj).2 (hsub k z hk').2
      · intro id hj
        rw [hroot]; exact h.rootmap id (hbyid id _ hj)
    · -- only the count changes
      refine h.same_ids rfl rfl ⟨rfl, rfl, rfl⟩ ?_ ?_
      · intro j y hj
        simp only [setRefs_data, mget_mput] at hj
        split at hj
        · rename_i e1; subst e1; cases hj; exact ⟨x, hdi, rfl, rfl⟩
        · exact ⟨y, hj, rfl, rfl⟩
      · intro _
        simp only [setRefs_data]
        rw [mget_mput_ne _ _ hir]
        assumption

/-! ### the effect relation -/

/-- **`use_host_ino = true`, no file handles: the invariant — and with it `clobbered = false` —
    holds along every derivation of the effect relation** -/
theorem Tr.uniq {e : Env} (hk : e.useHostIno = true) {b : Bool} {s s' : St} {sp sp' : Spec}
    (t : Tr e true b s sp s' sp') (h : HU s) : HU s' := by
  induction t with
  | frame hd hc _ hb _ _ ha => exact h.same_ids hc hb ha (fun i x hi => ⟨x, by rw [← hd]; exact hi, rfl, rfl⟩) (by rw [hd]; exact id)
  | @lookup s0 s1 _ r a _ hu hf =>
    rcases hu with ⟨er, _, hd, hc, hb, _, hx⟩ | ⟨ino, x, _, hm, hd, hc, hb, _, ha⟩ | ⟨f, ino, ha, _, hg, hd, hc, hb, _, hx, hform⟩
    · exact h.ext hd hc hb hx
    · refine h.same_ids hc hb ha ?_ ?_
      · intro i y hi
        rw [hd, mget_mput] at hi
        split at hi
        · rename_i e1; subst e1; cases hi; exact ⟨x, hm, rfl, rfl⟩
        · exact ⟨y, hi, rfl, rfl⟩
      · intro hr
        rw [hd, mget_mput]
        split
        · rfl
        · exact hr
    · have hnf : f.fh = none := by
        have := hf rfl
        rw [ha] at this
        exact this
      exact h.insert hk f ino hnf hg hd hc hb hx (hform hk)
  | forget i n => exact h.forget hk i n
  | hnds _ => exact h
  | @setRoot s0 s1 _ x hd _ hc _ hb _ _ ha hf =>
    have hx : x.fh = none := hf rfl
    have hold : ∀ i y, mget s1.data i = some y → (i = ROOT_ID ∧ y = x) ∨ (i ≠ ROOT_ID ∧ mget s0.data i = some y) := by
      intro i y hi
      rw [hd, mget_mput] at hi
      split at hi
      · rename_i e1; cases hi; exact Or.inl ⟨e1.symm, rfl⟩
      · rename_i e1; exact Or.inr ⟨fun e2 => e1 e2.symm, hi⟩
    have hroot : (mget s1.data ROOT_ID).isSome = true := by rw [hd]; simp
    refine ⟨ha.ext.inv h.d, by rw [hc]; exact h.clob, ?_, ?_, ?_, ?_, ?_, ?_⟩
    · intro i y hi
      rcases hold i y hi with ⟨_, e2⟩ | ⟨_, e2⟩
      · rw [e2]; exact hx
      · exact h.nofh i y e2
    · intro i y hi hr
      rcases hold i y hi with ⟨e1, _⟩ | ⟨_, e2⟩
      · exact absurd e1 hr
      · rcases h.form i y e2 hr with ⟨p, u, q, r⟩ | ⟨p, q⟩
        · exact Or.inl ⟨p, u, by rw [ha.devMap]; exact q, r⟩
        · exact Or.inr ⟨p, q.mono (by rw [ha.nextVirt]; exact Nat.le_refl _)⟩
    · intro id i hi hr hgt
      rw [hb, mget_mput] at hi
      split at hi
      · cases hi; exact absurd rfl hr
      · exact (h.vmap id i hi hr hgt).mono (by rw [ha.nextVirt]; exact Nat.le_refl _)
    · intro i y hi hr
      rcases hold i y hi with ⟨e1, _⟩ | ⟨_, e2⟩
      · exact absurd e1 hr
      · rw [hb, mget_mput]
        split
        · exact Or.inr ⟨rfl, hroot⟩
        · rcases h.idmap i y e2 hr with p | ⟨p, _⟩
          · exact Or.inl p
          · exact Or.inr ⟨p, hroot⟩
    · intro i j y z hi hj hri hrj
      rcases hold i y hi with ⟨e1, _⟩ | ⟨_, e2⟩
      · exact absurd e1 hri
      · rcases hold j z hj with ⟨e1', _⟩ | ⟨_, e2'⟩
        · exact absurd e1' hrj
        · exact h.uniq i j y z e2 e2' hri hrj
    · intro _ _; exact hroot
  | clear hd hc _ hb _ _ ha =>
    refine ⟨ha.ext.inv h.d, by rw [hc]; exact h.clob, ?_, ?_, ?_, ?_, ?_, ?_⟩
    all_goals (intros; simp [hd, hb] at *)
  | trans _ _ ih1 ih2 => exact ih2 (ih1 h)
  | relax _ ih => exact ih h

/-- with `use_host_ino` and without file handles, no history ever makes `InodeStore::insert`
    replace a live entry -/
theorem never_clobbers_hostino (e : Env) (hk : e.useHostIno = true) (h : List (Option Nat × Op)) (hnh : NoHandles h) :
    (run e St.fresh h).1.clobbered = false :=
  ((run_trN (nf := true) e h (fun _ => hnh) St.fresh Spec.init).uniq hk hu_fresh).clob

/-- …in either numbering mode, as long as one of the two is off: `use_host_ino`, or file handles -/
theorem never_clobbers (e : Env) (h : List (Option Nat × Op)) (hcfg : e.useHostIno = false ∨ NoHandles h) :
    (run e St.fresh h).1.clobbered = false := by
  cases hk : e.useHostIno with
  | false => exact never_clobbers_keep e hk h
  | true =>
    rcases hcfg with h1 | h1
    · rw [hk] at h1; cases h1
    · exact never_clobbers_hostino e hk h h1

end Fbr.PtRefs
