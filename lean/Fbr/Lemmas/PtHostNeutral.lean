/-
  Fbr.Lemmas.PtHostNeutral — every function of the passthrough model leaves the thread's
  credentials alone (`InertM`) or brackets its credential switches (`NeutralM`); by composition
  every request is `NeutralM`.  Automation: `inert` / `neutral` decompose `do` blocks (bind, match,
  if) and close leaves with the registered lemmas (`inert_leaf` is extended after each lemma).
-/
import Fbr.Lemmas.PtHostCreds

namespace Fbr.PtHost
open Fbr.Host

variable {σ : Type} {α β : Type} {H : HostOps σ} [L : HostLaws H]

-- unification of a lemma about one model function against a goal about another must fail fast
attribute [local irreducible] unitCall getFile statOf fdOf statFd statInode openInode fileHandleFromFd
  openFileAndHandle doLookup validateName inodeData newHandle getData checkFdFlags createFileExcl doRelease
  doGetattr doUnlink dropGid dropUid scopedGid scopedUid setCreds dropCreds withCreds dropCapFsetid raiseCapFsetid
  withKillpriv setattrMode setattrOwner setattrSize setattrUtimens setattrData doOpen createOpenExisting createHandle
  lookup forget setattr readlink symlink mknod mkdir unlink rmdir rename link open_ opendir create read write flush
  fsync release releasedir fallocate lseek statfs setxattr getxattr listxattr removexattr

syntax "inert_leaf" : tactic
macro_rules | `(tactic| inert_leaf) => `(tactic| assumption)
macro_rules | `(tactic| inert_leaf) => `(tactic| exact inertM_sys rfl)
macro_rules | `(tactic| inert_leaf) => `(tactic| exact inertM_ofExcept _ _)
macro_rules | `(tactic| inert_leaf) => `(tactic| exact inertM_ofOption _ _ _)
macro_rules | `(tactic| inert_leaf) => `(tactic| exact inertM_modify _ _)
macro_rules | `(tactic| inert_leaf) => `(tactic| exact inertM_set _ _)
macro_rules | `(tactic| inert_leaf) => `(tactic| exact inertM_get _)
macro_rules | `(tactic| inert_leaf) => `(tactic| exact inertM_throw _ _)
macro_rules | `(tactic| inert_leaf) => `(tactic| exact inertM_pure' _ _)
macro_rules | `(tactic| inert_leaf) => `(tactic| exact inertM_pure _ _)

macro "inert" : tactic => `(tactic| repeat (first | inert_leaf | refine inertM_bind ?_ ?_ | intro _ | split | dsimp only))

theorem inertM_unitCall (c : HCall) (hc : c.isCred = false) : InertM H (unitCall c) := by
  unfold unitCall
  refine inertM_bind (inertM_sys hc) ?_
  inert
macro_rules | `(tactic| inert_leaf) => `(tactic| exact inertM_unitCall _ rfl)

theorem inertM_getFile (d : InodeData) : InertM H (getFile d) := by
  unfold getFile; inert
macro_rules | `(tactic| inert_leaf) => `(tactic| exact inertM_getFile _)

omit L in
theorem inertM_statOf (a : HAns) : InertM H (statOf a) := by
  unfold statOf; inert
macro_rules | `(tactic| inert_leaf) => `(tactic| exact inertM_statOf _)

omit L in
theorem inertM_fdOf (a : HAns) : InertM H (fdOf a) := by
  unfold fdOf; inert
macro_rules | `(tactic| inert_leaf) => `(tactic| exact inertM_fdOf _)

theorem inertM_statFd (f : Fd) : InertM H (statFd f) := by
  unfold statFd; inert
macro_rules | `(tactic| inert_leaf) => `(tactic| exact inertM_statFd _)

theorem inertM_statInode (d : InodeData) : InertM H (statInode d) := by
  unfold statInode; inert
macro_rules | `(tactic| inert_leaf) => `(tactic| exact inertM_statInode _)

theorem inertM_openInode (cfg : Cfg) (i f : Nat) : InertM H (openInode cfg i f) := by
  unfold openInode; inert
macro_rules | `(tactic| inert_leaf) => `(tactic| exact inertM_openInode _ _ _)

theorem inertM_fileHandleFromFd (f : Fd) : InertM H (fileHandleFromFd f) := by
  unfold fileHandleFromFd; inert
macro_rules | `(tactic| inert_leaf) => `(tactic| exact inertM_fileHandleFromFd _)

theorem inertM_openFileAndHandle (cfg : Cfg) (d : Fd) (n : Name) : InertM H (openFileAndHandle cfg d n) := by
  unfold openFileAndHandle; inert
macro_rules | `(tactic| inert_leaf) => `(tactic| exact inertM_openFileAndHandle _ _ _)

theorem inertM_doLookup (cfg : Cfg) (p : Nat) (n : Name) : InertM H (doLookup cfg p n) := by
  unfold doLookup; inert
macro_rules | `(tactic| inert_leaf) => `(tactic| exact inertM_doLookup _ _ _)

omit L in
theorem inertM_validateName (cfg : Cfg) (n : Name) : InertM H (validateName cfg n) := by
  unfold validateName; inert
macro_rules | `(tactic| inert_leaf) => `(tactic| exact inertM_validateName _ _)

omit L in
theorem inertM_inodeData (i : Nat) : InertM H (inodeData i) := by
  unfold inodeData; inert
macro_rules | `(tactic| inert_leaf) => `(tactic| exact inertM_inodeData _)

omit L in
theorem inertM_newHandle (i : Nat) (f : Fd) (fl : Nat) : InertM H (newHandle i f fl) := by
  unfold newHandle; inert
macro_rules | `(tactic| inert_leaf) => `(tactic| exact inertM_newHandle _ _ _)

theorem inertM_getData (cfg : Cfg) (d : Bool) (h i f : Nat) : InertM H (getData cfg d h i f) := by
  unfold getData; inert
macro_rules | `(tactic| inert_leaf) => `(tactic| exact inertM_getData _ _ _ _ _)

theorem inertM_checkFdFlags (cfg : Cfg) (h : Nat) (hd : HandleData) (f : Nat) : InertM H (checkFdFlags cfg h hd f) := by
  unfold checkFdFlags; inert
macro_rules | `(tactic| inert_leaf) => `(tactic| exact inertM_checkFdFlags _ _ _ _)

theorem inertM_createFileExcl (d : Fd) (n : Name) (f m : Nat) : InertM H (createFileExcl d n f m) := by
  unfold createFileExcl; inert
macro_rules | `(tactic| inert_leaf) => `(tactic| exact inertM_createFileExcl _ _ _ _)

omit L in
theorem inertM_doRelease (i h : Nat) : InertM H (doRelease i h) := by
  unfold doRelease; inert
macro_rules | `(tactic| inert_leaf) => `(tactic| exact inertM_doRelease _ _)

theorem inertM_doGetattr (cfg : Cfg) (i : Nat) (h : Option Nat) : InertM H (doGetattr cfg i h) := by
  unfold doGetattr; inert
macro_rules | `(tactic| inert_leaf) => `(tactic| exact inertM_doGetattr _ _ _)

theorem inertM_doUnlink (p : Nat) (n : Name) (f : Nat) : InertM H (doUnlink p n f) := by
  unfold doUnlink; inert
macro_rules | `(tactic| inert_leaf) => `(tactic| exact inertM_doUnlink _ _ _)

/-! ### requests -/

syntax "neutral_leaf" : tactic
macro_rules | `(tactic| neutral_leaf) => `(tactic| assumption)
macro_rules | `(tactic| neutral_leaf) => `(tactic| (refine InertM.neutral ?_; inert_leaf))
macro_rules | `(tactic| neutral_leaf) => `(tactic| (refine neutralM_withCreds _ _ ?_; inert))
macro "neutral" : tactic =>
  `(tactic| repeat (first | neutral_leaf | refine neutralM_withKillpriv _ ?_ | refine neutralM_try ?_ | refine neutralM_bind ?_ ?_ | intro _ | split | dsimp only))

theorem neutralM_lookup (cfg : Cfg) (p : Nat) (n : Name) : NeutralM H (lookup cfg p n) := by
  unfold lookup; neutral
theorem neutralM_forget (cfg : Cfg) (i c : Nat) : NeutralM H (forget cfg i c) := by
  unfold forget; neutral
theorem inertM_setattrMode (d : SetattrData) (v m : Nat) : InertM H (setattrMode d v m) := by
  unfold setattrMode; inert
macro_rules | `(tactic| inert_leaf) => `(tactic| exact inertM_setattrMode _ _ _)
theorem inertM_setattrOwner (f : Fd) (v u g : Nat) : InertM H (setattrOwner f v u g) := by
  unfold setattrOwner; inert
macro_rules | `(tactic| inert_leaf) => `(tactic| exact inertM_setattrOwner _ _ _ _)
theorem inertM_setattrUtimens (d : SetattrData) (v a an m mn : Nat) : InertM H (setattrUtimens d v a an m mn) := by
  unfold setattrUtimens; inert
macro_rules | `(tactic| inert_leaf) => `(tactic| exact inertM_setattrUtimens _ _ _ _ _ _)
omit L in
theorem inertM_setattrData (cfg : Cfg) (i : Nat) (h : Option Nat) (f : Fd) : InertM H (setattrData cfg i h f) := by
  unfold setattrData; inert
macro_rules | `(tactic| inert_leaf) => `(tactic| exact inertM_setattrData _ _ _ _)
theorem neutralM_setattrSize (cfg : Cfg) (i : Nat) (d : SetattrData) (v sz : Nat) : NeutralM H (setattrSize cfg i d v sz) := by
  unfold setattrSize; neutral
theorem neutralM_setattr (cfg : Cfg) (i : Nat) (h : Option Nat) (v m u g sz a an mt mn : Nat) :
    NeutralM H (setattr cfg i h v m u g sz a an mt mn) := by
  unfold setattr
  have := @neutralM_setattrSize σ H L
  repeat (first | neutral_leaf | exact neutralM_setattrSize _ _ _ _ _ | refine neutralM_bind ?_ ?_ | intro _)
theorem neutralM_readlink (i : Nat) : NeutralM H (readlink i) := by
  unfold readlink; neutral
theorem neutralM_symlink (cfg : Cfg) (c : Ctx) (t : Name) (p : Nat) (n : Name) : NeutralM H (symlink cfg c t p n) := by
  unfold symlink; neutral
theorem neutralM_mknod (cfg : Cfg) (c : Ctx) (p : Nat) (n : Name) (m r u : Nat) : NeutralM H (mknod cfg c p n m r u) := by
  unfold mknod; neutral
theorem neutralM_mkdir (cfg : Cfg) (c : Ctx) (p : Nat) (n : Name) (m u : Nat) : NeutralM H (mkdir cfg c p n m u) := by
  unfold mkdir; neutral
theorem neutralM_unlink (cfg : Cfg) (p : Nat) (n : Name) : NeutralM H (unlink cfg p n) := by
  unfold unlink; neutral
theorem neutralM_rmdir (cfg : Cfg) (p : Nat) (n : Name) : NeutralM H (rmdir cfg p n) := by
  unfold rmdir; neutral
theorem neutralM_rename (cfg : Cfg) (od : Nat) (on : Name) (nd : Nat) (nn : Name) (f : Nat) : NeutralM H (rename cfg od on nd nn f) := by
  unfold rename; neutral
theorem neutralM_link (cfg : Cfg) (i np : Nat) (nn : Name) : NeutralM H (link cfg i np nn) := by
  unfold link; neutral
theorem neutralM_doOpen (cfg : Cfg) (i f ff : Nat) : NeutralM H (doOpen cfg i f ff) := by
  unfold doOpen; neutral
theorem neutralM_open (cfg : Cfg) (i f ff : Nat) : NeutralM H (open_ cfg i f ff) := by
  unfold open_
  have := @neutralM_doOpen σ H L cfg i f ff
  neutral
theorem neutralM_opendir (cfg : Cfg) (i f : Nat) : NeutralM H (opendir cfg i f) := by
  unfold opendir
  have := @neutralM_doOpen σ H L cfg i (f ||| O_DIRECTORY) 0
  neutral
theorem neutralM_createOpenExisting (cfg : Cfg) (c : Ctx) (e : Entry) (f ff : Nat) : NeutralM H (createOpenExisting cfg c e f ff) := by
  unfold createOpenExisting; neutral
macro_rules | `(tactic| neutral_leaf) => `(tactic| exact neutralM_createOpenExisting _ _ _ _ _)
omit L in
theorem inertM_createHandle (cfg : Cfg) (i : Nat) (f : Fd) (fl : Nat) : InertM H (createHandle cfg i f fl) := by
  unfold createHandle; inert
macro_rules | `(tactic| inert_leaf) => `(tactic| exact inertM_createHandle _ _ _ _)
theorem neutralM_create (cfg : Cfg) (c : Ctx) (p : Nat) (n : Name) (f m u ff : Nat) : NeutralM H (create cfg c p n f m u ff) := by
  unfold create; neutral
theorem neutralM_read (cfg : Cfg) (i h sz off f : Nat) : NeutralM H (read cfg i h sz off f) := by
  unfold read; neutral
theorem neutralM_write (cfg : Cfg) (i h : Nat) (d : List UInt8) (off f ff : Nat) : NeutralM H (write cfg i h d off f ff) := by
  unfold write; neutral
theorem neutralM_flush (cfg : Cfg) (i h : Nat) : NeutralM H (flush cfg i h) := by
  unfold flush; neutral
theorem neutralM_fsync (cfg : Cfg) (d : Bool) (i h : Nat) (ds : Bool) : NeutralM H (fsync cfg d i h ds) := by
  unfold fsync; neutral
theorem neutralM_release (cfg : Cfg) (i h : Nat) : NeutralM H (release cfg i h) := by
  unfold release; neutral
theorem neutralM_releasedir (cfg : Cfg) (i h : Nat) : NeutralM H (releasedir cfg i h) := by
  unfold releasedir; neutral
theorem neutralM_fallocate (cfg : Cfg) (i h m o l : Nat) : NeutralM H (fallocate cfg i h m o l) := by
  unfold fallocate; neutral
theorem neutralM_lseek (i h o w : Nat) : NeutralM H (lseek i h o w) := by
  unfold lseek; neutral
theorem neutralM_statfs (i : Nat) : NeutralM H (statfs i) := by
  unfold statfs; neutral
theorem neutralM_setxattr (cfg : Cfg) (i : Nat) (n v : List UInt8) (f : Nat) : NeutralM H (setxattr cfg i n v f) := by
  unfold setxattr; neutral
theorem neutralM_getxattr (cfg : Cfg) (i : Nat) (n : List UInt8) (sz : Nat) : NeutralM H (getxattr cfg i n sz) := by
  unfold getxattr; neutral
theorem neutralM_listxattr (cfg : Cfg) (i sz : Nat) : NeutralM H (listxattr cfg i sz) := by
  unfold listxattr; neutral
theorem neutralM_removexattr (cfg : Cfg) (i : Nat) (n : List UInt8) : NeutralM H (removexattr cfg i n) := by
  unfold removexattr; neutral

/-- every request brackets its credential switches -/
theorem neutralM_handle (cfg : Cfg) (r : Req) : NeutralM H (handle cfg r) := by
  cases r <;> unfold handle
  · exact neutralM_lookup ..
  · exact neutralM_forget ..
  · exact (inertM_doGetattr ..).neutral
  · exact neutralM_setattr ..
  · exact neutralM_readlink ..
  · exact neutralM_symlink ..
  · exact neutralM_mknod ..
  · exact neutralM_mkdir ..
  · exact neutralM_unlink ..
  · exact neutralM_rmdir ..
  · exact neutralM_rename ..
  · exact neutralM_link ..
  · exact neutralM_open ..
  · exact neutralM_opendir ..
  · exact neutralM_create ..
  · exact neutralM_read ..
  · exact neutralM_write ..
  · exact neutralM_flush ..
  · exact neutralM_fsync ..
  · exact neutralM_fsync ..
  · exact neutralM_release ..
  · exact neutralM_releasedir ..
  · exact neutralM_fallocate ..
  · exact neutralM_lseek ..
  · exact neutralM_statfs ..
  · exact neutralM_setxattr ..
  · exact neutralM_getxattr ..
  · exact neutralM_listxattr ..
  · exact neutralM_removexattr ..

end Fbr.PtHost
