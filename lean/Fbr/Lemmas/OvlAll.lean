/-
  Every covered operation keeps the in-memory forest a valid cache of the disk.
-/
import Fbr.Ovl
import Fbr.Lemmas.OvlHoare
import Fbr.Lemmas.OvlSim
import Fbr.Lemmas.OvlSimRO
import Fbr.Lemmas.OvlOps
import Fbr.Lemmas.OvlCreate
import Fbr.Lemmas.OvlRm
import Fbr.Lemmas.OvlRmdirB
import Fbr.Lemmas.OvlLink

namespace Fbr.Ovl

/-! ### whole operations -/

/-- the operations whose effect on the cache invariant was proved first: every non-modifying one,
    the six that copy up and change attributes, the four that create an entry, and unlink
    (everything except link and rmdir; for ALL operations see `runOp_cons_all`) -/
def Op.covered : Op → Bool
  | .open .. | .write .. | .chmod .. | .truncate .. | .setx .. | .rmx .. => true
  | .create .. | .mkdir .. | .mknod .. | .symlink .. | .unlink .. => true
  | op => !op.isModifying

theorem runOp_cons (op : Op) (h : op.covered = true) : Triple Consistent (runOp op) (fun _ => Consistent) Consistent := by
  cases op with
  | «open» p fl =>
    unfold runOp
    refine Triple.bind (resolve_cons p) fun r => ?_
    obtain ⟨path, st⟩ := r
    refine kindGuard_ro _ _ _ _ _ ?_
    refine Triple.bind (doOpen_cons path _ _) fun _ => ?_
    exact Triple.pure' fun _ h => h.1
  | write p fl off data =>
    unfold runOp
    refine Triple.bind (resolve_cons p) fun r => ?_
    obtain ⟨path, st⟩ := r
    refine kindGuard_ro _ _ _ _ _ ?_
    refine Triple.bind (doWrite_cons path _ _ off data) fun _ => ?_
    exact Triple.pure' fun _ h => h
  | chmod p mode =>
    unfold runOp
    refine Triple.bind (resolve_cons p) fun r => ?_
    obtain ⟨path, st⟩ := r
    refine Triple.ite' (fun _ => Triple.fail' fun _ h => h) fun _ => ?_
    refine Triple.bind (doSetattr_cons path _ (fun _ => keepShape_hChmod _ _) (fun _ => keepRoot_hChmod _ _)) fun _ => ?_
    exact Triple.pure' fun _ h => h
  | truncate p n =>
    unfold runOp
    refine Triple.bind (resolve_cons p) fun r => ?_
    obtain ⟨path, st⟩ := r
    refine kindGuard_ro _ _ _ _ _ ?_
    refine Triple.bind (doSetattr_cons path _ (fun _ => keepShape_hTruncate _ _) (fun _ => keepRoot_hTruncate _ _)) fun _ => ?_
    exact Triple.pure' fun _ h => h
  | setx p v =>
    unfold runOp
    refine Triple.bind (resolve_cons p) fun r => ?_
    obtain ⟨path, st⟩ := r
    refine Triple.ite' (fun _ => Triple.fail' fun _ h => h) fun _ => ?_
    refine Triple.bind (doXattr_cons path _ _ (fun _ => keepShape_hSetX _ _) (fun _ => keepRoot_hSetX _ _)) fun _ => ?_
    exact Triple.pure' fun _ h => h
  | rmx p =>
    unfold runOp
    refine Triple.bind (resolve_cons p) fun r => ?_
    obtain ⟨path, st⟩ := r
    refine Triple.ite' (fun _ => Triple.fail' fun _ h => h) fun _ => ?_
    refine Triple.bind (doXattr_cons path _ _ (fun _ => keepShape_hRmX _) (fun _ => keepRoot_hRmX _)) fun _ => ?_
    exact Triple.pure' fun _ h => h
  | lookup p => exact runOp_ro loadDirectory_cons _ rfl
  | readdir p => exact runOp_ro loadDirectory_cons _ rfl
  | read p => exact runOp_ro loadDirectory_cons _ rfl
  | readlink p => exact runOp_ro loadDirectory_cons _ rfl
  | getx p => exact runOp_ro loadDirectory_cons _ rfl
  | walk => exact runOp_ro loadDirectory_cons _ rfl
  | create p mode => exact runOp_create_cons p mode
  | mkdir p mode => exact runOp_mkdir_cons p mode
  | mknod p mode => exact runOp_mknod_cons p mode
  | symlink p t => exact runOp_symlink_cons p t
  | link src dst => simp [Op.covered, Op.isModifying] at h
  | unlink p => exact runOp_unlink_cons p
  | rmdir p => simp [Op.covered, Op.isModifying] at h

theorem run_cons (ops : List Op) (hops : ∀ op ∈ ops, op.covered = true) :
    ∀ s, Consistent s → Consistent (run s ops) := by
  induction ops with
  | nil => exact fun _ h => h
  | cons op rest ih =>
    intro s hs
    exact ih (fun o ho => hops o (List.mem_cons_of_mem _ ho)) _ ((runOp_cons op (hops op (by simp))).st hs)

/-- EVERY operation (all 19 kinds) keeps the forest a valid cache of the disk, whether it
    succeeds or fails -/
theorem runOp_cons_all (op : Op) : Triple Consistent (runOp op) (fun _ => Consistent) Consistent := by
  by_cases h : op.covered = true
  · exact runOp_cons op h
  · cases op with
    | link src dst => exact runOp_link_cons src dst
    | rmdir p => exact runOp_rmdir_cons p
    | «open» p fl => cases fl <;> simp [Op.covered] at h
    | _ => simp [Op.covered, Op.isModifying] at h

theorem run_cons_all (ops : List Op) : ∀ s, Consistent s → Consistent (run s ops) := by
  induction ops with
  | nil => exact fun _ h => h
  | cons op rest ih =>
    intro s hs
    exact ih _ ((runOp_cons_all op).st hs)

end Fbr.Ovl
