/-
  Helper lemmas for C04: CONTENT of reader operations.  `RdC D b w b' w'`: the cursor advanced by
  `D.length`, memory is untouched, and `D` — the bytes the operation delivered (returned into
  the caller's buffer or handed to the sink) — are the bytes at exactly the addresses passed.
  Proved for `read`, `read_exact`/`read_obj`, `read_to(_at)` and `read_exact_to` with any scripted
  sink (short counts, EIO, EINTR; overriding the vectored methods or not).
-/
import Fbr.Lemmas.XportBytes

namespace Fbr.Xport

/-- content contract of a *reading* closure run by `consume` on the offered buffers: memory is not
    modified; when it reports `n` bytes, what it has delivered (`del` of its auxiliary value) grew
    by the bytes at the first `n` addresses offered; on error nothing was delivered -/
def FRd {β : Type} (del : β → Bytes) (w : World) (bufs : List Seg) (a0 : β)
    (r : Except IoErr Nat × World × β) : Prop :=
  r.2.1.mem = w.mem
  ∧ (∀ n, r.1 = .ok n → n ≤ total bufs ∧ del r.2.2 = del a0 ++ ((addrs bufs).take n).map w.mem.byteAt)
  ∧ (∀ e, r.1 = .error e → del r.2.2 = del a0)

theorem FRd.mono {β : Type} {del : β → Bytes} {w : World} {sub bufs : List Seg} {a0 : β}
    {r : Except IoErr Nat × World × β} (h : FRd del w sub a0 r) (ht : total sub ≤ total bufs)
    (hpre : ∀ n, n ≤ total sub → (addrs sub).take n = (addrs bufs).take n) : FRd del w bufs a0 r := by
  obtain ⟨h1, h2, h3⟩ := h
  refine ⟨h1, ?_, h3⟩
  intro n hn
  obtain ⟨a, b⟩ := h2 n hn
  exact ⟨by omega, by rw [b, hpre n a]⟩

theorem markDirty_mem (w : World) (segs : List Seg) (n : Nat) : (markDirty w segs n).mem = w.mem := rfl

/-- what `consume` does with the closure's content contract -/
theorem consume_rd {β : Type} (del : β → Bytes) (b : IoBufs) (w : World) (md : Bool) (count : Nat) (aux0 : β)
    (f : World → List Seg → Except IoErr Nat × World × β)
    (hov : b.consumed + total b.segs < USIZE)
    (hf : FRd del w (allocate b.segs count) aux0 (f w (allocate b.segs count))) :
    (consume b w md count aux0 f).w.mem = w.mem
    ∧ del (consume b w md count aux0 f).aux
        = del aux0 ++ ((addrs b.segs).take ((consume b w md count aux0 f).b.consumed - b.consumed)).map w.mem.byteAt := by
  unfold consume
  by_cases he : (allocate b.segs count).isEmpty = true
  · simp only [he, if_true]
    simp
  · simp only [he, Bool.false_eq_true, if_false]
    generalize f w (allocate b.segs count) = r at hf
    obtain ⟨res, w1, a⟩ := r
    obtain ⟨hm, hok, herr⟩ := hf
    simp only at hm hok herr
    cases res with
    | error e =>
      simp only
      refine ⟨hm, ?_⟩
      rw [herr e rfl]; simp
    | ok n =>
      obtain ⟨hn, hd⟩ := hok n rfl
      rw [total_allocate] at hn
      have hnov : ¬ (b.consumed + n ≥ USIZE) := by omega
      simp only [IoBufs.markUsed, hnov, if_false]
      refine ⟨by cases md <;> simp [markDirty_mem, hm], ?_⟩
      rw [hd, addrs_allocate, List.take_take]
      congr 3
      omega

/-! ### the closures -/

theorem copyOut_frd (w : World) (bufs : List Seg) (n : Nat) (h : InMem w.mem (addrs bufs)) :
    FRd (fun bs : Bytes => bs) w bufs []
      (match copyOut w bufs n with | (w1, bs, t) => ((.ok t : Except IoErr Nat), w1, bs)) := by
  have hs := copyOut_spec w bufs n
  have hb := copyOut_bytes w bufs n h
  rcases hc : copyOut w bufs n with ⟨w1, bs, t⟩
  rw [hc] at hs hb
  simp only at hs hb ⊢
  refine ⟨hs.2.1, ?_, by intro e he; cases he⟩
  intro k hk
  cases hk
  refine ⟨by rw [hs.2.2.2.2]; exact Nat.min_le_right _ _, ?_⟩
  rw [hb, hs.2.2.2.2, take_min_total]; rfl

theorem sinkCall_frd (s : Script) (w : World) (bufs : List Seg) (h : InMem w.mem (addrs bufs)) :
    FRd Script.got w bufs s (s.sinkCall w bufs) := by
  unfold Script.sinkCall
  have hgot : (s.pop).2.got = s.got := by
    unfold Script.pop; cases s.answers <;> rfl
  rcases hp : s.pop with ⟨a, s1⟩
  rw [hp] at hgot
  simp only at hgot ⊢
  have key : ∀ k, FRd Script.got w bufs s
      ((.ok (copyOut w bufs k).2.2 : Except IoErr Nat), (copyOut w bufs k).1,
        { s1 with offered := s1.offered ++ [bufs], got := s1.got ++ (copyOut w bufs k).2.1 }) := by
    intro k
    have hs := copyOut_spec w bufs k
    have hb := copyOut_bytes w bufs k h
    simp only at hs
    refine ⟨hs.2.1, ?_, by intro e he; cases he⟩
    intro j hj
    cases hj
    refine ⟨by rw [hs.2.2.2.2]; exact Nat.min_le_right _ _, ?_⟩
    simp only [hgot]
    rw [hb, hs.2.2.2.2, take_min_total]
  match a with
  | some .err =>
    exact (show FRd Script.got w bufs s ((.error .other : Except IoErr Nat), w, { s1 with offered := s1.offered ++ [bufs] })
      from by
        refine ⟨rfl, ?_, ?_⟩
        · intro n hn; cases hn
        · intro e _; exact hgot)
  | some .intr =>
    exact (show FRd Script.got w bufs s ((.error .interrupted : Except IoErr Nat), w, { s1 with offered := s1.offered ++ [bufs] })
      from by
        refine ⟨rfl, ?_, ?_⟩
        · intro n hn; cases hn
        · intro e _; exact hgot)
  | some (.n k) => exact key _
  | none => exact key _

theorem frd_zero {β : Type} (del : β → Bytes) (w : World) (bufs : List Seg) (a : β) :
    FRd del w bufs a ((.ok 0 : Except IoErr Nat), w, a) :=
  ⟨rfl, by intro n hn; cases hn; exact ⟨Nat.zero_le _, by simp⟩, by intro e he; cases he⟩

theorem InMem.of_prefix {m : Mem} {sub bufs : List Seg} (h : InMem m (addrs bufs))
    (hpre : ∀ n, n ≤ total sub → (addrs sub).take n = (addrs bufs).take n) : InMem m (addrs sub) := by
  intro a ha
  have := hpre (total sub) (Nat.le_refl _)
  rw [List.take_of_length_le (by simp)] at this
  rw [this] at ha
  exact h a (List.mem_of_mem_take ha)

theorem writeVectored_frd (s : Script) (w : World) (bufs : List Seg) (at_ : Bool) (h : InMem w.mem (addrs bufs)) :
    FRd Script.got w bufs s (s.writeVectored w bufs at_) := by
  unfold Script.writeVectored
  cases s.kind with
  | full => exact sinkCall_frd s w bufs h
  | dflt =>
    simp only
    cases at_ with
    | true =>
      simp only [if_true]
      cases bufs with
      | nil => exact frd_zero _ _ _ _
      | cons b rest =>
        exact (sinkCall_frd s w [b] (h.of_prefix (head_prefix b rest).2)).mono (head_prefix b rest).1 (head_prefix b rest).2
    | false =>
      simp only [Bool.false_eq_true, if_false]
      cases hf : bufs.find? (fun b => b.len ≠ 0) with
      | none => exact frd_zero _ _ _ _
      | some b =>
        exact (sinkCall_frd s w [b] (h.of_prefix (find_nonempty_prefix bufs b hf).2)).mono
          (find_nonempty_prefix bufs b hf).1 (find_nonempty_prefix bufs b hf).2

/-! ### content-level advance of a reader -/

/-- the reader cursor advanced by `D.length`; memory untouched; `D` = the bytes at the addresses
    passed, in order -/
def RdC (D : Bytes) (b : IoBufs) (w : World) (b' : IoBufs) (w' : World) : Prop :=
  AdvBy D.length false false b w b' w' ∧ w'.mem = w.mem
    ∧ D = ((addrs b.segs).take D.length).map w.mem.byteAt

theorem RdC.refl (b : IoBufs) (w : World) : RdC [] b w b w :=
  ⟨AdvBy.refl _ _ _ _, rfl, by simp⟩

theorem RdC.adv {D : Bytes} {b b' : IoBufs} {w w' : World} (h : RdC D b w b' w') : Adv false false b w b' w' :=
  ⟨_, h.1⟩

theorem RdC.trans {D1 D2 : Bytes} {b1 b2 b3 : IoBufs} {w1 w2 w3 : World}
    (h1 : RdC D1 b1 w1 b2 w2) (h2 : RdC D2 b2 w2 b3 w3) : RdC (D1 ++ D2) b1 w1 b3 w3 := by
  obtain ⟨a1, m1, c1⟩ := h1
  obtain ⟨a2, m2, c2⟩ := h2
  have ha := a1.trans a2
  have h7 := a1.2.2.2.2.2.2.1
  refine ⟨by rw [List.length_append]; exact ha, m2.trans m1, ?_⟩
  have e2 : D2 = ((addrs b2.segs).take D2.length).map w1.mem.byteAt := by rw [← m1]; exact c2
  rw [List.length_append, List.take_add, List.map_append, ← h7, ← c1, ← e2]

theorem RdC.inMem {D : Bytes} {b b' : IoBufs} {w w' : World} (h : RdC D b w b' w')
    (hin : InMem w.mem (addrs b.segs)) : InMem w'.mem (addrs b'.segs) := by
  rw [h.2.1, h.1.2.2.2.2.2.2.1]; exact hin.drop _

theorem RdC.hov {D : Bytes} {b b' : IoBufs} {w w' : World} (h : RdC D b w b' w')
    (hov : b.consumed + total b.segs < USIZE) : b'.consumed + total b'.segs < USIZE := by
  rw [h.1.inv]; exact hov

/-- from an address-level advance + the content facts in "difference of counters" form -/
theorem rdc_of {n : Nat} {D : Bytes} {b b' : IoBufs} {w w' : World}
    (hadv : AdvBy n false false b w b' w') (hm : w'.mem = w.mem)
    (hD : D = ((addrs b.segs).take (b'.consumed - b.consumed)).map w.mem.byteAt) : RdC D b w b' w' := by
  have h8 := hadv.2.2.2.2.2.2.2
  have h1 := hadv.1
  have hn : b'.consumed - b.consumed = n := by omega
  rw [hn] at hD
  have hl : D.length = n := by rw [hD]; simp; omega
  exact ⟨by rw [hl]; exact hadv, hm, by rw [hl]; exact hD⟩

/-! ### the Reader operations -/

theorem read_rdc (b : IoBufs) (w : World) (n : Nat) (hin : InMem w.mem (addrs b.segs))
    (hov : b.consumed + total b.segs < USIZE) :
    RdC (Reader.read b w n).aux b w (Reader.read b w n).b (Reader.read b w n).w := by
  obtain ⟨k, _, hadv, _, _⟩ := read_advBy b w n hov
  have hc := consume_rd (fun bs : Bytes => bs) b w false n []
    (fun w bufs => match copyOut w bufs n with | (w1, bs, t) => ((.ok t : Except IoErr Nat), w1, bs)) hov
    (copyOut_frd w _ n (by rw [addrs_allocate]; exact hin.take n))
  have e : Reader.read b w n = consume b w false n []
    (fun w bufs => match copyOut w bufs n with | (w1, bs, t) => ((.ok t : Except IoErr Nat), w1, bs)) := rfl
  rw [← e] at hc
  exact rdc_of hadv hc.1 (by simpa using hc.2)

theorem readExact_rdc (fuel : Nat) (b : IoBufs) (w : World) (n : Nat) (acc : Bytes)
    (hin : InMem w.mem (addrs b.segs)) (hov : b.consumed + total b.segs < USIZE) :
    ∃ D, (Reader.readExact fuel b w n acc).aux = acc ++ D
      ∧ RdC D b w (Reader.readExact fuel b w n acc).b (Reader.readExact fuel b w n acc).w := by
  induction fuel generalizing b w n acc with
  | zero => exact ⟨[], by simp [Reader.readExact], RdC.refl _ _⟩
  | succ fuel ih =>
    unfold Reader.readExact
    by_cases h0 : n = 0
    · simp only [h0, if_true]; exact ⟨[], by simp, RdC.refl _ _⟩
    · simp only [h0, if_false]
      have h1 := read_rdc b w n hin hov
      split
      · rename_i hr
        -- Ok(0): nothing was copied
        have hz : (Reader.read b w n).aux = [] := by
          obtain ⟨k, _, hadv, hok, _⟩ := read_advBy b w n hov
          have hk := hok _ hr
          have h8 := hadv.2.2.2.2.2.2.2
          have h8' := h1.1.2.2.2.2.2.2.2
          have : (Reader.read b w n).aux.length = 0 := by omega
          exact List.eq_nil_of_length_eq_zero this
        rw [hz] at h1
        exact ⟨[], by simp, h1⟩
      · obtain ⟨D, e, hd⟩ := ih (Reader.read b w n).b (Reader.read b w n).w _ (acc ++ (Reader.read b w n).aux)
          (h1.inMem hin) (h1.hov hov)
        exact ⟨(Reader.read b w n).aux ++ D, by rw [e, List.append_assoc], h1.trans hd⟩
      · rename_i hr
        have hz : (Reader.read b w n).aux = [] := by
          obtain ⟨k, _, hadv, _, herr⟩ := read_advBy b w n hov
          have hk := herr _ hr
          have h8 := hadv.2.2.2.2.2.2.2
          have h8' := h1.1.2.2.2.2.2.2.2
          have : (Reader.read b w n).aux.length = 0 := by omega
          exact List.eq_nil_of_length_eq_zero this
        obtain ⟨D, e, hd⟩ := ih (Reader.read b w n).b (Reader.read b w n).w n acc (h1.inMem hin) (h1.hov hov)
        rw [hz] at h1
        exact ⟨D, e, by simpa using h1.trans hd⟩
      · rename_i e _ hr
        have hz : (Reader.read b w n).aux = [] := by
          obtain ⟨k, _, hadv, _, herr⟩ := read_advBy b w n hov
          have hk := herr _ hr
          have h8 := hadv.2.2.2.2.2.2.2
          have h8' := h1.1.2.2.2.2.2.2.2
          have : (Reader.read b w n).aux.length = 0 := by omega
          exact List.eq_nil_of_length_eq_zero this
        rw [hz] at h1
        exact ⟨[], by simp, h1⟩

theorem readObj_rdc (b : IoBufs) (w : World) (n : Nat) (hin : InMem w.mem (addrs b.segs))
    (hov : b.consumed + total b.segs < USIZE) :
    RdC (Reader.readObj b w n).aux b w (Reader.readObj b w n).b (Reader.readObj b w n).w := by
  obtain ⟨D, e, h⟩ := readExact_rdc (n + 1) b w n [] hin hov
  unfold Reader.readObj
  rw [e]; simpa using h

theorem readTo_rdc (b : IoBufs) (w : World) (dst : Script) (count : Nat) (at_ : Bool)
    (hin : InMem w.mem (addrs b.segs)) (hov : b.consumed + total b.segs < USIZE) :
    ∃ D, (Reader.readTo b w dst count at_).aux.got = dst.got ++ D
      ∧ RdC D b w (Reader.readTo b w dst count at_).b (Reader.readTo b w dst count at_).w := by
  unfold Reader.readTo
  obtain ⟨k, _, hadv, _, _⟩ := consume_adv b w false false count dst (fun w bufs => dst.writeVectored w bufs at_)
    (by intro h; cases h) (by intro h; cases h) hov (writeVectored_fok dst w _ at_)
  have hc := consume_rd Script.got b w false count dst (fun w bufs => dst.writeVectored w bufs at_) hov
    (writeVectored_frd dst w _ at_ (by rw [addrs_allocate]; exact hin.take count))
  exact ⟨_, hc.2, rdc_of hadv hc.1 rfl⟩

theorem readExactTo_rdc (fuel : Nat) (b : IoBufs) (w : World) (dst : Script) (count : Nat)
    (hin : InMem w.mem (addrs b.segs)) (hov : b.consumed + total b.segs < USIZE) :
    ∃ D, (Reader.readExactTo fuel b w dst count).aux.got = dst.got ++ D
      ∧ RdC D b w (Reader.readExactTo fuel b w dst count).b (Reader.readExactTo fuel b w dst count).w := by
  induction fuel generalizing b w dst count with
  | zero => exact ⟨[], by simp [Reader.readExactTo], RdC.refl _ _⟩
  | succ fuel ih =>
    unfold Reader.readExactTo
    by_cases h0 : count = 0
    · simp only [h0, if_true]; exact ⟨[], by simp, RdC.refl _ _⟩
    · simp only [h0, if_false]
      obtain ⟨D1, e1, h1⟩ := readTo_rdc b w dst count false hin hov
      split
      · exact ⟨D1, e1, h1⟩
      · obtain ⟨D, e, hd⟩ := ih (Reader.readTo b w dst count false).b (Reader.readTo b w dst count false).w
          (Reader.readTo b w dst count false).aux _ (h1.inMem hin) (h1.hov hov)
        exact ⟨D1 ++ D, by rw [e, e1, List.append_assoc], h1.trans hd⟩
      · obtain ⟨D, e, hd⟩ := ih (Reader.readTo b w dst count false).b (Reader.readTo b w dst count false).w
          (Reader.readTo b w dst count false).aux count (h1.inMem hin) (h1.hov hov)
        exact ⟨D1 ++ D, by rw [e, e1, List.append_assoc], h1.trans hd⟩
      · exact ⟨D1, e1, h1⟩

end Fbr.Xport
