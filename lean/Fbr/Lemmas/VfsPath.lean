/-
  Stability of path resolution in the pseudo tree: a path that resolves keeps resolving to the
  same node while the tree grows; the path of a mount resolves to its mount point; a resolved path
  is walked by `PseudoFs::mount` without creating anything.
-/
import Fbr.Vfs
import Fbr.Lemmas.VfsPseudo

namespace Fbr.Lemmas.VfsPath
open Fbr.Vfs Fbr.Lemmas.VfsPseudo

/-- `p'` extends `p`: every node is still there, with the same parent, and its children list only
    grew at the end -/
def Ext (p p' : Pseudo) : Prop :=
  ∀ n ∈ p.nodes, ∃ n' ∈ p'.nodes, n'.ino = n.ino ∧ n'.parent = n.parent ∧ ∃ extra, n'.children = n.children ++ extra

theorem ext_refl (p : Pseudo) : Ext p p := fun n hn => ⟨n, hn, rfl, rfl, [], by simp⟩

theorem ext_trans {p q r : Pseudo} (h1 : Ext p q) (h2 : Ext q r) : Ext p r := by
  intro n hn
  obtain ⟨n1, hn1, a1, b1, e1, c1⟩ := h1 n hn
  obtain ⟨n2, hn2, a2, b2, e2, c2⟩ := h2 n1 hn1
  exact ⟨n2, hn2, by rw [a2, a1], by rw [b2, b1], e1 ++ e2, by rw [c2, c1, List.append_assoc]⟩

theorem createInode_ext {p : Pseudo} (h : WF p) (par : PNode) (hpar : par ∈ p.nodes) (name : Name) :
    Ext p (p.createInode par.ino name).1 := by
  obtain ⟨hn, _, _⟩ := createInode_nodes h.bound par.ino (h.bound par hpar) name
  intro n hnm
  refine ⟨addChild par.ino p.nextInode name n, ?_, (addChild_keeps _ _ _ n).1, (addChild_keeps _ _ _ n).2.1, ?_⟩
  · rw [hn]; exact List.mem_append_left _ (List.mem_map_of_mem hnm)
  · unfold addChild
    split
    · exact ⟨[(p.nextInode, name)], rfl⟩
    · exact ⟨[], by simp⟩

theorem mountWalk_ext : ∀ (comps : List Comp) (p : Pseudo) (cur : Nat) (p' : Pseudo) (ino : Nat), WF p →
    (∃ n ∈ p.nodes, n.ino = cur) → p.mountWalk cur comps = some (p', ino) → Ext p p' := by
  intro comps
  induction comps with
  | nil =>
    intro p cur p' ino _ _ h
    simp only [Pseudo.mountWalk, Option.some.injEq, Prod.mk.injEq] at h
    rw [← h.1]; exact ext_refl p
  | cons c rest ih =>
    intro p cur p' ino h ⟨n, hn, hni⟩ hw
    have hfind : p.find cur = some n := by rw [← hni]; exact find_of_mem h.sorted hn
    cases c with
    | none =>
      obtain ⟨q, hq, hqi⟩ := h.parent n hn
      have hfq : p.find n.parent = some q := by rw [← hqi]; exact find_of_mem h.sorted hq
      simp only [Pseudo.mountWalk, hfind, hfq] at hw
      exact ih p q.ino p' ino h ⟨q, hq, rfl⟩ hw
    | some name =>
      simp only [Pseudo.mountWalk, hfind] at hw
      cases hch : n.child name with
      | some c =>
        obtain ⟨x, hx, hxi, _⟩ := child_is_node h hn hch
        have hfx : p.find c = some x := by rw [← hxi]; exact find_of_mem h.sorted hx
        simp only [hch, hfx] at hw
        exact ih p x.ino p' ino h ⟨x, hx, rfl⟩ hw
      | none =>
        simp only [hch] at hw
        have hwf := createInode_wf h n hn name
        obtain ⟨hnodes, _, hino⟩ := createInode_nodes h.bound n.ino (h.bound n hn) name
        have hnew : ∃ x ∈ (p.createInode n.ino name).1.nodes, x.ino = (p.createInode n.ino name).2 :=
          ⟨{ ino := p.nextInode, parent := n.ino, name := name, children := [] }, by rw [hnodes]; simp, by rw [hino]⟩
        exact ext_trans (createInode_ext h n hn name) (ih _ _ p' ino hwf hnew hw)

theorem child_ext {n n' : PNode} {name : Name} {c : Nat} (hc : n.child name = some c)
    (he : ∃ extra, n'.children = n.children ++ extra) : n'.child name = some c := by
  obtain ⟨extra, he⟩ := he
  unfold PNode.child at hc ⊢
  rw [he, List.find?_append]
  cases hf : n.children.find? (fun c => c.2 == name) with
  | none => simp [hf] at hc
  | some pr => simp only [hf, Option.map_some] at hc; simp [hc]

/-- a path that resolves keeps resolving to the same node in every extension of the tree -/
theorem pathWalk_ext : ∀ (comps : List Comp) (p p' : Pseudo) (cur ino : Nat), WF p → WF p' → Ext p p' →
    (∃ n ∈ p.nodes, n.ino = cur) → p.pathWalk cur comps = some (some ino) → p'.pathWalk cur comps = some (some ino) := by
  intro comps
  induction comps with
  | nil => intro p p' cur ino _ _ _ _ h; exact h
  | cons c rest ih =>
    intro p p' cur ino h h' he ⟨n, hn, hni⟩ hw
    have hfind : p.find cur = some n := by rw [← hni]; exact find_of_mem h.sorted hn
    obtain ⟨n', hn', a, b, ex⟩ := he n hn
    have hfind' : p'.find cur = some n' := by rw [← hni, ← a]; exact find_of_mem h'.sorted hn'
    cases c with
    | none =>
      obtain ⟨q, hq, hqi⟩ := h.parent n hn
      have hfq : p.find n.parent = some q := by rw [← hqi]; exact find_of_mem h.sorted hq
      obtain ⟨q', hq', aq, _, _⟩ := he q hq
      have hfq' : p'.find n'.parent = some q' := by rw [b, ← hqi, ← aq]; exact find_of_mem h'.sorted hq'
      simp only [Pseudo.pathWalk, hfind, hfq] at hw
      simp only [Pseudo.pathWalk, hfind', hfq', aq]
      exact ih p p' q.ino ino h h' he ⟨q, hq, rfl⟩ hw
    | some name =>
      simp only [Pseudo.pathWalk, hfind] at hw
      cases hch : n.child name with
      | none => simp [hch] at hw
      | some c =>
        obtain ⟨x, hx, hxi, _⟩ := child_is_node h hn hch
        have hfx : p.find c = some x := by rw [← hxi]; exact find_of_mem h.sorted hx
        obtain ⟨x', hx', ax, _, _⟩ := he x hx
        have hfx' : p'.find c = some x' := by rw [← hxi, ← ax]; exact find_of_mem h'.sorted hx'
        simp only [hch, hfx] at hw
        simp only [Pseudo.pathWalk, hfind', child_ext hch ex, hfx', ax]
        exact ih p p' x.ino ino h h' he ⟨x, hx, rfl⟩ hw

/-- a resolved path is walked by `PseudoFs::mount` without creating anything -/
theorem mountWalk_of_pathWalk : ∀ (comps : List Comp) (p : Pseudo) (cur ino : Nat),
    p.pathWalk cur comps = some (some ino) → p.mountWalk cur comps = some (p, ino) := by
  intro comps
  induction comps with
  | nil =>
    intro p cur ino h
    simp only [Pseudo.pathWalk, Option.some.injEq] at h
    simp [Pseudo.mountWalk, h]
  | cons c rest ih =>
    intro p cur ino h
    cases c with
    | none =>
      simp only [Pseudo.pathWalk] at h
      simp only [Pseudo.mountWalk]
      cases hf : p.find cur with
      | none => simp [hf] at h
      | some n =>
        simp only [hf] at h ⊢
        cases hq : p.find n.parent with
        | none => simp [hq] at h
        | some q => simp only [hq] at h ⊢; exact ih p q.ino ino h
    | some name =>
      simp only [Pseudo.pathWalk] at h
      simp only [Pseudo.mountWalk]
      cases hf : p.find cur with
      | none => simp [hf] at h
      | some n =>
        simp only [hf] at h ⊢
        cases hch : n.child name with
        | none => simp [hch] at h
        | some c =>
          simp only [hch] at h ⊢
          cases hx : p.find c with
          | none => simp [hx] at h
          | some x => simp only [hx] at h ⊢; exact ih p x.ino ino h

theorem mountWalk_result_wf {comps : List Comp} {p : Pseudo} {cur : Nat} {p' : Pseudo} {ino : Nat} (h : WF p)
    (hc : ∃ n ∈ p.nodes, n.ino = cur) (hw : p.mountWalk cur comps = some (p', ino)) :
    WF p' ∧ ∃ n ∈ p'.nodes, n.ino = ino := by
  obtain ⟨p'', ino'', hw', hwf, hmem⟩ := mountWalk_wf comps p cur h hc
  rw [hw] at hw'
  simp only [Option.some.injEq, Prod.mk.injEq] at hw'
  obtain ⟨rfl, rfl⟩ := hw'
  exact ⟨hwf, hmem⟩

theorem child_none_find {n : PNode} {name : Name} (h : n.child name = none) :
    n.children.find? (fun c => c.2 == name) = none := by
  unfold PNode.child at h
  cases hf : n.children.find? (fun c => c.2 == name) with
  | none => rfl
  | some x => simp [hf] at h

/-- after `PseudoFs::mount(path)` the path resolves to the inode it returned -/
theorem mountWalk_resolves : ∀ (comps : List Comp) (p : Pseudo) (cur : Nat) (p' : Pseudo) (ino : Nat), WF p →
    (∃ n ∈ p.nodes, n.ino = cur) → p.mountWalk cur comps = some (p', ino) → p'.pathWalk cur comps = some (some ino) := by
  intro comps
  induction comps with
  | nil =>
    intro p cur p' ino _ _ h
    simp only [Pseudo.mountWalk, Option.some.injEq, Prod.mk.injEq] at h
    simp [Pseudo.pathWalk, h.2]
  | cons c rest ih =>
    intro p cur p' ino h ⟨n, hn, hni⟩ hw
    have hext := mountWalk_ext (c :: rest) p cur p' ino h ⟨n, hn, hni⟩ hw
    obtain ⟨h', _⟩ := mountWalk_result_wf h ⟨n, hn, hni⟩ hw
    have hfind : p.find cur = some n := by rw [← hni]; exact find_of_mem h.sorted hn
    obtain ⟨n', hn', a, b, ex⟩ := hext n hn
    have hfind' : p'.find cur = some n' := by rw [← hni, ← a]; exact find_of_mem h'.sorted hn'
    cases c with
    | none =>
      obtain ⟨q, hq, hqi⟩ := h.parent n hn
      have hfq : p.find n.parent = some q := by rw [← hqi]; exact find_of_mem h.sorted hq
      obtain ⟨q', hq', aq, _, _⟩ := hext q hq
      have hfq' : p'.find n'.parent = some q' := by rw [b, ← hqi, ← aq]; exact find_of_mem h'.sorted hq'
      simp only [Pseudo.mountWalk, hfind, hfq] at hw
      simp only [Pseudo.pathWalk, hfind', hfq', aq]
      exact ih p q.ino p' ino h ⟨q, hq, rfl⟩ hw
    | some name =>
      simp only [Pseudo.mountWalk, hfind] at hw
      cases hch : n.child name with
      | some c =>
        obtain ⟨x, hx, hxi, _⟩ := child_is_node h hn hch
        have hfx : p.find c = some x := by rw [← hxi]; exact find_of_mem h.sorted hx
        obtain ⟨x', hx', ax, _, _⟩ := hext x hx
        have hfx' : p'.find c = some x' := by rw [← hxi, ← ax]; exact find_of_mem h'.sorted hx'
        simp only [hch, hfx] at hw
        simp only [Pseudo.pathWalk, hfind', child_ext hch ex, hfx', ax]
        exact ih p x.ino p' ino h ⟨x, hx, rfl⟩ hw
      | none =>
        simp only [hch] at hw
        -- the component was created: node `new` under `n`, then the rest of the walk
        have hwf1 := createInode_wf h n hn name
        obtain ⟨hnodes, _, hino⟩ := createInode_nodes h.bound n.ino (h.bound n hn) name
        have hnewmem : ({ ino := p.nextInode, parent := n.ino, name := name, children := [] } : PNode) ∈ (p.createInode n.ino name).1.nodes := by
          rw [hnodes]; simp
        have hnew : ∃ x ∈ (p.createInode n.ino name).1.nodes, x.ino = (p.createInode n.ino name).2 :=
          ⟨_, hnewmem, by rw [hino]⟩
        have hrest := ih _ _ p' ino hwf1 hnew hw
        have hext1 := mountWalk_ext rest _ _ p' ino hwf1 hnew hw
        -- `n` in the intermediate tree lists the new child last
        have hn1mem : addChild n.ino p.nextInode name n ∈ (p.createInode n.ino name).1.nodes := by
          rw [hnodes]; exact List.mem_append_left _ (List.mem_map_of_mem hn)
        obtain ⟨n2, hn2, a2, _, ex2, hex2⟩ := hext1 _ hn1mem
        have hn2eq : n2 = n' := by
          have h1 : p'.find n2.ino = some n2 := find_of_mem h'.sorted hn2
          rw [a2, (addChild_keeps _ _ _ n).1, hni, hfind'] at h1
          exact (Option.some.inj h1).symm
        subst hn2eq
        have hchild : n2.child name = some p.nextInode := by
          unfold PNode.child
          rw [hex2]
          have : (addChild n.ino p.nextInode name n).children = n.children ++ [(p.nextInode, name)] := by
            unfold addChild; simp
          rw [this, List.append_assoc, List.find?_append, child_none_find hch]
          simp
        obtain ⟨x', hx', ax, _, _⟩ := hext1 _ hnewmem
        have hfx' : p'.find p.nextInode = some x' := by
          have := find_of_mem h'.sorted hx'
          rw [ax] at this; exact this
        simp only [Pseudo.pathWalk, hfind', hchild, hfx', ax]
        rw [hino] at hrest
        exact hrest

end Fbr.Lemmas.VfsPath
