/-
  Helper lemmas for C04/C17: every cursor operation *advances* its cursor by some `n`:
  it touches exactly the next `n` addresses of the flat list (in order, reads or writes), marks
  exactly their pages dirty when it is a write, and leaves `drop n` of the flat list.
  (`AdvBy`; the contract `FOk` is what `consume` needs from the closure it is given.)
-/
import Fbr.Lemmas.XportLog

namespace Fbr.Xport

/-- the addresses of the log touched by writes (`true`) or by reads (`false`) -/
def sel (wr : Bool) (log : List Access) : List Addr := if wr then wrAddrs log else rdAddrs log

/-- contract of a closure `f` run by `consume` on the offered buffers `bufs` -/
def FOk {β : Type} (wr : Bool) (w : World) (bufs : List Seg) (r : Except IoErr Nat × World × β) : Prop :=
  ∃ n, n ≤ total bufs ∧ r.2.1.p = w.p ∧ r.2.1.fd = w.fd ∧ r.2.1.dirty = w.dirty
    ∧ sel wr r.2.1.log = sel wr w.log ++ (addrs bufs).take n
    ∧ sel (!wr) r.2.1.log = sel (!wr) w.log
    ∧ (∀ k, r.1 = .ok k → k = n) ∧ (∀ e, r.1 = .error e → n = 0)

/-- the cursor `b` in world `w` advanced by `n` to `b'`, `w'` -/
def AdvBy (n : Nat) (wr md : Bool) (b : IoBufs) (w : World) (b' : IoBufs) (w' : World) : Prop :=
  n ≤ total b.segs ∧ w'.p = w.p ∧ w'.fd = w.fd
    ∧ sel wr w'.log = sel wr w.log ++ (addrs b.segs).take n
    ∧ sel (!wr) w'.log = sel (!wr) w.log
    ∧ (∀ x, x ∈ w'.dirty ↔ x ∈ w.dirty ∨ (md = true ∧ ∃ a ∈ (addrs b.segs).take n, pageOf w.p a = x))
    ∧ addrs b'.segs = (addrs b.segs).drop n
    ∧ b'.consumed = b.consumed + n

def Adv (wr md : Bool) (b : IoBufs) (w : World) (b' : IoBufs) (w' : World) : Prop :=
  ∃ n, AdvBy n wr md b w b' w'

theorem AdvBy.refl (wr md : Bool) (b : IoBufs) (w : World) : AdvBy 0 wr md b w b w := by
  refine ⟨Nat.zero_le _, rfl, rfl, by simp, rfl, ?_, by simp, rfl⟩
  intro x; simp

theorem AdvBy.total_eq {n : Nat} {wr md : Bool} {b b' : IoBufs} {w w' : World}
    (h : AdvBy n wr md b w b' w') : total b'.segs = total b.segs - n := by
  have := congrArg List.length h.2.2.2.2.2.2.1
  simpa using this

theorem AdvBy.trans {n1 n2 : Nat} {wr md : Bool} {b1 b2 b3 : IoBufs} {w1 w2 w3 : World}
    (h1 : AdvBy n1 wr md b1 w1 b2 w2) (h2 : AdvBy n2 wr md b2 w2 b3 w3) :
    AdvBy (n1 + n2) wr md b1 w1 b3 w3 := by
  have ht := h1.total_eq
  obtain ⟨a1, a2, a3, a4, a5, a6, a7, a8⟩ := h1
  obtain ⟨c1, c2, c3, c4, c5, c6, c7, c8⟩ := h2
  have htake : (addrs b1.segs).take (n1 + n2) = (addrs b1.segs).take n1 ++ (addrs b2.segs).take n2 := by
    rw [a7, List.take_add]
  refine ⟨by omega, c2.trans a2, c3.trans a3, ?_, c5.trans a5, ?_, ?_, by omega⟩
  · rw [c4, a4, htake, List.append_assoc]
  · intro x
    rw [c6, a6, htake, a2]
    simp only [List.mem_append]
    constructor
    · rintro ((h | ⟨hm, a, ha, e⟩) | ⟨hm, a, ha, e⟩)
      · exact Or.inl h
      · exact Or.inr ⟨hm, a, Or.inl ha, e⟩
      · exact Or.inr ⟨hm, a, Or.inr ha, e⟩
    · rintro (h | ⟨hm, a, ha | ha, e⟩)
      · exact Or.inl (Or.inl h)
      · exact Or.inl (Or.inr ⟨hm, a, ha, e⟩)
      · exact Or.inr ⟨hm, a, ha, e⟩
  · rw [c7, a7, List.drop_drop]

/-- `consume` advances the cursor by what the closure reports, provided the closure keeps its
    contract and the counter cannot overflow -/
theorem consume_adv {β : Type} (b : IoBufs) (w : World) (wr md : Bool) (count : Nat) (aux0 : β)
    (f : World → List Seg → Except IoErr Nat × World × β)
    (hp : md = true → 0 < w.p) (hmd : md = true → wr = true)
    (hov : b.consumed + total b.segs < USIZE)
    (hf : FOk wr w (allocate b.segs count) (f w (allocate b.segs count))) :
    ∃ n, n ≤ count ∧ AdvBy n wr md b w (consume b w md count aux0 f).b (consume b w md count aux0 f).w
      ∧ (∀ k, (consume b w md count aux0 f).res = .ok k → k = n)
      ∧ (∀ e, (consume b w md count aux0 f).res = .error e → n = 0) := by
  unfold consume
  by_cases he : (allocate b.segs count).isEmpty = true
  · simp only [he, if_true]
    exact ⟨0, Nat.zero_le _, AdvBy.refl _ _ _ _, by intro k h; cases h; rfl, by intro e h; cases h⟩
  · simp only [he, Bool.false_eq_true, if_false]
    generalize f w (allocate b.segs count) = r at hf
    obtain ⟨res, w1, a⟩ := r
    obtain ⟨n, hn, fp, ffd, fdirty, fsel, fnsel, fok, ferr⟩ := hf
    simp only at fp ffd fdirty fsel fnsel fok ferr
    have hn' : n ≤ min count (total b.segs) := by rw [← total_allocate]; exact hn
    have htake : ((addrs b.segs).take count).take n = (addrs b.segs).take n := by
      rw [List.take_take]; congr 1; omega
    rw [addrs_allocate, htake] at fsel
    cases res with
    | error e =>
      have hz : n = 0 := ferr e rfl
      subst hz
      refine ⟨0, Nat.zero_le _, ⟨Nat.zero_le _, fp, ffd, fsel, fnsel, ?_, by simp, rfl⟩, ?_, ?_⟩
      · intro x; simp [fdirty]
      · intro k h; cases h
      · intro _ _; rfl
    | ok k =>
      have hk : k = n := fok k rfl
      subst hk
      have hnov : ¬ (b.consumed + k ≥ USIZE) := by omega
      simp only [IoBufs.markUsed, hnov, if_false]
      refine ⟨k, by omega, ⟨by omega, ?_, ?_, ?_, ?_, ?_, by simp [addrs_markUsed], rfl⟩, ?_, ?_⟩
      · cases md <;> simp [markDirty, fp]
      · cases md <;> simp [markDirty, ffd]
      · cases md <;> simpa [markDirty] using fsel
      · cases md <;> simpa [markDirty] using fnsel
      · intro x
        cases md with
        | false => simp [fdirty]
        | true =>
          have hp1 : 0 < w1.p := by rw [fp]; exact hp rfl
          simp only [if_true]
          rw [mem_markDirty hp1]
          simp [fdirty, fp]
      · intro k' h; cases h; rfl
      · intro e h; cases h

end Fbr.Xport
