/-
  C15: every request keeps the descriptor ledger balanced, whatever fails inside it.
-/
import Fbr.Lemmas.PtLedger

namespace Fbr.PtRefs

theorem LEq.of_alloc {s s' : St} (h : AllocFrame s s') : LEq s s' :=
  ⟨h.data, h.handles, h.fds, h.mountRefs, h.cookies, h.nextHandle⟩

theorem forgetOne_linv (e : Env) {s : St} {t m : Nat} (h : LInv s t m) (i : Ino) (n : Nat) :
    LInv (forgetOne e s i n) t m := by
  unfold forgetOne
  split
  · exact h
  · split
    · exact h
    · rename_i d hd
      simp only
      split
      · exact removeInode_linv h hd _
      · exact setRefs_linv h hd _

theorem batchForget_linv (e : Env) (l : List (Ino × Nat)) {s : St} {t m : Nat} (h : LInv s t m) :
    LInv (batchForget e s l) t m := by
  induction l generalizing s with
  | nil => exact h
  | cons p r ih => obtain ⟨i, n⟩ := p; exact ih (forgetOne_linv e h i n)

theorem toOpenable_ok {e : Env} {s s' : St} {t m : Nat} (fh : Option FhId) (h : LInv s t m)
    (hg : toOpenable e s fh = (s', none)) : LInv s' t (m + (if fh.isSome then 1 else 0)) := by
  unfold toOpenable at hg
  cases fh with
  | none => simp only at hg; have := (Prod.mk.inj hg).1; subst this; simpa using h
  | some x => simp only at hg; simpa using mountGet_ok h hg

theorem toOpenable_err {e : Env} {s s' : St} {t m : Nat} (fh : Option FhId) (h : LInv s t m) {er : Errno}
    (hg : toOpenable e s fh = (s', some er)) : LInv s' t m := by
  unfold toOpenable at hg
  cases fh with
  | none => simp only at hg; cases hg
  | some x => simp only at hg; exact mountGet_err h hg

theorem dropPending_linv {s : St} {t m : Nat} (fh : Option FhId)
    (h : LInv s (t + 1) (m + (if fh.isSome then 1 else 0))) : LInv (dropPending s fh) t m := by
  unfold dropPending
  cases fh with
  | none => simp only; exact freeFd_linv (by simpa using h)
  | some x => simp only; exact freeFd_linv (mountPut_linv (by simpa using h))

theorem settlePath_linv {s : St} {t m : Nat} (fh : Option FhId)
    (h : LInv s (t + (if fh.isSome then 1 else 0)) m) : LInv (settlePath s fh) t m := by
  unfold settlePath
  cases fh with
  | none => simpa using h
  | some x => simp only; exact freeFd_linv (by simpa using h)

/-- the insert path of `do_lookup`, entered with the file's `O_PATH` descriptor open -/
theorem lookupInsert_linv (e : Env) {s : St} {t m : Nat} (f : HFile) (h : LInv s (t + 1) m) :
    LInv (lookupInsert e s f).1 t m := by
  unfold lookupInsert
  split
  · rename_i s1 er heq
    exact freeFd_linv (toOpenable_err f.fh h heq)
  · rename_i s1 heq
    have h1 := toOpenable_ok f.fh h heq
    have hfr := allocateInode_frame e s1 f.id f.fh
    split
    · rename_i s2 er heq2
      rw [heq2] at hfr
      exact dropPending_linv f.fh (h1.of_eq (LEq.of_alloc hfr))
    · rename_i s2 ino heq2
      rw [heq2] at hfr
      have h2 := h1.of_eq (LEq.of_alloc hfr)
      split
      · exact dropPending_linv f.fh h2
      · apply settlePath_linv
        have h3 : LInv (insertInode s2 ino { id := f.id, fh := f.fh, refs := 1, safe := f.safe })
            (t + (if f.fh.isSome then 1 else 0)) m := by
          apply insertInode_linv
          simp only
          cases hf : f.fh with
          | none => rw [hf] at h2; simpa using h2
          | some x => rw [hf] at h2; simpa using h2
        exact h3.of_eq ⟨rfl, rfl, rfl, rfl, rfl, rfl⟩

theorem lookupCore_linv (e : Env) {s : St} {t m : Nat} (f : HFile) (h : LInv s (t + 1) m) :
    LInv (lookupCore e s f).1 t m := by
  unfold lookupCore
  split
  · rename_i ino d hg
    have h1 := setRefs_linv h (getAlt_data hg) (satAdd d.refs 1)
    exact freeFd_linv (h1.of_eq ⟨rfl, rfl, rfl, rfl, rfl, rfl⟩)
  · exact lookupInsert_linv e f h

theorem doLookup_linv (e : Env) {s : St} {t m : Nat} (h : LInv s t m) (p : Ino) (pst : Bool) (a : HAns) :
    LInv (doLookup e s p pst a).1 t m := by
  unfold doLookup
  split
  · exact h
  · rename_i dir _
    split
    · rename_i s1 er heq; exact getFile_err dir pst h heq
    · rename_i s1 heq
      have h1 := getFile_linv dir pst h heq
      split
      · rename_i s2 heq2; exact closeTemp_linv _ (allocFd_fail h1 heq2)
      · rename_i s2 heq2
        have h2 := allocFd_ok h1 heq2
        split
        · exact closeTemp_linv _ (freeFd_linv h2)
        · rename_i f
          exact closeTemp_linv _ (lookupCore_linv e f h2)

theorem openInode_ok {e : Env} {s s' : St} {t m : Nat} (ino : Ino) (hr : Errno) (h : LInv s t m)
    (ho : openInode e s ino hr = (s', none)) : LInv s' (t + 1) m := by
  unfold openInode at ho
  split at ho
  · cases ho
  · split at ho
    · cases ho
    · split at ho
      · cases ho
      · split at ho
        · cases ho
        · rename_i s1 heq
          split at ho
          · cases ho
          · have := (Prod.mk.inj ho).1; subst this; exact allocFd_ok h heq

theorem openInode_err {e : Env} {s s' : St} {t m : Nat} (ino : Ino) (hr : Errno) (h : LInv s t m)
    {er : Errno} (ho : openInode e s ino hr = (s', some er)) : LInv s' t m := by
  unfold openInode at ho
  split at ho
  · have := (Prod.mk.inj ho).1; subst this; exact h
  · split at ho
    · have := (Prod.mk.inj ho).1; subst this; exact h
    · split at ho
      · have := (Prod.mk.inj ho).1; subst this; exact h
      · split at ho
        · rename_i s1 heq
          have := (Prod.mk.inj ho).1; subst this; exact allocFd_fail h heq
        · rename_i s1 heq
          split at ho
          · have := (Prod.mk.inj ho).1; subst this; exact freeFd_linv (allocFd_ok h heq)
          · cases ho

end Fbr.PtRefs
