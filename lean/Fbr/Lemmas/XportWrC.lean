/-
  Helper lemmas for C04: CONTENT of writer operations, closure level.  `FWr S w bufs r`: the
  contract of a *writing* closure run by `consume` (the copy loop of `write`, a scripted source
  filling the offered buffers): region sizes are kept, only the first `n` offered addresses
  change, and — when the offered addresses are pairwise distinct — they hold the first `n`
  bytes `S n` of the source afterwards.
-/
import Fbr.Lemmas.XportScatter
import Fbr.Lemmas.XportRdC

namespace Fbr.Xport

/-- `copyIn` without the no-overlap hypothesis: sizes kept, nothing outside the first
    `data.length` addresses of the buffers changes -/
theorem copyIn_frame (w : World) (bufs : List Seg) (data : Bytes) (hin : InMem w.mem (addrs bufs)) :
    (∀ x, ((copyIn w bufs data).1.mem.get x).length = (w.mem.get x).length)
    ∧ (∀ a, a ∉ (addrs bufs).take data.length → (copyIn w bufs data).1.mem.byteAt a = w.mem.byteAt a) := by
  induction bufs generalizing w data with
  | nil => simp [copyIn, addrs]
  | cons s rest ih =>
    simp only [copyIn]
    have hclen : (data.take (min data.length s.len)).length = (min data.length s.len) := by
      simp only [List.length_take]; omega
    have hfit : data.take (min data.length s.len) = [] ∨ s.off + (data.take (min data.length s.len)).length ≤ (w.mem.get s.region).length := by
      by_cases h0 : (min data.length s.len) = 0
      · left; exact List.eq_nil_of_length_eq_zero (by rw [hclen]; exact h0)
      · right
        have hc : 0 < s.len := by omega
        have := hin (s.region, s.off + (s.len - 1)) (by
          simp only [addrs]; exact List.mem_append_left _ (mk_mem_segAddrs s _ (by omega)))
        simp only at this
        rw [hclen]; omega
    let w1 : World := { w with mem := w.mem.write s.region s.off (data.take (min data.length s.len)),
                               log := w.log ++ [{ region := s.region, off := s.off, len := (min data.length s.len), write := true }] }
    have hlen1 : ∀ x, (w1.mem.get x).length = (w.mem.get x).length := fun x => length_get_write' _ _ _ _ hfit x
    have hin1 : InMem w1.mem (addrs rest) := by
      intro a ha; rw [hlen1]; exact hin a (by simp [addrs, ha])
    obtain ⟨i1, i2⟩ := ih w1 (data.drop (min data.length s.len)) hin1
    have hb1 : ∀ a, w1.mem.byteAt a =
        if a.1 = s.region ∧ s.off ≤ a.2 ∧ a.2 < s.off + (data.take (min data.length s.len)).length then (data.take (min data.length s.len)).getD (a.2 - s.off) 0
        else w.mem.byteAt a := fun a => byteAt_write' _ _ _ _ hfit a
    have hdroplen : (data.drop (min data.length s.len)).length = data.length - (min data.length s.len) := by simp
    have htk : (addrs rest).take (data.length - (min data.length s.len)) = (addrs rest).take (data.length - s.len) := by
      by_cases hl : data.length ≤ s.len
      · have : (min data.length s.len) = data.length := by omega
        rw [this, Nat.sub_self, Nat.sub_eq_zero_of_le hl]
      · have : (min data.length s.len) = s.len := by omega
        rw [this]
    refine ⟨fun x => by rw [i1, hlen1], ?_⟩
    intro a ha
    simp only [addrs, List.take_append, length_segAddrs, List.mem_append, not_or] at ha
    obtain ⟨ha1, ha2⟩ := ha
    rw [i2 a (by rw [hdroplen, htk]; exact ha2), hb1]
    have : ¬ (a.1 = s.region ∧ s.off ≤ a.2 ∧ a.2 < s.off + (data.take (min data.length s.len)).length) := by
      intro hcon
      apply ha1
      rw [hclen] at hcon
      have hm : a ∈ segAddrs s := by rw [mem_segAddrs]; exact ⟨hcon.1, hcon.2.1, by have := hcon.2.2; omega⟩
      obtain ⟨i, hi, e⟩ := List.getElem_of_mem hm
      have hia : i = a.2 - s.off := by
        rw [getElem_segAddrs] at e
        have := congrArg Prod.snd e; simp only at this; omega
      rw [List.mem_take_iff_getElem]
      refine ⟨i, ?_, e⟩
      have := hcon.2.2
      simp only [length_segAddrs] at hi ⊢
      omega
    simp only [this, if_false]

/-- … with pairwise distinct addresses: the first `min data.length (total bufs)` addresses hold
    the data -/
theorem copyIn_content (w : World) (bufs : List Seg) (data : Bytes)
    (hnd : (addrs bufs).Nodup) (hin : InMem w.mem (addrs bufs)) :
    ((addrs bufs).take (min data.length (total bufs))).map (copyIn w bufs data).1.mem.byteAt
      = data.take (min data.length (total bufs)) := by
  obtain ⟨_, _, m3⟩ := copyIn_mem w bufs data hnd hin
  apply List.ext_getElem
  · simp
  · intro j h1 h2
    simp only [List.length_map, List.length_take, length_addrs] at h1
    simp only [List.getElem_map, List.getElem_take]
    exact m3 j (by omega) (by simp; omega)

/-- content contract of a writing closure; `S n` = the first `n` bytes of its source -/
def FWr {β : Type} (S : Nat → Bytes) (w : World) (bufs : List Seg) (r : Except IoErr Nat × World × β) : Prop :=
  (∀ x, (r.2.1.mem.get x).length = (w.mem.get x).length)
  ∧ (∀ n, r.1 = .ok n → n ≤ total bufs
        ∧ (∀ a, a ∉ (addrs bufs).take n → r.2.1.mem.byteAt a = w.mem.byteAt a)
        ∧ ((addrs bufs).Nodup → ((addrs bufs).take n).map r.2.1.mem.byteAt = S n))
  ∧ (∀ e, r.1 = .error e → r.2.1.mem = w.mem)

theorem FWr.mono {β : Type} {S : Nat → Bytes} {w : World} {sub bufs : List Seg}
    {r : Except IoErr Nat × World × β} (h : FWr S w sub r) (ht : total sub ≤ total bufs)
    (hpre : ∀ n, n ≤ total sub → (addrs sub).take n = (addrs bufs).take n) : FWr S w bufs r := by
  obtain ⟨h1, h2, h3⟩ := h
  refine ⟨h1, ?_, h3⟩
  intro n hn
  obtain ⟨a, b, c⟩ := h2 n hn
  refine ⟨by omega, by rw [← hpre n a]; exact b, ?_⟩
  intro hnd
  rw [← hpre n a]
  apply c
  have := hpre (total sub) (Nat.le_refl _)
  rw [List.take_of_length_le (by simp)] at this
  rw [this]
  exact (List.take_sublist _ _).nodup hnd

theorem fwr_zero {β : Type} (S : Nat → Bytes) (hS : S 0 = []) (w : World) (bufs : List Seg) (a : β) :
    FWr S w bufs ((.ok 0 : Except IoErr Nat), w, a) := by
  refine ⟨fun _ => rfl, ?_, fun _ _ => rfl⟩
  intro n hn
  cases hn
  exact ⟨Nat.zero_le _, fun _ _ => rfl, fun _ => by simp [hS]⟩

theorem copyIn_fwr {β : Type} (w : World) (bufs : List Seg) (data : Bytes) (hin : InMem w.mem (addrs bufs)) (a : β) :
    FWr (fun n => data.take n) w bufs
      ((.ok (copyIn w bufs data).2 : Except IoErr Nat), (copyIn w bufs data).1, a) := by
  have hs := copyIn_spec w bufs data
  have hf := copyIn_frame w bufs data hin
  have hc := copyIn_content w bufs data
  simp only at hs
  refine ⟨hf.1, ?_, by intro e he; cases he⟩
  intro n hn
  cases hn
  simp only
  rw [hs.2.2.2]
  refine ⟨Nat.min_le_right _ _, ?_, fun hnd => hc hnd hin⟩
  rw [take_min_total]; exact hf.2

/-! ### `patBytes` -/

@[simp] theorem length_patBytes (seed start n : Nat) : (patBytes seed start n).length = n := by
  simp [patBytes]

theorem patBytes_zero (seed start : Nat) : patBytes seed start 0 = [] := rfl

theorem patBytes_add (seed start a b : Nat) :
    patBytes seed start (a + b) = patBytes seed start a ++ patBytes seed (start + a) b := by
  apply List.ext_getElem
  · simp
  · intro j h1 h2
    simp only [length_patBytes] at h1
    by_cases hj : j < a
    · rw [List.getElem_append_left (by simpa using hj)]
      simp [patBytes]
    · rw [List.getElem_append_right (by simpa using Nat.le_of_not_lt hj)]
      simp only [patBytes, List.getElem_map, List.getElem_range, List.length_map, List.length_range]
      congr 1; omega

theorem patBytes_take (seed start n k : Nat) (h : k ≤ n) : (patBytes seed start n).take k = patBytes seed start k := by
  obtain ⟨d, rfl⟩ := Nat.exists_eq_add_of_le h
  rw [patBytes_add, List.take_left' (by simp)]

/-! ### the scripted source -/

theorem sourceData_fwr {β : Type} (w : World) (bufs : List Seg) (seed start k : Nat) (hk : k ≤ total bufs)
    (hin : InMem w.mem (addrs bufs)) (a : β) :
    FWr (fun n => patBytes seed start n) w bufs
      ((.ok (copyIn w bufs (patBytes seed start k)).2 : Except IoErr Nat), (copyIn w bufs (patBytes seed start k)).1, a) := by
  obtain ⟨h1, h2, h3⟩ := copyIn_fwr w bufs (patBytes seed start k) hin a
  refine ⟨h1, ?_, h3⟩
  intro n hn
  obtain ⟨a1, b1, c1⟩ := h2 n hn
  refine ⟨a1, b1, ?_⟩
  intro hnd
  have hs := (copyIn_spec w bufs (patBytes seed start k)).2.2.2
  simp only [length_patBytes] at hs
  have hnk : n = k := by
    simp only [Except.ok.injEq] at hn
    omega
  rw [c1 hnd]
  simp only
  rw [hnk, List.take_of_length_le (by simp)]

theorem sourceCall_fwr (s : Script) (w : World) (bufs : List Seg) (at_ : Option Nat) (hin : InMem w.mem (addrs bufs)) :
    FWr (fun n => patBytes s.seed (at_.getD s.pos) n) w bufs (s.sourceCall w bufs at_) := by
  have herr : ∀ (e : IoErr) (a : Script), FWr (fun n => patBytes s.seed (at_.getD s.pos) n) w bufs
      ((.error e : Except IoErr Nat), w, a) := by
    intro e a
    refine ⟨fun _ => rfl, ?_, fun _ _ => rfl⟩
    intro n hn; cases hn
  unfold Script.sourceCall Script.pop
  cases s.answers with
  | nil =>
    simp only
    cases at_ with
    | none => exact sourceData_fwr w bufs s.seed s.pos _ (Nat.le_refl _) hin _
    | some o => exact sourceData_fwr w bufs s.seed o _ (Nat.le_refl _) hin _
  | cons a rest =>
    simp only
    cases a with
    | err => exact herr _ _
    | intr => exact herr _ _
    | n k =>
      simp only
      cases at_ with
      | none => exact sourceData_fwr w bufs s.seed s.pos _ (Nat.min_le_right _ _) hin _
      | some o => exact sourceData_fwr w bufs s.seed o _ (Nat.min_le_right _ _) hin _

theorem readVectored_fwr (s : Script) (w : World) (bufs : List Seg) (at_ : Option Nat) (hin : InMem w.mem (addrs bufs)) :
    FWr (fun n => patBytes s.seed (at_.getD s.pos) n) w bufs (s.readVectored w bufs at_) := by
  unfold Script.readVectored
  cases s.kind with
  | full => exact sourceCall_fwr s w bufs at_ hin
  | dflt =>
    simp only
    cases at_ with
    | some o =>
      simp only
      cases bufs with
      | nil => exact fwr_zero _ rfl _ _ _
      | cons b rest =>
        exact (sourceCall_fwr s w [b] (some o) (hin.of_prefix (head_prefix b rest).2)).mono
          (head_prefix b rest).1 (head_prefix b rest).2
    | none =>
      simp only
      cases hf : bufs.find? (fun b => b.len ≠ 0) with
      | none => exact fwr_zero _ rfl _ _ _
      | some b =>
        exact (sourceCall_fwr s w [b] none (hin.of_prefix (find_nonempty_prefix bufs b hf).2)).mono
          (find_nonempty_prefix bufs b hf).1 (find_nonempty_prefix bufs b hf).2

/-- the cursor of a source: a plain call advances it by what it delivered, an `at` call and a
    failing call leave it; the seed never changes -/
theorem readVectored_pos (s : Script) (w : World) (bufs : List Seg) (at_ : Option Nat) :
    (s.readVectored w bufs at_).2.2.seed = s.seed
    ∧ (∀ n, (s.readVectored w bufs at_).1 = .ok n →
        (s.readVectored w bufs at_).2.2.pos = match at_ with | some _ => s.pos | none => s.pos + n)
    ∧ (∀ e, (s.readVectored w bufs at_).1 = .error e → (s.readVectored w bufs at_).2.2.pos = s.pos) := by
  have key : ∀ bufs', (s.sourceCall w bufs' at_).2.2.seed = s.seed
      ∧ (∀ n, (s.sourceCall w bufs' at_).1 = .ok n →
          (s.sourceCall w bufs' at_).2.2.pos = match at_ with | some _ => s.pos | none => s.pos + n)
      ∧ (∀ e, (s.sourceCall w bufs' at_).1 = .error e → (s.sourceCall w bufs' at_).2.2.pos = s.pos) := by
    intro bufs'
    unfold Script.sourceCall Script.pop
    cases s.answers with
    | nil =>
      simp only
      refine ⟨trivial, ?_, ?_⟩
      · intro n hn
        simp only [Except.ok.injEq] at hn
        cases at_ <;> simp [hn]
      · intro e he; cases he
    | cons a rest =>
      simp only
      cases a with
      | err =>
        refine ⟨rfl, ?_, ?_⟩
        · intro n hn; cases hn
        · intro _ _; rfl
      | intr =>
        refine ⟨rfl, ?_, ?_⟩
        · intro n hn; cases hn
        · intro _ _; rfl
      | n k =>
        simp only
        refine ⟨trivial, ?_, ?_⟩
        · intro n hn
          simp only [Except.ok.injEq] at hn
          cases at_ <;> simp [hn]
        · intro e he; cases he
  have zero : (((.ok 0 : Except IoErr Nat), w, s) : Except IoErr Nat × World × Script).2.2.seed = s.seed
      ∧ (∀ n, (((.ok 0 : Except IoErr Nat), w, s) : Except IoErr Nat × World × Script).1 = .ok n →
          (((.ok 0 : Except IoErr Nat), w, s) : Except IoErr Nat × World × Script).2.2.pos
            = match at_ with | some _ => s.pos | none => s.pos + n)
      ∧ (∀ e, (((.ok 0 : Except IoErr Nat), w, s) : Except IoErr Nat × World × Script).1 = .error e →
          (((.ok 0 : Except IoErr Nat), w, s) : Except IoErr Nat × World × Script).2.2.pos = s.pos) := by
    refine ⟨rfl, ?_, by intro e he; cases he⟩
    intro n hn
    simp only [Except.ok.injEq] at hn
    cases at_ <;> simp [← hn]
  unfold Script.readVectored
  cases s.kind with
  | full => exact key bufs
  | dflt =>
    simp only
    cases at_ with
    | some o =>
      simp only
      cases bufs with
      | nil => exact zero
      | cons b rest => exact key [b]
    | none =>
      simp only
      cases hf : bufs.find? (fun b => b.len ≠ 0) with
      | none => exact zero
      | some b => exact key [b]

end Fbr.Xport
