/-
  Fbr.Lemmas.PtHostSpec — definitions used to state the C05 theorems (histories, the all-success
  answer function, the SETATTR plan).
-/
import Fbr.Lemmas.PtHostRun

namespace Fbr.PtHost
open Fbr.Host

variable {σ : Type}

/-- a whole history: tables and host state threaded through the requests -/
def runHistory (H : HostOps σ) (cfg : Cfg) : PtState → σ → List Req → PtState × σ
  | s, h, [] => (s, h)
  | s, h, r :: rs => runHistory H cfg (val H (step cfg s r) h).2 (fin H (step cfg s r) h) rs

/-- all calls succeed -/
def okAns (st : Stat) : HCall → HAns
  | .reopen .. => .fd 100 st.obj
  | .openByHandle .. => .fd 100 st.obj
  | .fstatat .. => .st st
  | .statx .. => .st st
  | .capget => .caps false
  | _ => .ok

/-- the attribute-changing calls `setattr` makes for a `valid` set, on an inode held by an O_PATH
    descriptor `f`, without a handle (the /proc paths) -/
def setattrPlan (cfg : Cfg) (f : Fd) (dmode valid mode uid gid size a an m mn : Nat) : List HCall :=
  (if has valid FATTR_MODE then [HCall.fchmodatProc f mode 0] else []) ++
  (if has valid (FATTR_UID ||| FATTR_GID) then
    [HCall.fchownat f [] (if has valid FATTR_UID then uid else U32_MAX) (if has valid FATTR_GID then gid else U32_MAX)
      (AT_EMPTY_PATH ||| AT_SYMLINK_NOFOLLOW)] else []) ++
  (if has valid FATTR_SIZE then
    [HCall.reopen f (reopenFlags (openInodeFlags cfg (O_NONBLOCK ||| O_RDWR))) dmode, HCall.ftruncate 100 size] else []) ++
  (if has valid (FATTR_ATIME ||| FATTR_MTIME) then
    [HCall.utimensatProc f (setattrTimes valid a an m mn).1.1 (setattrTimes valid a an m mn).1.2
      (setattrTimes valid a an m mn).2.1 (setattrTimes valid a an m mn).2.2 0] else []) ++
  [HCall.fstatat f [] STATX_FLAGS]


end Fbr.PtHost
