/-
  Helper lemmas for C16: lookup references taken by the record loop, for an arbitrary callback.
-/
import Fbr.Lemmas.PtDirStep

namespace Fbr.Lemmas.PtDir
open Fbr.PtDir Fbr.Wire

/-- wrap a callback so that it logs (newest first) the inode of every offer it accepted, i.e.
    answered with `Ok(n)`, `n > 0` — the entries that reach the client -/
def recordCb {σ : Type} (cb : Cb σ) : Cb (σ × List Nat) := fun s o =>
  match cb s.1 o with
  | (s', .ok 0) => ((s', s.2), .ok 0)
  | (s', .ok (n + 1)) => ((s', o.ino :: s.2), .ok (n + 1))
  | (s', .err e) => ((s', s.2), .err e)

/-- whatever the callback does (accept, `Ok(0)`, fail at any point), the record loop of
    readdirplus adds exactly one reference per accepted offer, and the loop of readdir none -/
theorem entryLoop_refs {σ : Type} (plus : Bool) (cb : Cb σ) (b : Dir) (first : Bool) (s : σ) (log refs : List Nat) :
    ∃ k, (entryLoop plus (recordCb cb) b first (s, log) refs).cb.2 = k ++ log ∧
         (entryLoop plus (recordCb cb) b first (s, log) refs).refs = (if plus then k ++ refs else refs) := by
  induction b generalizing first s log refs with
  | nil => exact ⟨[], by simp [entryLoop], by cases plus <;> simp [entryLoop]⟩
  | cons e r ih =>
    unfold entryLoop
    by_cases hd : isDot e = true
    · simp only [hd, if_true]; exact ih false s log refs
    · have hd' : isDot e = false := by simpa using hd
      simp only [hd', Bool.false_eq_true, if_false]
      rcases hcb : cb s { ino := e.ino, off := e.cookie, type := e.type, name := trimName (nameField e) } with ⟨s', res⟩
      cases res with
      | ok n =>
        cases n with
        | zero =>
          have hstep : recordCb cb (s, log) { ino := e.ino, off := e.cookie, type := e.type, name := trimName (nameField e) }
              = ((s', log), .ok 0) := by simp [recordCb, hcb]
          rw [hstep]
          exact ⟨[], by simp, by cases plus <;> simp⟩
        | succ n =>
          have hstep : recordCb cb (s, log) { ino := e.ino, off := e.cookie, type := e.type, name := trimName (nameField e) }
              = ((s', e.ino :: log), .ok (n + 1)) := by simp [recordCb, hcb]
          rw [hstep]
          simp only
          obtain ⟨k, h1, h2⟩ := ih false s' (e.ino :: log) (if plus then e.ino :: refs else refs)
          refine ⟨k ++ [e.ino], ?_, ?_⟩
          · rw [h1]; simp
          · rw [h2]; cases plus <;> simp
      | err en =>
        have hstep : recordCb cb (s, log) { ino := e.ino, off := e.cookie, type := e.type, name := trimName (nameField e) }
            = ((s', log), .err en) := by simp [recordCb, hcb]
        rw [hstep]
        exact ⟨[], by simp, by cases plus <;> simp⟩

end Fbr.Lemmas.PtDir
