/-
  Local form of the cache invariant: every node's real inodes are what scanning its PARENT's
  real inodes gives now (`localExp`).  Equivalent to the global `Consistent` (Fbr.Lemmas.OvlSim)
  but much easier to re-establish after a change of one upper-layer entry, because only the
  parent/child pairs that read the changed entry are affected.
-/
import Fbr.Ovl
import Fbr.Lemmas.OvlExp
import Fbr.Lemmas.OvlSim
import Fbr.Lemmas.OvlSimLookup

namespace Fbr.Ovl

/-- the real inodes `scan_childrens` of the node `pm` computes for the child `n` -/
def localExp (d : Disk) (pm : MNode) (n : Name) : List Real :=
  match newFromReals d ((takeDirs d pm.reals).filterMap (lookupChild d · n)) with
  | some k => k.reals
  | none => []

def RealsLike (rs es : List Real) : Prop := rs = es ∨ ∃ e, es = [e] ∧ e.inUpper = true ∧ rs = [staleOf e]

structure LConsistent (s : St) : Prop where
  roots : s.disk.RootsOK
  trees : s.disk.TreesOK
  root : ∃ m, s.mem [] = some m ∧ RealsLike m.reals (s.disk.indices.map (rootReal s.disk))
  child : ∀ pp pm n c, s.mem pp = some pm → s.mem (n :: pp) = some c →
    RealsLike c.reals (localExp s.disk pm n)
  wh : ∀ p m, s.mem p = some m → m.whiteout = headWhiteout m.reals
  kidsLoaded : ∀ p m, s.mem p = some m → m.loaded = true → ∀ n,
    (n ∈ m.kids → localExp s.disk m n ≠ []) ∧ (needsNode (localExp s.disk m n) = true → n ∈ m.kids)
  kidsMem : ∀ p m n, s.mem p = some m → n ∈ m.kids → ∃ c, s.mem (n :: p) = some c
  unloaded : ∀ p m, s.mem p = some m → m.loaded = false → m.kids = []
  reach : ∀ n p c, s.mem (n :: p) = some c → ∃ pm, s.mem p = some pm ∧ n ∈ pm.kids

theorem localExp_eq_exp {d : Disk} {pp : Path} {pm : MNode} (h : RealsOK d pp pm.reals) (n : Name) :
    localExp d pm n = expReals d (n :: pp) := by
  unfold localExp
  rw [scan_cands d pp pm.reals n h, expReals]
  generalize newFromReals d _ = x
  cases x <;> rfl

/-- local ⇒ global: by induction along the path -/
theorem LConsistent.reals {s : St} (h : LConsistent s) :
    ∀ p m, s.mem p = some m → RealsOK s.disk p m.reals
  | [], m, hm => by
    obtain ⟨m0, hm0, hr⟩ := h.root
    rw [hm] at hm0; cases hm0
    exact hr
  | n :: pp, c, hc => by
    obtain ⟨pm, hpm, _⟩ := h.reach n pp c hc
    have ih := LConsistent.reals h pp pm hpm
    have := h.child pp pm n c hpm hc
    rw [localExp_eq_exp ih] at this
    exact this

theorem LConsistent.toConsistent {s : St} (h : LConsistent s) : Consistent s := by
  refine ⟨h.roots, h.trees, ?_, h.reals, h.wh, ?_, h.kidsMem, h.unloaded, h.reach⟩
  · obtain ⟨m, hm, _⟩ := h.root; exact ⟨m, hm⟩
  · intro p m hm hl n
    have := h.kidsLoaded p m hm hl n
    rw [localExp_eq_exp (h.reals p m hm)] at this
    exact this

theorem Consistent.toLocal {s : St} (h : Consistent s) : LConsistent s := by
  refine ⟨h.roots, h.trees, ?_, ?_, h.wh, ?_, h.kidsMem, h.unloaded, h.reach⟩
  · obtain ⟨m, hm⟩ := h.root
    exact ⟨m, hm, h.reals [] m hm⟩
  · intro pp pm n c hpm hc
    rw [localExp_eq_exp (h.reals pp pm hpm)]
    exact h.reals (n :: pp) c hc
  · intro p m hm hl n
    rw [localExp_eq_exp (h.reals p m hm)]
    exact h.kidsLoaded p m hm hl n

/-! ### what the real inodes of a consistent node look like -/

theorem realsOK_forms {d : Disk} (hr : d.RootsOK) {p : Path} {rs : List Real} (h : RealsOK d p rs) :
    rs = (expIdx d p).map (realOf d p) ∨
      ∃ i, expIdx d p = [i] ∧ i = 0 ∧ rs = [staleOf (realOf d p i)] := by
  rcases h with h | ⟨e, he, hu, h⟩
  · left; rw [h, expReals_eq d hr]
  · right
    rw [expReals_eq d hr] at he
    cases hi : expIdx d p with
    | nil => rw [hi] at he; cases he
    | cons i rest =>
      rw [hi] at he
      cases rest with
      | nil =>
        simp at he
        refine ⟨i, rfl, ?_, by rw [h, ← he]⟩
        rw [← he] at hu
        simpa [realOf] using hu
      | cons j r2 => simp at he

/-- every real inode of a consistent node lives at the node's path, in the upper layer exactly
    when its index is 0 -/
theorem reals_shape {s : St} (hc : Consistent s) {p : Path} {m : MNode} (hm : s.mem p = some m) :
    ∀ r ∈ m.reals, r.path = p ∧ r.inUpper = (r.layer == 0) ∧
      r.whiteout = (s.disk.nodeAt r.layer p).isWhiteout := by
  intro r hr
  rcases realsOK_forms hc.roots (hc.reals p m hm) with h | ⟨i, _, _, h⟩
  · rw [h] at hr
    simp only [List.mem_map] at hr
    obtain ⟨i, _, rfl⟩ := hr
    simp [realOf]
  · rw [h] at hr
    simp at hr
    subst hr
    simp [realOf, staleOf]

end Fbr.Ovl
