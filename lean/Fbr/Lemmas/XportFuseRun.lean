/-
  Helper lemmas for C04: ONE buffered FuseDevWriter through ANY operation list: its buffer grows by
  exactly what was appended through it, in operation order (`fuse_handle_run`); split header/data
  writers committed together send one record `header ++ data` (`fuse_split_commit_run`).
-/
import Fbr.Lemmas.XportFuseInv
import Fbr.Lemmas.XportCRun

namespace Fbr.Xport

/-- writer `f` became `f'` appending `D`; memory went from `m` to `m'` -/
def FwH (D : Bytes) (f : FuseW) (m m' : Mem) (f' : FuseW) : Prop :=
  f' = { f with len := f.len + D.length } ∧ f.len + D.length ≤ f.cap
    ∧ (segAddrs ⟨f.region, f.base + f.len, D.length⟩).map m'.byteAt = D
    ∧ ∀ a ∈ segAddrs ⟨f.region, f.base, f.len⟩, m'.byteAt a = m.byteAt a

theorem FwH.same {f : FuseW} {m m' : Mem} (hok : f.ok)
    (h : ∀ a ∈ segAddrs ⟨f.region, f.base, f.len⟩, m'.byteAt a = m.byteAt a) : FwH [] f m m' f :=
  ⟨(f.with_len_self).symm, hok, by simp [segAddrs], h⟩

theorem FwH.trans {D1 D2 : Bytes} {f f1 f2 : FuseW} {m m1 m2 : Mem} (h1 : FwH D1 f m m1 f1) (h2 : FwH D2 f1 m1 m2 f2) :
    FwH (D1 ++ D2) f m m2 f2 := by
  obtain ⟨a1, a2, a3, a4⟩ := h1
  obtain ⟨c1, c2, c3, c4⟩ := h2
  subst a1
  simp only at c1 c2 c3 c4
  refine ⟨by rw [c1, List.length_append]; simp only [Nat.add_assoc], by rw [List.length_append]; omega, ?_, ?_⟩
  · rw [List.length_append, segAddrs_split, List.map_append]
    simp only [Nat.add_assoc] at c3 ⊢
    rw [c3]
    congr 1
    refine Eq.trans ?_ a3
    apply List.map_congr_left
    intro a ha
    apply c4
    rw [segAddrs_split]
    exact List.mem_append_right _ ha
  · intro a ha
    rw [c4 a (by rw [segAddrs_split]; exact List.mem_append_left _ ha), a4 a ha]

theorem FwC.toFwH {D : Bytes} {f f' : FuseW} {w w' : World} (h : FwC D f w f' w') : FwH D f w.mem w'.mem f' := by
  refine ⟨h.s.eq, h.s.fits, h.content, ?_⟩
  intro a ha
  exact h.s.frame a (seg_disjoint _ _ _ _ a ha)

theorem FwH.slice {D : Bytes} {f f' : FuseW} {m m' : Mem} (h : FwH D f m m' f')
    (hin : f.base + f.cap ≤ (m.get f.region).length) (hlen : ∀ x, (m'.get x).length = (m.get x).length) :
    f'.slice m' = f.slice m ++ D := by
  obtain ⟨a1, a2, a3, a4⟩ := h
  simp only [FuseW.slice]
  rw [a1]
  simp only
  have i2 : InMem m' (segAddrs ⟨f.region, f.base, f.len + D.length⟩) := by
    intro a ha; rw [mem_segAddrs] at ha; rw [ha.1, hlen]; simp only at ha ⊢; omega
  have i1 : InMem m (segAddrs ⟨f.region, f.base, f.len⟩) := by
    intro a ha; rw [mem_segAddrs] at ha; rw [ha.1]; simp only at ha ⊢; omega
  rw [readSeg_eq_map _ _ i2, readSeg_eq_map _ _ i1, segAddrs_split, List.map_append, a3]
  congr 1
  exact List.map_congr_left a4

theorem nodup_fahead {R base0 cap0 : Nat} {s : St} (h : FInv R base0 cap0 s) : (fahead s.fws).Nodup :=
  h.part.nodup_iff.mpr (nodup_segAddrs _)

theorem step_fuse_handle {R base0 cap0 : Nat} {s : St} (h : FInv R base0 cap0 s) (op : Op) (i : Nat) (f0 : FuseW)
    (hg : s.fws[i]? = some f0) (hb : f0.buffered = true) (hns : ∀ k, op ≠ .fs i k) :
    ∃ f1, (step s op).1.fws[i]? = some f1 ∧ f1.buffered = true
      ∧ FwH (fplaced s i op) f0 s.w.mem (step s op).1.w.mem f1 := by
  have hil := lt_length_of_getElem? hg
  have hok0 := (h.each f0 (mem_of_getElem? hg)).1
  rcases fstep_view s op h.nowr h.all with ⟨e1, e2, ek, hz⟩ | ⟨j, f, f', w', hfh, _, hgj, e, hs, hc⟩
      | ⟨j, k, f, a, o, eop, hgj, hsp, e⟩ | ⟨j, o, f, eop, hgj, e⟩
  · refine ⟨f0, by rw [e1]; exact hg, hb, ?_⟩
    rw [hz i, ek.1]; exact FwH.same hok0 (fun _ _ => rfl)
  · rw [e, fplaced_eq hfh hgj i]
    simp only
    by_cases hi : i = j
    · subst hi
      rw [hg] at hgj; cases hgj
      simp only [if_true]
      refine ⟨f', List.getElem?_set_self hil, by rw [hs.eq]; exact hb, (hc hb).toFwH⟩
    · simp only [hi, if_false]
      refine ⟨f0, by rw [List.getElem?_set_ne (Ne.symm hi)]; exact hg, hb, FwH.same hok0 ?_⟩
      intro a ha
      apply hs.frame
      intro hm
      have hd := ahead_disjoint_handles (nodup_fahead h) (l := s.fws.map FuseW.asBufs) (i := i) (h := j)
        (b0 := f0.asBufs) (b := f.asBufs) (by rw [List.getElem?_map, hg]; rfl) (by rw [List.getElem?_map, hgj]; rfl)
        (Ne.symm hi) a
      rw [addrs_asBufs, addrs_asBufs] at hd
      have hfit := hs.fits
      unfold FuseW.ok at hok0
      apply hd
      · rw [mem_segAddrs] at ha ⊢; simp only at ha ⊢; omega
      · rw [mem_segAddrs] at hm ⊢; simp only at hm ⊢; omega
  · have hi : j ≠ i := by intro e'; subst e'; exact hns k eop
    rw [e, fplaced_eq (by rw [eop]; rfl) hgj i]
    refine ⟨f0, ?_, hb, ?_⟩
    · simp only
      rw [List.getElem?_append_left (by rw [List.length_set]; exact hil), List.getElem?_set_ne hi]; exact hg
    · rw [eop]; simp only [fwriterIn, ite_self]; exact FwH.same hok0 (fun _ _ => rfl)
  · rw [e, fplaced_eq (by rw [eop]; rfl) hgj i]
    refine ⟨f0, hg, hb, ?_⟩
    rw [eop]; simp only [fwriterIn, ite_self]
    rw [(fcommit_world f s.w _).1]
    exact FwH.same hok0 (fun _ _ => rfl)

theorem fuse_handle_run {R base0 cap0 : Nat} (ops : List Op) {s : St} (h : FInv R base0 cap0 s) (i : Nat) (f0 : FuseW)
    (hg : s.fws[i]? = some f0) (hb : f0.buffered = true) (hns : ∀ k, Op.fs i k ∉ ops) :
    ∃ ff, (exec s ops).fws[i]? = some ff ∧ ff.buffered = true
      ∧ FwH (fplacedAll s i ops) f0 s.w.mem (exec s ops).w.mem ff := by
  induction ops generalizing s f0 with
  | nil => exact ⟨f0, hg, hb, FwH.same (h.each f0 (mem_of_getElem? hg)).1 (fun _ _ => rfl)⟩
  | cons op rest ih =>
    obtain ⟨f1, hg1, hb1, h1⟩ := step_fuse_handle h op i f0 hg hb
      (by intro k e; exact hns k (by rw [e]; exact List.mem_cons_self))
    obtain ⟨ff, hgf, hbf, h2⟩ := ih (step_finv h op) f1 hg1 hb1
      (by intro k hk; exact hns k (List.mem_cons_of_mem _ hk))
    exact ⟨ff, hgf, hbf, h1.trans h2⟩

/-- region sizes never change on a fusedev table -/
theorem step_flen {R base0 cap0 : Nat} {s : St} (h : FInv R base0 cap0 s) (op : Op) :
    ∀ x, ((step s op).1.w.mem.get x).length = (s.w.mem.get x).length := by
  rcases fstep_view s op h.nowr h.all with ⟨_, _, ek, _⟩ | ⟨j, f, f', w', _, _, _, e, hs, _⟩
      | ⟨j, k, f, a, o, _, _, _, e⟩ | ⟨j, o, f, _, _, e⟩
  · intro x; rw [ek.1]
  · rw [e]; exact hs.len
  · rw [e]; intro x; rfl
  · rw [e]; intro x; simp only; rw [(fcommit_world f s.w _).1]

theorem exec_flen {R base0 cap0 : Nat} (ops : List Op) {s : St} (h : FInv R base0 cap0 s) :
    ∀ x, ((exec s ops).w.mem.get x).length = (s.w.mem.get x).length := by
  induction ops generalizing s with
  | nil => intro x; rfl
  | cons op rest ih =>
    intro x
    show ((exec (step s op).1 rest).w.mem.get x).length = _
    rw [ih (step_finv h op), step_flen h op]

/-- the buffer of a buffered writer after ANY operation list that does not split it -/
theorem fuse_slice_run {R base0 cap0 : Nat} (ops : List Op) {s : St} (h : FInv R base0 cap0 s) (i : Nat) (f0 : FuseW)
    (hg : s.fws[i]? = some f0) (hb : f0.buffered = true) (hns : ∀ k, Op.fs i k ∉ ops) :
    ∃ ff, (exec s ops).fws[i]? = some ff ∧ ff.buffered = true
      ∧ ff = { f0 with len := f0.len + (fplacedAll s i ops).length }
      ∧ ff.slice (exec s ops).w.mem = f0.slice s.w.mem ++ fplacedAll s i ops := by
  obtain ⟨ff, hgf, hbf, hh⟩ := fuse_handle_run ops h i f0 hg hb hns
  obtain ⟨_, f2, f3, f4⟩ := h.each f0 (mem_of_getElem? hg)
  refine ⟨ff, hgf, hbf, hh.1, hh.slice ?_ (exec_flen ops h)⟩
  rw [f2]; have := h.reg; omega

end Fbr.Xport
