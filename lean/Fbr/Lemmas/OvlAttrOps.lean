/-
  chmod / truncate / open-for-write / write / setxattr / removexattr as whole operations: what the
  union shows at the target path afterwards (`ViewChanged`).
-/
import Fbr.Ovl
import Fbr.Lemmas.OvlHoare
import Fbr.Lemmas.OvlSim
import Fbr.Lemmas.OvlSimLookup
import Fbr.Lemmas.OvlSimRO
import Fbr.Lemmas.OvlEval
import Fbr.Lemmas.OvlCopyUp
import Fbr.Lemmas.OvlOps
import Fbr.Lemmas.OvlAttr

namespace Fbr.Ovl

/-! ### the changes on the level of what a client sees -/

def chmodV (mode : Nat) : VNode → VNode
  | .file _ c x => .file mode c x
  | .dir _ x => .dir mode x
  | .other _ => .other mode
  | v => v

def truncV (k : Nat) : VNode → VNode
  | .file m c x => .file m (resize c k) x
  | v => v

def openV (trunc : Bool) : VNode → VNode
  | .file m c x => .file m (if trunc then [] else c) x
  | v => v

def writeV (trunc append : Bool) (off : Nat) (data : List Nat) : VNode → VNode
  | .file m c x =>
    .file m (pwrite (if trunc then [] else c) (if append then (if trunc then [] else c).length else off) data) x
  | v => v

def setxV (v : Nat) : VNode → VNode
  | .file m c _ => .file m c v
  | .dir m _ => .dir m v
  | w => w

theorem chmodN_view (mode : Nat) (N : Node) : (chmodN mode N).view = chmodV mode N.view := by cases N <;> rfl
theorem truncN_view (k : Nat) (N : Node) : (truncN k N).view = truncV k N.view := by cases N <;> rfl
theorem openN_view (t : Bool) (N : Node) : (openN t N).view = openV t N.view := by cases N <;> rfl
theorem writeAllN_view (t a : Bool) (off : Nat) (data : List Nat) (N : Node) :
    (writeAllN t a off data N).view = writeV t a off data N.view := by cases N <;> rfl
theorem setxN_view (v : Nat) (N : Node) : (setxN v N).view = setxV v N.view := by cases N <;> rfl

/-- at `q` the union of `d'` shows `gv` of what the union of `d` showed — up to the `user.x` xattr
    of the old entry, which copy-up does not carry over (known finding `C10:copy-up:xattr-lost`) -/
def ViewChanged (d d' : Disk) (q : Path) (gv : VNode → VNode) : Prop :=
  ∃ w, w.dropX = (merge d q).dropX ∧ merge d' q = gv w

theorem viewChanged_of_changed {d : Disk} (hr : d.RootsOK) {q : Path} {st : Node} {g : Node → Node} {s' : St}
    (hsp : specStat d q = some st) (h : Changed q st g s') (gv : VNode → VNode)
    (hgv : ∀ N, (g N).view = gv N.view) : Consistent s' ∧ ViewChanged d s'.disk q gv := by
  obtain ⟨hc', N, hv, hsp'⟩ := h
  refine ⟨hc', N.view, ?_, ?_⟩
  · rw [merge_eq_specStat d hr, hsp]; exact hv
  · rw [merge_eq_specStat s'.disk hc'.roots, hsp']; exact hgv N

/-- resolve the path, then change the node there -/
theorem resolveThen_eff (d : Disk) (p : List Name) (k : Path × Node → M Reply) (g : Node → Node)
    (hk : ∀ path st, Triple (fun s => Consistent s ∧ specStat s.disk path = some st ∧ ∃ m, s.mem path = some m)
      (k (path, st)) (fun _ s => Changed path st g s) Consistent) :
    Triple (CD d) (resolve p >>= k)
      (fun _ s' => ∃ st, specStat d p.reverse = some st ∧ Changed p.reverse st g s') Consistent := by
  refine Triple.bind ((resolve_spec d p).conseq (fun _ h => h) (fun _ _ h => h) (fun _ h => h.1.1)) fun r => ?_
  obtain ⟨path, st⟩ := r
  intro s ⟨⟨hc, hd⟩, hpath, hsp, hmem⟩
  simp only at hpath hsp hmem
  have := hk path st s ⟨hc, by rw [hd]; exact hsp, hmem⟩
  refine ⟨fun a s' hf => ?_, this.2⟩
  exact ⟨st, by rw [← hpath]; exact hsp, by rw [← hpath]; exact this.1 a s' hf⟩

theorem kindGuard' {α : Type} {P : St → Prop} {Q : α → St → Prop} {E : St → Prop} (k : Kind) (e1 e2 e3 : Nat)
    (body : M α) (hb : Triple P body Q E) (hPE : ∀ s, P s → E s) :
    Triple P (match k with | .d => fail e1 | .l => fail e2 | .o => fail e3 | .f => body) Q E := by
  cases k
  · exact Triple.fail' hPE
  · exact hb
  · exact Triple.fail' hPE
  · exact Triple.fail' hPE

theorem done_after {P : St → Prop} {Q : St → Prop} {E : St → Prop} {f : M Unit}
    (h : Triple P f (fun _ => Q) E) : Triple P (do f; pure Reply.done) (fun _ => Q) E :=
  Triple.bind h fun _ => Triple.pure' fun _ h => h

theorem not_whiteout_keep {g : Node → Node} (h : ∀ N, (g N).isWhiteout = N.isWhiteout) :
    ∀ N, N.isWhiteout = false → (g N).isWhiteout = false := fun N hN => by rw [h N]; exact hN

theorem runOp_chmod_eff (d : Disk) (p : List Name) (mode : Nat) :
    Triple (CD d) (runOp (.chmod p mode))
      (fun _ s' => ∃ st, specStat d p.reverse = some st ∧ Changed p.reverse st (chmodN mode) s') Consistent := by
  unfold runOp
  refine resolveThen_eff d p _ (chmodN mode) fun path st => ?_
  refine Triple.ite' (fun _ => Triple.fail' fun _ h => h.1) fun _ => ?_
  exact done_after (doSetattr_eff path st _ (fun _ => keepShape_hChmod _ _) (fun _ => keepRoot_hChmod _ _)
    (chmodN mode) (pointEffect_hChmod path mode)
    (not_whiteout_keep fun N => by cases N <;> rfl))

theorem runOp_truncate_eff (d : Disk) (p : List Name) (k : Nat) :
    Triple (CD d) (runOp (.truncate p k))
      (fun _ s' => ∃ st, specStat d p.reverse = some st ∧ Changed p.reverse st (truncN k) s') Consistent := by
  unfold runOp
  refine resolveThen_eff d p _ (truncN k) fun path st => ?_
  refine kindGuard' _ _ _ _ _ ?_ (fun _ h => h.1)
  exact done_after (doSetattr_eff path st _ (fun _ => keepShape_hTruncate _ _) (fun _ => keepRoot_hTruncate _ _)
    (truncN k) (pointEffect_hTruncate path k)
    (not_whiteout_keep fun N => by cases N <;> rfl))

theorem runOp_setx_eff (d : Disk) (p : List Name) (v : Nat) :
    Triple (CD d) (runOp (.setx p v))
      (fun _ s' => ∃ st, specStat d p.reverse = some st ∧ Changed p.reverse st (setxN v) s') Consistent := by
  unfold runOp
  refine resolveThen_eff d p _ (setxN v) fun path st => ?_
  refine Triple.ite' (fun _ => Triple.fail' fun _ h => h.1) fun _ => ?_
  exact done_after (doXattr_eff path st _ _ (fun _ => keepShape_hSetX _ _) (fun _ => keepRoot_hSetX _ _)
    (setxN v) (pointEffect_hSetX path v)
    (not_whiteout_keep fun N => by cases N <;> rfl))

theorem runOp_rmx_eff (d : Disk) (p : List Name) :
    Triple (CD d) (runOp (.rmx p))
      (fun _ s' => ∃ st, specStat d p.reverse = some st ∧ Changed p.reverse st (setxN 0) s') Consistent := by
  unfold runOp
  refine resolveThen_eff d p _ (setxN 0) fun path st => ?_
  refine Triple.ite' (fun _ => Triple.fail' fun _ h => h.1) fun _ => ?_
  exact done_after (doXattr_eff path st _ _ (fun _ => keepShape_hRmX _) (fun _ => keepRoot_hRmX _)
    (setxN 0) (pointEffect_hRmX path)
    (not_whiteout_keep fun N => by cases N <;> rfl))

theorem runOp_write_eff (d : Disk) (p : List Name) (fl : OFlag) (off : Nat) (data : List Nat) :
    Triple (CD d) (runOp (.write p fl off data))
      (fun _ s' => ∃ st, specStat d p.reverse = some st ∧
        Changed p.reverse st (writeAllN fl.isTrunc (fl == .wa) off data) s') Consistent := by
  unfold runOp
  refine resolveThen_eff d p _ (writeAllN fl.isTrunc (fl == .wa) off data) fun path st => ?_
  refine kindGuard' _ _ _ _ _ ?_ (fun _ h => h.1)
  exact done_after (doWrite_eff path st _ _ off data)

/-- OPEN with any writing flag (O_WRONLY, O_RDWR, O_APPEND, O_TRUNC, also combined with O_RDONLY) -/
theorem runOp_openW_eff (d : Disk) (p : List Name) (fl : OFlag) (hfl : fl.isWrite = true) :
    Triple (CD d) (runOp (.open p fl))
      (fun _ s' => ∃ st, specStat d p.reverse = some st ∧ Changed p.reverse st (openN fl.isTrunc) s') Consistent := by
  unfold runOp
  refine resolveThen_eff d p _ (openN fl.isTrunc) fun path st => ?_
  refine kindGuard' _ _ _ _ _ ?_ (fun _ h => h.1)
  rw [hfl]
  refine Triple.bind (doOpenW_eff path st fl.isTrunc) fun r => ?_
  refine Triple.pure' fun s h => ?_
  obtain ⟨_, N, hN, hv, hw⟩ := h
  exact changed_of_upNode hN hv (by cases N <;> simp_all [openN, Node.isWhiteout])

end Fbr.Ovl
