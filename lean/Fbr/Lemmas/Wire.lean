/-
  Fbr.Lemmas.Wire — field extraction from concatenated little-endian encodings.
-/
import Fbr.Wire

namespace Fbr.Wire

theorem fld_append_left (x y : Bytes) (off w : Nat) (h : off + w ≤ x.length) :
    fld (x ++ y) off w = fld x off w := by
  unfold fld
  congr 1
  rw [List.drop_append_of_le_length (by omega)]
  rw [List.take_append_of_le_length (by simp; omega)]

theorem fld_append_right (x y : Bytes) (off w : Nat) (h : x.length ≤ off) :
    fld (x ++ y) off w = fld y (off - x.length) w := by
  unfold fld
  congr 2
  rw [List.drop_append]
  have : List.drop off x = [] := List.drop_eq_nil_of_le h
  simp [this]

theorem fld_le_head (n v : Nat) (rest : Bytes) : fld (le n v ++ rest) 0 n = v % 256 ^ n := by
  unfold fld
  simp only [List.drop_zero]
  exact de_append_le n v rest

theorem u32At_le32 (v : Nat) (rest : Bytes) : u32At (le32 v ++ rest) 0 = v % 2 ^ 32 := by
  have := fld_le_head 4 v rest
  simpa [u32At, le32] using this

theorem u64At_le64 (v : Nat) (rest : Bytes) : u64At (le64 v ++ rest) 0 = v % 2 ^ 64 := by
  have := fld_le_head 8 v rest
  simpa [u64At, le64] using this

theorem u16At_le16 (v : Nat) (rest : Bytes) : u16At (le16 v ++ rest) 0 = v % 2 ^ 16 := by
  have := fld_le_head 2 v rest
  simpa [u16At, le16] using this

@[simp] theorem le32_length (v : Nat) : (le32 v).length = 4 := by simp [le32]
@[simp] theorem le64_length (v : Nat) : (le64 v).length = 8 := by simp [le64]
@[simp] theorem le16_length (v : Nat) : (le16 v).length = 2 := by simp [le16]
@[simp] theorem zeros_length (n : Nat) : (zeros n).length = n := by simp [zeros]

/-- skip a prefix of known length -/
theorem u32At_skip (x y : Bytes) (off : Nat) (h : x.length ≤ off) :
    u32At (x ++ y) off = u32At y (off - x.length) := fld_append_right x y off 4 h

theorem u64At_skip (x y : Bytes) (off : Nat) (h : x.length ≤ off) :
    u64At (x ++ y) off = u64At y (off - x.length) := fld_append_right x y off 8 h

theorem u32At_lt (b : Bytes) (off : Nat) : u32At b off < 2 ^ 32 := by
  have := fld_lt b off 4
  simpa [u32At] using this

theorem u64At_lt (b : Bytes) (off : Nat) : u64At b off < 2 ^ 64 := by
  have := fld_lt b off 8
  simpa [u64At] using this

end Fbr.Wire

namespace Fbr.Wire

theorem fld_take (r : Bytes) (k off w : Nat) (h : off + w ≤ k) : fld (r.take k) off w = fld r off w := by
  unfold fld
  congr 1
  rw [List.drop_take, List.take_take]
  congr 1
  omega

theorem u32At_take (r : Bytes) (k off : Nat) (h : off + 4 ≤ k) : u32At (r.take k) off = u32At r off :=
  fld_take r k off 4 h

theorem u64At_take (r : Bytes) (k off : Nat) (h : off + 8 ≤ k) : u64At (r.take k) off = u64At r off :=
  fld_take r k off 8 h

end Fbr.Wire
