/-
  Routing lemmas about `State.handle`: which backend calls a request can cause.
-/
import Fbr.Vfs
import Fbr.Lemmas.VfsInv

namespace Fbr.Lemmas.VfsRoute
open Fbr.Vfs Fbr.Lemmas.VfsInv

/-- the one call a request delivered to backend `b` with inode `i` consists of -/
def IsCallTo (r : Req) (b : Bk) (i : Nat) (c : Call) : Prop :=
  c.bk = b.id ∧ c.method = .req r.op ∧ c.args.head? = some (.n i)

theorem callArgs_head (r : Req) (i i2 au ag : Nat) : (callArgs r i i2 au ag).head? = some (.n i) := by
  unfold callArgs
  cases r.op <;> rfl

/-- shape of every outcome of `handle'`: no call at all, or exactly one call, to the backend
    `get_real_rootfs` resolved the request inode to, with that backend's own inode number -/
theorem handle'_shape (s : State) (r : Req) (res : Res) (calls : List Call)
    (h : s.handle' r = some (res, calls)) :
    calls = [] ∨ ∃ b idx i c, s.getRealRootfs r.ino = some (.ok (.backend b idx i)) ∧ calls = [c] ∧ IsCallTo r b i c := by
  unfold State.handle' at h
  split at h
  · cases h
  · split at h
    · cases h; exact Or.inl rfl
    · split at h
      · cases h; exact Or.inl rfl
      · split at h
        · cases h
        · cases h; exact Or.inl rfl
        · rename_i t ht
          split at h
          · cases h
          · cases h; exact Or.inl rfl
          · split at h
            · -- pseudo
              rename_i idata _
              cases hp : s.pseudoReq r idata with
              | none => rw [hp] at h; cases h
              | some x =>
                rw [hp] at h
                simp only [Option.map_some, Option.some.injEq, Prod.mk.injEq] at h
                exact Or.inl h.2.symm
            · rename_i b idx i _
              dsimp only at h
              split at h
              · cases h
              · simp only [Option.some.injEq, Prod.mk.injEq] at h
                refine Or.inr ⟨b, idx, i, _, ht, h.2.symm, rfl, rfl, callArgs_head _ _ _ _ _⟩

theorem handle_shape (s : State) (r : Req) (res : Res) (calls : List Call)
    (h : s.handle r = some (res, calls)) :
    calls = [] ∨ ∃ b idx i c, s.getRealRootfs r.ino = some (.ok (.backend b idx i)) ∧ calls = [c] ∧ IsCallTo r b i c := by
  unfold State.handle at h
  cases h' : s.handle' r with
  | none => simp [h'] at h
  | some x =>
    obtain ⟨res', calls'⟩ := x
    simp [h'] at h
    rw [← h.2]
    exact handle'_shape s r res' calls' h'

/-- an inode of a non-pseudo index resolves through its slot only -/
theorem getRealRootfs_slot (s : State) (ino : Nat) (h : fsIdx ino ≠ 0) :
    s.getRealRootfs ino = match s.supers (fsIdx ino) with
      | some b => some (.ok (.backend b (fsIdx ino) (lowIno ino)))
      | none => some (.error ENOENT) := by
  unfold State.getRealRootfs
  simp only [h, if_false]
  cases s.supers (fsIdx ino) <;> rfl

end Fbr.Lemmas.VfsRoute
