/-
  Routing lemmas about `State.handle`: which backend calls a request can cause.
-/
import Fbr.Vfs
import Fbr.Lemmas.VfsInv

namespace Fbr.Lemmas.VfsRoute
open Fbr.Vfs Fbr.Lemmas.VfsInv

/-- the one call a request delivered to backend `b` with inode `i` consists of -/
def IsCallTo (r : Req) (b : Bk) (i : Nat) (c : Call) : Prop :=
  c.bk = b.id ∧ c.method = .req r.op ∧ c.args.head? = some (.n i)

theorem callArgs_head (r : Req) (i i2 au ag : Nat) : (callArgs r i i2 au ag).head? = some (.n i) := by
  unfold callArgs
  cases r.op <;> rfl

/-- shape of every outcome of `handle'`: no call at all, or exactly one call, to the backend
    `get_real_rootfs` resolved the request inode to, with that backend's own inode number -/
theorem handle'_shape (s : State) (r : Req) (res : Res) (calls : List Call)
    (h : s.handle' r = some (res, calls)) :
    calls = [] ∨ ∃ b idx i c, s.getRealRootfs r.ino = some (.ok (.backend b idx i)) ∧ calls = [c] ∧ IsCallTo r b i c := by
  unfold State.handle' at h
  split at h
  · cases h
  · split at h
    · cases h; exact Or.inl rfl
    · split at h
      · cases h; exact Or.inl rfl
      · split at h
        · cases h
        · cases h; exact Or.inl rfl
        · rename_i t ht
          split at h
          · cases h
          · cases h; exact Or.inl rfl
          · split at h
            · -- pseudo
              rename_i idata _
              cases hp : s.pseudoReq r idata with
              | none => rw [hp] at h; cases h
              | some x =>
                rw [hp] at h
                simp only [Option.map_some, Option.some.injEq, Prod.mk.injEq] at h
                exact Or.inl h.2.symm
            · rename_i b idx i _
              dsimp only at h
              split at h
              · cases h
              · simp only [Option.some.injEq, Prod.mk.injEq] at h
                refine Or.inr ⟨b, idx, i, _, ht, h.2.symm, rfl, rfl, callArgs_head _ _ _ _ _⟩

theorem handle_shape (s : State) (r : Req) (res : Res) (calls : List Call)
    (h : s.handle r = some (res, calls)) :
    calls = [] ∨ ∃ b idx i c, s.getRealRootfs r.ino = some (.ok (.backend b idx i)) ∧ calls = [c] ∧ IsCallTo r b i c := by
  unfold State.handle at h
  cases h' : s.handle' r with
  | none => simp [h'] at h
  | some x =>
    obtain ⟨res', calls'⟩ := x
    simp [h'] at h
    rw [← h.2]
    exact handle'_shape s r res' calls' h'

/-- an inode of a non-pseudo index resolves through its slot only -/
theorem getRealRootfs_slot (s : State) (ino : Nat) (h : fsIdx ino ≠ 0) :
    s.getRealRootfs ino = match s.supers (fsIdx ino) with
      | some b => some (.ok (.backend b (fsIdx ino) (lowIno ino)))
      | none => some (.error ENOENT) := by
  unfold State.getRealRootfs
  simp only [h, if_false]
  cases s.supers (fsIdx ino) <;> rfl

/-- the slot a resolved backend target lives in is occupied by that backend -/
theorem target_slot {s : State} {ino : Nat} {b : Bk} {idx i : Nat}
    (h : s.getRealRootfs ino = some (.ok (.backend b idx i))) : s.supers idx = some b := by
  unfold State.getRealRootfs at h
  repeat' split at h
  all_goals first
    | (cases h; done)
    | (simp only [Option.some.injEq, Except.ok.injEq, Target.backend.injEq] at h
       obtain ⟨h1, h2, _⟩ := h
       subst h1 h2
       assumption)

/-- `id_remap_with_nodeid` picks the slot that serves the node: the context of a request is
    translated with the mapping of the mount `get_real_rootfs` resolves its node id to -/
theorem remapIdx_of_target {s : State} {ino : Nat} {b : Bk} {idx i : Nat}
    (h : s.getRealRootfs ino = some (.ok (.backend b idx i))) : s.remapIdx ino = idx := by
  unfold State.getRealRootfs at h
  unfold State.remapIdx
  by_cases h0 : fsIdx ino = 0
  · simp only [h0, if_true] at h
    by_cases h1 : lowIno ino = ROOT_ID
    · simp only [h1, if_true] at h
      cases hm : s.mnts ROOT_ID with
      | none => simp [hm] at h
      | some m =>
        simp only [hm] at h
        cases hs : s.supers m.idx with
        | none => simp [hs] at h
        | some b' =>
          simp only [hs] at h
          split at h
          · cases h
          · simp only [Option.some.injEq, Except.ok.injEq, Target.backend.injEq] at h
            simp [h0, h1, h.2.1]
    · simp [h1] at h
  · simp only [h0, if_false] at h
    cases hs : s.supers (fsIdx ino) with
    | none => simp [hs] at h
    | some b' =>
      simp only [hs, Option.some.injEq, Except.ok.injEq, Target.backend.injEq] at h
      have hc : ¬ (fsIdx ino = 0 ∧ lowIno ino = ROOT_ID) := fun hh => h0 hh.1
      rw [if_neg hc]
      exact h.2.1

/-- pseudo targets carry index 0 -/
theorem pseudo_target_idx {s : State} {ino j : Nat}
    (h : s.getRealRootfs ino = some (.ok (.pseudo j))) : fsIdx j = 0 := by
  unfold State.getRealRootfs at h
  repeat' split at h
  all_goals first
    | (cases h; done)
    | (simp only [Option.some.injEq, Except.ok.injEq, Target.pseudo.injEq] at h
       subst h
       assumption)

/-- the full shape of a delivered request: target, context ids, setattr owner ids -/
theorem handle'_delivered (s : State) (hz : s.supers 0 = none) (r : Req) (res : Res) (c : Call)
    (h : s.handle' r = some (res, [c])) :
    ∃ b idx i, s.getRealRootfs r.ino = some (.ok (.backend b idx i)) ∧ c.bk = b.id ∧
      c.method = .req r.op ∧
      remapPair (s.effectiveMap idx) false r.uid r.gid = some (c.uid, c.gid) ∧
      res = (s.backendReply r idx i).getD .panic ∧
      (r.op = .setattr → ∃ au ag, remapPair (s.effectiveMap idx) false r.setUid r.setGid = some (au, ag) ∧
          c.args = [.n i, .n au, .n ag]) := by
  unfold State.handle' at h
  cases hr : remapPair (s.effectiveMap (s.remapIdx r.nodeid)) false r.uid r.gid with
  | none => simp [hr] at h
  | some cc =>
    obtain ⟨cu, cg⟩ := cc
    simp only [hr] at h
    split at h
    · cases h
    · split at h
      · cases h
      · cases hg : s.getRealRootfs r.ino with
        | none => simp [hg] at h
        | some et =>
          cases et with
          | error e => simp [hg] at h
          | ok t =>
            simp only [hg] at h
            cases hsec : s.second r t with
            | none => simp [hsec] at h
            | some es =>
              cases es with
              | error e => simp [hsec] at h
              | ok t2 =>
                simp only [hsec] at h
                cases t with
                | pseudo idata =>
                  simp only at h
                  cases hp : s.pseudoReq r idata with
                  | none => simp [hp] at h
                  | some x => simp [hp] at h
                | backend b idx i =>
                  simp only at h
                  have hslot := target_slot hg
                  have hidx0 : idx ≠ 0 := by intro h0; rw [h0, hz] at hslot; cases hslot
                  -- the node id of the header resolves to the same slot
                  have hnode : s.remapIdx r.nodeid = idx := by
                    unfold Req.nodeid
                    by_cases hl : r.op = .link
                    · simp only [hl, if_true]
                      unfold State.second at hsec
                      simp only [hl, or_true, if_true] at hsec
                      cases hg2 : s.getRealRootfs r.ino2 with
                      | none => simp [hg2] at hsec
                      | some et2 =>
                        cases et2 with
                        | error e => simp [hg2] at hsec
                        | ok t2' =>
                          simp only [hg2] at hsec
                          split at hsec
                          · cases hsec
                          · rename_i hne
                            have hidxeq : idx = t2'.idx := by
                              simp only [Target.idx, ne_eq, Decidable.not_not] at hne
                              exact hne
                            cases t2' with
                            | pseudo j =>
                              have := pseudo_target_idx hg2
                              simp only [Target.idx] at hidxeq
                              omega
                            | backend b2 idx2 i2 =>
                              simp only [Target.idx] at hidxeq
                              rw [remapIdx_of_target hg2, hidxeq]
                    · simp only [hl, if_false]
                      exact remapIdx_of_target hg
                  rw [hnode] at hr
                  split at h
                  · cases h
                  · rename_i au ag hattr
                    simp only [Option.some.injEq, Prod.mk.injEq, List.cons.injEq, and_true] at h
                    obtain ⟨h1, h2⟩ := h
                    subst h2
                    refine ⟨b, idx, i, rfl, rfl, rfl, hr, h1.symm, ?_⟩
                    intro hop
                    simp only [hop, if_true] at hattr
                    refine ⟨au, ag, hattr, ?_⟩
                    simp only [callArgs, hop]

/-- everything a directory listing delivers is the image of an entry that was offered -/
theorem dirFold_mem {α β : Type} (f : α → Option (Except Nat β)) (stop : Nat) :
    ∀ (l : List α) (acc : List β) (e : Option Nat) (out : List β),
      dirFold f stop l acc = some (e, out) → ∀ y ∈ out, y ∈ acc ∨ ∃ x ∈ l, f x = some (.ok y) := by
  intro l
  induction l with
  | nil =>
    intro acc e out h y hy
    simp only [dirFold, Option.some.injEq, Prod.mk.injEq] at h
    rw [← h.2] at hy
    exact Or.inl (by simpa using hy)
  | cons x rest ih =>
    intro acc e out h y hy
    unfold dirFold at h
    cases hf : f x with
    | none => simp [hf] at h
    | some r =>
      cases r with
      | error n =>
        simp only [hf, Option.some.injEq, Prod.mk.injEq] at h
        rw [← h.2] at hy
        exact Or.inl (by simpa using hy)
      | ok v =>
        simp only [hf] at h
        split at h
        · simp only [Option.some.injEq, Prod.mk.injEq] at h
          rw [← h.2] at hy
          exact Or.inl (by simpa using hy)
        · rcases ih (v :: acc) e out h y hy with h1 | ⟨x', hx', hfx'⟩
          · rcases List.mem_cons.mp h1 with h2 | h2
            · subst h2
              exact Or.inr ⟨x, by simp, hf⟩
            · exact Or.inl h2
          · exact Or.inr ⟨x', by simp [hx'], hfx'⟩

end Fbr.Lemmas.VfsRoute
