/-
  `Fbr.Conc`: the ghost `incs f` is the number of completed lookups of `f` recorded in the threads'
  result lists (for any finite set of running threads).
-/
import Fbr.Lemmas.ConcStep

namespace Fbr.Conc

/-- completed lookups of `f` recorded by thread `t` -/
def done1 (s : Sys) (f : HostId) (t : Tid) : Nat :=
  ((s.threads t).results.filter (fun r => r.1 = f)).length

/-- completed lookups of `f` recorded by threads `0 … n-1` -/
def doneCount (s : Sys) (n : Nat) (f : HostId) : Nat := ((List.range n).map (done1 s f)).sum

theorem sum_map_congr {l : List Nat} {g g' : Nat → Nat} (h : ∀ x ∈ l, g' x = g x) :
    (l.map g').sum = (l.map g).sum := by
  induction l with
  | nil => rfl
  | cons a r ih =>
    simp only [List.map_cons, List.sum_cons]
    rw [h a (by simp), ih (fun x hx => h x (by simp [hx]))]

/-- changing one summand of `Σ_{x<n} g x` -/
theorem sum_range_update (n : Nat) (g g' : Nat → Nat) (t : Nat) (ht : t < n) (k : Nat)
    (hsame : ∀ x, x ≠ t → g' x = g x) (hat : g' t = g t + k) :
    ((List.range n).map g').sum = ((List.range n).map g).sum + k := by
  induction n with
  | zero => omega
  | succ m ih =>
    rw [List.range_succ, List.map_append, List.map_append, List.sum_append, List.sum_append]
    simp only [List.map_cons, List.map_nil, List.sum_cons, List.sum_nil, Nat.add_zero]
    by_cases e : t = m
    · subst e
      have : ((List.range t).map g').sum = ((List.range t).map g).sum :=
        sum_map_congr (fun x hx => hsame x (by have := List.mem_range.mp hx; omega))
      rw [this, hat]; omega
    · have := ih (by omega)
      rw [this, hsame m (fun x => e x.symm)]; omega

/-- the result (if any) with which the step of thread `t` makes its request return -/
def stepRes (c : Cfg) (s : Sys) (t : Tid) : Option (HostId × Ino) :=
  if !enabled s t then none
  else
    match (s.threads t).pc with
    | .L2 f o curr => if s.store.cells o = curr then some (f, s.store.objIno o) else none
    | .L3 f =>
      match probe s.store f with
      | some o => some (f, s.store.objIno o)
      | none => some (f, (allocate c s.store f).2)
    | _ => none

theorem finish_incs (s : Sys) (t : Tid) (res : Option (HostId × Ino)) :
    (finish s t res).incs = bump s.incs res := rfl

theorem finish_results (s : Sys) (t : Tid) (res : Option (HostId × Ino)) (t' : Tid) :
    ((finish s t res).threads t').results
      = if t' = t then (pushRes (s.threads t) res).results else (s.threads t').results := by
  simp only [finish, upd_apply]
  split
  · exact (advance_plain _).2.2.2
  · rfl

theorem setPc_results (s : Sys) (t : Tid) (pc : PC) (t' : Tid) :
    ((setPc s t pc).threads t').results = (s.threads t').results := by
  rw [setPc_threads]; split
  · rename_i e; subst e; rfl
  · rfl

/-- every step changes the ghost and the result lists together -/
theorem step_counts (c : Cfg) (s : Sys) (t : Tid) :
    (step c s t).incs = bump s.incs (stepRes c s t)
    ∧ ∀ t', ((step c s t).threads t').results
        = if t' = t then (pushRes (s.threads t) (stepRes c s t)).results else (s.threads t').results := by
  unfold step stepRes
  by_cases hen : enabled s t = true
  case neg =>
    have : enabled s t = false := by simpa using hen
    simp only [this, Bool.not_false, if_true]
    exact ⟨rfl, fun t' => by split <;> simp_all [pushRes]⟩
  simp only [hen, Bool.not_true, Bool.false_eq_true, if_false]
  have plain : ∀ pc', (setPc s t pc').incs = bump s.incs none
      ∧ ∀ t', ((setPc s t pc').threads t').results
        = if t' = t then (pushRes (s.threads t) none).results else (s.threads t').results := by
    intro pc'
    refine ⟨rfl, fun t' => ?_⟩
    rw [setPc_results]; split
    · rename_i e; subst e; rfl
    · rfl
  have fin : ∀ (s1 : Sys) res, s1.incs = s.incs → s1.threads = s.threads →
      (finish s1 t res).incs = bump s.incs res
      ∧ ∀ t', ((finish s1 t res).threads t').results
        = if t' = t then (pushRes (s.threads t) res).results else (s.threads t').results := by
    intro s1 res hi ht
    refine ⟨by rw [finish_incs, hi], fun t' => ?_⟩
    rw [finish_results, ht]
  have lockpc : ∀ (pc' : PC), ({ s with lock := Lock.w t } : Sys).incs = s.incs := fun _ => rfl
  cases hpc : (s.threads t).pc with
  | done => exact ⟨rfl, fun t' => by split <;> simp_all [pushRes]⟩
  | LS f => exact plain _
  | L0 f => simp only; split <;> exact plain _
  | L1 f o => simp only; split <;> exact plain _
  | L2 f o curr =>
    simp only
    split
    · exact fin _ _ rfl rfl
    · exact plain _
  | L3 f =>
    simp only
    cases hp : probe s.store f with
    | some o => exact fin _ _ rfl rfl
    | none =>
      cases hA : allocate c s.store f with
      | mk st' ino => exact fin _ _ rfl rfl
  | F0 ino n =>
    simp only
    refine ⟨rfl, fun t' => ?_⟩
    rw [setPc_threads]; split
    · rename_i e; subst e; rfl
    · rfl
  | F0f f n =>
    simp only
    refine ⟨rfl, fun t' => ?_⟩
    rw [setPc_threads]; split
    · rename_i e; subst e; rfl
    · rfl
  | F1 ino n =>
    simp only
    split
    · exact fin _ none rfl rfl
    · split
      · exact fin _ none rfl rfl
      · exact plain _
  | F2 ino n o curr =>
    simp only
    split
    · split
      · refine ⟨rfl, fun t' => ?_⟩
        rw [setPc_threads]; split
        · rename_i e; subst e; rfl
        · rfl
      · exact fin _ none rfl rfl
    · exact plain _
  | F3 ino n o => exact fin _ none rfl rfl

theorem finish_other (s : Sys) (t : Tid) (res : Option (HostId × Ino)) {t' : Tid} (h : t' ≠ t) :
    (finish s t res).threads t' = s.threads t' := by
  simp [finish, h]

theorem setPc_other (s : Sys) (t : Tid) (pc : PC) {t' : Tid} (h : t' ≠ t) :
    (setPc s t pc).threads t' = s.threads t' := by
  rw [setPc_threads]; simp [h]

/-- a step of thread `t` leaves every other thread alone -/
theorem step_other (c : Cfg) (s : Sys) (t : Tid) {t' : Tid} (h : t' ≠ t) :
    (step c s t).threads t' = s.threads t' := by
  unfold step
  split
  · rfl
  · simp only
    split
    · rfl
    · exact setPc_other _ _ _ h
    · split <;> exact setPc_other _ _ _ h
    · split <;> exact setPc_other _ _ _ h
    · split
      · exact finish_other _ _ _ h
      · exact setPc_other _ _ _ h
    · split
      · exact finish_other _ _ _ h
      · exact finish_other _ _ _ h
    · exact setPc_other _ _ _ h
    · exact setPc_other _ _ _ h
    · split
      · exact finish_other _ _ _ h
      · split
        · exact finish_other _ _ _ h
        · exact setPc_other _ _ _ h
    · split
      · split
        · exact setPc_other _ _ _ h
        · exact finish_other _ _ _ h
      · exact setPc_other _ _ _ h
    · exact finish_other _ _ _ h

/-- how many lookups of `f` a result adds -/
def resIs (f : HostId) : Option (HostId × Ino) → Nat
  | some (g, _) => if g = f then 1 else 0
  | none => 0

theorem bump_apply (incs : HostId → Nat) (r : Option (HostId × Ino)) (f : HostId) :
    bump incs r f = incs f + resIs f r := by
  cases r with
  | none => rfl
  | some p =>
    obtain ⟨g, i⟩ := p
    simp only [bump, upd_apply, resIs]
    by_cases e : f = g
    · subst e; simp
    · have : ¬ g = f := fun x => e x.symm
      simp [e, this]

theorem pushRes_count (th : Thread) (r : Option (HostId × Ino)) (f : HostId) :
    ((pushRes th r).results.filter (fun x => x.1 = f)).length
      = (th.results.filter (fun x => x.1 = f)).length + resIs f r := by
  cases r with
  | none => rfl
  | some p =>
    obtain ⟨g, i⟩ := p
    simp only [pushRes, resIs, List.filter_cons]
    by_cases e : g = f <;> simp [e]

/-- the invariant tying the ghost to the result lists of the threads `0 … n-1` -/
structure CInv (s : Sys) (n : Nat) : Prop where
  cnt : ∀ f, s.incs f = doneCount s n f
  idle : ∀ t, n ≤ t → (s.threads t).pc = .done

theorem cinv_step (c : Cfg) {s : Sys} {n : Nat} (h : CInv s n) (t : Tid) : CInv (step c s t) n := by
  by_cases ht : t < n
  · obtain ⟨hi, hr⟩ := step_counts c s t
    constructor
    · intro f
      rw [hi, bump_apply, h.cnt f]
      unfold doneCount
      symm
      apply sum_range_update n (done1 s f) (done1 (step c s t) f) t ht
      · intro x hx
        unfold done1
        rw [hr x]; simp [hx]
      · unfold done1
        rw [hr t]; simp only [if_true]
        exact pushRes_count _ _ f
    · intro t' ht'
      have hne : t' ≠ t := by intro e; subst e; exact absurd ht (Nat.not_lt.mpr ht')
      rw [step_other c s t hne]
      exact h.idle t' ht'
  · have hd := h.idle t (Nat.le_of_not_lt ht)
    have : step c s t = s := by
      unfold step
      have : enabled s t = false := by unfold enabled; rw [hd]
      simp [this]
    rw [this]; exact h

theorem cinv_init (progs : Tid → List Op) (n : Nat) (hn : ∀ t, n ≤ t → progs t = []) :
    CInv (Sys.init progs) n := by
  constructor
  · intro f
    show 0 = doneCount (Sys.init progs) n f
    unfold doneCount
    have : ∀ x ∈ List.range n, done1 (Sys.init progs) f x = (fun _ => 0) x := by
      intro x _
      unfold done1
      have := (advance_plain { pc := .done, prog := progs x, results := [] }).2.2.2
      simp only [Sys.init]
      rw [this]; rfl
    rw [sum_map_congr this]
    generalize List.range n = l
    induction l with
    | nil => rfl
    | cons a r ih => simp only [List.map_cons, List.sum_cons, Nat.zero_add]; exact ih
  · intro t ht
    simp [Sys.init, advance, hn t ht]

theorem cinv_run (c : Cfg) {s : Sys} {n : Nat} (h : CInv s n) (sched : List Tid) : CInv (run c s sched) n := by
  induction sched generalizing s with
  | nil => exact h
  | cons t r ih => exact ih (cinv_step c h t)

end Fbr.Conc
