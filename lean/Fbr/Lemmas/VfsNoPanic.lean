/-
  No modelled panic site is reachable: on a well-formed state whose id mappings satisfy the
  no-overflow guard, requests, mounts and umounts never produce the outcome `panic`.
-/
import Fbr.Vfs
import Fbr.Persist
import Fbr.Lemmas.VfsInv
import Fbr.Lemmas.VfsMap
import Fbr.Lemmas.VfsPseudo
import Fbr.Lemmas.VfsRoute
import Fbr.Lemmas.VfsPersist
import Fbr.Lemmas.VfsAlloc

namespace Fbr.Lemmas.VfsNoPanic
open Fbr.Vfs Fbr.Persist Fbr.Lemmas.VfsInv Fbr.Lemmas.VfsMap Fbr.Lemmas.VfsPseudo Fbr.Lemmas.VfsRoute Fbr.Lemmas.VfsPersist Fbr.Lemmas.VfsAlloc

/-- every configured mapping satisfies `base + range ≤ 2^32` on both sides -/
def MapsGuarded (s : State) : Prop := (∀ i m, s.mountMaps i = some m → MapOk m) ∧ OptMapOk s.globalMap

theorem effectiveMap_ok {s : State} (h : MapsGuarded s) (i : Nat) : OptMapOk (s.effectiveMap i) := by
  unfold State.effectiveMap
  cases hm : s.mountMaps i with
  | none => exact h.2
  | some m => exact h.1 i m hm

/-- ids inside an answer are `u32` -/
def AnsOk : Ans → Prop
  | .ent _ u g => u < U32 ∧ g < U32
  | .plus l => ∀ d ∈ l, d.2.2.1 < U32 ∧ d.2.2.2.1 < U32
  | _ => True

theorem dirFold_some {α β : Type} (f : α → Option (Except Nat β)) (stop : Nat) :
    ∀ (l : List α) (acc : List β), (∀ x ∈ l, f x ≠ none) → ∃ r, dirFold f stop l acc = some r := by
  intro l
  induction l with
  | nil => intro acc _; exact ⟨_, rfl⟩
  | cons x rest ih =>
    intro acc h
    unfold dirFold
    cases hf : f x with
    | none => exact absurd hf (h x (by simp))
    | some r =>
      cases r with
      | error e => exact ⟨_, rfl⟩
      | ok y =>
        simp only
        split
        · exact ⟨_, rfl⟩
        · exact ih (y :: acc) (fun z hz => h z (by simp [hz]))

theorem convertEntry_some {s : State} (hg : MapsGuarded s) (idx ino : Nat) (e : Ent) (hu : e.uid < U32) (hgd : e.gid < U32) :
    ∃ r, s.convertEntry idx ino e = some r := by
  unfold State.convertEntry
  cases convertInode idx ino with
  | error n => exact ⟨_, rfl⟩
  | ok v =>
    obtain ⟨u', g', hr, _, _⟩ := remapPair_total (toExt := true) (effectiveMap_ok hg idx) hu hgd
    simp only [hr]
    exact ⟨_, rfl⟩

theorem u32_pos : 0 < U32 := by unfold U32; decide

theorem map_some_of_some {α : Type} (g : α → Res) (o : Option α) (hg : ∀ y, g y ≠ .panic) (h : ∃ y, o = some y) :
    ∃ x, Option.map g o = some x ∧ x ≠ .panic := by
  obtain ⟨y, rfl⟩ := h; exact ⟨_, rfl, hg y⟩

theorem pseudoReq_some {s : State} (hg : MapsGuarded s) (r : Req) (idata : Nat) :
    ∃ x, s.pseudoReq r idata = some x ∧ x ≠ .panic := by
  unfold State.pseudoReq
  cases hop : r.op <;> simp only
  case lookup =>
    unfold State.lookupPseudo
    cases s.pseudo.lookup (lowIno idata) r.name with
    | error e => exact ⟨_, rfl, by simp⟩
    | ok ino =>
      simp only
      cases s.mnts ino with
      | some m => exact ⟨_, rfl, by simp⟩
      | none =>
        simp only
        obtain ⟨x, hx⟩ := convertEntry_some hg (fsIdx idata) ino (pseudoEnt ino) u32_pos u32_pos
        rw [hx]
        cases x <;> exact ⟨_, rfl, by simp⟩
  case getattr =>
    cases s.pseudo.find (lowIno idata) <;> exact ⟨_, rfl, by simp⟩
  case readdir =>
    cases s.pseudo.dirList (lowIno idata) r.size r.off with
    | error e => exact ⟨_, rfl, by simp⟩
    | ok l =>
      simp only
      apply map_some_of_some _ _ (by intro y; simp)
      apply dirFold_some
      intro x _; simp
  case readdirplus =>
    cases s.pseudo.dirList (lowIno idata) r.size r.off with
    | error e => exact ⟨_, rfl, by simp⟩
    | ok l =>
      simp only
      apply map_some_of_some _ _ (by intro y; simp)
      apply dirFold_some
      intro x _; simp
  all_goals exact ⟨_, rfl, by simp⟩

theorem backendReply_some {s : State} (hg : MapsGuarded s) (r : Req) (idx i : Nat) (hans : AnsOk r.ans) :
    ∃ x, s.backendReply r idx i = some x ∧ x ≠ .panic := by
  unfold State.backendReply
  cases ha : r.ans with
  | err e => refine ⟨_, rfl, ?_⟩; split <;> simp
  | ent ino u g =>
    rw [ha] at hans
    obtain ⟨hu, hgd⟩ := hans
    cases hop : r.op <;> simp only <;> first
      | exact ⟨_, rfl, by simp⟩
      | (obtain ⟨x, hx⟩ := convertEntry_some hg idx ino { inode := ino, stIno := ino, uid := u, gid := g } hu hgd
         rw [hx]
         cases x <;> exact ⟨_, rfl, by simp⟩)
      | (obtain ⟨u', g', hr, _, _⟩ := remapPair_total (toExt := true) (effectiveMap_ok hg idx) hu hgd
         rw [hr]
         exact ⟨_, rfl, by simp⟩)
  | num n => cases hop : r.op <;> exact ⟨_, rfl, by simp⟩
  | unit => cases hop : r.op <;> exact ⟨_, rfl, by simp⟩
  | dirs l =>
    cases hop : r.op <;> simp only <;> first
      | exact ⟨_, rfl, by simp⟩
      | (apply map_some_of_some _ _ (by intro y; simp)
         apply dirFold_some
         intro x _; simp)
  | plus l =>
    rw [ha] at hans
    cases hop : r.op <;> simp only <;> first
      | exact ⟨_, rfl, by simp⟩
      | (apply map_some_of_some _ _ (by intro y; simp)
         apply dirFold_some
         intro x hx
         have hxl : x.2 ∈ l := (List.of_mem_zip hx).2
         obtain ⟨hu, hgd⟩ := hans x.2 hxl
         cases convertInode idx x.2.2.1 with
         | error e => simp
         | ok v =>
           obtain ⟨u', g', hr, _, _⟩ := remapPair_total (toExt := true) (effectiveMap_ok hg idx) hu hgd
           simp [hr])

/-- `get_real_rootfs` cannot hit the `VfsInode::new` assertion under the invariant -/
theorem getRealRootfs_some {s : State} (hinv : Inv s) (ino : Nat) : ∃ x, s.getRealRootfs ino = some x := by
  unfold State.getRealRootfs
  repeat' split
  all_goals first
    | exact ⟨_, rfl⟩
    | (exfalso
       rename_i hm _ _ _ hgt
       have := hinv.inoOk _ _ hm
       omega)
    | (exfalso
       rename_i hm _ _ hgt
       have := hinv.inoOk _ _ hm
       omega)

/-- a request never panics: neither the id arithmetic (mappings satisfy the guard, ids are `u32`)
    nor `VfsInode::new` (invariant) -/
theorem handle_no_panic {s : State} (hinv : Inv s) (hg : MapsGuarded s) (r : Req)
    (hids : r.uid < U32 ∧ r.gid < U32 ∧ r.setUid < U32 ∧ r.setGid < U32) (hans : AnsOk r.ans) :
    ∃ res calls, s.handle r = some (res, calls) ∧ res ≠ .panic := by
  obtain ⟨hu, hgd, hsu, hsg⟩ := hids
  have hdir : ∀ op res, res ≠ Res.panic → dirErr op res ≠ Res.panic := by
    intro op res h
    unfold dirErr
    split <;> simp_all
  suffices h : ∃ res calls, s.handle' r = some (res, calls) ∧ res ≠ .panic by
    obtain ⟨res, calls, h1, h2⟩ := h
    exact ⟨dirErr r.op res, calls, by unfold State.handle; rw [h1]; rfl, hdir _ _ h2⟩
  unfold State.handle'
  obtain ⟨cu, cg, hr, _, _⟩ := remapPair_total (toExt := false) (effectiveMap_ok hg (s.remapIdx r.nodeid)) hu hgd
  simp only [hr]
  split
  · exact ⟨_, _, rfl, by simp⟩
  · split
    · exact ⟨_, _, rfl, by simp⟩
    · obtain ⟨et, het⟩ := getRealRootfs_some hinv r.ino
      rw [het]
      cases et with
      | error e =>
        simp only
        refine ⟨_, _, rfl, ?_⟩
        split <;> simp
      | ok t =>
        simp only
        have hsec : ∃ x, s.second r t = some x := by
          unfold State.second
          split
          · obtain ⟨et2, het2⟩ := getRealRootfs_some hinv r.ino2
            rw [het2]
            cases et2 with
            | error e => exact ⟨_, rfl⟩
            | ok t2 => simp only; split <;> exact ⟨_, rfl⟩
          · exact ⟨_, rfl⟩
        obtain ⟨es, hes⟩ := hsec
        rw [hes]
        cases es with
        | error e => exact ⟨_, _, rfl, by simp⟩
        | ok t2 =>
          simp only
          cases t with
          | pseudo idata =>
            simp only
            obtain ⟨x, hx, hxp⟩ := pseudoReq_some hg r idata
            rw [hx]
            exact ⟨x, [], rfl, hxp⟩
          | backend b idx i =>
            simp only
            have hattr : ∃ au ag, (if r.op = .setattr then remapPair (s.effectiveMap idx) false r.setUid r.setGid else some (0, 0)) = some (au, ag) := by
              split
              · obtain ⟨u', g', hr', _, _⟩ := remapPair_total (toExt := false) (effectiveMap_ok hg idx) hsu hsg
                exact ⟨u', g', hr'⟩
              · exact ⟨0, 0, rfl⟩
            obtain ⟨au, ag, hattr⟩ := hattr
            rw [hattr]
            simp only
            obtain ⟨x, hx, hxp⟩ := backendReply_some hg r idx i hans
            refine ⟨_, _, rfl, ?_⟩
            rw [hx]
            exact hxp

/-- what a history step must satisfy for the no-panic theorem: ids are `u32`, mappings satisfy the
    guard; save/restore steps are the subject of C19 -/
def OpOk : Op → Prop
  | .mount b _ map => b.rootUid < U32 ∧ b.rootGid < U32 ∧ OptMapOk map
  | .req r => (r.uid < U32 ∧ r.gid < U32 ∧ r.setUid < U32 ∧ r.setGid < U32) ∧ AnsOk r.ans
  | .saveRestore _ => False
  | _ => True

theorem insertMountLocked_some {s : State} (hwf : WF s.pseudo) (hg : MapsGuarded s) (b : Bk) (idx : Nat) (path : Name)
    (hu : b.rootUid < U32) (hgd : b.rootGid < U32) : ∃ x, s.insertMountLocked b idx path = some x := by
  unfold State.insertMountLocked
  cases hc : components path with
  | none => exact ⟨_, rfl⟩
  | some comps =>
    simp only
    obtain ⟨p', ino, hw, _, _⟩ := mountWalk_wf comps s.pseudo 1 hwf (root_mem hwf)
    rw [hw]
    simp only
    have hg' : MapsGuarded { s with pseudo := p' } := hg
    obtain ⟨x, hx⟩ := convertEntry_some hg' idx b.rootIno b.rootEnt hu hgd
    rw [hx]
    cases x <;> exact ⟨_, rfl⟩

theorem mapsGuarded_setMap {s : State} (hg : MapsGuarded s) (next idx : Nat) (map : Option Map) (hm : OptMapOk map) :
    MapsGuarded { s with nextSuper := next, mountMaps := upd s.mountMaps idx map } := by
  refine ⟨?_, hg.2⟩
  intro i m hi
  simp only [upd] at hi
  split at hi
  · subst hi; exact hm
  · exact hg.1 i m hi

/-- a `mount` reports `panic` only when `insert_mount_locked` did -/
theorem mount_panic_only_from_insert (s : State) (b : Bk) (path : Name) (map : Option Map)
    (h : (s.mount b path map).2.1 = .panic) :
    ∃ next idx, State.insertMountLocked { s with nextSuper := next, mountMaps := upd s.mountMaps idx map } b idx path = none := by
  obtain ⟨next, r, hal⟩ := allocate_eq s
  unfold State.mount at h
  simp only [hal] at h
  repeat' split at h
  all_goals first
    | (simp at h; done)
    | (rename_i heq _ _ _
       simp only [Prod.mk.injEq] at heq
       obtain ⟨h1, h2⟩ := heq
       subst h1
       exact ⟨next, _, by assumption⟩)
    | (rename_i heq _ _
       simp only [Prod.mk.injEq] at heq
       obtain ⟨h1, h2⟩ := heq
       subst h1
       exact ⟨next, _, by assumption⟩)

theorem mount_guarded_no_panic {s : State} (hinv : Inv s) (hp : PInv s) (hg : MapsGuarded s) (b : Bk) (path : Name) (map : Option Map)
    (hok : OpOk (.mount b path map)) :
    MapsGuarded (s.mount b path map).1 ∧ (s.mount b path map).2.1 ≠ .panic := by
  obtain ⟨hu, hgd, hm⟩ := hok
  refine ⟨?_, ?_⟩
  · rcases mount_cases s hinv.next b path map with ⟨h1, _⟩ | ⟨next, _, h1, _⟩ | ⟨next, idx, hn, hne, hlt, hvac, ⟨h1, _⟩ | ⟨s3, r, hins, h1, _⟩⟩
    · rw [h1]; exact hg
    · rw [h1]; exact hg
    · rw [h1]; exact mapsGuarded_setMap hg next idx map hm
    · rw [h1]
      have hg2 := mapsGuarded_setMap hg next idx map hm
      obtain ⟨_, hmm, _, _, hgm, _⟩ := insertMountLocked_frame (s := { s with nextSuper := next, mountMaps := upd s.mountMaps idx map }) hp.wf hins
      exact ⟨by rw [hmm]; exact hg2.1, by rw [hgm]; exact hg2.2⟩
  · intro hpanic
    obtain ⟨next, idx, hnone⟩ := mount_panic_only_from_insert s b path map hpanic
    have hg2 := mapsGuarded_setMap hg next idx map hm
    obtain ⟨x, hx⟩ := insertMountLocked_some (s := { s with nextSuper := next, mountMaps := upd s.mountMaps idx map }) hp.wf hg2 b idx path hu hgd
    rw [hnone] at hx
    cases hx

theorem umount_no_panic {s : State} (hp : PInv s) (path : Name) : (s.umount path).2.1 ≠ .panic := by
  unfold State.umount
  cases hc : components path with
  | none => simp
  | some comps =>
    simp only
    obtain ⟨r, hr, _⟩ := pathWalk_total comps s.pseudo 1 hp.wf (root_mem hp.wf)
    rw [hr]
    cases r with
    | none => simp
    | some inode =>
      simp only [hp.norm]
      repeat' split
      all_goals simp_all

theorem umount_guarded {s : State} (hg : MapsGuarded s) (path : Name) : MapsGuarded (s.umount path).1 := by
  rcases umount_cases s path with h1 | ⟨inode, m0, pseudo, _, _, h1⟩
  · rw [h1]; exact hg
  · rw [h1]
    refine ⟨?_, hg.2⟩
    intro i m hi
    simp only [upd] at hi
    split at hi
    · cases hi
    · exact hg.1 i m hi

theorem init_guarded {s : State} (hg : MapsGuarded s) (opts : Nat) : MapsGuarded (s.init opts).1 ∧ (s.init opts).2.1 ≠ .panic := by
  unfold State.init
  split
  · exact ⟨hg, by simp⟩
  · simp only
    split
    · exact ⟨hg, by simp⟩
    · exact ⟨hg, by simp⟩

theorem destroy_guarded {s : State} (hg : MapsGuarded s) : MapsGuarded (s.destroy).1 ∧ (s.destroy).2.1 ≠ .panic := by
  unfold State.destroy
  split
  · exact ⟨hg, by simp⟩
  · exact ⟨hg, by simp⟩

end Fbr.Lemmas.VfsNoPanic
