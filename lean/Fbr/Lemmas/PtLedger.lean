/-
  C15: the descriptor ledger.  `LInv s t m`: the process holds exactly 2 descriptors of its own
  (/proc/self/fd, mountinfo), one per inode kept by descriptor, one for the mount fd while any
  reference to it exists, one per handle, plus `t` temporaries of the request in progress; the
  mount fd's reference count is the number of inodes kept by handle plus `m` temporaries.
-/
import Fbr.PtRefs
import Fbr.Lemmas.PtMap
import Fbr.Lemmas.PtProj
import Fbr.Lemmas.PtCount
import Fbr.Lemmas.PtEffect

namespace Fbr.PtRefs

def nFile (s : St) : Nat := cnt (fun d : IData => d.fh.isNone) s.data
def nHand (s : St) : Nat := cnt (fun d : IData => d.fh.isSome) s.data
def mfd (s : St) : Nat := if s.mountRefs > 0 then 1 else 0

structure LInv (s : St) (t m : Nat) : Prop where
  nd : KeysNodup s.data
  nh : KeysNodup s.handles
  fds : s.fds = 2 + nFile s + mfd s + s.handles.length + t
  mr : s.mountRefs = nHand s + m
  /-- handles are numbered below `next_handle` -/
  hk : ∀ h i, mget s.handles h = some i → h < s.nextHandle
  /-- a directory-position record exists only for a live handle -/
  ck : ∀ h, h ∈ s.cookies → (mget s.handles h).isSome = true

/-- states that agree on everything the ledger invariant reads -/
structure LEq (s s' : St) : Prop where
  data : s'.data = s.data
  handles : s'.handles = s.handles
  fds : s'.fds = s.fds
  mr : s'.mountRefs = s.mountRefs
  cookies : s'.cookies = s.cookies
  nextHandle : s'.nextHandle = s.nextHandle

theorem LInv.of_eq {s s' : St} {t m : Nat} (h : LInv s t m) (e : LEq s s') : LInv s' t m := by
  constructor
  · rw [e.data]; exact h.nd
  · rw [e.handles]; exact h.nh
  · unfold nFile mfd; rw [e.fds, e.data, e.mr, e.handles]; exact h.fds
  · unfold nHand; rw [e.mr, e.data]; exact h.mr
  · rw [e.handles, e.nextHandle]; exact h.hk
  · rw [e.handles, e.cookies]; exact h.ck

theorem allocFd_ok {e : Env} {s s' : St} {t m : Nat} (h : LInv s t m) (ha : allocFd e s = (s', true)) :
    LInv s' (t + 1) m := by
  unfold allocFd at ha
  split at ha
  · cases ha
  · have := (Prod.mk.inj ha).1; subst this
    exact ⟨h.nd, h.nh, by have := h.fds; simp only [nFile, mfd] at this ⊢; omega, h.mr, h.hk, h.ck⟩

theorem allocFd_fail {e : Env} {s s' : St} {t m : Nat} (h : LInv s t m) (ha : allocFd e s = (s', false)) :
    LInv s' t m := by
  unfold allocFd at ha
  split at ha
  · have := (Prod.mk.inj ha).1; subst this
    exact ⟨h.nd, h.nh, h.fds, h.mr, h.hk, h.ck⟩
  · cases ha

theorem freeFd_linv {s : St} {t m : Nat} (h : LInv s (t + 1) m) : LInv (freeFd s) t m := by
  have h1 : nFile (freeFd s) = nFile s := rfl
  have h2 : mfd (freeFd s) = mfd s := rfl
  have h3 : (freeFd s).handles = s.handles := rfl
  have h4 : (freeFd s).fds = s.fds - 1 := rfl
  refine ⟨h.nd, h.nh, ?_, h.mr, h.hk, h.ck⟩
  rw [h1, h2, h3, h4]; have := h.fds; omega

theorem closeTemp_linv {s : St} {t m : Nat} (b : Bool) (h : LInv s (t + (if b then 1 else 0)) m) :
    LInv (closeTemp s b) t m := by
  unfold closeTemp
  cases b
  · simpa using h
  · simp only [if_true] at h ⊢; exact freeFd_linv h

theorem getFile_linv {e : Env} {s s' : St} {t m : Nat} (d : IData) (st : Bool) (h : LInv s t m)
    (hg : getFile e s d st = (s', none)) : LInv s' (t + (if d.fh.isSome then 1 else 0)) m := by
  unfold getFile at hg
  split at hg
  · rename_i hf
    split at hg
    · cases hg
    · split at hg
      · cases hg
      · rename_i s1 heq
        have := (Prod.mk.inj hg).1; subst this
        simp only [hf, if_true]
        exact allocFd_ok h heq
  · rename_i hf
    have := (Prod.mk.inj hg).1; subst this
    simpa [hf] using h

theorem getFile_err {e : Env} {s s' : St} {t m : Nat} (d : IData) (st : Bool) (h : LInv s t m) {er : Errno}
    (hg : getFile e s d st = (s', some er)) : LInv s' t m := by
  unfold getFile at hg
  split at hg
  · split at hg
    · have := (Prod.mk.inj hg).1; subst this; exact h
    · split at hg
      · rename_i s1 heq
        have := (Prod.mk.inj hg).1; subst this
        exact allocFd_fail h heq
      · cases hg
  · cases hg

/-- `MountFds::get` succeeded: one more reference on the mount fd -/
theorem mountGet_ok {e : Env} {s s' : St} {t m : Nat} (h : LInv s t m) (hg : mountGet e s = (s', none)) :
    LInv s' t (m + 1) := by
  unfold mountGet at hg
  split at hg
  · rename_i hpos
    have := (Prod.mk.inj hg).1; subst this
    refine ⟨h.nd, h.nh, ?_, ?_, h.hk, h.ck⟩
    · have := h.fds; simp only [nFile, mfd] at this ⊢
      have hp : s.mountRefs + 1 > 0 := by omega
      simp only [hpos, hp, if_true] at this ⊢; exact this
    · have := h.mr; simp only [nHand] at this ⊢; omega
  · rename_i hz
    split at hg
    · cases hg
    · rename_i s1 heq1
      split at hg
      · cases hg
      · rename_i s2 heq2
        have := (Prod.mk.inj hg).1; subst this
        have l1 := allocFd_ok h heq1
        have l2 := allocFd_ok l1 heq2
        have hz0 : s.mountRefs = 0 := by omega
        have hm0 : nHand s = 0 ∧ m = 0 := by have := h.mr; omega
        have e1 : s1.mountRefs = s.mountRefs := by
          unfold allocFd at heq1; split at heq1
          · cases heq1
          · have := (Prod.mk.inj heq1).1; subst this; rfl
        have e2 : s2.mountRefs = s1.mountRefs := by
          unfold allocFd at heq2; split at heq2
          · cases heq2
          · have := (Prod.mk.inj heq2).1; subst this; rfl
        have d1 : s1.data = s.data := data_of_tables (by have := tables_allocFd e s; rw [heq1] at this; exact this)
        have d2 : s2.data = s1.data := data_of_tables (by have := tables_allocFd e s1; rw [heq2] at this; exact this)
        refine ⟨by show KeysNodup s2.data; exact l2.nd, by show KeysNodup s2.handles; exact l2.nh, ?_, ?_,
          l2.hk, l2.ck⟩
        · have := l2.fds
          simp only [nFile, mfd, freeFd, e2, e1, hz0] at this ⊢
          simp at this ⊢
          omega
        · simp only [nHand, freeFd]
          show 1 = cnt _ s2.data + (m + 1)
          rw [d2, d1]
          have := hm0.1; simp only [nHand] at this
          omega

theorem mountGet_err {e : Env} {s s' : St} {t m : Nat} (h : LInv s t m) {er : Errno}
    (hg : mountGet e s = (s', some er)) : LInv s' t m := by
  unfold mountGet at hg
  split at hg
  · cases hg
  · split at hg
    · rename_i s1 heq1
      have := (Prod.mk.inj hg).1; subst this
      exact allocFd_fail h heq1
    · rename_i s1 heq1
      split at hg
      · rename_i s2 heq2
        have := (Prod.mk.inj hg).1; subst this
        exact freeFd_linv (allocFd_fail (allocFd_ok h heq1) heq2)
      · cases hg

/-- dropping one (temporary) reference on the mount fd -/
theorem mountPut_linv {s : St} {t m : Nat} (h : LInv s t (m + 1)) : LInv (mountPut s) t m := by
  unfold mountPut
  split
  · rename_i h1
    have hm := h.mr
    have hz : nHand s = 0 ∧ m = 0 := by omega
    refine ⟨h.nd, h.nh, ?_, ?_, h.hk, h.ck⟩
    · have := h.fds
      simp only [nFile, mfd, freeFd, h1] at this ⊢
      simp at this ⊢
      omega
    · simp only [nHand, freeFd]
      have := hz.1; simp only [nHand] at this
      show 0 = cnt _ s.data + m
      omega
  · rename_i h1
    have hm := h.mr
    refine ⟨h.nd, h.nh, ?_, ?_, h.hk, h.ck⟩
    · have := h.fds
      simp only [nFile, mfd] at this ⊢
      have hp : s.mountRefs > 0 := by omega
      have hp2 : s.mountRefs - 1 > 0 := by omega
      simp only [hp, hp2, if_true] at this ⊢
      exact this
    · simp only [nHand] at hm ⊢; show s.mountRefs - 1 = _; omega

/-- the state with one entry of the inode store replaced / added / removed, ledger untouched -/
def withData (s : St) (data : List (Ino × IData)) : St := { s with data := data }

theorem isNone_or_isSome (o : Option FhId) :
    (o.isNone = true ∧ o.isSome = false) ∨ (o.isNone = false ∧ o.isSome = true) := by
  cases o <;> simp

/-- taking an entry out of the store without dropping it: its resources become temporaries -/
theorem delEntry_linv {s : St} {t m : Nat} (h : LInv s t m) {ino : Ino} {old : IData}
    (hm : mget s.data ino = some old) :
    LInv (withData s (mdel s.data ino)) (t + (if old.fh.isNone then 1 else 0))
      (m + (if old.fh.isSome then 1 else 0)) := by
  have c1 := cnt_mdel (fun d : IData => d.fh.isNone) h.nd ino
  have c2 := cnt_mdel (fun d : IData => d.fh.isSome) h.nd ino
  rw [hm] at c1 c2
  simp only at c1 c2
  refine ⟨h.nd.mdel ino, h.nh, ?_, ?_, h.hk, h.ck⟩
  · have := h.fds
    show s.fds = 2 + cnt _ (mdel s.data ino) + mfd s + s.handles.length + _
    simp only [nFile] at this; omega
  · have := h.mr
    show s.mountRefs = cnt _ (mdel s.data ino) + _
    simp only [nHand] at this; omega

/-- putting an entry into a free slot of the store: it takes over its temporaries -/
theorem addEntry_linv {s : St} {t m : Nat} {ino : Ino} (d : IData) (hm : mget s.data ino = none)
    (h : LInv s (t + (if d.fh.isNone then 1 else 0)) (m + (if d.fh.isSome then 1 else 0))) :
    LInv (withData s (mput s.data ino d)) t m := by
  have c1 := cnt_mput (fun d : IData => d.fh.isNone) h.nd ino d
  have c2 := cnt_mput (fun d : IData => d.fh.isSome) h.nd ino d
  rw [hm] at c1 c2
  simp only at c1 c2
  refine ⟨h.nd.mput ino d, h.nh, ?_, ?_, h.hk, h.ck⟩
  · have := h.fds
    show s.fds = 2 + cnt _ (mput s.data ino d) + mfd s + s.handles.length + t
    simp only [nFile] at this; omega
  · have := h.mr
    show s.mountRefs = cnt _ (mput s.data ino d) + m
    simp only [nHand] at this; omega

theorem dropIData_linv {s : St} {t m : Nat} (d : IData)
    (h : LInv s (t + (if d.fh.isNone then 1 else 0)) (m + (if d.fh.isSome then 1 else 0))) :
    LInv (dropIData s d) t m := by
  unfold dropIData
  cases hf : d.fh with
  | none => simp only [hf, Option.isNone_none, Option.isSome_none, if_true] at h ⊢
            exact freeFd_linv (by simpa using h)
  | some x => simp only [hf, Option.isNone_some, Option.isSome_some, if_true] at h ⊢
              exact mountPut_linv (by simpa using h)

theorem mdel_mdel (m : List (Ino × IData)) (k : Ino) : mdel (mdel m k) k = mdel m k := by
  unfold mdel
  rw [List.filter_filter]
  congr 1
  funext p
  cases h : decide (p.1 = k) <;> simp [h]

theorem mput_mdel (m : List (Ino × IData)) (k : Ino) (v : IData) : mput (mdel m k) k v = mput m k v := by
  unfold mput; rw [mdel_mdel]

theorem setRefs_linv {s : St} {t m : Nat} (h : LInv s t m) {ino : Ino} {d : IData}
    (hm : mget s.data ino = some d) (r : Nat) : LInv (setRefs s ino d r) t m := by
  have h1 := delEntry_linv h hm
  have h2 : LInv (withData (withData s (mdel s.data ino)) (mput (mdel s.data ino) ino { d with refs := r })) t m :=
    addEntry_linv { d with refs := r } (by show mget (mdel s.data ino) ino = none; simp) h1
  rw [mput_mdel] at h2
  exact h2.of_eq ⟨rfl, rfl, rfl, rfl, rfl, rfl⟩

theorem dropIData_withData (s : St) (x : List (Ino × IData)) (d : IData) :
    dropIData (withData s x) d = withData (dropIData s d) x := by
  unfold dropIData
  cases d.fh with
  | none => rfl
  | some _ =>
    simp only
    unfold mountPut
    show (if s.mountRefs = 1 then _ else _) = withData (if s.mountRefs = 1 then _ else _) x
    split <;> rfl

/-- `InodeStore::insert`: the new entry takes over one temporary (its `O_PATH` descriptor, or its
    mount-fd reference); an entry it replaces is dropped -/
theorem insertInode_linv {s : St} {t m : Nat} (ino : Ino) (d : IData)
    (h : LInv s (t + (if d.fh.isNone then 1 else 0)) (m + (if d.fh.isSome then 1 else 0))) :
    LInv (insertInode s ino d) t m := by
  cases hm : mget s.data ino with
  | none =>
    have := addEntry_linv d hm h
    refine this.of_eq ⟨?_, ?_, ?_, ?_, ?_, ?_⟩ <;> simp [insertInode, hm, withData]
  | some old =>
    -- take the old entry out, drop it, put the new one in
    have h1 := delEntry_linv h hm
    have h2 := dropIData_linv (s := withData s (mdel s.data ino)) old h1
    rw [dropIData_withData] at h2
    have h3 : LInv (withData (withData (dropIData s old) (mdel s.data ino))
        (mput (mdel s.data ino) ino d)) t m :=
      addEntry_linv d (by show mget (mdel s.data ino) ino = none; simp) h2
    rw [mput_mdel] at h3
    refine h3.of_eq ⟨?_, ?_, ?_, ?_, ?_, ?_⟩
    · simp [insertInode, hm, withData, data_of_tables (tables_dropIData s old)]
    · simp [insertInode, hm, withData]
    · simp [insertInode, hm, withData]
    · simp [insertInode, hm, withData]
    · simp [insertInode, hm, withData]
    · simp [insertInode, hm, withData]

/-- `InodeStore::remove` + drop of the removed `InodeData` -/
theorem removeInode_linv {s : St} {t m : Nat} (h : LInv s t m) {ino : Ino} {d : IData}
    (hm : mget s.data ino = some d) (keep : Bool) : LInv (removeInode s ino d keep) t m := by
  have h1 := delEntry_linv h hm
  have h2 := dropIData_linv (s := withData s (mdel s.data ino)) d h1
  rw [dropIData_withData] at h2
  have ht := tables_dropIData s d
  refine h2.of_eq ⟨?_, ?_, ?_, ?_, ?_, ?_⟩
  · show (removeInode s ino d keep).data = mdel s.data ino
    simp
  · show (removeInode s ino d keep).handles = (dropIData s d).handles
    unfold removeInode
    cases keep <;> simp only [Bool.false_eq_true, if_false, if_true] <;>
      rw [handles_of_tables (tables_dropIData _ d), handles_of_tables ht]
  · show (removeInode s ino d keep).fds = (dropIData s d).fds
    unfold removeInode dropIData
    cases keep <;> cases d.fh <;> simp [freeFd, mountPut] <;> split <;> rfl
  · show (removeInode s ino d keep).mountRefs = (dropIData s d).mountRefs
    unfold removeInode dropIData
    cases keep <;> cases d.fh <;> simp [freeFd, mountPut] <;> split <;> rfl
  · show (removeInode s ino d keep).cookies = (dropIData s d).cookies
    unfold removeInode
    cases keep <;> simp only [Bool.false_eq_true, if_false, if_true] <;>
      rw [cookies_of_tables (tables_dropIData _ d), cookies_of_tables ht]
  · show (removeInode s ino d keep).nextHandle = (dropIData s d).nextHandle
    unfold removeInode
    cases keep <;> simp only [Bool.false_eq_true, if_false, if_true] <;>
      rw [nextHandle_of_tables (tables_dropIData _ d), nextHandle_of_tables ht]

end Fbr.PtRefs
