/-
  C15: the descriptor ledger.  `LInv s t m`: the process holds exactly 2 descriptors of its own
  (/proc/self/fd, mountinfo), one per inode kept by descriptor, one for the mount fd while any
  reference to it exists, one per handle, plus `t` temporaries of the request in progress; the
  mount fd's reference count is the number of inodes kept by handle plus `m` temporaries.
-/
import Fbr.PtRefs
import Fbr.Lemmas.PtMap
import Fbr.Lemmas.PtProj
import Fbr.Lemmas.PtCount
import Fbr.Lemmas.PtEffect

namespace Fbr.PtRefs

def nFile (s : St) : Nat := cnt (fun d : IData => d.fh.isNone) s.data
def nHand (s : St) : Nat := cnt (fun d : IData => d.fh.isSome) s.data
def mfd (s : St) : Nat := if s.mountRefs > 0 then 1 else 0

structure LInv (s : St) (t m : Nat) : Prop where
  nd : KeysNodup s.data
  nh : KeysNodup s.handles
  fds : s.fds = 2 + nFile s + mfd s + s.handles.length + t
  mr : s.mountRefs = nHand s + m

/-- states that agree on everything the ledger invariant reads -/
structure LEq (s s' : St) : Prop where
  data : s'.data = s.data
  handles : s'.handles = s.handles
  fds : s'.fds = s.fds
  mr : s'.mountRefs = s.mountRefs

theorem LInv.of_eq {s s' : St} {t m : Nat} (h : LInv s t m) (e : LEq s s') : LInv s' t m := by
  constructor
  · rw [e.data]; exact h.nd
  · rw [e.handles]; exact h.nh
  · unfold nFile mfd; rw [e.fds, e.data, e.mr, e.handles]; exact h.fds
  · unfold nHand; rw [e.mr, e.data]; exact h.mr

theorem allocFd_ok {e : Env} {s s' : St} {t m : Nat} (h : LInv s t m) (ha : allocFd e s = (s', true)) :
    LInv s' (t + 1) m := by
  unfold allocFd at ha
  split at ha
  · cases ha
  · have := (Prod.mk.inj ha).1; subst this
    exact ⟨h.nd, h.nh, by have := h.fds; simp only [nFile, mfd] at this ⊢; omega, h.mr⟩

theorem allocFd_fail {e : Env} {s s' : St} {t m : Nat} (h : LInv s t m) (ha : allocFd e s = (s', false)) :
    LInv s' t m := by
  unfold allocFd at ha
  split at ha
  · have := (Prod.mk.inj ha).1; subst this
    exact ⟨h.nd, h.nh, h.fds, h.mr⟩
  · cases ha

theorem freeFd_linv {s : St} {t m : Nat} (h : LInv s (t + 1) m) : LInv (freeFd s) t m := by
  have h1 : nFile (freeFd s) = nFile s := rfl
  have h2 : mfd (freeFd s) = mfd s := rfl
  have h3 : (freeFd s).handles = s.handles := rfl
  have h4 : (freeFd s).fds = s.fds - 1 := rfl
  refine ⟨h.nd, h.nh, ?_, h.mr⟩
  rw [h1, h2, h3, h4]; have := h.fds; omega

theorem closeTemp_linv {s : St} {t m : Nat} (b : Bool) (h : LInv s (t + (if b then 1 else 0)) m) :
    LInv (closeTemp s b) t m := by
  unfold closeTemp
  cases b
  · simpa using h
  · simp only [if_true] at h ⊢; exact freeFd_linv h

theorem getFile_linv {e : Env} {s s' : St} {t m : Nat} (d : IData) (st : Bool) (h : LInv s t m)
    (hg : getFile e s d st = (s', none)) : LInv s' (t + (if d.fh.isSome then 1 else 0)) m := by
  unfold getFile at hg
  split at hg
  · rename_i hf
    split at hg
    · cases hg
    · split at hg
      · cases hg
      · rename_i s1 heq
        have := (Prod.mk.inj hg).1; subst this
        simp only [hf, if_true]
        exact allocFd_ok h heq
  · rename_i hf
    have := (Prod.mk.inj hg).1; subst this
    simpa [hf] using h

theorem getFile_err {e : Env} {s s' : St} {t m : Nat} (d : IData) (st : Bool) (h : LInv s t m) {er : Errno}
    (hg : getFile e s d st = (s', some er)) : LInv s' t m := by
  unfold getFile at hg
  split at hg
  · split at hg
    · have := (Prod.mk.inj hg).1; subst this; exact h
    · split at hg
      · rename_i s1 heq
        have := (Prod.mk.inj hg).1; subst this
        exact allocFd_fail h heq
      · cases hg
  · cases hg

/-- `MountFds::get` succeeded: one more reference on the mount fd -/
theorem mountGet_ok {e : Env} {s s' : St} {t m : Nat} (h : LInv s t m) (hg : mountGet e s = (s', none)) :
    LInv s' t (m + 1) := by
  unfold mountGet at hg
  split at hg
  · rename_i hpos
    have := (Prod.mk.inj hg).1; subst this
    refine ⟨h.nd, h.nh, ?_, ?_⟩
    · have := h.fds; simp only [nFile, mfd] at this ⊢
      have hp : s.mountRefs + 1 > 0 := by omega
      simp only [hpos, hp, if_true] at this ⊢; exact this
    · have := h.mr; simp only [nHand] at this ⊢; omega
  · rename_i hz
    split at hg
    · cases hg
    · rename_i s1 heq1
      split at hg
      · cases hg
      · rename_i s2 heq2
        have := (Prod.mk.inj hg).1; subst this
        have l1 := allocFd_ok h heq1
        have l2 := allocFd_ok l1 heq2
        have hz0 : s.mountRefs = 0 := by omega
        have hm0 : nHand s = 0 ∧ m = 0 := by have := h.mr; omega
        have e1 : s1.mountRefs = s.mountRefs := by
          unfold allocFd at heq1; split at heq1
          · cases heq1
          · have := (Prod.mk.inj heq1).1; subst this; rfl
        have e2 : s2.mountRefs = s1.mountRefs := by
          unfold allocFd at heq2; split at heq2
          · cases heq2
          · have := (Prod.mk.inj heq2).1; subst this; rfl
        have d1 : s1.data = s.data := data_of_tables (by have := tables_allocFd e s; rw [heq1] at this; exact this)
        have d2 : s2.data = s1.data := data_of_tables (by have := tables_allocFd e s1; rw [heq2] at this; exact this)
        refine ⟨by show KeysNodup s2.data; exact l2.nd, by show KeysNodup s2.handles; exact l2.nh, ?_, ?_⟩
        · have := l2.fds
          simp only [nFile, mfd, freeFd, e2, e1, hz0] at this ⊢
          simp at this ⊢
          omega
        · simp only [nHand, freeFd]
          show 1 = cnt _ s2.data + (m + 1)
          rw [d2, d1]
          have := hm0.1; simp only [nHand] at this
          omega

theorem mountGet_err {e : Env} {s s' : St} {t m : Nat} (h : LInv s t m) {er : Errno}
    (hg : mountGet e s = (s', some er)) : LInv s' t m := by
  unfold mountGet at hg
  split at hg
  · cases hg
  · split at hg
    · rename_i s1 heq1
      have := (Prod.mk.inj hg).1; subst this
      exact allocFd_fail h heq1
    · rename_i s1 heq1
      split at hg
      · rename_i s2 heq2
        have := (Prod.mk.inj hg).1; subst this
        exact freeFd_linv (allocFd_fail (allocFd_ok h heq1) heq2)
      · cases hg

/-- dropping one (temporary) reference on the mount fd -/
theorem mountPut_linv {s : St} {t m : Nat} (h : LInv s t (m + 1)) : LInv (mountPut s) t m := by
  unfold mountPut
  split
  · rename_i h1
    have hm := h.mr
    have hz : nHand s = 0 ∧ m = 0 := by omega
    refine ⟨h.nd, h.nh, ?_, ?_⟩
    · have := h.fds
      simp only [nFile, mfd, freeFd, h1] at this ⊢
      simp at this ⊢
      omega
    · simp only [nHand, freeFd]
      have := hz.1; simp only [nHand] at this
      show 0 = cnt _ s.data + m
      omega
  · rename_i h1
    have hm := h.mr
    refine ⟨h.nd, h.nh, ?_, ?_⟩
    · have := h.fds
      simp only [nFile, mfd] at this ⊢
      have hp : s.mountRefs > 0 := by omega
      have hp2 : s.mountRefs - 1 > 0 := by omega
      simp only [hp, hp2, if_true] at this ⊢
      exact this
    · simp only [nHand] at hm ⊢; show s.mountRefs - 1 = _; omega

theorem cnt_data_mput (s : St) (h : KeysNodup s.data) (ino : Ino) (d : IData) :
    cnt (fun d : IData => d.fh.isNone) (mput s.data ino d) + (match mget s.data ino with
        | some o => if o.fh.isNone then 1 else 0
        | none => 0) = nFile s + (if d.fh.isNone then 1 else 0)
    ∧ cnt (fun d : IData => d.fh.isSome) (mput s.data ino d) + (match mget s.data ino with
        | some o => if o.fh.isSome then 1 else 0
        | none => 0) = nHand s + (if d.fh.isSome then 1 else 0) :=
  ⟨cnt_mput _ h ino d, cnt_mput _ h ino d⟩

theorem setRefs_linv {s : St} {t m : Nat} (h : LInv s t m) {ino : Ino} {d : IData}
    (hm : mget s.data ino = some d) (r : Nat) : LInv (setRefs s ino d r) t m := by
  have hc := cnt_data_mput s h.nd ino { d with refs := r }
  rw [hm] at hc
  simp only at hc
  refine ⟨h.nd.mput _ _, h.nh, ?_, ?_⟩
  · have := h.fds
    show s.fds = 2 + cnt _ (mput s.data ino { d with refs := r }) + mfd s + s.handles.length + t
    have := hc.1; simp only [nFile] at *; omega
  · have := h.mr
    show s.mountRefs = cnt _ (mput s.data ino { d with refs := r }) + m
    have := hc.2; simp only [nHand] at *; omega

theorem isNone_or_isSome (o : Option FhId) : (o.isNone = true ∧ o.isSome = false) ∨ (o.isNone = false ∧ o.isSome = true) := by
  cases o <;> simp

/-- `InodeStore::insert`: the new entry takes over one temporary (its `O_PATH` descriptor, or its
    mount-fd reference); an entry it replaces is dropped -/
theorem insertInode_linv {s : St} {t m : Nat} (ino : Ino) (d : IData)
    (h : LInv s (t + (if d.fh.isNone then 1 else 0)) (m + (if d.fh.isSome then 1 else 0))) :
    LInv (insertInode s ino d) t m := by
  have hc := cnt_data_mput s h.nd ino d
  have hfds := h.fds
  have hmr := h.mr
  unfold insertInode
  cases hm : mget s.data ino with
  | none =>
    rw [hm] at hc
    simp only at hc ⊢
    refine ⟨h.nd.mput _ _, h.nh, ?_, ?_⟩
    · show s.fds = 2 + cnt _ (mput s.data ino d) + mfd s + s.handles.length + t
      have := hc.1; simp only [nFile] at *; omega
    · show s.mountRefs = cnt _ (mput s.data ino d) + m
      have := hc.2; simp only [nHand] at *
      rcases isNone_or_isSome d.fh with ⟨a, b⟩ | ⟨a, b⟩ <;> simp only [a, b] at * <;> omega
  | some old =>
    rw [hm] at hc
    simp only at hc ⊢
    have hdt := tables_dropIData s old
    have hdd := data_of_tables hdt
    have hdh := handles_of_tables hdt
    refine ⟨by show KeysNodup (mput (dropIData s old).data ino d); rw [hdd]; exact h.nd.mput _ _,
      by show KeysNodup (dropIData s old).handles; rw [hdh]; exact h.nh, ?_, ?_⟩
    · show (dropIData s old).fds = 2 + cnt _ (mput (dropIData s old).data ino d)
          + (if (dropIData s old).mountRefs > 0 then 1 else 0) + (dropIData s old).handles.length + t
      rw [hdd, hdh]
      have c1 := hc.1; have c2 := hc.2
      simp only [nFile, nHand, mfd] at *
      unfold dropIData
      rcases isNone_or_isSome old.fh with ⟨a, b⟩ | ⟨a, b⟩
      · have : old.fh = none := by cases hx : old.fh <;> simp_all
        simp only [this, freeFd]
        rcases isNone_or_isSome d.fh with ⟨a', b'⟩ | ⟨a', b'⟩ <;> simp only [a, b, a', b'] at * <;>
          (split at hfds <;> simp_all <;> omega)
      · obtain ⟨hh, hx⟩ : ∃ hh, old.fh = some hh := by cases hx : old.fh <;> simp_all
        simp only [hx]
        unfold mountPut
        rcases isNone_or_isSome d.fh with ⟨a', b'⟩ | ⟨a', b'⟩ <;> simp only [a, b, a', b'] at * <;>
          (split <;> simp only [freeFd] <;> (split at hfds <;> simp_all <;> omega))
    · show (dropIData s old).mountRefs = cnt _ (mput (dropIData s old).data ino d) + m
      rw [hdd]
      have c2 := hc.2
      simp only [nHand] at *
      unfold dropIData
      rcases isNone_or_isSome old.fh with ⟨a, b⟩ | ⟨a, b⟩
      · have : old.fh = none := by cases hx : old.fh <;> simp_all
        simp only [this, freeFd]
        rcases isNone_or_isSome d.fh with ⟨a', b'⟩ | ⟨a', b'⟩ <;> simp only [a, b, a', b'] at * <;> omega
      · obtain ⟨hh, hx⟩ : ∃ hh, old.fh = some hh := by cases hx : old.fh <;> simp_all
        simp only [hx]
        unfold mountPut
        rcases isNone_or_isSome d.fh with ⟨a', b'⟩ | ⟨a', b'⟩ <;> simp only [a, b, a', b'] at * <;>
          (split <;> simp only [freeFd] <;> omega)

end Fbr.PtRefs
