/-
  Lemmas for C19: well-formedness of the pseudo tree and the range of the mapping table are
  preserved by every operation of a VFS that never evicts pseudo directories; what
  `restore (save s)` reproduces.
-/
import Fbr.Vfs
import Fbr.Persist
import Fbr.Lemmas.VfsAlloc
import Fbr.Lemmas.VfsInv
import Fbr.Lemmas.VfsPseudo

namespace Fbr.Lemmas.VfsPersist
open Fbr.Vfs Fbr.Persist Fbr.Lemmas.VfsAlloc Fbr.Lemmas.VfsInv Fbr.Lemmas.VfsPseudo

/-- the per-mount mapping table has 256 entries -/
def MapsRange (s : State) : Prop := ∀ i, 256 ≤ i → s.mountMaps i = none

/-- what C19 needs of a state besides `Inv`: a well-formed pseudo tree, a 256-entry mapping table,
    and no eviction of pseudo directories (`remove_pseudo_root` off) -/
structure PInv (s : State) : Prop where
  wf : WF s.pseudo
  range : MapsRange s
  norm : s.rmRoot = false

theorem pinv_new (opts : Opts) : PInv (State.new opts false) :=
  ⟨wf_new, fun _ _ => rfl, rfl⟩

theorem insertMountLocked_frame {s s' : State} {b : Bk} {idx : Nat} {path : Name} {r : Except Nat Unit}
    (hwf : WF s.pseudo) (hi : s.insertMountLocked b idx path = some (s', r)) :
    WF s'.pseudo ∧ s'.mountMaps = s.mountMaps ∧ s'.rmRoot = s.rmRoot ∧ s'.nextSuper = s.nextSuper ∧
    s'.globalMap = s.globalMap ∧ s'.opts = s.opts ∧ s'.initialized = s.initialized := by
  unfold State.insertMountLocked at hi
  split at hi
  · cases hi; exact ⟨hwf, rfl, rfl, rfl, rfl, rfl, rfl⟩
  · split at hi
    · cases hi
    · rename_i comps _ _ p' inode hw
      obtain ⟨p'', ino'', hw', hwf', _⟩ := mountWalk_wf comps s.pseudo 1 hwf (root_mem hwf)
      rw [hw] at hw'
      simp only [Option.some.injEq, Prod.mk.injEq] at hw'
      obtain ⟨rfl, rfl⟩ := hw'
      simp only at hi
      split at hi
      · cases hi
      · cases hi; exact ⟨hwf', rfl, rfl, rfl, rfl, rfl, rfl⟩
      · cases hi; exact ⟨hwf', rfl, rfl, rfl, rfl, rfl, rfl⟩

theorem mount_pinv {s : State} (hinv : Inv s) (h : PInv s) (b : Bk) (path : Name) (map : Option Map) :
    PInv (s.mount b path map).1 := by
  rcases mount_cases s hinv.next b path map with ⟨h1, _⟩ | ⟨next, _, h1, _⟩ | ⟨next, idx, hn, hne, hlt, hvac, ⟨h1, _⟩ | ⟨s3, r, hins, h1, _⟩⟩
  · rw [h1]; exact h
  · rw [h1]; exact ⟨h.wf, h.range, h.norm⟩
  · rw [h1]
    refine ⟨h.wf, ?_, h.norm⟩
    intro i hi
    have : i ≠ idx := by omega
    simp only [upd, this, if_false]
    exact h.range i hi
  · rw [h1]
    have hwf2 : WF (State.pseudo { s with nextSuper := next, mountMaps := upd s.mountMaps idx map }) := h.wf
    obtain ⟨a, b', c, _⟩ := insertMountLocked_frame hwf2 hins
    refine ⟨a, ?_, by rw [c]; exact h.norm⟩
    intro i hi
    rw [b']
    have : i ≠ idx := by omega
    simp only [upd, this, if_false]
    exact h.range i hi

theorem umount_pinv {s : State} (hinv : Inv s) (h : PInv s) (path : Name) : PInv (s.umount path).1 := by
  rcases umount_cases s path with h1 | ⟨inode, m0, pseudo, hm0, hev, h1⟩
  · rw [h1]; exact h
  · rw [h1]
    have hev := hev h.norm
    subst hev
    refine ⟨h.wf, ?_, h.norm⟩
    intro i hi
    have hlt := hinv.idx_lt hm0
    have : i ≠ m0.idx := by omega
    simp only [upd, this, if_false]
    exact h.range i hi

theorem init_pinv {s : State} (h : PInv s) (opts : Nat) : PInv (s.init opts).1 := by
  unfold State.init
  split
  · exact h
  · simp only
    split <;> exact ⟨h.wf, h.range, h.norm⟩

theorem destroy_pinv {s : State} (h : PInv s) : PInv (s.destroy).1 := by
  unfold State.destroy
  split
  · exact ⟨h.wf, h.range, h.norm⟩
  · exact h

/-- the mapping table survives save + load of the current format -/
theorem loadMaps_save (s : State) (h : MapsRange s) :
    (fun i => ((loadMaps (save s) false)[i]?).join) = s.mountMaps := by
  funext i
  simp only [loadMaps, save, Bool.false_eq_true, if_false]
  by_cases hi : i < MAX_VFS_INDEX
  · simp [List.getElem?_map, List.getElem?_range hi]
  · have : MAX_VFS_INDEX ≤ i := by omega
    rw [List.getElem?_eq_none (by simp; exact this)]
    simp only [Option.join_none]
    exact (h i (by unfold MAX_VFS_INDEX at this; exact this)).symm

end Fbr.Lemmas.VfsPersist
